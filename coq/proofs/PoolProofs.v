(* Proofs about theories/Pool.v: size-class round trip; exclusive ownership,
   conservation, LIFO reuse and panic-freedom for every history of a pool client. *)
From Coq Require Import ZArith List Bool Lia.
Require Import NS.theories.Generated NS.theories.Bump NS.theories.Pool NS.proofs.BumpProofs.
Import ListNotations.
Open Scope Z_scope.

(* ---------- size classes (over the generated SLOT_SIZES) ---------- *)

Definition slot_size (c : Z) : Z := nth (Z.to_nat c) slot_sizes 0.

Definition class_ok_b (n : Z) : bool :=
  match size_class n with
  | Some c => (0 <=? c) && (c <? class_count) && (n <=? slot_size c) &&
              ((c =? 0) || (slot_size (c - 1) <? n))
  | None => false
  end.

Fixpoint upto (k : nat) : list Z :=
  match k with O => [] | S k' => upto k' ++ [Z.of_nat k'] end.

Lemma upto_In k x : 0 <= x < Z.of_nat k -> In x (upto k).
Proof.
  induction k as [|k IH]; intros H; [lia|]. cbn [upto]. apply in_or_app.
  destruct (Z.eq_dec x (Z.of_nat k)) as [->|Hne]; [right; left; reflexivity|left; apply IH; lia].
Qed.

Lemma class_sweep : forallb class_ok_b (upto 257) = true.
Proof. vm_compute. reflexivity. Qed.

Lemma class_roundtrip_lemma n c :
  0 <= n -> size_class n = Some c ->
  0 <= c < class_count /\ n <= slot_size c /\ (c = 0 \/ slot_size (c - 1) < n).
Proof.
  intros Hn Hc.
  assert (Hle : n <= 256).
  { unfold size_class in Hc. destruct (n <=? 128) eqn:E1; [apply Z.leb_le in E1; lia|].
    destruct (n <=? 256) eqn:E2; [apply Z.leb_le in E2; lia|discriminate]. }
  pose proof class_sweep as Hs. rewrite forallb_forall in Hs.
  specialize (Hs n (upto_In 257 n ltac:(lia))). unfold class_ok_b in Hs. rewrite Hc in Hs.
  rewrite !andb_true_iff in Hs. destruct Hs as [[[H0 H1] H2] H3].
  apply Z.leb_le in H0. apply Z.ltb_lt in H1. apply Z.leb_le in H2.
  apply orb_prop in H3. destruct H3 as [H3|H3]; [apply Z.eqb_eq in H3|apply Z.ltb_lt in H3]; auto.
Qed.

Lemma class_none_iff n : size_class n = None <-> 256 < n.
Proof.
  unfold size_class. destruct (n <=? 128) eqn:E1.
  - apply Z.leb_le in E1. split; [discriminate|lia].
  - apply Z.leb_gt in E1. destruct (n <=? 256) eqn:E2.
    + apply Z.leb_le in E2. split; [discriminate|lia].
    + apply Z.leb_gt in E2. split; [lia|reflexivity].
Qed.

(* side conditions of the generated tables used by the proofs below *)
Lemma tables_ok :
  Z.of_nat (length slot_sizes) = class_count /\ Z.of_nat (length slot_counts) = class_count /\
  forallb (fun s => (0 <? s) && (s mod 8 =? 0)) slot_sizes = true /\
  forallb (fun c => 0 <? c) slot_counts = true.
Proof. vm_compute. repeat split; reflexivity. Qed.

(* ---------- one pool ---------- *)

Definition PInv (c : pclient) : Prop :=
  let p := pc_pool c in
  0 < p_ssz p /\ 0 <= p_bump p <= p_cnt p /\
  Forall (fun i => 0 <= i < p_bump p) (p_free p) /\
  NoDup (p_free p) /\
  p_live p + Z.of_nat (length (p_free p)) = p_bump p /\
  p_live p = Z.of_nat (length (pc_live c)) /\
  NoDup (pc_live c) /\
  Forall (fun a => exists i, 0 <= i < p_bump p /\ a = slot_addr p i /\ ~ In i (p_free p)) (pc_live c).

Lemma slot_addr_inj p i j : 0 < p_ssz p -> slot_addr p i = slot_addr p j -> i = j.
Proof. unfold slot_addr. intros. nia. Qed.

Lemma index_of_slot p i :
  0 < p_ssz p -> 0 <= i < p_cnt p -> index_of p (slot_addr p i) = Some i.
Proof.
  intros Hs Hi. unfold index_of, slot_addr.
  replace (p_base p + i * p_ssz p - p_base p) with (i * p_ssz p) by lia.
  rewrite Z.mod_mul by lia. rewrite Z.div_mul by lia.
  replace (i * p_ssz p <? 0) with false by (symmetry; apply Z.ltb_ge; nia).
  replace (i * p_ssz p >=? p_ssz p * p_cnt p) with false
    by (symmetry; rewrite Z.geb_leb; apply Z.leb_gt; nia).
  reflexivity.
Qed.

Lemma firstn_In_l {A} k (l : list A) x : In x (firstn k l) -> In x l.
Proof. rewrite <- (firstn_skipn k l) at 2. intros. apply in_or_app. auto. Qed.

Lemma skipn_In_l {A} k (l : list A) x : In x (skipn k l) -> In x l.
Proof. rewrite <- (firstn_skipn k l) at 2. intros. apply in_or_app. auto. Qed.

Lemma remove_nth_In {A} k (l : list A) x : In x (remove_nth k l) -> In x l.
Proof.
  unfold remove_nth. intros H. apply in_app_or in H. destruct H as [H|H].
  - eapply firstn_In_l; eauto.
  - eapply skipn_In_l; eauto.
Qed.

Lemma nth_error_split_remove {A} k (l : list A) a :
  nth_error l k = Some a -> l = firstn k l ++ a :: skipn (S k) l.
Proof.
  revert l. induction k as [|k IH]; intros [|x l] H; cbn in *; try discriminate.
  - inversion H; reflexivity.
  - f_equal. apply IH. assumption.
Qed.

Lemma remove_nth_length {A} k (l : list A) a :
  nth_error l k = Some a -> S (length (remove_nth k l)) = length l.
Proof.
  intros H. rewrite (nth_error_split_remove k l a H) at 2. unfold remove_nth.
  rewrite !app_length. cbn [length]. lia.
Qed.

Lemma NoDup_remove_nth {A} k (l : list A) a :
  nth_error l k = Some a -> NoDup l -> NoDup (remove_nth k l) /\ ~ In a (remove_nth k l).
Proof.
  intros H Hn. rewrite (nth_error_split_remove k l a H) in Hn. unfold remove_nth.
  apply NoDup_remove in Hn. exact Hn.
Qed.

Lemma pstep_inv c o : PInv c -> PInv (fst (pstep c o)) /\ snd (pstep c o) <> PRPanic.
Proof.
  intros (Hs & Hb & Hf & Hnf & Hcons & Hlen & Hnl & Hl).
  destruct o as [|idx|addr]; cbn [pstep].
  - (* alloc *)
    unfold pool_alloc. destruct (p_free (pc_pool c)) as [|i rest] eqn:Ef.
    + destruct (p_bump (pc_pool c) >=? p_cnt (pc_pool c)) eqn:Eb; cbn [fst snd].
      * split; [|discriminate]. unfold PInv. try rewrite Ef. auto 10.
      * rewrite Z.geb_leb in Eb. apply Z.leb_gt in Eb. split; [|discriminate].
        unfold PInv; cbn [pc_pool pc_live p_ssz p_bump p_cnt p_free p_live length].
        cbn [length] in Hcons.
        refine (conj Hs (conj _ (conj _ (conj _ (conj _ (conj _ (conj _ _))))))).
        -- lia.
        -- constructor.
        -- constructor.
        -- cbn [length]. lia.
        -- rewrite Hlen. lia.
        -- constructor; [|assumption]. intros Hin. rewrite Forall_forall in Hl.
           destruct (Hl _ Hin) as [j [Hj [Heq _]]].
           unfold slot_addr in Heq; cbn [p_base p_ssz] in Heq. nia.
        -- constructor.
           ++ exists (p_bump (pc_pool c)). split; [lia|]. split; [reflexivity|]. intros [].
           ++ eapply Forall_impl; [|exact Hl]. cbn beta. intros a [j [Hj [Heq Hnin]]].
              exists j. split; [lia|]. split; [exact Heq|]. intros [].
    + cbn [fst snd]. split; [|discriminate].
      inversion Hf as [|? ? Hi Hrest]; subst. inversion Hnf as [|? ? Hnotin Hnrest]; subst.
      unfold PInv; cbn [pc_pool pc_live p_ssz p_bump p_cnt p_free p_live length].
      cbn [length] in Hcons.
      refine (conj Hs (conj Hb (conj Hrest (conj Hnrest (conj _ (conj _ (conj _ _))))))).
      * lia.
      * rewrite Hlen. lia.
      * constructor; [|assumption]. intros Hin. rewrite Forall_forall in Hl.
        destruct (Hl _ Hin) as [j [Hj [Heq Hnin]]].
        assert (i = j). { apply (slot_addr_inj (pc_pool c)); [assumption|]. exact Heq. }
        subst j. apply Hnin. try rewrite Ef. left; reflexivity.
      * constructor.
        -- exists i. split; [lia|]. split; [reflexivity|]. exact Hnotin.
        -- eapply Forall_impl; [|exact Hl]. cbn beta. intros a [j [Hj [Heq Hnin]]].
           exists j. split; [lia|]. split; [exact Heq|]. intros Hin. apply Hnin. try rewrite Ef. right; exact Hin.
  - (* free *)
    destruct (pc_live c) as [|a0 l0] eqn:El; cbn [fst snd]; [split; [|discriminate]; unfold PInv; rewrite El; auto 10|].
    rewrite <- El in *.
    destruct (nth_error (pc_live c) (Nat.modulo idx (length (pc_live c)))) as [a|] eqn:En; cbn [fst snd];
      [|split; [unfold PInv; auto 10|discriminate]].
    pose proof (nth_error_In _ _ En) as Hin.
    pose proof Hl as Hl'. rewrite Forall_forall in Hl'. destruct (Hl' a Hin) as [i [Hi [Ha Hnin]]].
    unfold pool_dealloc. rewrite Ha. rewrite index_of_slot by lia.
    replace (i <? p_bump (pc_pool c)) with true by (symmetry; apply Z.ltb_lt; lia).
    assert (Hpos : 0 < p_live (pc_pool c)).
    { rewrite Hlen. destruct (pc_live c); [destruct Hin|cbn [length]; lia]. }
    replace (0 <? p_live (pc_pool c)) with true by (symmetry; apply Z.ltb_lt; lia).
    cbn [andb fst snd]. split; [|discriminate].
    destruct (NoDup_remove_nth _ _ _ En Hnl) as [Hnl' Hnotin'].
    pose proof (remove_nth_length _ _ _ En) as Hlen'.
    unfold PInv; cbn [pc_pool pc_live p_ssz p_bump p_cnt p_free p_live length].
    refine (conj Hs (conj Hb (conj _ (conj _ (conj _ (conj _ (conj Hnl' _))))))).
    + constructor; [lia|assumption].
    + constructor; assumption.
    + cbn [length]. lia.
    + lia.
    + apply Forall_forall. intros b Hb'. pose proof (remove_nth_In _ _ _ Hb') as Hbin.
      destruct (Hl' b Hbin) as [j [Hj [Hbj Hnj]]]. exists j. split; [lia|]. split; [exact Hbj|].
      intros [Heq|Hinf]; [|contradiction]. subst j. apply Hnotin'. rewrite Ha, <- Hbj. exact Hb'.
  - cbn [fst snd]. split; [|discriminate]. unfold PInv; auto 10.
Qed.

Lemma pinit_inv base ssz cnt : 0 < ssz -> 0 <= cnt -> PInv (mkPClient (pool_new base ssz cnt) []).
Proof.
  intros. unfold PInv, pool_new; cbn. repeat split; try lia; constructor.
Qed.

Lemma prun_inv ops : forall c, PInv c -> PInv (prun c ops).
Proof.
  induction ops as [|o ops IH]; intros c H; cbn [prun fold_left]; [assumption|].
  apply IH. apply pstep_inv. assumption.
Qed.

(* Consequences of PInv *)
Lemma pinv_conservation c :
  PInv c -> let p := pc_pool c in
  p_live p + Z.of_nat (length (p_free p)) + (p_cnt p - p_bump p) = p_cnt p.
Proof. intros (_ & _ & _ & _ & H & _). cbn zeta. lia. Qed.

Lemma pinv_exclusive c a1 a2 :
  PInv c -> In a1 (pc_live c) -> In a2 (pc_live c) -> a1 <> a2 ->
  a1 + p_ssz (pc_pool c) <= a2 \/ a2 + p_ssz (pc_pool c) <= a1.
Proof.
  intros (Hs & _ & _ & _ & _ & _ & _ & Hl) H1 H2 Hne. rewrite Forall_forall in Hl.
  destruct (Hl _ H1) as [i [_ [-> _]]]. destruct (Hl _ H2) as [j [_ [-> _]]].
  unfold slot_addr in *. assert (i <> j) by congruence. nia.
Qed.

Lemma pinv_in_block c a :
  PInv c -> In a (pc_live c) ->
  p_base (pc_pool c) <= a /\ a + p_ssz (pc_pool c) <= p_base (pc_pool c) + p_ssz (pc_pool c) * p_cnt (pc_pool c).
Proof.
  intros (Hs & Hb & _ & _ & _ & _ & _ & Hl) H1. rewrite Forall_forall in Hl.
  destruct (Hl _ H1) as [i [Hi [-> _]]]. unfold slot_addr. nia.
Qed.

(* a freshly allocated slot is not owned by anybody else, and it is the most recently
   freed one when there is one (LIFO), else the next virgin slot *)
Lemma palloc_fresh c addr len :
  PInv c -> snd (pstep c PAlloc) = PRSlot addr len ->
  ~ In addr (pc_live c) /\ len = p_ssz (pc_pool c) /\
  addr = slot_addr (pc_pool c) (match p_free (pc_pool c) with i :: _ => i | [] => p_bump (pc_pool c) end).
Proof.
  intros HI Hres. pose proof (pstep_inv c PAlloc HI) as [HI' _].
  cbn [pstep] in *. unfold pool_alloc in *.
  destruct (p_free (pc_pool c)) as [|i rest] eqn:Ef.
  - destruct (p_bump (pc_pool c) >=? p_cnt (pc_pool c)); cbn [fst snd] in *; [discriminate|].
    inversion Hres; subst. destruct HI' as (_ & _ & _ & _ & _ & _ & Hnd & _). cbn [pc_live] in Hnd.
    inversion Hnd; subst. auto.
  - cbn [fst snd] in *. inversion Hres; subst.
    destruct HI' as (_ & _ & _ & _ & _ & _ & Hnd & _). cbn [pc_live] in Hnd.
    inversion Hnd; subst. auto.
Qed.

Lemma pcontains_iff p addr :
  pool_contains p addr = true <-> p_base p <= addr < p_base p + p_ssz p * p_cnt p.
Proof.
  unfold pool_contains. rewrite andb_true_iff, Z.leb_le, Z.ltb_lt. lia.
Qed.

(* ---------- PoolSet on a bump arena ---------- *)

Definition pool_ok (p : pool) : Prop :=
  0 < p_ssz p /\ 0 <= p_bump p <= p_cnt p /\
  Forall (fun i => 0 <= i < p_bump p) (p_free p) /\ NoDup (p_free p) /\
  p_live p + Z.of_nat (length (p_free p)) = p_bump p.

Definition pend (p : pool) : Z := p_base p + p_ssz p * p_cnt p.

(* slot blocks laid out in increasing address order, starting at or above [lo] *)
Fixpoint blocks_sorted (lo : Z) (ps : list pool) : Prop :=
  match ps with
  | [] => True
  | p :: r => lo <= p_base p /\ 0 < p_ssz p /\ 0 <= p_cnt p /\ blocks_sorted (pend p) r
  end.

Fixpoint blocks_hi (lo : Z) (ps : list pool) : Z :=
  match ps with [] => lo | p :: r => blocks_hi (pend p) r end.

Definition same_static (p q : pool) : Prop :=
  p_base p = p_base q /\ p_ssz p = p_ssz q /\ p_cnt p = p_cnt q.

Lemma blocks_hi_ge lo ps : blocks_sorted lo ps -> lo <= blocks_hi lo ps.
Proof.
  revert lo. induction ps as [|p r IH]; intros lo H; cbn in *; [lia|].
  destruct H as (H1 & H2 & H3 & H4). specialize (IH _ H4). unfold pend in *. nia.
Qed.

Lemma blocks_nth lo ps k p :
  blocks_sorted lo ps -> nth_error ps k = Some p ->
  lo <= p_base p /\ 0 < p_ssz p /\ 0 <= p_cnt p /\ pend p <= blocks_hi lo ps.
Proof.
  revert lo k. induction ps as [|q r IH]; intros lo k H Hn; [destruct k; discriminate|].
  cbn in H. destruct H as (H1 & H2 & H3 & H4). destruct k as [|k]; cbn in Hn.
  - inversion Hn; subst q. cbn [blocks_hi]. pose proof (blocks_hi_ge _ _ H4). auto.
  - destruct (IH _ _ H4 Hn) as (A & B & C & D). cbn [blocks_hi].
    unfold pend in *. repeat split; try assumption. nia.
Qed.

Lemma blocks_disjoint lo ps k1 k2 p1 p2 :
  blocks_sorted lo ps -> (k1 < k2)%nat ->
  nth_error ps k1 = Some p1 -> nth_error ps k2 = Some p2 -> pend p1 <= p_base p2.
Proof.
  revert lo k1 k2. induction ps as [|q r IH]; intros lo k1 k2 H Hlt H1 H2; [destruct k1; discriminate|].
  cbn in H. destruct H as (A & B & C & D).
  destruct k1 as [|k1]; destruct k2 as [|k2]; try lia; cbn in H1, H2.
  - inversion H1; subst q. destruct (blocks_nth _ _ _ _ D H2) as (E & _). exact E.
  - apply (IH (pend q) k1 k2); auto; lia.
Qed.

Lemma set_nth_length {A} n (x : A) l : length (set_nth n x l) = length l.
Proof. revert n. induction l as [|h t IH]; intros [|n]; cbn; auto. Qed.

Lemma set_nth_same {A} n (x : A) l y : nth_error l n = Some y -> nth_error (set_nth n x l) n = Some x.
Proof. revert n. induction l as [|h t IH]; intros [|n] H; cbn in *; try discriminate; auto. Qed.

Lemma set_nth_other {A} n m (x : A) l : n <> m -> nth_error (set_nth n x l) m = nth_error l m.
Proof.
  revert n m. induction l as [|h t IH]; intros [|n] [|m] H; cbn; auto; try congruence.
Qed.

Lemma blocks_sorted_set_nth lo ps n p q :
  blocks_sorted lo ps -> nth_error ps n = Some p -> same_static q p ->
  blocks_sorted lo (set_nth n q ps) /\ blocks_hi lo (set_nth n q ps) = blocks_hi lo ps.
Proof.
  revert lo n. induction ps as [|h t IH]; intros lo [|n] H Hn Hs; cbn in *; try discriminate.
  - inversion Hn; subst h. destruct Hs as (S1 & S2 & S3). destruct H as (A & B & C & D).
    unfold pend in *. rewrite S1, S2, S3. auto.
  - destruct H as (A & B & C & D). destruct (IH _ _ D Hn Hs) as [E F]. auto.
Qed.

Lemma blocks_sorted_weaken lo1 lo2 ps : lo1 <= lo2 -> blocks_sorted lo2 ps -> blocks_sorted lo1 ps.
Proof. destruct ps as [|q r]; cbn; auto. intros H (A & B & C & D). repeat split; auto; lia. Qed.

Lemma blocks_hi_mono lo1 lo2 ps : lo1 <= lo2 -> blocks_hi lo1 ps <= blocks_hi lo2 ps.
Proof. destruct ps as [|q r]; cbn; auto. lia. Qed.

(* the layout produced by pools_new *)
Lemma pools_new_sorted dbg : forall sizes counts s ps s',
  arena_ok (s_a s) ->
  Forall (fun x => 0 < x) sizes -> Forall (fun x => 0 <= x) counts ->
  pools_new dbg s sizes counts = Some (ps, s') ->
  blocks_sorted (a_off (s_a s)) ps /\ blocks_hi (a_off (s_a s)) ps <= a_off (s_a s') /\
  arena_ok (s_a s') /\ Forall pool_ok ps /\
  (forall x, x < a_off (s_a s) -> s_m s' x = s_m s x).
Proof.
  induction sizes as [|ssz sizes IH]; intros counts s ps s' Ha Hs Hc H.
  - cbn in H. inversion H; subst. cbn. refine (conj I (conj _ (conj Ha (conj (Forall_nil _) _)))); [lia|auto].
  - destruct counts as [|cnt counts]; [cbn in H; inversion H; subst; cbn; refine (conj I (conj _ (conj Ha (conj (Forall_nil _) _)))); [lia|auto]|].
    cbn [pools_new] in H. unfold pool_new_in in H.
    inversion Hs as [|? ? Hs1 Hs2]; subst. inversion Hc as [|? ? Hc1 Hc2]; subst.
    assert (P8 : pow2 8) by (exists 3; split; [lia|reflexivity]).
    assert (P4 : pow2 4) by (exists 2; split; [lia|reflexivity]).
    destruct (alloc_raw dbg s (ssz * cnt) 8) as [[[base l1] s1]|] eqn:E1; [|discriminate].
    destruct (alloc_raw_some dbg s (ssz * cnt) 8 base l1 s1 Ha ltac:(nia) P8 E1)
      as (_ & _ & G1 & _ & _ & _ & O1 & Ha1 & _ & _ & M1).
    destruct (alloc_raw dbg s1 (cnt * 4) 4) as [[[b2 l2] s2]|] eqn:E2; [|discriminate].
    destruct (alloc_raw_some dbg s1 (cnt * 4) 4 b2 l2 s2 Ha1 ltac:(lia) P4 E2)
      as (_ & _ & G2 & _ & _ & _ & O2 & Ha2 & _ & _ & M2).
    destruct (pools_new dbg s2 sizes counts) as [[ps2 s3]|] eqn:E3; [|discriminate].
    inversion H; subst ps s'; clear H.
    destruct (IH _ _ _ _ Ha2 Hs2 Hc2 E3) as (B1 & B2 & B3 & B4 & B5).
    cbn [blocks_sorted blocks_hi]. unfold pend, pool_new; cbn [p_base p_ssz p_cnt].
    assert (Hle : base + ssz * cnt <= a_off (s_a s2)) by lia.
    split; [|split; [|split; [|split]]].
    + repeat split; try lia. eapply blocks_sorted_weaken; [|exact B1]. lia.
    + pose proof (blocks_hi_mono (base + ssz * cnt) (a_off (s_a s2)) ps2 Hle). lia.
    + assumption.
    + constructor; [|assumption]. unfold pool_ok; cbn. repeat split; try lia; constructor.
    + intros x Hx. rewrite B5 by lia. rewrite M2 by lia. apply M1. assumption.
Qed.

Definition key_of (b : sbuf) : list (Z * Z) :=
  match sb_org b with FromPool k i => [(k, i)] | FromArena => [] end.

Definition buf_ok (ps : pset) (hi : Z) (b : sbuf) : Prop :=
  match sb_org b with
  | FromPool k i =>
      0 <= k /\ size_class (sb_size b) = Some k /\
      exists p, nth_error (ps_pools ps) (Z.to_nat k) = Some p /\
                0 <= i < p_bump p /\ ~ In i (p_free p) /\
                sb_addr b = slot_addr p i /\ sb_len b = p_ssz p
  | FromArena =>
      sb_len b = sb_size b /\ 0 <= sb_len b /\ hi <= sb_addr b /\
      sb_addr b + sb_len b <= a_off (s_a (ps_arena ps))
  end.

Definition arena_disj (x y : sbuf) : Prop :=
  match sb_org x, sb_org y with
  | FromArena, FromArena =>
      sb_addr x + sb_len x <= sb_addr y \/ sb_addr y + sb_len y <= sb_addr x
  | _, _ => True
  end.

Definition SInv (lo : Z) (c : sclient) : Prop :=
  let ps := sc_set c in
  arena_ok (s_a (ps_arena ps)) /\
  blocks_sorted lo (ps_pools ps) /\
  blocks_hi lo (ps_pools ps) <= a_off (s_a (ps_arena ps)) /\
  Forall pool_ok (ps_pools ps) /\
  Forall (buf_ok ps (blocks_hi lo (ps_pools ps))) (sc_live c) /\
  NoDup (flat_map key_of (sc_live c)) /\
  ForallOrdPairs arena_disj (sc_live c).

Definition sop_ok (o : sop) : Prop :=
  match o with SAlloc size => 0 <= size | _ => True end.

Lemma Forall_set_nth {A} (P : A -> Prop) n x l : Forall P l -> P x -> Forall P (set_nth n x l).
Proof.
  revert n. induction l as [|h t IH]; intros [|n] Hl Hx; cbn; auto; inversion Hl; subst; auto.
Qed.

Lemma pigeon (l : list Z) n i :
  NoDup l -> Forall (fun x => 0 <= x < n) l -> ~ In i l -> 0 <= i < n -> Z.of_nat (length l) < n.
Proof.
  intros Hn Hb Hi Hin.
  assert (Hincl : incl (i :: l) (map Z.of_nat (seq 0 (Z.to_nat n)))).
  { intros x Hx. assert (0 <= x < n).
    { destruct Hx as [<-|Hx]; [lia|]. rewrite Forall_forall in Hb. auto. }
    apply in_map_iff. exists (Z.to_nat x). split; [lia|]. apply in_seq. lia. }
  assert (Hnd : NoDup (i :: l)) by (constructor; assumption).
  pose proof (NoDup_incl_length Hnd Hincl) as Hlen.
  rewrite map_length, seq_length in Hlen. cbn [length] in Hlen. lia.
Qed.

Lemma pool_alloc_ok p i p' :
  pool_ok p -> pool_alloc p = Some (i, p') ->
  pool_ok p' /\ same_static p' p /\ 0 <= i < p_bump p' /\ ~ In i (p_free p') /\
  p_bump p <= p_bump p' /\ (forall j, ~ In j (p_free p) -> j <> i -> ~ In j (p_free p')) /\
  (In i (p_free p) \/ i = p_bump p).
Proof.
  intros (Hs & Hb & Hf & Hn & Hc). unfold pool_alloc.
  destruct (p_free p) as [|j rest] eqn:Ef.
  - destruct (p_bump p >=? p_cnt p) eqn:E; [discriminate|]. rewrite Z.geb_leb in E. apply Z.leb_gt in E.
    intros H; inversion H; subst i p'; clear H. unfold pool_ok, same_static; cbn.
    cbn [length] in Hc. repeat split; try lia; try constructor; auto.
  - intros H; inversion H; subst j p'; clear H. unfold pool_ok, same_static; cbn [p_base p_ssz p_cnt p_free p_bump p_live].
    inversion Hf; subst. inversion Hn; subst. cbn [length] in Hc.
    repeat split; try lia; auto.
    + intros k Hk Hne Hin. apply Hk. right. exact Hin.
    + left. left. reflexivity.
Qed.

Lemma pool_dealloc_ok p i :
  pool_ok p -> 0 <= i < p_bump p -> ~ In i (p_free p) ->
  exists p', pool_dealloc p (slot_addr p i) = Some p' /\ pool_ok p' /\ same_static p' p /\
             p_bump p' = p_bump p /\ p_free p' = i :: p_free p.
Proof.
  intros (Hs & Hb & Hf & Hn & Hc) Hi Hnin. unfold pool_dealloc.
  rewrite index_of_slot by lia.
  pose proof (pigeon _ _ _ Hn Hf Hnin Hi) as Hp.
  replace (i <? p_bump p) with true by (symmetry; apply Z.ltb_lt; lia).
  replace (0 <? p_live p) with true by (symmetry; apply Z.ltb_lt; lia).
  cbn [andb]. eexists. split; [reflexivity|].
  unfold pool_ok, same_static; cbn [p_base p_ssz p_cnt p_free p_bump p_live length].
  split; [|repeat split; reflexivity].
  split; [assumption|]. split; [assumption|]. split; [constructor; [lia|assumption]|].
  split; [constructor; assumption|]. lia.
Qed.

Lemma FOP_app_remove {A} (R : A -> A -> Prop) l1 x l2 :
  ForallOrdPairs R (l1 ++ x :: l2) -> ForallOrdPairs R (l1 ++ l2).
Proof.
  induction l1 as [|h t IH]; cbn; intros H.
  - inversion H; subst; assumption.
  - inversion H; subst. constructor; [|auto].
    rewrite Forall_forall in *. intros y Hy. apply H2. apply in_app_or in Hy. apply in_or_app.
    destruct Hy; [left|right; right]; assumption.
Qed.

Lemma remove_nth_split {A} k (l : list A) a :
  nth_error l k = Some a -> l = firstn k l ++ a :: skipn (S k) l /\ remove_nth k l = firstn k l ++ skipn (S k) l.
Proof. intros H. split; [apply nth_error_split_remove; assumption|reflexivity]. Qed.

Lemma NoDup_app_remove_mid {A} (l1 m l2 : list A) :
  NoDup (l1 ++ m ++ l2) -> NoDup (l1 ++ l2) /\ forall x, In x m -> ~ In x (l1 ++ l2).
Proof.
  induction m as [|h t IH]; cbn [app]; intros H; [split; [assumption|intros x []]|].
  pose proof (NoDup_remove _ _ _ H) as [H1 H2]. destruct (IH H1) as [H3 H4].
  split; [assumption|]. intros x [<-|Hx]; [|auto].
  intros Hin. apply H2. apply in_app_or in Hin. apply in_or_app. destruct Hin; [left; assumption|right; apply in_or_app; right; assumption].
Qed.

Lemma pool_contains_slot p i :
  0 < p_ssz p -> 0 <= i < p_cnt p -> pool_contains p (slot_addr p i) = true.
Proof. intros. apply pcontains_iff. unfold slot_addr. nia. Qed.

Lemma to_nat_neq a b : 0 <= a -> 0 <= b -> a <> b -> Z.to_nat a <> Z.to_nat b.
Proof. lia. Qed.

(* buffers other than the one being allocated/freed stay ok when class k's pool is
   replaced by p' with the same static part, a bump that did not shrink, and a free list
   that does not contain their index *)
Lemma buf_ok_update ps k p p' hi b :
  0 <= k -> nth_error (ps_pools ps) (Z.to_nat k) = Some p -> same_static p' p ->
  p_bump p <= p_bump p' ->
  (forall j, sb_org b = FromPool k j -> ~ In j (p_free p) -> ~ In j (p_free p')) ->
  buf_ok ps hi b ->
  buf_ok (mkPSet (set_nth (Z.to_nat k) p' (ps_pools ps)) (ps_arena ps)) hi b.
Proof.
  intros Hk Hnth (S1 & S2 & S3) Hbump Hfree Hb. unfold buf_ok in *. cbn [ps_pools ps_arena].
  destruct (sb_org b) as [k2 i2|] eqn:Eo; [|assumption].
  destruct Hb as (Hk2 & Hsc & q & Hq & Hi2 & Hnin & Haddr & Hlen).
  split; [assumption|]. split; [assumption|].
  destruct (Z.eq_dec k2 k) as [->|Hne].
  - rewrite Hnth in Hq. inversion Hq; subst q. exists p'. split; [eapply set_nth_same; eassumption|].
    split; [lia|]. split; [apply Hfree; [reflexivity|assumption]|].
    unfold slot_addr in *. rewrite S1, S2. auto.
  - exists q. split; [|auto]. rewrite set_nth_other; [assumption|]. apply to_nat_neq; auto.
Qed.

Lemma key_in_ledger (L : list sbuf) k i :
  In (k, i) (flat_map key_of L) -> exists b, In b L /\ sb_org b = FromPool k i.
Proof.
  intros H. apply in_flat_map in H. destruct H as [b [Hb Hk]]. exists b. split; [assumption|].
  unfold key_of in Hk. destruct (sb_org b) as [k2 i2|]; [|destruct Hk].
  destruct Hk as [Hk|[]]. inversion Hk; reflexivity.
Qed.

Lemma sstep_inv dbg lo c o :
  SInv lo c -> sop_ok o ->
  SInv lo (fst (sstep dbg c o)) /\
  (snd (sstep dbg c o) = SRPanic ->
   exists size, o = SAlloc size /\ alloc_raw dbg (ps_arena (sc_set c)) size 1 = None).
Proof.
  intros HI Hop. pose proof HI as (Ha & Hbs & Hhi & Hpo & Hbuf & Hnd & Hfop).
  assert (P1 : pow2 1) by (exists 0; split; [lia|reflexivity]).
  destruct o as [size|idx|addr|n]; cbn [sstep sop_ok] in *.
  - (* alloc *)
    assert (Hfb : forall beg len s', alloc_raw dbg (ps_arena (sc_set c)) size 1 = Some (beg, len, s') ->
        SInv lo (mkSClient (mkPSet (ps_pools (sc_set c)) s') (mkSBuf beg size len FromArena :: sc_live c))).
    { intros beg len s' E.
      destruct (alloc_raw_some dbg _ size 1 beg len s' Ha Hop P1 E) as (-> & _ & Hge & _ & _ & _ & Hoff & Hok & _).
      unfold SInv; cbn [sc_set sc_live ps_pools ps_arena].
      refine (conj Hok (conj Hbs (conj _ (conj Hpo (conj _ (conj _ _)))))).
      - lia.
      - constructor.
        + unfold buf_ok; cbn [sb_org sb_len sb_size sb_addr ps_arena]. lia.
        + eapply Forall_impl; [|exact Hbuf]. intros b Hb. unfold buf_ok in *. cbn [ps_pools ps_arena].
          destruct (sb_org b); [assumption|]. lia.
      - cbn [flat_map key_of sb_org app]. assumption.
      - constructor; [|assumption]. apply Forall_forall. intros y Hy. unfold arena_disj; cbn [sb_org sb_addr sb_len].
        destruct (sb_org y) eqn:Ey; [exact I|]. rewrite Forall_forall in Hbuf. specialize (Hbuf y Hy).
        unfold buf_ok in Hbuf. rewrite Ey in Hbuf. lia. }
    unfold set_alloc.
    destruct (size_class size) as [k|] eqn:Ek.
    2:{ destruct (alloc_raw dbg (ps_arena (sc_set c)) size 1) as [[[beg len] s']|] eqn:E; cbn [fst snd].
        - split; [apply Hfb; reflexivity|discriminate].
        - split; [assumption|]. intros _. exists size. auto. }
    destruct (nth_error (ps_pools (sc_set c)) (Z.to_nat k)) as [p|] eqn:En.
    2:{ destruct (alloc_raw dbg (ps_arena (sc_set c)) size 1) as [[[beg len] s']|] eqn:E; cbn [fst snd].
        - split; [apply Hfb; reflexivity|discriminate].
        - split; [assumption|]. intros _. exists size. auto. }
    destruct (pool_alloc p) as [[i p']|] eqn:Ep.
    2:{ destruct (alloc_raw dbg (ps_arena (sc_set c)) size 1) as [[[beg len] s']|] eqn:E; cbn [fst snd].
        - split; [apply Hfb; reflexivity|discriminate].
        - split; [assumption|]. intros _. exists size. auto. }
    cbn [fst snd]. split; [|discriminate].
    destruct (class_roundtrip_lemma _ _ Hop Ek) as (Hk & _).
    assert (Hpok : pool_ok p). { rewrite Forall_forall in Hpo. apply Hpo. eapply nth_error_In; eassumption. }
    destruct (pool_alloc_ok _ _ _ Hpok Ep) as (Hok' & Hst & Hi & Hnin & Hbump & Hfree & Hsrc).
    destruct (blocks_sorted_set_nth _ _ _ _ p' Hbs En Hst) as [Hbs' Hhi'].
    unfold SInv; cbn [sc_set sc_live ps_pools ps_arena]. rewrite Hhi'.
    refine (conj Ha (conj Hbs' (conj Hhi (conj _ (conj _ (conj _ _)))))).
    + apply Forall_set_nth; assumption.
    + constructor.
      * unfold buf_ok; cbn [sb_org sb_size sb_addr sb_len ps_pools].
        split; [lia|]. split; [assumption|]. exists p'. split; [eapply set_nth_same; eassumption|]. auto.
      * apply Forall_forall. intros b Hb. rewrite Forall_forall in Hbuf. specialize (Hbuf b Hb).
        eapply buf_ok_update; try eassumption; [lia|].
        intros j Ho Hj. apply Hfree; [assumption|]. intros ->.
        (* b has key (k,i): impossible, i is free or virgin in p *)
        unfold buf_ok in Hbuf. rewrite Ho in Hbuf. destruct Hbuf as (_ & _ & q & Hq & Hi2 & Hnin2 & _).
        rewrite En in Hq. inversion Hq; subst q. destruct Hsrc as [Hs|Hs]; [contradiction|lia].
    + cbn [flat_map key_of sb_org app]. constructor; [|assumption]. intros Hin.
      destruct (key_in_ledger _ _ _ Hin) as [b [Hb Ho]]. rewrite Forall_forall in Hbuf. specialize (Hbuf b Hb).
      unfold buf_ok in Hbuf. rewrite Ho in Hbuf. destruct Hbuf as (_ & _ & q & Hq & Hi2 & Hnin2 & _).
      rewrite En in Hq. inversion Hq; subst q. destruct Hsrc as [Hs|Hs]; [contradiction|lia].
    + constructor; [|assumption]. apply Forall_forall. intros y _. unfold arena_disj; cbn [sb_org]. exact I.
  - (* free *)
    destruct (sc_live c) as [|b0 l0] eqn:El; cbn [fst snd]; [split; [assumption|discriminate]|].
    rewrite <- El in *.
    destruct (nth_error (sc_live c) (Nat.modulo idx (length (sc_live c)))) as [b|] eqn:En; cbn [fst snd];
      [|split; [assumption|discriminate]].
    set (kk := Nat.modulo idx (length (sc_live c))) in *.
    destruct (remove_nth_split _ _ _ En) as [Hsplit Hrem].
    pose proof (nth_error_In _ _ En) as Hbin.
    pose proof Hbuf as Hbuf'. rewrite Forall_forall in Hbuf'. pose proof (Hbuf' b Hbin) as Hbok.
    assert (Hsub : forall x, In x (remove_nth kk (sc_live c)) -> In x (sc_live c)) by (intros; eapply remove_nth_In; eauto).
    assert (Hfop' : ForallOrdPairs arena_disj (remove_nth kk (sc_live c))).
    { rewrite Hrem. eapply FOP_app_remove. rewrite <- Hsplit. assumption. }
    assert (Hkeys : NoDup (flat_map key_of (remove_nth kk (sc_live c))) /\
                    forall x, In x (key_of b) -> ~ In x (flat_map key_of (remove_nth kk (sc_live c)))).
    { rewrite Hrem. rewrite flat_map_app. apply NoDup_app_remove_mid.
      rewrite Hsplit in Hnd. rewrite flat_map_app in Hnd. cbn [flat_map] in Hnd. exact Hnd. }
    destruct Hkeys as [Hnd' Hkb].
    unfold set_dealloc. unfold buf_ok in Hbok.
    destruct (sb_org b) as [k i|] eqn:Eo.
    + destruct Hbok as (Hk & Hsc & p & Hp & Hi & Hnin & Haddr & Hlen).
      rewrite Hsc, Hp.
      assert (Hpok : pool_ok p). { rewrite Forall_forall in Hpo. apply Hpo. eapply nth_error_In; eassumption. }
      pose proof Hpok as (Hs1 & Hs2 & _).
      rewrite Haddr. rewrite pool_contains_slot by lia.
      destruct (pool_dealloc_ok p i Hpok Hi Hnin) as [p' (Hd & Hok' & Hst & Hbump' & Hfree')].
      rewrite Hd. cbn [fst snd]. split; [|discriminate].
      destruct (blocks_sorted_set_nth _ _ _ _ p' Hbs Hp Hst) as [Hbs' Hhi'].
      unfold SInv; cbn [sc_set sc_live ps_pools ps_arena]. rewrite Hhi'.
      refine (conj Ha (conj Hbs' (conj Hhi (conj _ (conj _ (conj Hnd' Hfop')))))).
      * apply Forall_set_nth; assumption.
      * apply Forall_forall. intros x Hx. eapply buf_ok_update; try eassumption; [lia| |apply Hbuf'; auto].
        intros j Ho Hj. rewrite Hfree'. intros [Heq|Hin]; [|contradiction]. subst j.
        apply (Hkb (k, i)); [unfold key_of; rewrite Eo; left; reflexivity|].
        apply in_flat_map. exists x. split; [assumption|]. unfold key_of. rewrite Ho. left; reflexivity.
    + (* arena-backed buffer: dealloc is a no-op *)
      destruct Hbok as (Hlen & Hl0 & Hge & Hend).
      assert (Hnoop : match size_class (sb_size b) with
                      | Some c0 => match nth_error (ps_pools (sc_set c)) (Z.to_nat c0) with
                                   | Some p => if pool_contains p (sb_addr b) then
                                                 match pool_dealloc p (sb_addr b) with
                                                 | Some p' => Some (mkPSet (set_nth (Z.to_nat c0) p' (ps_pools (sc_set c))) (ps_arena (sc_set c)))
                                                 | None => None end
                                               else Some (sc_set c)
                                   | None => Some (sc_set c) end
                      | None => Some (sc_set c) end = Some (sc_set c)).
      { destruct (size_class (sb_size b)) as [c0|]; [|reflexivity].
        destruct (nth_error (ps_pools (sc_set c)) (Z.to_nat c0)) as [p|] eqn:Ep; [|reflexivity].
        destruct (pool_contains p (sb_addr b)) eqn:Ec; [|reflexivity]. exfalso.
        apply pcontains_iff in Ec. destruct (blocks_nth _ _ _ _ Hbs Ep) as (_ & _ & _ & Hpe). unfold pend in Hpe. lia. }
      rewrite Hnoop. cbn [fst snd]. split; [|discriminate].
      unfold SInv; cbn [sc_set sc_live].
      refine (conj Ha (conj Hbs (conj Hhi (conj Hpo (conj _ (conj Hnd' Hfop')))))).
      apply Forall_forall. intros x Hx. apply Hbuf'. auto.
  - cbn [fst snd]. split; [assumption|discriminate].
  - cbn [fst snd]. split; [assumption|discriminate].
Qed.

Lemma srun_inv dbg lo ops : forall c, SInv lo c -> Forall sop_ok ops -> SInv lo (srun dbg c ops).
Proof.
  induction ops as [|o ops IH]; intros c H Hops; cbn [srun fold_left]; [assumption|].
  inversion Hops; subst. apply IH; [|assumption]. apply sstep_inv; assumption.
Qed.

Lemma sinit_inv dbg s ps :
  arena_ok (s_a s) -> pset_new dbg s = Some ps -> SInv (a_off (s_a s)) (mkSClient ps []).
Proof.
  intros Ha H. unfold pset_new in H.
  destruct (pools_new dbg s slot_sizes slot_counts) as [[pools s']|] eqn:E; [|discriminate].
  inversion H; subst ps; clear H.
  assert (Hs : Forall (fun x => 0 < x) slot_sizes).
  { apply Forall_forall. intros x Hx. destruct tables_ok as (_ & _ & T & _). rewrite forallb_forall in T.
    specialize (T x Hx). apply andb_prop in T. destruct T as [T _]. apply Z.ltb_lt in T. exact T. }
  assert (Hc : Forall (fun x => 0 <= x) slot_counts).
  { apply Forall_forall. intros x Hx. destruct tables_ok as (_ & _ & _ & T). rewrite forallb_forall in T.
    specialize (T x Hx). apply Z.ltb_lt in T. lia. }
  destruct (pools_new_sorted dbg _ _ _ _ _ Ha Hs Hc E) as (B1 & B2 & B3 & B4 & _).
  unfold SInv; cbn [sc_set sc_live ps_pools ps_arena flat_map].
  refine (conj B3 (conj B1 (conj B2 (conj B4 (conj _ (conj _ _)))))); constructor.
Qed.

(* ---- consequences: the statements of C12 at the level of client-visible buffers ---- *)

Definition ranges_disjoint (x y : sbuf) : Prop :=
  sb_addr x + sb_len x <= sb_addr y \/ sb_addr y + sb_len y <= sb_addr x.

Lemma sinv_exclusive_head lo ps hi b L :
  blocks_sorted lo (ps_pools ps) -> hi = blocks_hi lo (ps_pools ps) ->
  Forall pool_ok (ps_pools ps) ->
  buf_ok ps hi b -> Forall (buf_ok ps hi) L ->
  (forall x, In x (key_of b) -> ~ In x (flat_map key_of L)) ->
  Forall (arena_disj b) L ->
  Forall (ranges_disjoint b) L.
Proof.
  intros Hbs Hhi Hpo Hb HL Hk Hd. apply Forall_forall. intros y Hy.
  rewrite Forall_forall in HL, Hd. specialize (HL y Hy). specialize (Hd y Hy).
  unfold buf_ok, arena_disj, ranges_disjoint in *.
  destruct (sb_org b) as [k i|] eqn:Eb; destruct (sb_org y) as [k2 i2|] eqn:Ey.
  - destruct Hb as (Hk0 & _ & p & Hp & Hi & _ & Ha & Hl).
    destruct HL as (Hk20 & _ & q & Hq & Hi2 & _ & Ha2 & Hl2).
    destruct (Z.eq_dec k k2) as [<-|Hne].
    + rewrite Hp in Hq. inversion Hq; subst q.
      assert (i <> i2).
      { intros ->. apply (Hk (k, i2)); [unfold key_of; rewrite Eb; left; reflexivity|].
        apply in_flat_map. exists y. split; [assumption|]. unfold key_of. rewrite Ey. left; reflexivity. }
      assert (0 < p_ssz p). { rewrite Forall_forall in Hpo. apply (Hpo p). eapply nth_error_In; eauto. }
      rewrite Ha, Ha2, Hl, Hl2. unfold slot_addr. nia.
    + assert (Hp_ok : pool_ok p). { rewrite Forall_forall in Hpo. apply Hpo. eapply nth_error_In; eauto. }
      assert (Hq_ok : pool_ok q). { rewrite Forall_forall in Hpo. apply Hpo. eapply nth_error_In; eauto. }
      destruct Hp_ok as (Sp & Bp & _). destruct Hq_ok as (Sq & Bq & _).
      rewrite Ha, Ha2, Hl, Hl2. unfold slot_addr.
      destruct (Z_lt_ge_dec k k2) as [Hlt|Hge].
      * pose proof (blocks_disjoint _ _ (Z.to_nat k) (Z.to_nat k2) p q Hbs ltac:(lia) Hp Hq) as Hd1.
        unfold pend in Hd1. left. nia.
      * pose proof (blocks_disjoint _ _ (Z.to_nat k2) (Z.to_nat k) q p Hbs ltac:(lia) Hq Hp) as Hd1.
        unfold pend in Hd1. right. nia.
  - destruct Hb as (Hk0 & _ & p & Hp & Hi & _ & Ha & Hl).
    destruct HL as (_ & _ & Hge & _).
    assert (Hp_ok : pool_ok p). { rewrite Forall_forall in Hpo. apply Hpo. eapply nth_error_In; eauto. }
    destruct Hp_ok as (Sp & Bp & _).
    destruct (blocks_nth _ _ _ _ Hbs Hp) as (_ & _ & _ & Hpe). unfold pend in Hpe.
    rewrite Ha, Hl. unfold slot_addr. left. subst hi. nia.
  - destruct HL as (Hk0 & _ & p & Hp & Hi & _ & Ha & Hl).
    destruct Hb as (_ & _ & Hge & _).
    assert (Hp_ok : pool_ok p). { rewrite Forall_forall in Hpo. apply Hpo. eapply nth_error_In; eauto. }
    destruct Hp_ok as (Sp & Bp & _).
    destruct (blocks_nth _ _ _ _ Hbs Hp) as (_ & _ & _ & Hpe). unfold pend in Hpe.
    rewrite Ha, Hl. unfold slot_addr. right. subst hi. nia.
  - exact Hd.
Qed.

Lemma sinv_exclusive lo c : SInv lo c -> ForallOrdPairs ranges_disjoint (sc_live c).
Proof.
  intros (Ha & Hbs & Hhi & Hpo & Hbuf & Hnd & Hfop).
  induction (sc_live c) as [|b L IH]; [constructor|].
  inversion Hbuf; subst. inversion Hfop; subst. cbn [flat_map] in Hnd.
  constructor.
  - eapply sinv_exclusive_head; try eassumption; [reflexivity|].
    intros x Hx Hin. unfold key_of in Hx, Hnd. destruct (sb_org b); [|destruct Hx].
    destruct Hx as [<-|[]]. cbn [app] in Hnd. inversion Hnd as [|? ? Hni ?]; subst. exact (Hni Hin).
  - apply IH; try assumption. destruct (NoDup_app_remove_mid [] (key_of b) (flat_map key_of L) Hnd) as [Hr _]. exact Hr.
Qed.

Lemma sinv_conservation lo c p :
  SInv lo c -> In p (ps_pools (sc_set c)) ->
  p_live p + Z.of_nat (length (p_free p)) + (p_cnt p - p_bump p) = p_cnt p.
Proof.
  intros (_ & _ & _ & Hpo & _) Hin. rewrite Forall_forall in Hpo.
  destruct (Hpo p Hin) as (_ & _ & _ & _ & Hc). lia.
Qed.

Lemma set_contains_iff ps addr :
  set_contains ps addr = true <->
  exists p, In p (ps_pools ps) /\ p_base p <= addr < p_base p + p_ssz p * p_cnt p.
Proof.
  unfold set_contains. rewrite existsb_exists. split; intros [p [Hin H]]; exists p; split; auto;
    apply pcontains_iff; assumption.
Qed.

(* a buffer obtained from the arena fallback is never inside a slot block, hence never
   recycled by the pool: set_dealloc on it leaves the set unchanged *)
Lemma fallback_never_recycled lo c b :
  SInv lo c -> In b (sc_live c) -> sb_org b = FromArena ->
  set_dealloc (sc_set c) (sb_addr b) (sb_size b) = Some (sc_set c) /\
  set_contains (sc_set c) (sb_addr b) = false.
Proof.
  intros (Ha & Hbs & Hhi & Hpo & Hbuf & _) Hin Ho. rewrite Forall_forall in Hbuf. specialize (Hbuf b Hin).
  unfold buf_ok in Hbuf. rewrite Ho in Hbuf. destruct Hbuf as (Hlen & Hl0 & Hge & Hend).
  assert (Hout : forall p k, nth_error (ps_pools (sc_set c)) k = Some p -> pool_contains p (sb_addr b) = false).
  { intros p k Hp. destruct (pool_contains p (sb_addr b)) eqn:Ec; [|reflexivity]. exfalso.
    apply pcontains_iff in Ec. destruct (blocks_nth _ _ _ _ Hbs Hp) as (_ & _ & _ & Hpe). unfold pend in Hpe. lia. }
  split.
  - unfold set_dealloc. destruct (size_class (sb_size b)) as [c0|]; [|reflexivity].
    destruct (nth_error (ps_pools (sc_set c)) (Z.to_nat c0)) as [p|] eqn:Ep; [|reflexivity].
    rewrite (Hout _ _ Ep). reflexivity.
  - unfold set_contains. destruct (existsb _ _) eqn:E; [|reflexivity]. exfalso.
    apply existsb_exists in E. destruct E as [p [Hp Hc]]. apply In_nth_error in Hp. destruct Hp as [k Hk].
    rewrite (Hout _ _ Hk) in Hc. discriminate.
Qed.

Lemma pooled_contains lo c b k i :
  SInv lo c -> In b (sc_live c) -> sb_org b = FromPool k i ->
  set_contains (sc_set c) (sb_addr b) = true.
Proof.
  intros (Ha & Hbs & Hhi & Hpo & Hbuf & _) Hin Ho. rewrite Forall_forall in Hbuf. specialize (Hbuf b Hin).
  unfold buf_ok in Hbuf. rewrite Ho in Hbuf. destruct Hbuf as (Hk & _ & p & Hp & Hi & _ & Haddr & _).
  apply set_contains_iff. exists p. split; [eapply nth_error_In; eauto|].
  assert (Hp_ok : pool_ok p). { rewrite Forall_forall in Hpo. apply Hpo. eapply nth_error_In; eauto. }
  destruct Hp_ok as (Sp & Bp & _). rewrite Haddr. unfold slot_addr. nia.
Qed.

(* ---- slot sizes of the layout are the generated SLOT_SIZES / SLOT_COUNTS ---- *)

Definition sizes_ok (sizes counts : list Z) (pools : list pool) : Prop :=
  forall k p, nth_error pools k = Some p -> p_ssz p = nth k sizes 0 /\ p_cnt p = nth k counts 0.

Lemma pools_new_sizes dbg : forall sizes counts s ps s',
  pools_new dbg s sizes counts = Some (ps, s') -> sizes_ok sizes counts ps.
Proof.
  induction sizes as [|ssz sizes IH]; intros counts s ps s' H k p Hk.
  - cbn in H. inversion H; subst. destruct k; discriminate.
  - destruct counts as [|cnt counts]; [cbn in H; inversion H; subst; destruct k; discriminate|].
    cbn [pools_new] in H. unfold pool_new_in in H.
    destruct (alloc_raw dbg s (ssz * cnt) 8) as [[[base l1] s1]|]; [|discriminate].
    destruct (alloc_raw dbg s1 (cnt * 4) 4) as [[[b2 l2] s2]|]; [|discriminate].
    destruct (pools_new dbg s2 sizes counts) as [[ps2 s3]|] eqn:E3; [|discriminate].
    inversion H; subst ps s'; clear H. destruct k as [|k]; cbn in Hk |- *.
    + inversion Hk; subst p. cbn. auto.
    + eapply IH; eauto.
Qed.

Lemma sizes_ok_set_nth sizes counts pools n p q :
  sizes_ok sizes counts pools -> nth_error pools n = Some p -> same_static q p ->
  sizes_ok sizes counts (set_nth n q pools).
Proof.
  intros H Hn (S1 & S2 & S3) k r Hk. destruct (Nat.eq_dec n k) as [<-|Hne].
  - rewrite (set_nth_same _ _ _ _ Hn) in Hk. inversion Hk; subst r. rewrite S2, S3. apply H. assumption.
  - rewrite set_nth_other in Hk by assumption. apply H. assumption.
Qed.

Lemma sstep_sizes dbg lo sizes counts c o :
  SInv lo c -> sizes_ok sizes counts (ps_pools (sc_set c)) ->
  sizes_ok sizes counts (ps_pools (sc_set (fst (sstep dbg c o)))).
Proof.
  intros HI H. pose proof HI as (_ & _ & _ & Hpo & Hbuf & _).
  destruct o as [size|idx|addr|n]; cbn [sstep]; try assumption.
  - unfold set_alloc.
    destruct (size_class size) as [k|]; [destruct (nth_error (ps_pools (sc_set c)) (Z.to_nat k)) as [p|] eqn:En;
      [destruct (pool_alloc p) as [[i p']|] eqn:Ep|]|];
    try (destruct (alloc_raw dbg (ps_arena (sc_set c)) size 1) as [[[? ?] ?]|]; cbn [fst sc_set ps_pools]; assumption).
    cbn [fst sc_set ps_pools].
    assert (Hpok : pool_ok p). { rewrite Forall_forall in Hpo. apply Hpo. eapply nth_error_In; eassumption. }
    destruct (pool_alloc_ok _ _ _ Hpok Ep) as (_ & Hst & _).
    eapply sizes_ok_set_nth; eassumption.
  - destruct (sc_live c) as [|b0 l0] eqn:El; cbn [fst]; [assumption|]. rewrite <- El in *.
    destruct (nth_error (sc_live c) (Nat.modulo idx (length (sc_live c)))) as [b|] eqn:En; cbn [fst]; [|assumption].
    unfold set_dealloc.
    destruct (size_class (sb_size b)) as [k|]; [|cbn [fst]; assumption].
    destruct (nth_error (ps_pools (sc_set c)) (Z.to_nat k)) as [p|] eqn:Ep; [|cbn [fst]; assumption].
    destruct (pool_contains p (sb_addr b)); [|cbn [fst]; assumption].
    destruct (pool_dealloc p (sb_addr b)) as [p'|] eqn:Ed; cbn [fst sc_set ps_pools]; [|assumption].
    eapply sizes_ok_set_nth; try eassumption.
    unfold pool_dealloc in Ed. destruct (index_of p (sb_addr b)); [|discriminate].
    destruct (_ && _); [|discriminate]. inversion Ed; subst p'. unfold same_static; cbn. auto.
Qed.

Lemma at_least_requested lo c b :
  SInv lo c -> sizes_ok slot_sizes slot_counts (ps_pools (sc_set c)) ->
  In b (sc_live c) -> 0 <= sb_size b -> sb_size b <= sb_len b.
Proof.
  intros (_ & _ & _ & _ & Hbuf & _) Hsz Hin H0. rewrite Forall_forall in Hbuf. specialize (Hbuf b Hin).
  unfold buf_ok in Hbuf. destruct (sb_org b) as [k i|]; [|lia].
  destruct Hbuf as (Hk & Hsc & p & Hp & _ & _ & _ & Hl).
  destruct (class_roundtrip_lemma _ _ H0 Hsc) as (_ & Hle & _).
  destruct (Hsz _ _ Hp) as [Hs _]. rewrite Hl, Hs. exact Hle.
Qed.

(* a released pooled buffer goes back to the free list of the class it came from, and
   is the next one handed out by that class (LIFO) *)
Lemma release_same_class lo c b k i p :
  SInv lo c -> In b (sc_live c) -> sb_org b = FromPool k i ->
  nth_error (ps_pools (sc_set c)) (Z.to_nat k) = Some p ->
  exists ps' p', set_dealloc (sc_set c) (sb_addr b) (sb_size b) = Some ps' /\
    nth_error (ps_pools ps') (Z.to_nat k) = Some p' /\ p_free p' = i :: p_free p /\
    (forall k2, k2 <> Z.to_nat k -> nth_error (ps_pools ps') k2 = nth_error (ps_pools (sc_set c)) k2) /\
    ps_arena ps' = ps_arena (sc_set c).
Proof.
  intros (Ha & Hbs & Hhi & Hpo & Hbuf & _) Hin Ho Hp. rewrite Forall_forall in Hbuf. specialize (Hbuf b Hin).
  unfold buf_ok in Hbuf. rewrite Ho in Hbuf. destruct Hbuf as (Hk & Hsc & q & Hq & Hi & Hnin & Haddr & Hlen).
  rewrite Hp in Hq. inversion Hq; subst q.
  assert (Hpok : pool_ok p). { rewrite Forall_forall in Hpo. apply Hpo. eapply nth_error_In; eassumption. }
  pose proof Hpok as (Hs1 & Hs2 & _).
  destruct (pool_dealloc_ok p i Hpok Hi Hnin) as [p' (Hd & _ & _ & _ & Hfree')].
  unfold set_dealloc. rewrite Hsc, Hp, Haddr. rewrite pool_contains_slot by lia. rewrite Hd.
  eexists. exists p'. split; [reflexivity|]. cbn [ps_pools ps_arena].
  split; [eapply set_nth_same; eassumption|]. split; [assumption|]. split; [|reflexivity].
  intros k2 Hne. apply set_nth_other. auto.
Qed.
