(* PoolStrProofs.v — the extent of PoolSet::alloc_str's writes (regenerated shape, GenPoolStr.v)
   stays inside the buffer PoolSet::alloc granted, hence (with exclusivity) never touches another
   live buffer, the next slot or the free-index array. *)
From Coq Require Import ZArith List Bool Lia.
Require Import NS.theories.Generated NS.theories.Bump NS.theories.Pool NS.theories.GenPoolStr
               NS.proofs.BumpProofs NS.proofs.PoolProofs.
Import ListNotations.
Open Scope Z_scope.

(* the body of alloc_str as regenerated: requests len, copies len, stores nothing else *)
Lemma alloc_str_shape len :
  alloc_str_request len = len /\ alloc_str_extent len = len /\ alloc_str_result_len len = len.
Proof.
  unfold alloc_str_request, alloc_str_extent, alloc_str_copy_len, alloc_str_store_offsets,
    alloc_str_result_len. cbn [map fold_right]. lia.
Qed.

(* Every byte alloc_str writes, and every byte of the string it returns, lies inside the buffer
   that set_alloc granted for its request. *)
Lemma alloc_str_within_buffer lo c b len :
  SInv lo c -> sizes_ok slot_sizes slot_counts (ps_pools (sc_set c)) ->
  In b (sc_live c) -> 0 <= len -> sb_size b = alloc_str_request len ->
  alloc_str_extent len <= sb_len b /\ alloc_str_result_len len <= sb_len b.
Proof.
  intros Hinv Hsz Hin Hlen Hreq.
  destruct (alloc_str_shape len) as (Hr & He & Hl).
  assert (H : sb_size b <= sb_len b).
  { eapply at_least_requested; try eassumption. rewrite Hreq, Hr. exact Hlen. }
  rewrite He, Hl. rewrite Hreq, Hr in H. split; exact H.
Qed.

(* ... hence the written range is disjoint from every other live buffer *)
Lemma alloc_str_spares_others lo c b y len :
  SInv lo c -> sizes_ok slot_sizes slot_counts (ps_pools (sc_set c)) ->
  In b (sc_live c) -> 0 <= len -> sb_size b = alloc_str_request len ->
  ranges_disjoint b y ->
  sb_addr b + alloc_str_extent len <= sb_addr y \/ sb_addr y + sb_len y <= sb_addr b.
Proof.
  intros Hinv Hsz Hin Hlen Hreq Hd.
  destruct (alloc_str_within_buffer lo c b len Hinv Hsz Hin Hlen Hreq) as [He _].
  unfold ranges_disjoint in Hd. destruct Hd as [Hd|Hd]; [left; lia|right; exact Hd].
Qed.
