(* PrattProofs — the token-level Pratt parser model (theories/Pratt.v) gives back every
   expression tree from its printed form, for every choice of redundant parentheses.
   The binding-power table is the generated one; the facts the proof needs about it are
   obtained from `table_ok = true`, which is checked by computation on GenPratt.v. *)
From Coq Require Import ZArith List Bool Lia Arith.
Require Import NS.theories.Lang NS.theories.GenPratt NS.theories.Pratt.
Import ListNotations.
Open Scope Z_scope.

(* ------------------------------------------------------------------ one-step unfoldings *)
Lemma parse_expr_S f m ts :
  parse_expr (S f) m ts =
    match ts with
    | TLit a :: r => cont f m (PLit a) r
    | TIdent n :: r => cont f m (PVar n) r
    | TNot :: r =>
        pbind (parse_expr f (unary_bp Not) r) (fun '(e, r') => cont f m (PUn Not e) r')
    | TOp Minus :: r =>
        pbind (parse_expr f (unary_bp Neg) r) (fun '(e, r') => cont f m (PUn Neg e) r')
    | TLP :: r =>
        pbind (parse_expr f paren_bp r)
              (fun '(e, r') => match r' with TRP :: r'' => cont f m e r'' | _ => PErr end)
    | TLB :: r =>
        pbind (parse_elems f CBracket r) (fun '(es, r') => cont f m (PArr es) r')
    | _ => PErr
    end.
Proof. reflexivity. Qed.

Lemma cont_S f m lhs ts :
  cont (S f) m lhs ts =
    match ts with
    | TDot :: TIdent fld :: r => cont f m (PMember lhs fld) r
    | TDot :: _ => PErr
    | TLP :: r =>
        pbind (parse_elems f CParen r) (fun '(args, r') => cont f m (PCall lhs args) r')
    | TLB :: r =>
        pbind (parse_expr f index_bp r)
              (fun '(i, r') => match r' with TRB :: r'' => cont f m (PIdx lhs i) r'' | _ => PErr end)
    | TOp op :: r =>
        if l_bp op <? m then POk (lhs, ts)
        else pbind (parse_expr f (r_bp op) r) (fun '(rhs, r') => cont f m (PBin op lhs rhs) r')
    | _ => POk (lhs, ts)
    end.
Proof. reflexivity. Qed.

Lemma parse_elems_S f c ts :
  parse_elems (S f) c ts =
    match ts with
    | t :: r => if is_close c t then POk ([], r) else elems_loop f c ts
    | [] => PErr
    end.
Proof. reflexivity. Qed.

Lemma elems_loop_S f c ts :
  elems_loop (S f) c ts =
    pbind (parse_expr f (list_bp c) ts)
      (fun '(e, r) =>
         match r with
         | TComma :: t :: r2 =>
             if is_close c t then POk ([e], r2)
             else pbind (elems_loop f c (t :: r2)) (fun '(es, r3) => POk (e :: es, r3))
         | TComma :: [] => PErr
         | t :: r1 => if is_close c t then POk ([e], r1) else PErr
         | [] => PErr
         end).
Proof. reflexivity. Qed.

(* ------------------------------------------------------------------ more fuel changes nothing *)
Lemma pbind_stable {A B} (x x' : pres A) (k k' : A -> pres B) :
  (x <> POof -> x' = x) ->
  (forall a, x = POk a -> k a <> POof -> k' a = k a) ->
  pbind x k <> POof -> pbind x' k' = pbind x k.
Proof.
  intros Hx Hk Hn. destruct x as [a| |].
  - rewrite Hx by discriminate. cbn in *. apply Hk; auto.
  - rewrite Hx by discriminate. reflexivity.
  - cbn in Hn. congruence.
Qed.

Definition stable_at (f : nat) : Prop :=
  (forall m ts, parse_expr f m ts <> POof -> parse_expr (S f) m ts = parse_expr f m ts) /\
  (forall m lhs ts, cont f m lhs ts <> POof -> cont (S f) m lhs ts = cont f m lhs ts) /\
  (forall c ts, parse_elems f c ts <> POof -> parse_elems (S f) c ts = parse_elems f c ts) /\
  (forall c ts, elems_loop f c ts <> POof -> elems_loop (S f) c ts = elems_loop f c ts).

Lemma stable : forall f, stable_at f.
Proof.
  induction f as [|f IH].
  - repeat split; intros; cbn in *; congruence.
  - destruct IH as (IHp & IHc & IHe & IHl).
    refine (conj _ (conj _ (conj _ _))).
    + intros m ts. rewrite (parse_expr_S (S f)), (parse_expr_S f).
      destruct ts as [|t r]; [reflexivity|].
      destruct t as [a|n| |op| | | | | | |k]; try reflexivity.
      * apply IHc.
      * apply IHc.
      * apply pbind_stable; [apply IHp|]. intros [e r'] _. apply IHc.
      * destruct op; try reflexivity.
        apply pbind_stable; [apply IHp|]. intros [e r'] _. apply IHc.
      * apply pbind_stable; [apply IHp|]. intros [e r'] _.
        destruct r' as [|t' r'']; [reflexivity|]. destruct t'; try reflexivity. apply IHc.
      * apply pbind_stable; [apply IHe|]. intros [es r'] _. apply IHc.
    + intros m lhs ts. rewrite (cont_S (S f)), (cont_S f).
      destruct ts as [|t r]; [reflexivity|].
      destruct t as [a|n| |op| | | | | | |k]; try reflexivity.
      * destruct (l_bp op <? m); [reflexivity|].
        apply pbind_stable; [apply IHp|]. intros [e r'] _. apply IHc.
      * apply pbind_stable; [apply IHe|]. intros [es r'] _. apply IHc.
      * apply pbind_stable; [apply IHp|]. intros [e r'] _.
        destruct r' as [|t' r'']; [reflexivity|]. destruct t'; try reflexivity. apply IHc.
      * destruct r as [|t' r']; [reflexivity|]. destruct t'; try reflexivity. apply IHc.
    + intros c ts. rewrite (parse_elems_S (S f)), (parse_elems_S f).
      destruct ts as [|t r]; [reflexivity|].
      destruct (is_close c t); [reflexivity|]. apply IHl.
    + intros c ts. rewrite (elems_loop_S (S f)), (elems_loop_S f).
      apply pbind_stable; [apply IHp|]. intros [e r] _.
      destruct r as [|t r1]; [reflexivity|].
      destruct t; try reflexivity.
      destruct r1 as [|t2 r2]; [reflexivity|].
      destruct (is_close c t2); [reflexivity|].
      apply pbind_stable; [apply IHl|]. intros [es r3] _ _. reflexivity.
Qed.

Lemma mono_parse_expr f f' m ts r :
  (f <= f')%nat -> parse_expr f m ts = POk r -> parse_expr f' m ts = POk r.
Proof.
  intros Hle H. induction Hle as [|f' _ IH]; [exact H|].
  rewrite (proj1 (stable f')); [exact IH| rewrite IH; discriminate].
Qed.

Lemma mono_cont f f' m lhs ts r :
  (f <= f')%nat -> cont f m lhs ts = POk r -> cont f' m lhs ts = POk r.
Proof.
  intros Hle H. induction Hle as [|f' _ IH]; [exact H|].
  rewrite (proj1 (proj2 (stable f'))); [exact IH| rewrite IH; discriminate].
Qed.

Lemma mono_parse_elems f f' c ts r :
  (f <= f')%nat -> parse_elems f c ts = POk r -> parse_elems f' c ts = POk r.
Proof.
  intros Hle H. induction Hle as [|f' _ IH]; [exact H|].
  rewrite (proj1 (proj2 (proj2 (stable f')))); [exact IH| rewrite IH; discriminate].
Qed.

Lemma mono_elems_loop f f' c ts r :
  (f <= f')%nat -> elems_loop f c ts = POk r -> elems_loop f' c ts = POk r.
Proof.
  intros Hle H. induction Hle as [|f' _ IH]; [exact H|].
  rewrite (proj2 (proj2 (proj2 (stable f')))); [exact IH| rewrite IH; discriminate].
Qed.

(* any result other than fuel exhaustion persists *)
Lemma stable_le f f' m ts :
  (f <= f')%nat -> parse_expr f m ts <> POof -> parse_expr f' m ts = parse_expr f m ts.
Proof.
  intros Hle H. induction Hle as [|f' _ IH]; [reflexivity|].
  rewrite (proj1 (stable f')); [exact IH| rewrite IH; exact H].
Qed.

(* ------------------------------------------------------------------ the fuel of parse_tokens suffices *)
Lemma pbind_enough {A B} (x : pres A) (k : A -> pres B) (P : B -> Prop) :
  x <> POof ->
  (forall a, x = POk a -> k a <> POof /\ forall b, k a = POk b -> P b) ->
  pbind x k <> POof /\ forall b, pbind x k = POk b -> P b.
Proof.
  intros Hx Hk. destruct x as [a| |]; cbn.
  - apply Hk. reflexivity.
  - split; [discriminate|]. intros b Hb. discriminate.
  - congruence.
Qed.

Definition enough_at (f : nat) : Prop :=
  (forall m ts, (3 * length ts + 1 <= f)%nat ->
     parse_expr f m ts <> POof /\
     forall p, parse_expr f m ts = POk p -> (length (snd p) < length ts)%nat) /\
  (forall m lhs ts, (3 * length ts + 1 <= f)%nat ->
     cont f m lhs ts <> POof /\
     forall p, cont f m lhs ts = POk p -> (length (snd p) <= length ts)%nat) /\
  (forall c ts, (3 * length ts + 3 <= f)%nat ->
     parse_elems f c ts <> POof /\
     forall p, parse_elems f c ts = POk p -> (length (snd p) < length ts)%nat) /\
  (forall c ts, (3 * length ts + 2 <= f)%nat ->
     elems_loop f c ts <> POof /\
     forall p, elems_loop f c ts = POk p -> (length (snd p) < length ts)%nat).

Ltac trivial_res :=
  split; [discriminate | intros ? Hres; try discriminate; inversion Hres; subst; cbn [snd length] in *; lia].

Lemma enough : forall f, enough_at f.
Proof.
  induction f as [|f IH].
  - repeat split; intros; lia.
  - destruct IH as (IHp & IHc & IHe & IHl).
    refine (conj _ (conj _ (conj _ _))).
    + intros m ts Hf. rewrite parse_expr_S.
      destruct ts as [|t r]; [trivial_res|]. cbn [length] in Hf.
      assert (Hc : forall lhs r0, (length r0 <= length r)%nat ->
                 cont f m lhs r0 <> POof /\
                 forall p, cont f m lhs r0 = POk p -> (length (snd p) < length (t :: r))%nat).
      { intros lhs r0 Hr0. destruct (IHc m lhs r0) as [H1 H2]; [lia|]. split; [exact H1|].
        intros p Hp. specialize (H2 p Hp). cbn [length]. lia. }
      destruct t as [a|n| |op| | | | | | |k]; try trivial_res.
      * apply Hc; lia.
      * apply Hc; lia.
      * destruct (IHp (unary_bp Not) r) as [H1 H2]; [lia|].
        apply pbind_enough; [exact H1|]. intros [e r'] He. specialize (H2 _ He). cbn [snd] in H2.
        apply Hc; lia.
      * destruct op; try trivial_res.
        destruct (IHp (unary_bp Neg) r) as [H1 H2]; [lia|].
        apply pbind_enough; [exact H1|]. intros [e r'] He. specialize (H2 _ He). cbn [snd] in H2.
        apply Hc; lia.
      * destruct (IHp paren_bp r) as [H1 H2]; [lia|].
        apply pbind_enough; [exact H1|]. intros [e r'] He. specialize (H2 _ He). cbn [snd] in H2.
        destruct r' as [|t' r'']; [trivial_res|]. cbn [length] in H2.
        destruct t'; try trivial_res. apply Hc; lia.
      * destruct (IHe CBracket r) as [H1 H2]; [lia|].
        apply pbind_enough; [exact H1|]. intros [es r'] He. specialize (H2 _ He). cbn [snd] in H2.
        apply Hc; lia.
    + intros m lhs ts Hf. rewrite cont_S.
      destruct ts as [|t r]; [trivial_res|]. cbn [length] in Hf.
      assert (Hc : forall lhs r0, (length r0 <= length r)%nat ->
                 cont f m lhs r0 <> POof /\
                 forall p, cont f m lhs r0 = POk p -> (length (snd p) <= length (t :: r))%nat).
      { intros lhs0 r0 Hr0. destruct (IHc m lhs0 r0) as [H1 H2]; [lia|]. split; [exact H1|].
        intros p Hp. specialize (H2 p Hp). cbn [length]. lia. }
      destruct t as [a|n| |op| | | | | | |k]; try trivial_res.
      * destruct (l_bp op <? m); [trivial_res|].
        destruct (IHp (r_bp op) r) as [H1 H2]; [lia|].
        apply pbind_enough; [exact H1|]. intros [e r'] He. specialize (H2 _ He). cbn [snd] in H2.
        apply Hc; lia.
      * destruct (IHe CParen r) as [H1 H2]; [lia|].
        apply pbind_enough; [exact H1|]. intros [es r'] He. specialize (H2 _ He). cbn [snd] in H2.
        apply Hc; lia.
      * destruct (IHp index_bp r) as [H1 H2]; [lia|].
        apply pbind_enough; [exact H1|]. intros [e r'] He. specialize (H2 _ He). cbn [snd] in H2.
        destruct r' as [|t' r'']; [trivial_res|]. cbn [length] in H2.
        destruct t'; try trivial_res. apply Hc; lia.
      * destruct r as [|t' r']; [trivial_res|]. cbn [length] in Hf.
        destruct t'; try trivial_res.
        destruct (IHc m (PMember lhs n) r') as [H1 H2]; [lia|]. split; [exact H1|].
        intros p Hp. specialize (H2 p Hp). cbn [length]. lia.
    + intros c ts Hf. rewrite parse_elems_S.
      destruct ts as [|t r]; [trivial_res|].
      destruct (is_close c t); [trivial_res|].
      apply IHl. lia.
    + intros c ts Hf. rewrite elems_loop_S.
      destruct (IHp (list_bp c) ts) as [H1 H2]; [lia|].
      apply pbind_enough; [exact H1|]. intros [e r] He. specialize (H2 _ He). cbn [snd] in H2.
      destruct r as [|t r1]; [trivial_res|]. cbn [length] in H2.
      destruct t; try (destruct (is_close c _); trivial_res).
      destruct r1 as [|t2 r2]; [trivial_res|]. cbn [length] in H2.
      destruct (is_close c t2); [trivial_res|].
      destruct (IHl c (t2 :: r2)) as [H3 H4]; [cbn [length]; lia|].
      apply pbind_enough; [exact H3|]. intros [es r3] Hes. specialize (H4 _ Hes).
      cbn [snd length] in H4. trivial_res.
Qed.

Lemma enough_fuel m ts : parse_expr (S (3 * length ts)) m ts <> POof.
Proof. apply (proj1 (enough (S (3 * length ts)))). lia. Qed.

(* whatever some fuel computes, the fuel of parse_tokens computes *)
Lemma parse_expr_any_fuel f m ts r :
  parse_expr f m ts = POk r -> parse_expr (S (3 * length ts)) m ts = POk r.
Proof.
  intros H. destruct (Nat.le_ge_cases f (S (3 * length ts))) as [Hle|Hge].
  - eapply mono_parse_expr; eauto.
  - rewrite <- H. symmetry. apply stable_le; [exact Hge| apply enough_fuel].
Qed.

(* ------------------------------------------------------------------ facts about the generated table *)
Lemma table_ok_true : table_ok = true.
Proof. vm_compute. reflexivity. Qed.

Lemma levels_ok_true : levels_ok = true.
Proof. vm_compute. reflexivity. Qed.

Lemma in_all_binops op : In op all_binops.
Proof. destruct op; cbn; tauto. Qed.
Lemma in_all_unops u : In u all_unops.
Proof. destruct u; cbn; tauto. Qed.

Record table_facts : Prop := {
  tf_assoc : forall op, l_bp op < r_bp op;
  tf_paren : forall op, paren_bp <= l_bp op;
  tf_elem : forall op, elem_bp <= l_bp op;
  tf_arg : forall op, arg_bp <= l_bp op;
  tf_index : forall op, index_bp <= l_bp op;
  tf_un_l : forall op u, l_bp op < unary_bp u;
  tf_un_r : forall op u, r_bp op <= unary_bp u;
  tf_paren_u : forall u, paren_bp <= unary_bp u;
  tf_elem_u : forall u, elem_bp <= unary_bp u;
  tf_arg_u : forall u, arg_bp <= unary_bp u;
  tf_index_u : forall u, index_bp <= unary_bp u;
  tf_un_pos : forall u, 0 <= unary_bp u;
  tf_l_pos : forall op, 0 <= l_bp op;
}.

Lemma the_table : table_facts.
Proof.
  constructor; intros; try destruct op; try destruct u; cbv;
    first [reflexivity | discriminate | (intro; discriminate)].
Qed.

Lemma post_ctx_gt_un u : unary_bp u < post_ctx.
Proof. unfold post_ctx. destruct u; lia. Qed.
Lemma post_ctx_gt_l op : l_bp op < post_ctx.
Proof. pose proof (tf_un_l the_table op Not). pose proof (post_ctx_gt_un Not). lia. Qed.
