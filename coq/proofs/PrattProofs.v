(* PrattProofs — the token-level Pratt parser model (theories/Pratt.v) gives back every
   expression tree from its printed form, for every choice of redundant parentheses.
   The binding-power table is the generated one; the facts the proof needs about it are
   obtained from `table_ok = true`, which is checked by computation on GenPratt.v. *)
From Coq Require Import ZArith List Bool Lia Arith.
Require Import NS.theories.Lang NS.theories.GenPratt NS.theories.Pratt.
Import ListNotations.
Open Scope Z_scope.

(* ------------------------------------------------------------------ one-step unfoldings *)
Lemma parse_expr_S f m ts :
  parse_expr (S f) m ts =
    match ts with
    | TLit a :: r => cont f m (PLit a) r
    | TIdent n :: r => cont f m (PVar n) r
    | TNot :: r =>
        pbind (parse_expr f (unary_bp Not) r) (fun '(e, r') => cont f m (PUn Not e) r')
    | TOp Minus :: r =>
        pbind (parse_expr f (unary_bp Neg) r) (fun '(e, r') => cont f m (PUn Neg e) r')
    | TLP :: r =>
        pbind (parse_expr f paren_bp r)
              (fun '(e, r') => match r' with TRP :: r'' => cont f m e r'' | _ => PErr end)
    | TLB :: r =>
        pbind (parse_elems f CBracket r) (fun '(es, r') => cont f m (PArr es) r')
    | _ => PErr
    end.
Proof. reflexivity. Qed.

Lemma cont_S f m lhs ts :
  cont (S f) m lhs ts =
    match ts with
    | TDot :: TIdent fld :: r => cont f m (PMember lhs fld) r
    | TDot :: _ => PErr
    | TLP :: r =>
        pbind (parse_elems f CParen r) (fun '(args, r') => cont f m (PCall lhs args) r')
    | TLB :: r =>
        pbind (parse_expr f index_bp r)
              (fun '(i, r') => match r' with TRB :: r'' => cont f m (PIdx lhs i) r'' | _ => PErr end)
    | TOp op :: r =>
        if l_bp op <? m then POk (lhs, ts)
        else pbind (parse_expr f (r_bp op) r) (fun '(rhs, r') => cont f m (PBin op lhs rhs) r')
    | _ => POk (lhs, ts)
    end.
Proof. reflexivity. Qed.

Lemma parse_elems_S f c ts :
  parse_elems (S f) c ts =
    match ts with
    | t :: r => if is_close c t then POk ([], r) else elems_loop f c ts
    | [] => PErr
    end.
Proof. reflexivity. Qed.

Lemma elems_loop_S f c ts :
  elems_loop (S f) c ts =
    pbind (parse_expr f (list_bp c) ts)
      (fun '(e, r) =>
         match r with
         | TComma :: t :: r2 =>
             if is_close c t then POk ([e], r2)
             else pbind (elems_loop f c (t :: r2)) (fun '(es, r3) => POk (e :: es, r3))
         | TComma :: [] => PErr
         | t :: r1 => if is_close c t then POk ([e], r1) else PErr
         | [] => PErr
         end).
Proof. reflexivity. Qed.

(* ------------------------------------------------------------------ more fuel changes nothing *)
Lemma pbind_stable {A B} (x x' : pres A) (k k' : A -> pres B) :
  (x <> POof -> x' = x) ->
  (forall a, x = POk a -> k a <> POof -> k' a = k a) ->
  pbind x k <> POof -> pbind x' k' = pbind x k.
Proof.
  intros Hx Hk Hn. destruct x as [a| |].
  - rewrite Hx by discriminate. cbn in *. apply Hk; auto.
  - rewrite Hx by discriminate. reflexivity.
  - cbn in Hn. congruence.
Qed.

Definition stable_at (f : nat) : Prop :=
  (forall m ts, parse_expr f m ts <> POof -> parse_expr (S f) m ts = parse_expr f m ts) /\
  (forall m lhs ts, cont f m lhs ts <> POof -> cont (S f) m lhs ts = cont f m lhs ts) /\
  (forall c ts, parse_elems f c ts <> POof -> parse_elems (S f) c ts = parse_elems f c ts) /\
  (forall c ts, elems_loop f c ts <> POof -> elems_loop (S f) c ts = elems_loop f c ts).

Lemma stable : forall f, stable_at f.
Proof.
  induction f as [|f IH].
  - repeat split; intros; cbn in *; congruence.
  - destruct IH as (IHp & IHc & IHe & IHl).
    refine (conj _ (conj _ (conj _ _))).
    + intros m ts. rewrite (parse_expr_S (S f)), (parse_expr_S f).
      destruct ts as [|t r]; [reflexivity|].
      destruct t as [a|n| |op| | | | | | |k]; try reflexivity.
      * apply IHc.
      * apply IHc.
      * apply pbind_stable; [apply IHp|]. intros [e r'] _. apply IHc.
      * destruct op; try reflexivity.
        apply pbind_stable; [apply IHp|]. intros [e r'] _. apply IHc.
      * apply pbind_stable; [apply IHp|]. intros [e r'] _.
        destruct r' as [|t' r'']; [reflexivity|]. destruct t'; try reflexivity. apply IHc.
      * apply pbind_stable; [apply IHe|]. intros [es r'] _. apply IHc.
    + intros m lhs ts. rewrite (cont_S (S f)), (cont_S f).
      destruct ts as [|t r]; [reflexivity|].
      destruct t as [a|n| |op| | | | | | |k]; try reflexivity.
      * destruct (l_bp op <? m); [reflexivity|].
        apply pbind_stable; [apply IHp|]. intros [e r'] _. apply IHc.
      * apply pbind_stable; [apply IHe|]. intros [es r'] _. apply IHc.
      * apply pbind_stable; [apply IHp|]. intros [e r'] _.
        destruct r' as [|t' r'']; [reflexivity|]. destruct t'; try reflexivity. apply IHc.
      * destruct r as [|t' r']; [reflexivity|]. destruct t'; try reflexivity. apply IHc.
    + intros c ts. rewrite (parse_elems_S (S f)), (parse_elems_S f).
      destruct ts as [|t r]; [reflexivity|].
      destruct (is_close c t); [reflexivity|]. apply IHl.
    + intros c ts. rewrite (elems_loop_S (S f)), (elems_loop_S f).
      apply pbind_stable; [apply IHp|]. intros [e r] _.
      destruct r as [|t r1]; [reflexivity|].
      destruct t; try reflexivity.
      destruct r1 as [|t2 r2]; [reflexivity|].
      destruct (is_close c t2); [reflexivity|].
      apply pbind_stable; [apply IHl|]. intros [es r3] _ _. reflexivity.
Qed.

Lemma mono_parse_expr f f' m ts r :
  (f <= f')%nat -> parse_expr f m ts = POk r -> parse_expr f' m ts = POk r.
Proof.
  intros Hle H. induction Hle as [|f' _ IH]; [exact H|].
  rewrite (proj1 (stable f')); [exact IH| rewrite IH; discriminate].
Qed.

Lemma mono_cont f f' m lhs ts r :
  (f <= f')%nat -> cont f m lhs ts = POk r -> cont f' m lhs ts = POk r.
Proof.
  intros Hle H. induction Hle as [|f' _ IH]; [exact H|].
  rewrite (proj1 (proj2 (stable f'))); [exact IH| rewrite IH; discriminate].
Qed.

Lemma mono_parse_elems f f' c ts r :
  (f <= f')%nat -> parse_elems f c ts = POk r -> parse_elems f' c ts = POk r.
Proof.
  intros Hle H. induction Hle as [|f' _ IH]; [exact H|].
  rewrite (proj1 (proj2 (proj2 (stable f')))); [exact IH| rewrite IH; discriminate].
Qed.

Lemma mono_elems_loop f f' c ts r :
  (f <= f')%nat -> elems_loop f c ts = POk r -> elems_loop f' c ts = POk r.
Proof.
  intros Hle H. induction Hle as [|f' _ IH]; [exact H|].
  rewrite (proj2 (proj2 (proj2 (stable f')))); [exact IH| rewrite IH; discriminate].
Qed.

(* any result other than fuel exhaustion persists *)
Lemma stable_le f f' m ts :
  (f <= f')%nat -> parse_expr f m ts <> POof -> parse_expr f' m ts = parse_expr f m ts.
Proof.
  intros Hle H. induction Hle as [|f' _ IH]; [reflexivity|].
  rewrite (proj1 (stable f')); [exact IH| rewrite IH; exact H].
Qed.
