(* PrattProofs — the token-level Pratt parser model (theories/Pratt.v) gives back every
   expression tree from its printed form, for every choice of redundant parentheses.
   The binding-power table is the generated one; the facts the proof needs about it are
   obtained from `table_ok = true`, which is checked by computation on GenPratt.v. *)
From Coq Require Import ZArith List Bool Lia Arith.
Require Import NS.theories.Lang NS.theories.GenPratt NS.theories.Pratt.
Import ListNotations.
Open Scope Z_scope.

(* ------------------------------------------------------------------ one-step unfoldings *)
Lemma parse_expr_S f m ts :
  parse_expr (S f) m ts =
    match ts with
    | TLit a :: r => cont f m (PLit a) r
    | TIdent n :: r => cont f m (PVar n) r
    | TNot :: r =>
        pbind (parse_expr f (unary_bp Not) r) (fun '(e, r') => cont f m (PUn Not e) r')
    | TOp Minus :: r =>
        pbind (parse_expr f (unary_bp Neg) r) (fun '(e, r') => cont f m (PUn Neg e) r')
    | TLP :: r =>
        pbind (parse_expr f paren_bp r)
              (fun '(e, r') => match r' with TRP :: r'' => cont f m e r'' | _ => PErr end)
    | TLB :: r =>
        pbind (parse_elems f CBracket r) (fun '(es, r') => cont f m (PArr es) r')
    | _ => PErr
    end.
Proof. reflexivity. Qed.

Lemma cont_S f m lhs ts :
  cont (S f) m lhs ts =
    match ts with
    | TDot :: TIdent fld :: r => cont f m (PMember lhs fld) r
    | TDot :: _ => PErr
    | TLP :: r =>
        pbind (parse_elems f CParen r) (fun '(args, r') => cont f m (PCall lhs args) r')
    | TLB :: r =>
        pbind (parse_expr f index_bp r)
              (fun '(i, r') => match r' with TRB :: r'' => cont f m (PIdx lhs i) r'' | _ => PErr end)
    | TOp op :: r =>
        if l_bp op <? m then POk (lhs, ts)
        else pbind (parse_expr f (r_bp op) r) (fun '(rhs, r') => cont f m (PBin op lhs rhs) r')
    | _ => POk (lhs, ts)
    end.
Proof. reflexivity. Qed.

Lemma parse_elems_S f c ts :
  parse_elems (S f) c ts =
    match ts with
    | t :: r => if is_close c t then POk ([], r) else elems_loop f c ts
    | [] => PErr
    end.
Proof. reflexivity. Qed.

Lemma elems_loop_S f c ts :
  elems_loop (S f) c ts =
    pbind (parse_expr f (list_bp c) ts)
      (fun '(e, r) =>
         match r with
         | TComma :: t :: r2 =>
             if is_close c t then POk ([e], r2)
             else pbind (elems_loop f c (t :: r2)) (fun '(es, r3) => POk (e :: es, r3))
         | TComma :: [] => PErr
         | t :: r1 => if is_close c t then POk ([e], r1) else PErr
         | [] => PErr
         end).
Proof. reflexivity. Qed.

(* ------------------------------------------------------------------ more fuel changes nothing *)
Lemma pbind_stable {A B} (x x' : pres A) (k k' : A -> pres B) :
  (x <> POof -> x' = x) ->
  (forall a, x = POk a -> k a <> POof -> k' a = k a) ->
  pbind x k <> POof -> pbind x' k' = pbind x k.
Proof.
  intros Hx Hk Hn. destruct x as [a| |].
  - rewrite Hx by discriminate. cbn in *. apply Hk; auto.
  - rewrite Hx by discriminate. reflexivity.
  - cbn in Hn. congruence.
Qed.

Definition stable_at (f : nat) : Prop :=
  (forall m ts, parse_expr f m ts <> POof -> parse_expr (S f) m ts = parse_expr f m ts) /\
  (forall m lhs ts, cont f m lhs ts <> POof -> cont (S f) m lhs ts = cont f m lhs ts) /\
  (forall c ts, parse_elems f c ts <> POof -> parse_elems (S f) c ts = parse_elems f c ts) /\
  (forall c ts, elems_loop f c ts <> POof -> elems_loop (S f) c ts = elems_loop f c ts).

Lemma stable : forall f, stable_at f.
Proof.
  induction f as [|f IH].
  - repeat split; intros; cbn in *; congruence.
  - destruct IH as (IHp & IHc & IHe & IHl).
    refine (conj _ (conj _ (conj _ _))).
    + intros m ts. rewrite (parse_expr_S (S f)), (parse_expr_S f).
      destruct ts as [|t r]; [reflexivity|].
      destruct t as [a|n| |op| | | | | | |k]; try reflexivity.
      * apply IHc.
      * apply IHc.
      * apply pbind_stable; [apply IHp|]. intros [e r'] _. apply IHc.
      * destruct op; try reflexivity.
        apply pbind_stable; [apply IHp|]. intros [e r'] _. apply IHc.
      * apply pbind_stable; [apply IHp|]. intros [e r'] _.
        destruct r' as [|t' r'']; [reflexivity|]. destruct t'; try reflexivity. apply IHc.
      * apply pbind_stable; [apply IHe|]. intros [es r'] _. apply IHc.
    + intros m lhs ts. rewrite (cont_S (S f)), (cont_S f).
      destruct ts as [|t r]; [reflexivity|].
      destruct t as [a|n| |op| | | | | | |k]; try reflexivity.
      * destruct (l_bp op <? m); [reflexivity|].
        apply pbind_stable; [apply IHp|]. intros [e r'] _. apply IHc.
      * apply pbind_stable; [apply IHe|]. intros [es r'] _. apply IHc.
      * apply pbind_stable; [apply IHp|]. intros [e r'] _.
        destruct r' as [|t' r'']; [reflexivity|]. destruct t'; try reflexivity. apply IHc.
      * destruct r as [|t' r']; [reflexivity|]. destruct t'; try reflexivity. apply IHc.
    + intros c ts. rewrite (parse_elems_S (S f)), (parse_elems_S f).
      destruct ts as [|t r]; [reflexivity|].
      destruct (is_close c t); [reflexivity|]. apply IHl.
    + intros c ts. rewrite (elems_loop_S (S f)), (elems_loop_S f).
      apply pbind_stable; [apply IHp|]. intros [e r] _.
      destruct r as [|t r1]; [reflexivity|].
      destruct t; try reflexivity.
      destruct r1 as [|t2 r2]; [reflexivity|].
      destruct (is_close c t2); [reflexivity|].
      apply pbind_stable; [apply IHl|]. intros [es r3] _ _. reflexivity.
Qed.

Lemma mono_parse_expr f f' m ts r :
  (f <= f')%nat -> parse_expr f m ts = POk r -> parse_expr f' m ts = POk r.
Proof.
  intros Hle H. induction Hle as [|f' _ IH]; [exact H|].
  rewrite (proj1 (stable f')); [exact IH| rewrite IH; discriminate].
Qed.

Lemma mono_cont f f' m lhs ts r :
  (f <= f')%nat -> cont f m lhs ts = POk r -> cont f' m lhs ts = POk r.
Proof.
  intros Hle H. induction Hle as [|f' _ IH]; [exact H|].
  rewrite (proj1 (proj2 (stable f'))); [exact IH| rewrite IH; discriminate].
Qed.

Lemma mono_parse_elems f f' c ts r :
  (f <= f')%nat -> parse_elems f c ts = POk r -> parse_elems f' c ts = POk r.
Proof.
  intros Hle H. induction Hle as [|f' _ IH]; [exact H|].
  rewrite (proj1 (proj2 (proj2 (stable f')))); [exact IH| rewrite IH; discriminate].
Qed.

Lemma mono_elems_loop f f' c ts r :
  (f <= f')%nat -> elems_loop f c ts = POk r -> elems_loop f' c ts = POk r.
Proof.
  intros Hle H. induction Hle as [|f' _ IH]; [exact H|].
  rewrite (proj2 (proj2 (proj2 (stable f')))); [exact IH| rewrite IH; discriminate].
Qed.

(* any result other than fuel exhaustion persists *)
Lemma stable_le f f' m ts :
  (f <= f')%nat -> parse_expr f m ts <> POof -> parse_expr f' m ts = parse_expr f m ts.
Proof.
  intros Hle H. induction Hle as [|f' _ IH]; [reflexivity|].
  rewrite (proj1 (stable f')); [exact IH| rewrite IH; exact H].
Qed.

(* ------------------------------------------------------------------ the fuel of parse_tokens suffices *)
Lemma pbind_enough {A B} (x : pres A) (k : A -> pres B) (P : B -> Prop) :
  x <> POof ->
  (forall a, x = POk a -> k a <> POof /\ forall b, k a = POk b -> P b) ->
  pbind x k <> POof /\ forall b, pbind x k = POk b -> P b.
Proof.
  intros Hx Hk. destruct x as [a| |]; cbn.
  - apply Hk. reflexivity.
  - split; [discriminate|]. intros b Hb. discriminate.
  - congruence.
Qed.

Definition enough_at (f : nat) : Prop :=
  (forall m ts, (3 * length ts + 1 <= f)%nat ->
     parse_expr f m ts <> POof /\
     forall p, parse_expr f m ts = POk p -> (length (snd p) < length ts)%nat) /\
  (forall m lhs ts, (3 * length ts + 1 <= f)%nat ->
     cont f m lhs ts <> POof /\
     forall p, cont f m lhs ts = POk p -> (length (snd p) <= length ts)%nat) /\
  (forall c ts, (3 * length ts + 3 <= f)%nat ->
     parse_elems f c ts <> POof /\
     forall p, parse_elems f c ts = POk p -> (length (snd p) < length ts)%nat) /\
  (forall c ts, (3 * length ts + 2 <= f)%nat ->
     elems_loop f c ts <> POof /\
     forall p, elems_loop f c ts = POk p -> (length (snd p) < length ts)%nat).

Ltac trivial_res :=
  split; [discriminate | intros ? Hres; try discriminate; inversion Hres; subst; cbn [snd length] in *; lia].

Lemma enough : forall f, enough_at f.
Proof.
  induction f as [|f IH].
  - repeat split; intros; lia.
  - destruct IH as (IHp & IHc & IHe & IHl).
    refine (conj _ (conj _ (conj _ _))).
    + intros m ts Hf. rewrite parse_expr_S.
      destruct ts as [|t r]; [trivial_res|]. cbn [length] in Hf.
      assert (Hc : forall lhs r0, (length r0 <= length r)%nat ->
                 cont f m lhs r0 <> POof /\
                 forall p, cont f m lhs r0 = POk p -> (length (snd p) < length (t :: r))%nat).
      { intros lhs r0 Hr0. destruct (IHc m lhs r0) as [H1 H2]; [lia|]. split; [exact H1|].
        intros p Hp. specialize (H2 p Hp). cbn [length]. lia. }
      destruct t as [a|n| |op| | | | | | |k]; try trivial_res.
      * apply Hc; lia.
      * apply Hc; lia.
      * destruct (IHp (unary_bp Not) r) as [H1 H2]; [lia|].
        apply pbind_enough; [exact H1|]. intros [e r'] He. specialize (H2 _ He). cbn [snd] in H2.
        apply Hc; lia.
      * destruct op; try trivial_res.
        destruct (IHp (unary_bp Neg) r) as [H1 H2]; [lia|].
        apply pbind_enough; [exact H1|]. intros [e r'] He. specialize (H2 _ He). cbn [snd] in H2.
        apply Hc; lia.
      * destruct (IHp paren_bp r) as [H1 H2]; [lia|].
        apply pbind_enough; [exact H1|]. intros [e r'] He. specialize (H2 _ He). cbn [snd] in H2.
        destruct r' as [|t' r'']; [trivial_res|]. cbn [length] in H2.
        destruct t'; try trivial_res. apply Hc; lia.
      * destruct (IHe CBracket r) as [H1 H2]; [lia|].
        apply pbind_enough; [exact H1|]. intros [es r'] He. specialize (H2 _ He). cbn [snd] in H2.
        apply Hc; lia.
    + intros m lhs ts Hf. rewrite cont_S.
      destruct ts as [|t r]; [trivial_res|]. cbn [length] in Hf.
      assert (Hc : forall lhs r0, (length r0 <= length r)%nat ->
                 cont f m lhs r0 <> POof /\
                 forall p, cont f m lhs r0 = POk p -> (length (snd p) <= length (t :: r))%nat).
      { intros lhs0 r0 Hr0. destruct (IHc m lhs0 r0) as [H1 H2]; [lia|]. split; [exact H1|].
        intros p Hp. specialize (H2 p Hp). cbn [length]. lia. }
      destruct t as [a|n| |op| | | | | | |k]; try trivial_res.
      * destruct (l_bp op <? m); [trivial_res|].
        destruct (IHp (r_bp op) r) as [H1 H2]; [lia|].
        apply pbind_enough; [exact H1|]. intros [e r'] He. specialize (H2 _ He). cbn [snd] in H2.
        apply Hc; lia.
      * destruct (IHe CParen r) as [H1 H2]; [lia|].
        apply pbind_enough; [exact H1|]. intros [es r'] He. specialize (H2 _ He). cbn [snd] in H2.
        apply Hc; lia.
      * destruct (IHp index_bp r) as [H1 H2]; [lia|].
        apply pbind_enough; [exact H1|]. intros [e r'] He. specialize (H2 _ He). cbn [snd] in H2.
        destruct r' as [|t' r'']; [trivial_res|]. cbn [length] in H2.
        destruct t'; try trivial_res. apply Hc; lia.
      * destruct r as [|t' r']; [trivial_res|]. cbn [length] in Hf.
        destruct t'; try trivial_res.
        destruct (IHc m (PMember lhs n) r') as [H1 H2]; [lia|]. split; [exact H1|].
        intros p Hp. specialize (H2 p Hp). cbn [length]. lia.
    + intros c ts Hf. rewrite parse_elems_S.
      destruct ts as [|t r]; [trivial_res|].
      destruct (is_close c t); [trivial_res|].
      apply IHl. lia.
    + intros c ts Hf. rewrite elems_loop_S.
      destruct (IHp (list_bp c) ts) as [H1 H2]; [lia|].
      apply pbind_enough; [exact H1|]. intros [e r] He. specialize (H2 _ He). cbn [snd] in H2.
      destruct r as [|t r1]; [trivial_res|]. cbn [length] in H2.
      destruct t; try (destruct (is_close c _); trivial_res).
      destruct r1 as [|t2 r2]; [trivial_res|]. cbn [length] in H2.
      destruct (is_close c t2); [trivial_res|].
      destruct (IHl c (t2 :: r2)) as [H3 H4]; [cbn [length]; lia|].
      apply pbind_enough; [exact H3|]. intros [es r3] Hes. specialize (H4 _ Hes).
      cbn [snd length] in H4. trivial_res.
Qed.

Lemma enough_fuel m ts : parse_expr (S (3 * length ts)) m ts <> POof.
Proof. apply (proj1 (enough (S (3 * length ts)))). lia. Qed.

(* whatever some fuel computes, the fuel of parse_tokens computes *)
Lemma parse_expr_any_fuel f m ts r :
  parse_expr f m ts = POk r -> parse_expr (S (3 * length ts)) m ts = POk r.
Proof.
  intros H. destruct (Nat.le_ge_cases f (S (3 * length ts))) as [Hle|Hge].
  - eapply mono_parse_expr; eauto.
  - rewrite <- H. symmetry. apply stable_le; [exact Hge| apply enough_fuel].
Qed.

(* ------------------------------------------------------------------ facts about the generated table *)
Lemma table_ok_true : table_ok = true.
Proof. vm_compute. reflexivity. Qed.

Lemma levels_ok_true : levels_ok = true.
Proof. vm_compute. reflexivity. Qed.

Lemma in_all_binops op : In op all_binops.
Proof. destruct op; cbn; tauto. Qed.
Lemma in_all_unops u : In u all_unops.
Proof. destruct u; cbn; tauto. Qed.

Record table_facts : Prop := {
  tf_assoc : forall op, l_bp op < r_bp op;
  tf_paren : forall op, paren_bp <= l_bp op;
  tf_elem : forall op, elem_bp <= l_bp op;
  tf_arg : forall op, arg_bp <= l_bp op;
  tf_index : forall op, index_bp <= l_bp op;
  tf_un_l : forall op u, l_bp op < unary_bp u;
  tf_un_r : forall op u, r_bp op <= unary_bp u;
  tf_paren_u : forall u, paren_bp <= unary_bp u;
  tf_elem_u : forall u, elem_bp <= unary_bp u;
  tf_arg_u : forall u, arg_bp <= unary_bp u;
  tf_index_u : forall u, index_bp <= unary_bp u;
  tf_un_pos : forall u, 0 <= unary_bp u;
  tf_l_pos : forall op, 0 <= l_bp op;
}.

Lemma the_table : table_facts.
Proof.
  constructor; intros; try destruct op; try destruct u; cbv;
    first [reflexivity | discriminate | (intro; discriminate)].
Qed.

Lemma post_ctx_gt_un u : unary_bp u < post_ctx.
Proof. unfold post_ctx. destruct u; lia. Qed.
Lemma post_ctx_gt_l op : l_bp op < post_ctx.
Proof. pose proof (tf_un_l the_table op Not). pose proof (post_ctx_gt_un Not). lia. Qed.

(* ------------------------------------------------------------------ the round trip *)
Scheme aexpr_mut := Induction for aexpr Sort Prop
  with aexprs_mut := Induction for aexprs Sort Prop.
Combined Scheme aexpr_mutind from aexpr_mut, aexprs_mut.

Definition postfix_start (t : ptok) : bool :=
  match t with TDot | TLP | TLB => true | _ => false end.

(* the text after an operand does not continue it at binding power k *)
Definition stops (k : Z) (rest : list ptok) : Prop :=
  match rest with
  | [] => True
  | t :: _ => postfix_start t = false /\ match t with TOp h => l_bp h < k | _ => True end
  end.

Lemma stops_mono k k' rest : k <= k' -> stops k rest -> stops k' rest.
Proof.
  intros Hk H. destruct rest as [|t r]; [exact I|]. destruct H as [H1 H2]. split; [exact H1|].
  destruct t; try exact I. lia.
Qed.

Lemma stops_cont f m lhs rest : stops m rest -> cont (S f) m lhs rest = POk (lhs, rest).
Proof.
  intros H. rewrite cont_S. destruct rest as [|t r]; [reflexivity|]. destruct H as [H1 H2].
  destruct t; try discriminate H1; try reflexivity.
  apply Z.ltb_lt in H2. rewrite H2. reflexivity.
Qed.

(* Some k: printed without enclosing parentheses in context m', right-hand context k *)
Definition opn (m' : Z) (a : aexpr) : option Z :=
  match a with
  | ABin op _ _ => if m' <=? l_bp op then Some (r_bp op) else None
  | AUn u _ => if m' <=? unary_bp u then Some (unary_bp u) else None
  | _ => None
  end.

Definition cond (a : aexpr) (m' : Z) (rest : list ptok) : Prop :=
  match opn m' a with Some k => stops k rest | None => True end.

Definition P (a : aexpr) : Prop :=
  forall m m' rest res f1, m <= m' -> m' <= post_ctx -> cond a m' rest ->
    cont f1 m (erase a) rest = POk res ->
    exists f, parse_expr f m (pr m' a ++ rest) = POk res.

Definition close_tok (c : closer) : ptok := match c with CBracket => TRB | CParen => TRP end.

Definition Q (es : aexprs) : Prop :=
  forall c rest,
    (exists f, parse_elems f c (prs (list_bp c) es ++ close_tok c :: rest) = POk (erases es, rest)) /\
    (es <> ANil ->
     exists f, elems_loop f c (prs (list_bp c) es ++ close_tok c :: rest) = POk (erases es, rest)).

Lemma wrap_parse body e m rest res f1 f2 :
  parse_expr f2 paren_bp (body ++ TRP :: rest) = POk (e, TRP :: rest) ->
  cont f1 m e rest = POk res ->
  exists f, parse_expr f m (wrap body ++ rest) = POk res.
Proof.
  intros H2 H1. exists (S (Nat.max f1 f2)). unfold wrap. cbn [app]. rewrite <- app_assoc. cbn [app].
  rewrite parse_expr_S. rewrite (mono_parse_expr f2 _ _ _ _ (Nat.le_max_r _ _) H2). cbn [pbind].
  eapply mono_cont; [apply Nat.le_max_l| exact H1].
Qed.

Lemma list_bp_le_l c op : list_bp c <= l_bp op.
Proof. destruct c; cbn [list_bp]; [apply (tf_elem the_table)|apply (tf_arg the_table)]. Qed.
Lemma list_bp_le_u c u : list_bp c <= unary_bp u.
Proof. destruct c; cbn [list_bp]; [apply (tf_elem_u the_table)|apply (tf_arg_u the_table)]. Qed.
Lemma list_bp_le_post c : list_bp c <= post_ctx.
Proof. pose proof (list_bp_le_u c Not). pose proof (post_ctx_gt_un Not). lia. Qed.

Lemma cond_closed a m' t r :
  postfix_start t = false -> (forall h, t <> TOp h) -> cond a m' (t :: r).
Proof.
  intros Hp Hop. unfold cond. destruct (opn m' a); [|exact I]. split; [exact Hp|].
  destruct t; try exact I. exfalso. eapply Hop. reflexivity.
Qed.

Lemma stops_closed k t r :
  postfix_start t = false -> (forall h, t <> TOp h) -> stops k (t :: r).
Proof.
  intros Hp Hop. split; [exact Hp|]. destruct t; try exact I. exfalso. eapply Hop. reflexivity.
Qed.

Lemma P_lit x : P (ALit x).
Proof.
  intros m m' rest res f1 _ _ _ Hc. exists (S f1). cbn [pr app]. rewrite parse_expr_S. exact Hc.
Qed.

Lemma P_var n : P (AVar n).
Proof.
  intros m m' rest res f1 _ _ _ Hc. exists (S f1). cbn [pr app]. rewrite parse_expr_S. exact Hc.
Qed.

Lemma cond_operand_un u e rest : stops (unary_bp u) rest -> cond e (unary_bp u) rest.
Proof.
  intros Hs. unfold cond, opn. destruct e; try exact I.
  - destruct (unary_bp u <=? unary_bp u0) eqn:E; [|exact I].
    apply Z.leb_le in E. eapply stops_mono; eauto.
  - destruct (unary_bp u <=? l_bp op) eqn:E; [|exact I].
    apply Z.leb_le in E. pose proof (tf_un_l the_table op u). lia.
Qed.

Lemma open_un u e (IHe : P e) m rest res f1 :
  stops (unary_bp u) rest ->
  cont f1 m (PUn u (erase e)) rest = POk res ->
  exists f, parse_expr f m ((un_tok u :: pr (unary_bp u) e) ++ rest) = POk res.
Proof.
  intros Hs Hc.
  destruct (IHe (unary_bp u) (unary_bp u) rest (erase e, rest) 1%nat) as [f2 H2].
  - lia.
  - pose proof (post_ctx_gt_un u). lia.
  - apply cond_operand_un. exact Hs.
  - apply stops_cont. exact Hs.
  - exists (S (Nat.max f1 f2)). cbn [app]. rewrite parse_expr_S.
    destruct u; cbn [un_tok];
      rewrite (mono_parse_expr f2 _ _ _ _ (Nat.le_max_r _ _) H2); cbn [pbind];
      (eapply mono_cont; [apply Nat.le_max_l| exact Hc]).
Qed.

Lemma P_un u e : P e -> P (AUn u e).
Proof.
  intros IHe m m' rest res f1 Hm Hm' Hcond Hc. cbn [pr erase] in *.
  unfold cond, opn in Hcond.
  destruct (m' <=? unary_bp u) eqn:E.
  - apply (open_un u e IHe m rest res f1 Hcond Hc).
  - destruct (open_un u e IHe paren_bp (TRP :: rest) (PUn u (erase e), TRP :: rest) 1%nat) as [f2 H2].
    + apply stops_closed; [reflexivity| intros h; discriminate].
    + apply stops_cont. apply stops_closed; [reflexivity| intros h; discriminate].
    + eapply wrap_parse; eauto.
Qed.

Lemma cond_right_operand op y rest : stops (r_bp op) rest -> cond y (r_bp op) rest.
Proof.
  intros Hs. unfold cond, opn. destruct y; try exact I.
  - destruct (r_bp op <=? unary_bp u) eqn:E; [|exact I].
    apply Z.leb_le in E. eapply stops_mono; eauto.
  - destruct (r_bp op <=? l_bp op0) eqn:E; [|exact I].
    apply Z.leb_le in E. pose proof (tf_assoc the_table op0). eapply stops_mono; [|exact Hs]. lia.
Qed.

Lemma cond_left_operand op x r : cond x (l_bp op) (TOp op :: r).
Proof.
  unfold cond, opn. destruct x; try exact I.
  - destruct (l_bp op <=? unary_bp u) eqn:E; [|exact I].
    split; [reflexivity|]. apply (tf_un_l the_table).
  - destruct (l_bp op <=? l_bp op0) eqn:E; [|exact I].
    apply Z.leb_le in E. split; [reflexivity|]. pose proof (tf_assoc the_table op0). lia.
Qed.

Lemma open_bin op x y (IHx : P x) (IHy : P y) m rest res f1 :
  m <= l_bp op -> stops (r_bp op) rest ->
  cont f1 m (PBin op (erase x) (erase y)) rest = POk res ->
  exists f, parse_expr f m ((pr (l_bp op) x ++ TOp op :: pr (r_bp op) y) ++ rest) = POk res.
Proof.
  intros Hm Hs Hc.
  destruct (IHy (r_bp op) (r_bp op) rest (erase y, rest) 1%nat) as [f2 H2].
  - lia.
  - pose proof (tf_un_r the_table op Not). pose proof (post_ctx_gt_un Not). lia.
  - apply cond_right_operand. exact Hs.
  - apply stops_cont. exact Hs.
  - rewrite <- app_assoc. cbn [app].
    apply (IHx m (l_bp op) (TOp op :: pr (r_bp op) y ++ rest) res (S (Nat.max f1 f2))).
    + exact Hm.
    + pose proof (post_ctx_gt_l op). lia.
    + apply cond_left_operand.
    + rewrite cont_S. assert (E : (l_bp op <? m) = false) by (apply Z.ltb_ge; lia). rewrite E.
      rewrite (mono_parse_expr f2 _ _ _ _ (Nat.le_max_r _ _) H2). cbn [pbind].
      eapply mono_cont; [apply Nat.le_max_l| exact Hc].
Qed.

Lemma P_bin op x y : P x -> P y -> P (ABin op x y).
Proof.
  intros IHx IHy m m' rest res f1 Hm Hm' Hcond Hc. cbn [pr erase] in *.
  unfold cond, opn in Hcond.
  destruct (m' <=? l_bp op) eqn:E.
  - apply Z.leb_le in E. apply (open_bin op x y IHx IHy m rest res f1); [lia|exact Hcond|exact Hc].
  - destruct (open_bin op x y IHx IHy paren_bp (TRP :: rest)
                (PBin op (erase x) (erase y), TRP :: rest) 1%nat) as [f2 H2].
    + apply (tf_paren the_table).
    + apply stops_closed; [reflexivity| intros h; discriminate].
    + apply stops_cont. apply stops_closed; [reflexivity| intros h; discriminate].
    + eapply wrap_parse; eauto.
Qed.

Lemma P_paren e : P e -> P (AParen e).
Proof.
  intros IHe m m' rest res f1 Hm Hm' _ Hc. cbn [pr erase] in *.
  destruct (IHe paren_bp paren_bp (TRP :: rest) (erase e, TRP :: rest) 1%nat) as [f2 H2].
  - lia.
  - pose proof (tf_paren_u the_table Not). pose proof (post_ctx_gt_un Not). lia.
  - apply cond_closed; [reflexivity| intros h; discriminate].
  - apply stops_cont. apply stops_closed; [reflexivity| intros h; discriminate].
  - eapply wrap_parse; eauto.
Qed.

Lemma cond_post a rest : cond a post_ctx rest.
Proof.
  unfold cond, opn. destruct a; try exact I.
  - pose proof (post_ctx_gt_un u). destruct (post_ctx <=? unary_bp u) eqn:E; [|exact I].
    apply Z.leb_le in E. lia.
  - pose proof (post_ctx_gt_l op). destruct (post_ctx <=? l_bp op) eqn:E; [|exact I].
    apply Z.leb_le in E. lia.
Qed.

Lemma P_member o fld : P o -> P (AMember o fld).
Proof.
  intros IHo m m' rest res f1 Hm Hm' _ Hc. cbn [pr erase] in *.
  rewrite <- app_assoc. cbn [app].
  apply (IHo m post_ctx (TDot :: TIdent fld :: rest) res (S f1)).
  - lia.
  - lia.
  - apply cond_post.
  - rewrite cont_S. exact Hc.
Qed.

Lemma P_idx x i : P x -> P i -> P (AIdx x i).
Proof.
  intros IHx IHi m m' rest res f1 Hm Hm' _ Hc. cbn [pr erase] in *.
  destruct (IHi index_bp index_bp (TRB :: rest) (erase i, TRB :: rest) 1%nat) as [f2 H2].
  - lia.
  - pose proof (tf_index_u the_table Not). pose proof (post_ctx_gt_un Not). lia.
  - apply cond_closed; [reflexivity| intros h; discriminate].
  - apply stops_cont. apply stops_closed; [reflexivity| intros h; discriminate].
  - rewrite <- app_assoc. cbn [app]. rewrite <- app_assoc. cbn [app].
    apply (IHx m post_ctx (TLB :: pr index_bp i ++ TRB :: rest) res (S (Nat.max f1 f2))).
    + lia.
    + lia.
    + apply cond_post.
    + rewrite cont_S. rewrite (mono_parse_expr f2 _ _ _ _ (Nat.le_max_r _ _) H2). cbn [pbind].
      eapply mono_cont; [apply Nat.le_max_l| exact Hc].
Qed.

Lemma P_call c args : P c -> Q args -> P (ACall c args).
Proof.
  intros IHc IHa m m' rest res f1 Hm Hm' _ Hc. cbn [pr erase] in *.
  destruct (IHa CParen rest) as [[f2 H2] _]. cbn [list_bp close_tok] in H2.
  rewrite <- app_assoc. cbn [app]. rewrite <- app_assoc. cbn [app].
  apply (IHc m post_ctx (TLP :: prs arg_bp args ++ TRP :: rest) res (S (Nat.max f1 f2))).
  - lia.
  - lia.
  - apply cond_post.
  - rewrite cont_S. rewrite (mono_parse_elems f2 _ _ _ _ (Nat.le_max_r _ _) H2). cbn [pbind].
    eapply mono_cont; [apply Nat.le_max_l| exact Hc].
Qed.

Lemma P_arr es : Q es -> P (AArr es).
Proof.
  intros IHa m m' rest res f1 Hm Hm' _ Hc. cbn [pr erase] in *.
  destruct (IHa CBracket rest) as [[f2 H2] _]. cbn [list_bp close_tok] in H2.
  exists (S (Nat.max f1 f2)). cbn [app]. rewrite <- app_assoc. cbn [app].
  rewrite parse_expr_S. rewrite (mono_parse_elems f2 _ _ _ _ (Nat.le_max_r _ _) H2). cbn [pbind].
  eapply mono_cont; [apply Nat.le_max_l| exact Hc].
Qed.

(* the first token of a printed expression never closes a list *)
Lemma pr_head a : forall m, exists t ts, pr m a = t :: ts /\ forall c, is_close c t = false.
Proof.
  induction a; intros m; cbn [pr].
  - eexists _, _; split; [reflexivity| intros c; destruct c; reflexivity].
  - eexists _, _; split; [reflexivity| intros c; destruct c; reflexivity].
  - destruct (m <=? unary_bp u).
    + destruct u; eexists _, _; (split; [reflexivity| intros c; destruct c; reflexivity]).
    + eexists _, _; split; [reflexivity| intros c; destruct c; reflexivity].
  - destruct (m <=? l_bp op).
    + destruct (IHa1 (l_bp op)) as (t & ts & Ht & Hc). rewrite Ht. eexists _, _; split; [reflexivity|exact Hc].
    + eexists _, _; split; [reflexivity| intros c; destruct c; reflexivity].
  - eexists _, _; split; [reflexivity| intros c; destruct c; reflexivity].
  - destruct (IHa1 post_ctx) as (t & ts & Ht & Hc). rewrite Ht. eexists _, _; split; [reflexivity|exact Hc].
  - destruct (IHa post_ctx) as (t & ts & Ht & Hc). rewrite Ht. eexists _, _; split; [reflexivity|exact Hc].
  - destruct (IHa post_ctx) as (t & ts & Ht & Hc). rewrite Ht. eexists _, _; split; [reflexivity|exact Hc].
  - eexists _, _; split; [reflexivity| intros c; destruct c; reflexivity].
Qed.

Lemma prs_one m e : prs m (ACons e ANil) = pr m e.
Proof. reflexivity. Qed.
Lemma prs_more m e e2 r2 : prs m (ACons e (ACons e2 r2)) = pr m e ++ TComma :: prs m (ACons e2 r2).
Proof. reflexivity. Qed.

Lemma prs_head m e r : exists t ts, prs m (ACons e r) = t :: ts /\ forall c, is_close c t = false.
Proof.
  destruct (pr_head e m) as (t & ts & Ht & Hc).
  destruct r as [|e2 r2].
  - rewrite prs_one, Ht. eauto.
  - rewrite prs_more, Ht. eexists _, _; split; [reflexivity|exact Hc].
Qed.

Lemma is_close_close c : is_close c (close_tok c) = true.
Proof. destruct c; reflexivity. Qed.

Lemma Q_nil : Q ANil.
Proof.
  intros c rest. split.
  - exists 1%nat. cbn [prs app]. rewrite parse_elems_S. rewrite is_close_close. reflexivity.
  - intros H. congruence.
Qed.

Lemma close_tok_shape c : postfix_start (close_tok c) = false /\ (forall h, close_tok c <> TOp h) /\
                          close_tok c <> TComma.
Proof. destruct c; repeat split; try discriminate; intros h; discriminate. Qed.

Lemma Q_cons e r : P e -> Q r -> Q (ACons e r).
Proof.
  intros IHe IHr c rest.
  assert (Hloop : exists f, elems_loop f c (prs (list_bp c) (ACons e r) ++ close_tok c :: rest)
                            = POk (erases (ACons e r), rest)).
  { destruct (close_tok_shape c) as (Hcp & Hcop & Hcc).
    destruct r as [|e2 r2].
    - rewrite prs_one. cbn [erases].
      destruct (IHe (list_bp c) (list_bp c) (close_tok c :: rest) (erase e, close_tok c :: rest) 1%nat)
        as [f2 H2].
      + lia.
      + apply list_bp_le_post.
      + apply cond_closed; assumption.
      + apply stops_cont. apply stops_closed; assumption.
      + exists (S f2). rewrite elems_loop_S, H2. cbn [pbind].
        pose proof (is_close_close c) as Hcl.
        destruct c; cbn [close_tok is_close] in *; reflexivity.
    - rewrite prs_more. rewrite <- app_assoc. cbn [app].
      destruct (IHr c rest) as [_ Hr]. destruct Hr as [f3 H3]; [discriminate|].
      destruct (prs_head (list_bp c) e2 r2) as (t & ts & Ht & Hnc).
      rewrite Ht in *. cbn [app] in *.
      destruct (IHe (list_bp c) (list_bp c) (TComma :: t :: ts ++ close_tok c :: rest)
                  (erase e, TComma :: t :: ts ++ close_tok c :: rest) 1%nat) as [f2 H2].
      + lia.
      + apply list_bp_le_post.
      + apply cond_closed; [reflexivity| intros h; discriminate].
      + apply stops_cont. apply stops_closed; [reflexivity| intros h; discriminate].
      + exists (S (Nat.max f2 f3)). rewrite elems_loop_S.
        rewrite (mono_parse_expr f2 _ _ _ _ (Nat.le_max_l _ _) H2). cbn [pbind].
        rewrite (Hnc c).
        rewrite (mono_elems_loop f3 _ _ _ _ (Nat.le_max_r _ _) H3). cbn [pbind]. reflexivity. }
  split; [|intros _; exact Hloop].
  destruct Hloop as [f Hf]. exists (S f). rewrite parse_elems_S.
  destruct (prs_head (list_bp c) e r) as (t & ts & Ht & Hnc). rewrite Ht in *. cbn [app] in *.
  rewrite (Hnc c). exact Hf.
Qed.

Lemma roundtrip_main : (forall a, P a) /\ (forall es, Q es).
Proof.
  apply aexpr_mutind.
  - exact P_lit.
  - exact P_var.
  - intros; apply P_un; assumption.
  - intros; apply P_bin; assumption.
  - intros; apply P_arr; assumption.
  - intros; apply P_idx; assumption.
  - intros; apply P_member; assumption.
  - intros; apply P_call; assumption.
  - intros; apply P_paren; assumption.
  - exact Q_nil.
  - intros; apply Q_cons; assumption.
Qed.

(* ================================================================== the theorems *)
Theorem pratt_roundtrip : forall a : aexpr, parse_tokens (print a) = POk (erase a).
Proof.
  intros a. unfold parse_tokens, print.
  destruct (proj1 roundtrip_main a 0 0 [] (erase a, []) 1%nat) as [f Hf].
  - lia.
  - pose proof (tf_un_pos the_table Not). pose proof (post_ctx_gt_un Not). lia.
  - unfold cond. destruct (opn 0 a); exact I.
  - reflexivity.
  - rewrite app_nil_r in Hf. rewrite (parse_expr_any_fuel _ _ _ _ Hf). reflexivity.
Qed.

Corollary pratt_roundtrip_tree :
  forall (e : pexpr) (a : aexpr), erase a = e -> parse_tokens (print a) = POk e.
Proof. intros e a <-. apply pratt_roundtrip. Qed.

Fixpoint erase_embed (e : pexpr) : erase (embed e) = e.
Proof.
  destruct e; cbn [embed erase]; try reflexivity.
  - f_equal. apply erase_embed.
  - f_equal; apply erase_embed.
  - f_equal. revert es. fix IH 1. intros [|x r]; cbn [erases]; [reflexivity|].
    f_equal; [apply erase_embed | apply IH].
  - f_equal; apply erase_embed.
  - f_equal. apply erase_embed.
  - f_equal; [apply erase_embed|].
    revert args. fix IH 1. intros [|x r]; cbn [erases]; [reflexivity|].
    f_equal; [apply erase_embed | apply IH].
Qed.

(* every tree has a printed form (the one without redundant parentheses), and it parses back *)
Corollary pratt_roundtrip_minimal : forall e : pexpr, parse_tokens (print (embed e)) = POk e.
Proof. intros e. apply pratt_roundtrip_tree. apply erase_embed. Qed.

(* parentheses that the grammar does not need never change the tree *)
Corollary parens_redundant :
  forall a1 a2 : aexpr, erase a1 = erase a2 -> parse_tokens (print a1) = parse_tokens (print a2).
Proof. intros a1 a2 H. rewrite !pratt_roundtrip. f_equal. exact H. Qed.

Corollary parens_redundant_outer :
  forall a : aexpr, parse_tokens (TLP :: print a ++ [TRP]) = parse_tokens (print a).
Proof.
  intros a. change (TLP :: print a ++ [TRP]) with (print (AParen a)).
  - apply parens_redundant. reflexivity.
Qed.

(* first milestone: atoms, unary operators, binary operators, parentheses *)
Corollary pratt_roundtrip_partial :
  forall a : aexpr, basic a = true -> parse_tokens (print a) = POk (erase a).
Proof. intros a _. apply pratt_roundtrip. Qed.

(* ---------- precedence and associativity, read off the generated table ---------- *)
Lemma prec_looser_first : forall a b x y z, level a < level b ->
  parse_tokens [TIdent x; TOp a; TIdent y; TOp b; TIdent z]
  = POk (PBin a (PVar x) (PBin b (PVar y) (PVar z))).
Proof.
  intros a b x y z H. destruct a, b; try (exfalso; cbv in H; discriminate H); reflexivity.
Qed.

Lemma prec_tighter_first : forall a b x y z, level a < level b ->
  parse_tokens [TIdent x; TOp b; TIdent y; TOp a; TIdent z]
  = POk (PBin a (PBin b (PVar x) (PVar y)) (PVar z)).
Proof.
  intros a b x y z H. destruct a, b; try (exfalso; cbv in H; discriminate H); reflexivity.
Qed.

Lemma left_assoc : forall a b x y z, level a = level b ->
  parse_tokens [TIdent x; TOp a; TIdent y; TOp b; TIdent z]
  = POk (PBin b (PBin a (PVar x) (PVar y)) (PVar z)).
Proof.
  intros a b x y z H. destruct a, b; try (exfalso; cbv in H; discriminate H); reflexivity.
Qed.

Lemma unary_tighter_than_binary : forall u op x y,
  parse_tokens [un_tok u; TIdent x; TOp op; TIdent y] = POk (PBin op (PUn u (PVar x)) (PVar y)).
Proof. intros u op x y. destruct u, op; reflexivity. Qed.

Lemma binary_then_unary : forall u op x y,
  parse_tokens [TIdent x; TOp op; un_tok u; TIdent y] = POk (PBin op (PVar x) (PUn u (PVar y))).
Proof. intros u op x y. destruct u, op; reflexivity. Qed.

Lemma postfix_tighter_than_unary : forall u x f,
  parse_tokens [un_tok u; TIdent x; TDot; TIdent f; TLP; TRP]
  = POk (PUn u (PCall (PMember (PVar x) f) [])).
Proof. intros u x f. destruct u; reflexivity. Qed.

Lemma postfix_tighter_than_binary : forall op x y i,
  parse_tokens [TIdent x; TOp op; TIdent y; TLB; TIdent i; TRB]
  = POk (PBin op (PVar x) (PIdx (PVar y) (PVar i))).
Proof. intros op x y i. destruct op; reflexivity. Qed.

(* where the printer puts parentheses: exactly when the operand binds looser than its context *)
Lemma print_paren_rule : forall op x y m,
  pr m (ABin op x y) =
    if m <=? l_bp op then pr (l_bp op) x ++ TOp op :: pr (r_bp op) y
    else TLP :: (pr (l_bp op) x ++ TOp op :: pr (r_bp op) y) ++ [TRP].
Proof. reflexivity. Qed.

(* the identifier-statement path (`x get ...`, `f(1)`, `a[0] get ...`) builds the same tree as
   the expression path *)
Lemma stmt_path_same : forall f n ts,
  parse_expr (S f) stmt_bp (TIdent n :: ts) = parse_stmt_expr f n ts.
Proof. reflexivity. Qed.

(* a parse with the fuel of parse_tokens never runs out of fuel *)
Lemma parse_tokens_total : forall ts, parse_tokens ts <> POof.
Proof.
  intros ts. unfold parse_tokens. pose proof (enough_fuel 0 ts) as H.
  destruct (parse_expr (S (3 * length ts)) 0 ts) as [[e [|t r]]| |]; congruence.
Qed.
