(* Proofs about theories/Proc.v (property C15): validate accepts exactly the commands within
   the configured caps, rejects with the documented reason, hands the builder's fields to
   the backend unchanged; the environment vector has last-write-wins semantics without
   duplicate keys; the backend is applied only after the policy gate and validate passed. *)
From Coq Require Import ZArith List Bool Lia.
Require Import NS.theories.GenProc NS.theories.Proc.
Import ListNotations.
Open Scope Z_scope.

(* ------------------------------------------------------------------ byte strings *)

Lemma zlen_acc_eq {A} (s : list A) acc : zlen_acc s acc = acc + Z.of_nat (length s).
Proof.
  revert acc. induction s as [|x t IH]; intros acc; cbn [zlen_acc length].
  - lia.
  - rewrite IH. lia.
Qed.

Lemma zlen_eq s : zlen s = blen s.
Proof. unfold zlen, blen. rewrite zlen_acc_eq. lia. Qed.

Lemma zcount_eq {A} (l : list A) : zcount l = Z.of_nat (length l).
Proof. unfold zcount. rewrite zlen_acc_eq. lia. Qed.

Lemma blen_nonneg s : 0 <= blen s.
Proof. unfold blen. lia. Qed.

Lemma has_byte_true b s : has_byte b s = true <-> In b s.
Proof.
  unfold has_byte. rewrite existsb_exists. split.
  - intros [x [Hin Heq]]. apply Z.eqb_eq in Heq. subst. exact Hin.
  - intros Hin. exists b. split; [exact Hin | apply Z.eqb_refl].
Qed.

Lemma has_byte_false b s : has_byte b s = false <-> ~ In b s.
Proof.
  rewrite <- has_byte_true. destruct (has_byte b s); split; intros H.
  - discriminate.
  - exfalso. apply H. reflexivity.
  - intros H'. discriminate.
  - reflexivity.
Qed.

Lemma is_empty_true s : is_empty s = true <-> s = [].
Proof. destruct s; cbn [is_empty]; split; intros H; congruence. Qed.

Lemma str_eqb_eq a b : str_eqb a b = true <-> a = b.
Proof.
  revert b. induction a as [|x a IH]; intros [|y b]; cbn [str_eqb]; split; intros H; try congruence.
  - apply andb_true_iff in H. destruct H as [Hxy Hab].
    apply Z.eqb_eq in Hxy. apply IH in Hab. subst. reflexivity.
  - injection H as Hx Ha. subst. rewrite Z.eqb_refl. cbn [andb]. apply IH. reflexivity.
Qed.

Lemma str_eqb_refl a : str_eqb a a = true.
Proof. apply str_eqb_eq. reflexivity. Qed.

Lemma str_eqb_neq a b : str_eqb a b = false <-> a <> b.
Proof.
  rewrite <- str_eqb_eq. destruct (str_eqb a b); split; intros H.
  - discriminate.
  - exfalso. apply H. reflexivity.
  - intros H'. discriminate.
  - reflexivity.
Qed.

Lemma str_eqb_sym a b : str_eqb a b = str_eqb b a.
Proof.
  destruct (str_eqb a b) eqn:E1; destruct (str_eqb b a) eqn:E2; try reflexivity.
  - apply str_eqb_eq in E1. subst. rewrite str_eqb_refl in E2. discriminate.
  - apply str_eqb_eq in E2. subst. rewrite str_eqb_refl in E1. discriminate.
Qed.

(* ------------------------------------------------------------------ named_text, count *)

Definition text_within (allow_empty forbid_eq : bool) (max : Z) (v : str) : Prop :=
  (allow_empty = false -> v <> []) /\ ~ In 0 v /\ (forbid_eq = true -> ~ In 61 v) /\ blen v <= max.

Definition text_violation (allow_empty forbid_eq : bool) (max : Z) (v : str) : Prop :=
  (allow_empty = false /\ v = []) \/ In 0 v \/ (forbid_eq = true /\ In 61 v) \/ blen v > max.

Lemma text_violation_not_within ae fe max v : text_violation ae fe max v -> ~ text_within ae fe max v.
Proof.
  intros Hv [H1 [H2 [H3 H4]]].
  destruct Hv as [[Ha Hb]|[Hb|[[Ha Hb]|Hb]]].
  - exact (H1 Ha Hb).
  - exact (H2 Hb).
  - exact (H3 Ha Hb).
  - lia.
Qed.

Lemma named_text_cases nt kind c v :
  nt_cap nt c <= cap_type_max ->
  (named_text nt kind c v = Err kind /\
   text_violation (nt_allow_empty nt) (nt_forbid_equals nt) (nt_cap nt c) v) \/
  (named_text nt kind c v = Ok (blen v) /\
   text_within (nt_allow_empty nt) (nt_forbid_equals nt) (nt_cap nt c) v).
Proof.
  intros Hcap. unfold named_text, text_violation, text_within. rewrite zlen_eq.
  destruct (negb (nt_allow_empty nt) && is_empty v) eqn:E1.
  { left. split; [reflexivity|]. apply andb_true_iff in E1. destruct E1 as [Ha Hb].
    apply negb_true_iff in Ha. apply is_empty_true in Hb. left. split; assumption. }
  destruct (has_byte 0 v) eqn:E2.
  { left. split; [reflexivity|]. apply has_byte_true in E2. right. left. exact E2. }
  destruct (nt_forbid_equals nt && has_byte 61 v) eqn:E3.
  { left. split; [reflexivity|]. apply andb_true_iff in E3. destruct E3 as [Ha Hb].
    apply has_byte_true in Hb. right. right. left. split; assumption. }
  destruct (Z.gtb_spec (blen v) cap_type_max) as [Hg1|Hg1].
  { left. split; [reflexivity|]. right. right. right. lia. }
  destruct (Z.gtb_spec (blen v) (nt_cap nt c)) as [Hg2|Hg2].
  { left. split; [reflexivity|]. right. right. right. lia. }
  right. split; [reflexivity|]. refine (conj _ (conj _ (conj _ _))).
  - intros Ha Hv. rewrite Ha in E1. subst v. cbn [negb is_empty andb] in E1. discriminate.
  - apply has_byte_false. exact E2.
  - intros Ha. rewrite Ha in E3. cbn [andb] in E3. apply has_byte_false. exact E3.
  - exact Hg2.
Qed.

Lemma named_text_ok nt kind c v len :
  nt_cap nt c <= cap_type_max ->
  (named_text nt kind c v = Ok len <->
   text_within (nt_allow_empty nt) (nt_forbid_equals nt) (nt_cap nt c) v /\ len = blen v).
Proof.
  intros Hcap. destruct (named_text_cases nt kind c v Hcap) as [[He Hv]|[Ho Hw]].
  - rewrite He. split; [discriminate|]. intros [Hw _].
    exfalso. exact (text_violation_not_within _ _ _ _ Hv Hw).
  - rewrite Ho. split.
    + intros H. injection H as <-. split; [exact Hw | reflexivity].
    + intros [_ ->]. reflexivity.
Qed.

Lemma named_text_err nt kind c v e :
  nt_cap nt c <= cap_type_max ->
  named_text nt kind c v = Err e ->
  e = kind /\ text_violation (nt_allow_empty nt) (nt_forbid_equals nt) (nt_cap nt c) v.
Proof.
  intros Hcap H. destruct (named_text_cases nt kind c v Hcap) as [[He Hv]|[Ho Hw]].
  - rewrite He in H. injection H as <-. split; [reflexivity | exact Hv].
  - rewrite Ho in H. discriminate.
Qed.

Lemma count_check_cases kind len max :
  max <= cap_type_max ->
  (count_check kind len max = Err kind /\ len > max) \/ (count_check kind len max = Ok tt /\ len <= max).
Proof.
  intros Hcap. unfold count_check.
  destruct (Z.gtb_spec len cap_type_max) as [H1|H1].
  { left. split; [reflexivity | lia]. }
  destruct (Z.gtb_spec len max) as [H2|H2].
  { left. split; [reflexivity | lia]. }
  right. split; [reflexivity | lia].
Qed.

(* ------------------------------------------------------------------ the two loops *)

Lemma sum_lens_nonneg l : 0 <= sum_lens l.
Proof. induction l as [|a t IH]; cbn [sum_lens]; [lia | pose proof (blen_nonneg a); lia]. Qed.

Lemma sum_env_lens_nonneg l : 0 <= sum_env_lens l.
Proof.
  induction l as [|[k v] t IH]; cbn [sum_env_lens]; [lia|].
  pose proof (blen_nonneg k). pose proof (blen_nonneg v). lia.
Qed.

Lemma args_total_cases c args : forall t0,
  max_arg_bytes c <= cap_type_max -> 0 <= t0 <= cap_type_max ->
  (exists e, args_total c args t0 = Err e /\
     ((e = VArgument /\ exists a, In a args /\ (In 0 a \/ blen a > max_arg_bytes c)) \/
      (e = VArgBytes /\ t0 + sum_lens args > cap_type_max))) \/
  (args_total c args t0 = Ok (t0 + sum_lens args) /\ Forall (arg_within c) args /\
   t0 + sum_lens args <= cap_type_max).
Proof.
  induction args as [|a t IH]; intros t0 Hcap Ht0.
  - right. cbn [args_total sum_lens]. replace (t0 + 0) with t0 by lia.
    refine (conj _ (conj _ _)); [reflexivity | constructor | lia].
  - cbn [args_total sum_lens].
    destruct (named_text_cases nt_argument VArgument c a Hcap) as [[He Hv]|[Ho Hw]].
    + left. exists VArgument. rewrite He. split; [reflexivity|]. left. split; [reflexivity|].
      exists a. split; [left; reflexivity|].
      change (nt_allow_empty nt_argument) with true in Hv.
      change (nt_forbid_equals nt_argument) with false in Hv.
      change (nt_cap nt_argument c) with (max_arg_bytes c) in Hv.
      destruct Hv as [[Ha _]|[Hb|[[Ha _]|Hb]]]; try discriminate; [left | right]; assumption.
    + rewrite Ho.
      change (nt_allow_empty nt_argument) with true in Hw.
      change (nt_forbid_equals nt_argument) with false in Hw.
      change (nt_cap nt_argument c) with (max_arg_bytes c) in Hw.
      destruct Hw as [_ [Hw0 [_ Hwl]]].
      pose proof (blen_nonneg a) as Hba. pose proof (sum_lens_nonneg t) as Hst.
      destruct (Z.gtb_spec (t0 + blen a) cap_type_max) as [Hg|Hg].
      * left. exists VArgBytes. split; [reflexivity|]. right. split; [reflexivity | lia].
      * destruct (IH (t0 + blen a) Hcap ltac:(lia)) as [[e [He [[Hk [x [Hin Hx]]]|[Hk Hs]]]]|[Ho' [Hf Hs]]].
        -- left. exists e. split; [exact He|]. left. split; [exact Hk|].
           exists x. split; [right; exact Hin | exact Hx].
        -- left. exists e. split; [exact He|]. right. split; [exact Hk | lia].
        -- right. rewrite Ho'. refine (conj _ (conj _ _)).
           ++ f_equal. lia.
           ++ constructor; [split; assumption | exact Hf].
           ++ lia.
Qed.

Lemma env_total_cases c env : forall t0,
  max_env_key_bytes c <= cap_type_max -> max_env_value_bytes c <= cap_type_max ->
  0 <= t0 <= cap_type_max ->
  (exists e, env_total c env t0 = Err e /\
     ((e = VEnvKey /\ exists k v, In (k, v) env /\
                        (k = [] \/ In 0 k \/ In 61 k \/ blen k > max_env_key_bytes c)) \/
      (e = VEnvValue /\ exists k v, In (k, v) env /\ (In 0 v \/ blen v > max_env_value_bytes c)) \/
      (e = VEnvBytes /\ t0 + sum_env_lens env > cap_type_max))) \/
  (env_total c env t0 = Ok (t0 + sum_env_lens env) /\ Forall (env_pair_within c) env /\
   t0 + sum_env_lens env <= cap_type_max).
Proof.
  induction env as [|[k v] t IH]; intros t0 Hck Hcv Ht0.
  - right. cbn [env_total sum_env_lens]. replace (t0 + 0) with t0 by lia.
    refine (conj _ (conj _ _)); [reflexivity | constructor | lia].
  - cbn [env_total sum_env_lens].
    destruct (named_text_cases nt_environment_key VEnvKey c k Hck) as [[He Hv]|[Ho Hw]].
    + left. exists VEnvKey. rewrite He. split; [reflexivity|]. left. split; [reflexivity|].
      exists k, v. split; [left; reflexivity|].
      change (nt_allow_empty nt_environment_key) with false in Hv.
      change (nt_forbid_equals nt_environment_key) with true in Hv.
      change (nt_cap nt_environment_key c) with (max_env_key_bytes c) in Hv.
      destruct Hv as [[_ Hb]|[Hb|[[_ Hb]|Hb]]];
        [left | right; left | right; right; left | right; right; right]; assumption.
    + rewrite Ho.
      change (nt_allow_empty nt_environment_key) with false in Hw.
      change (nt_forbid_equals nt_environment_key) with true in Hw.
      change (nt_cap nt_environment_key c) with (max_env_key_bytes c) in Hw.
      destruct Hw as [Hk1 [Hk2 [Hk3 Hk4]]].
      destruct (named_text_cases nt_environment_value VEnvValue c v Hcv) as [[He2 Hv2]|[Ho2 Hw2]].
      * left. exists VEnvValue. rewrite He2. split; [reflexivity|]. right. left. split; [reflexivity|].
        exists k, v. split; [left; reflexivity|].
        change (nt_allow_empty nt_environment_value) with true in Hv2.
        change (nt_forbid_equals nt_environment_value) with false in Hv2.
        change (nt_cap nt_environment_value c) with (max_env_value_bytes c) in Hv2.
        destruct Hv2 as [[Ha _]|[Hb|[[Ha _]|Hb]]]; try discriminate; [left | right]; assumption.
      * rewrite Ho2.
        change (nt_allow_empty nt_environment_value) with true in Hw2.
        change (nt_forbid_equals nt_environment_value) with false in Hw2.
        change (nt_cap nt_environment_value c) with (max_env_value_bytes c) in Hw2.
        destruct Hw2 as [_ [Hv2 [_ Hv4]]].
        pose proof (blen_nonneg k) as Hbk. pose proof (blen_nonneg v) as Hbv.
        pose proof (sum_env_lens_nonneg t) as Hst.
        destruct (Z.gtb_spec (t0 + blen k) cap_type_max) as [Hg|Hg].
        { left. exists VEnvBytes. split; [reflexivity|]. right. right. split; [reflexivity | lia]. }
        destruct (Z.gtb_spec (t0 + blen k + blen v) cap_type_max) as [Hg'|Hg'].
        { left. exists VEnvBytes. split; [reflexivity|]. right. right. split; [reflexivity | lia]. }
        destruct (IH (t0 + blen k + blen v) Hck Hcv ltac:(lia))
          as [[e [He' [[Hk [x [y [Hin Hx]]]]|[[Hk [x [y [Hin Hx]]]]|[Hk Hs]]]]]|[Ho' [Hf Hs]]].
        -- left. exists e. split; [exact He'|]. left. split; [exact Hk|].
           exists x, y. split; [right; exact Hin | exact Hx].
        -- left. exists e. split; [exact He'|]. right. left. split; [exact Hk|].
           exists x, y. split; [right; exact Hin | exact Hx].
        -- left. exists e. split; [exact He'|]. right. right. split; [exact Hk | lia].
        -- right. rewrite Ho'. refine (conj _ (conj _ _)).
           ++ f_equal. lia.
           ++ constructor; [|exact Hf]. unfold env_pair_within. cbn [fst snd].
              refine (conj _ (conj _ (conj _ (conj _ (conj _ _))))); try assumption.
              ** apply Hk1. reflexivity.
              ** apply Hk3. reflexivity.
           ++ lia.
Qed.

(* ------------------------------------------------------------------ validate *)

Ltac caps_facts H :=
  unfold caps_wf, caps_fields in H;
  repeat match type of H with
         | Forall _ (_ :: _) =>
             let h := fresh "Hc" in
             let H' := fresh "Hrest" in
             pose proof (Forall_inv H) as h; cbv beta in h;
             pose proof (Forall_inv_tail H) as H'; clear H; rename H' into H
         end.

Lemma effective_timeout_range c b :
  caps_wf c -> command_wf b -> 0 <= effective_timeout c b <= cap_type_max.
Proof.
  intros Hwf Hb. caps_facts Hwf. unfold effective_timeout.
  destruct (c_timeout b) as [t|] eqn:Et.
  - apply Hb. exact Et.
  - lia.
Qed.

Lemma validate_cases c b :
  caps_wf c -> command_wf b ->
  (exists e, validate c b = Err e /\ reject_reason c b e) \/
  (validate c b = Ok (spec_of c b) /\ within_caps c b).
Proof.
  intros Hwf Hb. pose proof (effective_timeout_range c b Hwf Hb) as Hto.
  caps_facts Hwf.
  assert (Hn1 : nt_cap nt_program c <= cap_type_max)
    by (change (nt_cap nt_program c) with (max_program_bytes c); lia).
  assert (Hn2 : count_argument_count_cap c <= cap_type_max)
    by (change (count_argument_count_cap c) with (max_args c); lia).
  assert (Hn3 : count_environment_pair_count_cap c <= cap_type_max)
    by (change (count_environment_pair_count_cap c) with (max_env_pairs c); lia).
  assert (Hn4 : max_arg_bytes c <= cap_type_max) by lia.
  assert (Hn5 : nt_cap nt_cwd c <= cap_type_max)
    by (change (nt_cap nt_cwd c) with (max_cwd_bytes c); lia).
  assert (Hn6 : max_env_key_bytes c <= cap_type_max) by lia.
  assert (Hn7 : max_env_value_bytes c <= cap_type_max) by lia.
  assert (Hn8 : nt_cap nt_stdin_text c <= cap_type_max)
    by (change (nt_cap nt_stdin_text c) with (max_stdin_bytes c); lia).
  unfold validate, spec_of, within_caps.
  (* program *)
  destruct (named_text_cases nt_program VProgram c (c_program b) Hn1) as [[He Hv]|[Ho Hp]].
  { left. exists VProgram. rewrite He. split; [reflexivity|]. cbn [reject_reason].
    change (nt_allow_empty nt_program) with false in Hv.
    change (nt_forbid_equals nt_program) with false in Hv.
    change (nt_cap nt_program c) with (max_program_bytes c) in Hv.
    destruct Hv as [[_ Hx]|[Hx|[[Ha _]|Hx]]]; try discriminate;
      [left | right; left | right; right]; assumption. }
  rewrite Ho.
  change (nt_allow_empty nt_program) with false in Hp.
  change (nt_forbid_equals nt_program) with false in Hp.
  change (nt_cap nt_program c) with (max_program_bytes c) in Hp.
  destruct Hp as [Hp1 [Hp2 [_ Hp4]]]. specialize (Hp1 eq_refl).
  (* argument count *)
  destruct (count_check_cases VArgCount (zcount (c_args b)) (count_argument_count_cap c) Hn2)
    as [[He Hv]|[Ho2 Hac]].
  { left. exists VArgCount. rewrite He. split; [reflexivity|]. cbn [reject_reason].
    rewrite zcount_eq in Hv. exact Hv. }
  rewrite Ho2. rewrite zcount_eq in Hac. change (count_argument_count_cap c) with (max_args c) in Hac.
  (* environment pair count *)
  destruct (count_check_cases VEnvCount (zcount (c_env b)) (count_environment_pair_count_cap c) Hn3)
    as [[He Hv]|[Ho3 Hec]].
  { left. exists VEnvCount. rewrite He. split; [reflexivity|]. cbn [reject_reason].
    rewrite zcount_eq in Hv. exact Hv. }
  rewrite Ho3. rewrite zcount_eq in Hec.
  change (count_environment_pair_count_cap c) with (max_env_pairs c) in Hec.
  (* arguments *)
  destruct (args_total_cases c (c_args b) 0 Hn4 ltac:(unfold cap_type_max; lia))
    as [[e [He [[Hk Hx]|[Hk Hs]]]]|[Ho4 [Hargs Hasum]]].
  { left. exists e. rewrite He. split; [reflexivity|]. subst e. cbn [reject_reason]. exact Hx. }
  { left. exists e. rewrite He. split; [reflexivity|]. subst e. cbn [reject_reason]. lia. }
  rewrite Ho4. cbn [Z.add] in *.
  destruct (Z.gtb_spec (sum_lens (c_args b)) (max_total_arg_bytes c)) as [Hg|Hatot].
  { left. exists VArgBytes. split; [reflexivity|]. cbn [reject_reason]. lia. }
  (* cwd *)
  assert (Hcwd :
    (exists d, c_cwd b = Some d /\ named_text nt_cwd VCwd c d = Err VCwd /\
               (d = [] \/ In 0 d \/ blen d > max_cwd_bytes c)) \/
    ((match c_cwd b with
      | Some d => match named_text nt_cwd VCwd c d with Err e => Err e | Ok _ => Ok tt end
      | None => Ok tt
      end = Ok tt) /\
     (forall d, c_cwd b = Some d -> d <> [] /\ ~ In 0 d /\ blen d <= max_cwd_bytes c))).
  { destruct (c_cwd b) as [d|].
    - destruct (named_text_cases nt_cwd VCwd c d Hn5) as [[He Hv]|[Ho5 Hw]].
      + left. exists d. refine (conj eq_refl (conj He _)).
        change (nt_allow_empty nt_cwd) with false in Hv.
        change (nt_forbid_equals nt_cwd) with false in Hv.
        change (nt_cap nt_cwd c) with (max_cwd_bytes c) in Hv.
        destruct Hv as [[_ Hx]|[Hx|[[Ha _]|Hx]]]; try discriminate;
          [left | right; left | right; right]; assumption.
      + right. rewrite Ho5. split; [reflexivity|]. intros d' Hd. injection Hd as <-.
        change (nt_allow_empty nt_cwd) with false in Hw.
        change (nt_forbid_equals nt_cwd) with false in Hw.
        change (nt_cap nt_cwd c) with (max_cwd_bytes c) in Hw.
        destruct Hw as [Hw1 [Hw2 [_ Hw4]]]. refine (conj (Hw1 eq_refl) (conj Hw2 Hw4)).
    - right. split; [reflexivity|]. intros d Hd. discriminate. }
  destruct Hcwd as [[d [Hd [He Hx]]]|[Ho5 Hcwd]].
  { left. exists VCwd. rewrite Hd, He. split; [reflexivity|]. cbn [reject_reason].
    exists d. split; [exact Hd | exact Hx]. }
  rewrite Ho5.
  (* environment *)
  destruct (env_total_cases c (c_env b) 0 Hn6 Hn7 ltac:(unfold cap_type_max; lia))
    as [[e [He [[Hk Hx]|[[Hk Hx]|[Hk Hs]]]]]|[Ho6 [Henv Hesum]]].
  { left. exists e. rewrite He. split; [reflexivity|]. subst e. cbn [reject_reason]. exact Hx. }
  { left. exists e. rewrite He. split; [reflexivity|]. subst e. cbn [reject_reason]. exact Hx. }
  { left. exists e. rewrite He. split; [reflexivity|]. subst e. cbn [reject_reason]. lia. }
  rewrite Ho6. cbn [Z.add] in *.
  destruct (Z.gtb_spec (sum_env_lens (c_env b)) (max_total_env_bytes c)) as [Hg|Hetot].
  { left. exists VEnvBytes. split; [reflexivity|]. cbn [reject_reason]. lia. }
  (* stdin *)
  assert (Hstdin :
    (exists t, c_stdin b = StdinText t /\ named_text nt_stdin_text VStdin c t = Err VStdin /\
               (In 0 t \/ blen t > max_stdin_bytes c)) \/
    ((match c_stdin b with
      | StdinText t => match named_text nt_stdin_text VStdin c t with Err e => Err e | Ok _ => Ok tt end
      | _ => Ok tt
      end = Ok tt) /\
     (forall t, c_stdin b = StdinText t -> ~ In 0 t /\ blen t <= max_stdin_bytes c))).
  { destruct (c_stdin b) as [| |t].
    - right. split; [reflexivity|]. intros t Ht. discriminate.
    - right. split; [reflexivity|]. intros t Ht. discriminate.
    - destruct (named_text_cases nt_stdin_text VStdin c t Hn8) as [[He Hv]|[Ho7 Hw]].
      + left. exists t. refine (conj eq_refl (conj He _)).
        change (nt_allow_empty nt_stdin_text) with true in Hv.
        change (nt_forbid_equals nt_stdin_text) with false in Hv.
        change (nt_cap nt_stdin_text c) with (max_stdin_bytes c) in Hv.
        destruct Hv as [[Ha _]|[Hx|[[Ha _]|Hx]]]; try discriminate; [left | right]; assumption.
      + right. rewrite Ho7. split; [reflexivity|]. intros t' Ht. injection Ht as <-.
        change (nt_allow_empty nt_stdin_text) with true in Hw.
        change (nt_forbid_equals nt_stdin_text) with false in Hw.
        change (nt_cap nt_stdin_text c) with (max_stdin_bytes c) in Hw.
        destruct Hw as [_ [Hw2 [_ Hw4]]]. exact (conj Hw2 Hw4). }
  destruct Hstdin as [[t [Ht [He Hx]]]|[Ho7 Hstdin]].
  { left. exists VStdin. rewrite Ht, He. split; [reflexivity|]. cbn [reject_reason].
    exists t. split; [exact Ht | exact Hx]. }
  (* the stdin match in validate is written with explicit constructors *)
  assert (Ho7' :
    match c_stdin b with
    | StdinText t => match named_text nt_stdin_text VStdin c t with Err e => Err e | Ok _ => Ok tt end
    | StdinInherit | StdinNull => Ok tt
    end = Ok tt) by (destruct (c_stdin b); exact Ho7).
  rewrite Ho7'. cbv zeta.
  (* timeout *)
  destruct (Z.eqb_spec (effective_timeout c b) 0) as [Hz|Hnz].
  { left. exists VTimeoutZero. split; [reflexivity|]. cbn [reject_reason]. exact Hz. }
  destruct (Z.gtb_spec (effective_timeout c b) (max_timeout_ms c)) as [Hg|Hle].
  { left. exists VTimeoutMax. split; [reflexivity|]. cbn [reject_reason]. lia. }
  right. split; [reflexivity|].
  refine (conj (conj Hp1 (conj Hp2 Hp4)) (conj Hac (conj Hec (conj Hargs (conj Hatot
          (conj Hcwd (conj Henv (conj Hetot (conj Hstdin _))))))))).
  lia.
Qed.

Lemma reject_reason_not_within c b e : reject_reason c b e -> ~ within_caps c b.
Proof.
  intros Hr [[Hp1 [Hp2 Hp3]] [Hac [Hec [Hargs [Hatot [Hcwd [Henv [Hetot [Hstdin Hto]]]]]]]]].
  destruct e; cbn [reject_reason] in Hr.
  - destruct Hr as [Hr|[Hr|Hr]]; [exact (Hp1 Hr) | exact (Hp2 Hr) | lia].
  - lia.
  - lia.
  - destruct Hr as [a [Hin Ha]]. rewrite Forall_forall in Hargs.
    destruct (Hargs a Hin) as [H0 Hl]. destruct Ha as [Ha|Ha]; [exact (H0 Ha) | lia].
  - lia.
  - destruct Hr as [d [Hd Hx]]. destruct (Hcwd d Hd) as [H1 [H2 H3]].
    destruct Hx as [Hx|[Hx|Hx]]; [exact (H1 Hx) | exact (H2 Hx) | lia].
  - destruct Hr as [k [v [Hin Hx]]]. rewrite Forall_forall in Henv.
    pose proof (Henv (k, v) Hin) as Hkv. unfold env_pair_within in Hkv. cbn [fst snd] in Hkv.
    destruct Hkv as [H1 [H2 [H3 [H4 [H5 H6]]]]].
    destruct Hx as [Hx|[Hx|[Hx|Hx]]]; [exact (H1 Hx) | exact (H2 Hx) | exact (H3 Hx) | lia].
  - destruct Hr as [k [v [Hin Hx]]]. rewrite Forall_forall in Henv.
    pose proof (Henv (k, v) Hin) as Hkv. unfold env_pair_within in Hkv. cbn [fst snd] in Hkv.
    destruct Hkv as [H1 [H2 [H3 [H4 [H5 H6]]]]].
    destruct Hx as [Hx|Hx]; [exact (H5 Hx) | lia].
  - lia.
  - destruct Hr as [t [Ht Hx]]. destruct (Hstdin t Ht) as [H1 H2].
    destruct Hx as [Hx|Hx]; [exact (H1 Hx) | lia].
  - lia.
  - lia.
Qed.

Lemma validate_iff_within_caps_lemma c b :
  caps_wf c -> command_wf b -> ((exists s, validate c b = Ok s) <-> within_caps c b).
Proof.
  intros Hwf Hb. destruct (validate_cases c b Hwf Hb) as [[e [He Hr]]|[Ho Hw]].
  - split.
    + intros [s Hs]. rewrite He in Hs. discriminate.
    + intros Hw. exfalso. exact (reject_reason_not_within c b e Hr Hw).
  - split; [intros _; exact Hw | intros _; exists (spec_of c b); exact Ho].
Qed.

Lemma validate_err_reason c b e :
  caps_wf c -> command_wf b -> validate c b = Err e -> reject_reason c b e /\ ~ within_caps c b.
Proof.
  intros Hwf Hb H. destruct (validate_cases c b Hwf Hb) as [[e' [He Hr]]|[Ho Hw]].
  - rewrite He in H. injection H as <-. split; [exact Hr | exact (reject_reason_not_within c b e' Hr)].
  - rewrite Ho in H. discriminate.
Qed.

(* holds for every command and every caps record, well-formed or not *)
Lemma validate_ok_spec c b s : validate c b = Ok s -> s = spec_of c b.
Proof.
  unfold validate, spec_of. cbv zeta. intros H.
  repeat match type of H with
         | match ?x with _ => _ end = _ => destruct x eqn:?; try discriminate
         | (if ?x then _ else _) = _ => destruct x eqn:?; try discriminate
         end.
  injection H as <-. reflexivity.
Qed.

Lemma spec_fields c b s :
  validate c b = Ok s ->
  s_program s = c_program b /\ s_args s = c_args b /\ length (s_args s) = length (c_args b) /\
  s_cwd s = c_cwd b /\ s_env s = c_env b /\ s_stdin s = c_stdin b /\
  s_stdout s = c_stdout b /\ s_stderr s = c_stderr b /\
  s_timeout s = match c_timeout b with Some t => t | None => default_timeout_ms c end.
Proof.
  intros H. apply validate_ok_spec in H. subst s. unfold spec_of, effective_timeout. cbn.
  refine (conj eq_refl (conj eq_refl (conj eq_refl (conj eq_refl (conj eq_refl
         (conj eq_refl (conj eq_refl (conj eq_refl eq_refl)))))))).
Qed.

(* ------------------------------------------------------------------ environment vector *)

Lemma lookup_none k l : env_lookup k l = None <-> ~ In k (map fst l).
Proof.
  induction l as [|[k0 v0] t IH]; cbn [env_lookup map fst In].
  - split; [intros _ H; exact H | reflexivity].
  - destruct (str_eqb k0 k) eqn:E.
    + apply str_eqb_eq in E. subst k0. split; [discriminate|]. intros H. exfalso. apply H. left. reflexivity.
    + apply str_eqb_neq in E. rewrite IH. split.
      * intros H [H1|H1]; [exact (E H1) | exact (H H1)].
      * intros H H1. apply H. right. exact H1.
Qed.

Lemma lookup_in k v l : NoDup (map fst l) -> (env_lookup k l = Some v <-> In (k, v) l).
Proof.
  induction l as [|[k0 v0] t IH]; cbn [env_lookup map fst In]; intros Hnd.
  - split; [discriminate | intros []].
  - apply NoDup_cons_iff in Hnd. destruct Hnd as [Hnin Hnd].
    destruct (str_eqb k0 k) eqn:E.
    + apply str_eqb_eq in E. subst k0. split.
      * intros H. injection H as <-. left. reflexivity.
      * intros [H|H].
        -- injection H as <-. reflexivity.
        -- exfalso. apply Hnin. change k with (fst (k, v)). apply in_map. exact H.
    + apply str_eqb_neq in E. rewrite (IH Hnd). split.
      * intros H. right. exact H.
      * intros [H|H]; [injection H as H1 H2; exfalso; exact (E H1) | exact H].
Qed.

Lemma nodup_keys_rev (l : list (str * str)) : NoDup (map fst l) -> NoDup (map fst (rev l)).
Proof. intros H. rewrite map_rev. apply NoDup_rev. exact H. Qed.

Lemma lookup_rev k l : NoDup (map fst l) -> env_lookup k (rev l) = env_lookup k l.
Proof.
  intros Hnd. destruct (env_lookup k l) as [v|] eqn:E.
  - apply (lookup_in k v l Hnd) in E. apply (lookup_in k v (rev l) (nodup_keys_rev l Hnd)).
    apply in_rev. rewrite rev_involutive. exact E.
  - apply lookup_none in E. apply lookup_none. rewrite map_rev. intros H. apply E.
    apply in_rev. exact H.
Qed.

Lemma lookup_app k a b :
  env_lookup k (a ++ b) = match env_lookup k a with Some x => Some x | None => env_lookup k b end.
Proof.
  induction a as [|[k0 v0] t IH]; cbn [env_lookup app]; [reflexivity|].
  destruct (str_eqb k0 k); [reflexivity | exact IH].
Qed.

Lemma replace_first_none k v l : replace_first k v l = None <-> ~ In k (map fst l).
Proof.
  induction l as [|[k0 v0] t IH]; cbn [replace_first map fst In].
  - split; [intros _ H; exact H | reflexivity].
  - destruct (str_eqb k0 k) eqn:E.
    + apply str_eqb_eq in E. subst k0. split; [discriminate|]. intros H. exfalso. apply H. left. reflexivity.
    + apply str_eqb_neq in E. destruct (replace_first k v t) as [t'|].
      * split; [discriminate|]. intros H. exfalso.
        assert (Hn : ~ In k (map fst t)) by (intros H1; apply H; right; exact H1).
        apply IH in Hn. discriminate.
      * split; [|reflexivity]. intros _ [H1|H1]; [exact (E H1)|].
        assert (Hn : ~ In k (map fst t)) by (apply IH; reflexivity). exact (Hn H1).
Qed.

Lemma replace_first_some k v l l' :
  replace_first k v l = Some l' ->
  map fst l' = map fst l /\ In k (map fst l) /\
  forall k', env_lookup k' l' = if str_eqb k k' then Some v else env_lookup k' l.
Proof.
  revert l'. induction l as [|[k0 v0] t IH]; cbn [replace_first]; intros l' H; [discriminate|].
  destruct (str_eqb k0 k) eqn:E.
  - injection H as <-. apply str_eqb_eq in E. subst k0. cbn [map fst In env_lookup].
    refine (conj eq_refl (conj (or_introl eq_refl) _)). intros k'.
    destruct (str_eqb k k'); reflexivity.
  - destruct (replace_first k v t) as [t'|] eqn:Et; [|discriminate]. injection H as <-.
    destruct (IH t' eq_refl) as [Hk [Hin Hl]]. cbn [map fst In env_lookup].
    refine (conj _ (conj (or_intror Hin) _)).
    + rewrite Hk. reflexivity.
    + intros k'. rewrite Hl. destruct (str_eqb k0 k') eqn:E0; [|reflexivity].
      destruct (str_eqb k k') eqn:E1; [|reflexivity].
      apply str_eqb_eq in E0. apply str_eqb_eq in E1. subst. rewrite str_eqb_refl in E. discriminate.
Qed.

Lemma existsb_key_true k l : existsb (fun k' => str_eqb k' k) l = true <-> In k l.
Proof.
  rewrite existsb_exists. split.
  - intros [x [Hin He]]. apply str_eqb_eq in He. subst. exact Hin.
  - intros H. exists k. split; [exact H | apply str_eqb_refl].
Qed.

Lemma env_set_keys e k v :
  map fst (env_set e k v) =
  if existsb (fun k' => str_eqb k' k) (map fst e) then map fst e else map fst e ++ [k].
Proof.
  unfold env_set. destruct (replace_first k v (rev e)) as [l|] eqn:E.
  - apply replace_first_some in E. destruct E as [Hk [Hin _]].
    rewrite map_rev, Hk, map_rev, rev_involutive.
    rewrite map_rev in Hin. apply in_rev in Hin.
    apply existsb_key_true in Hin. rewrite Hin. reflexivity.
  - apply replace_first_none in E. rewrite map_rev in E.
    destruct (existsb (fun k' => str_eqb k' k) (map fst e)) eqn:Ex.
    + apply existsb_key_true in Ex. exfalso. apply E. apply in_rev. rewrite rev_involutive. exact Ex.
    + rewrite map_app. reflexivity.
Qed.

Lemma nodup_snoc (l : list str) k : NoDup l -> ~ In k l -> NoDup (l ++ [k]).
Proof.
  induction l as [|x t IH]; cbn [app]; intros Hnd Hnin.
  - constructor; [intros [] | constructor].
  - apply NoDup_cons_iff in Hnd. destruct Hnd as [Hx Hnd]. constructor.
    + intros H. apply in_app_or in H. destruct H as [H|[H|[]]]; [exact (Hx H)|].
      apply Hnin. left. symmetry. exact H.
    + apply IH; [exact Hnd|]. intros H. apply Hnin. right. exact H.
Qed.

Lemma env_set_nodup e k v : NoDup (map fst e) -> NoDup (map fst (env_set e k v)).
Proof.
  intros Hnd. rewrite env_set_keys.
  destruct (existsb (fun k' => str_eqb k' k) (map fst e)) eqn:Ex; [exact Hnd|].
  apply nodup_snoc; [exact Hnd|]. intros H. apply existsb_key_true in H. congruence.
Qed.

Lemma env_set_lookup e k v k' :
  NoDup (map fst e) ->
  env_lookup k' (env_set e k v) = if str_eqb k k' then Some v else env_lookup k' e.
Proof.
  intros Hnd. unfold env_set. destruct (replace_first k v (rev e)) as [l|] eqn:E.
  - apply replace_first_some in E. destruct E as [Hk [_ Hl]].
    assert (Hndl : NoDup (map fst l)) by (rewrite Hk; apply nodup_keys_rev; exact Hnd).
    rewrite (lookup_rev k' l Hndl), Hl, (lookup_rev k' e Hnd). reflexivity.
  - apply replace_first_none in E. rewrite lookup_app. cbn [env_lookup].
    destruct (str_eqb k k') eqn:Ek.
    + apply str_eqb_eq in Ek. subst k'.
      assert (Hn : env_lookup k e = None).
      { apply lookup_none. intros H. apply E. rewrite map_rev. apply in_rev. rewrite rev_involutive. exact H. }
      rewrite Hn. reflexivity.
    + destruct (env_lookup k' e); reflexivity.
Qed.

(* the pair that was already present keeps its position; values of other keys are untouched;
   a new key goes to the end *)
Lemma env_last_wins_lemma ws : forall e0,
  NoDup (map fst e0) ->
  NoDup (map fst (env_fold e0 ws)) /\
  (forall k, env_lookup k (env_fold e0 ws) = last_write k ws (env_lookup k e0)) /\
  map fst (env_fold e0 ws) = first_keys (map fst e0) ws.
Proof.
  induction ws as [|[k v] t IH]; intros e0 Hnd.
  - cbn [env_fold fold_left last_write first_keys].
    refine (conj Hnd (conj (fun k => eq_refl) eq_refl)).
  - unfold env_fold. cbn [fold_left fst snd].
    change (fold_left (fun e kv => env_set e (fst kv) (snd kv)) t (env_set e0 k v))
      with (env_fold (env_set e0 k v) t).
    destruct (IH (env_set e0 k v) (env_set_nodup e0 k v Hnd)) as [H1 [H2 H3]].
    refine (conj H1 (conj _ _)).
    + intros k'. rewrite H2. cbn [last_write]. rewrite (env_set_lookup e0 k v k' Hnd). reflexivity.
    + rewrite H3. cbn [first_keys]. rewrite env_set_keys.
      destruct (existsb (fun k' => str_eqb k' k) (map fst e0)); reflexivity.
Qed.

Lemma env_fold_from_empty ws :
  NoDup (map fst (env_fold [] ws)) /\
  (forall k, env_lookup k (env_fold [] ws) = last_write k ws None) /\
  map fst (env_fold [] ws) = first_keys [] ws.
Proof. apply (env_last_wins_lemma ws []). constructor. Qed.

(* ------------------------------------------------------------------ builder calls, gate *)

Lemma view_nil b : view b [] = b.
Proof.
  destruct b as [p a cw e si so se tm]. unfold view. cbn [arg_texts env_writes flat_map last_some env_fold fold_left
    c_program c_args c_cwd c_env c_stdin c_stdout c_stderr c_timeout].
  rewrite app_nil_r. reflexivity.
Qed.

Lemma env_fold_app e a b : env_fold e (a ++ b) = env_fold (env_fold e a) b.
Proof. unfold env_fold. apply fold_left_app. Qed.

Lemma view_cons b cl cs : view (view b [cl]) cs = view b (cl :: cs).
Proof.
  unfold view. cbn [c_program c_args c_cwd c_env c_stdin c_stdout c_stderr c_timeout].
  f_equal.
  - unfold arg_texts. cbn [flat_map]. rewrite app_nil_r, app_assoc. reflexivity.
  - unfold env_writes. cbn [flat_map]. rewrite app_nil_r, env_fold_app. reflexivity.
Qed.

Lemma saturate_range n : 0 < n -> 0 < saturate_u32 n <= cap_type_max.
Proof.
  intros Hn. unfold saturate_u32. destruct (Z.gtb_spec n cap_type_max); unfold cap_type_max in *; lia.
Qed.

Lemma last_some_timeout_wf cs : forall d,
  (forall t, d = Some t -> 0 <= t <= cap_type_max) ->
  forall t, last_some timeout_of_call cs d = Some t -> 0 <= t <= cap_type_max.
Proof.
  induction cs as [|cl cs IH]; intros d Hd t H; cbn [last_some] in H.
  - exact (Hd t H).
  - refine (IH _ _ t H).
    intros t' Ht'. destruct (timeout_of_call cl) as [y|] eqn:Ey; [|exact (Hd t' Ht')].
    subst y. destruct cl; cbn [timeout_of_call] in Ey; try discriminate.
    destruct v as [[n| |]|]; try discriminate.
    destruct (Z.leb_spec n 0) as [Hle|Hgt]; [discriminate|].
    injection Ey as <-. pose proof (saturate_range n Hgt). lia.
Qed.

Lemma view_wf b cs : command_wf b -> command_wf (view b cs).
Proof.
  unfold command_wf, view. cbn [c_timeout]. intros Hb t Ht.
  exact (last_some_timeout_wf cs (c_timeout b) Hb t Ht).
Qed.

Section BackendProofs.
  Variable backend_ok : Type.
  Variable backend_err : Type.
  Variable spawn : spec -> caps -> backend_ok + backend_err.

  Lemma apply_call_inr b cl b' :
    apply_call backend_err b cl = inr b' -> call_ok cl /\ b' = view b [cl].
  Proof.
    destruct b as [p a cw e si so se tm].
    destruct cl as [t|[d|]|[k|] v|t| | | | | | | | |[[n| |]|]]; cbn [apply_call timeout_of_arg];
      intros H; try discriminate;
      try (injection H as <-; split; [exact I|];
           unfold view, push_arg, set_cwd, set_env, set_stdin, set_stdout, set_stderr;
           cbn [arg_texts env_writes flat_map last_some env_fold fold_left fst snd app
                cwd_of_call stdin_of_call stdout_of_call stderr_of_call timeout_of_call
                c_program c_args c_cwd c_env c_stdin c_stdout c_stderr c_timeout];
           rewrite ?app_nil_r; reflexivity).
    destruct (Z.leb_spec n 0) as [Hle|Hgt]; [discriminate|].
    injection H as <-. split; [exact Hgt|].
    unfold view, set_timeout.
    cbn [arg_texts env_writes flat_map last_some env_fold fold_left timeout_of_call
         c_program c_args c_cwd c_env c_stdin c_stdout c_stderr c_timeout].
    destruct (Z.leb_spec n 0) as [Hle'|_]; [lia|]. rewrite app_nil_r. reflexivity.
  Qed.

  Lemma apply_call_inl b cl e : apply_call backend_err b cl = inl e -> ~ call_ok cl.
  Proof.
    destruct cl as [t|[d|]|[k|] v|t| | | | | | | | |[[n| |]|]]; cbn [apply_call timeout_of_arg call_ok];
      intros H; try discriminate; try (intros Hf; exact Hf).
    destruct (Z.leb_spec n 0) as [Hle|Hgt]; [lia | discriminate].
  Qed.

  Lemma run_once_cases pol b :
    caps_wf (process_caps pol) -> command_wf b ->
    (allow_process pol = false /\ run_once backend_ok backend_err spawn pol b = (None, inl RtDenied)) \/
    (allow_process pol = true /\ exists e,
       validate (process_caps pol) b = Err e /\ reject_reason (process_caps pol) b e /\
       run_once backend_ok backend_err spawn pol b = (None, inl (RtSpecInvalid e))) \/
    (allow_process pol = true /\
       validate (process_caps pol) b = Ok (spec_of (process_caps pol) b) /\
       within_caps (process_caps pol) b /\
       run_once backend_ok backend_err spawn pol b =
         (Some (spec_of (process_caps pol) b),
          match spawn (spec_of (process_caps pol) b) (process_caps pol) with
          | inl r => inr r
          | inr e => inl (RtBackend e)
          end)).
  Proof.
    intros Hwf Hb. unfold run_once. destruct (allow_process pol) eqn:Ea; cbn [negb].
    - right. destruct (validate_cases (process_caps pol) b Hwf Hb) as [[e [He Hr]]|[Ho Hw]].
      + left. split; [reflexivity|]. exists e. rewrite He. refine (conj eq_refl (conj Hr eq_refl)).
      + right. rewrite Ho. refine (conj eq_refl (conj eq_refl (conj Hw eq_refl))).
    - left. split; reflexivity.
  Qed.

  (* the backend is applied to [s] iff the gate is open and validate produced [s] *)
  Lemma run_once_invoked pol b s :
    fst (run_once backend_ok backend_err spawn pol b) = Some s <->
    allow_process pol = true /\ validate (process_caps pol) b = Ok s.
  Proof.
    unfold run_once. destruct (allow_process pol); cbn [negb fst].
    - destruct (validate (process_caps pol) b) as [s'|e]; cbn [fst]; split.
      + intros H. injection H as <-. split; reflexivity.
      + intros [_ H]. injection H as <-. reflexivity.
      + discriminate.
      + intros [_ H]. discriminate.
    - split; [discriminate | intros [H _]; discriminate].
  Qed.

  Lemma run_once_denied pol b :
    allow_process pol = false -> run_once backend_ok backend_err spawn pol b = (None, inl RtDenied).
  Proof. intros H. unfold run_once. rewrite H. reflexivity. Qed.

  Lemma run_once_invalid pol b e :
    validate (process_caps pol) b = Err e ->
    fst (run_once backend_ok backend_err spawn pol b) = None /\
    (allow_process pol = true ->
     run_once backend_ok backend_err spawn pol b = (None, inl (RtSpecInvalid e))).
  Proof.
    intros H. unfold run_once. rewrite H. destruct (allow_process pol); cbn [negb fst].
    - split; [reflexivity | intros _; reflexivity].
    - split; [reflexivity | discriminate].
  Qed.
End BackendProofs.

(* whenever the log says "not invoked", the outcome does not depend on the backend at all *)
Lemma run_once_backend_irrelevant (ok err : Type) (spawn1 spawn2 : spec -> caps -> ok + err) pol b :
  fst (run_once ok err spawn1 pol b) = None ->
  run_once ok err spawn1 pol b = run_once ok err spawn2 pol b.
Proof.
  unfold run_once. destruct (allow_process pol); cbn [negb]; [|reflexivity].
  destruct (validate (process_caps pol) b); cbn [fst]; [discriminate | reflexivity].
Qed.

(* ------------------------------------------------------------------ whole script fragments *)

Section ScriptProofs.
  Variable backend_ok : Type.
  Variable backend_err : Type.
  Variable spawn : spec -> caps -> backend_ok + backend_err.

  Lemma exec_log pol :
    caps_wf (process_caps pol) ->
    forall steps b log log' err bf,
    command_wf b ->
    exec backend_ok backend_err spawn pol b steps log = (log', err, bf) ->
    exists added,
      log' = log ++ added /\
      (err = None -> length added = count_runs steps) /\
      forall i s, nth_error added i = Some s -> spawn_justified pol b steps i s.
  Proof.
    intros Hwf. induction steps as [|st rest IH]; intros b log log' err bf Hb H; cbn [exec] in H.
    - injection H as <- <- <-. exists []. rewrite app_nil_r.
      refine (conj eq_refl (conj (fun _ => eq_refl) _)). intros i s Hn. destruct i; discriminate.
    - destruct st as [cl|].
      + destruct (apply_call backend_err b cl) as [e|b'] eqn:Ec.
        * injection H as <- <- <-. exists []. rewrite app_nil_r.
          refine (conj eq_refl (conj _ _)); [discriminate|]. intros i s Hn. destruct i; discriminate.
        * apply apply_call_inr in Ec. destruct Ec as [Hok ->].
          destruct (IH (view b [cl]) log log' err bf (view_wf b [cl] Hb) H) as [added [Hl [Hlen Hj]]].
          exists added. refine (conj Hl (conj Hlen _)). intros i s Hn.
          destruct (Hj i s Hn) as [pre [post [Hs [Hc [Hf [Ha [Hw [Hv He]]]]]]]].
          exists (SCall cl :: pre), post. subst rest.
          cbn [app count_runs calls_of flat_map]. rewrite view_cons in Hw, Hv, He.
          refine (conj eq_refl (conj Hc (conj _ (conj Ha (conj Hw (conj Hv He)))))).
          constructor; [exact Hok | exact Hf].
      + destruct (run_once_cases backend_ok backend_err spawn pol b Hwf Hb)
          as [[Ha Hr]|[[Ha [e [Hv [Hrr Hr]]]]|[Ha [Hv [Hw Hr]]]]]; rewrite Hr in H; cbv iota in H.
        * injection H as <- <- <-. exists []. rewrite app_nil_r.
          refine (conj eq_refl (conj _ _)); [discriminate|]. intros i s Hn. destruct i; discriminate.
        * injection H as <- <- <-. exists []. rewrite app_nil_r.
          refine (conj eq_refl (conj _ _)); [discriminate|]. intros i s Hn. destruct i; discriminate.
        * destruct (spawn (spec_of (process_caps pol) b) (process_caps pol)) as [r|e].
          -- destruct (IH b (log ++ [spec_of (process_caps pol) b]) log' err bf Hb H)
               as [added [Hl [Hlen Hj]]].
             exists (spec_of (process_caps pol) b :: added).
             refine (conj _ (conj _ _)).
             ++ rewrite Hl, <- app_assoc. reflexivity.
             ++ intros He. cbn [length count_runs]. rewrite (Hlen He). reflexivity.
             ++ intros i s Hn. destruct i as [|i]; cbn [nth_error] in Hn.
                ** injection Hn as <-. exists [], rest. cbn [app count_runs calls_of flat_map].
                   rewrite view_nil.
                   refine (conj eq_refl (conj eq_refl (conj (Forall_nil _)
                          (conj Ha (conj Hw (conj Hv eq_refl)))))).
                ** destruct (Hj i s Hn) as [pre [post [Hs [Hc [Hf [Ha' [Hw' [Hv' He']]]]]]]].
                   exists (SRun :: pre), post. subst rest. cbn [app count_runs calls_of flat_map].
                   refine (conj eq_refl (conj _ (conj Hf (conj Ha' (conj Hw' (conj Hv' He')))))).
                   rewrite Hc. reflexivity.
          -- injection H as <- <- <-. exists [spec_of (process_caps pol) b].
             refine (conj eq_refl (conj _ _)); [discriminate|].
             intros i s Hn. destruct i as [|i]; cbn [nth_error] in Hn.
             ++ injection Hn as <-. exists [], rest. cbn [app count_runs calls_of flat_map].
                rewrite view_nil.
                refine (conj eq_refl (conj eq_refl (conj (Forall_nil _)
                       (conj Ha (conj Hw (conj Hv eq_refl)))))).
             ++ destruct i; discriminate.
  Qed.

  (* Every specification the backend ever receives from a script working on
     `command(program)` is the specification of one of its run statements, in order. *)
  Lemma run_script_log pol program steps log err bf :
    caps_wf (process_caps pol) ->
    run_script backend_ok backend_err spawn pol program steps = (log, err, bf) ->
    (err = None -> length log = count_runs steps) /\
    forall i s, nth_error log i = Some s -> spawn_justified pol (command_new program) steps i s.
  Proof.
    intros Hwf H. unfold run_script in H.
    assert (Hb : command_wf (command_new program)) by (intros t Ht; discriminate).
    destruct (exec_log pol Hwf steps (command_new program) [] log err bf Hb H) as [added [Hl [Hlen Hj]]].
    cbn [app] in Hl. subst added. split; assumption.
  Qed.

  (* gate at script level: with allow_process = false nothing is ever handed to the backend *)
  Lemma run_script_denied pol program steps log err bf :
    caps_wf (process_caps pol) ->
    allow_process pol = false ->
    run_script backend_ok backend_err spawn pol program steps = (log, err, bf) ->
    log = [].
  Proof.
    intros Hwf Hd H. destruct (run_script_log pol program steps log err bf Hwf H) as [_ Hj].
    destruct log as [|s t]; [reflexivity|].
    destruct (Hj O s eq_refl) as [pre [post [_ [_ [_ [Ha _]]]]]]. congruence.
  Qed.
End ScriptProofs.

(* the generated defaults are u32 values, so the theorems apply to the shipped policy *)
Lemma default_caps_wf : caps_wf default_caps.
Proof.
  unfold caps_wf, caps_fields. cbn.
  repeat (apply Forall_cons; [unfold cap_type_max; lia|]). apply Forall_nil.
Qed.

Lemma command_new_wf p : command_wf (command_new p).
Proof. intros t Ht. discriminate. Qed.

(* ------------------------------------------------------------------ argv[0] and program lookup *)

(* the program string reaches the backend untouched: the child's argv and the file to execute
   are functions of the builder's program, arguments and cwd only *)
Lemma spec_exec_view c b s :
  validate c b = Ok s ->
  spec_argv s = c_program b :: c_args b /\ spec_lookup s = lookup_of (c_program b) (c_cwd b).
Proof.
  intros H. apply validate_ok_spec in H. subst s. unfold spec_argv, spec_lookup, spec_of.
  cbn [s_program s_args s_cwd]. split; reflexivity.
Qed.

Lemma view_exec_view p cs :
  c_program (view (command_new p) cs) = p /\
  c_args (view (command_new p) cs) = arg_texts cs /\
  c_cwd (view (command_new p) cs) = last_some cwd_of_call cs None.
Proof. unfold view, command_new. cbn [c_program c_args c_cwd app]. repeat split. Qed.
