(* ReadLineProofs.v — proofs about theories/ReadLine.v (property C17). *)
From Coq Require Import ZArith List Bool Lia.
Require Import NS.theories.GenReadLine NS.theories.ReadLine.
Import ListNotations.
Open Scope Z_scope.

(* ------------------------------------------------------------------------------------ *)
(* Side conditions on the constants regenerated from the source.  They are the only place
   where the generated values are inspected; an edit of the source that breaks one of
   them stops this file from compiling. *)
Lemma rl_newline_10 : rl_newline = 10.
Proof. reflexivity. Qed.
Lemma rl_keeps : rl_keeps_rest = 1.
Proof. reflexivity. Qed.
Lemma rl_growth_ge2 : 2 <= rl_growth.
Proof. unfold rl_growth. lia. Qed.
Lemma rl_read_max_pos : 0 < rl_read_max.
Proof. unfold rl_read_max. lia. Qed.
Lemma rl_read_max_le_cap : rl_read_max <= rl_initial_cap.
Proof. unfold rl_read_max, rl_initial_cap. lia. Qed.

(* ------------------------------------------------------------------------------------ *)
(* lists with Z lengths *)
Lemma zlen_nonneg : forall (A : Type) (l : list A), 0 <= zlen l.
Proof. intros. unfold zlen. lia. Qed.

Lemma zlen_nil : forall (A : Type), zlen (@nil A) = 0.
Proof. reflexivity. Qed.

Lemma zlen_cons : forall (A : Type) (x : A) l, zlen (x :: l) = 1 + zlen l.
Proof. intros. unfold zlen. cbn [length]. lia. Qed.

Lemma zlen_app : forall (A : Type) (l r : list A), zlen (l ++ r) = zlen l + zlen r.
Proof. intros. unfold zlen. rewrite app_length. lia. Qed.

Lemma zlen_zero_nil : forall (A : Type) (l : list A), zlen l = 0 -> l = [].
Proof. intros A [|x l] H; [reflexivity|]. rewrite zlen_cons in H. pose proof (zlen_nonneg A l). lia. Qed.

Lemma ztake_zdrop : forall (A : Type) n (l : list A), ztake n l ++ zdrop n l = l.
Proof. intros. apply firstn_skipn. Qed.

Lemma zlen_ztake : forall (A : Type) n (l : list A), 0 <= n <= zlen l -> zlen (ztake n l) = n.
Proof.
  intros A n l H. unfold ztake, zlen in *. rewrite firstn_length_le by lia. lia.
Qed.

Lemma zlen_zdrop : forall (A : Type) n (l : list A), 0 <= n <= zlen l -> zlen (zdrop n l) = zlen l - n.
Proof.
  intros A n l H. unfold zdrop, zlen in *. rewrite skipn_length. lia.
Qed.

Lemma ztake_all : forall (A : Type) (l : list A), ztake (zlen l) l = l.
Proof. intros. unfold ztake, zlen. rewrite Nat2Z.id. apply firstn_all. Qed.

Lemma zdrop_beyond : forall (A : Type) n (l : list A), zlen l <= n -> zdrop n l = [].
Proof. intros A n l H. unfold zdrop, zlen in *. apply skipn_all2. lia. Qed.

Lemma ztake_app_le : forall (A : Type) n (l r : list A), n <= zlen l -> ztake n (l ++ r) = ztake n l.
Proof.
  intros A n l r H. unfold ztake, zlen in *. rewrite firstn_app.
  replace (Z.to_nat n - length l)%nat with 0%nat by lia.
  cbn [firstn]. apply app_nil_r.
Qed.

Lemma zdrop_app_le : forall (A : Type) n (l r : list A), n <= zlen l -> zdrop n (l ++ r) = zdrop n l ++ r.
Proof.
  intros A n l r H. unfold zdrop, zlen in *. rewrite skipn_app.
  replace (Z.to_nat n - length l)%nat with 0%nat by lia.
  reflexivity.
Qed.

Lemma ztake_succ_cons : forall (A : Type) i (x : A) l, 0 <= i -> ztake (1 + i) (x :: l) = x :: ztake i l.
Proof.
  intros A i x l H. unfold ztake. replace (Z.to_nat (1 + i)) with (S (Z.to_nat i)) by lia. reflexivity.
Qed.

Lemma zdrop_succ_cons : forall (A : Type) i (x : A) l, 0 <= i -> zdrop (1 + i) (x :: l) = zdrop i l.
Proof.
  intros A i x l H. unfold zdrop. replace (Z.to_nat (1 + i)) with (S (Z.to_nat i)) by lia. reflexivity.
Qed.

(* ------------------------------------------------------------------------------------ *)
(* index_of / memchr *)
Lemma index_of_bounds : forall x l, 0 <= index_of x l <= zlen l.
Proof.
  intros x l. induction l as [|y t IH]; cbn [index_of].
  - rewrite zlen_nil. lia.
  - rewrite zlen_cons. destruct (y =? x); lia.
Qed.

(* the byte at the index found is the needle, and no earlier byte is *)
Lemma index_of_found : forall x l, index_of x l < zlen l ->
  nth (Z.to_nat (index_of x l)) l (x + 1) = x.
Proof.
  intros x l. induction l as [|y t IH]; cbn [index_of]; intros H.
  - rewrite zlen_nil in H. lia.
  - destruct (y =? x) eqn:E.
    + apply Z.eqb_eq in E. cbn. exact E.
    + rewrite zlen_cons in H. pose proof (index_of_bounds x t) as B.
      replace (Z.to_nat (1 + index_of x t)) with (S (Z.to_nat (index_of x t))) by lia.
      cbn [nth]. apply IH. lia.
Qed.

Lemma index_of_first : forall x l i, (Z.of_nat i < index_of x l) -> nth i l (x + 1) <> x.
Proof.
  intros x l. induction l as [|y t IH]; cbn [index_of]; intros i H.
  - lia.
  - destruct (y =? x) eqn:E; [lia|]. apply Z.eqb_neq in E.
    destruct i as [|i]; cbn [nth]; [exact E|]. apply IH. lia.
Qed.

Lemma index_of_app_found : forall x l r, index_of x l < zlen l -> index_of x (l ++ r) = index_of x l.
Proof.
  intros x l r. induction l as [|y t IH]; intros H.
  - rewrite zlen_nil in H. cbn [index_of] in H. lia.
  - cbn [app index_of] in *. destruct (y =? x); [reflexivity|].
    rewrite zlen_cons in H. rewrite IH by lia. reflexivity.
Qed.

Lemma index_of_app_notfound : forall x l r, index_of x l = zlen l ->
  index_of x (l ++ r) = zlen l + index_of x r.
Proof.
  intros x l r. induction l as [|y t IH]; intros H.
  - rewrite zlen_nil. reflexivity.
  - cbn [app index_of] in *. rewrite zlen_cons in *. destruct (y =? x).
    + pose proof (zlen_nonneg Z t). lia.
    + rewrite IH by lia. lia.
Qed.

Lemma index_of_skip : forall x n l, Z.of_nat n <= index_of x l ->
  index_of x l = Z.of_nat n + index_of x (skipn n l).
Proof.
  intros x n. induction n as [|n IH]; intros l H.
  - cbn [skipn]. lia.
  - destruct l as [|y t].
    + cbn [index_of] in H. lia.
    + cbn [skipn]. cbn [index_of] in *. destruct (y =? x); [lia|].
      rewrite (IH t) at 1 by lia. lia.
Qed.

Lemma memchr_eq : forall x l off, 0 <= off <= index_of x l -> memchr x l off = index_of x l.
Proof.
  intros x l off H. unfold memchr. pose proof (index_of_bounds x l) as B.
  rewrite Z.min_l by lia. unfold zdrop.
  pose proof (index_of_skip x (Z.to_nat off) l) as E. lia.
Qed.

(* ------------------------------------------------------------------------------------ *)
(* the reference: first line / what follows it *)
Lemma split_lines_unfold : forall t,
  split_lines t =
  first_line t :: (if index_of 10 t <? zlen t then split_lines (after_line t) else []).
Proof.
  induction t as [|c t IH].
  - reflexivity.
  - cbn [split_lines]. unfold first_line, after_line. cbn [index_of].
    destruct (c =? 10) eqn:E.
    + rewrite zlen_cons. pose proof (zlen_nonneg Z t) as P.
      destruct (0 <? 1 + zlen t) eqn:L; [|apply Z.ltb_ge in L; lia].
      reflexivity.
    + pose proof (index_of_bounds 10 t) as B.
      rewrite IH. rewrite ztake_succ_cons by lia.
      replace (1 + index_of 10 t + 1) with (1 + (index_of 10 t + 1)) by lia.
      rewrite zdrop_succ_cons by lia. rewrite zlen_cons.
      unfold first_line, after_line.
      replace (1 + index_of 10 t <? 1 + zlen t) with (index_of 10 t <? zlen t); [reflexivity|].
      destruct (index_of 10 t <? zlen t) eqn:L1; symmetry.
      * apply Z.ltb_lt in L1. apply Z.ltb_lt. lia.
      * apply Z.ltb_ge in L1. apply Z.ltb_ge. lia.
Qed.

Lemma expected_line_0 : forall t, expected_line t 0 = first_line t.
Proof. intros t. unfold expected_line. rewrite split_lines_unfold. reflexivity. Qed.

Lemma expected_line_S : forall t i, expected_line t (S i) = expected_line (after_line t) i.
Proof.
  intros t i. unfold expected_line. rewrite (split_lines_unfold t). cbn [nth].
  destruct (index_of 10 t <? zlen t) eqn:L; [reflexivity|].
  apply Z.ltb_ge in L. unfold after_line. rewrite zdrop_beyond by lia.
  cbn [split_lines]. destruct i as [|[|i]]; reflexivity.
Qed.

Lemma expected_S : forall t k, expected t (S k) = first_line t :: expected (after_line t) k.
Proof.
  intros t k. unfold expected. cbn [seq map]. rewrite expected_line_0. f_equal.
  rewrite <- seq_shift. rewrite map_map. apply map_ext. intros i. apply expected_line_S.
Qed.

Lemma take_pad_nth : forall k (l : list (list Z)),
  take_pad k l = map (fun i => nth i l []) (seq 0 k).
Proof.
  induction k as [|k IH]; intros l; [reflexivity|].
  cbn [take_pad seq map]. rewrite <- seq_shift. rewrite map_map.
  destruct l as [|x l'].
  - rewrite IH. cbn [nth]. f_equal. apply map_ext. intros [|i]; reflexivity.
  - rewrite IH. reflexivity.
Qed.

Lemma expected_fast_eq : forall text k, expected_fast text k = expected text k.
Proof. intros. unfold expected_fast, expected, expected_line. apply take_pad_nth. Qed.

(* split_lines really is the split at byte 10: joining the pieces with 10 gives the text
   back and no piece contains a 10. *)
Lemma split_lines_nonempty : forall t, split_lines t <> [].
Proof. intros t. rewrite split_lines_unfold. discriminate. Qed.

Lemma join_split_lines : forall t, join_nl (split_lines t) = t.
Proof.
  induction t as [|c t IH]; [reflexivity|].
  cbn [split_lines]. destruct (c =? 10) eqn:E.
  - apply Z.eqb_eq in E. subst c.
    pose proof (split_lines_nonempty t) as NE.
    cbn [join_nl]. destruct (split_lines t) as [|l ls] eqn:S; [contradiction|].
    rewrite IH. reflexivity.
  - destruct (split_lines t) as [|l ls] eqn:S.
    + exfalso. exact (split_lines_nonempty t S).
    + cbn [join_nl] in *. destruct ls as [|l2 ls2]; rewrite <- IH; reflexivity.
Qed.

Lemma split_lines_no_newline : forall t, Forall (fun l => ~ In 10 l) (split_lines t).
Proof.
  induction t as [|c t IH].
  - cbn [split_lines]. constructor; [|constructor]. intros [].
  - cbn [split_lines]. destruct (c =? 10) eqn:E.
    + constructor; [intros []|exact IH].
    + apply Z.eqb_neq in E. destruct (split_lines t) as [|l ls].
      * constructor; [|constructor]. intros [H|[]]. congruence.
      * inversion IH as [|? ? Hl Hls]; subst. constructor; [|exact Hls].
        intros [H|H]; [congruence|exact (Hl H)].
Qed.

(* the number of pieces is 1 + the number of newlines *)
Lemma split_lines_length : forall t,
  length (split_lines t) = S (length (filter (fun c => c =? 10) t)).
Proof.
  induction t as [|c t IH]; [reflexivity|].
  cbn [split_lines filter]. destruct (c =? 10).
  - cbn [length]. rewrite IH. reflexivity.
  - destruct (split_lines t) as [|l ls] eqn:S; cbn [length] in *; lia.
Qed.

Lemma expected_line_past_end : forall t k, (length (split_lines t) <= k)%nat -> expected_line t k = [].
Proof. intros t k H. unfold expected_line. apply nth_overflow. exact H. Qed.

(* the reference on a text written as complete lines followed by a remainder *)
Lemma split_lines_no_nl : forall l, ~ In 10 l -> split_lines l = [l].
Proof.
  induction l as [|c l IH]; intros H; [reflexivity|].
  cbn [split_lines]. destruct (c =? 10) eqn:E.
  - apply Z.eqb_eq in E. exfalso. apply H. left. exact E.
  - rewrite IH by (intros H'; apply H; right; exact H'). reflexivity.
Qed.

Lemma split_lines_line : forall l t, ~ In 10 l -> split_lines (l ++ 10 :: t) = l :: split_lines t.
Proof.
  induction l as [|c l IH]; intros t H; [reflexivity|].
  cbn [app split_lines]. destruct (c =? 10) eqn:E.
  - apply Z.eqb_eq in E. exfalso. apply H. left. exact E.
  - rewrite IH by (intros H'; apply H; right; exact H'). reflexivity.
Qed.

Lemma split_lines_unlines : forall ls last,
  Forall (fun l => ~ In 10 l) ls -> ~ In 10 last ->
  split_lines (unlines_with ls last) = ls ++ [last].
Proof.
  unfold unlines_with. induction ls as [|l ls IH]; intros last Hls Hlast.
  - cbn [map concat app]. apply split_lines_no_nl. exact Hlast.
  - inversion Hls as [|? ? Hl Hrest]; subst. cbn [map concat].
    rewrite <- !app_assoc. cbn [app]. rewrite split_lines_line by exact Hl.
    rewrite IH by assumption. reflexivity.
Qed.

Lemma reference_is_the_split : forall t,
  join_nl (split_lines t) = t /\
  Forall (fun l => ~ In 10 l) (split_lines t) /\
  length (split_lines t) = S (length (filter (fun c => c =? 10) t)) /\
  (forall k, (length (split_lines t) <= k)%nat -> expected_line t k = []).
Proof.
  intros t.
  exact (conj (join_split_lines t) (conj (split_lines_no_newline t)
        (conj (split_lines_length t) (expected_line_past_end t)))).
Qed.

(* ------------------------------------------------------------------------------------ *)
(* the stream *)
Lemma sys_read_spec : forall s count chunk s',
  sys_read s count = (chunk, s') -> 0 < count ->
  chunk ++ s_rem s' = s_rem s /\ zlen chunk <= count /\ (chunk = [] -> s_rem s = []).
Proof.
  intros s count chunk s' H Hc. unfold sys_read in H.
  destruct (s_rem s) as [|z r] eqn:R.
  - inversion H; subst. cbn [app]. split; [exact R|].
    split; [unfold zlen; cbn [length]; lia|reflexivity].
  - set (rem := z :: r) in *.
    set (offer := match s_sched s with [] => zlen rem | x :: _ => Z.max 1 x end) in *.
    set (n := Z.min count (Z.min offer (zlen rem))) in *.
    inversion H; subst chunk s'. cbn [s_rem].
    assert (Hrem : 1 <= zlen rem) by (unfold rem; rewrite zlen_cons; pose proof (zlen_nonneg Z r); lia).
    assert (Hoffer : 1 <= offer) by (unfold offer; destruct (s_sched s); lia).
    assert (Hn : 1 <= n <= zlen rem /\ n <= count) by (unfold n; lia).
    split; [apply ztake_zdrop|]. split.
    + rewrite zlen_ztake by lia. lia.
    + intros E. assert (Z0 : zlen (ztake n rem) = 0) by (rewrite E; reflexivity).
      rewrite zlen_ztake in Z0 by lia. lia.
Qed.

(* the adversary can make a read return any positive number of bytes it likes, up to the
   count requested and the bytes left (a piece of exactly that size) *)
Lemma sys_read_any : forall rem sched count n,
  1 <= n <= count -> n <= zlen rem ->
  sys_read (mkStream rem (n :: sched)) count = (ztake n rem, mkStream (zdrop n rem) sched).
Proof.
  intros rem sched count n H1 H2. unfold sys_read. cbn [s_rem s_sched].
  destruct rem as [|z r]; [rewrite zlen_nil in H2; lia|].
  rewrite Z.max_r by lia.
  replace (Z.min count (Z.min n (zlen (z :: r)))) with n by lia.
  rewrite Z.ltb_irrefl. reflexivity.
Qed.

(* a piece larger than the count requested is handed out over several reads *)
Lemma sys_read_clipped : forall rem sched count n,
  1 <= count < n -> n <= zlen rem ->
  sys_read (mkStream rem (n :: sched)) count =
  (ztake count rem, mkStream (zdrop count rem) ((n - count) :: sched)).
Proof.
  intros rem sched count n H1 H2. unfold sys_read. cbn [s_rem s_sched].
  destruct rem as [|z r]; [rewrite zlen_nil in H2; lia|].
  rewrite Z.max_r by lia.
  replace (Z.min count (Z.min n (zlen (z :: r)))) with count by lia.
  destruct (count <? n) eqn:L; [reflexivity|apply Z.ltb_ge in L; lia].
Qed.

(* ------------------------------------------------------------------------------------ *)
(* the loop *)
Lemma rl_grow_ok : forall len cap vcap,
  0 <= len <= cap -> 0 < cap -> cap <= vcap ->
  exists cap' vcap', rl_grow len cap vcap = Some (cap', vcap') /\
                     len < cap' /\ cap' <= vcap' /\ 0 < cap'.
Proof.
  intros len cap vcap Hl Hc Hv. unfold rl_grow. pose proof rl_growth_ge2 as G.
  destruct (len =? cap) eqn:E.
  - apply Z.eqb_eq in E. destruct (vcap <? len) eqn:L; [apply Z.ltb_lt in L; lia|].
    eexists _, _. split; [reflexivity|].
    assert (2 * cap <= cap * rl_growth) by nia.
    unfold vec_reserve_exact. destruct (cap * rl_growth - len <=? vcap - len) eqn:L2.
    + apply Z.leb_le in L2. lia.
    + lia.
  - apply Z.eqb_neq in E. eexists _, _. split; [reflexivity|]. lia.
Qed.

Lemma rl_loop_S : forall fuel buf cap vcap scanned s tr,
  rl_loop (S fuel) buf cap vcap scanned s tr =
  let len := zlen buf in
  let index := memchr rl_newline buf scanned in
  if index <? len then
    Line (ztake index buf) (if rl_keeps_rest =? 1 then zdrop (index + 1) buf else []) s (rev tr)
  else
    match rl_grow len cap vcap with
    | None => Fault
    | Some (cap', vcap') =>
        if cap' <? len then Fault
        else
          let count := Z.min (cap' - len) rl_read_max in
          if vcap' <? len + count then Fault
          else
            match sys_read s count with
            | ([], s') => Line buf [] s' (rev ((count, 0) :: tr))
            | (chunk, s') =>
                rl_loop fuel (buf ++ chunk) cap' vcap' len s' ((count, zlen chunk) :: tr)
            end
    end.
Proof. reflexivity. Qed.

(* One run of the loop from a state satisfying the invariant
     - the first [scanned] bytes of the buffer contain no newline,
     - the buffer holds at most [cap] bytes and [cap] does not exceed the real capacity,
     - at most rl_read_max bytes are not yet searched,
   returns the first line of (buffer ++ rest of the stream), and what it stores in PENDING
   followed by what is left on the stream is exactly the text after that line. *)
Lemma rl_loop_spec : forall fuel buf cap vcap scanned s tr,
  (length (s_rem s) < fuel)%nat ->
  0 <= scanned <= zlen buf -> scanned <= index_of 10 buf ->
  zlen buf <= cap -> 0 < cap -> cap <= vcap -> zlen buf - scanned <= rl_read_max ->
  exists p' s' tr',
    rl_loop fuel buf cap vcap scanned s tr = Line (first_line (buf ++ s_rem s)) p' s' tr' /\
    p' ++ s_rem s' = after_line (buf ++ s_rem s) /\
    zlen p' <= rl_read_max /\
    (length (s_rem s') <= length (s_rem s))%nat.
Proof.
  induction fuel as [|fuel IH]; intros buf cap vcap scanned s tr Hfuel Hsc Hnl Hlen Hcap Hv Hun.
  - lia.
  - rewrite rl_loop_S. cbv zeta. rewrite rl_newline_10.
    rewrite (memchr_eq 10 buf scanned) by lia.
    pose proof (index_of_bounds 10 buf) as B.
    pose proof rl_read_max_pos as RM.
    destruct (index_of 10 buf <? zlen buf) eqn:Hfound.
    + apply Z.ltb_lt in Hfound. rewrite rl_keeps. cbn [Z.eqb Pos.eqb].
      exists (zdrop (index_of 10 buf + 1) buf), s, (rev tr).
      refine (conj _ (conj _ (conj _ _))).
      * unfold first_line. rewrite index_of_app_found by lia.
        rewrite ztake_app_le by lia. reflexivity.
      * unfold after_line. rewrite index_of_app_found by lia.
        rewrite zdrop_app_le by lia. reflexivity.
      * rewrite zlen_zdrop by lia. lia.
      * lia.
    + apply Z.ltb_ge in Hfound.
      assert (Hnone : index_of 10 buf = zlen buf) by lia.
      destruct (rl_grow_ok (zlen buf) cap vcap) as (cap' & vcap' & Hg & Hg1 & Hg2 & Hg3); try lia.
      rewrite Hg.
      destruct (cap' <? zlen buf) eqn:L1; [apply Z.ltb_lt in L1; lia|].
      set (count := Z.min (cap' - zlen buf) rl_read_max).
      assert (Hcount : 0 < count <= rl_read_max /\ zlen buf + count <= cap') by (unfold count; lia).
      destruct (vcap' <? zlen buf + count) eqn:L2; [apply Z.ltb_lt in L2; lia|].
      destruct (sys_read s count) as [chunk s'] eqn:Hread.
      destruct (sys_read_spec s count chunk s' Hread) as (Hcat & Hcl & Hnil); [lia|].
      destruct chunk as [|c0 chunk0].
      * (* end of input *)
        specialize (Hnil eq_refl). cbn [app] in Hcat.
        exists [], s', (rev ((count, 0) :: tr)).
        refine (conj _ (conj _ (conj _ _))).
        -- rewrite Hnil. rewrite app_nil_r. unfold first_line. rewrite Hnone. rewrite ztake_all. reflexivity.
        -- rewrite Hnil. rewrite app_nil_r. unfold after_line. rewrite zdrop_beyond by lia.
           cbn [app]. rewrite Hcat. exact Hnil.
        -- rewrite zlen_nil. lia.
        -- rewrite Hcat. lia.
      * (* some bytes arrived *)
        set (chunk := c0 :: chunk0) in *.
        assert (Hc1 : 1 <= zlen chunk) by (unfold chunk; rewrite zlen_cons; pose proof (zlen_nonneg Z chunk0); lia).
        assert (Hlenrem : zlen (s_rem s) = zlen chunk + zlen (s_rem s')) by (rewrite <- Hcat; apply zlen_app).
        destruct (IH (buf ++ chunk) cap' vcap' (zlen buf) s' ((count, zlen chunk) :: tr))
          as (p' & s'' & tr' & Hrun & Hp & Hpl & Hrl).
        -- unfold zlen in Hlenrem, Hc1. lia.
        -- rewrite zlen_app. pose proof (zlen_nonneg Z buf). lia.
        -- rewrite index_of_app_notfound by exact Hnone. pose proof (index_of_bounds 10 chunk). lia.
        -- rewrite zlen_app. lia.
        -- lia.
        -- lia.
        -- rewrite zlen_app. lia.
        -- exists p', s'', tr'.
           assert (Hsame : (buf ++ chunk) ++ s_rem s' = buf ++ s_rem s)
             by (rewrite <- app_assoc; rewrite Hcat; reflexivity).
           rewrite Hsame in Hrun, Hp.
           refine (conj Hrun (conj Hp (conj Hpl _))).
           unfold zlen in Hlenrem. lia.
Qed.

(* One call of read_line, from any PENDING not longer than rl_read_max and any stream, with
   any fuel above the number of bytes left on the stream: it terminates, it does not fault,
   and it returns the first line of PENDING ++ stream. *)
Lemma read_line_fuel_spec : forall fuel pending s,
  zlen pending <= rl_read_max -> (length (s_rem s) < fuel)%nat ->
  exists p' s' tr,
    read_line_fuel fuel pending s = Line (first_line (pending ++ s_rem s)) p' s' tr /\
    p' ++ s_rem s' = after_line (pending ++ s_rem s) /\
    zlen p' <= rl_read_max /\
    (length (s_rem s') <= length (s_rem s))%nat.
Proof.
  intros fuel pending s Hp Hf. unfold read_line_fuel.
  pose proof rl_read_max_pos as RM. pose proof rl_read_max_le_cap as RC.
  pose proof (zlen_nonneg Z pending) as PN. pose proof (index_of_bounds 10 pending) as B.
  apply rl_loop_spec; try lia.
  unfold vec_reserve. destruct (zlen pending <=? rl_initial_cap - 0) eqn:L; [lia|].
  apply Z.leb_gt in L. lia.
Qed.

Lemma read_line_spec : forall pending s,
  zlen pending <= rl_read_max ->
  exists p' s' tr,
    read_line pending s = Line (first_line (pending ++ s_rem s)) p' s' tr /\
    p' ++ s_rem s' = after_line (pending ++ s_rem s) /\
    zlen p' <= rl_read_max /\
    (length (s_rem s') <= length (s_rem s))%nat.
Proof.
  intros pending s Hp. unfold read_line. apply read_line_fuel_spec; [exact Hp|].
  unfold fuel_for. lia.
Qed.

(* k successive calls *)
Lemma calls_fuel_spec : forall k fuel pending s,
  zlen pending <= rl_read_max -> (length (s_rem s) < fuel)%nat ->
  option_map (map fst) (calls_fuel fuel k pending s) = Some (expected (pending ++ s_rem s) k).
Proof.
  induction k as [|k IH]; intros fuel pending s Hp Hf.
  - reflexivity.
  - cbn [calls_fuel].
    destruct (read_line_fuel_spec fuel pending s Hp Hf) as (p' & s' & tr & Hrun & Hrest & Hpl & Hrl).
    rewrite Hrun. specialize (IH fuel p' s' Hpl ltac:(lia)).
    rewrite Hrest in IH. rewrite expected_S.
    destruct (calls_fuel fuel k p' s') as [r|]; cbn [option_map] in *; [|discriminate].
    inversion IH as [IH']. cbn [map fst]. reflexivity.
Qed.

(* The deciding theorem. *)
Lemma read_line_successive_lemma : forall text sched k,
  option_map (map fst) (run text sched k) = Some (expected text k).
Proof.
  intros text sched k. unfold run.
  rewrite (calls_fuel_spec k (S (S (length text))) [] (mkStream text sched)).
  - reflexivity.
  - rewrite zlen_nil. pose proof rl_read_max_pos. lia.
  - cbn [s_rem]. lia.
Qed.

(* Spelled out: a text made of complete lines [ls] (each followed by a newline) and a
   remainder [last] without newline (possibly empty): the calls return the lines in order,
   then the remainder, then "" for ever. *)
Lemma read_line_lines_then_remainder : forall ls last sched k,
  Forall (fun l => ~ In 10 l) ls -> ~ In 10 last ->
  option_map (map fst) (run (unlines_with ls last) sched k) = Some (take_pad k (ls ++ [last])).
Proof.
  intros ls last sched k Hls Hlast. rewrite read_line_successive_lemma.
  rewrite <- expected_fast_eq. unfold expected_fast.
  rewrite split_lines_unlines by assumption. reflexivity.
Qed.

(* the same, with the input given as the list of pieces the operating system hands out *)
Lemma read_line_successive_chunks : forall (chunks : list (list Z)) k,
  option_map (map fst) (run (concat chunks) (map zlen chunks) k) = Some (expected (concat chunks) k).
Proof. intros. apply read_line_successive_lemma. Qed.

(* the result does not depend on the schedule at all *)
Lemma read_line_schedule_independent : forall text sched1 sched2 k,
  option_map (map fst) (run text sched1 k) = option_map (map fst) (run text sched2 k).
Proof. intros. rewrite !read_line_successive_lemma. reflexivity. Qed.

(* once every piece has been returned, every further call returns the empty string *)
Lemma read_line_after_end : forall text k,
  (length (split_lines text) <= k)%nat -> expected_line text k = [].
Proof. exact expected_line_past_end. Qed.

(* "\r" is not part of the terminator: a line ending in "\r\n" is returned with its "\r" *)
Lemma crlf_keeps_cr : forall l rest, ~ In 10 l ->
  expected_line (l ++ 13 :: 10 :: rest) 0 = l ++ [13].
Proof.
  intros l rest Hl. rewrite expected_line_0. unfold first_line.
  assert (H : index_of 10 (l ++ 13 :: 10 :: rest) = zlen l + 1).
  { induction l as [|c l IH].
    - reflexivity.
    - cbn [app index_of]. destruct (c =? 10) eqn:E.
      + apply Z.eqb_eq in E. exfalso. apply Hl. left. exact E.
      + rewrite IH by (intros H; apply Hl; right; exact H). rewrite zlen_cons. lia. }
  rewrite H. replace (l ++ 13 :: 10 :: rest) with ((l ++ [13]) ++ 10 :: rest)
    by (rewrite <- app_assoc; reflexivity).
  replace (zlen l + 1) with (zlen (l ++ [13])) by (rewrite zlen_app; reflexivity).
  rewrite ztake_app_le by lia. apply ztake_all.
Qed.
