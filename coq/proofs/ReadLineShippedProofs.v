(* ReadLineShippedProofs.v — the two defects of the shipped read_line as checked facts. *)
From Coq Require Import ZArith List Bool.
Require Import NS.theories.ReadLine NS.theories.ReadLineShipped.
Import ListNotations.
Open Scope Z_scope.

(* "a\nb\n" arriving in one read: the second call returns "" instead of "b". *)
Lemma shipped_drops_bytes_after_newline :
  shipped_calls 3 (mkStream [97; 10; 98; 10] [4]) = Some [[97]; []; []] /\
  expected [97; 10; 98; 10] 3 = [[97]; [98]; []].
Proof. split; vm_compute; reflexivity. Qed.

(* ... while the same text arriving line by line is read correctly, which is why typing
   at a terminal never showed the defect. *)
Lemma shipped_line_at_a_time_ok :
  shipped_calls 3 (mkStream [97; 10; 98; 10] [2; 2]) = Some [[97]; [98]; []].
Proof. vm_compute. reflexivity. Qed.

(* A line of 8193 bytes: the second read(2) is given 8192 bytes of room at offset 8192 of
   an allocation of 8192 bytes. *)
Lemma shipped_buffer_never_grows :
  shipped_read_line (mkStream (repeat 120 (Z.to_nat 8193) ++ [10]) []) = Fault.
Proof. vm_compute. reflexivity. Qed.
