(* RenderProofs.v — rendering a diagnostic whose spans are well formed never slices the source
   out of range or inside a character, and the line/column computation is defined. *)
From Coq Require Import ZArith List Bool Arith Lia.
Require Import NS.theories.Utf8 NS.theories.GenLexer NS.theories.Render NS.proofs.Utf8Proofs.
Import ListNotations.
Open Scope nat_scope.

Definition is_nlb (b : Z) : bool := (b =? 10)%Z || (b =? 13)%Z.

Lemma nlb_ascii : forall b, is_nlb b = true -> is_ascii b = true.
Proof.
  intros b H. unfold is_nlb in H. apply orb_true_iff in H. rewrite !Z.eqb_eq in H.
  destruct H; subst; reflexivity.
Qed.

Section Source.
Variable s : bytes.
Hypothesis Vs : valid_utf8 s = true.

(* a line start other than 0: inside the text, just after a line-break byte *)
Definition after_break (n : nat) : Prop :=
  1 <= n /\ n <= length s /\ exists b, nth_error s (n - 1) = Some b /\ is_nlb b = true.

Lemma line_starts_from_spec : forall k r i, length r <= k -> r = skipn i s ->
  Forall (fun n => i < n /\ after_break n) (line_starts_from r i).
Proof.
  induction k as [|k IH]; intros r i Hk Hr.
  - destruct r; [constructor | cbn in Hk; lia].
  - destruct r as [|b t]; [constructor|]. cbn [line_starts_from].
    symmetry in Hr. destruct (skipn_cons_inv _ _ _ _ _ Hr) as (Li & Ht & Ni).
    assert (Rt : Forall (fun n => i < n /\ after_break n) (line_starts_from t (S i))).
    { eapply Forall_impl; [|apply (IH t (S i)); [cbn in Hk; lia | symmetry; exact Ht]].
      cbn. intros n [A B]. split; [lia | exact B]. }
    assert (Brk : forall x, b = x -> is_nlb x = true -> after_break (S i)).
    { intros x -> Hx. unfold after_break. repeat split; try lia.
      exists x. replace (S i - 1) with i by lia. split; assumption. }
    destruct (b =? 13)%Z eqn:C13.
    + apply Z.eqb_eq in C13.
      destruct t as [|b' t'].
      * constructor; [|constructor]. split; [lia|]. apply (Brk 13%Z); [exact C13 | reflexivity].
      * destruct (b' =? 10)%Z eqn:C10.
        -- apply Z.eqb_eq in C10.
           destruct (skipn_cons_inv _ _ _ _ _ Ht) as (Li' & Ht' & Ni').
           constructor.
           ++ split; [lia|]. unfold after_break. repeat split; try lia.
              exists b'. replace (S (S i) - 1) with (S i) by lia. split; [exact Ni' | subst; reflexivity].
           ++ eapply Forall_impl; [|apply (IH t' (S (S i))); [cbn in Hk; lia | symmetry; exact Ht']].
              cbn. intros n [A B]. split; [lia | exact B].
        -- constructor; [|exact Rt]. split; [lia|]. apply (Brk 13%Z); [exact C13 | reflexivity].
    + destruct (b =? 10)%Z eqn:C10.
      * apply Z.eqb_eq in C10. constructor; [|exact Rt]. split; [lia|]. apply (Brk 10%Z); [exact C10 | reflexivity].
      * exact Rt.
Qed.

Lemma line_starts_spec : Forall after_break (line_starts_from s 0).
Proof.
  eapply Forall_impl; [|apply (line_starts_from_spec (length s) s 0); [lia | reflexivity]].
  cbn. intros n [_ B]. exact B.
Qed.

Lemma after_break_boundaries : forall n, after_break n ->
  is_boundary s n = true /\ is_boundary s (n - 1) = true.
Proof.
  intros n (L1 & L2 & b & Nb & Hb).
  pose proof (nlb_ascii _ Hb) as Ab.
  destruct (nth_error_skipn_hd _ _ _ _ Nb) as [t Sk].
  assert (V1 : valid_utf8 (skipn (n - 1) s) = true).
  { apply valid_suffix; [exact Vs|]. right. exists b, t. split; [exact Sk | apply ascii_not_cont; exact Ab]. }
  split.
  - apply valid_suffix_boundary; [exact L2|].
    destruct (skipn_cons_inv _ _ _ _ _ Sk) as (_ & St & _).
    replace (S (n - 1)) with n in St by lia. rewrite St.
    rewrite Sk in V1. eapply valid_after_ascii; eauto.
  - apply valid_suffix_boundary; [lia | exact V1].
Qed.

(* ---------------------------------------------------------------- find_line *)

Lemma find_line_spec : forall rest cur idx start idx' cur' nx,
  find_line cur idx rest start = (idx', cur', nx) ->
  (cur <= start -> cur' <= start) /\
  (forall n, nx = Some n -> start < n /\ In n rest) /\
  (cur' = cur \/ In cur' rest) /\
  exists k, idx' = idx + k /\ nth_error (cur :: rest) k = Some cur' /\ nx = nth_error rest k.
Proof.
  induction rest as [|nxt rest IH]; intros cur idx start idx' cur' nx H; cbn [find_line] in H.
  - inversion H; subst. refine (conj (fun h => h) (conj _ (conj (or_introl eq_refl) _))).
    + intros n Hn. discriminate.
    + exists 0. refine (conj _ (conj eq_refl eq_refl)). lia.
  - destruct (nxt <=? start) eqn:C.
    + apply Nat.leb_le in C. destruct (IH _ _ _ _ _ _ H) as (A & B & D & k & K1 & K2 & K3).
      refine (conj _ (conj _ (conj _ _))).
      * intros _. apply A. exact C.
      * intros n Hn. destruct (B n Hn) as [B1 B2]. split; [exact B1 | right; exact B2].
      * destruct D as [-> | D]; right; [left; reflexivity | right; exact D].
      * exists (S k). refine (conj _ (conj K2 K3)). lia.
    + apply Nat.leb_gt in C. inversion H; subst.
      refine (conj (fun h => h) (conj _ (conj (or_introl eq_refl) _))).
      * intros n Hn. inversion Hn; subst. split; [exact C | left; reflexivity].
      * exists 0. refine (conj _ (conj eq_refl eq_refl)). lia.
Qed.

(* ---------------------------------------------------------------- line_col_from_span *)

Lemma line_col_some : forall start, start <= length s -> is_boundary s start = true ->
  exists line col ls le, line_col_from_span s start = Some (line, col, ls, le) /\
    1 <= line /\ 1 <= col /\ ls <= start /\ start <= le /\ le <= length s /\
    is_boundary s ls = true /\ is_boundary s le = true.
Proof.
  intros start L B. unfold line_col_from_span, compute_line_starts.
  destruct (find_line 0 0 (line_starts_from s 0) start) as [[idx ls] nx] eqn:F.
  destruct (find_line_spec _ _ _ _ _ _ _ F) as (A & Bn & D & _).
  pose proof line_starts_spec as LS. rewrite Forall_forall in LS.
  assert (Ls : ls <= start) by (apply A; lia).
  assert (Bls : is_boundary s ls = true).
  { destruct D as [-> | D]; [reflexivity|]. apply after_break_boundaries. apply LS. exact D. }
  assert (Hle : start <= match nx with Some n => n - 1 | None => length s end /\
                match nx with Some n => n - 1 | None => length s end <= length s /\
                is_boundary s (match nx with Some n => n - 1 | None => length s end) = true).
  { destruct nx as [n|].
    - destruct (Bn n eq_refl) as [Sn In_n]. pose proof (LS _ In_n) as AB.
      destruct (after_break_boundaries _ AB) as [_ Bm]. destruct AB as (_ & L2 & _).
      refine (conj _ (conj _ Bm)); lia.
    - refine (conj L (conj _ (boundary_len s))). lia. }
  destruct Hle as (Hle1 & Hle2 & Hle3).
  rewrite (slice_some s ls start Ls L Bls B).
  eexists _, _, _, _. split; [reflexivity|].
  refine (conj _ (conj _ (conj Ls (conj Hle1 (conj Hle2 (conj Bls Hle3)))))); lia.
Qed.

(* two offsets on the same line number share the line's start and end *)
Lemma same_line_same_bounds : forall a b la ca lsa lea lb cb lsb leb,
  line_col_from_span s a = Some (la, ca, lsa, lea) ->
  line_col_from_span s b = Some (lb, cb, lsb, leb) ->
  la = lb -> lsa = lsb /\ lea = leb.
Proof.
  intros a b la ca lsa lea lb cb lsb leb Ha Hb E.
  unfold line_col_from_span, compute_line_starts in Ha, Hb.
  destruct (find_line 0 0 (line_starts_from s 0) a) as [[ia xa] na] eqn:Fa.
  destruct (find_line 0 0 (line_starts_from s 0) b) as [[ib xb] nb] eqn:Fb.
  destruct (slice s xa a); [|discriminate]. destruct (slice s xb b); [|discriminate].
  inversion Ha; subst. inversion Hb; subst.
  destruct (find_line_spec _ _ _ _ _ _ _ Fa) as (_ & _ & _ & ka & Ka1 & Ka2 & Ka3).
  destruct (find_line_spec _ _ _ _ _ _ _ Fb) as (_ & _ & _ & kb & Kb1 & Kb2 & Kb3).
  assert (ka = kb) by lia. subst kb.
  rewrite Ka2 in Kb2. inversion Kb2; subst. split; reflexivity.
Qed.

(* ---------------------------------------------------------------- render_diagnostic *)

Lemma all_some_map : forall (A B : Type) (f : A -> option B) (l : list A),
  Forall (fun x => exists y, f x = Some y) l -> exists r, all_some (map f l) = Some r /\ length r = length l.
Proof.
  intros A B f l H. induction H as [|x l [y Hy] _ [r [Hr Lr]]]; cbn.
  - exists []. split; reflexivity.
  - rewrite Hy, Hr. exists (y :: r). split; [reflexivity | cbn; lia].
Qed.

Lemma slice_min_ok : forall a b le, span_wf s a b -> a <= le -> le <= length s -> is_boundary s le = true ->
  exists x, slice s a (Nat.min b le) = Some x.
Proof.
  intros a b le (W1 & W2 & W3 & W4) L1 L2 B.
  destruct (Nat.min_spec b le) as [[_ ->] | [_ ->]]; eexists; apply slice_some; assumption || lia.
Qed.

Theorem render_diagnostic_total : forall dspan labels,
  span_wf s (fst dspan) (snd dspan) ->
  Forall (fun l => span_wf s (fst l) (snd l)) labels ->
  exists g, render_diagnostic s dspan labels = Some g /\
    1 <= g_line g /\ 1 <= g_col g /\ 1 <= g_carets g /\ length (g_labels g) = length labels /\
    Forall (fun l => 1 <= snd (fst l) /\ 1 <= snd l) (g_labels g).
Proof.
  intros [dstart dend] labels W WL. cbn [fst snd] in W.
  pose proof W as (W1 & W2 & W3 & W4).
  unfold render_diagnostic.
  destruct (line_col_some dstart ltac:(lia) W3) as (line & col & ls & le & E & R1 & R2 & R3 & R4 & R5 & R6 & R7).
  rewrite E.
  rewrite (slice_some s ls le ltac:(lia) R5 R6 R7).
  destruct (slice_min_ok dstart dend le W R4 R5 R7) as [under Hu]. rewrite Hu.
  assert (LG : Forall (fun l => exists y, label_geometry s line ls le l = Some y /\ 1 <= snd (fst y) /\ 1 <= snd y) labels).
  { eapply Forall_impl; [|exact WL]. intros [lstart lend] Wl. cbn [fst snd] in Wl.
    pose proof Wl as (V1 & V2 & V3 & V4).
    unfold label_geometry.
    destruct (line_col_some lstart ltac:(lia) V3) as (lline & lcol & lls & lle & El & Q1 & Q2 & Q3 & Q4 & Q5 & Q6 & Q7).
    rewrite El.
    destruct (lline =? line) eqn:C.
    - apply Nat.eqb_eq in C.
      destruct (same_line_same_bounds _ _ _ _ _ _ _ _ _ _ El E C) as [-> ->].
      rewrite (slice_some s ls lstart Q3 ltac:(lia) R6 V3).
      destruct (slice_min_ok lstart lend le Wl Q4 R5 R7) as [u Hu']. rewrite Hu'.
      eexists. split; [reflexivity|]. cbn [fst snd]. split; lia.
    - rewrite (slice_some s lls lle ltac:(lia) Q5 Q6 Q7).
      destruct (slice_min_ok lstart lend lle Wl Q4 Q5 Q7) as [u Hu']. rewrite Hu'.
      eexists. split; [reflexivity|]. cbn [fst snd]. split; lia. }
  assert (LG1 : Forall (fun l => exists y, label_geometry s line ls le l = Some y) labels).
  { eapply Forall_impl; [|exact LG]. cbn. intros a (y & Hy & _). exists y. exact Hy. }
  destruct (all_some_map _ _ _ _ LG1) as [gl [Hgl Lgl]]. rewrite Hgl.
  eexists. split; [reflexivity|]. cbn [g_line g_col g_carets g_labels].
  repeat split; try lia.
  (* every label geometry has column >= 1 and dash count >= 1 *)
  clear - LG Hgl. revert gl Hgl. induction LG as [|x l (y & Hy & Py) _ IH]; intros gl Hgl; cbn in Hgl.
  - inversion Hgl; subst. constructor.
  - rewrite Hy in Hgl. destruct (all_some (map (label_geometry s line ls le) l)) as [r|] eqn:Er; [|discriminate].
    inversion Hgl; subst. constructor; [exact Py | apply IH; reflexivity].
Qed.

Theorem render_ansi_total : forall diags,
  Forall (fun d => span_wf s (fst (fst d)) (snd (fst d)) /\ Forall (fun l => span_wf s (fst l) (snd l)) (snd d)) diags ->
  exists gs, render_ansi s diags = Some gs /\ length gs = length diags.
Proof.
  intros diags H. unfold render_ansi. apply all_some_map.
  eapply Forall_impl; [|exact H]. cbn. intros d [W WL].
  destruct (render_diagnostic_total (fst d) (snd d) W WL) as (g & Hg & _). exists g. exact Hg.
Qed.

End Source.
