(* RulesImplyWf — the C09 model of the static checker implies the C06 structural hypothesis:

     StaticRules.check p = []  ->  ids_consistent p = true  ->  idx_targets p = true
       ->  WfStatic.wf_static p = true

   rule by rule (see the section headers): built-in arity, user-call arity, method argument
   counts (typed and dynamically typed receivers), comot/next placement.  Two conjuncts of
   wf_static are NOT consequences of the static rules and are therefore hypotheses about the
   resolved tree: the parameter range (ids_consistent's params_in_range: StaticRules has no
   local ids) and the shape of index-assignment targets (idx_targets: a parser guarantee,
   proved for the parser model in the last section). *)
From Coq Require Import ZArith List Bool Arith Lia.
Require Import NS.theories.F64 NS.theories.Lang NS.theories.GenRules NS.theories.StaticRules.
Require Import NS.theories.WfStatic NS.theories.LexResolve NS.theories.RulesWf.
Require Import NS.proofs.StaticRulesProofs.
Import ListNotations.
Open Scope Z_scope.

(* ---------- lists ---------- *)
Lemma flat_map_nil {A B} (f : A -> list B) : forall l, flat_map f l = [] -> Forall (fun x => f x = []) l.
Proof.
  induction l as [|x l IH]; intro H; constructor.
  - cbn [flat_map] in H. apply app_eq_nil in H. tauto.
  - apply IH. cbn [flat_map] in H. apply app_eq_nil in H. tauto.
Qed.

Lemma forallb_Forall3 {A} (P : A -> Prop) (q r w : A -> bool) :
  (forall x, P x -> q x = true -> r x = true -> w x = true) ->
  forall l, Forall P l -> forallb q l = true -> forallb r l = true -> forallb w l = true.
Proof.
  intros H l HP. induction HP as [|x l Hx HP IH]; intros Hq Hr; [reflexivity|].
  cbn [forallb] in *. apply andb_true_iff in Hq. apply andb_true_iff in Hr.
  destruct Hq as [Hq1 Hq2]. destruct Hr as [Hr1 Hr2].
  rewrite (H x Hx Hq1 Hr1). cbn [andb]. apply IH; assumption.
Qed.

(* ================= rule: built-in arity (PBuiltinArity) ================= *)
(* the global built-ins of src/builtins/mod.rs (generated table) are the ones Lang.run_impl
   dispatches on, and each takes exactly one argument *)
Lemma builtin_tables_agree : forall f,
  match global_lookup f with
  | Some (ar, _) => ar = 1%nat /\ global_builtin f <> None
  | None => global_builtin f = None
  end.
Proof.
  intro f. unfold global_lookup, global_builtins, global_lookup_in, global_builtin,
    n_shout, n_typeof, n_read_line, n_to_string, n_command.
  repeat match goal with |- context [bytes_eqb ?a f] => rewrite (bytes_eqb_sym a f) end.
  repeat match goal with |- context [bytes_eqb f ?n] => destruct (bytes_eqb f n) end;
    try reflexivity; (split; [reflexivity | discriminate]).
Qed.

(* ================= rule: method argument counts (PArgIndex) ================= *)
Definition positional : list (name * nat) :=
  [(n_push, 1%nat); (n_slice, 2%nat); (n_find, 1%nat); (n_replace, 2%nat); (n_split, 1%nat); (n_join, 1%nat)].

Lemma member_args_ok_intro : forall f n,
  (forall m k, In (m, k) positional -> f = m -> (k <= n)%nat) -> member_args_ok f n = true.
Proof.
  intros f n H. unfold member_args_ok, need.
  assert (L : forall m k, In (m, k) positional -> negb (bytes_eqb f m) || Nat.leb k n = true).
  { intros m k Hin. destruct (bytes_eqb f m) eqn:E; [|reflexivity].
    apply bytes_eqb_eq in E. cbn [negb orb]. apply Nat.leb_le. apply (H m k Hin E). }
  rewrite (L n_push 1%nat), (L n_slice 2%nat), (L n_find 1%nat), (L n_replace 2%nat),
          (L n_split 1%nat), (L n_join 1%nat); [reflexivity | | | | | | ]; cbn; tauto.
Qed.

(* a receiver whose kind is known statically: the exact arity of the method of that kind is
   at least what the runtime reads by position *)
Lemma typed_method_args_ok : forall k f ar t m,
  method_lookup (kind_table k) f = Some (ar, t, m) -> member_args_ok f ar = true.
Proof.
  intros k f ar t m H. apply member_args_ok_intro. intros m0 k0 Hin Ef. subst f.
  cbn [positional In] in Hin.
  repeat (destruct Hin as [Hin|Hin]; [inversion Hin; subst m0 k0; clear Hin;
    destruct k; vm_compute in H; try discriminate H; inversion H; subst; lia |]).
  contradiction.
Qed.

(* fa29849: a receiver typed only at run time — the count must be one of the arities the name
   has in some family, and every such arity covers the positional reads *)
Lemma dyn_method_args_ok : forall f n, dyn_arity_rule f n = [] -> member_args_ok f n = true.
Proof.
  intros f n H. apply member_args_ok_intro. intros m0 k0 Hin Ef. subst f.
  unfold dyn_arity_rule in H. cbn [positional In] in Hin.
  repeat (destruct Hin as [Hin|Hin]; [inversion Hin; subst m0 k0; clear Hin;
    match type of H with context [member_arities ?m] =>
      let l := eval vm_compute in (member_arities m) in
      change (member_arities m) with l in H end;
    cbn [existsb orb] in H;
    repeat match type of H with context [Nat.eqb n ?a] =>
      let E := fresh "E" in destruct (Nat.eqb n a) eqn:E; [apply Nat.eqb_eq in E; subst n; lia |] end;
    cbn [orb] in H; discriminate H |]).
  contradiction.
Qed.

Lemma member_call_args_ok : forall c o f a0 n,
  member_call_rules c o f a0 n = [] -> member_args_ok f n = true.
Proof.
  intros c o f a0 n H. unfold member_call_rules in H. apply app_eq_nil in H. destruct H as [H1 H2].
  destruct (infer c o) as [rt|]; [| apply dyn_method_args_ok; exact H2].
  destruct (kind_of_ty rt) as [k|] eqn:Ek.
  - destruct (method_lookup (kind_table k) f) as [[[ar t] m]|] eqn:El; [| discriminate H1].
    apply app_eq_nil in H1. destruct H1 as [_ H1]. apply app_eq_nil in H1. destruct H1 as [H1 _].
    unfold marity_rule in H1. destruct (Nat.eqb n ar) eqn:E; [| discriminate H1].
    apply Nat.eqb_eq in E. subst n. exact (typed_method_args_ok k f ar t m El).
  - destruct rt; try discriminate Ek; try discriminate H1.
    apply dyn_method_args_ok. exact H2.
Qed.

(* ================= the function table seen from names ================= *)
Section Table.
Variable ft : list (Z * nat).

(* what the name-directed function scopes of StaticRules and the id-directed ones of the
   resolved tree have to do with each other: a name the rules resolve to a signature is bound,
   in the id environment, to an id whose table entry has that signature's arity *)
Definition FR (fs : list (list fsig)) (F : fenv) : Prop :=
  forall f g, lookup_fun fs f = Some g ->
  exists fid, vlookup F f = Some fid /\ WfStatic.assoc fid ft = Some (fg_arity g).

(* every (id, arity) of a piece of the program is what the table answers for that id *)
Definition TB (l : list (Z * nat)) : Prop := forall i n, In (i, n) l -> WfStatic.assoc i ft = Some n.

Lemma TB_app : forall a b, TB (a ++ b) -> TB a /\ TB b.
Proof. intros a b H. split; intros i n Hin; apply H; apply in_or_app; tauto. Qed.

Lemma FR_nil_scope : forall fs F, FR fs F -> FR fs ([] :: F).
Proof. intros fs F H f g Hl. destruct (H f g Hl) as [fid [A B]]. exists fid. split; [exact A | exact B]. Qed.

(* the first definition of a name in a block, by name (StaticRules.first_def) and by id
   (LexResolve.predecl) *)
Lemma predecl_first_def : forall b fs f,
  predecl b = Some fs ->
  match first_def f b with
  | Some n => exists fid, LexResolve.assoc f fs = Some fid /\ In (fid, n) (flat_map ftable_stmt b)
  | None => LexResolve.assoc f fs = None
  end.
Proof.
  induction b as [|s b IH]; intros fs f Hp.
  - cbn [predecl] in Hp. inversion Hp. reflexivity.
  - destruct s as [sid n ps body fid ls ll | | | | | | | | | | ];
      try (cbn [predecl first_def flat_map ftable_stmt app] in *;
           specialize (IH fs f Hp); destruct (first_def f b);
           [destruct IH as [i [A B]]; exists i; split; [exact A | try exact B; apply in_or_app; right; exact B] | exact IH]).
    cbn [predecl] in Hp. destruct fid as [i|]; [| discriminate Hp].
    destruct (predecl b) as [fs'|] eqn:Ep; [| discriminate Hp]. inversion Hp; subst fs. clear Hp.
    cbn [first_def LexResolve.assoc flat_map ftable_stmt].
    destruct (bytes_eqb n f) eqn:E.
    + exists i. split; [reflexivity|]. cbn [app]. left. reflexivity.
    + specialize (IH fs' f eq_refl). destruct (first_def f b).
      * destruct IH as [j [A B]]. exists j. split; [exact A|]. apply in_or_app. right. exact B.
      * exact IH.
Qed.

Lemma FR_enter_block : forall c b fs F,
  FR (cx_funs c) F -> predecl b = Some fs -> TB (flat_map ftable_stmt b) ->
  FR (cx_funs (enter_block c b)) (fs :: F).
Proof.
  intros c b fs F HF Hp HT f g Hl.
  cbn [enter_block with_sigs cx_funs lookup_fun] in Hl. cbn [vlookup].
  pose proof (sigs_of_first_def c b f) as Hs. pose proof (predecl_first_def b fs f Hp) as Hd.
  destruct (sig_find f (sigs_of c b)) as [g'|].
  - inversion Hl; subst g'. cbn [option_map] in Hs. rewrite <- Hs in Hd.
    destruct Hd as [fid [A B]]. exists fid. rewrite A. split; [reflexivity | apply HT; exact B].
  - cbn [option_map] in Hs. rewrite <- Hs in Hd. rewrite Hd. apply HF. exact Hl.
Qed.

(* ================= expressions: rules: user-call arity (PArgCount), built-in arity, methods ================= *)
Lemma expr_rules_wf : forall e c F,
  FR (cx_funs c) F -> check_expr c e = [] -> calls_expr F e = true -> WfStatic.wf_expr ft e = true.
Proof.
  induction e as [x | s | segs | b | | n l | op a b IHa IHb | op a IHa | es IHes | a i IHa IHi | o f IHo
                 | callee args t IHc IHargs] using expr_ind'; intros c F HF Hc Hl; try reflexivity.
  - cbn [check_expr] in Hc. apply app_eq_nil in Hc. destruct Hc as [Hc1 Hc]. apply app_eq_nil in Hc. destruct Hc as [Hc2 _].
    cbn [calls_expr] in Hl. apply andb_true_iff in Hl. destruct Hl as [Hl1 Hl2].
    cbn [WfStatic.wf_expr]. rewrite (IHa c F HF Hc1 Hl1), (IHb c F HF Hc2 Hl2). reflexivity.
  - cbn [check_expr] in Hc. apply app_eq_nil in Hc. destruct Hc as [Hc1 _].
    cbn [calls_expr] in Hl. cbn [WfStatic.wf_expr]. exact (IHa c F HF Hc1 Hl).
  - cbn [check_expr] in Hc. apply flat_map_nil in Hc. cbn [calls_expr] in Hl. cbn [WfStatic.wf_expr].
    clear - IHes HF Hc Hl. induction IHes as [|e es He _ IH]; [reflexivity|].
    inversion Hc as [|? ? Hc1 Hc2]; subst. cbn [forallb] in *. apply andb_true_iff in Hl. destruct Hl as [Hl1 Hl2].
    rewrite (He c F HF Hc1 Hl1). cbn [andb]. apply IH; assumption.
  - cbn [check_expr] in Hc. apply app_eq_nil in Hc. destruct Hc as [Hc1 Hc]. apply app_eq_nil in Hc. destruct Hc as [Hc2 _].
    cbn [calls_expr] in Hl. apply andb_true_iff in Hl. destruct Hl as [Hl1 Hl2].
    cbn [WfStatic.wf_expr]. rewrite (IHa c F HF Hc1 Hl1), (IHi c F HF Hc2 Hl2). reflexivity.
  - cbn [check_expr] in Hc. cbn [calls_expr] in Hl. cbn [WfStatic.wf_expr]. exact (IHo c F HF Hc Hl).
  - (* calls *)
    cbn [check_expr] in Hc. apply app_eq_nil in Hc. destruct Hc as [Hcal Hargs].
    apply flat_map_nil in Hargs.
    cbn [calls_expr] in Hl. apply andb_true_iff in Hl. destruct Hl as [Hlc Hla].
    assert (Wargs : forallb (WfStatic.wf_expr ft) args = true).
    { clear - IHargs HF Hargs Hla. induction IHargs as [|e es He _ IH]; [reflexivity|].
      inversion Hargs as [|? ? Hc1 Hc2]; subst. cbn [forallb] in *. apply andb_true_iff in Hla. destruct Hla as [Hl1 Hl2].
      rewrite (He c F HF Hc1 Hl1). cbn [andb]. apply IH; assumption. }
    destruct callee as [x | s | segs | b | | fn lf | op a b | op a | es | a i | o f | c2 args2 t2];
      try (cbn [WfStatic.wf_expr]; rewrite Wargs, andb_true_r; apply (IHc c F HF Hcal Hlc)).
    + (* a name: built-in or user function *)
      cbn [WfStatic.wf_expr]. rewrite Wargs. cbn [andb].
      unfold fn_call_rules in Hcal. pose proof (builtin_tables_agree fn) as Hg.
      destruct (global_lookup fn) as [[ar rt]|].
      * destruct Hg as [Har Hgb]. subst ar. apply app_eq_nil in Hcal. destruct Hcal as [Hcal _].
        unfold arity_rule in Hcal. destruct (global_builtin fn); [| congruence].
        destruct (Nat.eqb (length args) 1); [reflexivity | discriminate Hcal].
      * rewrite Hg in *. destruct (lookup_fun (cx_funs c) fn) as [g|] eqn:Elf; [| discriminate Hcal].
        unfold arity_rule in Hcal. destruct (Nat.eqb (length args) (fg_arity g)) eqn:En; [| discriminate Hcal].
        apply Nat.eqb_eq in En. destruct (HF fn g Elf) as [fid [Hv Ha]]. rewrite Hv in Hlc.
        destruct t as [ti|]; [| discriminate Hlc]. cbn [zopt_eqb] in Hlc. apply Z.eqb_eq in Hlc. subst ti.
        rewrite Ha. cbn [opt_nat_eqb]. rewrite En. apply Nat.eqb_refl.
    + (* a method *)
      cbn [WfStatic.wf_expr]. rewrite Wargs. apply app_eq_nil in Hcal. destruct Hcal as [Ho Hm].
      pose proof (IHc c F HF Ho Hlc) as Wo. cbn [WfStatic.wf_expr] in Wo. rewrite Wo. cbn [andb].
      exact (member_call_args_ok _ _ _ _ _ Hm).
Qed.

(* ================= statements: rules: comot/next placement (PBreakEscapes) + the id side ================= *)
Lemma stmt_ind' : forall P : stmt -> Prop,
  (forall sid n ps body fid ls ll, Forall P body -> P (SFun sid n ps body fid ls ll)) ->
  (forall sid n l e, P (SMake sid n l e)) ->
  (forall sid n l e, P (SSet sid n l e)) ->
  (forall sid t e, P (SSetIdx sid t e)) ->
  (forall sid c t f, Forall P t -> match f with Some fb => Forall P fb | None => True end -> P (SIf sid c t f)) ->
  (forall sid c b, Forall P b -> P (SLoop sid c b)) ->
  (forall sid b, Forall P b -> P (SBlock sid b)) ->
  (forall sid e, P (SRet sid e)) ->
  (forall sid, P (SBreak sid)) ->
  (forall sid, P (SNext sid)) ->
  (forall sid e, P (SExpr sid e)) ->
  forall s, P s.
Proof.
  intros P HFn HMk HSt HSi HIf HLp HBl HRt HBr HNx HEx.
  fix IH 1. intro s. destruct s as [sid n ps body fid ls ll | | | | sid c t f | sid c b | sid b | | | | ].
  - apply HFn. induction body as [|x body IHb]; constructor; [apply IH | exact IHb].
  - apply HMk.
  - apply HSt.
  - apply HSi.
  - apply HIf.
    + induction t as [|x t IHt]; constructor; [apply IH | exact IHt].
    + destruct f as [fb|]; [| exact I]. induction fb as [|x fb IHf]; constructor; [apply IH | exact IHf].
  - apply HLp. induction b as [|x b IHb]; constructor; [apply IH | exact IHb].
  - apply HBl. induction b as [|x b IHb]; constructor; [apply IH | exact IHb].
  - apply HRt.
  - apply HBr.
  - apply HNx.
  - apply HEx.
Qed.

Definition stmt_goal (s : stmt) : Prop :=
  forall c seen F il,
  FR (cx_funs c) F -> cx_loop c = il ->
  check_stmt c seen s = [] -> calls_stmt F s = true -> prange_stmt s = true -> idxt_stmt s = true ->
  TB (ftable_stmt s) -> wf_stmt ft il s = true.

Lemma stmts_rules_wf : forall l, Forall stmt_goal l ->
  forall c seen i F il,
  FR (cx_funs c) F -> cx_loop c = il ->
  check_stmts c seen i l = [] -> forallb (calls_stmt F) l = true -> forallb prange_stmt l = true ->
  forallb idxt_stmt l = true -> TB (flat_map ftable_stmt l) -> forallb (wf_stmt ft il) l = true.
Proof.
  intros l HP. induction HP as [|s l Hs _ IH]; intros c seen i F il HF Hil Hc Hl Hp Hx HT; [reflexivity|].
  rewrite check_stmts_cons in Hc. apply app_eq_nil in Hc. destruct Hc as [Hc1 Hc2]. apply map_eq_nil in Hc1.
  cbn [forallb flat_map] in *.
  apply andb_true_iff in Hl. destruct Hl as [Hl1 Hl2]. apply andb_true_iff in Hp. destruct Hp as [Hp1 Hp2].
  apply andb_true_iff in Hx. destruct Hx as [Hx1 Hx2]. apply TB_app in HT. destruct HT as [HT1 HT2].
  rewrite (Hs c seen F il HF Hil Hc1 Hl1 Hp1 Hx1 HT1). cbn [andb].
  destruct (after_fields c s) as [Af [Al _]].
  apply (IH (after c s) (see seen s) (S i) F il); try assumption.
  - rewrite Af. exact HF.
  - rewrite Al. exact Hil.
Qed.

Lemma block_rules_wf : forall b, Forall stmt_goal b ->
  forall c F il,
  FR (cx_funs c) F -> cx_loop c = il ->
  check_block c b = [] -> in_block calls_stmt F b = true -> forallb prange_stmt b = true ->
  forallb idxt_stmt b = true -> TB (flat_map ftable_stmt b) -> forallb (wf_stmt ft il) b = true.
Proof.
  intros b HP c F il HF Hil Hc Hl Hp Hx HT. rewrite check_block_unfold in Hc. unfold in_block in Hl.
  destruct (predecl b) as [fs|] eqn:Ep; [| discriminate Hl].
  apply (stmts_rules_wf b HP (enter_block c b) [] 0%nat (fs :: F) il); try assumption.
  apply FR_enter_block; assumption.
Qed.

Lemma stmt_rules_wf : forall s, stmt_goal s.
Proof.
  induction s as [sid n ps body fid ls ll IHb | sid n l e | sid n l e | sid tg e | sid cnd t f IHt IHf
                 | sid cnd b IHb | sid b IHb | sid eo | sid | sid | sid e] using stmt_ind';
    intros c seen F il HF Hil Hc Hl Hp Hx HT; rewrite check_stmt_unfold in Hc;
    apply app_eq_nil in Hc; destruct Hc as [Hloc Hnest]; apply map_eq_nil in Hloc.
  - (* function definition: bound id with its own arity in the table, parameter range, body outside any loop *)
    cbn [local_rules] in Hloc. apply app_eq_nil in Hloc. destruct Hloc as [_ Hdup].
    cbn [nested] in Hnest. destruct (StaticRules.mem_name n seen); [discriminate Hdup|].
    apply map_eq_nil in Hnest.
    cbn [calls_stmt] in Hl. apply andb_true_iff in Hl. destruct Hl as [Hfid Hl].
    cbn [prange_stmt] in Hp. apply andb_true_iff in Hp. destruct Hp as [Hp1 Hp2].
    cbn [idxt_stmt] in Hx. cbn [ftable_stmt] in HT. apply TB_app in HT. destruct HT as [HT1 HT2].
    cbn [wf_stmt]. rewrite Hp1.
    assert (Hb : forallb (wf_stmt ft false) body = true).
    { apply (block_rules_wf body IHb (fn_cx c ps) ([] :: F) false); try assumption; try reflexivity.
      all: cbn [fn_cx cx_funs]; apply FR_nil_scope; exact HF. }
    rewrite Hb. destruct fid as [i|]; [| discriminate Hfid].
    rewrite (HT1 i (length ps)); [| left; reflexivity]. cbn [opt_nat_eqb]. rewrite Nat.eqb_refl. reflexivity.
  - (* make *)
    cbn [local_rules] in Hloc. apply app_eq_nil in Hloc. destruct Hloc as [_ He].
    cbn [calls_stmt] in Hl. cbn [wf_stmt]. exact (expr_rules_wf e c F HF He Hl).
  - (* assignment *)
    cbn [local_rules] in Hloc. apply app_eq_nil in Hloc. destruct Hloc as [_ He].
    cbn [calls_stmt] in Hl. cbn [wf_stmt]. exact (expr_rules_wf e c F HF He Hl).
  - (* index assignment: the target shape is the parser-level hypothesis *)
    cbn [local_rules] in Hloc. apply app_eq_nil in Hloc. destruct Hloc as [Ht He].
    cbn [calls_stmt] in Hl. apply andb_true_iff in Hl. destruct Hl as [Hl1 Hl2].
    cbn [idxt_stmt] in Hx. cbn [wf_stmt].
    rewrite Hx, (expr_rules_wf tg c F HF Ht Hl1), (expr_rules_wf e c F HF He Hl2). reflexivity.
  - (* if: branches keep the loop context *)
    cbn [local_rules] in Hloc. apply app_eq_nil in Hloc. destruct Hloc as [Hcnd _].
    cbn [nested] in Hnest. apply app_eq_nil in Hnest. destruct Hnest as [Hn1 Hn2]. apply map_eq_nil in Hn1.
    cbn [calls_stmt] in Hl. apply andb_true_iff in Hl. destruct Hl as [Hl Hl3].
    apply andb_true_iff in Hl. destruct Hl as [Hl1 Hl2].
    cbn [prange_stmt] in Hp. apply andb_true_iff in Hp. destruct Hp as [Hp1 Hp2].
    cbn [idxt_stmt] in Hx. apply andb_true_iff in Hx. destruct Hx as [Hx1 Hx2].
    cbn [ftable_stmt] in HT. apply TB_app in HT. destruct HT as [HT1 HT2].
    cbn [wf_stmt]. rewrite (expr_rules_wf cnd c F HF Hcnd Hl1).
    rewrite (block_rules_wf t IHt c F il HF Hil Hn1 Hl2 Hp1 Hx1 HT1). cbn [andb].
    destruct f as [fb|]; [| reflexivity]. apply map_eq_nil in Hn2.
    exact (block_rules_wf fb IHf c F il HF Hil Hn2 Hl3 Hp2 Hx2 HT2).
  - (* loop: the body is inside a loop *)
    cbn [local_rules] in Hloc. apply app_eq_nil in Hloc. destruct Hloc as [Hcnd _].
    cbn [nested] in Hnest. apply map_eq_nil in Hnest.
    cbn [calls_stmt] in Hl. apply andb_true_iff in Hl. destruct Hl as [Hl1 Hl2].
    cbn [prange_stmt] in Hp. cbn [idxt_stmt] in Hx. cbn [ftable_stmt] in HT.
    cbn [wf_stmt]. rewrite (expr_rules_wf cnd c F HF Hcnd Hl1). cbn [andb].
    apply (block_rules_wf b IHb (loop_cx c) F true); try assumption; reflexivity || exact HF.
  - (* block *)
    cbn [nested] in Hnest. apply map_eq_nil in Hnest.
    cbn [calls_stmt] in Hl. cbn [prange_stmt] in Hp. cbn [idxt_stmt] in Hx. cbn [ftable_stmt] in HT.
    cbn [wf_stmt]. exact (block_rules_wf b IHb c F il HF Hil Hnest Hl Hp Hx HT).
  - (* return *)
    cbn [local_rules] in Hloc. apply app_eq_nil in Hloc. destruct Hloc as [_ He].
    destruct eo as [e|]; [| reflexivity].
    cbn [calls_stmt] in Hl. cbn [wf_stmt]. exact (expr_rules_wf e c F HF He Hl).
  - (* comot *)
    cbn [local_rules] in Hloc. cbn [wf_stmt]. rewrite <- Hil. destruct (cx_loop c); [reflexivity | discriminate Hloc].
  - (* next *)
    cbn [local_rules] in Hloc. cbn [wf_stmt]. rewrite <- Hil. destruct (cx_loop c); [reflexivity | discriminate Hloc].
  - (* expression statement *)
    cbn [local_rules] in Hloc. cbn [calls_stmt] in Hl. cbn [wf_stmt]. exact (expr_rules_wf e c F HF Hloc Hl).
Qed.
End Table.

(* ================= the table: unique ids make the table a function of the definitions ================= *)
Lemma memZ_In : forall x l, memZ x l = true <-> In x l.
Proof.
  intros x l. induction l as [|y l IH]; cbn [memZ In]; [split; [discriminate | tauto]|].
  rewrite orb_true_iff, IH, Z.eqb_eq. split; intros [H|H]; auto.
Qed.

Lemma nodup_table_lookup : forall t, nodupZ (map fst t) = true ->
  forall i n, In (i, n) t -> WfStatic.assoc i t = Some n.
Proof.
  induction t as [|[k v] t IH]; intros Hn i n Hin; [contradiction|].
  cbn [map fst nodupZ] in Hn. apply andb_true_iff in Hn. destruct Hn as [Hk Hn].
  cbn [WfStatic.assoc]. destruct Hin as [E|Hin].
  - inversion E; subst. rewrite Z.eqb_refl. reflexivity.
  - destruct (k =? i) eqn:E; [| apply IH; assumption].
    apply Z.eqb_eq in E. subst k. apply negb_true_iff in Hk.
    assert (memZ i (map fst t) = true) by (apply memZ_In; apply (in_map fst t (i, n)); exact Hin).
    congruence.
Qed.

(* ================= the theorem ================= *)
Theorem rules_accept_implies_wf_static : forall p,
  check p = [] -> ids_consistent p = true -> idx_targets p = true -> wf_static p = true.
Proof.
  intros p Hc Hi Hx. unfold ids_consistent in Hi.
  apply andb_true_iff in Hi. destruct Hi as [Hi Hr]. apply andb_true_iff in Hi. destruct Hi as [Hl Hu].
  unfold wf_static, wf_block.
  apply (block_rules_wf (ftable p) p) with (c := cx0) (F := []).
  - apply Forall_forall. intros s _. apply stmt_rules_wf.
  - intros f g H. discriminate H.
  - reflexivity.
  - exact Hc.
  - exact Hl.
  - exact Hr.
  - exact Hx.
  - intros i n Hin. apply nodup_table_lookup; [exact Hu | exact Hin].
Qed.
