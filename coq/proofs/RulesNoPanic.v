(* RulesNoPanic — C06 round 2, the results in the form stated by Properties/C06.v:
   composition of proofs/RulesImplyWf.v (static rules + id consistency => wf_static) with
   proofs/LangNoPanic.v (wf_static => no panic at the structural sites), and the link from
   C04's binding relation LexResolve.lexical to RulesWf.ids_consistent. *)
From Coq Require Import ZArith List Bool Arith Lia.
Require Import NS.theories.F64 NS.theories.Lang NS.theories.StaticRules NS.theories.WfStatic.
Require Import NS.theories.LexResolve NS.theories.RulesWf.
Require Import NS.proofs.StaticRulesProofs NS.proofs.RulesImplyWf NS.proofs.LangNoPanic.
Import ListNotations.
Open Scope Z_scope.

Lemma accepted_by_rules_never_panics_structural : forall p,
  check p = [] -> ids_consistent p = true -> idx_targets p = true ->
  forall plan eps fuel s,
  ending_of (run_impl plan eps fuel p) = Panicked s ->
  s <> PArgCount /\ s <> PBuiltinArity /\ s <> PArgIndex /\ s <> PBreakEscapes /\
  s <> PIdxAssignEnd /\ s <> PParamRange.
Proof.
  intros p Hc Hi Hx. apply wf_static_never_panics_structural.
  apply rules_accept_implies_wf_static; assumption.
Qed.

(* ================= LexResolve.lexical implies ids_consistent ================= *)
(* unfolding LexResolve.chk_stmt: its local `blk` is chk_block *)
Lemma chk_stmt_fun : forall top G F sid n ps body fid ls ll,
  chk_stmt top G F (SFun sid n ps body fid ls ll) =
  if (match fid, F with Some f, fs :: _ => zopt_eqb (LexResolve.assoc n fs) (Some f) | _, _ => false end)
     && nodup_names ps && (Z.of_nat (length ps) <=? ll)
     && chk_block (param_scope ps ls 0 [] :: top :: G) ([] :: F) body
  then Some top else None.
Proof. reflexivity. Qed.
Lemma chk_stmt_if : forall top G F sid c t f,
  chk_stmt top G F (SIf sid c t f) =
  if chk_expr (top :: G) F c && chk_block (top :: G) F t
     && match f with Some fb => chk_block (top :: G) F fb | None => true end
  then Some top else None.
Proof. reflexivity. Qed.
Lemma chk_stmt_loop : forall top G F sid c b,
  chk_stmt top G F (SLoop sid c b) =
  if chk_expr (top :: G) F c && chk_block (top :: G) F b then Some top else None.
Proof. reflexivity. Qed.
Lemma chk_stmt_block : forall top G F sid b,
  chk_stmt top G F (SBlock sid b) = if chk_block (top :: G) F b then Some top else None.
Proof. reflexivity. Qed.

Lemma chk_expr_calls : forall e G F, chk_expr G F e = true -> calls_expr F e = true.
Proof.
  induction e as [x | s | segs | b | | n l | op a b IHa IHb | op a IHa | es IHes | a i IHa IHi | o f IHo
                 | callee args t IHc IHargs] using expr_ind'; intros G F H; try reflexivity.
  - cbn [chk_expr] in H. apply andb_true_iff in H. destruct H as [H1 H2].
    cbn [calls_expr]. rewrite (IHa G F H1), (IHb G F H2). reflexivity.
  - cbn [chk_expr] in H. cbn [calls_expr]. exact (IHa G F H).
  - cbn [chk_expr] in H. cbn [calls_expr]. induction IHes as [|e es He _ IH]; [reflexivity|].
    cbn [forallb] in *. apply andb_true_iff in H. destruct H as [H1 H2]. rewrite (He G F H1). cbn [andb]. exact (IH H2).
  - cbn [chk_expr] in H. apply andb_true_iff in H. destruct H as [H1 H2].
    cbn [calls_expr]. rewrite (IHa G F H1), (IHi G F H2). reflexivity.
  - cbn [chk_expr] in H. cbn [calls_expr]. exact (IHo G F H).
  - cbn [chk_expr] in H. apply andb_true_iff in H. destruct H as [H1 H2]. cbn [calls_expr].
    assert (A : forallb (calls_expr F) args = true).
    { clear - IHargs H2. induction IHargs as [|e es He _ IH]; [reflexivity|].
      cbn [forallb] in *. apply andb_true_iff in H2. destruct H2 as [Ha Hb]. rewrite (He G F Ha). cbn [andb]. exact (IH Hb). }
    rewrite A, andb_true_r.
    destruct callee; try exact (IHc G F H1). exact H1.
Qed.

Definition lex_goal (t : stmt) : Prop :=
  forall top G F top', chk_stmt top G F t = Some top' -> calls_stmt F t = true /\ prange_stmt t = true.

Lemma chk_stmts_calls : forall l, Forall lex_goal l ->
  forall G F top, chk_stmts G F l top = true ->
  forallb (calls_stmt F) l = true /\ forallb prange_stmt l = true.
Proof.
  intros l HP. induction HP as [|t l Ht _ IH]; intros G F top H; [split; reflexivity|].
  cbn [chk_stmts] in H. destruct (chk_stmt top G F t) as [top'|] eqn:E; [| discriminate H].
  destruct (Ht top G F top' E) as [A B]. destruct (IH G F top' H) as [C D].
  cbn [forallb]. rewrite A, B, C, D. split; reflexivity.
Qed.

Lemma chk_block_calls : forall b, Forall lex_goal b ->
  forall G F, chk_block G F b = true -> in_block calls_stmt F b = true /\ forallb prange_stmt b = true.
Proof.
  intros b HP G F H. unfold chk_block in H. unfold in_block.
  destruct (predecl b) as [fs|]; [| discriminate H].
  apply andb_true_iff in H. destruct H as [_ H]. exact (chk_stmts_calls b HP G (fs :: F) [] H).
Qed.

Lemma chk_stmt_calls : forall t, lex_goal t.
Proof.
  induction t as [sid n ps body fid ls ll IHb | sid n l e | sid n l e | sid tg e | sid cnd t f IHt IHf
                 | sid cnd b IHb | sid b IHb | sid eo | sid | sid | sid e] using stmt_ind';
    intros top G F top' H.
  - rewrite chk_stmt_fun in H.
    match type of H with (if ?c then _ else _) = _ => destruct c eqn:E; [| discriminate H] end.
    apply andb_true_iff in E. destruct E as [E E4]. apply andb_true_iff in E. destruct E as [E E3].
    apply andb_true_iff in E. destruct E as [E1 _].
    destruct (chk_block_calls body IHb _ _ E4) as [A B].
    cbn [calls_stmt prange_stmt]. rewrite A, B, E3. destruct fid; [split; reflexivity | discriminate E1].
  - cbn [chk_stmt] in H. destruct (chk_expr (top :: G) F e) eqn:E; [| discriminate H].
    cbn [calls_stmt prange_stmt]. split; [exact (chk_expr_calls e _ _ E) | reflexivity].
  - cbn [chk_stmt] in H. destruct (chk_var (top :: G) n l && chk_expr (top :: G) F e) eqn:E; [| discriminate H].
    apply andb_true_iff in E. destruct E as [_ E].
    cbn [calls_stmt prange_stmt]. split; [exact (chk_expr_calls e _ _ E) | reflexivity].
  - cbn [chk_stmt] in H. destruct (chk_expr (top :: G) F tg && chk_expr (top :: G) F e) eqn:E; [| discriminate H].
    apply andb_true_iff in E. destruct E as [E1 E2].
    cbn [calls_stmt prange_stmt]. rewrite (chk_expr_calls tg _ _ E1), (chk_expr_calls e _ _ E2). split; reflexivity.
  - rewrite chk_stmt_if in H.
    match type of H with (if ?c then _ else _) = _ => destruct c eqn:E; [| discriminate H] end.
    apply andb_true_iff in E. destruct E as [E E3]. apply andb_true_iff in E. destruct E as [E1 E2].
    destruct (chk_block_calls t IHt _ _ E2) as [A B].
    cbn [calls_stmt prange_stmt]. rewrite (chk_expr_calls cnd _ _ E1), A, B. cbn [andb].
    destruct f as [fb|]; [| split; reflexivity].
    destruct (chk_block_calls fb IHf _ _ E3) as [C D]. rewrite C, D. split; reflexivity.
  - rewrite chk_stmt_loop in H.
    match type of H with (if ?c then _ else _) = _ => destruct c eqn:E; [| discriminate H] end.
    apply andb_true_iff in E. destruct E as [E1 E2].
    destruct (chk_block_calls b IHb _ _ E2) as [A B].
    cbn [calls_stmt prange_stmt]. rewrite (chk_expr_calls cnd _ _ E1), A, B. split; reflexivity.
  - rewrite chk_stmt_block in H. destruct (chk_block (top :: G) F b) eqn:E; [| discriminate H].
    destruct (chk_block_calls b IHb _ _ E) as [A B]. cbn [calls_stmt prange_stmt]. rewrite A, B. split; reflexivity.
  - destruct eo as [e|]; cbn [chk_stmt] in H; cbn [calls_stmt prange_stmt]; [| split; reflexivity].
    destruct (chk_expr (top :: G) F e) eqn:E; [| discriminate H]. split; [exact (chk_expr_calls e _ _ E) | reflexivity].
  - split; reflexivity.
  - split; reflexivity.
  - cbn [chk_stmt] in H. destruct (chk_expr (top :: G) F e) eqn:E; [| discriminate H].
    cbn [calls_stmt prange_stmt]. split; [exact (chk_expr_calls e _ _ E) | reflexivity].
Qed.

(* the ids of the function table are LexResolve's function ids, in the same order *)
Lemma ftable_fids_stmt : forall t, map fst (ftable_stmt t) = fids_stmt t.
Proof.
  assert (L : forall b, Forall (fun t => map fst (ftable_stmt t) = fids_stmt t) b ->
              map fst (flat_map ftable_stmt b)
              = (fix go (ts : list stmt) : list Z := match ts with [] => [] | t' :: r => fids_stmt t' ++ go r end) b).
  { intros b H. induction H as [|t b Ht _ IH]; [reflexivity|]. cbn [flat_map]. rewrite map_app, Ht, IH. reflexivity. }
  induction t as [sid n ps body fid ls ll IHb | sid n l e | sid n l e | sid tg e | sid cnd t f IHt IHf
                 | sid cnd b IHb | sid b IHb | sid eo | sid | sid | sid e] using stmt_ind'; try reflexivity.
  - cbn [ftable_stmt fids_stmt]. rewrite map_app, (L body IHb). destruct fid; reflexivity.
  - cbn [ftable_stmt fids_stmt]. rewrite map_app, (L t IHt). destruct f as [fb|]; [rewrite (L fb IHf)|]; reflexivity.
  - cbn [ftable_stmt fids_stmt]. exact (L b IHb).
  - cbn [ftable_stmt fids_stmt]. exact (L b IHb).
Qed.
Lemma ftable_fids : forall p, map fst (ftable p) = fids_block p.
Proof.
  induction p as [|t p IH]; [reflexivity|]. unfold ftable in *. cbn [flat_map fids_block].
  rewrite map_app, ftable_fids_stmt, IH. reflexivity.
Qed.

Lemma lexical_implies_ids_consistent : forall p, lexical p = true -> ids_consistent p = true.
Proof.
  intros p H. unfold lexical in H. apply andb_true_iff in H. destruct H as [Hc Hi].
  unfold ids_ok in Hi. apply andb_true_iff in Hi. destruct Hi as [_ Hf].
  assert (HP : Forall lex_goal p) by (apply Forall_forall; intros t _; apply chk_stmt_calls).
  destruct (chk_block_calls p HP [] [] Hc) as [A B].
  unfold ids_consistent, calls_lexical, fids_unique, params_in_range. rewrite A, B, ftable_fids, Hf. reflexivity.
Qed.

Lemma accepted_by_rules_lexical_never_panics_structural : forall p,
  check p = [] -> lexical p = true -> idx_targets p = true ->
  forall plan eps fuel s,
  ending_of (run_impl plan eps fuel p) = Panicked s ->
  s <> PArgCount /\ s <> PBuiltinArity /\ s <> PArgIndex /\ s <> PBreakEscapes /\
  s <> PIdxAssignEnd /\ s <> PParamRange.
Proof.
  intros p Hc Hl Hx. apply accepted_by_rules_never_panics_structural; try assumption.
  apply lexical_implies_ids_consistent. exact Hl.
Qed.
