(* RulesScoped — C06 round 2, the scoping half in the direction that is true.

   WfScoped.wf_scoped is about IDS; StaticRules' "declared before use" is about NAMES; what
   joins them is C04's binding relation LexResolve.lexical ("every occurrence carries the id of
   the declaration its name denotes lexically").  For programs WITHOUT user-defined functions
   (LexResolve.nofn) and run WITHOUT a plan, lexical alone implies wf_scoped: the static part of
   wf_scoped is then exactly "every occurrence's id was declared by a `make` textually before
   it in an enclosing block", and the "no early call" part is vacuous.  With user functions the
   implication is FALSE (C06_refuted_without_wf_scoped is lexical and accepted by the rules), and
   with a plan it depends on what the plan removes (C06_wf_scoped_is_plan_aware). *)
From Coq Require Import ZArith List Bool Arith Lia.
Require Import NS.theories.F64 NS.theories.Lang NS.theories.StaticRules NS.theories.WfStatic NS.theories.WfScoped.
Require Import NS.theories.LexResolve NS.theories.RulesWf.
Require Import NS.proofs.StaticRulesProofs NS.proofs.RulesImplyWf NS.proofs.RulesNoPanic.
Require Import NS.proofs.LangNoPanic NS.proofs.LangScoped.
Import ListNotations.
Open Scope Z_scope.

(* every id the name environment can answer with is in the id set *)
Definition VI (V : venv) (Gz : list Z) : Prop := forall n i, vlookup V n = Some i -> zmem i Gz = true.
Definition NoF (Fe : fenv) : Prop := forall f, vlookup Fe f = None.

Lemma zmem_cons : forall i j l, zmem i l = true -> zmem i (j :: l) = true.
Proof. intros i j l H. unfold zmem in *. cbn [existsb]. rewrite H. apply orb_true_r. Qed.
Lemma zmem_head : forall i l, zmem i (i :: l) = true.
Proof. intros i l. unfold zmem. cbn [existsb]. rewrite Z.eqb_refl. reflexivity. Qed.

Lemma VI_nil_scope : forall V Gz, VI V Gz -> VI ([] :: V) Gz.
Proof. intros V Gz H n i E. apply (H n i). exact E. Qed.
Lemma NoF_nil_scope : forall Fe, NoF Fe -> NoF ([] :: Fe).
Proof. intros Fe H f. exact (H f). Qed.

Lemma chk_var_ok : forall V Gz n l, VI V Gz -> chk_var V n l = true -> var_ok Gz l = true.
Proof.
  intros V Gz n l HV H. unfold chk_var in H. destruct (vlookup V n) as [i|] eqn:E; [| discriminate H].
  destruct l as [j|]; [| discriminate H]. cbn [zopt_eqb] in H. apply Z.eqb_eq in H. subst j.
  cbn [var_ok]. exact (HV n i E).
Qed.

Section NoPlan.
Variable T : ftab.

Lemma expr_scoped : forall e V Fe Gz Fz,
  VI V Gz -> NoF Fe -> chk_expr V Fe e = true -> sc_expr T Gz Fz e = true.
Proof.
  induction e as [x | s | segs | b | | n l | op a b IHa IHb | op a IHa | es IHes | a i IHa IHi | o f IHo
                 | callee args t IHc IHargs] using expr_ind'; intros V Fe Gz Fz HV HF H; try reflexivity.
  - cbn [chk_expr] in H. cbn [sc_expr]. induction segs as [|g segs IH]; [reflexivity|].
    cbn [forallb] in *. apply andb_true_iff in H. destruct H as [H1 H2]. rewrite (IH H2), andb_true_r.
    destruct g as [s|n l]; [reflexivity|]. cbn [chk_seg] in H1. cbn [seg_ok]. exact (chk_var_ok V Gz n l HV H1).
  - cbn [chk_expr] in H. cbn [sc_expr]. exact (chk_var_ok V Gz n l HV H).
  - cbn [chk_expr] in H. apply andb_true_iff in H. destruct H as [H1 H2].
    cbn [sc_expr]. rewrite (IHa V Fe Gz Fz HV HF H1), (IHb V Fe Gz Fz HV HF H2). reflexivity.
  - cbn [chk_expr] in H. cbn [sc_expr]. exact (IHa V Fe Gz Fz HV HF H).
  - cbn [chk_expr] in H. cbn [sc_expr]. induction IHes as [|e es He _ IH]; [reflexivity|].
    cbn [forallb] in *. apply andb_true_iff in H. destruct H as [H1 H2].
    rewrite (He V Fe Gz Fz HV HF H1). cbn [andb]. exact (IH H2).
  - cbn [chk_expr] in H. apply andb_true_iff in H. destruct H as [H1 H2].
    cbn [sc_expr]. rewrite (IHa V Fe Gz Fz HV HF H1), (IHi V Fe Gz Fz HV HF H2). reflexivity.
  - cbn [chk_expr] in H. cbn [sc_expr]. exact (IHo V Fe Gz Fz HV HF H).
  - cbn [chk_expr] in H. apply andb_true_iff in H. destruct H as [H1 H2].
    assert (A : forallb (sc_expr T Gz Fz) args = true).
    { clear - IHargs H2 HV HF. induction IHargs as [|e es He _ IH]; [reflexivity|].
      cbn [forallb] in *. apply andb_true_iff in H2. destruct H2 as [Ha Hb].
      rewrite (He V Fe Gz Fz HV HF Ha). cbn [andb]. exact (IH Hb). }
    destruct callee as [x | s | segs | b | | fn lf | op a b | op a | es | a i | o f | c2 args2 t2];
      try (cbn [sc_expr]; rewrite A, andb_true_r; exact (IHc V Fe Gz Fz HV HF H1)).
    cbn [sc_expr]. rewrite A. cbn [andb]. destruct (global_builtin fn); [reflexivity|].
    rewrite (HF fn) in H1. discriminate H1.
Qed.

Lemma nofn_predecl : forall b, nofn b = true -> predecl b = Some [] /\ block_fns None b = [].
Proof.
  induction b as [|t b IH]; intro H; [split; reflexivity|].
  cbn [nofn] in H. apply andb_true_iff in H. destruct H as [Ht Hb]. destruct (IH Hb) as [A B].
  unfold block_fns in *. destruct t; try discriminate Ht; cbn [predecl flat_map app]; rewrite A, B; split; reflexivity.
Qed.

Definition sc_goal (t : stmt) : Prop :=
  forall top G Fe top' Gz Fz,
  VI (top :: G) Gz -> NoF Fe -> nofn_stmt t = true -> chk_stmt top G Fe t = Some top' ->
  sc_stmt None T Gz Fz t = true /\ VI (top' :: G) (decl_run None t ++ Gz).

Lemma stmts_scoped : forall l, Forall sc_goal l ->
  forall G Fe top Gz Fz, VI (top :: G) Gz -> NoF Fe -> nofn l = true -> chk_stmts G Fe l top = true ->
  sc_stmts_with None (sc_stmt None T) Gz Fz l = true.
Proof.
  intros l HP. induction HP as [|t l Ht _ IH]; intros G Fe top Gz Fz HV HF Hn H; [reflexivity|].
  cbn [nofn] in Hn. apply andb_true_iff in Hn. destruct Hn as [Hn1 Hn2].
  cbn [chk_stmts] in H. destruct (chk_stmt top G Fe t) as [top'|] eqn:E; [| discriminate H].
  destruct (Ht top G Fe top' Gz Fz HV HF Hn1 E) as [A B].
  cbn [sc_stmts_with]. unfold skipped. cbn [in_plan_stmt andb]. rewrite A. cbn [andb].
  exact (IH G Fe top' _ Fz B HF Hn2 H).
Qed.

Lemma block_scoped : forall b, Forall sc_goal b ->
  forall V Fe Gz Fz, VI V Gz -> NoF Fe -> nofn b = true -> chk_block V Fe b = true ->
  sc_stmts_with None (sc_stmt None T) Gz (block_fns None b ++ Fz) b = true.
Proof.
  intros b HP V Fe Gz Fz HV HF Hn H. destruct (nofn_predecl b Hn) as [A B]. rewrite B. cbn [app].
  unfold chk_block in H. rewrite A in H. apply andb_true_iff in H. destruct H as [_ H].
  apply (stmts_scoped b HP V ([] :: Fe) [] Gz Fz); try assumption;
    first [apply VI_nil_scope; exact HV | apply NoF_nil_scope; exact HF].
Qed.

Lemma nofn_loop : forall sid c b, nofn_stmt (SLoop sid c b) = nofn b. Proof. reflexivity. Qed.
Lemma nofn_block : forall sid b, nofn_stmt (SBlock sid b) = nofn b. Proof. reflexivity. Qed.
Lemma nofn_if : forall sid c t f,
  nofn_stmt (SIf sid c t f) = nofn t && match f with Some fb => nofn fb | None => true end.
Proof. reflexivity. Qed.

Lemma stmt_scoped : forall t, sc_goal t.
Proof.
  induction t as [sid n ps body fid ls ll IHb | sid n l e | sid n l e | sid tg e | sid cnd t f IHt IHf
                 | sid cnd b IHb | sid b IHb | sid eo | sid | sid | sid e] using stmt_ind';
    intros top G Fe top' Gz Fz HV HF Hn H.
  - discriminate Hn.
  - cbn [chk_stmt] in H. destruct (chk_expr (top :: G) Fe e) eqn:E; [| discriminate H].
    pose proof (expr_scoped e _ _ Gz Fz HV HF E) as A. cbn [sc_stmt]. rewrite A.
    unfold decl_run, skipped. cbn [in_plan_stmt].
    destruct (LexResolve.assoc n top) as [i|] eqn:Ea.
    + destruct (zopt_eqb l (Some i)) eqn:El; [| discriminate H]. inversion H; subst top'.
      destruct l as [j|]; [| discriminate El]. split; [reflexivity|]. cbn [decl_of app].
      intros m k Hk. apply zmem_cons. exact (HV m k Hk).
    + destruct l as [j|]; [| discriminate H]. inversion H; subst top'. split; [reflexivity|]. cbn [decl_of app].
      intros m k Hk. cbn [vlookup LexResolve.assoc] in Hk. destruct (bytes_eqb n m).
      * inversion Hk; subst. apply zmem_head.
      * apply zmem_cons. apply (HV m k). cbn [vlookup]. exact Hk.
  - cbn [chk_stmt] in H. destruct (chk_var (top :: G) n l && chk_expr (top :: G) Fe e) eqn:E; [| discriminate H].
    inversion H; subst top'. apply andb_true_iff in E. destruct E as [E1 E2].
    cbn [sc_stmt]. rewrite (chk_var_ok _ Gz n l HV E1), (expr_scoped e _ _ Gz Fz HV HF E2). split; [reflexivity | exact HV].
  - cbn [chk_stmt] in H. destruct (chk_expr (top :: G) Fe tg && chk_expr (top :: G) Fe e) eqn:E; [| discriminate H].
    inversion H; subst top'. apply andb_true_iff in E. destruct E as [E1 E2].
    cbn [sc_stmt]. rewrite (expr_scoped tg _ _ Gz Fz HV HF E1), (expr_scoped e _ _ Gz Fz HV HF E2). split; [reflexivity | exact HV].
  - rewrite chk_stmt_if in H. rewrite nofn_if in Hn. apply andb_true_iff in Hn. destruct Hn as [Hn1 Hn2].
    match type of H with (if ?c then _ else _) = _ => destruct c eqn:E; [| discriminate H] end.
    inversion H; subst top'. apply andb_true_iff in E. destruct E as [E E3]. apply andb_true_iff in E. destruct E as [E1 E2].
    cbn [sc_stmt]. rewrite (expr_scoped cnd _ _ Gz Fz HV HF E1), (block_scoped t IHt _ _ Gz Fz HV HF Hn1 E2). cbn [andb].
    split; [| exact HV]. destruct f as [fb|]; [| reflexivity]. exact (block_scoped fb IHf _ _ Gz Fz HV HF Hn2 E3).
  - rewrite chk_stmt_loop in H. rewrite nofn_loop in Hn.
    match type of H with (if ?c then _ else _) = _ => destruct c eqn:E; [| discriminate H] end.
    inversion H; subst top'. apply andb_true_iff in E. destruct E as [E1 E2].
    cbn [sc_stmt]. rewrite (expr_scoped cnd _ _ Gz Fz HV HF E1), (block_scoped b IHb _ _ Gz Fz HV HF Hn E2).
    split; [reflexivity | exact HV].
  - rewrite chk_stmt_block in H. rewrite nofn_block in Hn.
    destruct (chk_block (top :: G) Fe b) eqn:E; [| discriminate H]. inversion H; subst top'.
    cbn [sc_stmt]. rewrite (block_scoped b IHb _ _ Gz Fz HV HF Hn E). split; [reflexivity | exact HV].
  - destruct eo as [e|]; cbn [chk_stmt] in H.
    + destruct (chk_expr (top :: G) Fe e) eqn:E; [| discriminate H]. inversion H; subst top'.
      cbn [sc_stmt]. rewrite (expr_scoped e _ _ Gz Fz HV HF E). split; [reflexivity | exact HV].
    + inversion H; subst top'. split; [reflexivity | exact HV].
  - cbn [chk_stmt] in H. inversion H; subst top'. split; [reflexivity | exact HV].
  - cbn [chk_stmt] in H. inversion H; subst top'. split; [reflexivity | exact HV].
  - cbn [chk_stmt] in H. destruct (chk_expr (top :: G) Fe e) eqn:E; [| discriminate H]. inversion H; subst top'.
    cbn [sc_stmt]. rewrite (expr_scoped e _ _ Gz Fz HV HF E). split; [reflexivity | exact HV].
Qed.
End NoPlan.

Lemma lexical_nofn_wf_scoped : forall p, lexical p = true -> nofn p = true -> wf_scoped None p = true.
Proof.
  intros p Hl Hn. unfold lexical in Hl. apply andb_true_iff in Hl. destruct Hl as [Hc _].
  unfold wf_scoped, wf_scoped_with, sc_block.
  apply (block_scoped (collect None p) p) with (V := []) (Fe := []).
  - apply Forall_forall. intros t _. apply stmt_scoped.
  - intros n i E. discriminate E.
  - intros f. reflexivity.
  - exact Hn.
  - exact Hc.
Qed.

(* function-free programs: accepted by the static rules + lexical ids + parser shape => the run
   without a plan never ends in a Panicked ending, whatever eps and fuel *)
Lemma function_free_accepted_never_panics : forall p,
  check p = [] -> lexical p = true -> idx_targets p = true -> nofn p = true ->
  forall eps fuel s, ending_of (run_impl None eps fuel p) <> Panicked s.
Proof.
  intros p Hc Hl Hx Hn. apply accepted_never_panics_partial.
  - apply rules_accept_implies_wf_static; [exact Hc | apply lexical_implies_ids_consistent; exact Hl | exact Hx].
  - apply lexical_nofn_wf_scoped; assumption.
Qed.
