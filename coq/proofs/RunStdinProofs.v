(* Runs that consume standard input, one after another in one process (C14 with C17's model).
   The only state read_line carries from one call to the next — and therefore from one run to
   the next: src/sys/unix.rs PENDING is process-global and `init` does not touch it — is the
   input not yet consumed.  So a later run reads exactly what a fresh process reads whose
   standard input is the remainder of the text after the lines the earlier runs took. *)
From Coq Require Import ZArith List Bool Lia.
Require Import NS.theories.GenReadLine NS.theories.ReadLine NS.proofs.ReadLineProofs.
Import ListNotations.
Open Scope Z_scope.

(* what is left of the input after k calls of read_line *)
Fixpoint remainder (k : nat) (t : list Z) : list Z :=
  match k with O => t | S k' => remainder k' (after_line t) end.

Lemma expected_app t k1 : forall k2,
  expected t (k1 + k2) = expected t k1 ++ expected (remainder k1 t) k2.
Proof.
  revert t. induction k1 as [|k1 IH]; intros t k2.
  - cbn [plus remainder]. destruct k2; reflexivity.
  - cbn [plus remainder]. rewrite !expected_S, IH. reflexivity.
Qed.

Lemma expected_length t k : length (expected t k) = k.
Proof.
  revert t. induction k as [|k IH]; intros t; [reflexivity|].
  rewrite expected_S. cbn [length]. rewrite IH. reflexivity.
Qed.

(* Two runs in one process calling read_line k1 and then k2 times, the input delivered in any
   pieces: the second run gets what a fresh process gets on the remainder, delivered in any
   other pieces. *)
Lemma later_run_reads_the_remainder_lemma text sched sched' k1 k2 :
  option_map (fun r => skipn k1 (map fst r)) (run text sched (k1 + k2)) =
  option_map (map fst) (run (remainder k1 text) sched' k2).
Proof.
  pose proof (read_line_successive_lemma text sched (k1 + k2)) as H1.
  pose proof (read_line_successive_lemma (remainder k1 text) sched' k2) as H2.
  destruct (run text sched (k1 + k2)) as [r|]; [|discriminate].
  destruct (run (remainder k1 text) sched' k2) as [r'|]; [|discriminate].
  cbn [option_map] in *. inversion H1 as [E1]. inversion H2 as [E2].
  rewrite E1, E2, expected_app. f_equal.
  rewrite <- (expected_length text k1) at 1. rewrite skipn_app, skipn_all, Nat.sub_diag. reflexivity.
Qed.

(* ... and the first run is not affected by there being a second one *)
Lemma earlier_run_unaffected_lemma text sched sched' k1 k2 :
  option_map (fun r => firstn k1 (map fst r)) (run text sched (k1 + k2)) =
  option_map (map fst) (run text sched' k1).
Proof.
  pose proof (read_line_successive_lemma text sched (k1 + k2)) as H1.
  pose proof (read_line_successive_lemma text sched' k1) as H2.
  destruct (run text sched (k1 + k2)) as [r|]; [|discriminate].
  destruct (run text sched' k1) as [r'|]; [|discriminate].
  cbn [option_map] in *. inversion H1 as [E1]. inversion H2 as [E2].
  rewrite E1, E2, expected_app. f_equal.
  rewrite <- (expected_length text k1) at 1. rewrite firstn_app, firstn_all, Nat.sub_diag. cbn [firstn].
  apply app_nil_r.
Qed.
