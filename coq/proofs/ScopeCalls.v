(* ScopeCalls — C04 stages S3/S4: the state relation between the implementation's dynamic scope
   stack and the reference interpreter's (static chain, frame heap) in the presence of calls,
   recursion and closures, and the proof that it satisfies the laws of SimKit.

   Every live scope of the stack has a frame (ghost list phi, GV: same names and values).  The
   static chain of the running code selects a subsequence of the stack (Emb): a selected scope
   is an instance of a lexical level (LevelOK: its slots are declarations of that block or
   parameter list, in order; its frame's parent is the rest of the chain; its functions are the
   block's); a scope that is NOT selected ("hidden": an inner block of a caller, another
   activation) contains no id of any level further out on the chain — the "most-recent
   property": the innermost instance of a block on the stack is the one the static chain
   designates.  Hence innermost-first id-directed search finds the designated slot whenever
   that slot exists. *)
From Coq Require Import ZArith List Bool Lia Permutation.
Require Import NS.theories.F64 NS.theories.StrLib NS.theories.Lang NS.theories.Spec NS.theories.LexResolve.
Require Import NS.proofs.LangUnfold NS.proofs.SpecUnfold NS.proofs.SimBase NS.proofs.SimKit NS.proofs.ScopeProofs.
Import ListNotations.
Open Scope Z_scope.

Definition slot_nv (sl : slot) : name * value := (s_name sl, s_val sl).
Definition idsh (g : scope) : list (option Z * name) := map (fun '(n, i) => (Some i, n)) g.

Lemma ScopeRel_intro g : forall e,
  scope_shape e = idsh g -> ScopeRel g e (rev (map slot_nv e)).
Proof.
  induction g as [|[n i] g IH]; intros e He.
  - destruct e; [constructor|discriminate].
  - destruct e as [|sl e]; [discriminate|]. cbn in He. inversion He.
    destruct sl as [sid sn sv]. cbn in *. subst. cbn [map rev slot_nv s_name s_val].
    constructor. apply IH. assumption.
Qed.

Lemma ScopeRel_slots g e sl : ScopeRel g e sl -> sl = rev (map slot_nv e).
Proof. induction 1; cbn; [reflexivity|]. rewrite IHScopeRel. reflexivity. Qed.

Lemma scope_ids_idsh g : map fst (idsh g) = map (@Some Z) (scope_ids g).
Proof. induction g as [|[n i] g IH]; cbn; [reflexivity|]. f_equal. exact IH. Qed.

Lemma suffix_names_nodup (x g : scope) : NoDup (scope_names (x ++ g)) -> NoDup (scope_names g).
Proof. unfold scope_names. rewrite map_app. apply NoDup_app_r. Qed.
Lemma suffix_ids_nodup (x g : scope) : NoDup (scope_ids (x ++ g)) -> NoDup (scope_ids g).
Proof. unfold scope_ids. rewrite map_app. apply NoDup_app_r. Qed.
Lemma suffix_ids_incl (x g : scope) : incl (scope_ids g) (scope_ids (x ++ g)).
Proof. unfold scope_ids. rewrite map_app. apply incl_appr, incl_refl. Qed.

Lemma assoc_in n i g : NoDup (scope_names g) -> In (n, i) g -> assoc n g = Some i.
Proof.
  induction g as [|[m j] r IH]; cbn; intros Hnd Hin; [tauto|]. inversion Hnd; subst.
  destruct Hin as [E|Hin].
  - inversion E; subst. rewrite bytes_eqb_refl. reflexivity.
  - destruct (bytes_eqb m n) eqn:Em; [|auto]. apply bytes_eqb_eq in Em. subst m.
    exfalso. apply H1. change n with (fst (n, i)). apply in_map. exact Hin.
Qed.

Lemma assoc_some_pair n i g : assoc n g = Some i -> In (n, i) g.
Proof.
  induction g as [|[m j] r IH]; cbn; [discriminate|].
  destruct (bytes_eqb m n) eqn:Em; intros H.
  - inversion H; subst. apply bytes_eqb_eq in Em. subst. auto.
  - auto.
Qed.

(* the same name in two suffixes of one declaration list denotes the same id *)
Lemma suffix_assoc_agree (sig x y g d : scope) n i :
  NoDup (scope_names sig) -> sig = x ++ g -> sig = y ++ d ->
  assoc n g = Some i -> In n (scope_names d) -> assoc n d = Some i.
Proof.
  intros Hnd Hg Hd Ha Hin.
  assert (Hnd' : NoDup (scope_names d)) by (rewrite Hd in Hnd; eapply suffix_names_nodup; eauto).
  apply in_map_iff in Hin. destruct Hin as ([m j] & Em & Hin). cbn in Em. subst m.
  assert (H1 : In (n, i) sig) by (rewrite Hg; apply in_or_app; right; apply assoc_some_pair; exact Ha).
  assert (H2 : In (n, j) sig) by (rewrite Hd; apply in_or_app; right; exact Hin).
  pose proof (assoc_in _ _ _ Hnd H1) as A1. pose proof (assoc_in _ _ _ Hnd H2) as A2.
  assert (i = j) by congruence. subst j. apply assoc_in; assumption.
Qed.

(* ---------- functions of a block: the checker's, the runtime's and the reference's view ---------- *)
Fixpoint seen_after (seen : list name) (ts : list stmt) : list name :=
  match ts with
  | [] => seen
  | SMake _ n _ _ :: r => seen_after (add_name n seen) r
  | _ :: r => seen_after seen r
  end.

Lemma bc_none b fid : forall fs f seen acc,
  predecl b = Some fs -> assoc f fs = None ->
  find_closure f (block_closures b fid seen acc) = find_closure f acc.
Proof.
  induction b as [|t r IH]; intros fs f seen acc Hp Ha; [reflexivity|].
  destruct t; cbn [predecl block_closures] in *; try (eapply IH; eauto; fail).
  destruct fid0 as [x|]; [|discriminate]. destruct (predecl r) as [fs'|] eqn:Er; [|discriminate].
  inversion Hp; subst. cbn [assoc] in Ha. destruct (bytes_eqb n f) eqn:En; [discriminate|].
  rewrite (IH fs' f seen _ eq_refl Ha). cbn [find_closure c_name]. rewrite En. reflexivity.
Qed.

Lemma bc_some b fid : forall fs f id seen acc,
  predecl b = Some fs -> NoDup (scope_names fs) -> assoc f fs = Some id ->
  exists pre sid ps body ls ll post,
    b = pre ++ SFun sid f ps body (Some id) ls ll :: post /\
    find_closure f (block_closures b fid seen acc) =
      Some {| c_name := f; c_params := ps; c_body := body; c_frame := fid; c_vis := seen_after seen pre |}.
Proof.
  induction b as [|t r IH]; intros fs f id seen acc Hp Hnd Ha; [inversion Hp; subst; discriminate|].
  assert (Hdef : forall seen', predecl (t :: r) = predecl r ->
            block_closures (t :: r) fid seen acc = block_closures r fid seen' acc ->
            seen_after seen [t] = seen' ->
            exists pre sid ps body ls ll post,
              t :: r = pre ++ SFun sid f ps body (Some id) ls ll :: post /\
              find_closure f (block_closures (t :: r) fid seen acc) =
                Some {| c_name := f; c_params := ps; c_body := body; c_frame := fid; c_vis := seen_after seen pre |}).
  { intros seen' E1 E2 E3. rewrite E1 in Hp.
    destruct (IH fs f id seen' acc Hp Hnd Ha) as (pre & sid & ps & body & ls & ll & post & Eb & Ef).
    exists (t :: pre), sid, ps, body, ls, ll, post. split; [rewrite Eb; reflexivity|].
    rewrite E2, Ef. f_equal. f_equal. rewrite <- E3. destruct t; reflexivity. }
  destruct t; try (apply (Hdef seen); reflexivity).
  - (* SFun *)
    cbn [predecl block_closures] in *.
    destruct fid0 as [x|]; [|discriminate]. destruct (predecl r) as [fs'|] eqn:Er; [|discriminate].
    inversion Hp; subst. cbn [assoc] in Ha. cbn in Hnd. inversion Hnd; subst.
    destruct (bytes_eqb n f) eqn:En.
    + inversion Ha; subst. apply bytes_eqb_eq in En. subst n.
      exists [], sid, ps, body, lstart, llen, r. split; [reflexivity|].
      rewrite (bc_none r fid fs' f seen _ Er (notin_assoc_none _ _ H1)).
      cbn [find_closure c_name]. rewrite bytes_eqb_refl. reflexivity.
    + destruct (IH fs' f id seen ({| c_name := n; c_params := ps; c_body := body; c_frame := fid; c_vis := seen |} :: acc)
                eq_refl H2 Ha) as (pre & sid' & ps' & body' & ls' & ll' & post & Eb & Ef).
      exists (SFun sid n ps body (Some x) lstart llen :: pre), sid', ps', body', ls', ll', post.
      split; [rewrite Eb; reflexivity|]. exact Ef.
  - (* SMake *) apply (Hdef (add_name n seen)); reflexivity.
Qed.

Definition all_make_ids (ts : list stmt) : Prop :=
  Forall (fun t => match t with SMake _ _ None _ => False | _ => True end) ts.

Lemma chk_stmt_decl top G F t top' :
  chk_stmt top G F t = Some top' -> top' = decls_after top [t] /\ all_make_ids [t].
Proof.
  intros Hc. pose proof (chk_stmt_top _ _ _ _ _ Hc) as Ht.
  destruct t; try (subst top'; split; [reflexivity|repeat constructor]).
  cbn [chk_stmt] in Hc. destruct (chk_expr (top :: G) F e); [|discriminate].
  cbn [decls_after]. destruct (assoc n top) as [i'|] eqn:Ea.
  - destruct (zopt_eqb l (Some i')) eqn:El; [|discriminate]. inversion Hc; subst.
    destruct l as [x|]; [|discriminate]. split; [reflexivity|repeat constructor].
  - destruct l as [x|]; [|discriminate]. inversion Hc; subst. split; [reflexivity|repeat constructor].
Qed.

Lemma decls_after_cat a : forall top b, decls_after top (a ++ b) = decls_after (decls_after top a) b.
Proof.
  induction a as [|t r IH]; intros top b; [reflexivity|].
  destruct t; cbn [app decls_after]; try apply IH.
  destruct l; [|apply IH]. destruct (assoc n top); apply IH.
Qed.

Lemma chk_stmts_split G F pre : forall top t post,
  chk_stmts G F (pre ++ t :: post) top = true ->
  all_make_ids pre /\ exists top', chk_stmt (decls_after top pre) G F t = Some top'.
Proof.
  induction pre as [|p r IH]; intros top t post Hc.
  - cbn [app chk_stmts] in Hc. destruct (chk_stmt top G F t) as [top'|] eqn:E; [|discriminate].
    split; [constructor|]. exists top'. exact E.
  - cbn [app chk_stmts] in Hc. fold (chk_stmts G F) in Hc.
    destruct (chk_stmt top G F p) as [top1|] eqn:E; [|discriminate].
    destruct (chk_stmt_decl _ _ _ _ _ E) as [-> Ha]. destruct (IH _ _ _ Hc) as [Hb Hc'].
    split.
    + constructor; [inversion Ha; assumption|exact Hb].
    + change (p :: r) with ([p] ++ r). rewrite decls_after_cat. exact Hc'.
Qed.

Lemma mem_name_app n a b : mem_name n (a ++ b) = mem_name n a || mem_name n b.
Proof. unfold mem_name. apply existsb_app. Qed.

Lemma seen_decls pre : forall seen top,
  all_make_ids pre -> seen_ok seen top -> seen_ok (seen_after seen pre) (decls_after top pre).
Proof.
  induction pre as [|t r IH]; intros seen top Ha Hs; [exact Hs|].
  inversion Ha; subst.
  destruct t; cbn [seen_after decls_after]; try (apply IH; assumption).
  destruct l as [i|]; [|contradiction].
  assert (Hs' : forall m, mem_name m (add_name n seen) =
            match assoc m (match assoc n top with Some _ => top | None => (n, i) :: top end) with
            | Some _ => true | None => false end).
  { intros m. unfold add_name. rewrite (Hs n). destruct (assoc n top) eqn:Ea; [apply Hs|].
    rewrite mem_name_app, (Hs m). cbn [assoc]. unfold mem_name at 1. cbn [existsb].
    rewrite (bytes_eqb_sym m n). destruct (bytes_eqb n m) eqn:E.
    - destruct (assoc m top); reflexivity.
    - destruct (assoc m top); reflexivity. }
  destruct (assoc n top) eqn:Ea; apply IH; assumption.
Qed.

Lemma nodup_names_NoDup l : nodup_names l = true -> NoDup l.
Proof.
  induction l as [|x r IH]; cbn; intros H; [constructor|].
  apply andb_true_iff in H. destruct H as [H1 H2]. constructor; [|auto].
  intros Hin. assert (mem_name x r = true).
  { unfold mem_name. apply existsb_exists. exists x. split; [exact Hin|apply bytes_eqb_refl]. }
  rewrite H in H1. discriminate.
Qed.

Lemma param_scope_ids ps ls : forall k acc,
  scope_ids (param_scope ps ls k acc) = rev (seqZ (ls + k) (length ps)) ++ scope_ids acc.
Proof.
  induction ps as [|p r IH]; intros k acc; [reflexivity|].
  cbn [param_scope length seqZ rev]. rewrite IH. cbn [scope_ids map snd].
  rewrite <- app_assoc. cbn [app]. replace (ls + (k + 1)) with (ls + k + 1) by lia. reflexivity.
Qed.

Lemma param_scope_names ps ls : forall k acc,
  scope_names (param_scope ps ls k acc) = rev ps ++ scope_names acc.
Proof.
  induction ps as [|p r IH]; intros k acc; [reflexivity|].
  cbn [param_scope rev]. rewrite IH. cbn [scope_names map fst]. rewrite <- app_assoc. reflexivity.
Qed.

Lemma slot_set_none p v sl : ~ In p (map fst sl) -> slot_set p v sl = None.
Proof.
  induction sl as [|[m w] r IH]; cbn; intros H; [reflexivity|].
  destruct (bytes_eqb m p) eqn:E; [apply bytes_eqb_eq in E; tauto|]. rewrite IH by tauto. reflexivity.
Qed.

Lemma bind_params_rel fid ls ps : forall vs k acc accg,
  length vs = length ps -> NoDup ps -> (forall p, In p ps -> ~ In p (map s_name acc)) ->
  scope_shape acc = idsh accg ->
  scope_shape (bind_params (Some fid) ls ps vs k acc) = idsh (param_scope ps ls k accg) /\
  sbindp ps vs (rev (map slot_nv acc)) = rev (map slot_nv (bind_params (Some fid) ls ps vs k acc)).
Proof.
  induction ps as [|p r IH]; intros vs k acc accg Hl Hnd Hfr Hsh.
  - destruct vs; [|discriminate]. cbn. auto.
  - destruct vs as [|v vs]; [discriminate|]. cbn [bind_params param_scope sbindp].
    inversion Hnd; subst.
    rewrite slot_set_none.
    + specialize (IH vs (k + 1) ({| s_id := Some (ls + k); s_name := p; s_val := v |} :: acc) ((p, ls + k) :: accg)).
      cbn [map slot_nv rev s_name s_val] in IH. apply IH.
      * cbn in Hl. lia.
      * assumption.
      * intros q Hq [Hc|Hc]; [subst; tauto|]. eapply Hfr; [right; exact Hq|exact Hc].
      * cbn. unfold slot_shape. cbn. f_equal. exact Hsh.
    + rewrite map_rev, map_map. cbn. intros Hin. apply in_rev in Hin. eapply Hfr; [left; reflexivity|exact Hin].
Qed.

Lemma lookup_fn_id id n : forall fs fd0,
  In fd0 (concat fs) -> f_id fd0 = Some id ->
  exists fd, lookup_fn (Some id) n fs = Some fd /\ f_id fd = Some id /\ In fd (concat fs).
Proof.
  assert (Hsc : forall sc, (exists fd, find_fn_scope (Some id) n sc = Some fd /\ f_id fd = Some id /\ In fd sc) \/
                           (find_fn_scope (Some id) n sc = None /\ forall fd, In fd sc -> f_id fd <> Some id)).
  { induction sc as [|x r IH]; [right; split; [reflexivity|intros ? []]|].
    cbn [find_fn_scope]. unfold fdef_matches, opt_eqb. destruct (f_id x) as [y|] eqn:Ex.
    - destruct (y =? id) eqn:E.
      + left. apply Z.eqb_eq in E. subst. exists x. cbn. auto.
      + destruct IH as [(fd & A & B & C)|[A B]]; [left; exists fd; cbn; auto|right].
        split; [exact A|]. intros fd [<-|Hin]; [|auto]. rewrite Ex. intros H. inversion H. subst. rewrite Z.eqb_refl in E. discriminate.
    - destruct IH as [(fd & A & B & C)|[A B]]; [left; exists fd; cbn; auto|right].
      split; [exact A|]. intros fd [<-|Hin]; [congruence|auto]. }
  induction fs as [|sc r IH]; intros fd0 Hin Hid; [destruct Hin|].
  cbn [lookup_fn concat]. destruct (Hsc sc) as [(fd & A & B & C)|[A B]].
  - rewrite A. exists fd. split; [reflexivity|]. split; [exact B|]. apply in_or_app. left. exact C.
  - rewrite A. cbn [concat] in Hin. apply in_app_or in Hin. destruct Hin as [Hin|Hin]; [exfalso; eapply B; eauto|].
    destruct (IH fd0 Hin Hid) as (fd & A' & B' & C'). exists fd. split; [exact A'|]. split; [exact B'|].
    apply in_or_app. right. exact C'.
Qed.

Lemma hoisted_has b pre sid f ps body fid ls ll post :
  b = pre ++ SFun sid f ps body fid ls ll :: post -> In (fdef_of f ps body fid ls ll) (hoisted b []).
Proof.
  intros ->. rewrite hoisted_rev, app_nil_r. apply in_rev. rewrite rev_involutive.
  induction pre as [|t r IH]; cbn [app block_fns]; [left; reflexivity|].
  destruct t; cbn [block_fns]; auto. right. exact IH.
Qed.

Lemma fn_table_has b pre sid f ps body fid ls ll post :
  b = pre ++ SFun sid f ps body fid ls ll :: post ->
  In (fdef_of f ps body fid ls ll) (fn_table b) /\ incl (fn_table body) (fn_table b).
Proof.
  intros ->. unfold fn_table. rewrite flat_map_app. cbn [flat_map fn_table_stmt]. split.
  - apply in_or_app. right. left. reflexivity.
  - intros x Hx. apply in_or_app. right. right. apply in_or_app. left. exact Hx.
Qed.

Lemma ids_of_fun b pre sid f ps body fid ls ll post (X : list Z) :
  b = pre ++ SFun sid f ps body fid ls ll :: post ->
  NoDup (flat_map ids_stmt b ++ X) -> NoDup (seqZ ls (length ps) ++ ids_block body ++ X).
Proof.
  intros -> H. rewrite flat_map_app in H. cbn [flat_map] in H.
  change (ids_stmt (SFun sid f ps body fid ls ll)) with (seqZ ls (length ps) ++ ids_block body) in H.
  rewrite <- app_assoc in H. apply NoDup_app_r in H. rewrite <- !app_assoc in H.
  rewrite app_assoc in H. rewrite app_assoc. eapply NoDup_app_mid with (b := flat_map ids_stmt post).
  rewrite <- !app_assoc in *. exact H.
Qed.

Section S4.
Variable T : list fdef.
Hypothesis T_fun : forall fd1 fd2 fid,
  In fd1 T -> In fd2 T -> f_id fd1 = Some fid -> f_id fd2 = Some fid -> fd1 = fd2.

(* every live scope has a frame with the same names and values *)
Definition GV (phi : list nat) (es : list (list slot)) (h : heap) : Prop :=
  Forall2 (fun e fid => exists fr, nth_error h fid = Some fr /\ fr_slots fr = rev (map slot_nv e)) es phi.

Inductive lsrc := LBlock (b : list stmt) | LParam.

(* scope `she` (shape), function scope f, frame fid are an instance of level lv whose lexical
   context is (ctail, ktail) *)
Definition LevelOK (h : heap) (lv : level) (vis : option (list name)) (she : list (option Z * name))
  (f : list fdef) (fid : nat) (ctail : chain) (ktail : ctx) : Prop :=
  exists (d : scope) (fr : frame) (src : lsrc),
    she = idsh d /\
    (exists x, lv_sig lv = x ++ d) /\ (exists y, lv_sig lv = y ++ lv_g lv) /\
    NoDup (scope_names (lv_sig lv)) /\
    match vis with
    | None => d = lv_g lv
    | Some ns => forall n, mem_name n ns = match assoc n (lv_g lv) with Some _ => true | None => false end
    end /\
    nth_error h fid = Some fr /\ fr_parent fr = ctail /\
    match src with
    | LBlock b =>
        f = hoisted b [] /\ fr_fns fr = block_closures b fid [] [] /\ predecl b = Some (lv_f lv) /\
        lv_sig lv = decls_after [] b /\ chk_block (cv ktail) (cf ktail) b = true /\
        NoDup (flat_map ids_stmt b ++ sig_ids (lv :: ktail)) /\ incl (fn_table b) T
    | LParam => f = [] /\ fr_fns fr = [] /\ lv_f lv = [] /\ vis = None
    end.

(* the static chain selects a subsequence of the stack; hidden scopes have no id of any level
   further out *)
Inductive Emb (h : heap) : ctx -> chain -> list (list (option Z * name)) -> list (list fdef) -> list nat -> Prop :=
| Emb_nil sh fs phi : Emb h [] [] sh fs phi
| Emb_skip k c she sh f fs fid phi :
    Emb h k c sh fs phi ->
    (forall i, In (Some i) (map fst she) -> ~ In i (sig_ids k)) ->
    Emb h k c (she :: sh) (f :: fs) (fid :: phi)
| Emb_take lv k vis c she sh f fs fid phi :
    Emb h k c sh fs phi ->
    LevelOK h lv vis she f fid c k ->
    Emb h (lv :: k) ((fid, vis) :: c) (she :: sh) (f :: fs) (fid :: phi).

(* the running code's own level is the top scope and sees all of it *)
Inductive EmbT (h : heap) : ctx -> chain -> list (list (option Z * name)) -> list (list fdef) -> list nat -> Prop :=
| ET_nil sh fs phi : EmbT h [] [] sh fs phi
| ET_take lv k c she sh f fs fid phi :
    Emb h k c sh fs phi ->
    LevelOK h lv None she f fid c k ->
    EmbT h (lv :: k) ((fid, None) :: c) (she :: sh) (f :: fs) (fid :: phi).

Lemma EmbT_Emb h k c sh fs phi : EmbT h k c sh fs phi -> Emb h k c sh fs phi.
Proof. intros H. inversion H; subst; [apply Emb_nil|apply Emb_take; auto]. Qed.

Lemma LevelOK_hext h h' lv vis she f fid c k :
  hext h h' -> LevelOK h lv vis she f fid c k -> LevelOK h' lv vis she f fid c k.
Proof.
  intros [_ Hx] (d & fr & src & A & B & C & D & E & F & G & H).
  destruct (Hx _ _ F) as (fr' & F' & Hf & Hp).
  exists d, fr', src. refine (conj A (conj B (conj C (conj D (conj E (conj F' (conj _ _))))))).
  - congruence.
  - destruct src; rewrite Hf; exact H.
Qed.

Lemma Emb_hext h h' k c sh fs phi : hext h h' -> Emb h k c sh fs phi -> Emb h' k c sh fs phi.
Proof.
  intros Hx. induction 1; [apply Emb_nil|apply Emb_skip; auto|apply Emb_take; eauto using LevelOK_hext].
Qed.

Lemma EmbT_hext h h' k c sh fs phi : hext h h' -> EmbT h k c sh fs phi -> EmbT h' k c sh fs phi.
Proof.
  intros Hx H. inversion H; subst; constructor; eauto using Emb_hext, LevelOK_hext.
Qed.

(* the visible ids of a context are among its declared ids *)
Lemma emb_gids h k c sh fs phi :
  Emb h k c sh fs phi -> incl (flat_map scope_ids (cv k)) (sig_ids k).
Proof.
  induction 1 as [| |lv k vis c she sh f fs fid phi _ IH HL]; auto; [apply incl_refl|].
  destruct HL as (d & fr & src & _ & _ & (y & Hy) & _).
  cbn [cv map flat_map]. unfold sig_ids. cbn [flat_map]. apply incl_app.
  - apply incl_appl. rewrite Hy. apply suffix_ids_incl.
  - apply incl_appr. exact IH.
Qed.

Lemma find_slot_notin i n e :
  ~ In (Some i) (map fst (scope_shape e)) ->
  find_slot (Some i) n e = None /\ forall v, set_slot (Some i) n v e = None.
Proof.
  induction e as [|sl e IH]; intros Hn; [cbn; auto|]. cbn in Hn. cbn [find_slot set_slot].
  assert (Hm : slot_matches (Some i) n sl = false).
  { unfold slot_matches, opt_eqb. destruct (s_id sl) as [x|] eqn:E; [|reflexivity].
    apply Z.eqb_neq. intros ->. apply Hn. left. reflexivity. }
  destruct IH as [A B]; [tauto|]. rewrite Hm. split; [exact A|]. intros v. rewrite B. reflexivity.
Qed.

(* what one selected level gives: its scope and frame are ScopeRel-related through d *)
Lemma level_scope h lv vis e f fid c k :
  LevelOK h lv vis (scope_shape e) f fid c k -> NoDup (sig_ids (lv :: k)) ->
  (exists fr0, nth_error h fid = Some fr0 /\ fr_slots fr0 = rev (map slot_nv e)) ->
  exists d fr x y,
    nth_error h fid = Some fr /\ ScopeRel d e (fr_slots fr) /\
    lv_sig lv = x ++ d /\ lv_sig lv = y ++ lv_g lv /\
    NoDup (scope_names (lv_sig lv)) /\ NoDup (scope_ids (lv_sig lv)) /\
    NoDup (scope_names d) /\ NoDup (scope_ids d) /\
    match vis with
    | None => d = lv_g lv
    | Some ns => forall n, mem_name n ns = match assoc n (lv_g lv) with Some _ => true | None => false end
    end.
Proof.
  intros (d & fr & src & A & (x & B) & (y & C) & D & E & F & _) Hnd (fr0 & F0 & S0).
  assert (fr0 = fr) by congruence. subst fr0.
  assert (Hni : NoDup (scope_ids (lv_sig lv))).
  { unfold sig_ids in Hnd. cbn [flat_map] in Hnd. eapply NoDup_app_l; eauto. }
  exists d, fr, x, y. refine (conj F (conj _ (conj B (conj C (conj D (conj Hni (conj _ (conj _ E)))))))).
  - rewrite S0. apply ScopeRel_intro. exact A.
  - rewrite B in D. eapply suffix_names_nodup; eauto.
  - rewrite B in Hni. eapply suffix_ids_nodup; eauto.
Qed.

Lemma read_var_skip h n fid vis c fr :
  nth_error h fid = Some fr ->
  match vis with
  | None => slot_lookup n (fr_slots fr) = None
  | Some ns => mem_name n ns = false
  end ->
  read_var h n ((fid, vis) :: c) = read_var h n c.
Proof.
  intros Hn Hv. unfold read_var. cbn [resolve_var]. rewrite Hn.
  destruct vis as [ns|]; rewrite Hv; reflexivity.
Qed.

Lemma write_var_skip h n fid vis c fr v :
  nth_error h fid = Some fr ->
  match vis with
  | None => slot_lookup n (fr_slots fr) = None
  | Some ns => mem_name n ns = false
  end ->
  write_var h n ((fid, vis) :: c) v = write_var h n c v.
Proof.
  intros Hn Hv. unfold write_var. cbn [resolve_var]. rewrite Hn.
  destruct vis as [ns|]; rewrite Hv; reflexivity.
Qed.

Lemma emb_read h k c sh fs phi :
  Emb h k c sh fs phi -> forall es, sh = env_shape es -> GV phi es h -> NoDup (sig_ids k) ->
  forall n i v, vlookup (cv k) n = Some i -> read_var h n c = sret v ->
  lookup_env (Some i) n es = Some v.
Proof.
  induction 1 as [sh fs phi|k c she sh f fs fid phi HE IH Hskip|lv k vis c she sh f fs fid phi HE IH HL];
    intros es Hsh Hgv Hnd n i v Hl Hr.
  - discriminate.
  - destruct es as [|e es]; [discriminate|]. cbn in Hsh. inversion Hsh; subst. inversion Hgv; subst.
    cbn [lookup_env].
    destruct (find_slot_notin i n e) as [A _].
    { intros Hin. apply (Hskip i Hin). apply (emb_gids _ _ _ _ _ _ HE). eapply vlookup_in; eauto. }
    rewrite A. eapply IH; eauto.
  - destruct es as [|e es]; [discriminate|]. cbn in Hsh. inversion Hsh; subst. inversion Hgv; subst.
    destruct (level_scope _ _ _ _ _ _ _ _ HL Hnd H2) as (d & fr & x & y & Hn & Hs & Hx & Hy & Dn & Di & Dnd & Did & Hvis).
    assert (Hnd' : NoDup (sig_ids k)) by (unfold sig_ids in Hnd; cbn [flat_map] in Hnd; eapply NoDup_app_r; eauto).
    cbn [cv map vlookup] in Hl. cbn [lookup_env].
    destruct (assoc n (lv_g lv)) as [i0|] eqn:Ea.
    + inversion Hl; subst i0.
      assert (Hfound : forall v', slot_lookup n (fr_slots fr) = Some v' -> find_slot (Some i) n e = Some v').
      { intros v' Hv'. destruct (assoc n d) as [j|] eqn:Ead.
        - assert (j = i).
          { assert (A : assoc n d = Some i).
            { eapply (suffix_assoc_agree (lv_sig lv) y x (lv_g lv) d); eauto. eapply assoc_some_in; eauto. }
            congruence. }
          subst j. destruct (sr_found _ _ _ _ _ Hs Dnd Did Ead) as (v'' & A & B). congruence.
        - destruct (sr_name_none _ _ _ _ Hs Ead) as [A _]. congruence. }
      unfold read_var in Hr. cbn [resolve_var] in Hr. rewrite Hn in Hr.
      destruct vis as [ns|].
      * rewrite (Hvis n), Ea in Hr.
        destruct (slot_lookup n (fr_slots fr)) as [v'|] eqn:Esl; [|discriminate].
        rewrite Hn, Esl in Hr. apply sret_inj in Hr. subst v'. rewrite (Hfound _ eq_refl). reflexivity.
      * destruct (slot_lookup n (fr_slots fr)) as [v'|] eqn:Esl.
        -- rewrite Hn, Esl in Hr. apply sret_inj in Hr. subst v'. rewrite (Hfound _ eq_refl). reflexivity.
        -- subst d. destruct (sr_found _ _ _ _ _ Hs Dnd Did Ea) as (v'' & _ & B). congruence.
    + assert (Hi : ~ In i (scope_ids d)).
      { intros Hin. apply (suffix_ids_incl x d) in Hin. rewrite <- Hx in Hin.
        unfold sig_ids in Hnd. cbn [flat_map] in Hnd.
        eapply (NoDup_app_disj _ _ i Hnd); [|exact Hin].
        apply (emb_gids _ _ _ _ _ _ HE). eapply vlookup_in; eauto. }
      destruct (sr_id_none _ _ _ n i Hs Hi) as [A _]. rewrite A.
      eapply IH; eauto.
      rewrite <- Hr. symmetry. eapply read_var_skip; eauto.
      destruct vis as [ns|]; [rewrite (Hvis n), Ea; reflexivity|].
      subst d. eapply sr_name_none; eauto.
Qed.

Lemma GV_other phi es h h' :
  GV phi es h -> (forall q, In q phi -> nth_error h' q = nth_error h q) -> GV phi es h'.
Proof.
  induction 1 as [|e fid es phi (fr & A & B) _ IH]; intros Hq; constructor.
  - exists fr. rewrite Hq by (left; reflexivity). auto.
  - apply IH. intros q Hin. apply Hq. right. exact Hin.
Qed.

Lemma level_assoc_d (sig x y g d : scope) e sl n i v' :
  ScopeRel d e sl -> NoDup (scope_names sig) -> sig = x ++ d -> sig = y ++ g ->
  assoc n g = Some i -> slot_lookup n sl = Some v' -> assoc n d = Some i.
Proof.
  intros Hs Dn Hx Hy Ea Hv. destruct (assoc n d) as [j|] eqn:Ead.
  - f_equal. assert (A : assoc n d = Some i).
    { eapply (suffix_assoc_agree sig y x g d); eauto. eapply assoc_some_in; eauto. }
    congruence.
  - destruct (sr_name_none _ _ _ _ Hs Ead) as [A _]. congruence.
Qed.

Lemma emb_write h k c sh fs phi :
  Emb h k c sh fs phi -> forall es, sh = env_shape es -> GV phi es h -> NoDup phi -> NoDup (sig_ids k) ->
  forall n i v h', vlookup (cv k) n = Some i -> write_var h n c v = sret h' ->
  exists es', assign_env (Some i) n v es = Some es' /\ env_shape es' = env_shape es /\
    GV phi es' h' /\ (forall q, ~ In q phi -> nth_error h' q = nth_error h q).
Proof.
  induction 1 as [sh fs phi|k c she sh f fs fid phi HE IH Hskip|lv k vis c she sh f fs fid phi HE IH HL];
    intros es Hsh Hgv Hph Hnd n i v h' Hl Hw.
  - discriminate.
  - destruct es as [|e es]; [discriminate|]. cbn in Hsh. inversion Hsh; subst. inversion Hgv as [|? ? ? ? Hg1 Hg2]; subst.
    inversion Hph as [|? ? Hp1 Hp2]; subst.
    destruct (find_slot_notin i n e) as [_ A].
    { intros Hin. apply (Hskip i Hin). apply (emb_gids _ _ _ _ _ _ HE). eapply vlookup_in; eauto. }
    destruct (IH es eq_refl Hg2 Hp2 Hnd n i v h' Hl Hw) as (es' & B & C & D & E).
    exists (e :: es'). cbn [assign_env]. rewrite A, B. split; [reflexivity|]. split; [cbn; f_equal; exact C|].
    split.
    + constructor; [|exact D]. destruct Hg1 as (fr & F1 & F2). exists fr. rewrite E by assumption. auto.
    + intros q Hq. apply E. intros Hin. apply Hq. right. exact Hin.
  - destruct es as [|e es]; [discriminate|]. cbn in Hsh. inversion Hsh; subst. inversion Hgv as [|? ? ? ? Hg1 Hg2]; subst.
    inversion Hph as [|? ? Hp1 Hp2]; subst.
    destruct (level_scope _ _ _ _ _ _ _ _ HL Hnd Hg1) as (d & fr & x & y & Hn & Hs & Hx & Hy & Dn & Di & Dnd & Did & Hvis).
    assert (Hnd' : NoDup (sig_ids k)) by (unfold sig_ids in Hnd; cbn [flat_map] in Hnd; eapply NoDup_app_r; eauto).
    cbn [cv map vlookup] in Hl. cbn [assign_env].
    destruct (assoc n (lv_g lv)) as [i0|] eqn:Ea.
    + inversion Hl; subst i0.
      assert (Ead : assoc n d = Some i).
      { unfold write_var in Hw. cbn [resolve_var] in Hw. rewrite Hn in Hw.
        destruct vis as [ns|]; [rewrite (Hvis n), Ea in Hw|].
        - destruct (slot_lookup n (fr_slots fr)) as [v'|] eqn:Esl; [|discriminate].
          eapply (level_assoc_d (lv_sig lv) x y (lv_g lv) d); eauto.
        - subst d. exact Ea. }
      destruct (sr_set _ _ _ _ _ v Hs Dnd Did Ead) as (e' & fs' & A & B & C).
      destruct (sr_found _ _ _ _ _ Hs Dnd Did Ead) as (v0 & _ & B0).
      assert (Hh' : h' = set_nth_frame h fid {| fr_slots := fs'; fr_fns := fr_fns fr; fr_parent := fr_parent fr |}).
      { unfold write_var in Hw. cbn [resolve_var] in Hw. rewrite Hn in Hw.
        destruct vis as [ns|]; [rewrite (Hvis n), Ea in Hw|]; rewrite B0, Hn, B in Hw;
          apply sret_inj in Hw; congruence. }
      assert (Hlt : (fid < length h)%nat) by (apply nth_error_Some; congruence).
      exists (e' :: es). rewrite A. split; [reflexivity|].
      split; [cbn; f_equal; rewrite (sr_shape _ _ _ C), (sr_shape _ _ _ Hs); reflexivity|].
      subst h'. split.
      * constructor.
        -- eexists. rewrite nth_set_nth_frame_eq by exact Hlt. split; [reflexivity|]. cbn.
           eapply ScopeRel_slots; eauto.
        -- eapply GV_other; [exact Hg2|]. intros q Hq. apply nth_set_nth_frame_neq. intros ->. tauto.
      * intros q Hq. apply nth_set_nth_frame_neq. intros ->. apply Hq. left. reflexivity.
    + assert (Hi : ~ In i (scope_ids d)).
      { intros Hin. apply (suffix_ids_incl x d) in Hin. rewrite <- Hx in Hin.
        unfold sig_ids in Hnd. cbn [flat_map] in Hnd.
        eapply (NoDup_app_disj _ _ i Hnd); [|exact Hin].
        apply (emb_gids _ _ _ _ _ _ HE). eapply vlookup_in; eauto. }
      destruct (sr_id_none _ _ _ n i Hs Hi) as [_ A]. rewrite A.
      assert (Hw' : write_var h n c v = sret h').
      { rewrite <- Hw. symmetry. eapply write_var_skip; eauto.
        destruct vis as [ns|]; [rewrite (Hvis n), Ea; reflexivity|].
        subst d. eapply sr_name_none; eauto. }
      destruct (IH es eq_refl Hg2 Hp2 Hnd' n i v h' Hl Hw') as (es' & B & C & D & E).
      exists (e :: es'). rewrite B. split; [reflexivity|]. split; [cbn; f_equal; exact C|]. split.
      * constructor; [|exact D]. destruct Hg1 as (fr0 & F1 & F2). exists fr0. rewrite E by assumption. auto.
      * intros q Hq. apply E. intros Hin. apply Hq. right. exact Hin.
Qed.

(* ---------- the state relation ---------- *)
Definition R4 (phi : list nat) (k : ctx) (s : st) (c : chain) (h : heap) : Prop :=
  exists es fs, env s = es ++ [[]] /\ fns s = fs ++ [[]] /\
    GV phi es h /\ NoDup phi /\ EmbT h k c (env_shape es) fs phi /\
    NoDup (sig_ids k) /\ Forall (Forall (fun fd => In fd T)) fs.

Definition gpush4 (phi : list nat) (fid : nat) : list nat := fid :: phi.

Lemma K4_read : forall g k s c h n i v,
  R4 g k s c h -> vlookup (cv k) n = Some i -> read_var h n c = sret v ->
  lookup_env (Some i) n (env s) = Some v.
Proof.
  intros g k s c h n i v (es & fs & He & Hf & Hgv & Hph & HE & Hnd & HT) Hl Hr.
  rewrite He, lookup_env_app_nil. eapply emb_read; eauto using EmbT_Emb.
Qed.

Lemma K4_write : forall g k s c h n i v h',
  R4 g k s c h -> vlookup (cv k) n = Some i -> write_var h n c v = sret h' ->
  exists e', assign_env (Some i) n v (env s) = Some e' /\ R4 g k (with_env e' s) c h'.
Proof.
  intros g k s c h n i v h' (es & fs & He & Hf & Hgv & Hph & HE & Hnd & HT) Hl Hw.
  destruct (emb_write _ _ _ _ _ _ (EmbT_Emb _ _ _ _ _ _ HE) es eq_refl Hgv Hph Hnd n i v h' Hl Hw)
    as (es' & A & B & C & D).
  exists (es' ++ [[]]). rewrite He, assign_env_app_nil, A. split; [reflexivity|].
  exists es', fs. cbn [with_env env fns]. refine (conj eq_refl (conj Hf (conj C (conj Hph (conj _ (conj Hnd HT)))))).
  rewrite B. eapply EmbT_hext; [eapply write_var_hext; eauto|exact HE].
Qed.

Lemma sig_ids_set_g lv g k : sig_ids (set_g lv g :: k) = sig_ids (lv :: k).
Proof. reflexivity. Qed.

Lemma declare_frame h fid fr n v sl :
  nth_error h fid = Some fr ->
  match slot_set n v (fr_slots fr) with Some sl' => sl' | None => fr_slots fr ++ [(n, v)] end = sl ->
  declare_var h fid n v =
  sret (set_nth_frame h fid {| fr_slots := sl; fr_fns := fr_fns fr; fr_parent := fr_parent fr |}).
Proof. intros Hn Hs. unfold declare_var. rewrite Hn, Hs. reflexivity. Qed.

(* a `make` in the running code's own scope *)
Lemma K4_decl_gen g lv k s c h n i v h' (gnew : scope) :
  R4 g (lv :: k) s c h ->
  declare_var h (cur_of c) n v = sret h' ->
  (assoc n (lv_g lv) = Some i /\ gnew = lv_g lv \/
   assoc n (lv_g lv) = None /\ gnew = (n, i) :: lv_g lv /\ (exists r, decls_after gnew r = lv_sig lv)) ->
  R4 g (set_g lv gnew :: k) (with_env (define_env (Some i) n v (env s)) s) c h'.
Proof.
  intros (es & fs & He & Hf & Hgv & Hph & HE & Hnd & HT) Hd Hcase.
  inversion HE as [|lv' k' c' she sh f fs' fid phi' HEm HL]; subst.
  destruct es as [|e es']; [discriminate|]. cbn in H2. inversion H2; subst. clear H2.
  inversion Hgv as [|? ? ? ? Hg1 Hg2]; subst. inversion Hph as [|? ? Hp1 Hp2]; subst.
  destruct (level_scope _ _ _ _ _ _ _ _ HL Hnd Hg1) as (d & fr & x & y & Hn & Hs & Hx & Hy & Dn & Di & Dnd & Did & Hvis).
  subst d. cbn [cur_of] in Hd.
  assert (Hlt : (fid < length h)%nat) by (apply nth_error_Some; congruence).
  assert (Hext : hext h h') by (eapply declare_var_hext; eauto).
  destruct Hcase as [(Ea & ->)|(Ea & -> & (r & Hr))].
  - (* re-declaration: the same variable *)
    destruct (sr_set _ _ _ _ _ v Hs Dnd Did Ea) as (e' & fs'' & A & B & C).
    rewrite (declare_frame _ _ _ _ _ fs'' Hn) in Hd by (rewrite B; reflexivity).
    apply sret_inj in Hd. subst h'.
    exists (e' :: es'), (f :: fs'). cbn [with_env env fns]. rewrite He. cbn [app define_env]. rewrite A.
    refine (conj eq_refl (conj Hf (conj _ (conj Hph (conj _ (conj Hnd HT)))))).
    + constructor.
      * eexists. rewrite nth_set_nth_frame_eq by exact Hlt. split; [reflexivity|]. cbn. eapply ScopeRel_slots; eauto.
      * eapply GV_other; [exact Hg2|]. intros q Hq. apply nth_set_nth_frame_neq. intros ->. tauto.
    + rewrite set_g_same. cbn [env_shape map]. rewrite (sr_shape _ _ _ C), <- (sr_shape _ _ _ Hs).
      eapply EmbT_hext; [exact Hext|]. exact HE.
  - (* first declaration: a new slot / a new frame entry *)
    assert (Hi : ~ In i (scope_ids (lv_g lv))).
    { destruct (decls_after_app r ((n, i) :: lv_g lv)) as (new & En). rewrite Hr in En.
      rewrite En in Di. unfold scope_ids in Di. rewrite map_app in Di. apply NoDup_app_r in Di.
      cbn in Di. inversion Di; assumption. }
    destruct (sr_id_none _ _ _ n i Hs Hi) as [_ A]. destruct (sr_name_none _ _ _ n Hs Ea) as [_ B].
    rewrite (declare_frame _ _ _ _ _ (fr_slots fr ++ [(n, v)]) Hn) in Hd by (rewrite B; reflexivity).
    apply sret_inj in Hd. subst h'.
    exists (({| s_id := Some i; s_name := n; s_val := v |} :: e) :: es'), (f :: fs').
    cbn [with_env env fns]. rewrite He. cbn [app define_env]. rewrite A.
    refine (conj eq_refl (conj Hf (conj _ (conj Hph (conj _ (conj Hnd HT)))))).
    + constructor.
      * eexists. rewrite nth_set_nth_frame_eq by exact Hlt. split; [reflexivity|]. cbn.
        rewrite (ScopeRel_slots _ _ _ Hs). reflexivity.
      * eapply GV_other; [exact Hg2|]. intros q Hq. apply nth_set_nth_frame_neq. intros ->. tauto.
    + cbn [env_shape map scope_shape]. apply ET_take.
      * eapply Emb_hext; eauto.
      * destruct HL as (d0 & fr0 & src & A0 & B0 & C0 & D0 & E0 & F0 & G0 & H0).
        assert (fr0 = fr) by congruence. subst fr0. subst d0.
        destruct (decls_after_app r ((n, i) :: lv_g lv)) as (new & En). rewrite Hr in En.
        eexists ((n, i) :: lv_g lv), _, src.
        refine (conj _ (conj _ (conj _ (conj D0 (conj eq_refl (conj _ (conj _ _))))))).
        -- cbn. unfold slot_shape. cbn. f_equal. apply (sr_shape _ _ _ Hs).
        -- exists new. exact En.
        -- exists new. exact En.
        -- apply nth_set_nth_frame_eq. exact Hlt.
        -- cbn. exact G0.
        -- cbn [fr_fns]. destruct src; exact H0.
Qed.

Lemma K4_decl_old : forall g lv k s c h n i v h',
  R4 g (lv :: k) s c h -> assoc n (lv_g lv) = Some i ->
  declare_var h (cur_of c) n v = sret h' ->
  R4 g (lv :: k) (with_env (define_env (Some i) n v (env s)) s) c h'.
Proof.
  intros g lv k s c h n i v h' HR Ha Hd. rewrite <- (set_g_same lv) at 1.
  eapply K4_decl_gen; eauto.
Qed.

Lemma K4_decl_new : forall g lv k s c h n i v h',
  R4 g (lv :: k) s c h -> assoc n (lv_g lv) = None ->
  (exists r, decls_after ((n, i) :: lv_g lv) r = lv_sig lv) ->
  NoDup (sig_ids (lv :: k)) ->
  declare_var h (cur_of c) n v = sret h' ->
  R4 g (set_g lv ((n, i) :: lv_g lv) :: k) (with_env (define_env (Some i) n v (env s)) s) c h'.
Proof.
  intros g lv k s c h n i v h' HR Ha Hr _ Hd. eapply K4_decl_gen; eauto.
Qed.

Lemma env_shape_app a b : env_shape (a ++ b) = env_shape a ++ env_shape b.
Proof. unfold env_shape. apply map_app. Qed.

Lemma GV_lt phi es h : GV phi es h -> forall q, In q phi -> (q < length h)%nat.
Proof.
  induction 1 as [|e fid es phi (fr & A & _) _ IH]; cbn; intros q Hq; [tauto|].
  destruct Hq as [<-|Hq]; [|auto]. apply nth_error_Some. congruence.
Qed.

Lemma R4_pop g k s c h k' c' s' fid h' :
  R4 g k s c h -> R4 (gpush4 g fid) k' s' c' h' ->
  tl (env_shape (env s')) = env_shape (env s) -> tl (fns s') = fns s -> hext h h' ->
  R4 g k (pop_scope s') c h'.
Proof.
  intros (es & fs & He & Hf & Hgv & Hph & HE & Hnd & HT)
    (es' & fs' & He' & Hf' & Hgv' & Hph' & HE' & Hnd' & HT') Hsh Hfn Hx.
  inversion Hgv' as [|e' ? es'' ? Hg1 Hg2]; subst.
  rewrite He', He in Hsh. cbn [app env_shape map tl] in Hsh. fold (env_shape (es'' ++ [[]])) in Hsh.
  fold (env_shape (es ++ [[]])) in Hsh. rewrite !env_shape_app in Hsh. apply app_inj_tail in Hsh. destruct Hsh as [Hsh _].
  destruct fs' as [|f' fs''].
  { rewrite Hf', Hf in Hfn. cbn in Hfn. destruct fs; discriminate. }
  rewrite Hf', Hf in Hfn. cbn [app tl] in Hfn. apply app_inj_tail in Hfn. destruct Hfn as [Hfn _]. subst fs''.
  exists es'', fs. cbn [pop_scope env fns]. rewrite He', Hf'. cbn [app tl].
  refine (conj eq_refl (conj eq_refl (conj Hg2 (conj Hph (conj _ (conj Hnd HT)))))).
  rewrite Hsh. eapply EmbT_hext; eauto.
Qed.

Lemma K4_exit : forall g k s c h lv s' fid h',
  R4 g k s c h -> R4 (gpush4 g fid) (lv :: k) s' ((fid, None) :: c) h' ->
  tl (env_shape (env s')) = env_shape (env s) -> tl (fns s') = fns s -> hext h h' ->
  R4 g k (pop_scope s') c h'.
Proof. intros. eapply R4_pop; eauto. Qed.

Lemma decls_after_nodup ts : forall top, NoDup (scope_names top) -> NoDup (scope_names (decls_after top ts)).
Proof.
  induction ts as [|t r IH]; intros top Hn; [exact Hn|].
  destruct t; cbn [decls_after]; try (apply IH; exact Hn).
  destruct l as [i|]; [|apply IH; exact Hn]. destruct (assoc n top) eqn:Ea; [apply IH; exact Hn|].
  apply IH. cbn. constructor; [apply assoc_none_notin; exact Ea|exact Hn].
Qed.

Lemma hoisted_in b : forall acc fd, In fd (hoisted b acc) -> In fd acc \/ In fd (fn_table b).
Proof.
  induction b as [|t r IH]; intros acc fd Hin; [left; exact Hin|].
  unfold fn_table. cbn [flat_map]. fold (fn_table r).
  destruct t; cbn [hoisted] in Hin; try (destruct (IH _ _ Hin); [left|right; apply in_or_app; right]; assumption).
  destruct (IH _ _ Hin) as [[<-|H]|H]; [right|left|right].
  - cbn [fn_table_stmt]. left. reflexivity.
  - exact H.
  - apply in_or_app. right. exact H.
Qed.

Lemma new_block_nth h fr cs q :
  (q < length h)%nat -> nth_error (with_fns (h ++ [fr]) (length h) cs) q = nth_error h q.
Proof.
  intros Hq. unfold with_fns. rewrite nth_error_app2 by lia. rewrite Nat.sub_diag. cbn [nth_error].
  rewrite nth_set_nth_frame_neq by lia. apply nth_error_app1. exact Hq.
Qed.

Lemma new_block_top h sl p cs :
  nth_error (with_fns (h ++ [{| fr_slots := sl; fr_fns := []; fr_parent := p |}]) (length h) cs) (length h)
  = Some {| fr_slots := sl; fr_fns := cs; fr_parent := p |}.
Proof.
  unfold with_fns. rewrite nth_error_app2 by lia. rewrite Nat.sub_diag. cbn [nth_error].
  apply nth_set_nth_frame_eq. rewrite app_length. cbn. lia.
Qed.

Lemma K4_enter : forall g k s c h b fs0,
  R4 g k s c h -> chk_block (cv k) (cf k) b = true -> predecl b = Some fs0 -> BOK T k b ->
  R4 (gpush4 g (length h)) (enter_level b fs0 :: k)
    {| env := [] :: env s; fns := hoisted b [] :: fns s |}
    ((length h, None) :: c)
    (with_fns (h ++ [{| fr_slots := []; fr_fns := []; fr_parent := c |}]) (length h)
              (block_closures b (length h) [] [])).
Proof.
  intros g k s c h b fs0 (es & fs & He & Hf & Hgv & Hph & HE & Hnd & HT) Hc Hp Hbok.
  set (h2 := with_fns _ _ _).
  assert (Hx : hext h h2) by apply hext_new_block.
  pose proof (ST_enter T k b fs0 Hbok) as Htok.
  exists ([] :: es), (hoisted b [] :: fs). cbn [env fns]. rewrite He, Hf.
  refine (conj eq_refl (conj eq_refl (conj _ (conj _ (conj _ (conj _ _)))))).
  - constructor.
    + eexists. split; [apply new_block_top|reflexivity].
    + eapply GV_other; [exact Hgv|]. intros q Hq. apply new_block_nth. eapply GV_lt; eauto.
  - constructor; [|exact Hph]. intros Hin. pose proof (GV_lt _ _ _ Hgv _ Hin). lia.
  - cbn [env_shape map scope_shape]. apply ET_take.
    + eapply Emb_hext; [exact Hx|]. apply EmbT_Emb. exact HE.
    + exists [], {| fr_slots := []; fr_fns := block_closures b (length h) [] []; fr_parent := c |}, (LBlock b).
      cbn [enter_level lv_g lv_sig lv_f fr_fns fr_parent].
      refine (conj eq_refl (conj _ (conj _ (conj _ (conj eq_refl (conj _ (conj eq_refl _))))))).
      * exists (decls_after [] b). rewrite app_nil_r. reflexivity.
      * exists (decls_after [] b). rewrite app_nil_r. reflexivity.
      * apply decls_after_nodup. constructor.
      * apply new_block_top.
      * destruct Htok as (_ & Hn2 & _). destruct Hbok as [_ Hi].
        refine (conj eq_refl (conj eq_refl (conj Hp (conj eq_refl (conj Hc (conj Hn2 Hi)))))).
  - eapply ST_nodup; eauto.
  - constructor; [|exact HT]. apply Forall_forall. intros fd Hin.
    destruct (hoisted_in _ _ _ Hin) as [[]|Hin']. destruct Hbok as [_ Hi]. apply Hi. exact Hin'.
Qed.

(* ---------- calls ---------- *)
Lemma sig_ids_tail lv k : incl (sig_ids k) (sig_ids (lv :: k)).
Proof. unfold sig_ids. cbn [flat_map]. apply incl_appr, incl_refl. Qed.

(* The function a call denotes, located on the static chain: its defining level D, the
   embedding of the callee's chain (D restricted to the declarations before the definition,
   then D's lexical context) into the SAME stack — every scope above D becomes hidden —, and the
   static facts the checker established for its body. *)
Lemma emb_callee h k c sh fs phi :
  Emb h k c sh fs phi -> NoDup (sig_ids k) ->
  forall f fidG cl, vlookup (cf k) f = Some fidG -> resolve_fn h f c = Some cl ->
  exists lvD kt ct bD pre sid ps body ls ll post dfr,
    bD = pre ++ SFun sid f ps body (Some fidG) ls ll :: post /\
    c_params cl = ps /\ c_body cl = body /\ c_vis cl = seen_after [] pre /\
    nth_error h (c_frame cl) = Some dfr /\ fr_parent dfr = ct /\
    Emb h (set_g lvD (decls_after [] pre) :: kt) ((c_frame cl, Some (c_vis cl)) :: ct) sh fs phi /\
    incl (sig_ids (lvD :: kt)) (sig_ids k) /\ NoDup (sig_ids (lvD :: kt)) /\
    predecl bD = Some (lv_f lvD) /\ chk_block (cv kt) (cf kt) bD = true /\
    NoDup (flat_map ids_stmt bD ++ sig_ids (lvD :: kt)) /\ incl (fn_table bD) T /\
    In (fdef_of f ps body (Some fidG) ls ll) (concat fs).
Proof.
  induction 1 as [sh fs phi|k c she sh f0 fs fid phi HE IH Hskip|lv k vis c she sh f0 fs fid phi HE IH HL];
    intros Hnd f fidG cl Hl Hr.
  - discriminate.
  - destruct (IH Hnd f fidG cl Hl Hr) as (lvD & kt & ct & bD & pre & sid & ps & body & ls & ll & post & dfr &
      A1 & A2 & A3 & A4 & A5 & A6 & A7 & A8 & A9 & A10 & A11 & A12 & A13 & A14).
    exists lvD, kt, ct, bD, pre, sid, ps, body, ls, ll, post, dfr.
    refine (conj A1 (conj A2 (conj A3 (conj A4 (conj A5 (conj A6 (conj _ (conj A8 (conj A9 (conj A10 (conj A11 (conj A12 (conj A13 _))))))))))))).
    + apply Emb_skip; [exact A7|]. intros i Hi Hin. apply (Hskip i Hi). apply A8. exact Hin.
    + cbn [concat]. apply in_or_app. right. exact A14.
  - assert (Hnd' : NoDup (sig_ids k)) by (unfold sig_ids in Hnd; cbn [flat_map] in Hnd; eapply NoDup_app_r; eauto).
    pose proof HL as HL0.
    destruct HL as (d & fr & src & B1 & (x & B2) & (y & B3) & B4 & B5 & B6 & B7 & B8).
    cbn [cf map vlookup] in Hl. cbn [resolve_fn] in Hr. rewrite B6 in Hr.
    destruct (assoc f (lv_f lv)) as [id|] eqn:Ea.
    + (* defined in this block *)
      inversion Hl; subst id.
      destruct src as [b|]; [|destruct B8 as (_ & _ & E & _); rewrite E in Ea; discriminate].
      destruct B8 as (C1 & C2 & C3 & C4 & C5 & C6 & C7).
      assert (Hndf : NoDup (scope_names (lv_f lv))).
      { unfold chk_block in C5. rewrite C3 in C5. apply andb_true_iff in C5. destruct C5 as [C5 _].
        apply nodup_names_NoDup. exact C5. }
      destruct (bc_some b fid (lv_f lv) f fidG [] [] C3 Hndf Ea)
        as (pre & sid & ps & body & ls & ll & post & Eb & Ef).
      rewrite C2, Ef in Hr. inversion Hr; subst cl. cbn [c_params c_body c_vis c_frame].
      exists lv, k, c, b, pre, sid, ps, body, ls, ll, post, fr.
      refine (conj Eb (conj eq_refl (conj eq_refl (conj eq_refl (conj B6 (conj B7 (conj _ (conj (incl_refl _)
             (conj Hnd (conj C3 (conj C5 (conj C6 (conj C7 _))))))))))))).
      * apply Emb_take; [exact HE|].
        assert (Hall : all_make_ids pre).
        { unfold chk_block in C5. rewrite C3 in C5. apply andb_true_iff in C5. destruct C5 as [_ C5].
          rewrite Eb in C5. apply chk_stmts_split in C5. tauto. }
        exists d, fr, (LBlock b). cbn [set_g lv_g lv_sig lv_f].
        refine (conj B1 (conj (ex_intro _ x B2) (conj _ (conj B4 (conj _ (conj B6 (conj B7 _))))))).
        -- rewrite C4, Eb, decls_after_cat. apply decls_after_app.
        -- intros n. apply (seen_decls pre [] [] Hall). intros m. reflexivity.
        -- refine (conj C1 (conj C2 (conj C3 (conj C4 (conj C5 (conj C6 C7)))))).
      * cbn [concat]. apply in_or_app. left. rewrite C1. eapply hoisted_has; eauto.
    + (* not defined here: look further out; this scope becomes hidden for the callee *)
      assert (Hfc : find_closure f (fr_fns fr) = None).
      { destruct src as [b|].
        - destruct B8 as (C1 & C2 & C3 & _). rewrite C2. rewrite (bc_none b fid _ f [] [] C3 Ea). reflexivity.
        - destruct B8 as (_ & C2 & _). rewrite C2. reflexivity. }
      rewrite Hfc in Hr.
      destruct (IH Hnd' f fidG cl Hl Hr) as (lvD & kt & ct & bD & pre & sid & ps & body & ls & ll & post & dfr &
        A1 & A2 & A3 & A4 & A5 & A6 & A7 & A8 & A9 & A10 & A11 & A12 & A13 & A14).
      exists lvD, kt, ct, bD, pre, sid, ps, body, ls, ll, post, dfr.
      refine (conj A1 (conj A2 (conj A3 (conj A4 (conj A5 (conj A6 (conj _ (conj _ (conj A9 (conj A10 (conj A11 (conj A12 (conj A13 _))))))))))))).
      * apply Emb_skip; [exact A7|]. intros i Hi Hin.
        (* the ids of this scope are declarations of lv, disjoint from every level further out *)
        rewrite B1, scope_ids_idsh in Hi. apply in_map_iff in Hi. destruct Hi as (i' & Ei & Hi). inversion Ei; subst i'.
        apply (suffix_ids_incl x d) in Hi. rewrite <- B2 in Hi.
        unfold sig_ids in Hnd. cbn [flat_map] in Hnd. fold (sig_ids k) in Hnd.
        eapply (NoDup_app_disj _ _ i Hnd); [|exact Hi]. apply A8. exact Hin.
      * eapply incl_tran; [exact A8|apply sig_ids_tail].
      * cbn [concat]. apply in_or_app. right. exact A14.
Qed.

Lemma concat_forall {A} (P : A -> Prop) (l : list (list A)) x :
  Forall (Forall P) l -> In x (concat l) -> P x.
Proof.
  induction 1 as [|a l Ha _ IH]; cbn; intros Hin; [tauto|].
  apply in_app_or in Hin. destruct Hin as [Hin|Hin]; [|auto].
  rewrite Forall_forall in Ha. auto.
Qed.

Definition param_level (ps : list name) (ls : Z) : level :=
  {| lv_g := param_scope ps ls 0 []; lv_sig := param_scope ps ls 0 []; lv_f := [] |}.

Lemma shape_tail_eq es1 es : env_shape (es1 ++ [[]]) = env_shape (es ++ [[]]) -> env_shape es1 = env_shape es.
Proof. rewrite !env_shape_app. intros H. apply app_inj_tail in H. tauto. Qed.

Lemma K4_call : forall g k s c h f fid cl,
  R4 g k s c h -> vlookup (cf k) f = Some fid -> resolve_fn h f c = Some cl ->
  exists fd,
    lookup_fn (Some fid) f (fns s) = Some fd /\
    f_params fd = c_params cl /\ f_body fd = c_body cl /\ f_id fd = Some fid /\
    (f_llen fd <? Z.of_nat (length (f_params fd))) = false /\
    forall s1 h1 vs,
      R4 g k s1 c h1 -> FC s h s1 h1 -> length vs = length (c_params cl) ->
      let defchain : chain :=
        match nth_error h1 (c_frame cl) with
        | Some df => (c_frame cl, Some (c_vis cl)) :: fr_parent df
        | None => []
        end in
      let h2 := h1 ++ [{| fr_slots := sbindp (c_params cl) vs []; fr_fns := []; fr_parent := defchain |}] in
      let s2 := push_scope (bind_params (Some fid) (f_lstart fd) (f_params fd) vs 0 []) s1 in
      exists kG,
        chk_block (cv kG) (cf kG) (c_body cl) = true /\ BOK T kG (c_body cl) /\
        R4 (gpush4 g (length h1)) kG s2 ((length h1, None) :: defchain) h2 /\
        forall s3 h3,
          R4 (gpush4 g (length h1)) kG s3 ((length h1, None) :: defchain) h3 -> FC s2 h2 s3 h3 ->
          R4 g k (pop_scope s3) c h3.
Proof.
  intros g k s c h f fid cl (es & fs & He & Hf & Hgv & Hph & HE & Hnd & HT) Hl Hr.
  destruct (emb_callee _ _ _ _ _ _ (EmbT_Emb _ _ _ _ _ _ HE) Hnd f fid cl Hl Hr)
    as (lvD & kt & ct & bD & pre & sid & ps & body & ls & ll & post & dfr &
        A1 & A2 & A3 & A4 & A5 & A6 & A7 & A8 & A9 & A10 & A11 & A12 & A13 & A14).
  set (G := fdef_of f ps body (Some fid) ls ll).
  destruct (fn_table_has _ _ _ _ _ _ _ _ _ _ A1) as [HGin Hbody_in].
  assert (HGT : In G T) by (apply A13; exact HGin).
  (* the runtime finds the same static function, in whichever instance *)
  destruct (lookup_fn_id fid f (fs ++ [[]]) G) as (fd & Lf & Lid & Lin).
  { rewrite concat_app. apply in_or_app. left. exact A14. }
  { reflexivity. }
  assert (HfdT : In fd T).
  { rewrite concat_app in Lin. cbn in Lin. rewrite app_nil_r in Lin. exact (concat_forall (fun x => In x T) fs fd HT Lin). }
  assert (fd = G) by (eapply T_fun; eauto; reflexivity). subst fd.
  (* what the checker established at the definition *)
  pose proof A11 as Hchk. unfold chk_block in Hchk. rewrite A10 in Hchk. apply andb_true_iff in Hchk.
  destruct Hchk as [_ Hchk]. rewrite A1 in Hchk. apply chk_stmts_split in Hchk.
  destruct Hchk as [Hall (top' & Hfun)]. rewrite chk_stmt_fun in Hfun.
  match type of Hfun with (if ?c then _ else _) = _ => destruct c eqn:Econd; [|discriminate] end.
  apply andb_true_iff in Econd. destruct Econd as [Econd Hbchk].
  apply andb_true_iff in Econd. destruct Econd as [Econd Hll].
  apply andb_true_iff in Econd. destruct Econd as [_ Hps].
  apply nodup_names_NoDup in Hps. apply Z.leb_le in Hll.
  exists G. rewrite Hf. refine (conj Lf (conj _ (conj _ (conj eq_refl (conj _ _))))).
  - cbn. congruence.
  - cbn. congruence.
  - cbn [G fdef_of f_llen f_params]. apply Z.ltb_ge. exact Hll.
  - intros s1 h1 vs (es1 & fs1 & He1 & Hf1 & Hgv1 & Hph1 & HE1 & Hnd1 & HT1) (Hsh & Hfns & Hx) Hlen.
    cbn [G fdef_of f_lstart f_params]. rewrite A2 in *. rewrite A3.
    destruct Hx as [Hxl Hxf]. destruct (Hxf _ _ A5) as (df & Edf & _ & Edp). rewrite Edf. rewrite Edp, A6.
    assert (Hx1 : hext h h1) by (split; assumption).
    set (defchain := (c_frame cl, Some (c_vis cl)) :: ct).
    set (pfr := {| fr_slots := sbindp ps vs []; fr_fns := []; fr_parent := defchain |}).
    assert (Hx2 : hext h1 (h1 ++ [pfr])) by apply hext_app.
    rewrite He1, He in Hsh. apply shape_tail_eq in Hsh.
    rewrite Hf1, Hf in Hfns. apply app_inj_tail in Hfns. destruct Hfns as [Hfns _]. subst fs1.
    destruct (bind_params_rel fid ls ps vs 0 [] [] Hlen Hps) as [Hpshape Hpvals]; [intros ? ? []|reflexivity|].
    cbn [map rev] in Hpvals.
    set (pscope := bind_params (Some fid) ls ps vs 0 []) in *.
    set (lvD' := set_g lvD (decls_after [] pre)).
    (* ids: parameters, body, and the levels of the callee's chain are pairwise distinct *)
    pose proof (ids_of_fun _ _ _ _ _ _ _ _ _ _ _ A1 A12) as Hids.
    assert (Hperm : Permutation (seqZ ls (length ps) ++ ids_block body ++ sig_ids (lvD :: kt))
                                (ids_block body ++ scope_ids (param_scope ps ls 0 []) ++ sig_ids (lvD :: kt))).
    { rewrite param_scope_ids, app_nil_r. replace (ls + 0) with ls by lia.
      rewrite Permutation_app_swap_app. apply Permutation_app_head. apply Permutation_app_tail. apply Permutation_rev. }
    pose proof (Permutation_NoDup Hperm Hids) as Hids'.
    exists (param_level ps ls :: lvD' :: kt).
    refine (conj _ (conj _ (conj _ _))).
    + exact Hbchk.
    + split; [exact Hids'|]. eapply incl_tran; [exact Hbody_in|exact A13].
    + exists (pscope :: es1), ([] :: fs). cbn [push_scope env fns]. rewrite He1, Hf1.
      refine (conj eq_refl (conj eq_refl (conj _ (conj _ (conj _ (conj _ _)))))).
      * constructor.
        -- exists pfr. split; [rewrite nth_error_app2 by lia; rewrite Nat.sub_diag; reflexivity|exact Hpvals].
        -- eapply GV_other; [exact Hgv1|]. intros q Hq. apply nth_error_app1. eapply GV_lt; eauto.
      * constructor; [|exact Hph1]. intros Hin. pose proof (GV_lt _ _ _ Hgv1 _ Hin). lia.
      * cbn [env_shape map]. fold (env_shape es1). apply ET_take.
        -- rewrite Hsh. eapply Emb_hext; [eapply hext_trans; [exact Hx1|exact Hx2]|exact A7].
        -- exists (param_scope ps ls 0 []), pfr, LParam. cbn [param_level lv_g lv_sig lv_f].
           refine (conj Hpshape (conj (ex_intro _ [] eq_refl) (conj (ex_intro _ [] eq_refl) (conj _ (conj eq_refl (conj _ (conj eq_refl _))))))).
           ++ rewrite param_scope_names, app_nil_r. apply NoDup_rev. exact Hps.
           ++ rewrite nth_error_app2 by lia. rewrite Nat.sub_diag. reflexivity.
           ++ cbn. auto.
      * apply NoDup_app_r in Hids'. exact Hids'.
      * constructor; [constructor|exact HT].
    + intros s3 h3 HR3 (Hsh3 & Hfn3 & Hx3).
      eapply (R4_pop g k s1 c h1); [| exact HR3 | | |].
      * exists es1, fs. auto 10.
      * rewrite Hsh3. reflexivity.
      * rewrite Hfn3. reflexivity.
      * eapply hext_trans; [exact Hx2|exact Hx3].
Qed.

End S4.

(* ---------- stage S4: the general theorem ---------- *)
Definition S4_sim eps T T_fun n : SimB eps T (list nat) (R4 T) n :=
  kit_simB eps T (list nat) gpush4 (R4 T) (K4_read T) (K4_write T) (K4_decl_old T) (K4_decl_new T)
    (K4_enter T) (K4_exit T) (K4_call T T_fun) n.

Definition fid_list (fd : fdef) : list Z := match f_id fd with Some i => [i] | None => [] end.

Lemma fids_forall b :
  Forall (fun t => flat_map fid_list (fn_table_stmt t) = fids_stmt t) b ->
  flat_map fid_list (fn_table b) = fids_block b.
Proof.
  induction 1 as [|t r Ht _ IH]; [reflexivity|].
  unfold fn_table in *. cbn [flat_map fids_block]. rewrite flat_map_app, Ht, IH. reflexivity.
Qed.

Lemma fids_stmt_table t : flat_map fid_list (fn_table_stmt t) = fids_stmt t.
Proof.
  induction t using stmt_ind_nested; try reflexivity.
  - cbn [fn_table_stmt flat_map]. change (fids_stmt (SFun sid n ps body fid ls ll))
      with ((match fid with Some f => [f] | None => [] end) ++ fids_block body).
    f_equal. apply (fids_forall _ H).
  - cbn [fn_table_stmt]. change (fids_stmt (SIf sid c t f))
      with (fids_block t ++ match f with Some fb => fids_block fb | None => [] end).
    rewrite flat_map_app. f_equal; [apply (fids_forall _ H)|].
    destruct f as [fb|]; [apply (fids_forall _ H0)|reflexivity].
  - cbn [fn_table_stmt]. change (fids_stmt (SLoop sid c b)) with (fids_block b). apply (fids_forall _ H).
  - cbn [fn_table_stmt]. change (fids_stmt (SBlock sid b)) with (fids_block b). apply (fids_forall _ H).
Qed.

Lemma fn_table_fids b : flat_map fid_list (fn_table b) = fids_block b.
Proof. apply fids_forall. induction b; constructor; auto using fids_stmt_table. Qed.

Lemma flat_nodup_fun {A} (g : A -> list Z) (l : list A) :
  NoDup (flat_map g l) -> forall x y i, In x l -> In y l -> In i (g x) -> In i (g y) -> x = y.
Proof.
  induction l as [|a l IH]; cbn; intros Hnd x y i Hx Hy Hix Hiy; [tauto|].
  assert (Hout : forall z, In z l -> In i (g z) -> In i (flat_map g l)).
  { intros z Hz Hiz. apply in_flat_map. eauto. }
  destruct Hx as [<-|Hx], Hy as [<-|Hy]; auto.
  - exfalso. eapply (NoDup_app_disj _ _ i Hnd); eauto.
  - exfalso. eapply (NoDup_app_disj _ _ i Hnd); eauto.
  - eapply IH; eauto. eapply NoDup_app_r; eauto.
Qed.

Lemma fn_table_fun p : NoDup (fids_block p) ->
  forall fd1 fd2 fid, In fd1 (fn_table p) -> In fd2 (fn_table p) ->
  f_id fd1 = Some fid -> f_id fd2 = Some fid -> fd1 = fd2.
Proof.
  intros Hnd fd1 fd2 fid H1 H2 E1 E2. rewrite <- fn_table_fids in Hnd.
  eapply (flat_nodup_fun fid_list _ Hnd fd1 fd2 fid); eauto; unfold fid_list; [rewrite E1|rewrite E2]; left; reflexivity.
Qed.

Lemma R4_init T : R4 T [] [] init_st [] [].
Proof.
  exists [], []. refine (conj eq_refl (conj eq_refl (conj _ (conj _ (conj _ (conj _ _)))))); constructor.
Qed.

(* Stage S4 (no restriction on the program): for every program whose ids are lexical, whatever the
   names-only reference interpreter computes (printed values, and a normal or runtime-error
   ending), the implementation model computes too, with the same fuel. *)
Theorem impl_equals_spec_scoping eps fuel p o e :
  lexical p = true ->
  run_spec eps fuel p = (o, e) -> comparable e = true ->
  run_impl None eps fuel p = (o, ending_of e).
Proof.
  intros Hlex Hrun Hcmp. unfold lexical, ids_ok in Hlex.
  apply andb_true_iff in Hlex. destruct Hlex as [Hchk Hids]. apply andb_true_iff in Hids. destruct Hids as [Hids Hfids].
  apply nodupZ_NoDup in Hids. apply nodupZ_NoDup in Hfids.
  assert (Hbok : BOK (fn_table p) [] p).
  { split; [rewrite app_nil_r; exact Hids|apply incl_refl]. }
  pose proof (S4_sim eps (fn_table p) (fn_table_fun p Hfids) fuel [] [] p init_st [] [] (R4_init _) Hchk Hbok) as Hsim.
  unfold run_spec in Hrun. unfold run_impl.
  destruct (sblock eps fuel p [] []) as [o' r]. destruct r; inversion Hrun; subst; cbn in Hcmp; try discriminate; cbn [rsim] in Hsim.
  - destruct Hsim as (b & -> & _). reflexivity.
  - rewrite Hsim. reflexivity.
Qed.
