(* ScopeProofs — C04 stages S1 (programs without user-defined functions: the implementation's
   scope stack and the reference interpreter's frames correspond one to one) and S2 (the
   lookup lemmas in isolation: id-directed search of an `env` = name-directed resolution
   along the static chain, under an explicit relation EnvRel, preserved by
   define / assign / push_scope / pop_scope / new_frame). *)
From Coq Require Import ZArith List Bool Lia Permutation.
Require Import NS.theories.F64 NS.theories.StrLib NS.theories.Lang NS.theories.Spec NS.theories.LexResolve.
Require Import NS.proofs.LangUnfold NS.proofs.SpecUnfold NS.proofs.SimBase NS.proofs.SimKit.
Import ListNotations.
Open Scope Z_scope.

(* ---------- one scope <-> one frame ---------- *)
(* g: static declarations (newest first); e: the implementation scope (newest first);
   fs: the frame's slots (declaration order) *)
Inductive ScopeRel : scope -> list slot -> list (name * value) -> Prop :=
| SR_nil : ScopeRel [] [] []
| SR_cons g e fs n i v :
    ScopeRel g e fs ->
    ScopeRel ((n, i) :: g) ({| s_id := Some i; s_name := n; s_val := v |} :: e) (fs ++ [(n, v)]).

Lemma slot_lookup_app n fs m v :
  slot_lookup n (fs ++ [(m, v)]) =
  match slot_lookup n fs with Some x => Some x | None => if bytes_eqb m n then Some v else None end.
Proof.
  induction fs as [|[m' w] r IH]; cbn; [reflexivity|].
  destruct (bytes_eqb m' n); auto.
Qed.

Lemma slot_set_app n v fs m w :
  slot_set n v (fs ++ [(m, w)]) =
  match slot_set n v fs with
  | Some fs' => Some (fs' ++ [(m, w)])
  | None => if bytes_eqb m n then Some (fs ++ [(m, v)]) else None
  end.
Proof.
  induction fs as [|[m' w'] r IH]; cbn; [reflexivity|].
  destruct (bytes_eqb m' n); [reflexivity|]. rewrite IH.
  destruct (slot_set n v r); [reflexivity|]. destruct (bytes_eqb m n); reflexivity.
Qed.

Lemma assoc_none_notin n g : assoc n g = None -> ~ In n (scope_names g).
Proof.
  induction g as [|[m i] r IH]; cbn; intros H; [tauto|].
  destruct (bytes_eqb m n) eqn:E; [discriminate|]. intros [Hm|Hr]; [|exact (IH H Hr)].
  subst. rewrite bytes_eqb_refl in E. discriminate.
Qed.

Lemma assoc_some_in n g i : assoc n g = Some i -> In n (scope_names g) /\ In i (scope_ids g).
Proof.
  induction g as [|[m j] r IH]; cbn; intros H; [discriminate|].
  destruct (bytes_eqb m n) eqn:E.
  - inversion H; subst. apply bytes_eqb_eq in E. auto.
  - destruct (IH H). auto.
Qed.

Lemma notin_assoc_none n g : ~ In n (scope_names g) -> assoc n g = None.
Proof.
  induction g as [|[m i] r IH]; cbn; intros H; [reflexivity|].
  destruct (bytes_eqb m n) eqn:E.
  - apply bytes_eqb_eq in E. tauto.
  - apply IH. tauto.
Qed.

Lemma sr_name_none g e fs n :
  ScopeRel g e fs -> assoc n g = None ->
  slot_lookup n fs = None /\ forall v, slot_set n v fs = None.
Proof.
  induction 1 as [|g e fs m i w H IH]; cbn; intros Ha; [auto|].
  destruct (bytes_eqb m n) eqn:E; [discriminate|]. destruct (IH Ha) as [A B].
  split; [|intros v]; [rewrite slot_lookup_app, A, E | rewrite slot_set_app, B, E]; reflexivity.
Qed.

Lemma sr_id_none g e fs n i :
  ScopeRel g e fs -> ~ In i (scope_ids g) ->
  find_slot (Some i) n e = None /\ forall v, set_slot (Some i) n v e = None.
Proof.
  induction 1 as [|g e fs m j w H IH]; cbn; intros Hn; [auto|].
  assert (Hji : (j =? i) = false) by (apply Z.eqb_neq; tauto).
  destruct IH as [A B]; [tauto|]. unfold slot_matches; cbn. rewrite Hji.
  split; [exact A|]. intros v. rewrite B. reflexivity.
Qed.

Lemma sr_found g e fs n i :
  ScopeRel g e fs -> NoDup (scope_names g) -> NoDup (scope_ids g) -> assoc n g = Some i ->
  exists v, find_slot (Some i) n e = Some v /\ slot_lookup n fs = Some v.
Proof.
  induction 1 as [|g e fs m j w H IH]; cbn; intros Hnn Hni Ha; [discriminate|].
  inversion Hnn; subst. inversion Hni; subst. unfold slot_matches; cbn.
  destruct (bytes_eqb m n) eqn:E.
  - inversion Ha; subst. rewrite Z.eqb_refl. exists w. split; [reflexivity|].
    apply bytes_eqb_eq in E. subst m.
    destruct (sr_name_none _ _ _ n H (notin_assoc_none _ _ H2)) as [A _].
    rewrite slot_lookup_app, A, bytes_eqb_refl. reflexivity.
  - destruct (IH H3 H5 Ha) as (v & A & B). destruct (assoc_some_in _ _ _ Ha) as [_ Hin].
    assert (Hji : (j =? i) = false) by (apply Z.eqb_neq; intros ->; tauto).
    rewrite Hji. exists v. split; [exact A|]. rewrite slot_lookup_app, B. reflexivity.
Qed.

Lemma sr_set g e fs n i v :
  ScopeRel g e fs -> NoDup (scope_names g) -> NoDup (scope_ids g) -> assoc n g = Some i ->
  exists e' fs', set_slot (Some i) n v e = Some e' /\ slot_set n v fs = Some fs' /\ ScopeRel g e' fs'.
Proof.
  induction 1 as [|g e fs m j w H IH]; cbn; intros Hnn Hni Ha; [discriminate|].
  inversion Hnn; subst. inversion Hni; subst. unfold slot_matches; cbn.
  destruct (bytes_eqb m n) eqn:E.
  - inversion Ha; subst. rewrite Z.eqb_refl. apply bytes_eqb_eq in E. subst m.
    destruct (sr_name_none _ _ _ n H (notin_assoc_none _ _ H2)) as [_ B].
    eexists _, _. split; [reflexivity|]. split.
    + rewrite slot_set_app, B, bytes_eqb_refl. reflexivity.
    + constructor. exact H.
  - destruct (IH H3 H5 Ha) as (e' & fs' & A & B & C). destruct (assoc_some_in _ _ _ Ha) as [_ Hin].
    assert (Hji : (j =? i) = false) by (apply Z.eqb_neq; intros ->; tauto).
    rewrite Hji, A. eexists _, _. split; [reflexivity|]. split.
    + rewrite slot_set_app, B. reflexivity.
    + constructor. exact C.
Qed.

Lemma sr_shape g e fs : ScopeRel g e fs -> scope_shape e = map (fun '(n, i) => (Some i, n)) g.
Proof. induction 1; cbn; [reflexivity|]. f_equal. assumption. Qed.

(* ---------- the scope stack <-> the lexical chain (no functions: one to one) ---------- *)
Inductive EnvRel : venv -> list (list slot) -> chain -> heap -> Prop :=
| ER_nil h : EnvRel [] [] [] h
| ER_cons g G e es fid c h fr :
    nth_error h fid = Some fr -> ScopeRel g e (fr_slots fr) ->
    EnvRel G es c h -> EnvRel (g :: G) (e :: es) ((fid, None) :: c) h.

Definition GOK (G : venv) : Prop :=
  Forall (fun g => NoDup (scope_names g)) G /\ NoDup (flat_map scope_ids G).

Lemma GOK_tail g G : GOK (g :: G) -> GOK G.
Proof.
  intros [A B]. inversion A; subst. split; [assumption|]. cbn in B. eapply NoDup_app_r; eauto.
Qed.

Lemma GOK_head g G : GOK (g :: G) -> NoDup (scope_names g) /\ NoDup (scope_ids g).
Proof.
  intros [A B]. inversion A; subst. split; [assumption|]. cbn in B. eapply NoDup_app_l; eauto.
Qed.

Lemma vlookup_in G n i : vlookup G n = Some i -> In i (flat_map scope_ids G).
Proof.
  induction G as [|g r IH]; cbn; [discriminate|].
  destruct (assoc n g) as [j|] eqn:E; intros H.
  - inversion H; subst. apply in_or_app. left. eapply assoc_some_in; eauto.
  - apply in_or_app. right. auto.
Qed.

Lemma NoDup_app_disj {A} (a b : list A) x : NoDup (a ++ b) -> In x b -> ~ In x a.
Proof.
  induction a as [|y a IH]; cbn; intros H Hb; [tauto|]. inversion H; subst.
  intros [->|Hin]; [apply H2; apply in_or_app; auto|]. exact (IH H3 Hb Hin).
Qed.

Lemma lookup_env_app_nil l n es : lookup_env l n (es ++ [[]]) = lookup_env l n es.
Proof. induction es as [|e r IH]; cbn; [reflexivity|]. destruct (find_slot l n e); auto. Qed.

Lemma assign_env_app_nil l n v es :
  assign_env l n v (es ++ [[]]) =
  match assign_env l n v es with Some es' => Some (es' ++ [[]]) | None => None end.
Proof.
  induction es as [|e r IH]; cbn; [reflexivity|].
  destruct (set_slot l n v e); [reflexivity|]. rewrite IH. destruct (assign_env l n v r); reflexivity.
Qed.

(* S2: id-directed search finds exactly what name-directed static-chain resolution finds *)
Theorem lookup_by_id_is_resolve_by_name G es c h n i :
  EnvRel G es c h -> GOK G -> vlookup G n = Some i ->
  exists v, lookup_env (Some i) n es = Some v /\ read_var h n c = sret v.
Proof.
  induction 1 as [|g G e es fid c h fr Hn Hs Hr IH]; intros Hok Hl; [discriminate|].
  cbn [vlookup] in Hl. destruct (GOK_head _ _ Hok) as [Hnn Hni].
  destruct (assoc n g) as [j|] eqn:Ea.
  - inversion Hl; subst j. destruct (sr_found _ _ _ _ _ Hs Hnn Hni Ea) as (v & A & B).
    exists v. cbn [lookup_env]. rewrite A. split; [reflexivity|].
    unfold read_var. cbn [resolve_var]. rewrite Hn, B. rewrite Hn, B. reflexivity.
  - destruct (IH (GOK_tail _ _ Hok) Hl) as (v & A & B). exists v.
    assert (Hi : ~ In i (scope_ids g)).
    { destruct Hok as [_ Hnd]. cbn in Hnd. eapply NoDup_app_disj; eauto. eapply vlookup_in; eauto. }
    destruct (sr_id_none _ _ _ n i Hs Hi) as [C _]. destruct (sr_name_none _ _ _ n Hs Ea) as [D _].
    cbn [lookup_env]. rewrite C. split; [exact A|].
    unfold read_var in *. cbn [resolve_var]. rewrite Hn, D. exact B.
Qed.

Lemma er_frames_same G es c h h' :
  EnvRel G es c h -> (forall fid, In fid (map fst c) -> nth_error h' fid = nth_error h fid) ->
  EnvRel G es c h'.
Proof.
  induction 1 as [|g G e es fid c h fr Hn Hs Hr IH]; intros Hsame; [constructor|].
  constructor 2 with (fr := fr); auto.
  - rewrite Hsame; [exact Hn|]. cbn. auto.
  - apply IH. intros f Hf. apply Hsame. cbn. auto.
Qed.

Lemma er_fids_lt G es c h : EnvRel G es c h -> forall fid, In fid (map fst c) -> (fid < length h)%nat.
Proof.
  induction 1 as [|g G e es fid c h fr Hn Hs Hr IH]; cbn; intros f Hf; [tauto|].
  destruct Hf as [<-|Hf]; [|auto]. apply nth_error_Some. congruence.
Qed.

(* S2: assignment by id = assignment by name, and the relation is preserved *)
Theorem assign_by_id_is_write_by_name G es c h n i v :
  EnvRel G es c h -> GOK G -> NoDup (map fst c) -> vlookup G n = Some i ->
  exists es' h', assign_env (Some i) n v es = Some es' /\ write_var h n c v = sret h' /\
    EnvRel G es' c h' /\
    (forall fid, ~ In fid (map fst c) -> nth_error h' fid = nth_error h fid).
Proof.
  induction 1 as [|g G e es fid c h fr Hn Hs Hr IH]; intros Hok Hnd Hl; [discriminate|].
  cbn [vlookup] in Hl. destruct (GOK_head _ _ Hok) as [Hnn Hni].
  cbn [map fst] in Hnd. inversion Hnd; subst.
  destruct (assoc n g) as [j|] eqn:Ea.
  - inversion Hl; subst j. destruct (sr_set _ _ _ _ _ v Hs Hnn Hni Ea) as (e' & fs' & A & B & C).
    destruct (sr_found _ _ _ _ _ Hs Hnn Hni Ea) as (v0 & _ & B0).
    cbn [assign_env]. rewrite A.
    eexists _, _. split; [reflexivity|]. unfold write_var. cbn [resolve_var]. rewrite Hn, B0, Hn, B.
    split; [reflexivity|].
    assert (Hlt : (fid < length h)%nat) by (apply nth_error_Some; congruence).
    split.
    + constructor 2 with (fr := {| fr_slots := fs'; fr_fns := fr_fns fr; fr_parent := fr_parent fr |}).
      * apply nth_set_nth_frame_eq. exact Hlt.
      * exact C.
      * eapply er_frames_same; [exact Hr|]. intros f Hf. apply nth_set_nth_frame_neq. intros ->. tauto.
    + intros f Hf. apply nth_set_nth_frame_neq. intros ->. apply Hf. cbn. auto.
  - destruct (IH (GOK_tail _ _ Hok) H2 Hl) as (es' & h' & A & B & C & D).
    assert (Hi : ~ In i (scope_ids g)).
    { destruct Hok as [_ Hnd']. cbn in Hnd'. eapply NoDup_app_disj; eauto. eapply vlookup_in; eauto. }
    destruct (sr_id_none _ _ _ n i Hs Hi) as [_ C']. destruct (sr_name_none _ _ _ n Hs Ea) as [D' _].
    cbn [assign_env]. rewrite C', A. eexists _, _. split; [reflexivity|].
    unfold write_var in *. cbn [resolve_var]. rewrite Hn, D'. split; [exact B|]. split.
    + constructor 2 with (fr := fr); auto. rewrite D; auto.
    + intros f Hf. apply D. intros Hin. apply Hf. cbn. auto.
Qed.

(* S2: `make` = declare in the current frame *)
Lemma er_inv_cons g G es c h :
  EnvRel (g :: G) es c h ->
  exists e es' fid c' fr, es = e :: es' /\ c = (fid, None) :: c' /\ nth_error h fid = Some fr /\
    ScopeRel g e (fr_slots fr) /\ EnvRel G es' c' h.
Proof. intros H. inversion H; subst. eexists _, _, _, _, _. repeat split; eauto. Qed.

Theorem define_is_declare_old g G es c h n i v :
  EnvRel (g :: G) es c h -> GOK (g :: G) -> NoDup (map fst c) -> assoc n g = Some i ->
  exists h', declare_var h (cur_of c) n v = sret h' /\
    EnvRel (g :: G) (define_env (Some i) n v es) c h'.
Proof.
  intros H Hok Hnd Ha. destruct (er_inv_cons _ _ _ _ _ H) as (e & es' & fid & c' & fr & -> & -> & Hn & Hs & Hr).
  destruct (GOK_head _ _ Hok) as [Hnn Hni]. cbn [map fst] in Hnd. inversion Hnd; subst.
  destruct (sr_set _ _ _ _ _ v Hs Hnn Hni Ha) as (e' & fs' & A & B & C).
  cbn [cur_of define_env]. unfold declare_var. rewrite Hn, A, B. eexists. split; [reflexivity|].
  assert (Hlt : (fid < length h)%nat) by (apply nth_error_Some; congruence).
  constructor 2 with (fr := {| fr_slots := fs'; fr_fns := fr_fns fr; fr_parent := fr_parent fr |}).
  - apply nth_set_nth_frame_eq. exact Hlt.
  - exact C.
  - eapply er_frames_same; [exact Hr|]. intros f Hf. apply nth_set_nth_frame_neq. intros ->. tauto.
Qed.

Theorem define_is_declare_new g G es c h n i v :
  EnvRel (g :: G) es c h -> NoDup (map fst c) -> assoc n g = None -> ~ In i (scope_ids g) ->
  exists h', declare_var h (cur_of c) n v = sret h' /\
    EnvRel (((n, i) :: g) :: G) (define_env (Some i) n v es) c h'.
Proof.
  intros H Hnd Ha Hi. destruct (er_inv_cons _ _ _ _ _ H) as (e & es' & fid & c' & fr & -> & -> & Hn & Hs & Hr).
  cbn [map fst] in Hnd. inversion Hnd; subst.
  destruct (sr_id_none _ _ _ n i Hs Hi) as [_ A]. destruct (sr_name_none _ _ _ n Hs Ha) as [_ B].
  cbn [cur_of define_env]. unfold declare_var. rewrite Hn, A, B. eexists. split; [reflexivity|].
  assert (Hlt : (fid < length h)%nat) by (apply nth_error_Some; congruence).
  constructor 2 with (fr := {| fr_slots := fr_slots fr ++ [(n, v)]; fr_fns := fr_fns fr; fr_parent := fr_parent fr |}).
  - apply nth_set_nth_frame_eq. exact Hlt.
  - cbn [fr_slots]. constructor. exact Hs.
  - eapply er_frames_same; [exact Hr|]. intros f Hf. apply nth_set_nth_frame_neq. intros ->. tauto.
Qed.

(* S2: push_scope = new_frame whose parent is the current chain *)
Theorem push_is_new_frame G es c h cs :
  EnvRel G es c h ->
  EnvRel ([] :: G) ([] :: es) ((length h, None) :: c)
    (with_fns (h ++ [{| fr_slots := []; fr_fns := []; fr_parent := c |}]) (length h) cs)
  /\ ~ In (length h) (map fst c).
Proof.
  intros H. split.
  - unfold with_fns. rewrite nth_error_app2 by lia. rewrite Nat.sub_diag. cbn [nth_error].
    constructor 2 with (fr := {| fr_slots := []; fr_fns := cs; fr_parent := c |}).
    + apply nth_set_nth_frame_eq. rewrite app_length. cbn. lia.
    + constructor.
    + eapply er_frames_same; [exact H|]. intros f Hf.
      pose proof (er_fids_lt _ _ _ _ H f Hf). rewrite nth_set_nth_frame_neq by lia.
      apply nth_error_app1. lia.
  - intros Hin. pose proof (er_fids_lt _ _ _ _ H _ Hin). lia.
Qed.

(* S2: pop_scope = leaving the innermost frame of the chain *)
Theorem pop_is_chain_tail g G e es fid vis c h :
  EnvRel (g :: G) (e :: es) ((fid, vis) :: c) h -> EnvRel G es c h.
Proof. intros H. inversion H; subst. assumption. Qed.

(* ---------- S1: the state relation without functions ---------- *)
Definition KOK (k : ctx) : Prop :=
  NoDup (sig_ids k) /\
  Forall (fun lv => (exists new, lv_sig lv = new ++ lv_g lv) /\ NoDup (scope_names (lv_g lv)) /\ lv_f lv = []) k.

Definition R1 (_ : unit) (k : ctx) (s : st) (c : chain) (h : heap) : Prop :=
  exists es, env s = es ++ [[]] /\ EnvRel (cv k) es c h /\ NoDup (map fst c) /\ KOK k.

Lemma NoDup_app_intro {A} (a b : list A) :
  NoDup a -> NoDup b -> (forall x, In x a -> ~ In x b) -> NoDup (a ++ b).
Proof.
  induction a as [|x a IH]; cbn; intros Ha Hb Hd; [exact Hb|]. inversion Ha; subst.
  constructor.
  - intros Hin. apply in_app_or in Hin. destruct Hin as [Hin|Hin]; [tauto|]. eapply Hd; eauto.
  - apply IH; auto.
Qed.

Lemma gids_incl k :
  Forall (fun lv => (exists new, lv_sig lv = new ++ lv_g lv) /\ NoDup (scope_names (lv_g lv)) /\ lv_f lv = []) k ->
  incl (flat_map scope_ids (cv k)) (sig_ids k).
Proof.
  induction 1 as [|lv k ((new & Hn) & _) _ IH]; cbn; [apply incl_refl|].
  rewrite Hn. apply incl_app.
  - intros x Hx. apply in_or_app. left. unfold scope_ids in *. rewrite map_app. apply in_or_app. right. exact Hx.
  - apply incl_appr. exact IH.
Qed.

Lemma KOK_GOK k : KOK k -> GOK (cv k).
Proof.
  intros [Hnd Hf]. split.
  - clear Hnd. induction Hf as [|lv k (_ & Hn & _) _ IH]; cbn [cv map]; constructor; auto.
  - induction Hf as [|lv k ((new & Hn) & Hnn & Hlf) Hf IH]; [constructor|].
    unfold sig_ids in Hnd. cbn [flat_map] in Hnd. fold (sig_ids k) in Hnd.
    cbn [cv map flat_map]. fold (cv k).
    apply NoDup_app_intro.
    + apply NoDup_app_l in Hnd. rewrite Hn in Hnd. unfold scope_ids in Hnd. rewrite map_app in Hnd.
      eapply NoDup_app_r; eauto.
    + apply IH. eapply NoDup_app_r; eauto.
    + intros x Hx Hx'. apply (gids_incl _ Hf) in Hx'.
      eapply NoDup_app_disj; [exact Hnd|exact Hx'|].
      rewrite Hn. unfold scope_ids. rewrite map_app. apply in_or_app. right. exact Hx.
Qed.

Lemma KOK_tail lv k : KOK (lv :: k) -> KOK k.
Proof.
  intros [Hnd Hf]. inversion Hf; subst. split; [|assumption].
  unfold sig_ids in Hnd. cbn [flat_map] in Hnd. eapply NoDup_app_r; eauto.
Qed.

Lemma sret_inj {A} (a b : A) : sret a = sret b -> a = b.
Proof. intros H. inversion H. reflexivity. Qed.

Lemma decls_after_app ts : forall top, exists new, decls_after top ts = new ++ top.
Proof.
  induction ts as [|t r IH]; intros top; [exists []; reflexivity|].
  destruct t; cbn [decls_after]; try apply IH.
  destruct l as [i|]; [|apply IH]. destruct (assoc n top); [apply IH|].
  destruct (IH ((n, i) :: top)) as (new & E). exists (new ++ [(n, i)]). rewrite E, <- app_assoc. reflexivity.
Qed.

Lemma vlookup_nil_all (F : fenv) f : Forall (fun sc => sc = []) F -> vlookup F f = None.
Proof. induction 1 as [|sc F -> _ IH]; cbn; auto. Qed.

Lemma predecl_no_fn b fs : fn_table b = [] -> predecl b = Some fs -> fs = [].
Proof.
  revert fs. induction b as [|t r IH]; cbn; intros fs Hf Hp; [congruence|].
  unfold fn_table in *. cbn [flat_map] in Hf. apply app_eq_nil in Hf. destruct Hf as [Ht Hr].
  destruct t; try (apply IH; assumption). discriminate Ht.
Qed.

Section S1.
Variable eps : f64.

Lemma K1_read : forall g k s c h n i v,
  R1 g k s c h -> vlookup (cv k) n = Some i -> read_var h n c = sret v ->
  lookup_env (Some i) n (env s) = Some v.
Proof.
  intros g k s c h n i v (es & He & Hr & Hnd & Hk) Hl Hv.
  destruct (lookup_by_id_is_resolve_by_name _ _ _ _ _ _ Hr (KOK_GOK _ Hk) Hl) as (v' & A & B).
  rewrite B in Hv. apply sret_inj in Hv. subst v'. rewrite He, lookup_env_app_nil. exact A.
Qed.

Lemma K1_write : forall g k s c h n i v h',
  R1 g k s c h -> vlookup (cv k) n = Some i -> write_var h n c v = sret h' ->
  exists e', assign_env (Some i) n v (env s) = Some e' /\ R1 g k (with_env e' s) c h'.
Proof.
  intros g k s c h n i v h' (es & He & Hr & Hnd & Hk) Hl Hw.
  destruct (assign_by_id_is_write_by_name _ _ _ _ _ _ v Hr (KOK_GOK _ Hk) Hnd Hl) as (es' & h'' & A & B & C & _).
  rewrite B in Hw. apply sret_inj in Hw. subst h''.
  exists (es' ++ [[]]). rewrite He, assign_env_app_nil, A. split; [reflexivity|].
  exists es'. cbn [with_env env]. auto.
Qed.

Lemma define_env_app e es rest l n v :
  define_env l n v ((e :: es) ++ rest) = define_env l n v (e :: es) ++ rest.
Proof. cbn. destruct (set_slot l n v e); reflexivity. Qed.

Lemma K1_decl_old : forall g lv k s c h n i v h',
  R1 g (lv :: k) s c h -> assoc n (lv_g lv) = Some i ->
  declare_var h (cur_of c) n v = sret h' ->
  R1 g (lv :: k) (with_env (define_env (Some i) n v (env s)) s) c h'.
Proof.
  intros g lv k s c h n i v h' (es & He & Hr & Hnd & Hk) Ha Hd.
  cbn [cv map] in Hr.
  destruct (define_is_declare_old _ _ _ _ _ _ _ v Hr (KOK_GOK _ Hk) Hnd Ha) as (h'' & A & B).
  rewrite A in Hd. apply sret_inj in Hd. subst h''.
  destruct (er_inv_cons _ _ _ _ _ Hr) as (e & es' & fid & c' & fr & -> & _).
  exists (define_env (Some i) n v (e :: es')). cbn [with_env env].
  rewrite He, define_env_app. auto.
Qed.

Lemma K1_decl_new : forall g lv k s c h n i v h',
  R1 g (lv :: k) s c h -> assoc n (lv_g lv) = None ->
  (exists r, decls_after ((n, i) :: lv_g lv) r = lv_sig lv) ->
  NoDup (sig_ids (lv :: k)) ->
  declare_var h (cur_of c) n v = sret h' ->
  R1 g (set_g lv ((n, i) :: lv_g lv) :: k) (with_env (define_env (Some i) n v (env s)) s) c h'.
Proof.
  intros g lv k s c h n i v h' (es & He & Hr & Hnd & Hk) Ha (r & Hsig) Hns Hd.
  cbn [cv map] in Hr.
  destruct (decls_after_app r ((n, i) :: lv_g lv)) as (new & Enew). rewrite Hsig in Enew.
  assert (Hi : ~ In i (scope_ids (lv_g lv))).
  { unfold sig_ids in Hns. cbn [flat_map] in Hns. apply NoDup_app_l in Hns. rewrite Enew in Hns.
    unfold scope_ids in Hns. rewrite map_app in Hns. apply NoDup_app_r in Hns. cbn in Hns.
    inversion Hns; subst. assumption. }
  destruct (define_is_declare_new _ _ _ _ _ _ _ v Hr Hnd Ha Hi) as (h'' & A & B).
  rewrite A in Hd. apply sret_inj in Hd. subst h''.
  destruct (er_inv_cons _ _ _ _ _ Hr) as (e & es' & fid & c' & fr & -> & _).
  exists (define_env (Some i) n v (e :: es')). cbn [with_env env].
  rewrite He, define_env_app. split; [reflexivity|]. split; [exact B|]. split; [exact Hnd|].
  destruct Hk as [Hk1 Hk2]. inversion Hk2 as [|? ? (Hp & Hnn & Hlf) Hk3]; subst. split.
  - exact Hns.
  - constructor; [|exact Hk3]. cbn [set_g lv_g lv_sig lv_f]. split; [eauto|]. split; [|exact Hlf].
    cbn. constructor; [apply assoc_none_notin; exact Ha|exact Hnn].
Qed.

Lemma K1_exit : forall g k s c h lv s' fid h',
  R1 g k s c h -> R1 tt (lv :: k) s' ((fid, None) :: c) h' ->
  tl (env_shape (env s')) = env_shape (env s) -> tl (fns s') = fns s -> hext h h' ->
  R1 g k (pop_scope s') c h'.
Proof.
  intros g k s c h lv s' fid h' _ (es & He & Hr & Hnd & Hk) _ _ _.
  cbn [cv map] in Hr. inversion Hr; subst.
  eexists. cbn [pop_scope env]. rewrite He. cbn [tl app]. split; [reflexivity|].
  split; [eassumption|]. split; [inversion Hnd; assumption|]. eapply KOK_tail; eauto.
Qed.

Lemma K1_call : forall g k s c h f fid cl,
  R1 g k s c h -> vlookup (cf k) f = Some fid -> resolve_fn h f c = Some cl -> False.
Proof.
  intros g k s c h f fid cl (es & He & Hr & Hnd & [_ Hk]) Hl _.
  rewrite vlookup_nil_all in Hl; [discriminate|].
  clear - Hk. unfold cf. induction Hk as [|lv k (_ & _ & Hlf) _ IH]; cbn [map]; constructor; auto.
Qed.

Lemma K1_enter : forall g k s c h b fs,
  R1 g k s c h -> chk_block (cv k) (cf k) b = true -> predecl b = Some fs -> BOK [] k b ->
  R1 g (enter_level b fs :: k)
    {| env := [] :: env s; fns := hoisted b [] :: fns s |}
    ((length h, None) :: c)
    (with_fns (h ++ [{| fr_slots := []; fr_fns := []; fr_parent := c |}]) (length h)
              (block_closures b (length h) [] [])).
Proof.
  intros g k s c h b fs (es & He & Hr & Hnd & Hk) Hc Hp Hbok.
  destruct (push_is_new_frame _ _ _ _ (block_closures b (length h) [] []) Hr) as [A B].
  exists ([] :: es). cbn [env]. rewrite He. split; [reflexivity|]. split; [exact A|].
  split; [cbn [map fst]; constructor; assumption|].
  pose proof (ST_nodup [] _ _ _ _ (ST_enter [] k b fs Hbok)) as Hns. split; [exact Hns|].
  destruct Hk as [_ Hk]. constructor; [|exact Hk]. cbn [enter_level lv_g lv_sig lv_f].
  split; [exists (decls_after [] b); rewrite app_nil_r; reflexivity|]. split; [constructor|].
  destruct Hbok as [_ Hi]. eapply predecl_no_fn; eauto.
  destruct (fn_table b) as [|x r]; [reflexivity|]. exfalso. apply (Hi x). cbn. auto.
Qed.

Theorem S1_sim : forall n, SimB eps [] unit R1 n.
Proof.
  intros n.
  refine (kit_simB eps [] unit (fun _ _ => tt) R1 K1_read K1_write K1_decl_old K1_decl_new _ _ _ n).
  - intros g k s c h b fs. destruct g. apply K1_enter.
  - intros g k s c h lv s' fid h'. apply K1_exit.
  - intros g k s c h f fid cl HR Hl Hres. exfalso. eapply K1_call; eauto.
Qed.

End S1.

(* ---------- from the boolean checkers to the static side conditions ---------- *)
Lemma memZ_in x l : memZ x l = true <-> In x l.
Proof.
  induction l as [|y r IH]; cbn; [split; [discriminate|tauto]|].
  rewrite orb_true_iff, IH, Z.eqb_eq. split; intros [H|H]; auto.
Qed.

Lemma nodupZ_NoDup l : nodupZ l = true -> NoDup l.
Proof.
  induction l as [|x r IH]; cbn; intros H; [constructor|].
  apply andb_true_iff in H. destruct H as [H1 H2]. constructor; [|auto].
  intros Hin. apply memZ_in in Hin. rewrite Hin in H1. discriminate.
Qed.

Section StmtInd.
Variable P : stmt -> Prop.
Hypothesis H_fun : forall sid n ps body fid ls ll, Forall P body -> P (SFun sid n ps body fid ls ll).
Hypothesis H_make : forall sid n l e, P (SMake sid n l e).
Hypothesis H_set : forall sid n l e, P (SSet sid n l e).
Hypothesis H_setidx : forall sid t e, P (SSetIdx sid t e).
Hypothesis H_if : forall sid c t f, Forall P t -> (match f with Some fb => Forall P fb | None => True end) ->
  P (SIf sid c t f).
Hypothesis H_loop : forall sid c b, Forall P b -> P (SLoop sid c b).
Hypothesis H_block : forall sid b, Forall P b -> P (SBlock sid b).
Hypothesis H_ret : forall sid e, P (SRet sid e).
Hypothesis H_break : forall sid, P (SBreak sid).
Hypothesis H_next : forall sid, P (SNext sid).
Hypothesis H_expr : forall sid e, P (SExpr sid e).

Fixpoint stmt_ind_nested (t : stmt) : P t :=
  let all := fix all (b : list stmt) : Forall P b :=
    match b with
    | [] => Forall_nil P
    | x :: r => Forall_cons x (stmt_ind_nested x) (all r)
    end in
  match t with
  | SFun sid n ps body fid ls ll => H_fun sid n ps body fid ls ll (all body)
  | SMake sid n l e => H_make sid n l e
  | SSet sid n l e => H_set sid n l e
  | SSetIdx sid tg e => H_setidx sid tg e
  | SIf sid c t f =>
      H_if sid c t f (all t) (match f with Some fb => all fb | None => I end)
  | SLoop sid c b => H_loop sid c b (all b)
  | SBlock sid b => H_block sid b (all b)
  | SRet sid e => H_ret sid e
  | SBreak sid => H_break sid
  | SNext sid => H_next sid
  | SExpr sid e => H_expr sid e
  end.
End StmtInd.

Lemma nofn_forall b :
  Forall (fun t => nofn_stmt t = true -> fn_table_stmt t = []) b -> nofn b = true -> fn_table b = [].
Proof.
  induction 1 as [|t r Ht _ IH]; cbn; intros H; [reflexivity|].
  apply andb_true_iff in H. destruct H as [H1 H2]. unfold fn_table in *. cbn [flat_map].
  rewrite (Ht H1), (IH H2). reflexivity.
Qed.

Lemma nofn_stmt_table t : nofn_stmt t = true -> fn_table_stmt t = [].
Proof.
  induction t using stmt_ind_nested; cbn [fn_table_stmt]; intros Hn; try reflexivity.
  - discriminate Hn.
  - change (nofn_stmt (SIf sid c t f)) with (nofn t && match f with Some fb => nofn fb | None => true end) in Hn.
    apply andb_true_iff in Hn. destruct Hn as [H1 H2].
    change (flat_map fn_table_stmt t) with (fn_table t). rewrite (nofn_forall _ H H1).
    destruct f as [fb|]; [|reflexivity]. change (flat_map fn_table_stmt fb) with (fn_table fb).
    rewrite (nofn_forall _ H0 H2). reflexivity.
  - change (nofn_stmt (SLoop sid c b)) with (nofn b) in Hn. apply (nofn_forall _ H Hn).
  - change (nofn_stmt (SBlock sid b)) with (nofn b) in Hn. apply (nofn_forall _ H Hn).
Qed.

Lemma nofn_fn_table b : nofn b = true -> fn_table b = [].
Proof.
  apply nofn_forall. induction b as [|t r IH]; constructor; auto. intros; apply nofn_stmt_table; assumption.
Qed.

(* the endings that are compared: the reference run finished or raised a runtime error *)
Definition comparable (e : sending) : bool :=
  match e with SDone | SRtErr _ => true | _ => false end.
Definition ending_of (e : sending) : ending :=
  match e with
  | SDone => Done | SRtErr x => RtErr x
  | SIsStuck => Panicked PVarMissing | SOutOfFuel => EFuel | SUnsupported => Unsupported
  end.

Lemma R1_init : R1 tt [] init_st [] [].
Proof.
  exists []. split; [reflexivity|]. split; [constructor|]. split; [constructor|].
  split; constructor.
Qed.

(* Stage S1.  For every program without user-defined functions whose ids are lexical, whatever
   the names-only reference interpreter computes (printed values and ending), the
   implementation model computes too, with the same fuel. *)
Theorem impl_equals_spec_nofn eps fuel p o e :
  lexical p = true -> nofn p = true ->
  run_spec eps fuel p = (o, e) -> comparable e = true ->
  run_impl None eps fuel p = (o, ending_of e).
Proof.
  intros Hlex Hnf Hrun Hcmp. unfold lexical, ids_ok in Hlex.
  apply andb_true_iff in Hlex. destruct Hlex as [Hchk Hids]. apply andb_true_iff in Hids. destruct Hids as [Hids _].
  assert (Hbok : BOK [] [] p).
  { split; [rewrite app_nil_r; apply nodupZ_NoDup; exact Hids|]. rewrite (nofn_fn_table _ Hnf). intros x []. }
  pose proof (S1_sim eps fuel tt [] p init_st [] [] R1_init Hchk Hbok) as Hsim.
  unfold run_spec in Hrun. unfold run_impl.
  destruct (sblock eps fuel p [] []) as [o' r]. destruct r; inversion Hrun; subst; cbn in Hcmp; try discriminate; cbn [rsim] in Hsim.
  - destruct Hsim as (b & -> & _). reflexivity.
  - rewrite Hsim. reflexivity.
Qed.

(* ---------- function visibility ---------- *)
(* the functions defined directly in a block, in definition order *)
Fixpoint block_fns (b : list stmt) : list fdef :=
  match b with
  | [] => []
  | SFun _ n ps body fid ls ll :: r => fdef_of n ps body fid ls ll :: block_fns r
  | _ :: r => block_fns r
  end.

Lemma hoisted_rev b : forall acc, hoisted b acc = rev (block_fns b) ++ acc.
Proof.
  induction b as [|t r IH]; intros acc; [reflexivity|].
  destruct t; cbn [hoisted block_fns]; try apply IH.
  rewrite IH. cbn [rev]. rewrite <- app_assoc. reflexivity.
Qed.

Lemma find_fn_unique fid n l fd :
  NoDup (map f_id l) -> In fd l -> f_id fd = Some fid -> find_fn_scope (Some fid) n l = Some fd.
Proof.
  induction l as [|x r IH]; cbn; intros Hnd Hin Hid; [tauto|]. inversion Hnd; subst.
  unfold fdef_matches. destruct Hin as [->|Hin].
  - rewrite Hid. cbn. rewrite Z.eqb_refl. reflexivity.
  - destruct (opt_eqb (f_id x) (Some fid)) eqn:E; [|auto].
    exfalso. apply H1. unfold opt_eqb in E. destruct (f_id x) as [y|] eqn:Ex; [|discriminate].
    apply Z.eqb_eq in E. subst y. rewrite <- Hid. apply in_map. exact Hin.
Qed.

Lemma find_fn_app t n l1 l2 :
  find_fn_scope t n (l1 ++ l2) =
  match find_fn_scope t n l1 with Some f => Some f | None => find_fn_scope t n l2 end.
Proof. induction l1 as [|x r IH]; cbn; [reflexivity|]. destruct (fdef_matches t n x); auto. Qed.

(* A function is found from anywhere in its block — before or after its definition —, the
   innermost block that has a match wins, otherwise the enclosing scopes are searched
   unchanged, and leaving the block removes exactly its functions. *)
Theorem function_visibility b s :
  exists s1, hoist None b (push_scope [] s) = Ok s1 /\
    (forall fd fid, NoDup (map f_id (block_fns b)) -> In fd (block_fns b) -> f_id fd = Some fid ->
       lookup_fn (Some fid) (f_name fd) (fns s1) = Some fd) /\
    (forall t n, find_fn_scope t n (rev (block_fns b)) = None ->
       lookup_fn t n (fns s1) = lookup_fn t n (fns s)) /\
    (forall t n f, find_fn_scope t n (rev (block_fns b)) = Some f -> lookup_fn t n (fns s1) = Some f) /\
    fns (pop_scope s1) = fns s /\ env (pop_scope s1) = env s.
Proof.
  eexists. split; [apply hoist_push|]. cbn [fns env pop_scope tl lookup_fn].
  rewrite hoisted_rev, app_nil_r. repeat split.
  - intros fd fid Hnd Hin Hid. rewrite (find_fn_unique fid (f_name fd) (rev (block_fns b)) fd); auto.
    + rewrite map_rev. apply NoDup_rev. exact Hnd.
    + apply in_rev. rewrite rev_involutive. exact Hin.
  - intros t n ->. reflexivity.
  - intros t n f ->. reflexivity.
Qed.

(* ---------- the known defect (DESIGN section 7 row 8) as closed terms ---------- *)
Definition nm_outer := [111;117;116;101;114].
Definition nm_helper := [104;101;108;112;101;114].
Definition f64_one := of_bits 4607182418800017408.

(* do outer(n) start
     if to say (n na 0) start shout(helper()) end
     make x get n
     if to say (n pass 0) start outer(n minus 1) end
     do helper() start return x end
   end
   outer(1)                      -- as resolved by the checker (ids from the `ast` dump) *)
Definition early_capture_recursion : list stmt :=
  [SFun (Some 0) nm_outer [[110]]
     [SIf (Some 1) (EBin OEq (EVar [110] (Some 0)) (ENum (of_bits 0)))
        [SExpr (Some 2) (ECall (EVar n_shout None) [ECall (EVar nm_helper None) [] (Some 2)] None)] None;
      SMake (Some 3) [120] (Some 1) (EVar [110] (Some 0));
      SIf (Some 4) (EBin OGt (EVar [110] (Some 0)) (ENum (of_bits 0)))
        [SExpr (Some 5) (ECall (EVar nm_outer None) [EBin Minus (EVar [110] (Some 0)) (ENum f64_one)] (Some 1))] None;
      SFun (Some 6) nm_helper [] [SRet (Some 7) (Some (EVar [120] (Some 1)))] (Some 2) 1 0]
     (Some 1) 0 2;
   SExpr (Some 8) (ECall (EVar nm_outer None) [ENum f64_one] (Some 1))].

(* do outer() start shout(helper())  make x get 1  do helper() start return x end end  outer() *)
Definition early_capture_panic : list stmt :=
  [SFun (Some 0) nm_outer []
     [SExpr (Some 1) (ECall (EVar n_shout None) [ECall (EVar nm_helper None) [] (Some 2)] None);
      SMake (Some 2) [120] (Some 0) (ENum f64_one);
      SFun (Some 3) nm_helper [] [SRet (Some 4) (Some (EVar [120] (Some 0)))] (Some 2) 0 0]
     (Some 1) 0 1;
   SExpr (Some 5) (ECall (EVar nm_outer None) [] (Some 1))].

Definition eps_default := of_bits 4372995238176751616.   (* 1e-10; any value works below *)

Lemma early_capture_recursion_runs :
  lexical early_capture_recursion = true /\
  no_early_capture early_capture_recursion = false /\
  run_impl None eps_default 50 early_capture_recursion = ([VNum f64_one], Done) /\
  run_spec eps_default 50 early_capture_recursion = ([], SIsStuck).
Proof. vm_compute. repeat split. Qed.

Lemma early_capture_panic_runs :
  lexical early_capture_panic = true /\
  no_early_capture early_capture_panic = false /\
  run_impl None eps_default 50 early_capture_panic = ([], Panicked PVarMissing) /\
  run_spec eps_default 50 early_capture_panic = ([], SIsStuck).
Proof. vm_compute. repeat split. Qed.
