(* Proofs about theories/Scratch.v (C14): sharing two bump arenas between nested scratch
   borrows under the stated discipline never disturbs a block of an outer borrow; LIFO drops
   restore the offsets; after `init` every address and every success/failure is the one
   fresh arenas would give; the generated CLI / playground wiring is an instance; the
   exit status is 0 iff no error diagnostic was emitted.  Built on proofs/BumpProofs.v. *)
From Coq Require Import ZArith List Bool Lia.
Require Import NS.theories.Generated NS.theories.Bump NS.theories.GenWiring NS.theories.Scratch.
Require Import NS.proofs.BumpProofs.
Import ListNotations.
Open Scope Z_scope.

(* ---------- selectors ---------- *)

Lemma sel_upd_same a st c : sel a (upd a st c) = c.
Proof. destruct a; reflexivity. Qed.

Lemma sel_upd_other a st c : sel (negb a) (upd a st c) = sel (negb a) st.
Proof. destruct a; reflexivity. Qed.

Lemma bors_upd a st c : ss_bors (upd a st c) = ss_bors st.
Proof. destruct a; reflexivity. Qed.

Lemma sel_rebuild a st l : sel a (mkSst (ss0 st) (ss1 st) l) = sel a st.
Proof. destruct a; reflexivity. Qed.

Lemma sel_cases a a' st c : sel a' (upd a st c) = if Bool.eqb a' a then c else sel a' st.
Proof. destruct a, a'; reflexivity. Qed.

(* passing a borrow of one scratch arena as the conflict yields the other one *)
Lemma choose_flip a : choose (CScratch a) = negb a.
Proof. destruct a; reflexivity. Qed.

Lemma choose_none : choose CNone = false /\ choose COther = false.
Proof. split; reflexivity. Qed.

(* ---------- invariant ---------- *)

Definition side (h : borrow) (x : blk) : Prop :=
  if bo_next h <=? b_id x then bo_mark h <= b_off x else b_off x + b_len x <= bo_mark h.

(* Borrow h of arena c: its saved offset is at most the current offset; every block
   allocated before the borrow ends at or below the saved offset, every block allocated
   after it starts at or above it. *)
Definition bor_ok (c : cst) (h : borrow) : Prop :=
  0 <= bo_mark h <= aoff c /\ bo_next h <= c_next c /\ Forall (side h) (c_live c).

Fixpoint bors_sorted (l : list borrow) : Prop :=
  match l with
  | [] => True
  | h :: r =>
      Forall (fun h' => bo_arena h' = bo_arena h -> bo_mark h' <= bo_mark h /\ bo_next h' <= bo_next h) r
      /\ bors_sorted r
  end.

Definition SInv (st : sst) : Prop :=
  Inv (ss0 st) /\ Inv (ss1 st) /\
  Forall (fun h => bor_ok (sel (bo_arena h) st) h) (ss_bors st) /\
  bors_sorted (ss_bors st).

Lemma SInv_sel a st : SInv st -> Inv (sel a st).
Proof. intros (H0 & H1 & _). destruct a; assumption. Qed.

Lemma top_of_In a l h : top_of a l = Some h -> In h l /\ bo_arena h = a.
Proof.
  unfold top_of. intros H. apply find_some in H. destruct H as [Hin He].
  apply Bool.eqb_prop in He. auto.
Qed.

Lemma top_dominates a l h :
  bors_sorted l -> top_of a l = Some h ->
  forall h', In h' l -> bo_arena h' = a -> bo_mark h' <= bo_mark h /\ bo_next h' <= bo_next h.
Proof.
  induction l as [|x r IH]; cbn [bors_sorted top_of find]; intros Hs Ht h' Hin Ha; [destruct Hin|].
  destruct Hs as [Hx Hr].
  destruct (Bool.eqb (bo_arena x) a) eqn:E.
  - inversion Ht; subst h. apply Bool.eqb_prop in E.
    destruct Hin as [->|Hin]; [lia|].
    rewrite Forall_forall in Hx. apply Hx; [assumption|congruence].
  - destruct Hin as [->|Hin].
    + rewrite Ha in E. rewrite Bool.eqb_reflx in E. discriminate.
    + apply IH; assumption.
Qed.

(* ---------- one client step under the discipline ---------- *)

Lemma In_replace_other (l : list blk) id nb x : In x l -> b_id x <> id -> In x (replace_blk l id nb).
Proof.
  intros Hin Hne. unfold replace_blk. apply in_map_iff. exists x. split; [|assumption].
  destruct (b_id x =? id) eqn:E; [apply Z.eqb_eq in E; contradiction|reflexivity].
Qed.

Lemma side_true h x : bo_next h <= b_id x -> side h x -> bo_mark h <= b_off x.
Proof. unfold side. intros H. destruct (bo_next h <=? b_id x) eqn:E; [auto|apply Z.leb_gt in E; lia]. Qed.

Lemma side_false h x : b_id x < bo_next h -> side h x -> b_off x + b_len x <= bo_mark h.
Proof. unfold side. intros H. destruct (bo_next h <=? b_id x) eqn:E; [apply Z.leb_le in E; lia|auto]. Qed.

Lemma side_mk_true h x : bo_next h <= b_id x -> bo_mark h <= b_off x -> side h x.
Proof. unfold side. intros H1 H2. destruct (bo_next h <=? b_id x) eqn:E; [auto|apply Z.leb_gt in E; lia]. Qed.

Lemma Forall_filter {A} (P : A -> Prop) f l : Forall P l -> Forall P (filter f l).
Proof.
  intros H. apply Forall_forall. intros x Hx. apply filter_In in Hx. rewrite Forall_forall in H. apply H. tauto.
Qed.

Lemma alloc_raw_base_cap dbg s bytes al beg len s' :
  alloc_raw dbg s bytes al = Some (beg, len, s') ->
  a_base (s_a s') = a_base (s_a s) /\ a_cap (s_a s') = a_cap (s_a s).
Proof.
  unfold alloc_raw. destruct (_ >? a_com (s_a s)).
  - destruct (_ >? a_cap (s_a s)); [discriminate|]. intros H; inversion H; subst. split; reflexivity.
  - intros H; inversion H; subst. split; reflexivity.
Qed.

Lemma grow_len dbg s ptr old new al np len s' :
  grow dbg s ptr old new al = Some (np, len, s') -> len = new.
Proof.
  unfold grow. destruct (_ =? _); destruct (alloc_raw _ _ _ _) as [[[? ?] ?]|]; intros H; inversion H; reflexivity.
Qed.

(* facts about the arena after a successful grow, whichever branch was taken *)
Lemma grow_facts dbg c g delta np len s' :
  Inv c -> In g (c_live c) -> 0 <= delta ->
  grow dbg (c_s c) (b_off g) (b_len g) (b_len g + delta) (b_al g) = Some (np, len, s') ->
  len = b_len g + delta /\ (np = b_off g \/ aoff c <= np) /\ aoff c <= a_off (s_a s') /\
  a_base (s_a s') = a_base (s_a (c_s c)) /\ a_cap (s_a s') = a_cap (s_a (c_s c)).
Proof.
  intros HI Hin Hd Eg. pose proof HI as (Ha & Hl & _).
  rewrite Forall_forall in Hl. destruct (Hl g Hin) as (Hg0 & Hg1 & Hg2 & Hg3 & Hg4 & Hg5).
  unfold grow in Eg. unfold aoff.
  destruct (b_off g + b_len g =? a_off (s_a (c_s c))) eqn:Et.
  - destruct (alloc_raw dbg (c_s c) (b_len g + delta - b_len g) 1) as [[[beg l2] s2]|] eqn:E; [|discriminate].
    inversion Eg; subst np len s'; clear Eg.
    assert (Hp1 : pow2 1) by (exists 0; split; [lia|reflexivity]).
    destruct (alloc_raw_some dbg (c_s c) (b_len g + delta - b_len g) 1 beg l2 s2 Ha ltac:(lia) Hp1 E) as (_ & _ & Hge & _ & _ & Hbase & Hoff & _ & Hcap & _).
    repeat split; try lia; auto.
  - destruct (alloc_raw dbg (c_s c) (b_len g + delta) (b_al g)) as [[[beg l2] s2]|] eqn:E; [|discriminate].
    inversion Eg; subst np len s'; clear Eg. cbn [s_a].
    destruct (alloc_raw_some dbg (c_s c) (b_len g + delta) (b_al g) beg l2 s2 Ha ltac:(lia) Hg3 E) as (_ & _ & Hge & _ & _ & Hbase & Hoff & _ & Hcap & _).
    repeat split; try lia; auto.
Qed.

Lemma grow_zeroed_unfold dbg s ptr old new al :
  grow_zeroed dbg s ptr old new al =
  match grow dbg s ptr old new al with
  | Some (np, len, s') => Some (np, len, mkSt (s_a s') (fill (s_m s') (np + old) (new - old) 0))
  | None => None
  end.
Proof. reflexivity. Qed.

(* The common shape of the state after one client op: used by both preservation lemmas. *)
Lemma cstep_bor_ok dbg c h o h' :
  Inv c -> op_ok o -> bor_ok c h -> disc_cli c h o ->
  bor_ok c h' -> bo_mark h' <= bo_mark h -> bo_next h' <= bo_next h ->
  bor_ok (fst (cstep dbg c o)) h'.
Proof.
  intros HI Hop Hh Hd Hh' Hm Hn.
  pose proof HI as (Ha & Hl & _).
  destruct Hh as ((Hhm0 & Hhm1) & Hhn & Hhs).
  destruct Hh' as ((Hm0 & Hm1) & Hn1 & Hs).
  unfold aoff in *.
  destruct o as [bytes k|bytes k|idx delta z|idx d|t|idx| |idx seed| |]; cbn [cstep op_ok disc_cli] in *.
  - (* OAlloc *)
    assert (Hal : pow2 (2 ^ Z.of_nat k)) by (exists (Z.of_nat k); split; lia).
    destruct (alloc_raw dbg (c_s c) bytes (2 ^ Z.of_nat k)) as [[[beg len] s']|] eqn:E; cbn [fst];
      [|unfold bor_ok, aoff; auto].
    destruct (alloc_raw_some _ _ _ _ _ _ _ Ha Hop Hal E) as (-> & _ & Hge & _ & _ & _ & Hoff & _).
    unfold bor_ok, aoff; cbn [c_s c_live c_next]. refine (conj _ (conj _ _)); [lia|lia|].
    constructor; [|assumption]. apply side_mk_true; cbn [b_id b_off]; lia.
  - (* OAllocZ *)
    assert (Hal : pow2 (2 ^ Z.of_nat k)) by (exists (Z.of_nat k); split; lia).
    unfold alloc_zeroed.
    destruct (alloc_raw dbg (c_s c) bytes (2 ^ Z.of_nat k)) as [[[beg len] s']|] eqn:E; cbn [fst];
      [|unfold bor_ok, aoff; auto].
    destruct (alloc_raw_some _ _ _ _ _ _ _ Ha Hop Hal E) as (-> & _ & Hge & _ & _ & _ & Hoff & _).
    unfold bor_ok, aoff; cbn [c_s c_live c_next s_a]. refine (conj _ (conj _ _)); [lia|lia|].
    constructor; [|assumption]. apply side_mk_true; cbn [b_id b_off]; lia.
  - (* OGrow *)
    destruct (pick (c_live c) idx) as [g|] eqn:Ep; cbn [fst]; [|unfold bor_ok, aoff; auto].
    pose proof (pick_In _ _ _ Ep) as Hgin.
    pose proof Hs as Hs'. rewrite Forall_forall in Hs'. pose proof (Hs' g Hgin) as Hsg.
    apply side_true in Hsg; [|lia].
    assert (Hcore : forall np len s' init' s'',
      grow dbg (c_s c) (b_off g) (b_len g) (b_len g + delta) (b_al g) = Some (np, len, s') ->
      s_a s'' = s_a s' ->
      bor_ok (mkCst s'' (replace_blk (c_live c) (b_id g) (mkBlk (b_id g) np len (b_al g) init')) (c_next c) (c_marks c)) h').
    { intros np len s' init' s'' Eg Hs''.
      destruct (grow_facts dbg c g delta np len s' HI Hgin Hop Eg) as (_ & Hnp & Hoff & _).
      unfold aoff in *. unfold bor_ok, aoff; cbn [c_s c_live c_next]. rewrite Hs''.
      refine (conj _ (conj _ _)); [lia|lia|].
      apply Forall_replace; [assumption|]. apply side_mk_true; cbn [b_id b_off]; lia. }
    destruct z.
    + rewrite grow_zeroed_unfold.
      destruct (grow dbg (c_s c) (b_off g) (b_len g) (b_len g + delta) (b_al g)) as [[[np len] s']|] eqn:Eg; cbn [fst];
        [|unfold bor_ok, aoff; auto].
      eapply Hcore; [reflexivity|reflexivity].
    + destruct (grow dbg (c_s c) (b_off g) (b_len g) (b_len g + delta) (b_al g)) as [[[np len] s']|] eqn:Eg; cbn [fst];
        [|unfold bor_ok, aoff; auto].
      eapply Hcore; [reflexivity|reflexivity].
  - (* OShrink *)
    destruct (pick (c_live c) idx) as [g|] eqn:Ep; cbn [fst]; [|unfold bor_ok, aoff; auto].
    pose proof (pick_In _ _ _ Ep) as Hgin.
    pose proof Hs as Hs'. rewrite Forall_forall in Hs'. pose proof (Hs' g Hgin) as Hsg.
    apply side_true in Hsg; [|lia].
    rewrite Forall_forall in Hl. destruct (Hl g Hgin) as (Hg0 & Hg1 & Hg2 & _).
    destruct (b_off g + b_len g =? a_off (s_a (c_s c))) eqn:Et; cbn [fst]; [|unfold bor_ok, aoff; auto].
    unfold shrink. rewrite Et. cbn [fst]. apply Z.eqb_eq in Et.
    pose proof (Z.mod_pos_bound d (b_len g + 1) ltac:(lia)) as Hmodb.
    unfold bor_ok, aoff; cbn [c_s c_live c_next s_a a_off]. refine (conj _ (conj _ _)); [lia|lia|].
    apply Forall_filter. apply Forall_replace; [assumption|]. apply side_mk_true; cbn [b_id b_off]; lia.
  - (* OReset *)
    cbn [fst]. unfold do_reset. unfold aoff in Hd.
    rewrite Z.mod_small by lia.
    unfold bor_ok, aoff; cbn [c_s c_live c_next]. rewrite reset_arena. cbn [a_off].
    refine (conj _ (conj _ _)); [lia|lia|]. apply Forall_filter. assumption.
  - (* OResetBlk *)
    destruct (pick (c_live c) idx) as [g|] eqn:Ep; cbn [fst]; [|unfold bor_ok, aoff; auto].
    pose proof (pick_In _ _ _ Ep) as Hgin.
    rewrite Forall_forall in Hhs. pose proof (Hhs g Hgin) as Hsg. apply side_true in Hsg; [|lia].
    unfold do_reset. unfold bor_ok, aoff; cbn [c_s c_live c_next]. rewrite reset_arena. cbn [a_off].
    refine (conj _ (conj _ _)); [lia|lia|]. apply Forall_filter. assumption.
  - (* ODecommit *)
    cbn [fst]. destruct (decommit_arena_ok (c_s c) Ha) as (_ & Hoff & _).
    unfold bor_ok, aoff; cbn [c_s c_live c_next]. rewrite Hoff. auto.
  - (* OWrite *)
    destruct (pick (c_live c) idx) as [g|] eqn:Ep; cbn [fst]; [|unfold bor_ok, aoff; auto].
    pose proof (pick_In _ _ _ Ep) as Hgin.
    pose proof Hs as Hs'. rewrite Forall_forall in Hs'. pose proof (Hs' g Hgin) as Hsg.
    apply side_true in Hsg; [|lia].
    unfold bor_ok, aoff; cbn [c_s c_live c_next s_a]. refine (conj _ (conj _ _)); [lia|lia|].
    apply Forall_replace; [assumption|]. apply side_mk_true; cbn [b_id b_off]; lia.
  - destruct Hd.
  - destruct Hd.
Qed.

(* A block allocated before the borrow stays in the ledger, with the same record. *)
Lemma cstep_outer_kept dbg c h o x :
  Inv c -> op_ok o -> bor_ok c h -> disc_cli c h o ->
  In x (c_live c) -> b_id x < bo_next h -> In x (c_live (fst (cstep dbg c o))).
Proof.
  intros HI Hop Hh Hd Hin Hx.
  pose proof HI as (Ha & Hl & _).
  destruct Hh as ((Hhm0 & Hhm1) & Hhn & Hhs).
  pose proof Hhs as Hhs'. rewrite Forall_forall in Hhs'.
  pose proof (side_false _ _ Hx (Hhs' x Hin)) as Hend.
  unfold aoff in *.
  destruct o as [bytes k|bytes k|idx delta z|idx d|t|idx| |idx seed| |]; cbn [cstep op_ok disc_cli] in *.
  - destruct (alloc_raw dbg (c_s c) bytes (2 ^ Z.of_nat k)) as [[[beg len] s']|]; cbn [fst c_live]; [right|]; assumption.
  - unfold alloc_zeroed. destruct (alloc_raw dbg (c_s c) bytes (2 ^ Z.of_nat k)) as [[[beg len] s']|]; cbn [fst c_live]; [right|]; assumption.
  - destruct (pick (c_live c) idx) as [g|] eqn:Ep; cbn [fst]; [|assumption].
    destruct z.
    + rewrite grow_zeroed_unfold. destruct (grow _ _ _ _ _ _) as [[[np len] s']|]; cbn [fst c_live]; [|assumption].
      apply In_replace_other; [assumption|lia].
    + destruct (grow _ _ _ _ _ _) as [[[np len] s']|]; cbn [fst c_live]; [|assumption].
      apply In_replace_other; [assumption|lia].
  - destruct (pick (c_live c) idx) as [g|] eqn:Ep; cbn [fst]; [|assumption].
    pose proof (pick_In _ _ _ Ep) as Hgin.
    pose proof (side_true h g ltac:(lia) (Hhs' g Hgin)) as Hgs.
    rewrite Forall_forall in Hl. destruct (Hl g Hgin) as (Hg0 & Hg1 & Hg2 & _).
    destruct (b_off g + b_len g =? a_off (s_a (c_s c))) eqn:Et; cbn [fst]; [|assumption].
    unfold shrink. rewrite Et. cbn [fst c_live c_s s_a a_off]. apply Z.eqb_eq in Et.
    pose proof (Z.mod_pos_bound d (b_len g + 1) ltac:(lia)) as Hmodb.
    unfold keep_below. apply filter_In. split; [apply In_replace_other; [assumption|lia]|].
    apply Z.leb_le. lia.
  - cbn [fst]. unfold do_reset; cbn [c_live]. unfold aoff in Hd. rewrite Z.mod_small by lia.
    unfold keep_below. apply filter_In. split; [assumption|]. apply Z.leb_le. lia.
  - destruct (pick (c_live c) idx) as [g|] eqn:Ep; cbn [fst]; [|assumption].
    pose proof (pick_In _ _ _ Ep) as Hgin.
    pose proof (side_true h g ltac:(lia) (Hhs' g Hgin)) as Hgs.
    unfold do_reset; cbn [c_live]. unfold keep_below. apply filter_In. split; [assumption|]. apply Z.leb_le. lia.
  - cbn [fst c_live]. assumption.
  - destruct (pick (c_live c) idx) as [g|] eqn:Ep; cbn [fst c_live]; [|assumption].
    apply In_replace_other; [assumption|lia].
  - destruct Hd.
  - destruct Hd.
Qed.

Lemma disc_not_writes c h o x :
  disc_cli c h o -> b_id x < bo_next h -> ~ writes_to c o (b_id x).
Proof.
  intros Hd Hx Hw. destruct o; cbn [writes_to disc_cli] in *; try contradiction.
  destruct (pick (c_live c) idx); [lia|contradiction].
Qed.

Lemma cstep_outer_contents dbg c h o x :
  Inv c -> op_ok o -> bor_ok c h -> disc_cli c h o ->
  In x (c_live c) -> b_id x < bo_next h ->
  forall i, 0 <= i < b_len x ->
    s_m (c_s (fst (cstep dbg c o))) (b_off x + i) = s_m (c_s c) (b_off x + i).
Proof.
  intros HI Hop Hh Hd Hin Hx i Hi.
  pose proof (cstep_outer_kept dbg c h o x HI Hop Hh Hd Hin Hx) as Hin'.
  pose proof (cstep_inv dbg c o HI Hop) as HI'.
  pose proof HI as (_ & _ & _ & Hnd & _). pose proof HI' as (_ & _ & _ & Hnd' & _).
  apply (cstep_preserves_contents dbg c o (b_id x) x x HI Hop).
  - apply find_blk_unique; auto.
  - apply find_blk_unique; auto.
  - eapply disc_not_writes; eassumption.
  - lia.
Qed.

(* ---------- decommit, drop, init ---------- *)

Lemma decommit_off s : a_off (s_a (decommit s)) = a_off (s_a s).
Proof. unfold decommit. destruct (_ <? _); reflexivity. Qed.

Lemma decommit_mem s : s_m (decommit s) = s_m s.
Proof. unfold decommit. destruct (_ <? _); reflexivity. Qed.

Lemma decommit_cap s : a_cap (s_a (decommit s)) = a_cap (s_a s).
Proof. unfold decommit. destruct (_ <? _); reflexivity. Qed.

Definition maybe_decommit (b : bool) (s : st) : st := if b then decommit s else s.

Lemma maybe_decommit_facts b s :
  arena_ok (s_a s) ->
  arena_ok (s_a (maybe_decommit b s)) /\ a_off (s_a (maybe_decommit b s)) = a_off (s_a s) /\
  s_m (maybe_decommit b s) = s_m s /\ a_base (s_a (maybe_decommit b s)) = a_base (s_a s) /\
  a_cap (s_a (maybe_decommit b s)) = a_cap (s_a s).
Proof.
  intros Ha. destruct b; cbn [maybe_decommit]; [|auto 10].
  destruct (decommit_arena_ok s Ha) as (H1 & H2 & H3).
  exact (conj H1 (conj H2 (conj H3 (conj (decommit_base s) (decommit_cap s))))).
Qed.

Lemma drop_arena_eq dbg c mark :
  drop_arena dbg c mark =
  mkCst (maybe_decommit drop_decommits (c_s (do_reset dbg c mark))) (keep_below mark (c_live c)) (c_next c)
        (trim_marks mark (c_marks c)).
Proof. reflexivity. Qed.

Lemma drop_arena_inv dbg c mark : Inv c -> 0 <= mark <= aoff c -> Inv (drop_arena dbg c mark).
Proof.
  intros HI Hm. pose proof (do_reset_inv dbg c mark HI Hm) as HI1.
  pose proof HI1 as (Ha1 & _).
  destruct (maybe_decommit_facts drop_decommits _ Ha1) as (Hok & Hoff & _ & Hbase & _).
  unfold drop_arena. fold (maybe_decommit drop_decommits (c_s (do_reset dbg c mark))).
  apply inv_set_arena; assumption.
Qed.

Lemma drop_arena_off dbg c mark : aoff (drop_arena dbg c mark) = mark.
Proof.
  rewrite drop_arena_eq. unfold aoff; cbn [c_s]. unfold maybe_decommit.
  destruct drop_decommits; [rewrite decommit_off|]; reflexivity.
Qed.

Lemma drop_arena_mem dbg c mark x :
  x < mark -> s_m (c_s (drop_arena dbg c mark)) x = s_m (c_s c) x.
Proof.
  intros Hx. rewrite drop_arena_eq; cbn [c_s]. unfold maybe_decommit.
  assert (H : s_m (c_s (do_reset dbg c mark)) x = s_m (c_s c) x).
  { unfold do_reset; cbn [c_s]. unfold reset; cbn [s_m]. destruct (dbg && _); [|reflexivity]. apply fill_outside. lia. }
  destruct drop_decommits; [rewrite decommit_mem|]; exact H.
Qed.

Lemma drop_arena_base_cap dbg c mark :
  a_base (s_a (c_s (drop_arena dbg c mark))) = a_base (s_a (c_s c)) /\
  a_cap (s_a (c_s (drop_arena dbg c mark))) = a_cap (s_a (c_s c)).
Proof.
  rewrite drop_arena_eq; cbn [c_s]. unfold maybe_decommit.
  destruct drop_decommits; [rewrite decommit_base, decommit_cap|]; split; reflexivity.
Qed.

Lemma drop_arena_bor_ok dbg c mark h' :
  bor_ok c h' -> bo_mark h' <= mark -> bor_ok (drop_arena dbg c mark) h'.
Proof.
  intros ((Hm0 & Hm1) & Hn & Hs) Hle. unfold bor_ok. rewrite drop_arena_off.
  rewrite drop_arena_eq; cbn [c_live c_next].
  refine (conj _ (conj _ _)); [lia|assumption|]. apply Forall_filter. assumption.
Qed.

Lemma init_arena_eq dbg c :
  init_arena dbg c = mkCst (maybe_decommit init_decommits (reset dbg (c_s c) 0)) [] 0 [].
Proof. reflexivity. Qed.

Lemma init_arena_inv dbg c : Inv c -> Inv (init_arena dbg c).
Proof.
  intros ((H0 & H1 & H2 & H3 & H4) & _). rewrite init_arena_eq.
  assert (Ha : arena_ok (s_a (reset dbg (c_s c) 0))).
  { rewrite reset_arena. unfold arena_ok; cbn [a_base a_off a_com a_cap]. repeat split; try lia; assumption. }
  destruct (maybe_decommit_facts init_decommits _ Ha) as (Hok & _).
  unfold Inv; cbn [c_s c_live c_next c_marks].
  refine (conj Hok (conj _ (conj _ (conj _ (conj _ _))))); constructor.
Qed.

Lemma init_arena_facts dbg c :
  Inv c ->
  aoff (init_arena dbg c) = 0 /\ c_live (init_arena dbg c) = [] /\ c_next (init_arena dbg c) = 0 /\
  c_marks (init_arena dbg c) = [] /\
  a_base (s_a (c_s (init_arena dbg c))) = a_base (s_a (c_s c)) /\
  a_cap (s_a (c_s (init_arena dbg c))) = a_cap (s_a (c_s c)).
Proof.
  intros ((H0 & H1 & H2 & H3 & H4) & _). rewrite init_arena_eq.
  assert (Ha : arena_ok (s_a (reset dbg (c_s c) 0))).
  { rewrite reset_arena. unfold arena_ok; cbn [a_base a_off a_com a_cap]. repeat split; try lia; assumption. }
  destruct (maybe_decommit_facts init_decommits _ Ha) as (_ & Hoff & _ & Hbase & Hcap).
  unfold aoff; cbn [c_s c_live c_next c_marks]. rewrite Hoff, Hbase, Hcap, reset_arena. auto 10.
Qed.

(* ---------- the step preserves the invariant ---------- *)

Lemma sop_ok_cli a o : sop_ok (SCli a o) -> op_ok o.
Proof. destruct o; cbn [sop_ok op_ok]; auto. Qed.

Lemma disc_cli_not_borrow c h o : disc_cli c h o -> o <> OBorrow /\ o <> ORelease.
Proof. destruct o; cbn [disc_cli]; intros H; try contradiction; split; discriminate. Qed.

Lemma sstep_cli_eq dbg st a o h :
  top_of a (ss_bors st) = Some h -> o <> OBorrow -> o <> ORelease ->
  sstep dbg st (SCli a o) =
  (upd a st (fst (cstep dbg (sel a st) o)), SRCli (snd (cstep dbg (sel a st) o))).
Proof.
  intros Ht H1 H2. unfold sstep. rewrite Ht.
  destruct o; try contradiction; destruct (cstep dbg (sel a st) _); reflexivity.
Qed.

Lemma sstep_cli_none dbg st a o :
  top_of a (ss_bors st) = None -> sstep dbg st (SCli a o) = (st, SRNone).
Proof. intros Ht. unfold sstep. rewrite Ht. reflexivity. Qed.

Lemma bors_transfer a st c' (l : list borrow) :
  Forall (fun h => bor_ok (sel (bo_arena h) st) h) l ->
  (forall h, In h l -> bo_arena h = a -> bor_ok c' h) ->
  Forall (fun h => bor_ok (sel (bo_arena h) (upd a st c')) h) l.
Proof.
  intros H Hc. apply Forall_forall. intros h Hin. rewrite sel_cases.
  destruct (Bool.eqb (bo_arena h) a) eqn:E.
  - apply Hc; [assumption|]. apply Bool.eqb_prop. assumption.
  - rewrite Forall_forall in H. apply H. assumption.
Qed.

Lemma SInv_upd a st c' :
  SInv st -> Inv c' -> (forall h, In h (ss_bors st) -> bo_arena h = a -> bor_ok c' h) ->
  SInv (upd a st c').
Proof.
  intros (H0 & H1 & Hb & Hs) Hc Hbo. unfold SInv. rewrite bors_upd.
  refine (conj _ (conj _ (conj _ Hs))).
  - destruct a; cbn [upd ss0]; assumption.
  - destruct a; cbn [upd ss1]; assumption.
  - apply bors_transfer; assumption.
Qed.

Lemma SInv_bors st l :
  Inv (ss0 st) -> Inv (ss1 st) -> Forall (fun h => bor_ok (sel (bo_arena h) st) h) l -> bors_sorted l ->
  SInv (mkSst (ss0 st) (ss1 st) l).
Proof.
  intros H0 H1 Hb Hs. unfold SInv; cbn [ss0 ss1 ss_bors].
  refine (conj H0 (conj H1 (conj _ Hs))).
  eapply Forall_impl; [|exact Hb]. intros h Hh. rewrite sel_rebuild. exact Hh.
Qed.

Lemma sstep_inv dbg st o : SInv st -> sop_ok o -> disc st o -> SInv (fst (sstep dbg st o)).
Proof.
  intros HS Hop Hd. pose proof HS as (H0 & H1 & Hb & Hs).
  destruct o as [c| |a o|].
  - (* SBorrow *)
    cbn [sstep fst]. set (a := choose c).
    pose proof (SInv_sel a st HS) as (Ha & Hl & _ & _ & Hid & _).
    apply SInv_bors; try assumption.
    + constructor; [|assumption]. cbn [bo_arena].
      unfold bor_ok; cbn [bo_mark bo_next]. destruct Ha as (Ha0 & _). unfold aoff.
      refine (conj _ (conj _ _)); [lia|lia|].
      apply Forall_forall. intros x Hx. unfold side; cbn [bo_next bo_mark].
      rewrite Forall_forall in Hid. specialize (Hid x Hx). rewrite Forall_forall in Hl. specialize (Hl x Hx).
      destruct (c_next (sel a st) <=? b_id x) eqn:E; [apply Z.leb_le in E; lia|]. unfold blk_ok in Hl. lia.
    + cbn [bors_sorted]. split; [|assumption]. apply Forall_forall. intros h' Hin Harena. cbn [bo_arena bo_mark bo_next] in *.
      rewrite Forall_forall in Hb. specialize (Hb h' Hin). rewrite Harena in Hb.
      destruct Hb as ((_ & Hm) & Hn & _). lia.
  - (* SDrop *)
    cbn [sstep]. destruct (ss_bors st) as [|b rest] eqn:Eb; cbn [fst]; [assumption|].
    inversion Hb as [|? ? Hbb Hrest]; subst. cbn [bors_sorted] in Hs. destruct Hs as [Hdom Hsr].
    set (a := bo_arena b) in *.
    assert (HS' : SInv (upd a st (drop_arena dbg (sel a st) (bo_mark b)))).
    { apply SInv_upd; [assumption| |].
      - apply drop_arena_inv; [apply SInv_sel; assumption|]. destruct Hbb as (Hm & _). exact Hm.
      - rewrite Eb. intros h [<-|Hin] Harena.
        + apply drop_arena_bor_ok; [assumption|lia].
        + rewrite Forall_forall in Hrest. pose proof (Hrest h Hin) as Hh. rewrite Harena in Hh.
          apply drop_arena_bor_ok; [assumption|]. rewrite Forall_forall in Hdom. apply Hdom; assumption. }
    destruct HS' as (G0 & G1 & Gb & _). rewrite bors_upd, Eb in Gb. inversion Gb; subst.
    apply SInv_bors; assumption.
  - (* SCli *)
    cbn [disc] in Hd. destruct (top_of a (ss_bors st)) as [h|] eqn:Et.
    + destruct (disc_cli_not_borrow _ _ _ Hd) as [Hn1 Hn2].
      rewrite (sstep_cli_eq dbg st a o h Et Hn1 Hn2). cbn [fst].
      destruct (top_of_In _ _ _ Et) as [Hhin Hha].
      pose proof (sop_ok_cli _ _ Hop) as Hop'.
      pose proof (SInv_sel a st HS) as HIa.
      assert (Hbh : bor_ok (sel a st) h).
      { rewrite Forall_forall in Hb. specialize (Hb h Hhin). rewrite Hha in Hb. exact Hb. }
      apply SInv_upd; [assumption|apply cstep_inv; assumption|].
      intros h' Hin' Ha'.
      destruct (top_dominates a _ h Hs Et h' Hin' Ha') as [Hm Hn].
      apply (cstep_bor_ok dbg (sel a st) h o h'); try assumption.
      rewrite Forall_forall in Hb. specialize (Hb h' Hin'). rewrite Ha' in Hb. exact Hb.
    + rewrite sstep_cli_none by assumption. assumption.
  - (* SInit *)
    cbn [disc] in Hd. cbn [sstep fst]. unfold reinit. rewrite Hd.
    unfold SInv; cbn [ss0 ss1 ss_bors bors_sorted].
    refine (conj _ (conj _ (conj _ I))); [apply init_arena_inv; assumption|apply init_arena_inv; assumption|constructor].
Qed.

Lemma sinit_inv b0 b1 cap : SInv (sinit b0 b1 cap).
Proof.
  unfold SInv, sinit; cbn [ss0 ss1 ss_bors bors_sorted].
  refine (conj _ (conj _ (conj _ I))); [apply cinit_inv|apply cinit_inv|constructor].
Qed.

Lemma srun_inv dbg ops : forall st, SInv st -> run_disc dbg st ops -> SInv (srun dbg st ops).
Proof.
  induction ops as [|o ops IH]; intros st HS Hr; cbn [srun fold_left]; [assumption|].
  cbn [run_disc] in Hr. destruct Hr as (Hop & Hd & Hr).
  apply IH; [apply sstep_inv; assumption|assumption].
Qed.

(* scratch_inv_reachable *)
Lemma scratch_inv_reachable dbg b0 b1 cap ops :
  run_disc dbg (sinit b0 b1 cap) ops -> SInv (srun dbg (sinit b0 b1 cap) ops).
Proof. intros. apply srun_inv; [apply sinit_inv|assumption]. Qed.

(* ---------- non-interference ---------- *)

(* blocks of arena (bo_arena h) that were allocated before borrow h was taken *)
Definition protected (st : sst) (h : borrow) (x : blk) : Prop :=
  In x (c_live (sel (bo_arena h) st)) /\ b_id x < bo_next h.

Definition same_bytes (st st' : sst) (a : bool) (x : blk) : Prop :=
  forall i, 0 <= i < b_len x ->
    s_m (c_s (sel a st')) (b_off x + i) = s_m (c_s (sel a st)) (b_off x + i).

(* One step — a client operation through ANY live borrow, taking a borrow, dropping the
   newest borrow (possibly h itself) — leaves every block protected by a live borrow h in
   the ledger with the same (offset, length) and the same bytes. *)
Lemma sstep_protected dbg st o h x :
  SInv st -> sop_ok o -> disc st o -> In h (ss_bors st) -> protected st h x ->
  protected (fst (sstep dbg st o)) h x /\ same_bytes st (fst (sstep dbg st o)) (bo_arena h) x.
Proof.
  intros HS Hop Hd Hh [Hx Hid]. pose proof HS as (H0 & H1 & Hb & Hs).
  unfold protected, same_bytes.
  destruct o as [c| |a o|].
  - cbn [sstep fst]. rewrite sel_rebuild. auto.
  - cbn [sstep]. destruct (ss_bors st) as [|b rest] eqn:Eb; cbn [fst]; [destruct Hh|].
    rewrite sel_rebuild, sel_cases.
    destruct (Bool.eqb (bo_arena h) (bo_arena b)) eqn:E; [|auto].
    apply Bool.eqb_prop in E.
    (* h is b or older than b on the same arena: its mark/threshold are dominated by b's *)
    assert (Hdom : bo_mark h <= bo_mark b /\ bo_next h <= bo_next b).
    { destruct Hh as [->|Hin]; [lia|]. cbn [bors_sorted] in Hs. destruct Hs as [Hf _].
      rewrite Forall_forall in Hf. apply Hf; assumption. }
    inversion Hb as [|? ? Hbb _]; subst.
    destruct Hbb as (_ & _ & Hside). rewrite Forall_forall in Hside.
    rewrite E in Hx. pose proof (side_false b x ltac:(lia) (Hside x Hx)) as Hend.
    rewrite <- E. split.
    + split; [|assumption]. rewrite drop_arena_eq; cbn [c_live]. unfold keep_below.
      apply filter_In. split; [rewrite E; assumption|]. apply Z.leb_le. lia.
    + intros i Hi. rewrite E. apply drop_arena_mem. lia.
  - cbn [disc] in Hd. destruct (top_of a (ss_bors st)) as [t|] eqn:Et.
    + destruct (disc_cli_not_borrow _ _ _ Hd) as [Hn1 Hn2].
      rewrite (sstep_cli_eq dbg st a o t Et Hn1 Hn2). cbn [fst]. rewrite sel_cases.
      destruct (Bool.eqb (bo_arena h) a) eqn:E; [|auto].
      apply Bool.eqb_prop in E.
      destruct (top_of_In _ _ _ Et) as [Htin Hta].
      destruct (top_dominates a _ t Hs Et h Hh E) as [Hm Hn].
      pose proof (sop_ok_cli _ _ Hop) as Hop'.
      pose proof (SInv_sel a st HS) as HIa.
      assert (Hbt : bor_ok (sel a st) t).
      { rewrite Forall_forall in Hb. specialize (Hb t Htin). rewrite Hta in Hb. exact Hb. }
      rewrite E in Hx. split.
      * split; [|assumption]. apply (cstep_outer_kept dbg (sel a st) t o x); try assumption. lia.
      * rewrite E. intros i Hi. apply (cstep_outer_contents dbg (sel a st) t o x); try assumption. lia.
    + rewrite sstep_cli_none by assumption. auto.
  - cbn [disc] in Hd. rewrite Hd in Hh. destruct Hh.
Qed.

(* An operation acts on one arena only. *)
Lemma sstep_other_arena dbg st o :
  match o with
  | SCli a _ => sel (negb a) (fst (sstep dbg st o)) = sel (negb a) st
  | SDrop => match ss_bors st with
             | b :: _ => sel (negb (bo_arena b)) (fst (sstep dbg st o)) = sel (negb (bo_arena b)) st
             | [] => fst (sstep dbg st o) = st
             end
  | SBorrow _ => forall a, sel a (fst (sstep dbg st o)) = sel a st
  | SInit => True
  end.
Proof.
  destruct o as [c| |a o|]; cbn [sstep].
  - intros a. cbn [fst]. apply sel_rebuild.
  - destruct (ss_bors st) as [|b rest]; cbn [fst]; [reflexivity|].
    rewrite sel_rebuild. apply sel_upd_other.
  - destruct (top_of a (ss_bors st)); [|reflexivity].
    destruct o; try reflexivity; destruct (cstep dbg (sel a st) _); cbn [fst]; apply sel_upd_other.
  - exact I.
Qed.

(* blocks of an outer borrow and blocks allocated under it never overlap: they are
   separated by the saved offset *)
Lemma inner_outer_disjoint st h x y :
  SInv st -> In h (ss_bors st) ->
  In x (c_live (sel (bo_arena h) st)) -> In y (c_live (sel (bo_arena h) st)) ->
  b_id x < bo_next h -> bo_next h <= b_id y ->
  b_off x + b_len x <= bo_mark h /\ bo_mark h <= b_off y.
Proof.
  intros (_ & _ & Hb & _) Hh Hx Hy Hix Hiy.
  rewrite Forall_forall in Hb. destruct (Hb h Hh) as (_ & _ & Hs). rewrite Forall_forall in Hs.
  split; [apply side_false; auto|apply side_true; auto].
Qed.

(* all live blocks of one arena are pairwise disjoint, whoever allocated them (C11) *)
Lemma scratch_blocks_disjoint st a x y :
  SInv st -> In x (c_live (sel a st)) -> In y (c_live (sel a st)) -> b_id x <> b_id y -> disj x y.
Proof. intros HS. apply inv_blocks_disjoint. apply SInv_sel. assumption. Qed.

(* ---------- LIFO scopes ---------- *)

Fixpoint depth_after (d : nat) (ops : list sop) : option nat :=
  match ops with
  | [] => Some d
  | SBorrow _ :: r => depth_after (S d) r
  | SDrop :: r => match d with O => None | S d' => depth_after d' r end
  | _ :: r => depth_after d r
  end.

(* every borrow taken in the segment is dropped in it, and the segment never drops a
   borrow it did not take *)
Definition balanced (ops : list sop) : Prop := depth_after 0 ops = Some O.

Lemma bors_sstep_cli dbg st a o : ss_bors (fst (sstep dbg st (SCli a o))) = ss_bors st.
Proof.
  cbn [sstep]. destruct (top_of a (ss_bors st)); [|reflexivity].
  destruct o; try reflexivity; destruct (cstep dbg (sel a st) _); cbn [fst]; apply bors_upd.
Qed.

Lemma srun_bors dbg ops : forall st pre base d d',
  ss_bors st = pre ++ base -> length pre = d -> depth_after d ops = Some d' ->
  exists pre', length pre' = d' /\ ss_bors (srun dbg st ops) = pre' ++ base.
Proof.
  induction ops as [|o ops IH]; intros st pre base d d' Hb Hl Hd; cbn [srun fold_left depth_after] in *.
  - inversion Hd; subst. eauto.
  - destruct o as [c| |a o|].
    + eapply (IH _ (_ :: pre) base (S d) d'); [|cbn [length]; lia|exact Hd].
      cbn [sstep fst ss_bors]. rewrite Hb. reflexivity.
    + destruct d as [|d0]; [discriminate|]. destruct pre as [|b pre0]; [discriminate|].
      eapply (IH _ pre0 base d0 d'); [|cbn [length] in Hl; lia|exact Hd].
      cbn [sstep]. rewrite Hb. cbn [app fst ss_bors]. reflexivity.
    + eapply (IH _ pre base d d'); [|assumption|exact Hd]. rewrite bors_sstep_cli. assumption.
    + eapply (IH _ pre base d d'); [|assumption|exact Hd]. cbn [sstep fst reinit ss_bors]. assumption.
Qed.

(* Everything protected by a borrow that stays live during a segment survives the segment. *)
Lemma srun_protected dbg ops : forall st pre h base d d' x,
  SInv st -> run_disc dbg st ops ->
  ss_bors st = pre ++ h :: base -> length pre = d -> depth_after d ops = Some d' ->
  protected st h x ->
  protected (srun dbg st ops) h x /\ same_bytes st (srun dbg st ops) (bo_arena h) x.
Proof.
  induction ops as [|o ops IH]; intros st pre h base d d' x HS Hr Hb Hl Hd Hp; cbn [srun fold_left].
  - split; [assumption|]. intros i Hi. reflexivity.
  - cbn [run_disc] in Hr. destruct Hr as (Hop & Hdi & Hr).
    assert (Hh : In h (ss_bors st)) by (rewrite Hb; apply in_or_app; right; left; reflexivity).
    destruct (sstep_protected dbg st o h x HS Hop Hdi Hh Hp) as [Hp1 Hb1].
    pose proof (sstep_inv dbg st o HS Hop Hdi) as HS1.
    assert (Hnext : exists pre1 d1, ss_bors (fst (sstep dbg st o)) = pre1 ++ h :: base /\ length pre1 = d1 /\
                                   depth_after d1 ops = Some d').
    { cbn [depth_after] in Hd. destruct o as [c| |a o|].
      - exists (mkBor (choose c) (aoff (sel (choose c) st)) (c_next (sel (choose c) st)) :: pre), (S d).
        cbn [sstep fst ss_bors]. rewrite Hb. cbn [length]. auto.
      - destruct d as [|d0]; [discriminate|]. destruct pre as [|b pre0]; [discriminate|].
        exists pre0, d0. cbn [sstep]. rewrite Hb. cbn [app fst ss_bors]. cbn [length] in Hl. split; [reflexivity|]. split; [lia|assumption].
      - exists pre, d. rewrite bors_sstep_cli. auto.
      - exists pre, d. cbn [sstep fst reinit ss_bors]. auto. }
    destruct Hnext as (pre1 & d1 & Hb' & Hl' & Hd').
    destruct (IH _ pre1 h base d1 d' x HS1 Hr Hb' Hl' Hd' Hp1) as [Hp2 Hb2].
    split; [assumption|]. intros i Hi. rewrite Hb2 by assumption. apply Hb1. assumption.
Qed.

Lemma run_disc_app dbg l1 l2 : forall st,
  run_disc dbg st (l1 ++ l2) <-> run_disc dbg st l1 /\ run_disc dbg (srun dbg st l1) l2.
Proof.
  induction l1 as [|o l1 IH]; intros st; cbn [app run_disc srun fold_left].
  - tauto.
  - rewrite IH. tauto.
Qed.

(* A whole scope: borrow, a balanced disciplined body, drop.  The borrowed arena's offset
   is back where it was, the borrow stack is what it was, and every block that was live in
   that arena before the borrow is still live, at the same place, with the same bytes. *)
Lemma borrow_scope_frame dbg st c body :
  SInv st -> balanced body ->
  run_disc dbg st (SBorrow c :: body ++ [SDrop]) ->
  let a := choose c in
  let st' := srun dbg st (SBorrow c :: body ++ [SDrop]) in
  aoff (sel a st') = aoff (sel a st) /\ ss_bors st' = ss_bors st /\
  forall x, In x (c_live (sel a st)) -> In x (c_live (sel a st')) /\ same_bytes st st' a x.
Proof.
  intros HS Hbal Hr a st'.
  set (h := mkBor a (aoff (sel a st)) (c_next (sel a st))).
  set (st1 := fst (sstep dbg st (SBorrow c))).
  assert (Hb1 : ss_bors st1 = [] ++ h :: ss_bors st) by reflexivity.
  cbn [run_disc] in Hr. destruct Hr as (Hop0 & Hd0 & Hr). fold st1 in Hr.
  pose proof (sstep_inv dbg st (SBorrow c) HS Hop0 Hd0) as HS1. fold st1 in HS1.
  assert (Hdep : depth_after 0 (body ++ [SDrop]) = None \/ True) by (right; exact I). clear Hdep.
  (* split the run at the final drop *)
  assert (Hsplit : st' = fst (sstep dbg (srun dbg st1 body) SDrop)).
  { subst st'. cbn [srun fold_left]. fold st1. unfold srun. rewrite fold_left_app. reflexivity. }
  pose proof (proj1 (run_disc_app dbg body [SDrop] st1) Hr) as Hrbody.
  destruct Hrbody as [Hrb Hrd].
  set (st2 := srun dbg st1 body) in *.
  destruct (srun_bors dbg body st1 [] (h :: ss_bors st) 0%nat 0%nat Hb1 eq_refl Hbal) as (pre' & Hl' & Hb2).
  destruct pre' as [|? ?]; [|discriminate]. cbn [app] in Hb2. fold st2 in Hb2.
  pose proof (srun_inv dbg body st1 HS1 Hrb) as HS2. fold st2 in HS2.
  assert (Hst' : st' = mkSst (ss0 (upd a st2 (drop_arena dbg (sel a st2) (aoff (sel a st)))))
                             (ss1 (upd a st2 (drop_arena dbg (sel a st2) (aoff (sel a st))))) (ss_bors st)).
  { rewrite Hsplit. cbn [sstep]. rewrite Hb2. reflexivity. }
  refine (conj _ (conj _ _)).
  - rewrite Hst', sel_rebuild, sel_upd_same. apply drop_arena_off.
  - rewrite Hst'. reflexivity.
  - intros x Hx.
    assert (Hp : protected st1 h x).
    { unfold protected. cbn [bo_arena bo_next h]. subst st1. cbn [sstep fst]. rewrite sel_rebuild. split; [assumption|].
      pose proof (SInv_sel a st HS) as (_ & _ & _ & _ & Hid & _). rewrite Forall_forall in Hid. apply Hid. assumption. }
    destruct (srun_protected dbg body st1 [] h (ss_bors st) 0%nat 0%nat x HS1 Hrb Hb1 eq_refl Hbal Hp) as [Hp2 Hby2].
    fold st2 in Hp2, Hby2.
    cbn [run_disc] in Hrd. destruct Hrd as (Hop3 & Hd3 & _).
    assert (Hh2 : In h (ss_bors st2)) by (rewrite Hb2; left; reflexivity).
    destruct (sstep_protected dbg st2 SDrop h x HS2 Hop3 Hd3 Hh2 Hp2) as [Hp3 Hby3].
    rewrite <- Hsplit in Hp3, Hby3. cbn [bo_arena h] in *.
    split; [apply Hp3|].
    intros i Hi. rewrite Hby3 by assumption. rewrite Hby2 by assumption.
    subst st1. cbn [sstep fst]. rewrite sel_rebuild. reflexivity.
Qed.

(* ---------- addresses do not depend on commit, contents or debug poisoning ---------- *)

Lemma abeg_eq a a' al : a_base a = a_base a' -> a_off a = a_off a' -> abeg a al = abeg a' al.
Proof. unfold abeg. intros -> ->. reflexivity. Qed.

Lemma alloc_raw_sim dbg dbg' s s' bytes al :
  arena_ok (s_a s) -> arena_ok (s_a s') ->
  a_base (s_a s) = a_base (s_a s') -> a_off (s_a s) = a_off (s_a s') -> a_cap (s_a s) = a_cap (s_a s') ->
  0 <= bytes -> pow2 al ->
  match alloc_raw dbg s bytes al, alloc_raw dbg' s' bytes al with
  | Some (b, l, t), Some (b', l', t') => b = b' /\ l = l' /\ a_off (s_a t) = a_off (s_a t')
  | None, None => True
  | _, _ => False
  end.
Proof.
  intros Ha Ha' Hb Ho Hc Hby Hal.
  pose proof (abeg_eq _ _ al Hb Ho) as Hab.
  destruct (alloc_raw dbg s bytes al) as [[[b l] t]|] eqn:E; destruct (alloc_raw dbg' s' bytes al) as [[[b' l'] t']|] eqn:E'.
  - destruct (alloc_raw_some _ _ _ _ _ _ _ Ha Hby Hal E) as (-> & -> & _ & _ & _ & _ & Hoff & _).
    destruct (alloc_raw_some _ _ _ _ _ _ _ Ha' Hby Hal E') as (-> & -> & _ & _ & _ & _ & Hoff' & _).
    rewrite Hoff, Hoff', Hab. auto.
  - pose proof (alloc_raw_none _ _ _ _ Hal E') as Hn.
    destruct (alloc_raw_some _ _ _ _ _ _ _ Ha Hby Hal E) as (_ & Hbeg & _ & _ & _ & _ & Hoff & (Q0 & Q1 & Q2 & Q3 & Q4) & Hcap & _).
    subst b. rewrite <- Hab in Hn. assert (Hle : abeg (s_a s) al + bytes <= a_com (s_a t)) by lia.
    pose proof (rup_least _ _ chunk chunk_pos Hle Q3). lia.
  - pose proof (alloc_raw_none _ _ _ _ Hal E) as Hn.
    destruct (alloc_raw_some _ _ _ _ _ _ _ Ha' Hby Hal E') as (_ & Hbeg & _ & _ & _ & _ & Hoff & (Q0 & Q1 & Q2 & Q3 & Q4) & Hcap & _).
    subst b'. rewrite Hab in Hn. assert (Hle : abeg (s_a s') al + bytes <= a_com (s_a t')) by lia.
    pose proof (rup_least _ _ chunk chunk_pos Hle Q3). lia.
  - exact I.
Qed.

Lemma grow_sim dbg dbg' s s' ptr old new al :
  arena_ok (s_a s) -> arena_ok (s_a s') ->
  a_base (s_a s) = a_base (s_a s') -> a_off (s_a s) = a_off (s_a s') -> a_cap (s_a s) = a_cap (s_a s') ->
  0 <= old <= new -> pow2 al ->
  match grow dbg s ptr old new al, grow dbg' s' ptr old new al with
  | Some (b, l, t), Some (b', l', t') => b = b' /\ l = l' /\ a_off (s_a t) = a_off (s_a t')
  | None, None => True
  | _, _ => False
  end.
Proof.
  intros Ha Ha' Hb Ho Hc Hsz Hal. unfold grow. rewrite <- Ho.
  destruct (ptr + old =? a_off (s_a s)).
  - assert (Hp1 : pow2 1) by (exists 0; split; [lia|reflexivity]).
    pose proof (alloc_raw_sim dbg dbg' s s' (new - old) 1 Ha Ha' Hb Ho Hc ltac:(lia) Hp1) as H.
    destruct (alloc_raw dbg s (new - old) 1) as [[[b l] t]|]; destruct (alloc_raw dbg' s' (new - old) 1) as [[[b' l'] t']|]; try exact H.
    destruct H as (_ & _ & H). auto.
  - pose proof (alloc_raw_sim dbg dbg' s s' new al Ha Ha' Hb Ho Hc ltac:(lia) Hal) as H.
    destruct (alloc_raw dbg s new al) as [[[b l] t]|]; destruct (alloc_raw dbg' s' new al) as [[[b' l'] t']|]; try exact H.
    cbn [s_a]. destruct H as (-> & _ & H). auto.
Qed.

Lemma grow_base_cap dbg s ptr old new al np len s' :
  grow dbg s ptr old new al = Some (np, len, s') ->
  a_base (s_a s') = a_base (s_a s) /\ a_cap (s_a s') = a_cap (s_a s).
Proof.
  unfold grow. destruct (_ =? _).
  - destruct (alloc_raw dbg s (new - old) 1) as [[[b l] t]|] eqn:E; [|discriminate].
    intros H; inversion H; subst. eapply alloc_raw_base_cap; eassumption.
  - destruct (alloc_raw dbg s new al) as [[[b l] t]|] eqn:E; [|discriminate].
    intros H; inversion H; subst. cbn [s_a]. eapply alloc_raw_base_cap; eassumption.
Qed.

Lemma cstep_base_cap dbg c o :
  a_base (s_a (c_s (fst (cstep dbg c o)))) = a_base (s_a (c_s c)) /\
  a_cap (s_a (c_s (fst (cstep dbg c o)))) = a_cap (s_a (c_s c)).
Proof.
  destruct o as [bytes k|bytes k|idx delta z|idx d|t|idx| |idx seed| |]; cbn [cstep].
  - destruct (alloc_raw dbg (c_s c) bytes (2 ^ Z.of_nat k)) as [[[beg len] s']|] eqn:E; cbn [fst c_s]; [|auto].
    eapply alloc_raw_base_cap; eassumption.
  - unfold alloc_zeroed.
    destruct (alloc_raw dbg (c_s c) bytes (2 ^ Z.of_nat k)) as [[[beg len] s']|] eqn:E; cbn [fst c_s s_a]; [|auto].
    eapply alloc_raw_base_cap; eassumption.
  - destruct (pick (c_live c) idx) as [g|]; cbn [fst]; [|auto].
    destruct z.
    + rewrite grow_zeroed_unfold.
      destruct (grow dbg (c_s c) (b_off g) (b_len g) (b_len g + delta) (b_al g)) as [[[np len] s']|] eqn:E; cbn [fst c_s s_a]; [|auto].
      eapply grow_base_cap; eassumption.
    + destruct (grow dbg (c_s c) (b_off g) (b_len g) (b_len g + delta) (b_al g)) as [[[np len] s']|] eqn:E; cbn [fst c_s s_a]; [|auto].
      eapply grow_base_cap; eassumption.
  - destruct (pick (c_live c) idx) as [g|]; cbn [fst]; [|auto].
    destruct (b_off g + b_len g =? a_off (s_a (c_s c))) eqn:Et; cbn [fst]; [|auto].
    unfold shrink. rewrite Et. cbn [fst c_s s_a a_base a_cap]. auto.
  - cbn [fst]. unfold do_reset; cbn [c_s]. rewrite reset_arena. auto.
  - destruct (pick (c_live c) idx) as [g|]; cbn [fst]; [|auto].
    unfold do_reset; cbn [c_s]. rewrite reset_arena. auto.
  - cbn [fst c_s]. rewrite decommit_base, decommit_cap. auto.
  - destruct (pick (c_live c) idx) as [g|]; cbn [fst c_s s_a]; auto.
  - cbn [fst c_s]. auto.
  - destruct (c_marks c) as [|mk rest]; cbn [fst c_s]; [auto|].
    rewrite decommit_base, decommit_cap. unfold do_reset; cbn [c_s]. rewrite reset_arena. auto.
Qed.

(* Two client states that agree on base, offset, capacity and ledger — but possibly not on
   the committed size, the memory contents or the build profile. *)
Definition asim (c c' : cst) : Prop :=
  Inv c /\ Inv c' /\
  a_base (s_a (c_s c)) = a_base (s_a (c_s c')) /\ a_off (s_a (c_s c)) = a_off (s_a (c_s c')) /\
  a_cap (s_a (c_s c)) = a_cap (s_a (c_s c')) /\
  c_live c = c_live c' /\ c_next c = c_next c' /\ c_marks c = c_marks c'.

Definition absst (c : cst) := (a_off (s_a (c_s c)), c_live c, c_next c, c_marks c).

Lemma asim_of_abs c c' d d' :
  Inv d -> Inv d' ->
  a_base (s_a (c_s c)) = a_base (s_a (c_s c')) -> a_cap (s_a (c_s c)) = a_cap (s_a (c_s c')) ->
  a_base (s_a (c_s d)) = a_base (s_a (c_s c)) -> a_cap (s_a (c_s d)) = a_cap (s_a (c_s c)) ->
  a_base (s_a (c_s d')) = a_base (s_a (c_s c')) -> a_cap (s_a (c_s d')) = a_cap (s_a (c_s c')) ->
  absst d = absst d' -> asim d d'.
Proof.
  intros HI HI' Hb Hc Hb1 Hc1 Hb2 Hc2 Habs. unfold absst in Habs. inversion Habs.
  unfold asim. refine (conj HI (conj HI' (conj _ (conj H0 (conj _ (conj H1 (conj H2 H3))))))); congruence.
Qed.

Lemma cstep_abs_sim dbg dbg' c c' o :
  asim c c' -> op_ok o ->
  absst (fst (cstep dbg c o)) = absst (fst (cstep dbg' c' o)) /\
  snd (cstep dbg c o) = snd (cstep dbg' c' o).
Proof.
  intros (HI & HI' & Hb & Ho & Hc & Hl & Hn & Hm) Hop.
  pose proof HI as (Ha & Hlk & _). pose proof HI' as (Ha' & _).
  unfold absst.
  destruct o as [bytes k|bytes k|idx delta z|idx d|t|idx| |idx seed| |]; cbn [cstep op_ok] in *.
  - assert (Hal : pow2 (2 ^ Z.of_nat k)) by (exists (Z.of_nat k); split; lia).
    pose proof (alloc_raw_sim dbg dbg' (c_s c) (c_s c') bytes _ Ha Ha' Hb Ho Hc Hop Hal) as H.
    destruct (alloc_raw dbg (c_s c) bytes (2 ^ Z.of_nat k)) as [[[b l] t]|];
      destruct (alloc_raw dbg' (c_s c') bytes (2 ^ Z.of_nat k)) as [[[b' l'] t']|]; try contradiction; cbn [fst snd c_s c_live c_next c_marks].
    + destruct H as (-> & -> & ->). rewrite Hl, Hn, Hm. auto.
    + rewrite Ho, Hl, Hn, Hm. auto.
  - assert (Hal : pow2 (2 ^ Z.of_nat k)) by (exists (Z.of_nat k); split; lia).
    pose proof (alloc_raw_sim dbg dbg' (c_s c) (c_s c') bytes _ Ha Ha' Hb Ho Hc Hop Hal) as H.
    unfold alloc_zeroed.
    destruct (alloc_raw dbg (c_s c) bytes (2 ^ Z.of_nat k)) as [[[b l] t]|];
      destruct (alloc_raw dbg' (c_s c') bytes (2 ^ Z.of_nat k)) as [[[b' l'] t']|]; try contradiction; cbn [fst snd c_s c_live c_next c_marks s_a].
    + destruct H as (-> & -> & ->). rewrite Hl, Hn, Hm. auto.
    + rewrite Ho, Hl, Hn, Hm. auto.
  - rewrite <- Hl. destruct (pick (c_live c) idx) as [g|] eqn:Ep; cbn [fst snd]; [|rewrite Ho, Hl, Hn, Hm; auto].
    pose proof (pick_In _ _ _ Ep) as Hgin. rewrite Forall_forall in Hlk.
    destruct (Hlk g Hgin) as (Hg0 & Hg1 & Hg2 & Hg3 & _).
    pose proof (grow_sim dbg dbg' (c_s c) (c_s c') (b_off g) (b_len g) (b_len g + delta) (b_al g) Ha Ha' Hb Ho Hc ltac:(lia) Hg3) as H.
    destruct z.
    + rewrite !grow_zeroed_unfold.
      destruct (grow dbg (c_s c) _ _ _ _) as [[[b l] t]|]; destruct (grow dbg' (c_s c') _ _ _ _) as [[[b' l'] t']|];
        try contradiction; cbn [fst snd c_s c_live c_next c_marks s_a].
      * destruct H as (-> & -> & ->). rewrite ?Hl, Hn, Hm. auto.
      * rewrite Ho, ?Hl, Hn, Hm. auto.
    + destruct (grow dbg (c_s c) _ _ _ _) as [[[b l] t]|]; destruct (grow dbg' (c_s c') _ _ _ _) as [[[b' l'] t']|];
        try contradiction; cbn [fst snd c_s c_live c_next c_marks s_a].
      * destruct H as (-> & -> & ->). rewrite ?Hl, Hn, Hm. auto.
      * rewrite Ho, ?Hl, Hn, Hm. auto.
  - rewrite <- Hl. destruct (pick (c_live c) idx) as [g|] eqn:Ep; cbn [fst snd]; [|rewrite Ho, Hl, Hn, Hm; auto].
    rewrite <- Ho. destruct (b_off g + b_len g =? a_off (s_a (c_s c))) eqn:Et; cbn [fst snd]; [|rewrite Ho, Hl, Hn, Hm; auto].
    unfold shrink. rewrite <- Ho, Et. cbn [fst snd c_s c_live c_next c_marks s_a a_off]. rewrite ?Hl, ?Hn, ?Hm. auto.
  - cbn [fst snd]. unfold do_reset; cbn [c_s c_live c_next c_marks]. rewrite !reset_arena. cbn [a_off].
    rewrite Ho, Hl, Hn, Hm. auto.
  - rewrite <- Hl. destruct (pick (c_live c) idx) as [g|] eqn:Ep; cbn [fst snd]; [|rewrite Ho, Hl, Hn, Hm; auto].
    unfold do_reset; cbn [c_s c_live c_next c_marks]. rewrite !reset_arena. cbn [a_off]. rewrite ?Hl, ?Hn, ?Hm. auto.
  - cbn [fst snd c_s c_live c_next c_marks]. rewrite !decommit_off, Ho, Hl, Hn, Hm. auto.
  - rewrite <- Hl. destruct (pick (c_live c) idx) as [g|] eqn:Ep; cbn [fst snd c_s c_live c_next c_marks s_a];
      rewrite Ho, ?Hl, Hn, Hm; auto.
  - cbn [fst snd c_s c_live c_next c_marks]. rewrite Ho, Hl, Hn, Hm. auto.
  - rewrite <- Hm. destruct (c_marks c) as [|mk rest] eqn:Em; cbn [fst snd]; [rewrite Ho, Hl, Hn, Em, <- Hm; auto|].
    cbn [c_s c_live c_next c_marks].
    rewrite !decommit_off.
    unfold do_reset; cbn [c_s c_live c_next c_marks].
    rewrite !reset_arena. cbn [a_off]. rewrite ?Hl, ?Hn. auto.
Qed.

Lemma cstep_sim dbg dbg' c c' o :
  asim c c' -> op_ok o ->
  asim (fst (cstep dbg c o)) (fst (cstep dbg' c' o)) /\ snd (cstep dbg c o) = snd (cstep dbg' c' o).
Proof.
  intros Hs Hop. destruct (cstep_abs_sim dbg dbg' c c' o Hs Hop) as [Habs Hres].
  split; [|assumption].
  destruct Hs as (HI & HI' & Hb & Ho & Hc & _).
  destruct (cstep_base_cap dbg c o) as [B1 C1]. destruct (cstep_base_cap dbg' c' o) as [B2 C2].
  eapply (asim_of_abs c c'); try eassumption; apply cstep_inv; assumption.
Qed.

Definition ssim (st st' : sst) : Prop :=
  asim (ss0 st) (ss0 st') /\ asim (ss1 st) (ss1 st') /\ ss_bors st = ss_bors st'.

Lemma ssim_sel a st st' : ssim st st' -> asim (sel a st) (sel a st').
Proof. intros (H0 & H1 & _). destruct a; assumption. Qed.

Lemma ssim_upd a st st' c c' : ssim st st' -> asim c c' -> ssim (upd a st c) (upd a st' c').
Proof.
  intros (H0 & H1 & Hb) Hc. unfold ssim. rewrite !bors_upd.
  destruct a; cbn [upd ss0 ss1]; auto.
Qed.

Lemma ssim_bors st st' l :
  ssim st st' -> ssim (mkSst (ss0 st) (ss1 st) l) (mkSst (ss0 st') (ss1 st') l).
Proof. intros (H0 & H1 & _). unfold ssim; cbn [ss0 ss1 ss_bors]. auto. Qed.

Lemma disc_sim st st' o : ssim st st' -> disc st o -> disc st' o.
Proof.
  intros Hs Hd. pose proof Hs as (_ & _ & Hb).
  destruct o as [c| |a o|]; cbn [disc] in *; auto.
  - rewrite <- Hb. destruct (top_of a (ss_bors st)) as [h|]; [|exact I].
    destruct (ssim_sel a _ _ Hs) as (_ & _ & _ & Ho & _ & Hl & _).
    destruct o; cbn [disc_cli] in *; auto; try (rewrite <- Hl; assumption).
    unfold aoff in *. rewrite <- Ho. assumption.
  - rewrite <- Hb. assumption.
Qed.

Lemma drop_arena_sim dbg dbg' c c' m :
  asim c c' -> 0 <= m <= aoff c -> asim (drop_arena dbg c m) (drop_arena dbg' c' m).
Proof.
  intros (HI & HI' & Hb & Ho & Hc & Hl & Hn & Hm) Hr.
  assert (Hr' : 0 <= m <= aoff c') by (unfold aoff in *; lia).
  destruct (drop_arena_base_cap dbg c m) as [B1 C1]. destruct (drop_arena_base_cap dbg' c' m) as [B2 C2].
  pose proof (drop_arena_off dbg c m) as O1. pose proof (drop_arena_off dbg' c' m) as O2. unfold aoff in O1, O2.
  unfold asim. refine (conj _ (conj _ (conj _ (conj _ (conj _ _))))).
  - apply drop_arena_inv; assumption.
  - apply drop_arena_inv; assumption.
  - congruence.
  - congruence.
  - congruence.
  - rewrite !drop_arena_eq; cbn [c_live c_next c_marks]. rewrite Hl, Hn, Hm. auto.
Qed.

Lemma init_arena_base_cap dbg c :
  a_base (s_a (c_s (init_arena dbg c))) = a_base (s_a (c_s c)) /\
  a_cap (s_a (c_s (init_arena dbg c))) = a_cap (s_a (c_s c)).
Proof.
  rewrite init_arena_eq; cbn [c_s]. unfold maybe_decommit.
  destruct init_decommits; [rewrite decommit_base, decommit_cap|]; rewrite reset_arena; auto.
Qed.

Lemma init_arena_sim dbg dbg' c c' :
  Inv c -> Inv c' ->
  a_base (s_a (c_s c)) = a_base (s_a (c_s c')) -> a_cap (s_a (c_s c)) = a_cap (s_a (c_s c')) ->
  asim (init_arena dbg c) (init_arena dbg' c').
Proof.
  intros HI HI' Hb Hc.
  destruct (init_arena_facts dbg c HI) as (O1 & L1 & N1 & M1 & B1 & C1).
  destruct (init_arena_facts dbg' c' HI') as (O2 & L2 & N2 & M2 & B2 & C2).
  unfold aoff in O1, O2. unfold asim.
  refine (conj (init_arena_inv dbg c HI) (conj (init_arena_inv dbg' c' HI') _)).
  repeat split; congruence.
Qed.

Lemma sstep_sim dbg dbg' st st' o :
  ssim st st' -> SInv st -> sop_ok o -> disc st o ->
  ssim (fst (sstep dbg st o)) (fst (sstep dbg' st' o)) /\ snd (sstep dbg st o) = snd (sstep dbg' st' o).
Proof.
  intros Hs HS Hop Hd. pose proof Hs as (S0 & S1 & Hb).
  destruct o as [c| |a o|].
  - cbn [sstep fst snd]. destruct (ssim_sel (choose c) _ _ Hs) as (_ & _ & _ & Ho & _ & _ & Hn & _).
    unfold aoff. rewrite Ho, Hn, Hb. split; [apply ssim_bors; assumption|reflexivity].
  - cbn [sstep]. rewrite <- Hb. destruct (ss_bors st) as [|b rest] eqn:Eb; cbn [fst snd]; [auto|].
    split; [|reflexivity].
    destruct HS as (_ & _ & Hbo & _). rewrite Eb in Hbo. inversion Hbo as [|? ? Hbb _]; subst.
    destruct Hbb as (Hm & _).
    apply ssim_bors. apply ssim_upd; [assumption|]. apply drop_arena_sim; [apply ssim_sel; assumption|assumption].
  - cbn [disc] in Hd. destruct (top_of a (ss_bors st)) as [h|] eqn:Et.
    + destruct (disc_cli_not_borrow _ _ _ Hd) as [Hn1 Hn2].
      rewrite (sstep_cli_eq dbg st a o h Et Hn1 Hn2).
      rewrite Hb in Et. rewrite (sstep_cli_eq dbg' st' a o h Et Hn1 Hn2). cbn [fst snd].
      destruct (cstep_sim dbg dbg' (sel a st) (sel a st') o (ssim_sel a _ _ Hs) (sop_ok_cli _ _ Hop)) as [Hc Hr].
      split; [apply ssim_upd; assumption|rewrite Hr; reflexivity].
    + rewrite sstep_cli_none by assumption. rewrite Hb in Et. rewrite sstep_cli_none by assumption. auto.
  - cbn [sstep fst snd]. split; [|reflexivity]. unfold reinit, ssim; cbn [ss0 ss1 ss_bors].
    destruct S0 as (I0 & I0' & B0 & _ & C0 & _). destruct S1 as (I1 & I1' & B1 & _ & C1 & _).
    refine (conj _ (conj _ Hb)); apply init_arena_sim; assumption.
Qed.

Lemma strace_sim dbg dbg' ops : forall st st',
  ssim st st' -> SInv st -> SInv st' -> run_disc dbg st ops ->
  strace dbg st ops = strace dbg' st' ops.
Proof.
  induction ops as [|o ops IH]; intros st st' Hs HS HS' Hr; cbn [strace]; [reflexivity|].
  cbn [run_disc] in Hr. destruct Hr as (Hop & Hd & Hr).
  destruct (sstep_sim dbg dbg' st st' o Hs HS Hop Hd) as [Hs1 Hres].
  pose proof (sstep_inv dbg st o HS Hop Hd) as HS1.
  pose proof (sstep_inv dbg' st' o HS' Hop (disc_sim _ _ _ Hs Hd)) as HS1'.
  destruct (sstep dbg st o) as [st1 r] eqn:E. destruct (sstep dbg' st' o) as [st1' r'] eqn:E'.
  cbn [fst snd] in *. subst r'. f_equal.
  - f_equal. unfold addr_obs, aoff. destruct Hs1 as ((_ & _ & _ & O0 & _) & (_ & _ & _ & O1 & _) & _). congruence.
  - apply IH; assumption.
Qed.

Lemma sstep_base_cap dbg st o a :
  a_base (s_a (c_s (sel a (fst (sstep dbg st o))))) = a_base (s_a (c_s (sel a st))) /\
  a_cap (s_a (c_s (sel a (fst (sstep dbg st o))))) = a_cap (s_a (c_s (sel a st))).
Proof.
  destruct o as [c| |a' o|]; cbn [sstep].
  - cbn [fst]. rewrite sel_rebuild. auto.
  - destruct (ss_bors st) as [|b rest]; cbn [fst]; [auto|]. rewrite sel_rebuild, sel_cases.
    destruct (Bool.eqb a (bo_arena b)) eqn:E; [|auto]. apply Bool.eqb_prop in E. subst a. apply drop_arena_base_cap.
  - destruct (top_of a' (ss_bors st)); [|auto].
    assert (H : forall c', a_base (s_a (c_s c')) = a_base (s_a (c_s (sel a' st))) /\ a_cap (s_a (c_s c')) = a_cap (s_a (c_s (sel a' st))) ->
              a_base (s_a (c_s (sel a (upd a' st c')))) = a_base (s_a (c_s (sel a st))) /\
              a_cap (s_a (c_s (sel a (upd a' st c')))) = a_cap (s_a (c_s (sel a st)))).
    { intros c' Hc. rewrite sel_cases. destruct (Bool.eqb a a') eqn:E; [|auto]. apply Bool.eqb_prop in E. subst a. assumption. }
    destruct o; try (cbn [fst]; auto);
      match goal with |- context [cstep dbg (sel a' st) ?op] =>
        pose proof (cstep_base_cap dbg (sel a' st) op) as Hbc; destruct (cstep dbg (sel a' st) op) as [c1 r1]; cbn [fst] in *; apply H; assumption end.
  - cbn [fst]. unfold reinit. destruct a; cbn [sel ss0 ss1]; apply init_arena_base_cap.
Qed.

Lemma srun_base_cap dbg ops : forall st a,
  a_base (s_a (c_s (sel a (srun dbg st ops)))) = a_base (s_a (c_s (sel a st))) /\
  a_cap (s_a (c_s (sel a (srun dbg st ops)))) = a_cap (s_a (c_s (sel a st))).
Proof.
  induction ops as [|o ops IH]; intros st a; cbn [srun fold_left]; [auto|].
  destruct (IH (fst (sstep dbg st o)) a) as [B C]. destruct (sstep_base_cap dbg st o a) as [B' C'].
  unfold srun in *. split; congruence.
Qed.

(* reinit_history_independent: whatever the process did before (any disciplined history
   `prev` that dropped all its borrows), after `init` every result — which arena a borrow
   gets, the saved offsets, every returned (offset, length), every success or failure, both
   arenas' offsets after every step — is the one two fresh arenas of the same capacity
   give, in debug and in release. *)
Lemma reinit_history_independent_lemma dbg dbg' b0 b1 cap prev ops :
  run_disc dbg (sinit b0 b1 cap) prev ->
  ss_bors (srun dbg (sinit b0 b1 cap) prev) = [] ->
  run_disc dbg' (sinit b0 b1 cap) ops ->
  strace dbg (fst (sstep dbg (srun dbg (sinit b0 b1 cap) prev) SInit)) ops =
  strace dbg' (sinit b0 b1 cap) ops.
Proof.
  intros Hprev Hnb Hops.
  pose proof (scratch_inv_reachable dbg b0 b1 cap prev Hprev) as HSp.
  set (stp := srun dbg (sinit b0 b1 cap) prev) in *.
  pose proof (sstep_inv dbg stp SInit HSp I Hnb) as HSr.
  symmetry. apply strace_sim; [|apply sinit_inv|assumption|assumption].
  cbn [sstep fst]. unfold reinit, ssim; cbn [ss0 ss1 ss_bors].
  destruct HSp as (I0 & I1 & _).
  destruct (srun_base_cap dbg prev (sinit b0 b1 cap) false) as [B0 C0].
  destruct (srun_base_cap dbg prev (sinit b0 b1 cap) true) as [B1 C1].
  fold stp in B0, C0, B1, C1. cbn [sel] in B0, C0, B1, C1.
  assert (H : forall b c, Inv c -> a_base (s_a (c_s c)) = a_base (s_a (c_s (cinit b cap))) ->
                a_cap (s_a (c_s c)) = a_cap (s_a (c_s (cinit b cap))) -> asim (cinit b cap) (init_arena dbg c)).
  { intros b c Hc Hb Hcap.
    destruct (init_arena_facts dbg c Hc) as (O1 & L1 & N1 & M1 & B & C). unfold aoff in O1.
    unfold asim. refine (conj (cinit_inv b cap) (conj (init_arena_inv dbg c Hc) _)).
    rewrite O1, L1, N1, M1, B, C, Hb, Hcap. repeat split; reflexivity. }
  refine (conj _ (conj _ (eq_sym Hnb))); apply H; assumption.
Qed.

(* ---------- normalisation yields disciplined histories ---------- *)

Lemma pos_of_nth (l : list blk) b :
  In b l -> exists x, nth_error l (pos_of (b_id b) l) = Some x /\ b_id x = b_id b /\ (pos_of (b_id b) l < length l)%nat.
Proof.
  induction l as [|y l IH]; intros Hin; [destruct Hin|]. cbn [pos_of].
  destruct (b_id y =? b_id b) eqn:E.
  - apply Z.eqb_eq in E. exists y. cbn [nth_error length]. split; [reflexivity|]. split; [assumption|lia].
  - destruct Hin as [->|Hin]; [rewrite Z.eqb_refl in E; discriminate|].
    destruct (IH Hin) as (x & Hx & Hid & Hlt). exists x. cbn [nth_error length]. split; [assumption|]. split; [assumption|lia].
Qed.

Lemma norm_idx_pick c h idx i :
  norm_idx c h idx = Some i ->
  exists x, pick (c_live c) i = Some x /\ bo_next h <= b_id x.
Proof.
  unfold norm_idx. destruct (pick (filter (owned h) (c_live c)) idx) as [b|] eqn:Ep; [|discriminate].
  intros Hi; inversion Hi; subst i; clear Hi.
  apply pick_In in Ep. apply filter_In in Ep. destruct Ep as [Hin Hown].
  unfold owned in Hown. apply Z.leb_le in Hown.
  destruct (pos_of_nth _ _ Hin) as (x & Hx & Hid & Hlt).
  exists x. split; [|lia]. unfold pick.
  destruct (c_live c) as [|y l] eqn:El; [destruct Hin|].
  rewrite Nat.mod_small by assumption. assumption.
Qed.

Lemma norm_disc st o o' :
  SInv st -> sop_ok o -> norm st o = Some o' -> sop_ok o' /\ disc st o'.
Proof.
  intros HS Hop Hn. destruct o as [c| |a o|]; cbn [norm] in Hn.
  - inversion Hn; subst. split; exact I.
  - inversion Hn; subst. split; exact I.
  - destruct (top_of a (ss_bors st)) as [h|] eqn:Et; [|discriminate].
    destruct (top_of_In _ _ _ Et) as [Hhin Hha].
    destruct HS as (_ & _ & Hb & _). rewrite Forall_forall in Hb. pose proof (Hb h Hhin) as Hbh. rewrite Hha in Hbh.
    destruct Hbh as ((Hm0 & Hm1) & _).
    destruct (norm_cli (sel a st) h o) as [o1|] eqn:En; [|discriminate]. cbn [option_map] in Hn. inversion Hn; subst o'; clear Hn.
    cbn [disc]. rewrite Et.
    destruct o; cbn [norm_cli] in En;
      try (inversion En; subst o1; cbn [sop_ok disc_cli] in *; split; auto; fail);
      try (destruct (norm_idx (sel a st) h idx) as [i|] eqn:Ei; [|discriminate]; cbn [option_map] in En; inversion En; subst o1;
           destruct (norm_idx_pick _ _ _ _ Ei) as (x & Hx & Hid); cbn [sop_ok disc_cli] in *; rewrite Hx; split; assumption).
    + (* OReset *)
      inversion En; subst o1. cbn [sop_ok disc_cli] in *.
      pose proof (Z.mod_pos_bound t (aoff (sel a st) - bo_mark h + 1) ltac:(lia)). split; lia.
  - destruct (ss_bors st) eqn:Eb; [|discriminate]. inversion Hn; subst. split; [exact I|exact Eb].
Qed.

Lemma nstep_inv dbg st o : SInv st -> sop_ok o -> SInv (fst (nstep dbg st o)).
Proof.
  intros HS Hop. unfold nstep. destruct (norm st o) as [o'|] eqn:En; [|assumption].
  destruct (norm_disc st o o' HS Hop En). apply sstep_inv; assumption.
Qed.

(* every op list, normalised, is a disciplined history *)
Lemma nrun_inv dbg ops : forall st, SInv st -> Forall sop_ok ops -> SInv (nrun dbg st ops).
Proof.
  induction ops as [|o ops IH]; intros st HS Hops; cbn [nrun fold_left]; [assumption|].
  inversion Hops; subst. apply IH; [apply nstep_inv; assumption|assumption].
Qed.

(* ---------- contents of any live block (lift of the C11 theorem) ---------- *)

Definition swrites (st : sst) (o : sop) (a : bool) (id : Z) : Prop :=
  match o with
  | SCli a' op => a' = a /\ top_of a' (ss_bors st) <> None /\ writes_to (sel a st) op id
  | _ => False
  end.

Lemma sstep_contents dbg st o a id b b' :
  SInv st -> sop_ok o -> disc st o ->
  find_blk (c_live (sel a st)) id = Some b ->
  find_blk (c_live (sel a (fst (sstep dbg st o)))) id = Some b' ->
  ~ swrites st o a id ->
  forall i, 0 <= i < Z.min (b_len b) (b_len b') ->
    s_m (c_s (sel a (fst (sstep dbg st o)))) (b_off b' + i) = s_m (c_s (sel a st)) (b_off b + i).
Proof.
  intros HS Hop Hd Hf Hf' Hnw i Hi. pose proof (SInv_sel a st HS) as HIa.
  destruct o as [c| |a' o|].
  - cbn [sstep fst] in *. rewrite sel_rebuild in *. rewrite Hf in Hf'. inversion Hf'; subst. reflexivity.
  - cbn [sstep] in *. destruct (ss_bors st) as [|h rest] eqn:Eb; cbn [fst] in *.
    + rewrite Hf in Hf'. inversion Hf'; subst. reflexivity.
    + rewrite sel_rebuild, sel_cases in *.
      destruct (Bool.eqb a (bo_arena h)) eqn:E; [|rewrite Hf in Hf'; inversion Hf'; subst; reflexivity].
      apply Bool.eqb_prop in E. subst a.
      rewrite drop_arena_eq in Hf'; cbn [c_live] in Hf'.
      pose proof HIa as (_ & _ & _ & Hnd & _).
      destruct (find_blk_In _ _ _ Hf') as [Hin' Hid']. unfold keep_below in Hin'. apply filter_In in Hin'.
      destruct Hin' as [Hin'' Hk]. apply Z.leb_le in Hk.
      pose proof (find_blk_unique _ _ _ Hnd Hin'' Hid') as Hu. rewrite Hf in Hu. inversion Hu; subst b'.
      apply drop_arena_mem. lia.
  - cbn [disc] in Hd. destruct (top_of a' (ss_bors st)) as [t|] eqn:Et.
    + destruct (disc_cli_not_borrow _ _ _ Hd) as [Hn1 Hn2].
      rewrite (sstep_cli_eq dbg st a' o t Et Hn1 Hn2) in *. cbn [fst] in *. rewrite sel_cases in *.
      destruct (Bool.eqb a a') eqn:E; [|rewrite Hf in Hf'; inversion Hf'; subst; reflexivity].
      apply Bool.eqb_prop in E. subst a'.
      apply (cstep_preserves_contents dbg (sel a st) o id b b' HIa (sop_ok_cli _ _ Hop) Hf Hf'); [|assumption].
      intros Hw. apply Hnw. cbn [swrites]. split; [reflexivity|]. split; [rewrite Et; discriminate|assumption].
    + rewrite sstep_cli_none in * by assumption. cbn [fst] in *. rewrite Hf in Hf'. inversion Hf'; subst. reflexivity.
  - cbn [sstep fst] in Hf'. unfold reinit in Hf'. destruct a; cbn [sel ss0 ss1] in Hf'; rewrite init_arena_eq in Hf'; discriminate.
Qed.

(* ---------- the generated wiring ---------- *)

(* what each entry point's script expands to, for arbitrary client operations of the phases *)
Definition cli_shape (p : phase_ops) : list sop :=
  [SBorrow CNone] ++ map (SCli false) (po_parse p) ++
  [SBorrow (CScratch false)] ++ role_ops true false (po_resolve p) ++
  [SBorrow (CScratch false)] ++ role_ops false true (po_run p) ++ [SDrop; SDrop; SDrop].

Definition lib_shape (p : phase_ops) : list sop :=
  [SBorrow CNone; SBorrow (CScratch false)] ++ map (SCli false) (po_parse p) ++
  role_ops false false (po_resolve p) ++ role_ops false true (po_run p) ++ [SDrop; SDrop].

Lemma app_assoc_cons {A} (x : A) l r : (x :: l) ++ r = x :: (l ++ r).
Proof. reflexivity. Qed.

Lemma cli_script_expands p : expand w0 cli_script p = Some (cli_shape p).
Proof.
  unfold cli_script, cli_shape. cbn. reflexivity.
Qed.

Lemma wasm_script_expands p : expand w0 wasm_script p = Some (cli_shape p).
Proof.
  unfold wasm_script, cli_shape. cbn. reflexivity.
Qed.

Lemma lib_script_expands p : expand w0 lib_script p = Some (lib_shape p).
Proof.
  unfold lib_script, lib_shape. cbn. reflexivity.
Qed.

Definition phase_ok (p : phase_ops) : Prop :=
  Forall op_ok (po_parse p) /\ Forall (fun ro => op_ok (snd ro)) (po_resolve p) /\
  Forall (fun ro => op_ok (snd ro)) (po_run p).

Lemma op_ok_sop a o : op_ok o -> sop_ok (SCli a o).
Proof. destruct o; cbn [sop_ok op_ok]; auto. Qed.

Lemma role_ops_ok a1 a2 l : Forall (fun ro : bool * op => op_ok (snd ro)) l -> Forall sop_ok (role_ops a1 a2 l).
Proof.
  intros H. unfold role_ops. apply Forall_forall. intros x Hx. apply in_map_iff in Hx.
  destruct Hx as (ro & <- & Hin). rewrite Forall_forall in H. apply op_ok_sop. apply H. assumption.
Qed.

Lemma map_cli_ok a l : Forall op_ok l -> Forall sop_ok (map (SCli a) l).
Proof.
  intros H. apply Forall_forall. intros x Hx. apply in_map_iff in Hx.
  destruct Hx as (o & <- & Hin). rewrite Forall_forall in H. apply op_ok_sop. apply H. assumption.
Qed.

Lemma cli_shape_ok p : phase_ok p -> Forall sop_ok (cli_shape p).
Proof.
  intros (H1 & H2 & H3). unfold cli_shape.
  repeat (apply Forall_app; split); try (repeat constructor; fail);
    auto using map_cli_ok, role_ops_ok.
Qed.

Lemma lib_shape_ok p : phase_ok p -> Forall sop_ok (lib_shape p).
Proof.
  intros (H1 & H2 & H3). unfold lib_shape.
  repeat (apply Forall_app; split); try (repeat constructor; fail);
    auto using map_cli_ok, role_ops_ok.
Qed.

(* the borrow stack after a normalised run depends on the op list only through its
   borrow/drop skeleton *)
Lemma bors_nstep_cli dbg st a o : ss_bors (fst (nstep dbg st (SCli a o))) = ss_bors st.
Proof.
  unfold nstep. destruct (norm st (SCli a o)) as [o'|] eqn:En; [|reflexivity].
  cbn [norm] in En. destruct (top_of a (ss_bors st)); [|discriminate].
  destruct (norm_cli (sel a st) b o); [|discriminate]. cbn [option_map] in En. inversion En; subst.
  apply bors_sstep_cli.
Qed.

Lemma nrun_cli_bors dbg l : forall st, (forall o, In o l -> exists a op, o = SCli a op) ->
  ss_bors (nrun dbg st l) = ss_bors st.
Proof.
  induction l as [|o l IH]; intros st H; cbn [nrun fold_left]; [reflexivity|].
  destruct (H o (or_introl eq_refl)) as (a & op & ->).
  unfold nrun in IH. rewrite IH; [apply bors_nstep_cli|]. intros o' Ho'. apply H. right. assumption.
Qed.

Lemma nrun_app dbg l1 l2 st : nrun dbg st (l1 ++ l2) = nrun dbg (nrun dbg st l1) l2.
Proof. unfold nrun. apply fold_left_app. Qed.

Lemma map_cli_shape a l o : In o (map (SCli a) l) -> exists a' op, o = SCli a' op.
Proof. intros H. apply in_map_iff in H. destruct H as (x & <- & _). eauto. Qed.

Lemma role_ops_shape a1 a2 l o : In o (role_ops a1 a2 l) -> exists a' op, o = SCli a' op.
Proof. unfold role_ops. intros H. apply in_map_iff in H. destruct H as (x & <- & _). eauto. Qed.

(* ---------- exit status ---------- *)

Lemma has_errors_In l : has_errors l = true <-> In true l.
Proof.
  unfold has_errors. rewrite existsb_exists. split.
  - intros (x & Hin & Hx). subst. assumption.
  - intros H. exists true. auto.
Qed.

Lemma exit_zero_iff_no_error_lemma parse resolve run :
  syntax_emits_only_errors = true ->
  (forall e, In e parse -> e = true) ->
  (exit_code parse resolve run = 0 <-> ~ In true (emitted parse resolve run)).
Proof.
  intros _ Hp. unfold exit_code, emitted.
  unfold cli_parse_guard, cli_resolve_guard, cli_run_guard, cli_parse_exit, cli_resolve_exit, cli_run_exit, cli_final_exit.
  cbn [guard_fires].
  destruct parse as [|e parse].
  - destruct (has_errors resolve) eqn:Er.
    + split; [discriminate|]. intros H. exfalso. apply H. cbn [app]. apply has_errors_In. assumption.
    + destruct (has_errors run) eqn:Eu.
      * split; [discriminate|]. intros H. exfalso. apply H. cbn [app]. apply in_or_app. right. apply has_errors_In. assumption.
      * split; [|reflexivity]. intros _ H. cbn [app] in H. apply in_app_or in H.
        destruct H as [H|H]; apply has_errors_In in H; congruence.
  - split; [discriminate|]. intros H. exfalso. apply H. left. apply Hp. left. reflexivity.
Qed.

(* ---------- the concrete pipelines ---------- *)

Lemma nrun_cli_other dbg a l : forall st, (forall o, In o l -> exists op, o = SCli a op) ->
  sel (negb a) (nrun dbg st l) = sel (negb a) st.
Proof.
  induction l as [|o l IH]; intros st H; cbn [nrun fold_left]; [reflexivity|].
  destruct (H o (or_introl eq_refl)) as (op & ->).
  unfold nrun in IH. rewrite IH by (intros o' Ho'; apply H; right; assumption).
  unfold nstep. destruct (norm st (SCli a op)) as [o'|] eqn:En; [|reflexivity].
  cbn [norm] in En. destruct (top_of a (ss_bors st)); [|discriminate].
  destruct (norm_cli (sel a st) b op); [|discriminate]. cbn [option_map] in En. inversion En; subst.
  apply (sstep_other_arena dbg st (SCli a o)).
Qed.

Lemma nrun_cons dbg st o l : nrun dbg st (o :: l) = nrun dbg (fst (nstep dbg st o)) l.
Proof. reflexivity. Qed.

Lemma nstep_borrow dbg st c : nstep dbg st (SBorrow c) = sstep dbg st (SBorrow c).
Proof. reflexivity. Qed.

Lemma nstep_drop dbg st : nstep dbg st SDrop = sstep dbg st SDrop.
Proof. reflexivity. Qed.

Lemma drop_step dbg st b rest :
  ss_bors st = b :: rest ->
  ss_bors (fst (sstep dbg st SDrop)) = rest /\
  aoff (sel (bo_arena b) (fst (sstep dbg st SDrop))) = bo_mark b /\
  sel (negb (bo_arena b)) (fst (sstep dbg st SDrop)) = sel (negb (bo_arena b)) st.
Proof.
  intros Hb. cbn [sstep]. rewrite Hb. cbn [fst ss_bors]. rewrite !sel_rebuild, sel_upd_same, sel_upd_other.
  split; [reflexivity|]. split; [apply drop_arena_off|reflexivity].
Qed.

Lemma in_map_cli a l o : In o (map (SCli a) l) -> exists op, o = SCli a op.
Proof. intros H. apply in_map_iff in H. destruct H as (x & <- & _). eauto. Qed.

(* After the whole CLI / playground wiring — whatever the three phases allocate, grow,
   write, reset (normalised to the discipline) — no borrow is live and both scratch
   arenas are back at offset 0; the invariant (hence disjointness of all live blocks and
   the protection of outer blocks) holds after every prefix. *)
Lemma cli_pipeline_clean dbg b0 b1 cap p :
  phase_ok p ->
  let st := nrun dbg (sinit b0 b1 cap) (cli_shape p) in
  ss_bors st = [] /\ aoff (ss0 st) = 0 /\ aoff (ss1 st) = 0.
Proof.
  intros Hp st. subst st. unfold cli_shape.
  set (s0 := sinit b0 b1 cap).
  cbn [app]. rewrite nrun_cons, nstep_borrow.
  set (s1 := fst (sstep dbg s0 (SBorrow CNone))).
  assert (B1 : ss_bors s1 = [mkBor false 0 0]) by reflexivity.
  rewrite nrun_app. set (s2 := nrun dbg s1 (map (SCli false) (po_parse p))).
  assert (B2 : ss_bors s2 = [mkBor false 0 0]).
  { subst s2. rewrite nrun_cli_bors; [assumption|]. intros o Ho. destruct (in_map_cli _ _ _ Ho) as (op & ->). eauto. }
  assert (O2 : aoff (sel true s2) = 0).
  { subst s2. change true with (negb false). rewrite nrun_cli_other by (apply in_map_cli). reflexivity. }
  rewrite nrun_cons, nstep_borrow. set (s3 := fst (sstep dbg s2 (SBorrow (CScratch false)))).
  assert (B3 : exists n1, ss_bors s3 = [mkBor true 0 n1; mkBor false 0 0]).
  { subst s3. cbn [sstep fst ss_bors choose]. rewrite B2, O2. eauto. }
  destruct B3 as (n1 & B3).
  rewrite nrun_app. set (s4 := nrun dbg s3 (role_ops true false (po_resolve p))).
  assert (B4 : ss_bors s4 = [mkBor true 0 n1; mkBor false 0 0]).
  { subst s4. rewrite nrun_cli_bors; [assumption|]. apply role_ops_shape. }
  rewrite nrun_cons, nstep_borrow. set (s5 := fst (sstep dbg s4 (SBorrow (CScratch false)))).
  assert (B5 : exists m2 n2, ss_bors s5 = [mkBor true m2 n2; mkBor true 0 n1; mkBor false 0 0]).
  { subst s5. cbn [sstep fst ss_bors choose]. rewrite B4. eauto. }
  destruct B5 as (m2 & n2 & B5).
  rewrite nrun_app. set (s6 := nrun dbg s5 (role_ops false true (po_run p))).
  assert (B6 : ss_bors s6 = [mkBor true m2 n2; mkBor true 0 n1; mkBor false 0 0]).
  { subst s6. rewrite nrun_cli_bors; [assumption|]. apply role_ops_shape. }
  rewrite !nrun_cons, !nstep_drop. cbn [nrun fold_left].
  destruct (drop_step dbg s6 _ _ B6) as (B7 & _ & _). set (s7 := fst (sstep dbg s6 SDrop)) in *.
  destruct (drop_step dbg s7 _ _ B7) as (B8 & O8 & _). set (s8 := fst (sstep dbg s7 SDrop)) in *.
  destruct (drop_step dbg s8 _ _ B8) as (B9 & O9 & E9). set (s9 := fst (sstep dbg s8 SDrop)) in *.
  cbn [bo_arena bo_mark negb sel] in *.
  refine (conj B9 (conj O9 _)). rewrite E9. exact O8.
Qed.

Lemma lib_pipeline_clean dbg b0 b1 cap p :
  phase_ok p ->
  let st := nrun dbg (sinit b0 b1 cap) (lib_shape p) in
  ss_bors st = [] /\ aoff (ss0 st) = 0 /\ aoff (ss1 st) = 0.
Proof.
  intros Hp st. subst st. unfold lib_shape.
  set (s0 := sinit b0 b1 cap).
  cbn [app]. rewrite !nrun_cons, !nstep_borrow.
  set (s2 := fst (sstep dbg (fst (sstep dbg s0 (SBorrow CNone))) (SBorrow (CScratch false)))).
  assert (B2 : ss_bors s2 = [mkBor true 0 0; mkBor false 0 0]) by reflexivity.
  rewrite !nrun_app.
  set (s3 := nrun dbg (nrun dbg (nrun dbg s2 (map (SCli false) (po_parse p))) (role_ops false false (po_resolve p)))
                  (role_ops false true (po_run p))).
  assert (B3 : ss_bors s3 = [mkBor true 0 0; mkBor false 0 0]).
  { subst s3. rewrite !nrun_cli_bors; [assumption| | |]; intros o Ho;
      [destruct (in_map_cli _ _ _ Ho) as (op & ->); eauto|eapply role_ops_shape; eassumption|eapply role_ops_shape; eassumption]. }
  rewrite !nrun_cons, !nstep_drop. cbn [nrun fold_left].
  destruct (drop_step dbg s3 _ _ B3) as (B4 & O4 & _). set (s4 := fst (sstep dbg s3 SDrop)) in *.
  destruct (drop_step dbg s4 _ _ B4) as (B5 & O5 & E5). set (s5 := fst (sstep dbg s4 SDrop)) in *.
  cbn [bo_arena bo_mark negb sel] in *.
  refine (conj B5 (conj O5 _)). rewrite E5. exact O4.
Qed.

Lemma pipeline_prefix_inv dbg b0 b1 cap l1 l2 :
  Forall sop_ok (l1 ++ l2) -> SInv (nrun dbg (sinit b0 b1 cap) l1).
Proof.
  intros H. apply nrun_inv; [apply sinit_inv|]. apply Forall_app in H. tauto.
Qed.

Lemma other_arena_untouched dbg st a o : sel (negb a) (fst (sstep dbg st (SCli a o))) = sel (negb a) st.
Proof. exact (sstep_other_arena dbg st (SCli a o)). Qed.

Lemma cli_pipeline_invariant dbg b0 b1 cap p l1 l2 :
  phase_ok p -> cli_shape p = l1 ++ l2 -> SInv (nrun dbg (sinit b0 b1 cap) l1).
Proof.
  intros Hp He. apply (pipeline_prefix_inv dbg b0 b1 cap l1 l2).
  rewrite <- He. exact (cli_shape_ok p Hp).
Qed.

Lemma lib_pipeline_invariant dbg b0 b1 cap p l1 l2 :
  phase_ok p -> lib_shape p = l1 ++ l2 -> SInv (nrun dbg (sinit b0 b1 cap) l1).
Proof.
  intros Hp He. apply (pipeline_prefix_inv dbg b0 b1 cap l1 l2).
  rewrite <- He. exact (lib_shape_ok p Hp).
Qed.

(* ---------- what was written is what is read back ---------- *)

(* Ghost bookkeeping, not part of the model: for every live block that some client filled
   with `OWrite idx seed`, the seed and the length of the prefix that still carries the
   pattern (a shrink cuts it).  It is a function of the op list and of the ledgers only. *)
Record went := mkWe { we_arena : bool; we_id : Z; we_seed : Z; we_len : Z }.

Definition same_key (e x : went) : bool := Bool.eqb (we_arena x) (we_arena e) && (we_id x =? we_id e).

Definition trim_went (st' : sst) (e : went) : list went :=
  match find_blk (c_live (sel (we_arena e) st')) (we_id e) with
  | Some b => [mkWe (we_arena e) (we_id e) (we_seed e) (Z.min (we_len e) (b_len b))]
  | None => []
  end.

Definition written_by (st : sst) (o : sop) : option went :=
  match o with
  | SCli a (OWrite idx seed) =>
      match top_of a (ss_bors st), pick (c_live (sel a st)) idx with
      | Some _, Some b => Some (mkWe a (b_id b) seed (b_len b))
      | _, _ => None
      end
  | _ => None
  end.

Definition gstep (dbg : bool) (st : sst) (o : sop) (g : list went) : list went :=
  let st' := fst (sstep dbg st o) in
  match o with
  | SInit => []
  | _ =>
      match written_by st o with
      | Some e => e :: flat_map (trim_went st') (filter (fun x => negb (same_key e x)) g)
      | None => flat_map (trim_went st') g
      end
  end.

Fixpoint grun (dbg : bool) (st : sst) (ops : list sop) (g : list went) : list went :=
  match ops with
  | [] => g
  | o :: rest => grun dbg (fst (sstep dbg st o)) rest (gstep dbg st o g)
  end.

(* the block is live, at least we_len long, and its first we_len bytes are the pattern *)
Definition went_ok (st : sst) (e : went) : Prop :=
  exists b, find_blk (c_live (sel (we_arena e) st)) (we_id e) = Some b /\
    we_len e <= b_len b /\
    forall i, 0 <= i < we_len e -> s_m (c_s (sel (we_arena e) st)) (b_off b + i) = pattern (we_seed e) i.

Lemma written_by_swrites st o a id :
  swrites st o a id ->
  exists e, written_by st o = Some e /\ we_arena e = a /\ we_id e = id.
Proof.
  destruct o as [c| |a' op|]; cbn [swrites]; try contradiction.
  intros (-> & Ht & Hw). destruct op; cbn [writes_to] in Hw; try contradiction.
  cbn [written_by]. destruct (top_of a (ss_bors st)) as [t|]; [|congruence].
  destruct (pick (c_live (sel a st)) idx) as [b|]; [|contradiction].
  eexists. split; [reflexivity|]. cbn [we_arena we_id]. auto.
Qed.

Lemma trimmed_ok dbg st o x :
  SInv st -> sop_ok o -> disc st o -> went_ok st x ->
  ~ swrites st o (we_arena x) (we_id x) ->
  Forall (went_ok (fst (sstep dbg st o))) (trim_went (fst (sstep dbg st o)) x).
Proof.
  intros HS Hop Hd (b & Hf & Hle & Hc) Hnw. unfold trim_went.
  destruct (find_blk (c_live (sel (we_arena x) (fst (sstep dbg st o)))) (we_id x)) as [b'|] eqn:Hf'; [|constructor].
  constructor; [|constructor].
  exists b'. cbn [we_arena we_id we_seed we_len]. split; [assumption|]. split; [lia|].
  intros i Hi.
  rewrite (sstep_contents dbg st o (we_arena x) (we_id x) b b' HS Hop Hd Hf Hf' Hnw i ltac:(lia)).
  apply Hc. lia.
Qed.

Lemma write_entry_ok dbg st a idx seed t b :
  SInv st -> top_of a (ss_bors st) = Some t -> pick (c_live (sel a st)) idx = Some b ->
  went_ok (fst (sstep dbg st (SCli a (OWrite idx seed)))) (mkWe a (b_id b) seed (b_len b)).
Proof.
  intros HS Ht Hp.
  rewrite (sstep_cli_eq dbg st a (OWrite idx seed) t Ht ltac:(discriminate) ltac:(discriminate)). cbn [fst].
  unfold went_ok; cbn [we_arena we_id we_seed we_len]. rewrite sel_upd_same.
  cbn [cstep]. rewrite Hp. cbn [fst c_live c_s s_m].
  pose proof (SInv_sel a st HS) as (_ & _ & _ & Hnd & _).
  pose proof (pick_In _ _ _ Hp) as Hin.
  eexists. split.
  - apply find_replace_same; [reflexivity|assumption|eauto].
  - cbn [b_len b_off]. split; [lia|]. intros i Hi. unfold write_pat.
    destruct (b_off b <=? b_off b + i) eqn:E1; destruct (b_off b + i <? b_off b + b_len b) eqn:E2; cbn [andb].
    + f_equal. lia.
    + apply Z.ltb_ge in E2. lia.
    + apply Z.leb_gt in E1. lia.
    + apply Z.leb_gt in E1. lia.
Qed.

Lemma Forall_flat_map {A B} (P : B -> Prop) (f : A -> list B) l :
  (forall x, In x l -> Forall P (f x)) -> Forall P (flat_map f l).
Proof.
  intros H. apply Forall_forall. intros y Hy. apply in_flat_map in Hy. destruct Hy as (x & Hx & Hy).
  specialize (H x Hx). rewrite Forall_forall in H. auto.
Qed.

Lemma gstep_ok dbg st o g :
  SInv st -> sop_ok o -> disc st o -> Forall (went_ok st) g ->
  Forall (went_ok (fst (sstep dbg st o))) (gstep dbg st o g).
Proof.
  intros HS Hop Hd Hg. unfold gstep.
  assert (Hgen : forall l, Forall (went_ok st) l ->
                 (forall x, In x l -> ~ swrites st o (we_arena x) (we_id x)) ->
                 Forall (went_ok (fst (sstep dbg st o))) (flat_map (trim_went (fst (sstep dbg st o))) l)).
  { intros l Hl Hn. apply Forall_flat_map. intros x Hx. rewrite Forall_forall in Hl.
    apply trimmed_ok; auto. }
  destruct (written_by st o) as [e|] eqn:Ew.
  - assert (Hshape : exists a idx seed t b, o = SCli a (OWrite idx seed) /\ top_of a (ss_bors st) = Some t /\
                       pick (c_live (sel a st)) idx = Some b /\ e = mkWe a (b_id b) seed (b_len b)).
    { destruct o as [c| |a op|]; cbn [written_by] in Ew; try discriminate.
      destruct op; try discriminate.
      destruct (top_of a (ss_bors st)) as [t|] eqn:Et; [|discriminate].
      destruct (pick (c_live (sel a st)) idx) as [b|] eqn:Ep; [|discriminate].
      inversion Ew. eauto 10. }
    destruct Hshape as (a & idx & seed & t & b & -> & Ht & Hp & ->).
    constructor; [apply write_entry_ok with (t := t); assumption|].
    apply Hgen.
    + apply Forall_filter. assumption.
    + intros x Hx Hsw. apply filter_In in Hx. destruct Hx as [_ Hk].
      destruct (written_by_swrites _ _ _ _ Hsw) as (e' & He' & Ha & Hi).
      rewrite Ew in He'. inversion He'; subst e'. unfold same_key in Hk.
      rewrite Ha, Hi, Bool.eqb_reflx, Z.eqb_refl in Hk. discriminate.
  - destruct o as [c| |a op|]; try (apply Hgen; [assumption|]; intros x Hx Hsw; exact Hsw).
    + apply Hgen; [assumption|]. intros x Hx Hsw.
      destruct (written_by_swrites _ _ _ _ Hsw) as (e' & He' & _). congruence.
    + constructor.
Qed.

(* readback: along any disciplined run from `init`, every block that a client filled and
   that is still live carries, on the recorded prefix, exactly the pattern that was last
   written to it — whatever else the other phases did in either arena, in any wiring. *)
Lemma grun_ok dbg ops : forall st g,
  SInv st -> run_disc dbg st ops -> Forall (went_ok st) g ->
  Forall (went_ok (srun dbg st ops)) (grun dbg st ops g).
Proof.
  induction ops as [|o ops IH]; intros st g HS Hr Hg; cbn [srun fold_left grun]; [assumption|].
  cbn [run_disc] in Hr. destruct Hr as (Hop & Hd & Hr).
  apply IH; [apply sstep_inv; assumption|assumption|apply gstep_ok; assumption].
Qed.

Lemma written_reads_back dbg b0 b1 cap ops :
  run_disc dbg (sinit b0 b1 cap) ops ->
  Forall (went_ok (srun dbg (sinit b0 b1 cap) ops)) (grun dbg (sinit b0 b1 cap) ops []).
Proof. intros Hr. apply grun_ok; [apply sinit_inv|assumption|constructor]. Qed.

Lemma ssim_live a st st' : ssim st st' -> c_live (sel a st) = c_live (sel a st').
Proof. intros Hs. destruct (ssim_sel a _ _ Hs) as (_ & _ & _ & _ & _ & Hl & _). exact Hl. Qed.

Lemma trim_went_sim st st' e : ssim st st' -> trim_went st e = trim_went st' e.
Proof. intros Hs. unfold trim_went. rewrite (ssim_live _ _ _ Hs). reflexivity. Qed.

Lemma written_by_sim st st' o : ssim st st' -> written_by st o = written_by st' o.
Proof.
  intros Hs. destruct o as [c| |a op|]; try reflexivity. destruct op; try reflexivity.
  cbn [written_by]. destruct Hs as (H0 & H1 & Hb). rewrite Hb.
  rewrite (ssim_live a st st' (conj H0 (conj H1 Hb))). reflexivity.
Qed.

Lemma gstep_sim dbg dbg' st st' o g :
  ssim st st' -> SInv st -> sop_ok o -> disc st o -> gstep dbg st o g = gstep dbg' st' o g.
Proof.
  intros Hs HS Hop Hd. destruct (sstep_sim dbg dbg' st st' o Hs HS Hop Hd) as [Hs1 _].
  unfold gstep. rewrite (written_by_sim _ _ o Hs).
  assert (Hfm : forall l, flat_map (trim_went (fst (sstep dbg st o))) l = flat_map (trim_went (fst (sstep dbg' st' o))) l).
  { intros l. apply flat_map_ext. intros e. apply trim_went_sim. assumption. }
  destruct o; try reflexivity; destruct (written_by st' _); rewrite Hfm; reflexivity.
Qed.

Lemma grun_sim dbg dbg' ops : forall st st' g,
  ssim st st' -> SInv st -> SInv st' -> run_disc dbg st ops -> grun dbg st ops g = grun dbg' st' ops g.
Proof.
  induction ops as [|o ops IH]; intros st st' g Hs HS HS' Hr; cbn [grun]; [reflexivity|].
  cbn [run_disc] in Hr. destruct Hr as (Hop & Hd & Hr).
  destruct (sstep_sim dbg dbg' st st' o Hs HS Hop Hd) as [Hs1 _].
  rewrite (gstep_sim dbg dbg' st st' o g Hs HS Hop Hd).
  apply IH; [assumption|apply sstep_inv; assumption| |assumption].
  apply sstep_inv; [assumption|assumption|]. eapply disc_sim; eassumption.
Qed.

Lemma run_disc_sim dbg dbg' ops : forall st st',
  ssim st st' -> SInv st -> run_disc dbg st ops -> run_disc dbg' st' ops.
Proof.
  induction ops as [|o ops IH]; intros st st' Hs HS Hr; cbn [run_disc] in *; [exact I|].
  destruct Hr as (Hop & Hd & Hr). destruct (sstep_sim dbg dbg' st st' o Hs HS Hop Hd) as [Hs1 _].
  refine (conj Hop (conj (disc_sim _ _ _ Hs Hd) _)).
  apply (IH _ _ Hs1); [apply sstep_inv; assumption|assumption].
Qed.

(* After re-initialisation the blocks that clients have filled are the same blocks (same
   arena, id; by the trace theorem the same addresses) carrying the same patterns as on
   fresh arenas: one list of written entries is valid in both final states. *)
Lemma reinit_contents_independent_lemma dbg dbg' b0 b1 cap prev ops :
  run_disc dbg (sinit b0 b1 cap) prev ->
  ss_bors (srun dbg (sinit b0 b1 cap) prev) = [] ->
  run_disc dbg' (sinit b0 b1 cap) ops ->
  let again := fst (sstep dbg (srun dbg (sinit b0 b1 cap) prev) SInit) in
  let g := grun dbg' (sinit b0 b1 cap) ops [] in
  Forall (went_ok (srun dbg' (sinit b0 b1 cap) ops)) g /\ Forall (went_ok (srun dbg again ops)) g.
Proof.
  intros Hprev Hnb Hops again g.
  split; [apply written_reads_back; assumption|].
  pose proof (scratch_inv_reachable dbg b0 b1 cap prev Hprev) as HSp.
  set (stp := srun dbg (sinit b0 b1 cap) prev) in *.
  pose proof (sstep_inv dbg stp SInit HSp I Hnb) as HSr. fold again in HSr.
  assert (Hsim : ssim (sinit b0 b1 cap) again).
  { subst again. cbn [sstep fst]. unfold reinit, ssim; cbn [ss0 ss1 ss_bors].
    destruct HSp as (I0 & I1 & _).
    destruct (srun_base_cap dbg prev (sinit b0 b1 cap) false) as [B0 C0].
    destruct (srun_base_cap dbg prev (sinit b0 b1 cap) true) as [B1 C1].
    fold stp in B0, C0, B1, C1. cbn [sel] in B0, C0, B1, C1.
    assert (H : forall b c, Inv c -> a_base (s_a (c_s c)) = a_base (s_a (c_s (cinit b cap))) ->
                  a_cap (s_a (c_s c)) = a_cap (s_a (c_s (cinit b cap))) -> asim (cinit b cap) (init_arena dbg c)).
    { intros b c Hc Hb Hcap.
      destruct (init_arena_facts dbg c Hc) as (O1 & L1 & N1 & M1 & B & C). unfold aoff in O1.
      unfold asim. refine (conj (cinit_inv b cap) (conj (init_arena_inv dbg c Hc) _)).
      rewrite O1, L1, N1, M1, B, C, Hb, Hcap. repeat split; reflexivity. }
    refine (conj _ (conj _ (eq_sym Hnb))); apply H; assumption. }
  subst g. rewrite (grun_sim dbg' dbg ops (sinit b0 b1 cap) again [] Hsim (sinit_inv b0 b1 cap) HSr Hops).
  apply grun_ok; [assumption| |constructor].
  apply (run_disc_sim dbg' dbg ops (sinit b0 b1 cap) again Hsim (sinit_inv b0 b1 cap) Hops).
Qed.
