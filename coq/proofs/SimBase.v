(* SimBase — the result relation used by the scoping simulation (run_spec ~ run_impl), its
   monadic lemmas, the frame conditions (shape of the scope stack, heap extension), and
   state-independent facts about Lang/Spec primitives. *)
From Coq Require Import ZArith List Bool Lia.
Require Import NS.theories.F64 NS.theories.StrLib NS.theories.Lang NS.theories.Spec.
Require Import NS.proofs.StrLibProofs NS.proofs.SpecUnfold.
Import ListNotations.
Open Scope Z_scope.

(* The spec result prescribes the implementation result unless the spec is stuck, out of
   fuel or outside the model. *)
Definition rsim {A B} (Q : A -> B -> Prop) (ms : SM A) (mi : M B) : Prop :=
  match ms with
  | (o, SOk a) => exists b, mi = (o, Ok b) /\ Q a b
  | (o, SErr e) => mi = (o, Err e)
  | _ => True
  end.

Lemma rsim_bind {A B A' B'} (Q : A -> B -> Prop) (Q' : A' -> B' -> Prop) ms mi fs fi :
  rsim Q ms mi ->
  (forall a b, Q a b -> rsim Q' (fs a) (fi b)) ->
  rsim Q' (sbind ms fs) (bindM mi fi).
Proof.
  destruct ms as [o r]. destruct r as [a|e| | |]; cbn [rsim sbind]; intros H Hf; try exact I.
  - destruct H as (b & Hm & HQ). subst mi. cbn [bindM]. specialize (Hf a b HQ).
    destruct (fs a) as [o2 r2]. destruct (fi b) as [o2' r2'].
    destruct r2 as [a2|e2| | |]; cbn [rsim] in *; try exact I.
    + destruct Hf as (b2 & Hm & HQ2). inversion Hm; subst. exists b2. split; [reflexivity|exact HQ2].
    + inversion Hf; subst. reflexivity.
  - subst mi. reflexivity.
Qed.

Lemma sbind_ret {A B} (a : A) (f : A -> SM B) : sbind (sret a) f = f a.
Proof. cbn. destruct (f a); reflexivity. Qed.

Lemma rsim_ret {A B} (Q : A -> B -> Prop) a b : Q a b -> rsim Q (sret a) (OkM b).
Proof. intros H. cbn. exists b. split; [reflexivity|exact H]. Qed.

Lemma rsim_err {A B} (Q : A -> B -> Prop) e : rsim Q (serr e) (ErrM e).
Proof. reflexivity. Qed.

Lemma rsim_stuck {A B} (Q : A -> B -> Prop) mi : rsim Q (@sstuck A) mi.
Proof. exact I. Qed.

Lemma rsim_unsupp {A B} (Q : A -> B -> Prop) (mi : M B) : rsim Q (([], SUnsupp) : SM A) mi.
Proof. exact I. Qed.

Lemma rsim_lift {A} (r : res A) : rsim eq (of_res r) (lift r).
Proof. destruct r; cbn; try exact I; try reflexivity. eexists; split; reflexivity. Qed.

Lemma rsim_mono {A B} (Q Q' : A -> B -> Prop) ms mi :
  rsim Q ms mi -> (forall a b, Q a b -> Q' a b) -> rsim Q' ms mi.
Proof.
  destruct ms as [o r]; destruct r; cbn; intros H HQ; auto.
  destruct H as (b & E & H). exists b; auto.
Qed.

(* ---------- outputs of the pure spec primitives ---------- *)
Lemma read_var_cases h n c :
  (exists v, read_var h n c = sret v) \/ read_var h n c = sstuck.
Proof.
  unfold read_var. destruct (resolve_var h n c) as [[fid|]|]; auto.
  destruct (nth_error h fid); auto. destruct (slot_lookup n (fr_slots f)); eauto.
Qed.

Lemma write_var_cases h n c v :
  (exists h', write_var h n c v = sret h') \/ write_var h n c v = sstuck.
Proof.
  unfold write_var. destruct (resolve_var h n c) as [[fid|]|]; auto.
  destruct (nth_error h fid); auto. destruct (slot_set n v (fr_slots f)); eauto.
Qed.

Lemma declare_var_cases h cur n v :
  (exists h', declare_var h cur n v = sret h') \/ declare_var h cur n v = sstuck.
Proof. unfold declare_var. destruct (nth_error h cur); eauto. Qed.

(* ---------- shape of the scope stack ---------- *)
Definition slot_shape (sl : slot) : option Z * name := (s_id sl, s_name sl).
Definition scope_shape (sc : list slot) := map slot_shape sc.
Definition env_shape (e : list (list slot)) := map scope_shape e.

Lemma set_slot_shape l n v sc sc' : set_slot l n v sc = Some sc' -> scope_shape sc' = scope_shape sc.
Proof.
  revert sc'. induction sc as [|s r IH]; cbn; intros sc' H; [discriminate|].
  destruct (slot_matches l n s).
  - inversion H; subst. reflexivity.
  - destruct (set_slot l n v r) as [r'|]; [|discriminate]. inversion H; subst. cbn. f_equal. auto.
Qed.

Lemma assign_env_shape l n v e e' : assign_env l n v e = Some e' -> env_shape e' = env_shape e.
Proof.
  revert e'. induction e as [|sc r IH]; cbn; intros e' H; [discriminate|].
  destruct (set_slot l n v sc) as [sc'|] eqn:E.
  - inversion H; subst. cbn. f_equal. eapply set_slot_shape; eauto.
  - destruct (assign_env l n v r) as [r'|]; [|discriminate]. inversion H; subst. cbn. f_equal. auto.
Qed.

Lemma define_env_tl_shape l n v e : tl (env_shape (define_env l n v e)) = tl (env_shape e).
Proof.
  destruct e as [|sc r]; [reflexivity|]. cbn. destruct (set_slot l n v sc); reflexivity.
Qed.

(* ---------- heap extension: frames keep their functions and lexical parent ---------- *)
Definition hext (h h' : heap) : Prop :=
  (length h <= length h')%nat /\
  forall i f, nth_error h i = Some f ->
    exists f', nth_error h' i = Some f' /\ fr_fns f' = fr_fns f /\ fr_parent f' = fr_parent f.

Lemma hext_refl h : hext h h.
Proof. split; [lia|]. intros i f H. exists f; auto. Qed.

Lemma hext_trans h1 h2 h3 : hext h1 h2 -> hext h2 h3 -> hext h1 h3.
Proof.
  intros [L1 H1] [L2 H2]. split; [lia|]. intros i f Hi.
  destruct (H1 i f Hi) as (f2 & E2 & A2 & B2). destruct (H2 i f2 E2) as (f3 & E3 & A3 & B3).
  exists f3. repeat split; congruence.
Qed.

Lemma set_nth_frame_length h i f : length (set_nth_frame h i f) = length h.
Proof. revert i; induction h as [|x r IH]; intros [|i]; cbn; auto. Qed.

Lemma nth_set_nth_frame_eq h i f : (i < length h)%nat -> nth_error (set_nth_frame h i f) i = Some f.
Proof. revert i; induction h as [|x r IH]; intros [|i]; cbn; intros H; try lia; auto. apply IH; lia. Qed.

Lemma nth_set_nth_frame_neq h i j f : i <> j -> nth_error (set_nth_frame h i f) j = nth_error h j.
Proof.
  revert i j; induction h as [|x r IH]; intros [|i] [|j]; cbn; intros H; auto; try congruence.
Qed.

Lemma hext_set_slots h i f sl :
  nth_error h i = Some f ->
  hext h (set_nth_frame h i {| fr_slots := sl; fr_fns := fr_fns f; fr_parent := fr_parent f |}).
Proof.
  intros Hi. split; [rewrite set_nth_frame_length; lia|]. intros j g Hj.
  destruct (Nat.eq_dec i j) as [->|Hne].
  - rewrite nth_set_nth_frame_eq by (apply nth_error_Some; congruence).
    eexists; split; [reflexivity|]. cbn. assert (g = f) by congruence. subst; auto.
  - rewrite nth_set_nth_frame_neq by exact Hne. exists g; auto.
Qed.

Lemma write_var_hext h n c v h' : write_var h n c v = sret h' -> hext h h'.
Proof.
  unfold write_var. destruct (resolve_var h n c) as [[fid|]|]; try discriminate.
  destruct (nth_error h fid) as [f|] eqn:E; try discriminate.
  destruct (slot_set n v (fr_slots f)); try discriminate.
  intros H; inversion H; subst. apply hext_set_slots; exact E.
Qed.

Lemma declare_var_hext h cur n v h' : declare_var h cur n v = sret h' -> hext h h'.
Proof.
  unfold declare_var. destruct (nth_error h cur) as [f|] eqn:E; try discriminate.
  intros H; inversion H; subst. apply hext_set_slots; exact E.
Qed.

Lemma hext_app h fs : hext h (h ++ fs).
Proof.
  split; [rewrite app_length; lia|]. intros i f Hi. exists f. split; auto.
  rewrite nth_error_app1; auto. apply nth_error_Some; congruence.
Qed.

(* a fresh block/parameter frame, with its hoisted functions *)
Lemma hext_new_block h slots parent cs :
  hext h (with_fns (h ++ [{| fr_slots := slots; fr_fns := []; fr_parent := parent |}]) (length h) cs).
Proof.
  unfold with_fns. rewrite nth_error_app2 by lia. rewrite Nat.sub_diag. cbn [nth_error].
  split; [rewrite set_nth_frame_length, app_length; lia|]. intros i f Hi.
  assert (Hlt : (i < length h)%nat) by (apply nth_error_Some; congruence).
  rewrite nth_set_nth_frame_neq by lia. rewrite nth_error_app1 by lia. exists f; auto.
Qed.

(* ---------- hoisting never fails inside a pushed scope ---------- *)
Definition fdef_of (n : name) (ps : list name) (body : list stmt) (fid : option Z) (ls ll : Z) : fdef :=
  {| f_id := fid; f_name := n; f_params := ps; f_body := body; f_lstart := ls; f_llen := ll |}.

(* the function scope `hoist` builds from a block: later definitions first *)
Fixpoint hoisted (b : list stmt) (acc : list fdef) : list fdef :=
  match b with
  | [] => acc
  | SFun _ n ps body fid ls ll :: r => hoisted r (fdef_of n ps body fid ls ll :: acc)
  | _ :: r => hoisted r acc
  end.

Lemma hoist_none b : forall e sc rest,
  hoist None b {| env := e; fns := sc :: rest |} = Ok {| env := e; fns := hoisted b sc :: rest |}.
Proof.
  induction b as [|t r IH]; intros e sc rest; [reflexivity|].
  destruct t; cbn [hoist hoisted in_plan_fn fns env]; try apply IH.
Qed.

Lemma hoist_push b s :
  hoist None b (push_scope [] s) = Ok {| env := [] :: env s; fns := hoisted b [] :: fns s |}.
Proof. unfold push_scope. apply hoist_none. Qed.
