(* SimKit — the scoping simulation run_spec ~> run_impl, proved once for an abstract state
   relation R between the implementation's scope stack and the reference interpreter's
   (chain, heap), given the laws R must satisfy at variable reads, assignments, declarations,
   block entry/exit and calls.  Stages S1..S4 instantiate R. *)
From Coq Require Import ZArith List Bool Lia Permutation.
Require Import NS.theories.F64 NS.theories.StrLib NS.theories.Lang NS.theories.Spec NS.theories.LexResolve.
Require Import NS.proofs.StrLibProofs NS.proofs.LangUnfold NS.proofs.SpecUnfold NS.proofs.SimBase.
Import ListNotations.
Open Scope Z_scope.

(* ---------- static contexts ---------- *)
(* one lexical level: the declarations visible at the current point (lv_g), all declarations
   the block (or parameter list) will ever make (lv_sig), its functions (lv_f) *)
Record level := { lv_g : scope; lv_sig : scope; lv_f : scope }.
Definition ctx := list level.
Definition cv (k : ctx) : venv := map lv_g k.
Definition cf (k : ctx) : fenv := map lv_f k.
Definition set_g (lv : level) (g : scope) : level :=
  {| lv_g := g; lv_sig := lv_sig lv; lv_f := lv_f lv |}.
Definition sig_ids (k : ctx) : list Z := flat_map (fun lv => scope_ids (lv_sig lv)) k.

Fixpoint decls_after (top : scope) (ts : list stmt) : scope :=
  match ts with
  | [] => top
  | SMake _ n (Some i) _ :: r =>
      match assoc n top with
      | Some _ => decls_after top r
      | None => decls_after ((n, i) :: top) r
      end
  | _ :: r => decls_after top r
  end.

Fixpoint fn_table_stmt (t : stmt) {struct t} : list fdef :=
  match t with
  | SFun _ n ps body fid ls ll => fdef_of n ps body fid ls ll :: flat_map fn_table_stmt body
  | SIf _ _ t f =>
      flat_map fn_table_stmt t ++ match f with Some fb => flat_map fn_table_stmt fb | None => [] end
  | SLoop _ _ b | SBlock _ b => flat_map fn_table_stmt b
  | _ => []
  end.
Definition fn_table (b : list stmt) : list fdef := flat_map fn_table_stmt b.

Definition enter_level (b : list stmt) (fs : scope) : level :=
  {| lv_g := []; lv_sig := decls_after [] b; lv_f := fs |}.

(* frame conditions *)
Definition FC (s : st) (h : heap) (s' : st) (h' : heap) : Prop :=
  env_shape (env s') = env_shape (env s) /\ fns s' = fns s /\ hext h h'.
Definition FCt (s : st) (h : heap) (s' : st) (h' : heap) : Prop :=
  tl (env_shape (env s')) = tl (env_shape (env s)) /\ fns s' = fns s /\ hext h h'.

Lemma FC_refl s h : FC s h s h.
Proof. refine (conj _ (conj _ _)); auto using hext_refl. Qed.
Lemma FC_trans s1 h1 s2 h2 s3 h3 : FC s1 h1 s2 h2 -> FC s2 h2 s3 h3 -> FC s1 h1 s3 h3.
Proof. intros (A & B & C) (A' & B' & C'). refine (conj _ (conj _ _)); try congruence. eapply hext_trans; eauto. Qed.
Lemma FC_FCt s h s' h' : FC s h s' h' -> FCt s h s' h'.
Proof. intros (A & B & C). refine (conj _ (conj _ _)); auto. rewrite A; reflexivity. Qed.
Lemma FCt_trans s1 h1 s2 h2 s3 h3 : FCt s1 h1 s2 h2 -> FCt s2 h2 s3 h3 -> FCt s1 h1 s3 h3.
Proof. intros (A & B & C) (A' & B' & C'). refine (conj _ (conj _ _)); try congruence. eapply hext_trans; eauto. Qed.
Lemma FC_FCt_trans s1 h1 s2 h2 s3 h3 : FC s1 h1 s2 h2 -> FCt s2 h2 s3 h3 -> FCt s1 h1 s3 h3.
Proof. intros H1 H2. eapply FCt_trans; [apply FC_FCt; exact H1|exact H2]. Qed.

(* ---------- small facts about the checker ---------- *)
Lemma chk_var_inv G n l : chk_var G n l = true -> exists i, vlookup G n = Some i /\ l = Some i.
Proof.
  unfold chk_var. destruct (vlookup G n) as [i|]; [|discriminate].
  destruct l as [x|]; cbn; [|discriminate]. intros H. apply Z.eqb_eq in H. subst. eauto.
Qed.

Lemma flatten_rel t : forall acc,
  match flatten_target t acc with
  | Some (n, l, es) => flatten_named t acc = Some (n, es)
  | None => flatten_named t acc = None
  end.
Proof. induction t; intros acc; cbn; auto. apply IHt1. Qed.

Lemma flatten_chk G F t : forall acc n l ixs,
  chk_expr G F t = true -> forallb (chk_expr G F) acc = true ->
  flatten_target t acc = Some (n, l, ixs) ->
  chk_var G n l = true /\ forallb (chk_expr G F) ixs = true.
Proof.
  induction t; intros acc n0 l0 ixs Hc Ha Hf; cbn in Hf; try discriminate.
  - inversion Hf; subst. cbn in Hc. auto.
  - cbn [chk_expr] in Hc. apply andb_true_iff in Hc. destruct Hc as [H1 H2].
    eapply (IHt1 (t2 :: acc)); [exact H1| cbn [forallb]; rewrite H2, Ha; reflexivity | exact Hf].
Qed.
Lemma array_join_only f :
  mem_name f array_mut_methods = false -> mem_name f array_methods = true ->
  bytes_eqb f n_len = false -> bytes_eqb f n_join = true.
Proof.
  unfold mem_name, array_mut_methods, array_methods. cbn [existsb].
  destruct (bytes_eqb f n_len), (bytes_eqb f n_push), (bytes_eqb f n_pop), (bytes_eqb f n_reverse),
    (bytes_eqb f n_join); cbn; congruence.
Qed.

Lemma FC_call s h s1 h1 sl fr s3 h3 :
  FC s h s1 h1 -> FC (push_scope sl s1) (h1 ++ fr) s3 h3 -> FC s h (pop_scope s3) h3.
Proof.
  intros (A & B & C) (A' & B' & C'). cbn [push_scope env fns] in *.
  refine (conj _ (conj _ _)); cbn [pop_scope env fns].
  - unfold env_shape in *. rewrite <- A. destruct (env s3); [discriminate|]. cbn in *. congruence.
  - rewrite B'. cbn. exact B.
  - eapply hext_trans; [exact C|]. eapply hext_trans; [apply hext_app|exact C'].
Qed.
(* ---------- static lemmas: declarations and ids ---------- *)
Lemma bytes_eqb_sym a : forall b, bytes_eqb a b = bytes_eqb b a.
Proof.
  induction a as [|x a IH]; destruct b as [|y b]; cbn; auto.
  rewrite Z.eqb_sym, IH. reflexivity.
Qed.

Lemma bytes_eqb_eq a : forall b, bytes_eqb a b = true <-> a = b.
Proof.
  induction a as [|x a IH]; destruct b as [|y b]; cbn; split; intros H; try congruence.
  - apply andb_true_iff in H. destruct H as [H1 H2]. apply Z.eqb_eq in H1. apply IH in H2. congruence.
  - inversion H; subst. rewrite Z.eqb_refl. cbn. apply IH. reflexivity.
Qed.

Lemma bytes_eqb_refl a : bytes_eqb a a = true.
Proof. apply bytes_eqb_eq. reflexivity. Qed.

Lemma set_g_same lv : set_g lv (lv_g lv) = lv.
Proof. destruct lv; reflexivity. Qed.

Lemma NoDup_app_r {A} (a b : list A) : NoDup (a ++ b) -> NoDup b.
Proof. induction a as [|x a IH]; cbn; intros H; auto. inversion H; auto. Qed.
Lemma NoDup_app_l {A} (a b : list A) : NoDup (a ++ b) -> NoDup a.
Proof.
  induction a as [|x a IH]; cbn; intros H; [constructor|]. inversion H; subst.
  constructor; [|auto]. intros Hin. apply H2. apply in_or_app. auto.
Qed.

Lemma NoDup_app_mid {A} (a b c : list A) : NoDup (a ++ b ++ c) -> NoDup (a ++ c).
Proof.
  induction a as [|x a IH]; cbn; intros H.
  - eapply NoDup_app_r; eauto.
  - inversion H; subst. constructor; [|auto].
    intros Hin. apply H2. apply in_app_or in Hin. apply in_or_app. destruct Hin; auto.
    right. apply in_or_app. auto.
Qed.

Definition seen_ok (seen : list name) (top : scope) : Prop :=
  forall n, mem_name n seen = match assoc n top with Some _ => true | None => false end.

Lemma ids_stmts_perm ts : forall top seen,
  seen_ok seen top ->
  exists new, decls_after top ts = new ++ top /\
    Permutation (ids_stmts ts seen) (scope_ids new ++ flat_map ids_stmt ts).
Proof.
  induction ts as [|t r IH]; intros top seen Hs.
  - exists []. split; reflexivity.
  - assert (Hdef : decls_after top (t :: r) = decls_after top r ->
                   ids_stmts (t :: r) seen = ids_stmt t ++ ids_stmts r seen ->
                   exists new, decls_after top (t :: r) = new ++ top /\
                     Permutation (ids_stmts (t :: r) seen) (scope_ids new ++ flat_map ids_stmt (t :: r))).
    { intros E1 E2. destruct (IH top seen Hs) as (new & En & Hp). exists new. split; [congruence|].
      rewrite E2. cbn [flat_map]. rewrite Hp.
      rewrite !app_assoc. apply Permutation_app_tail. apply Permutation_app_comm. }
    destruct t; try (apply Hdef; reflexivity).
    destruct l as [i|]; [|apply Hdef; reflexivity].
    cbn [ids_stmts decls_after]. rewrite (Hs n).
    destruct (assoc n top) as [i'|] eqn:Ea.
    + destruct (IH top seen Hs) as (new & En & Hp). exists new. split; [exact En|exact Hp].
    + assert (Hs' : seen_ok (n :: seen) ((n, i) :: top)).
      { intros m. unfold mem_name in *. cbn [existsb assoc]. rewrite (bytes_eqb_sym m n).
        destruct (bytes_eqb n m); cbn; [reflexivity|apply Hs]. }
      destruct (IH _ _ Hs') as (new & En & Hp). exists (new ++ [(n, i)]). split.
      * rewrite En. rewrite <- app_assoc. reflexivity.
      * rewrite Hp. unfold scope_ids. rewrite map_app. cbn [map snd flat_map ids_stmt app].
        rewrite <- app_assoc. cbn [app]. apply Permutation_middle.
Qed.

Lemma chk_stmt_fun top G F sid n ps body fid ls ll :
  chk_stmt top G F (SFun sid n ps body fid ls ll) =
  if (match fid, F with Some f, fs :: _ => zopt_eqb (assoc n fs) (Some f) | _, _ => false end
      && nodup_names ps && (Z.of_nat (length ps) <=? ll)%Z
      && chk_block (param_scope ps ls 0 [] :: top :: G) ([] :: F) body) then Some top else None.
Proof. reflexivity. Qed.
Lemma chk_stmt_if top G F sid c t f :
  chk_stmt top G F (SIf sid c t f) =
  if chk_expr (top :: G) F c && chk_block (top :: G) F t
     && match f with Some fb => chk_block (top :: G) F fb | None => true end
  then Some top else None.
Proof. reflexivity. Qed.
Lemma chk_stmt_loop top G F sid c b :
  chk_stmt top G F (SLoop sid c b) =
  if chk_expr (top :: G) F c && chk_block (top :: G) F b then Some top else None.
Proof. reflexivity. Qed.
Lemma chk_stmt_block top G F sid b :
  chk_stmt top G F (SBlock sid b) = if chk_block (top :: G) F b then Some top else None.
Proof. reflexivity. Qed.

Lemma chk_stmt_top top G F t top' :
  chk_stmt top G F t = Some top' ->
  match t with SMake _ _ _ _ => True | _ => top' = top end.
Proof.
  destruct t; auto.
  - rewrite chk_stmt_fun. destruct (_ && _); congruence.
  - cbn [chk_stmt]. destruct (_ && _); congruence.
  - cbn [chk_stmt]. destruct (_ && _); congruence.
  - rewrite chk_stmt_if. destruct (_ && _); congruence.
  - rewrite chk_stmt_loop. destruct (_ && _); congruence.
  - rewrite chk_stmt_block. destruct (chk_block _ _ _); congruence.
  - cbn [chk_stmt]. destruct e; [destruct (chk_expr _ _ _)|]; congruence.
  - cbn [chk_stmt]. congruence.
  - cbn [chk_stmt]. congruence.
  - cbn [chk_stmt]. destruct (chk_expr _ _ _); congruence.
Qed.

Section Kit.
Variable eps : f64.
Variable T : list fdef.

(* static side conditions: ids of distinct declarations are distinct, functions are in T *)
Definition BOK (k : ctx) (b : list stmt) : Prop :=
  NoDup (ids_block b ++ sig_ids k) /\ incl (fn_table b) T.
Definition TOK (lv : level) (k : ctx) (top : scope) (ts : list stmt) : Prop :=
  decls_after top ts = lv_sig lv /\
  NoDup (flat_map ids_stmt ts ++ sig_ids (lv :: k)) /\
  incl (fn_table ts) T.

(* ghost state threaded through a run (S4: the frame of every live scope); it changes only by
   pushes at block entry and calls and is restored when the scope is left *)
Variable Gh : Type.
Variable gpush : Gh -> nat -> Gh.
Variable R : Gh -> ctx -> st -> chain -> heap -> Prop.

Definition cur_of (c : chain) : nat := match c with (fid, _) :: _ => fid | [] => O end.

Hypothesis K_read : forall g k s c h n i v,
  R g k s c h -> vlookup (cv k) n = Some i -> read_var h n c = sret v ->
  lookup_env (Some i) n (env s) = Some v.

Hypothesis K_write : forall g k s c h n i v h',
  R g k s c h -> vlookup (cv k) n = Some i -> write_var h n c v = sret h' ->
  exists e', assign_env (Some i) n v (env s) = Some e' /\ R g k (with_env e' s) c h'.

Hypothesis K_decl_old : forall g lv k s c h n i v h',
  R g (lv :: k) s c h -> assoc n (lv_g lv) = Some i ->
  declare_var h (cur_of c) n v = sret h' ->
  R g (lv :: k) (with_env (define_env (Some i) n v (env s)) s) c h'.

Hypothesis K_decl_new : forall g lv k s c h n i v h',
  R g (lv :: k) s c h -> assoc n (lv_g lv) = None ->
  (exists r, decls_after ((n, i) :: lv_g lv) r = lv_sig lv) ->
  NoDup (sig_ids (lv :: k)) ->
  declare_var h (cur_of c) n v = sret h' ->
  R g (set_g lv ((n, i) :: lv_g lv) :: k) (with_env (define_env (Some i) n v (env s)) s) c h'.

Hypothesis K_enter : forall g k s c h b fs,
  R g k s c h -> chk_block (cv k) (cf k) b = true -> predecl b = Some fs -> BOK k b ->
  R (gpush g (length h)) (enter_level b fs :: k)
    {| env := [] :: env s; fns := hoisted b [] :: fns s |}
    ((length h, None) :: c)
    (with_fns (h ++ [{| fr_slots := []; fr_fns := []; fr_parent := c |}]) (length h)
              (block_closures b (length h) [] [])).

Hypothesis K_exit : forall g k s c h lv s' fid h',
  R g k s c h -> R (gpush g fid) (lv :: k) s' ((fid, None) :: c) h' ->
  tl (env_shape (env s')) = env_shape (env s) -> tl (fns s') = fns s -> hext h h' ->
  R g k (pop_scope s') c h'.

Hypothesis K_call : forall g k s c h f fid cl,
  R g k s c h -> vlookup (cf k) f = Some fid -> resolve_fn h f c = Some cl ->
  exists fd,
    lookup_fn (Some fid) f (fns s) = Some fd /\
    f_params fd = c_params cl /\ f_body fd = c_body cl /\ f_id fd = Some fid /\
    (f_llen fd <? Z.of_nat (length (f_params fd))) = false /\
    forall s1 h1 vs,
      R g k s1 c h1 -> FC s h s1 h1 -> length vs = length (c_params cl) ->
      let defchain : chain :=
        match nth_error h1 (c_frame cl) with
        | Some df => (c_frame cl, Some (c_vis cl)) :: fr_parent df
        | None => []
        end in
      let h2 := h1 ++ [{| fr_slots := sbindp (c_params cl) vs []; fr_fns := []; fr_parent := defchain |}] in
      let s2 := push_scope (bind_params (Some fid) (f_lstart fd) (f_params fd) vs 0 []) s1 in
      exists kG,
        chk_block (cv kG) (cf kG) (c_body cl) = true /\ BOK kG (c_body cl) /\
        R (gpush g (length h1)) kG s2 ((length h1, None) :: defchain) h2 /\
        forall s3 h3,
          R (gpush g (length h1)) kG s3 ((length h1, None) :: defchain) h3 -> FC s2 h2 s3 h3 -> R g k (pop_scope s3) c h3.

(* ---------- result relations ---------- *)
Definition Qe (g : Gh) (k : ctx) (c : chain) (s : st) (h : heap) {A} (a : A * heap) (b : A * st) : Prop :=
  fst a = fst b /\ R g k (snd b) c (snd a) /\ FC s h (snd b) (snd a).
Definition Qt (g : Gh) (k : ctx) (c : chain) (s : st) (h : heap) (a : flow * heap) (b : flow * st) : Prop :=
  fst a = fst b /\ R g k (snd b) c (snd a) /\ FCt s h (snd b) (snd a).

Definition SimE (n : nat) : Prop := forall g k e s c h,
  R g k s c h -> chk_expr (cv k) (cf k) e = true ->
  rsim (Qe g k c s h) (seval eps n e c h) (eval None eps n e s).

Definition SimT (n : nat) : Prop := forall g lv k t r top' s c h,
  R g (lv :: k) s c h ->
  chk_stmt (lv_g lv) (cv k) (cf (lv :: k)) t = Some top' ->
  TOK lv k (lv_g lv) (t :: r) ->
  rsim (Qt g (set_g lv top' :: k) c s h) (sexec eps n t c h) (exec None eps n t s).

Definition SimB (n : nat) : Prop := forall g k b s c h,
  R g k s c h -> chk_block (cv k) (cf k) b = true -> BOK k b ->
  rsim (Qe g k c s h) (sblock eps n b c h) (exec_block None eps n b s).

Definition SimL (n : nat) : Prop := forall g k cnd body s c h,
  R g k s c h -> chk_expr (cv k) (cf k) cnd = true ->
  chk_block (cv k) (cf k) body = true -> BOK k body ->
  rsim (Qe g k c s h) (sloop eps n cnd body c h) (exec_loop None eps n cnd body s).

(* ---------- expressions ---------- *)
Lemma sinterp_cases h c segs :
  (exists b, sinterp h c segs = sret b) \/ sinterp h c segs = sstuck.
Proof.
  induction segs as [|sg r IH]; [left; eexists; reflexivity|].
  destruct sg as [b|vn vl].
  - rewrite sinterp_lit. destruct IH as [(b' & ->)| ->]; [left; eexists; reflexivity|right; reflexivity].
  - rewrite sinterp_var. destruct (read_var_cases h vn c) as [(v & ->)| ->]; [|right; reflexivity].
    destruct IH as [(b' & ->)| ->]; [left; eexists; reflexivity|right; reflexivity].
Qed.

Lemma sim_interp g k s c h segs :
  R g k s c h -> forallb (chk_seg (cv k)) segs = true ->
  forall b, sinterp h c segs = sret b -> interp_segs (env s) segs = Ok b.
Proof.
  intros HR. induction segs as [|sg r IH]; intros Hc b0 Hb.
  - inversion Hb. reflexivity.
  - cbn [forallb] in Hc. apply andb_true_iff in Hc. destruct Hc as [Hs Hr]. specialize (IH Hr).
    destruct sg as [b|vn vl].
    + rewrite sinterp_lit in Hb. cbn [interp_segs].
      destruct (sinterp_cases h c r) as [(b' & E)| E]; rewrite E in Hb; [|discriminate].
      rewrite (IH _ E). inversion Hb. reflexivity.
    + rewrite sinterp_var in Hb. cbn [interp_segs chk_seg] in *.
      apply chk_var_inv in Hs. destruct Hs as (i & Hl & ->).
      destruct (read_var_cases h vn c) as [(v & Ev)|Ev]; rewrite Ev in Hb; [|discriminate].
      rewrite (K_read _ _ _ _ _ _ _ _ HR Hl Ev).
      destruct (sinterp_cases h c r) as [(b' & E)| E]; rewrite E in Hb; [|discriminate].
      rewrite (IH _ E). inversion Hb. reflexivity.
Qed.

Ltac qe_done :=
  cbn [fst snd] in *; subst;
  first [ apply rsim_err | apply rsim_stuck | exact I
        | apply rsim_ret; refine (conj _ (conj _ _)); cbn [fst snd];
          [ reflexivity | eassumption | eauto using FC_refl, FC_trans ] ].

Lemma sim_evals n' :
  SimE n' -> forall g k c es s h,
  R g k s c h -> forallb (chk_expr (cv k) (cf k)) es = true ->
  rsim (Qe g k c s h) (sevals_with (fun e h => seval eps n' e c h) es h)
       (evals_with (eval None eps n') es s).
Proof.
  intros IHe g k c es. induction es as [|e r IH]; intros s h HR Hc.
  - rewrite sevals_with_nil. cbn [evals_with]. qe_done.
  - cbn [forallb] in Hc. apply andb_true_iff in Hc. destruct Hc as [He Hr].
    rewrite sevals_with_cons. cbn [evals_with].
    eapply rsim_bind; [eapply IHe; eassumption|].
    intros [v1 h1] [v1' s1] (E1 & HR1 & HF1). cbn [fst snd] in *. subst v1'.
    eapply rsim_bind; [eapply IH; eassumption|].
    intros [vs h2] [vs' s2] (E2 & HR2 & HF2). qe_done.
Qed.

Lemma sim_indices n' :
  SimE n' -> forall g k c es s h,
  R g k s c h -> forallb (chk_expr (cv k) (cf k)) es = true ->
  rsim (Qe g k c s h) (sindices_with (fun e h => seval eps n' e c h) es h)
       (indices_with (eval None eps n') es s).
Proof.
  intros IHe g k c es. induction es as [|e r IH]; intros s h HR Hc.
  - rewrite sindices_with_nil. cbn [indices_with]. qe_done.
  - cbn [forallb] in Hc. apply andb_true_iff in Hc. destruct Hc as [He Hr].
    rewrite sindices_with_cons. cbn [indices_with].
    eapply rsim_bind; [eapply IHe; eassumption|].
    intros [v1 h1] [v1' s1] (E1 & HR1 & HF1). cbn [fst snd] in *. subst v1'.
    eapply rsim_bind; [apply rsim_lift|]. intros i i' <-.
    eapply rsim_bind; [eapply IH; eassumption|].
    intros [vs h2] [vs' s2] (E2 & HR2 & HF2). qe_done.
Qed.

(* read root, mutate, write back *)
Lemma sim_rmw g k s c h s0 h0 vn i (path : list Z) (op : mutop) :
  R g k s c h -> FC s0 h0 s h -> vlookup (cv k) vn = Some i ->
  rsim (Qe g k c s0 h0)
    (sdo root <- read_var h vn c;
     sdo (root', r) <- of_res (mutate_path root path op);
     sdo h' <- write_var h vn c root'; sret (r, h'))
    (match lookup_env (Some i) vn (env s) with
     | None => PanicM PMutVarMissing
     | Some root =>
         bindM (lift (mutate_path root path op))
           (fun '(root', r) =>
            match assign_env (Some i) vn root' (env s) with
            | Some e' => OkM (r, with_env e' s)
            | None => PanicM PMutVarMissing
            end)
     end).
Proof.
  intros HR HF Hl.
  destruct (read_var_cases h vn c) as [(root & Ev)|Ev]; rewrite Ev; [|exact I].
  rewrite (K_read _ _ _ _ _ _ _ _ HR Hl Ev). rewrite sbind_ret.
  eapply rsim_bind; [apply rsim_lift|]. intros [root' r] ? <-.
  destruct (write_var_cases h vn c root') as [(h' & Ew)|Ew]; rewrite Ew; [|exact I].
  rewrite sbind_ret.
  destruct (K_write _ _ _ _ _ _ _ _ _ HR Hl Ew) as (e' & Ea & HR').
  rewrite Ea. apply rsim_ret. refine (conj _ (conj _ _)); cbn [fst snd]; [reflexivity|exact HR'|].
  eapply FC_trans; [exact HF|]. refine (conj _ (conj _ _)); cbn [with_env env fns].
  - eapply assign_env_shape; eauto.
  - reflexivity.
  - eapply write_var_hext; eauto.
Qed.

Lemma sim_mutate n' :
  SimE n' -> forall g k c o op s h s0 h0,
  R g k s c h -> FC s0 h0 s h -> chk_expr (cv k) (cf k) o = true ->
  rsim (Qe g k c s0 h0) (smutate_with (fun e h => seval eps n' e c h) c o op h)
       (mutate_with (eval None eps n') o op s).
Proof.
  intros IHe g k c o op s h s0 h0 HR HF Hc.
  destruct o; try apply rsim_err.
  - cbn [chk_expr] in Hc. apply chk_var_inv in Hc. destruct Hc as (i & Hl & ->).
    cbn [smutate_with mutate_with]. eapply sim_rmw; eauto.
  - unfold smutate_with, mutate_with.
    pose proof (flatten_rel (EIdx o1 o2) []) as Hfr.
    destruct (flatten_target (EIdx o1 o2) []) as [[[vn vl] ixs]|] eqn:Eft; rewrite Hfr; [|apply rsim_err].
    destruct (flatten_chk _ _ _ [] _ _ _ Hc eq_refl Eft) as [Hv Hix].
    apply chk_var_inv in Hv. destruct Hv as (i & Hl & ->).
    eapply rsim_bind; [eapply sim_indices; eassumption|].
    intros [path h1] [path' s1] (E1 & HR1 & HF1). cbn [fst snd] in *. subst path'.
    eapply sim_rmw; eauto using FC_trans.
Qed.

Ltac split_andb :=
  repeat match goal with
  | H : _ && _ = true |- _ => apply andb_true_iff in H; destruct H
  end.

Ltac ev_step IHe :=
  eapply rsim_bind;
  [ eapply IHe; eassumption
  | let v := fresh "v" in let h1 := fresh "h" in let v' := fresh "v'" in let s1 := fresh "s" in
    let E := fresh "E" in let HR := fresh "HR" in let HF := fresh "HF" in
    intros [v h1] [v' s1] (E & HR & HF); cbn [fst snd] in E, HR, HF; subst v'; cbv beta iota ].

Ltac crush IHe :=
  repeat first
   [ progress qe_done
   | match goal with
     | |- rsim _ (if ?c then _ else _) _ => destruct c
     | |- rsim _ (match ?x with _ => _ end) _ =>
         is_var x; destruct x; cbn [forallb] in *; split_andb
     | |- rsim _ (match ?x with _ => _ end) (match ?x with _ => _ end) => destruct x
     | |- rsim _ (sbind (seval _ _ _ _ _) _) _ => ev_step IHe
     | |- rsim _ (sbind (of_res _) _) (bindM (lift _) _) =>
         eapply rsim_bind; [apply rsim_lift|]; intros ? ? <-
     end ].

Lemma simE_step n' : SimE n' -> SimB n' -> SimE (S n').
Proof.
  intros IHe IHb g k e s c h HR Hc. rewrite seval_S, eval_S. cbv zeta. unfold eval_body.
  destruct e; cbn [chk_expr] in Hc.
  - qe_done.
  - qe_done.
  - (* EInterp *)
    destruct (sinterp_cases h c segs) as [(b & E)|E]; rewrite E; [|exact I].
    rewrite (sim_interp _ _ _ _ _ _ HR Hc _ E). rewrite sbind_ret. cbn. 
    eexists; split; [reflexivity|]. refine (conj _ (conj _ _)); cbn [fst snd]; auto using FC_refl.
  - qe_done.
  - qe_done.
  - (* EVar *)
    apply chk_var_inv in Hc. destruct Hc as (i & Hl & ->).
    destruct (read_var_cases h n c) as [(v & Ev)|Ev]; rewrite Ev; [|exact I].
    rewrite (K_read _ _ _ _ _ _ _ _ HR Hl Ev). rewrite sbind_ret. qe_done.
  - (* EBin *)
    split_andb. destruct op; crush IHe.
  - (* EUn *)
    crush IHe.
  - (* EArr *)
    eapply rsim_bind; [eapply sim_evals; eassumption|].
    intros [vs h1] [vs' s1] (E1 & HR1 & HF1). qe_done.
  - (* EIdx *)
    split_andb. crush IHe.
  - (* EMember *)
    qe_done.
  - (* ECall *)
    split_andb. destruct e.
    6: { (* callee is a variable *)
      destruct (global_builtin n) as [gb|] eqn:Eg.
      - unfold builtin_call.
        eapply rsim_bind; [eapply sim_evals; eassumption|].
        intros [vs h1] [vs' s1] (E1 & HR1 & HF1). cbn [fst snd] in *. subst vs'. cbv beta iota.
        destruct vs as [|v [|v2 r]]; try exact I.
        destruct gb; try exact I; try qe_done.
        (* shout *)
        cbn. eexists; split; [reflexivity|]. refine (conj _ (conj _ _)); cbn [fst snd]; auto.
      - unfold scall_user, user_call.
        destruct (vlookup (cf k) n) as [fid|] eqn:El; [|discriminate].
        destruct target as [tg|]; cbn [zopt_eqb] in *; [|discriminate].
        match goal with H : (tg =? fid) = true |- _ => apply Z.eqb_eq in H; subst tg end.
        destruct (resolve_fn h n c) as [cl|] eqn:Er; [|exact I].
        destruct (K_call _ _ _ _ _ _ _ _ HR El Er) as (fd & Elf & Ep & Eb & Eid & Ell & Hcall).
        rewrite Elf.
        eapply rsim_bind; [eapply sim_evals; eassumption|].
        intros [vs h1] [vs' s1] (E1 & HR1 & HF1). cbn [fst snd] in *. subst vs'. cbv beta iota.
        rewrite Eid, Ell, Eb. rewrite (f_equal (@length _) Ep).
        destruct (Nat.eqb (length vs) (length (c_params cl))) eqn:En; cbn [negb]; [|exact I].
        apply Nat.eqb_eq in En.
        destruct (Hcall s1 h1 vs HR1 HF1 En) as (kG & Hchk & Hbok & HRG & Hret).
        unfold new_frame. cbv beta iota zeta.
        eapply rsim_bind; [eapply IHb; eassumption|].
        intros [fl h3] [fl' s3] (E3 & HR3 & HF3). cbn [fst snd] in *. subst fl'. cbv beta iota.
        assert (HFr : FC s h (pop_scope s3) h3) by (eapply FC_call; eauto).
        specialize (Hret _ _ HR3 HF3).
        destruct fl; try exact I;
          (apply rsim_ret; refine (conj _ (conj _ _)); cbn [fst snd]; [reflexivity|assumption|assumption]).
    }
    10: { (* method call *)
      unfold member_call, string_call, array_call.
      destruct (mem_name f array_mut_methods) eqn:Emut.
      - destruct (bytes_eqb f n_push).
        + destruct args as [|a0 r]; [exact I|]. cbn [forallb] in *. split_andb.
          ev_step IHe. eapply sim_mutate; eauto.
        + destruct (bytes_eqb f n_pop); eapply sim_mutate; eauto using FC_refl.
      - destruct (mem_name f proc_mut_names); [exact I|].
        ev_step IHe. destruct v.
        + crush IHe.
        + (* string receiver *)
          destruct (negb (mem_name f string_methods)); [qe_done|].
          destruct (bytes_eqb f n_len); [qe_done|].
          destruct (bytes_eqb f n_slice); [crush IHe|].
          destruct (bytes_eqb f n_to_uppercase); [qe_done|].
          destruct (bytes_eqb f n_to_lowercase); [qe_done|].
          destruct (bytes_eqb f n_trim); [qe_done|].
          destruct (bytes_eqb f n_to_number); [qe_done|].
          destruct (bytes_eqb f n_find).
          { destruct args as [|a0 r]; [exact I|]. cbn [forallb] in *. split_andb.
            ev_step IHe. destruct v; try qe_done.
            rewrite find_correct.
            match goal with |- context [first_occ ?a ?b] => destruct (first_occ a b) end; cbn [res_of]; qe_done. }
          destruct (bytes_eqb f n_replace).
          { destruct args as [|a0 [|a1 r]]; try exact I. cbn [forallb] in *. split_andb.
            ev_step IHe. ev_step IHe. destruct v; try qe_done; destruct v0; try qe_done.
            rewrite replace_correct. qe_done. }
          crush IHe.
        + crush IHe.
        + crush IHe.
        + (* array receiver *)
          destruct (mem_name f array_methods) eqn:Earr; cbn [negb]; [|qe_done].
          destruct (bytes_eqb f n_len) eqn:Elen; [qe_done|].
          rewrite (array_join_only _ Emut Earr Elen). crush IHe.
    }
    all: try qe_done.
Qed.

(* ---------- static side conditions along a block ---------- *)
Lemma ST_nodup lv k top ts : TOK lv k top ts -> NoDup (sig_ids (lv :: k)).
Proof. intros (_ & H & _). eapply NoDup_app_r; eauto. Qed.

Lemma ST_make lv k top sid n i e r :
  TOK lv k top (SMake sid n (Some i) e :: r) -> assoc n top = None ->
  exists r', decls_after ((n, i) :: top) r' = lv_sig lv.
Proof. intros (H & _) Ha. cbn [decls_after] in H. rewrite Ha in H. eauto. Qed.

Lemma ST_step lv k top t r G F top' :
  TOK lv k top (t :: r) -> chk_stmt top G F t = Some top' -> TOK lv k top' r.
Proof.
  intros (Hd & Hn & Hi) Hc. refine (conj _ (conj _ _)).
  - pose proof (chk_stmt_top _ _ _ _ _ Hc) as Ht.
    destruct t; try (subst top'; exact Hd).
    cbn [chk_stmt] in Hc. destruct (chk_expr (top :: G) F e); [|discriminate].
    cbn [decls_after] in Hd. destruct (assoc n top) as [i'|] eqn:Ea.
    + destruct (zopt_eqb l (Some i')) eqn:El; [|discriminate]. inversion Hc; subst.
      destruct l as [x|]; [|discriminate]. exact Hd.
    + destruct l as [x|]; [|discriminate]. inversion Hc; subst. exact Hd.
  - cbn [flat_map] in Hn. rewrite <- app_assoc in Hn. eapply NoDup_app_r; eauto.
  - unfold fn_table in *. cbn [flat_map] in Hi. eapply incl_app_inv in Hi. tauto.
Qed.

Lemma sig_ids_same lv lv' k : lv_sig lv' = lv_sig lv -> sig_ids (lv' :: k) = sig_ids (lv :: k).
Proof. intros H. unfold sig_ids. cbn [flat_map]. rewrite H. reflexivity. Qed.

Lemma ST_block lv lv' k top sid b r :
  TOK lv k top (SBlock sid b :: r) -> lv_sig lv' = lv_sig lv -> BOK (lv' :: k) b.
Proof.
  intros (_ & Hn & Hi) Hs. split.
  - rewrite (sig_ids_same _ _ _ Hs). cbn [flat_map] in Hn. change (ids_stmt (SBlock sid b)) with (ids_block b) in Hn.
    rewrite <- app_assoc in Hn. eapply NoDup_app_mid; eauto.
  - unfold fn_table in *. cbn [flat_map fn_table_stmt] in Hi. eapply incl_app_inv in Hi. tauto.
Qed.

Lemma ST_loop lv lv' k top sid cnd b r :
  TOK lv k top (SLoop sid cnd b :: r) -> lv_sig lv' = lv_sig lv -> BOK (lv' :: k) b.
Proof.
  intros (_ & Hn & Hi) Hs. split.
  - rewrite (sig_ids_same _ _ _ Hs). cbn [flat_map] in Hn. change (ids_stmt (SLoop sid cnd b)) with (ids_block b) in Hn.
    rewrite <- app_assoc in Hn. eapply NoDup_app_mid; eauto.
  - unfold fn_table in *. cbn [flat_map fn_table_stmt] in Hi. eapply incl_app_inv in Hi. tauto.
Qed.

Lemma ST_if lv lv' k top sid cnd t f r :
  TOK lv k top (SIf sid cnd t f :: r) -> lv_sig lv' = lv_sig lv ->
  BOK (lv' :: k) t /\ match f with Some fb => BOK (lv' :: k) fb | None => True end.
Proof.
  intros (_ & Hn & Hi) Hs. unfold BOK. rewrite !(sig_ids_same _ _ _ Hs).
  cbn [flat_map] in Hn.
  change (ids_stmt (SIf sid cnd t f)) with (ids_block t ++ match f with Some fb => ids_block fb | None => [] end) in Hn.
  unfold fn_table in *. cbn [flat_map fn_table_stmt] in Hi.
  apply incl_app_inv in Hi. destruct Hi as [Hi _]. apply incl_app_inv in Hi. destruct Hi as [Hi1 Hi2].
  rewrite <- !app_assoc in Hn. split; [split|].
  - eapply NoDup_app_mid with (b := _ ++ _). rewrite <- app_assoc. exact Hn.
  - exact Hi1.
  - destruct f as [fb|]; [|exact I]. split; [|exact Hi2].
    apply NoDup_app_r in Hn. eapply NoDup_app_mid; eauto.
Qed.

Lemma ST_enter k b fs : BOK k b -> TOK (enter_level b fs) k [] b.
Proof.
  intros (Hn & Hi). refine (conj _ (conj _ _)); [reflexivity| |exact Hi].
  destruct (ids_stmts_perm b [] []) as (new & En & Hp); [intros n; reflexivity|].
  rewrite app_nil_r in En. unfold sig_ids. cbn [flat_map enter_level lv_sig]. fold (sig_ids k).
  rewrite En. eapply Permutation_NoDup; [|exact Hn]. unfold ids_block. rewrite Hp.
  rewrite !app_assoc. apply Permutation_app_tail. apply Permutation_app_comm.
Qed.

(* ---------- statements ---------- *)
Lemma Qe_Qt g lv k c s h s1 h1 (a : flow * heap) (b : flow * st) :
  FC s h s1 h1 -> Qe g (lv :: k) c s1 h1 a b -> Qt g (set_g lv (lv_g lv) :: k) c s h a b.
Proof.
  intros HF (E & HR & HF'). rewrite set_g_same. refine (conj E (conj HR _)).
  apply FC_FCt. eapply FC_trans; eauto.
Qed.

Lemma sim_rmw_assign g k s c h s0 h0 vn i (path : list Z) (v : value) :
  R g k s c h -> FC s0 h0 s h -> vlookup (cv k) vn = Some i ->
  rsim (Qe g k c s0 h0)
    (sdo root <- read_var h vn c;
     sdo root' <- of_res (assign_path root path v);
     sdo h3 <- write_var h vn c root'; sret (FNormal, h3))
    (match lookup_env (Some i) vn (env s) with
     | None => PanicM PMutVarMissing
     | Some root =>
         bindM (lift (assign_path root path v))
           (fun root' =>
            match assign_env (Some i) vn root' (env s) with
            | Some e' => OkM (FNormal, with_env e' s)
            | None => PanicM PMutVarMissing
            end)
     end).
Proof.
  intros HR HF Hl.
  destruct (read_var_cases h vn c) as [(root & Ev)|Ev]; rewrite Ev; [|exact I].
  rewrite (K_read _ _ _ _ _ _ _ _ HR Hl Ev). rewrite sbind_ret.
  eapply rsim_bind; [apply rsim_lift|]. intros root' ? <-.
  destruct (write_var_cases h vn c root') as [(h' & Ew)|Ew]; rewrite Ew; [|exact I].
  rewrite sbind_ret.
  destruct (K_write _ _ _ _ _ _ _ _ _ HR Hl Ew) as (e' & Ea & HR').
  rewrite Ea. apply rsim_ret. refine (conj _ (conj _ _)); cbn [fst snd]; [reflexivity|exact HR'|].
  eapply FC_trans; [exact HF|]. refine (conj _ (conj _ _)); cbn [with_env env fns].
  - eapply assign_env_shape; eauto.
  - reflexivity.
  - eapply write_var_hext; eauto.
Qed.

Lemma simT_step n' : SimE n' -> SimB n' -> SimL n' -> SimT (S n').
Proof.
  intros IHe IHb IHl g lv k t r top' s c h HR Hc Htok.
  rewrite sexec_S, exec_S. cbv zeta. unfold exec_body.
  pose proof (chk_stmt_top _ _ _ _ _ Hc) as Htop.
  assert (Hcv : cv (lv :: k) = lv_g lv :: cv k) by reflexivity.
  assert (Hcf : cf (lv :: k) = lv_f lv :: cf k) by reflexivity.
  destruct t.
  - (* SFun *) subst top'. apply rsim_ret. eapply Qe_Qt; [apply FC_refl|].
    refine (conj _ (conj _ _)); cbn [fst snd]; auto using FC_refl.
  - (* SMake *)
    cbn [chk_stmt] in Hc. rewrite <- Hcv in Hc.
    destruct (chk_expr (cv (lv :: k)) (cf (lv :: k)) e) eqn:He; [|discriminate].
    ev_step IHe.
    destruct (declare_var_cases h0 (cur_of c) n v) as [(h2 & Ed)|Ed]; fold (cur_of c); rewrite Ed; [|exact I].
    rewrite sbind_ret. apply rsim_ret.
    assert (HFd : FCt s h (with_env (define_env l n v (env s0)) s0) h2).
    { eapply FC_FCt_trans; [exact HF|]. refine (conj _ (conj _ _)); cbn [with_env env fns].
      - apply define_env_tl_shape.
      - reflexivity.
      - eapply declare_var_hext; eauto. }
    destruct (assoc n (lv_g lv)) as [i|] eqn:Ea.
    + destruct (zopt_eqb l (Some i)) eqn:El; [|discriminate]. inversion Hc; subst top'.
      destruct l as [x|]; [|discriminate]. cbn in El. apply Z.eqb_eq in El. subst x.
      rewrite set_g_same. refine (conj _ (conj _ _)); cbn [fst snd]; [reflexivity| |exact HFd].
      eapply K_decl_old; eauto.
    + destruct l as [i|]; [|discriminate]. inversion Hc; subst top'.
      refine (conj _ (conj _ _)); cbn [fst snd]; [reflexivity| |exact HFd].
      eapply K_decl_new; eauto.
      * eapply ST_make; eauto.
      * eapply ST_nodup; eauto.
  - (* SSet *)
    subst top'. cbn [chk_stmt] in Hc. rewrite <- Hcv in Hc.
    destruct (chk_var (cv (lv :: k)) n l && chk_expr (cv (lv :: k)) (cf (lv :: k)) e) eqn:E0; [|discriminate].
    split_andb. match goal with H : chk_var _ _ _ = true |- _ => apply chk_var_inv in H; destruct H as (i & Hl & ->) end.
    ev_step IHe.
    destruct (write_var_cases h0 n c v) as [(h2 & Ew)|Ew]; rewrite Ew; [|exact I].
    rewrite sbind_ret.
    destruct (K_write _ _ _ _ _ _ _ _ _ HR0 Hl Ew) as (e' & Ea & HR').
    rewrite Ea. apply rsim_ret. eapply Qe_Qt; [exact HF|].
    refine (conj _ (conj _ _)); cbn [fst snd]; [reflexivity|exact HR'|].
    refine (conj _ (conj _ _)); cbn [with_env env fns].
    + eapply assign_env_shape; eauto.
    + reflexivity.
    + eapply write_var_hext; eauto.
  - (* SSetIdx *)
    subst top'. cbn [chk_stmt] in Hc. rewrite <- Hcv in Hc.
    destruct (chk_expr (cv (lv :: k)) (cf (lv :: k)) target && chk_expr (cv (lv :: k)) (cf (lv :: k)) e) eqn:E0; [|discriminate].
    split_andb. ev_step IHe.
    pose proof (flatten_rel target []) as Hfr.
    destruct (flatten_target target []) as [[[vn vl] ixs]|] eqn:Eft; rewrite Hfr; [|apply rsim_err].
    match goal with H : chk_expr _ _ target = true |- _ =>
      destruct (flatten_chk _ _ _ [] _ _ _ H eq_refl Eft) as [Hv Hix] end.
    apply chk_var_inv in Hv. destruct Hv as (i & Hl & ->).
    eapply rsim_bind; [eapply sim_indices; eassumption|].
    intros [path h1] [path' s1] (E1 & HR1 & HF1). cbn [fst snd] in *. subst path'. cbv beta iota.
    eapply rsim_mono; [eapply sim_rmw_assign with (s0 := s1) (h0 := h1); eauto using FC_refl|].
    intros a b HQ. eapply Qe_Qt; [|exact HQ]. eauto using FC_trans.
  - (* SIf *)
    subst top'. rewrite chk_stmt_if in Hc. rewrite <- Hcv in Hc.
    match type of Hc with (if ?c then _ else _) = _ => destruct c eqn:E0; [|discriminate] end.
    split_andb.
    destruct (ST_if _ (set_g lv (lv_g lv)) _ _ _ _ _ _ _ Htok eq_refl) as [Hbt Hbf].
    rewrite set_g_same in Hbt, Hbf.
    ev_step IHe.
    eapply rsim_bind; [apply rsim_lift|]. intros b ? <-.
    destruct b.
    + eapply rsim_mono; [eapply IHb; eassumption|]. intros a b HQ. eapply Qe_Qt; eauto.
    + destruct f as [fb|].
      * eapply rsim_mono; [eapply IHb; eassumption|]. intros a b HQ. eapply Qe_Qt; eauto.
      * apply rsim_ret. eapply Qe_Qt; [exact HF|].
        refine (conj _ (conj _ _)); cbn [fst snd]; auto using FC_refl.
  - (* SLoop *)
    subst top'. rewrite chk_stmt_loop in Hc. rewrite <- Hcv in Hc.
    match type of Hc with (if ?c then _ else _) = _ => destruct c eqn:E0; [|discriminate] end.
    split_andb.
    pose proof (ST_loop _ (set_g lv (lv_g lv)) _ _ _ _ _ _ Htok eq_refl) as Hb.
    rewrite set_g_same in Hb.
    eapply rsim_mono; [eapply IHl; eassumption|]. intros a b HQ. eapply Qe_Qt; eauto using FC_refl.
  - (* SBlock *)
    subst top'. rewrite chk_stmt_block in Hc. rewrite <- Hcv in Hc.
    match type of Hc with (if ?c then _ else _) = _ => destruct c eqn:E0; [|discriminate] end.
    pose proof (ST_block _ (set_g lv (lv_g lv)) _ _ _ _ _ Htok eq_refl) as Hb.
    rewrite set_g_same in Hb.
    eapply rsim_mono; [eapply IHb; eassumption|]. intros a b HQ. eapply Qe_Qt; eauto using FC_refl.
  - (* SRet *)
    subst top'. destruct e as [e|].
    + cbn [chk_stmt] in Hc. rewrite <- Hcv in Hc.
      destruct (chk_expr (cv (lv :: k)) (cf (lv :: k)) e) eqn:He; [|discriminate].
      ev_step IHe. apply rsim_ret. eapply Qe_Qt; [exact HF|].
      refine (conj _ (conj _ _)); cbn [fst snd]; auto using FC_refl.
    + apply rsim_ret. eapply Qe_Qt; [apply FC_refl|].
      refine (conj _ (conj _ _)); cbn [fst snd]; auto using FC_refl.
  - (* SBreak *) subst top'. apply rsim_ret. eapply Qe_Qt; [apply FC_refl|].
    refine (conj _ (conj _ _)); cbn [fst snd]; auto using FC_refl.
  - (* SNext *) subst top'. apply rsim_ret. eapply Qe_Qt; [apply FC_refl|].
    refine (conj _ (conj _ _)); cbn [fst snd]; auto using FC_refl.
  - (* SExpr *)
    subst top'. cbn [chk_stmt] in Hc. rewrite <- Hcv in Hc.
    destruct (chk_expr (cv (lv :: k)) (cf (lv :: k)) e) eqn:He; [|discriminate].
    ev_step IHe. apply rsim_ret. eapply Qe_Qt; [exact HF|].
    refine (conj _ (conj _ _)); cbn [fst snd]; auto using FC_refl.
Qed.

(* ---------- loops, blocks ---------- *)
Lemma simL_step n' : SimE n' -> SimB n' -> SimL n' -> SimL (S n').
Proof.
  intros IHe IHb IHl g k cnd body s c h HR Hc Hb Hbok.
  rewrite sloop_S, exec_loop_S. unfold loop_body.
  ev_step IHe.
  eapply rsim_bind; [apply rsim_lift|]. intros b ? <-.
  destruct (negb b); [qe_done|].
  eapply rsim_bind; [eapply IHb; eassumption|].
  intros [fl h2] [fl' s2] (E2 & HR2 & HF2). cbn [fst snd] in *. subst fl'. cbv beta iota.
  destruct fl; try qe_done.
  - eapply rsim_mono; [eapply IHl; eassumption|].
    intros a b' (E & HR' & HF'). refine (conj E (conj HR' _)). eauto using FC_trans.
  - eapply rsim_mono; [eapply IHl; eassumption|].
    intros a b' (E & HR' & HF'). refine (conj E (conj HR' _)). eauto using FC_trans.
Qed.

Lemma env_shape_tl e : env_shape (tl e) = tl (env_shape e).
Proof. destruct e; reflexivity. Qed.

Lemma TOK_set_g lv k top ts g : TOK lv k top ts -> TOK (set_g lv g) k top ts.
Proof. intros H. exact H. Qed.

Lemma bindM_lift_ok {A B} (a : A) (f : A -> M B) : bindM (lift (Ok a)) f = f a.
Proof. unfold lift. cbn. destruct (f a); reflexivity. Qed.

Lemma sim_stmts n' (IHt : SimT n') g0 k0 s0 c0 h0 (HR0 : R g0 k0 s0 c0 h0) :
  forall ts lv s h fid,
  R (gpush g0 fid) (lv :: k0) s ((fid, None) :: c0) h ->
  chk_stmts (cv k0) (cf (lv :: k0)) ts (lv_g lv) = true ->
  TOK lv k0 (lv_g lv) ts ->
  tl (env_shape (env s)) = env_shape (env s0) -> tl (fns s) = fns s0 -> hext h0 h ->
  rsim (Qe g0 k0 c0 s0 h0)
       (sstmts_with (fun t h => sexec eps n' t ((fid, None) :: c0) h) ts h)
       (stmts_with None (exec None eps n') ts s).
Proof.
  induction ts as [|t r IH]; intros lv s h fid HR Hc Htok Hsh Hfn Hh.
  - rewrite sstmts_with_nil. cbn [stmts_with]. apply rsim_ret.
    refine (conj _ (conj _ _)); cbn [fst snd]; [reflexivity| |].
    + eapply K_exit; eauto.
    + refine (conj _ (conj _ _)); cbn [pop_scope env fns]; auto. rewrite env_shape_tl. exact Hsh.
  - rewrite sstmts_with_cons. cbn [stmts_with in_plan_stmt].
    cbn [chk_stmts] in Hc. fold (chk_stmts (cv k0) (cf (lv :: k0))) in Hc.
    destruct (chk_stmt (lv_g lv) (cv k0) (cf (lv :: k0)) t) as [top'|] eqn:Et; [|discriminate].
    eapply rsim_bind; [eapply IHt; eassumption|].
    intros [fl h1] [fl' s1] (E1 & HR1 & (Hsh1 & Hfn1 & Hh1)). cbn [fst snd] in *. subst fl'. cbv beta iota.
    assert (Hexit : forall fl0 : flow, rsim (@Qe g0 k0 c0 s0 h0 flow) (sret (fl0, h1)) (OkM (fl0, pop_scope s1))).
    { intros fl0. apply rsim_ret. refine (conj _ (conj _ _)); cbn [fst snd]; [reflexivity| |].
      - eapply K_exit; eauto; try congruence. eapply hext_trans; eauto.
      - refine (conj _ (conj _ _)); cbn [pop_scope env fns].
        + rewrite env_shape_tl. congruence.
        + congruence.
        + eapply hext_trans; eauto. }
    destruct fl; try apply Hexit.
    eapply (IH (set_g lv top')); eauto; try congruence.
    + apply TOK_set_g. eapply ST_step; eauto.
    + eapply hext_trans; eauto.
Qed.

Lemma simB_step n' : SimT n' -> SimB (S n').
Proof.
  intros IHt g k b s c h HR Hc Hbok.
  rewrite sblock_S, exec_block_S. unfold block_body, new_frame. cbv beta iota zeta.
  rewrite hoist_push, bindM_lift_ok.
  pose proof Hc as Hc'. unfold chk_block in Hc'.
  destruct (predecl b) as [fs|] eqn:Ep; [|discriminate]. split_andb.
  eapply (sim_stmts n' IHt g k s c h HR b (enter_level b fs)).
  - eapply K_enter; eauto.
  - assumption.
  - apply ST_enter. exact Hbok.
  - reflexivity.
  - reflexivity.
  - apply hext_new_block.
Qed.

Theorem kit_sim : forall n, SimE n /\ SimT n /\ SimB n /\ SimL n.
Proof.
  induction n as [|n (IHe & IHt & IHb & IHl)].
  - refine (conj _ (conj _ (conj _ _))); red; intros.
    + rewrite seval_O. exact I.
    + rewrite sexec_O. exact I.
    + rewrite sblock_O. exact I.
    + rewrite sloop_O. exact I.
  - refine (conj _ (conj _ (conj _ _))).
    + apply simE_step; assumption.
    + apply simT_step; assumption.
    + apply simB_step; assumption.
    + apply simL_step; assumption.
Qed.

End Kit.

Definition kit_simB eps T Gh gpush R H1 H2 H3 H4 H5 H6 H7 n : SimB eps T Gh R n :=
  proj1 (proj2 (proj2 (kit_sim eps T Gh gpush R H1 H2 H3 H4 H5 H6 H7 n))).
