(* SimpleTypesProofs — the documented operator tables (theories/SimpleTypes.v) are inside what
   the static checker's operator tables accept (theories/StaticRules.v, the C09 model of
   src/resolver.rs check_expr / infer_expr_type): a finite statement, checked by computation.
   This is the operator-level part of "a simply typed program is accepted"; the full statement is
   not a theorem for this permissive type system (see Properties/C01.v). *)
From Coq Require Import ZArith List Bool.
Require Import NS.theories.Lang NS.theories.GenRules NS.theories.StaticRules NS.theories.SimpleTypes.
Import ListNotations.

(* documented type -> the checker's type *)
Definition conv (t : SimpleTypes.ty) : GenRules.ty :=
  match t with
  | SimpleTypes.TNum => TNumber
  | SimpleTypes.TStr => TString
  | SimpleTypes.TBool => GenRules.TBool
  | SimpleTypes.TNull => GenRules.TNull
  | SimpleTypes.TArr => TArray
  | SimpleTypes.TDyn => TDynamic
  end.

(* the checker's inferred type refines the documented one: equal, or the documented one is dyn *)
Definition refines (t' : GenRules.ty) (t : SimpleTypes.ty) : Prop := t' = conv t \/ t = SimpleTypes.TDyn.

Lemma binop_table_accepted : forall op l r t,
  binop_ty op l r = Some t ->
  bin_ok op (Some (conv l)) (Some (conv r)) = true /\
  exists t', infer_bin op (conv l) (conv r) = Some t' /\ refines t' t.
Proof.
  intros op l r t H.
  destruct op, l, r; cbn in H; try discriminate H; inversion H; subst;
    (split; [reflexivity| eexists; split; [reflexivity| unfold refines; cbn; auto]]).
Qed.

Lemma unop_table_accepted : forall u a t,
  unop_ty u a = Some t ->
  un_ok u (Some (conv a)) = true /\ exists t', infer_un u (conv a) = Some t' /\ refines t' t.
Proof.
  intros u a t H.
  destruct u, a; cbn in H; try discriminate H; inversion H; subst;
    (split; [reflexivity| eexists; split; [reflexivity| unfold refines; cbn; auto]]).
Qed.

(* a documented condition type (boolean, null, dyn) is a condition type of the checker *)
Lemma cond_table_accepted : forall t,
  bool_like t = true ->
  is_ty GenRules.TBool (Some (conv t)) || is_ty GenRules.TNull (Some (conv t)) || is_ty TDynamic (Some (conv t)) = true.
Proof. intros t H. destruct t; cbn in H; try discriminate H; reflexivity. Qed.

(* the permissive "results are dyn" rule is NOT a sufficient condition for acceptance: this
   program is simply typed here and is (rightly) rejected — f always returns a string *)
Definition not_sufficient_witness : list stmt :=
  [SFun None [102] [] [SRet None (Some (EStr [97]))] None 0 0;
   SExpr None (ECall (EVar n_shout None)
                     [EBin Minus (ECall (EVar [102] None) [] None) (ENum (F64.of_Z 1))] None)].

Lemma simply_typed_not_sufficient :
  simply_typed not_sufficient_witness = true /\ StaticRules.check not_sufficient_witness <> [].
Proof. split; [reflexivity| vm_compute; discriminate]. Qed.
