(* SpecUnfold — top-level names for the list-level helpers that Spec.seval/sexec/sblock define as
   inner `fix`es, and one-step unfolding equations (all by `reflexivity`), so that proofs about
   run_spec can proceed case by case without exposing anonymous fixpoints. *)
From Coq Require Import ZArith List Bool.
Require Import NS.theories.F64 NS.theories.StrLib NS.theories.Lang NS.theories.Spec.
Require NS.theories.NumParse NS.theories.CaseMap.
Import ListNotations.
Open Scope Z_scope.

Definition sevals_with (ev : expr -> heap -> SM (value * heap)) :=
  fix sevals_with (es : list expr) (h : heap) {struct es} : SM (list value * heap) :=
  match es with
  | [] => sret ([], h)
  | e :: r => sdo (v, h1) <- ev e h; sdo (vs, h2) <- sevals_with r h1; sret (v :: vs, h2)
  end.

Definition sindices_with (ev : expr -> heap -> SM (value * heap)) :=
  fix sindices_with (es : list expr) (h : heap) {struct es} : SM (list Z * heap) :=
  match es with
  | [] => sret ([], h)
  | e :: r => sdo (v, h1) <- ev e h; sdo i <- of_res (index_value v);
              sdo (is, h2) <- sindices_with r h1; sret (i :: is, h2)
  end.

Definition smutate_with (ev : expr -> heap -> SM (value * heap)) (c : chain) (o : expr) (op : mutop)
  (h : heap) : SM (value * heap) :=
  match o with
  | EVar vn _ =>
      sdo root <- read_var h vn c;
      sdo (root', r) <- of_res (mutate_path root [] op);
      sdo h' <- write_var h vn c root'; sret (r, h')
  | EIdx _ _ =>
      match flatten_named o [] with
      | None => serr TypeMis
      | Some (vn, idx_exprs) =>
          sdo (path, h1) <- sindices_with ev idx_exprs h;
          sdo root <- read_var h1 vn c;
          sdo (root', r) <- of_res (mutate_path root path op);
          sdo h' <- write_var h1 vn c root'; sret (r, h')
      end
  | _ => serr TypeMis
  end.

Definition sinterp (h : heap) (c : chain) :=
  fix sinterp (segs : list seg) {struct segs} : SM (list Z) :=
  match segs with
  | [] => sret []
  | SegLit b :: r => sdo rest <- sinterp r; sret (b ++ rest)
  | SegVar vn _ :: r => sdo v <- read_var h vn c; sdo rest <- sinterp r; sret (display v ++ rest)
  end.

Fixpoint sbindp (ps : list name) (vs : list value) (acc : list (name * value)) : list (name * value) :=
  match ps, vs with
  | p :: ps', v :: vs' =>
      sbindp ps' vs' (match slot_set p v acc with Some a => a | None => acc ++ [(p, v)] end)
  | _, _ => acc
  end.

Definition sstmts_with (ex : stmt -> heap -> SM (flow * heap)) :=
  fix sstmts_with (ts : list stmt) (h : heap) {struct ts} : SM (flow * heap) :=
  match ts with
  | [] => sret (FNormal, h)
  | t :: r =>
      sdo (fl, h') <- ex t h;
      match fl with
      | FNormal => sstmts_with r h'
      | _ => sret (fl, h')
      end
  end.

Definition scall_user (eps : f64) (n' : nat) (fname : name) (args : list expr) (c : chain) (h : heap)
  : SM (value * heap) :=
  match resolve_fn h fname c with
  | None => sstuck
  | Some cl =>
      sdo (vs, h1) <- sevals_with (fun e h => seval eps n' e c h) args h;
      if negb (Nat.eqb (length vs) (length (c_params cl))) then sstuck
      else
        let defchain : chain :=
          match nth_error h1 (c_frame cl) with
          | Some df => (c_frame cl, Some (c_vis cl)) :: fr_parent df
          | None => []
          end in
        let '(h2, pf) := new_frame h1 (sbindp (c_params cl) vs []) defchain in
        sdo (fl, h3) <- sblock eps n' (c_body cl) ((pf, None) :: defchain) h2;
        match fl with
        | FNormal => sret (VNull, h3)
        | FReturn v => sret (v, h3)
        | FBreak | FNext => sstuck
        end
  end.

(* one-step equations for the helpers *)
Lemma sevals_with_nil ev h : sevals_with ev [] h = sret ([], h).
Proof. reflexivity. Qed.
Lemma sevals_with_cons ev e r h :
  sevals_with ev (e :: r) h =
  (sdo (v, h1) <- ev e h; sdo (vs, h2) <- sevals_with ev r h1; sret (v :: vs, h2)).
Proof. reflexivity. Qed.
Lemma sindices_with_nil ev h : sindices_with ev [] h = sret ([], h).
Proof. reflexivity. Qed.
Lemma sindices_with_cons ev e r h :
  sindices_with ev (e :: r) h =
  (sdo (v, h1) <- ev e h; sdo i <- of_res (index_value v);
   sdo (is, h2) <- sindices_with ev r h1; sret (i :: is, h2)).
Proof. reflexivity. Qed.
Lemma sinterp_nil h c : sinterp h c [] = sret [].
Proof. reflexivity. Qed.
Lemma sinterp_lit h c b r : sinterp h c (SegLit b :: r) = (sdo rest <- sinterp h c r; sret (b ++ rest)).
Proof. reflexivity. Qed.
Lemma sinterp_var h c vn l r :
  sinterp h c (SegVar vn l :: r) =
  (sdo v <- read_var h vn c; sdo rest <- sinterp h c r; sret (display v ++ rest)).
Proof. reflexivity. Qed.
Lemma sstmts_with_nil ex h : sstmts_with ex [] h = sret (FNormal, h).
Proof. reflexivity. Qed.
Lemma sstmts_with_cons ex t r h :
  sstmts_with ex (t :: r) h =
  (sdo (fl, h') <- ex t h;
   match fl with FNormal => sstmts_with ex r h' | _ => sret (fl, h') end).
Proof. reflexivity. Qed.

Section Unfold.
Variable eps : f64.

Lemma seval_O e c h : seval eps O e c h = ([], SFuel).
Proof. reflexivity. Qed.

Lemma seval_S n' e c h :
  seval eps (S n') e c h =
    let ev := fun e h => seval eps n' e c h in
    match e with
    | ENum x => sret (VNum x, h)
    | EStr b => sret (VStr b, h)
    | EInterp segs => sdo b <- sinterp h c segs; sret (VStr b, h)
    | EBool b => sret (VBool b, h)
    | ENull => sret (VNull, h)
    | EVar vn _ => sdo v <- read_var h vn c; sret (v, h)
    | EBin And a b =>
        sdo (l, h1) <- ev a h;
        match l with
        | VBool false | VNull => sret (VBool false, h1)
        | _ => sdo (r, h2) <- ev b h1;
               match r with
               | VBool x => sret (VBool x, h2)
               | VNull => sret (VBool false, h2)
               | _ => serr TypeMis
               end
        end
    | EBin Or a b =>
        sdo (l, h1) <- ev a h;
        match l with
        | VBool true => sret (VBool true, h1)
        | _ => sdo (r, h2) <- ev b h1;
               match r with
               | VBool x => sret (VBool x, h2)
               | VNull => sret (VBool false, h2)
               | _ => serr TypeMis
               end
        end
    | EBin op a b =>
        sdo (l, h1) <- ev a h;
        sdo (r, h2) <- ev b h1;
        sdo v <- of_res (binop_values eps op l r); sret (v, h2)
    | EUn op a =>
        sdo (v, h1) <- ev a h;
        match op, v with
        | Not, VBool b => sret (VBool (negb b), h1)
        | Not, VNull => sret (VBool true, h1)
        | Neg, VNum x => sret (VNum (fneg x), h1)
        | _, _ => serr TypeMis
        end
    | EArr es => sdo (vs, h1) <- sevals_with ev es h; sret (VArr vs, h1)
    | EIdx a i =>
        sdo (av, h1) <- ev a h;
        sdo (iv, h2) <- ev i h1;
        match av with
        | VArr items =>
            match iv with
            | VNum x =>
                if negb (is_finite x) || negb (is_int x) then serr InvIdx
                else
                  let idx := to_isize x in
                  if (idx <? 0) || (len_z items <=? idx) then serr IdxOob
                  else match nth_value items (Z.to_nat idx) with
                       | Some v => sret (v, h2)
                       | None => serr IdxOob
                       end
            | _ => serr InvIdx
            end
        | _ => serr TypeMis
        end
    | EMember _ _ => serr TypeMis
    | ECall (EMember o f) args _ =>
        if mem_name f array_mut_methods then
          if bytes_eqb f n_push then
            match args with
            | [] => sstuck
            | a0 :: _ => sdo (v, h1) <- ev a0 h; smutate_with ev c o (MPush v) h1
            end
          else if bytes_eqb f n_pop then smutate_with ev c o MPop h
          else smutate_with ev c o MReverse h
        else if mem_name f proc_mut_names then ([], SUnsupp)
        else
          sdo (recv, h1) <- ev o h;
          match recv with
          | VStr str =>
              if negb (mem_name f string_methods) then serr TypeMis
              else if bytes_eqb f n_len then sret (VNum (of_Z (Z.of_nat (str_len str))), h1)
              else if bytes_eqb f n_slice then
                match args with
                | a0 :: a1 :: _ =>
                    sdo (v0, h2) <- ev a0 h1;
                    sdo (v1, h3) <- ev a1 h2;
                    match v0, v1 with
                    | VNum x0, VNum x1 =>
                        sret (VStr (slice str (to_isize (ffloor x0)) (to_isize (ffloor x1))), h3)
                    | _, _ => serr TypeMis
                    end
                | _ => sstuck
                end
              else if bytes_eqb f n_to_uppercase then
                sret (VStr (CaseMap.to_upper str), h1)
              else if bytes_eqb f n_to_lowercase then
                sret (VStr (CaseMap.to_lower str), h1)
              else if bytes_eqb f n_trim then sret (VStr (trim str), h1)
              else if bytes_eqb f n_to_number then sret (VNum (NumParse.to_number str), h1)
              else if bytes_eqb f n_find then
                match args with
                | a0 :: _ =>
                    sdo (v0, h2) <- ev a0 h1;
                    match v0 with
                    | VStr needle =>
                        match first_occ str needle with
                        | Some i => sret (VNum (of_Z (Z.of_nat i)), h2)
                        | None => sret (VNum (of_Z (-1)), h2)
                        end
                    | _ => serr TypeMis
                    end
                | _ => sstuck
                end
              else if bytes_eqb f n_replace then
                match args with
                | a0 :: a1 :: _ =>
                    sdo (v0, h2) <- ev a0 h1;
                    sdo (v1, h3) <- ev a1 h2;
                    match v0, v1 with
                    | VStr old, VStr new => sret (VStr (replace_spec str old new), h3)
                    | _, _ => serr TypeMis
                    end
                | _ => sstuck
                end
              else
                match args with
                | a0 :: _ =>
                    sdo (v0, h2) <- ev a0 h1;
                    match v0 with
                    | VStr pat => sret (VArr (map VStr (split str pat)), h2)
                    | _ => serr TypeMis
                    end
                | _ => sstuck
                end
          | VNum x =>
              if mem_name f number_methods then sret (number_method f x, h1) else serr TypeMis
          | VArr items =>
              if negb (mem_name f array_methods) then serr TypeMis
              else if bytes_eqb f n_len then sret (VNum (of_Z (len_z items)), h1)
              else
                match args with
                | a0 :: _ =>
                    sdo (v0, h2) <- ev a0 h1;
                    match v0 with
                    | VStr sep => sret (VStr (join_values items sep), h2)
                    | _ => serr TypeMis
                    end
                | _ => sstuck
                end
          | VBool _ | VNull => serr TypeMis
          end
    | ECall (EVar fname _) args _ =>
        match global_builtin fname with
        | Some g =>
            sdo (vs, h1) <- sevals_with ev args h;
            match vs with
            | [v] =>
                match g with
                | GShout => ([v], SOk (VNull, h1))
                | GTypeOf => sret (VStr (type_name v), h1)
                | GToString => sret (VStr (display v), h1)
                | GReadLine | GCommand => ([], SUnsupp)
                end
            | _ => sstuck
            end
        | None => scall_user eps n' fname args c h
        end
    | ECall _ _ _ => serr TypeMis
    end.
Proof. destruct e; reflexivity. Qed.

Lemma sexec_O t c h : sexec eps O t c h = ([], SFuel).
Proof. reflexivity. Qed.

Lemma sexec_S n' t c h :
  sexec eps (S n') t c h =
    let cur := match c with (fid, _) :: _ => fid | [] => O end in
    let ev := fun e h => seval eps n' e c h in
    match t with
    | SMake _ vn _ e =>
        sdo (v, h1) <- ev e h;
        sdo h2 <- declare_var h1 cur vn v; sret (FNormal, h2)
    | SSet _ vn _ e =>
        sdo (v, h1) <- ev e h;
        sdo h2 <- write_var h1 vn c v; sret (FNormal, h2)
    | SSetIdx _ target e =>
        sdo (v, h1) <- ev e h;
        match flatten_named target [] with
        | None => serr TypeMis
        | Some (vn, idx_exprs) =>
            sdo (path, h2) <- sindices_with ev idx_exprs h1;
            sdo root <- read_var h2 vn c;
            sdo root' <- of_res (assign_path root path v);
            sdo h3 <- write_var h2 vn c root'; sret (FNormal, h3)
        end
    | SIf _ cnd t f =>
        sdo (cv, h1) <- ev cnd h;
        sdo b <- of_res (truthy_cond cv);
        if b then sblock eps n' t c h1
        else match f with Some fb => sblock eps n' fb c h1 | None => sret (FNormal, h1) end
    | SLoop _ cnd body => sloop eps n' cnd body c h
    | SBlock _ body => sblock eps n' body c h
    | SFun _ _ _ _ _ _ _ => sret (FNormal, h)
    | SRet _ None => sret (FReturn VNull, h)
    | SRet _ (Some e) => sdo (v, h1) <- ev e h; sret (FReturn v, h1)
    | SBreak _ => sret (FBreak, h)
    | SNext _ => sret (FNext, h)
    | SExpr _ e => sdo (_, h1) <- ev e h; sret (FNormal, h1)
    end.
Proof. destruct t; reflexivity. Qed.

Lemma sloop_O cnd body c h : sloop eps O cnd body c h = ([], SFuel).
Proof. reflexivity. Qed.

Lemma sloop_S n' cnd body c h :
  sloop eps (S n') cnd body c h =
    (sdo (cv, h1) <- seval eps n' cnd c h;
     sdo b <- of_res (truthy_cond cv);
     if negb b then sret (FNormal, h1)
     else
       sdo (fl, h2) <- sblock eps n' body c h1;
       match fl with
       | FBreak => sret (FNormal, h2)
       | FNormal | FNext => sloop eps n' cnd body c h2
       | FReturn v => sret (FReturn v, h2)
       end).
Proof. reflexivity. Qed.

Lemma sblock_O b c h : sblock eps O b c h = ([], SFuel).
Proof. reflexivity. Qed.

Lemma sblock_S n' b c h :
  sblock eps (S n') b c h =
    (let '(h1, fid) := new_frame h [] c in
     let h2 := with_fns h1 fid (block_closures b fid [] []) in
     sstmts_with (fun t h => sexec eps n' t ((fid, None) :: c) h) b h2).
Proof. reflexivity. Qed.

End Unfold.
