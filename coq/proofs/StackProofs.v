(* C08 — proofs about the native-stack model (theories/StackModel.v). *)
From Coq Require Import List ZArith Bool Arith Lia.
Import ListNotations.
Require Import NS.theories.GenStack NS.theories.StackModel.
Open Scope Z_scope.

(* ------------------------------------------------------------------ basics *)

Lemma mem_true_iff : forall n l, mem n l = true <-> In n l.
Proof.
  intros n l. unfold mem. rewrite existsb_exists. split.
  - intros [x [Hin Heq]]. apply Nat.eqb_eq in Heq. subst. exact Hin.
  - intros Hin. exists n. split; [exact Hin | apply Nat.eqb_refl].
Qed.

Lemma succs_map_filter :
  forall (P : node -> bool) (Q : node -> node -> bool) g n,
  succs (map (fun kl => (fst kl, filter (Q (fst kl)) (snd kl))) (filter (fun kl => P (fst kl)) g)) n =
  if P n then filter (Q n) (succs g n) else [].
Proof.
  intros P Q g n. induction g as [|[k l] r IH]; cbn [filter map succs fst snd].
  - destruct (P n); reflexivity.
  - destruct (P k) eqn:HPk; cbn [map succs fst snd].
    + destruct (Nat.eqb k n) eqn:Hkn.
      * apply Nat.eqb_eq in Hkn. subst. rewrite HPk. reflexivity.
      * exact IH.
    + destruct (Nat.eqb k n) eqn:Hkn.
      * apply Nat.eqb_eq in Hkn. subst. rewrite HPk in IH |- *. exact IH.
      * exact IH.
Qed.

Lemma filter_true_id : forall (A : Type) (l : list A), filter (fun _ => true) l = l.
Proof. intros A l. induction l as [|a l IH]; cbn [filter]; [reflexivity | now rewrite IH]. Qed.

Lemma edge_remove_nodes :
  forall g rm a b, edge (remove_nodes g rm) a b = edge g a b && negb (mem a rm) && negb (mem b rm).
Proof.
  intros g rm a b. unfold edge, remove_nodes.
  rewrite (succs_map_filter (fun k => negb (mem k rm)) (fun _ m => negb (mem m rm)) g a).
  destruct (negb (mem a rm)) eqn:Ha.
  - destruct (mem b (succs g a)) eqn:Hb, (negb (mem b rm)) eqn:Hr; cbn [andb].
    + apply mem_true_iff. apply filter_In. split; [now apply mem_true_iff | exact Hr].
    + apply not_true_is_false. intros H. apply mem_true_iff in H. apply filter_In in H.
      destruct H as [_ H]. rewrite Hr in H. discriminate.
    + apply not_true_is_false. intros H. apply mem_true_iff in H. apply filter_In in H.
      destruct H as [H _]. apply mem_true_iff in H. rewrite Hb in H. discriminate.
    + apply not_true_is_false. intros H. apply mem_true_iff in H. apply filter_In in H.
      destruct H as [H _]. apply mem_true_iff in H. rewrite Hb in H. discriminate.
  - cbn [mem existsb]. rewrite andb_false_r. reflexivity.
Qed.

Lemma edge_remove_edges :
  forall g es a b, edge (remove_edges g es) a b = edge g a b && negb (mem_edge (a, b) es).
Proof.
  intros g es a b. unfold edge, remove_edges.
  pose proof (succs_map_filter (fun _ => true) (fun k m => negb (mem_edge (k, m) es)) g a) as H.
  cbn beta in H. rewrite filter_true_id in H. rewrite H.
  destruct (mem b (succs g a)) eqn:Hb, (negb (mem_edge (a, b) es)) eqn:Hr; cbn [andb].
  - apply mem_true_iff. apply filter_In. split; [now apply mem_true_iff | exact Hr].
  - apply not_true_is_false. intros H1. apply mem_true_iff in H1. apply filter_In in H1.
    destruct H1 as [_ H1]. rewrite Hr in H1. discriminate.
  - apply not_true_is_false. intros H1. apply mem_true_iff in H1. apply filter_In in H1.
    destruct H1 as [H1 _]. apply mem_true_iff in H1. rewrite Hb in H1. discriminate.
  - apply not_true_is_false. intros H1. apply mem_true_iff in H1. apply filter_In in H1.
    destruct H1 as [H1 _]. apply mem_true_iff in H1. rewrite Hb in H1. discriminate.
Qed.

Lemma edge_core :
  forall g guards D a b,
  edge (core g guards D) a b =
  edge g a b && negb (mem a guards) && negb (mem b guards) && negb (mem_edge (a, b) D).
Proof. intros. unfold core. rewrite edge_remove_edges, edge_remove_nodes. reflexivity. Qed.

Lemma walk_cons2 : forall g a b t, walk g (a :: b :: t) = edge g a b && walk g (b :: t).
Proof. reflexivity. Qed.

Lemma used_cons : forall fs a p, used fs (a :: p) = fs a + used fs p.
Proof. reflexivity. Qed.

Lemma used_nil : forall fs, used fs [] = 0.
Proof. reflexivity. Qed.

Lemma used_app : forall fs p q, used fs (p ++ q) = used fs p + used fs q.
Proof.
  intros fs p q. induction p as [|a p IH].
  - cbn [app]. rewrite used_nil. lia.
  - cbn [app]. rewrite !used_cons, IH. lia.
Qed.

Lemma used_nonneg : forall fs p, (forall n, 0 <= fs n) -> 0 <= used fs p.
Proof.
  intros fs p Hfs. induction p as [|a p IH]; [cbn; lia|].
  rewrite used_cons. specialize (Hfs a). lia.
Qed.

Lemma used_le_length : forall fs p, (forall n, 1 <= fs n) -> Z.of_nat (length p) <= used fs p.
Proof.
  intros fs p Hfs. induction p as [|a p IH]; [cbn; lia|].
  rewrite used_cons. cbn [length]. specialize (Hfs a). lia.
Qed.

Lemma noguard_app : forall gs p q, noguard gs (p ++ q) = noguard gs p && noguard gs q.
Proof. intros. unfold noguard. apply forallb_app. Qed.

(* ------------------------------------------------------------------ budget split *)

Lemma checked_app_one :
  forall B fs gs q off x,
  checked B fs gs off (q ++ [x]) =
  checked B fs gs off q && (if mem x gs then off + used fs q <=? B else true).
Proof.
  intros B fs gs q. induction q as [|a q IH]; intros off x.
  - cbn [app checked used fold_right]. rewrite Z.add_0_r, andb_true_r. reflexivity.
  - cbn [app checked]. rewrite IH. rewrite used_cons.
    rewrite <- andb_assoc. replace (off + fs a + used fs q) with (off + (fs a + used fs q)) by lia.
    reflexivity.
Qed.

(* A path on which every guard saw at most the budget splits into an outer part within the
   budget and a last stretch whose functions, except possibly the first, are not guards. *)
Lemma budget_split :
  forall B fs gs off p,
  off <= B ->
  checked B fs gs off p = true ->
  exists pre seg, p = pre ++ seg /\ off + used fs pre <= B /\ noguard gs (tl seg) = true.
Proof.
  intros B fs gs off p Hoff. induction p as [|x q IH] using rev_ind; intros Hc.
  - exists [], []. cbn. repeat split; lia.
  - rewrite checked_app_one in Hc. apply andb_true_iff in Hc. destruct Hc as [Hq Hx].
    destruct (mem x gs) eqn:Hg.
    + exists q, [x]. split; [reflexivity|]. split; [apply Z.leb_le; exact Hx | reflexivity].
    + destruct (IH Hq) as [pre [seg [Heq [Hpre Hng]]]].
      exists pre, (seg ++ [x]). split; [rewrite Heq, app_assoc; reflexivity|].
      split; [exact Hpre|].
      destruct seg as [|s seg']; cbn [app tl].
      * reflexivity.
      * cbn [tl] in Hng. rewrite noguard_app, Hng. cbn [noguard forallb]. rewrite Hg. reflexivity.
Qed.

(* ------------------------------------------------------------------ wheight *)

Section WH.
Variable g : graph.

Definition step (fs : node -> Z) (f : nat) :=
  fun (m : node) (acc : option Z) =>
    match wheight g fs f m, acc with Some c, Some a => Some (Z.max c a) | _, _ => None end.
Definition agg (fs : node -> Z) (f : nat) (l : list node) : option Z := fold_right (step fs f) (Some 0) l.

Lemma wheight_S : forall fs f n,
  wheight g fs (S f) n = match agg fs f (succs g n) with Some t => Some (fs n + t) | None => None end.
Proof. reflexivity. Qed.

Lemma agg_some : forall fs f l t,
  agg fs f l = Some t ->
  0 <= t /\ forall m, In m l -> exists c, wheight g fs f m = Some c /\ c <= t.
Proof.
  intros fs f l. induction l as [|a l IH]; intros t H.
  - cbn in H. injection H as <-. split; [lia | intros m []].
  - cbn [agg fold_right] in H. unfold step at 1 in H.
    destruct (wheight g fs f a) as [c|] eqn:Ha; [|discriminate].
    fold (agg fs f l) in H. destruct (agg fs f l) as [t'|] eqn:Hl; [|discriminate].
    injection H as <-. destruct (IH t' eq_refl) as [Ht' Hall]. split; [lia|].
    intros m [<-|Hin].
    + exists c. split; [exact Ha | lia].
    + destruct (Hall m Hin) as [c' [Hc' Hle]]. exists c'. split; [exact Hc' | lia].
Qed.

Lemma agg_ext : forall fs f f' l t,
  (forall m c, In m l -> wheight g fs f m = Some c -> wheight g fs f' m = Some c) ->
  agg fs f l = Some t -> agg fs f' l = Some t.
Proof.
  intros fs f f' l. induction l as [|a l IH]; intros t Hm H.
  - exact H.
  - cbn [agg fold_right] in H |- *. unfold step at 1 in H. unfold step at 1.
    destruct (wheight g fs f a) as [c|] eqn:Ha; [|discriminate].
    fold (agg fs f l) in H. fold (agg fs f' l).
    destruct (agg fs f l) as [t'|] eqn:Hl; [|discriminate].
    rewrite (Hm a c (or_introl eq_refl) Ha).
    rewrite (IH t' (fun m c Hin => Hm m c (or_intror Hin)) eq_refl). exact H.
Qed.

Lemma wheight_mono : forall fs f n c, wheight g fs f n = Some c -> wheight g fs (S f) n = Some c.
Proof.
  intros fs f. induction f as [|f IH]; intros n c H; [discriminate|].
  rewrite wheight_S in H. rewrite wheight_S.
  destruct (agg fs f (succs g n)) as [t|] eqn:Ha; [|discriminate].
  rewrite (agg_ext fs f (S f) _ t (fun m c _ Hm => IH m c Hm) Ha). exact H.
Qed.

(* whether the search ends does not depend on the costs *)
Lemma wheight_some_indep : forall fs1 fs2 f n c,
  wheight g fs1 f n = Some c -> exists c', wheight g fs2 f n = Some c'.
Proof.
  intros fs1 fs2 f. induction f as [|f IH]; intros n c H; [discriminate|].
  rewrite wheight_S in H. rewrite wheight_S.
  destruct (agg fs1 f (succs g n)) as [t|] eqn:Ha; [|discriminate].
  assert (Hagg : exists t', agg fs2 f (succs g n) = Some t').
  { clear H. revert t Ha. generalize (succs g n) as l. induction l as [|a l IHl]; intros t Ha.
    - exists 0. reflexivity.
    - cbn [agg fold_right] in Ha |- *. unfold step at 1 in Ha. unfold step at 1.
      destruct (wheight g fs1 f a) as [ca|] eqn:Hca; [|discriminate].
      fold (agg fs1 f l) in Ha. fold (agg fs2 f l).
      destruct (agg fs1 f l) as [tl|] eqn:Hl; [|discriminate].
      destruct (IH a ca Hca) as [ca' Hca']. destruct (IHl tl eq_refl) as [tl' Htl'].
      rewrite Hca', Htl'. eexists. reflexivity. }
  destruct Hagg as [t' Ht']. rewrite Ht'. eexists. reflexivity.
Qed.

(* with frames of at most M the cost of a path is at most M times its length *)
Lemma wheight_le_M : forall fs M,
  (forall x, 0 <= fs x <= M) -> forall f n c h,
  wheight g fs f n = Some c -> wheight g unit_cost f n = Some h -> 0 <= h /\ c <= M * h.
Proof.
  intros fs M Hfs f. induction f as [|f IH]; intros n c h Hc Hh; [discriminate|].
  rewrite wheight_S in Hc, Hh.
  destruct (agg fs f (succs g n)) as [t|] eqn:Ha; [|discriminate].
  destruct (agg unit_cost f (succs g n)) as [th|] eqn:Hu; [|discriminate].
  assert (Hc' : c = fs n + t) by congruence. assert (Hh' : h = 1 + th) by (unfold unit_cost in Hh; congruence).
  subst c h. clear Hc Hh.
  assert (HM : 0 <= M) by (specialize (Hfs n); lia).
  assert (Hagg : 0 <= th /\ t <= M * th).
  { revert t th Ha Hu. generalize (succs g n) as l. induction l as [|a l IHl]; intros t th Ha Hu.
    - cbn in Ha, Hu. injection Ha as <-. injection Hu as <-. lia.
    - cbn [agg fold_right] in Ha, Hu. unfold step at 1 in Ha. unfold step at 1 in Hu.
      destruct (wheight g fs f a) as [ca|] eqn:Hca; [|discriminate].
      destruct (wheight g unit_cost f a) as [ha|] eqn:Hha; [|discriminate].
      fold (agg fs f l) in Ha. fold (agg unit_cost f l) in Hu.
      destruct (agg fs f l) as [tl|] eqn:Hl; [|discriminate].
      destruct (agg unit_cost f l) as [tlh|] eqn:Hlh; [|discriminate].
      injection Ha as <-. injection Hu as <-.
      destruct (IH a ca ha Hca Hha) as [H1 H2]. destruct (IHl tl tlh eq_refl eq_refl) as [H3 H4].
      split; [lia|].
      apply Z.max_lub.
      + apply Z.le_trans with (M * ha); [exact H2|]. apply Z.mul_le_mono_nonneg_l; lia.
      + apply Z.le_trans with (M * tlh); [exact H4|]. apply Z.mul_le_mono_nonneg_l; lia. }
  destruct Hagg as [H1 H2]. specialize (Hfs n). split; [lia|].
  replace (M * (1 + th)) with (M + M * th) by lia. lia.
Qed.

End WH.

Lemma succs_in : forall g a b, mem b (succs g a) = true -> exists l, In (a, l) g /\ succs g a = l.
Proof.
  intros g a b. induction g as [|[k l] r IH]; cbn [succs]; intros He.
  - discriminate.
  - destruct (Nat.eqb k a) eqn:Hk.
    + apply Nat.eqb_eq in Hk. subst. exists l. split; [left; reflexivity | reflexivity].
    + destruct (IH He) as [l' [H1 H2]]. exists l'. split; [right; exact H1 | exact H2].
Qed.

Lemma closed_succ_key : forall g, closed g = true -> forall a b, edge g a b = true -> mem b (keys g) = true.
Proof.
  intros g Hclosed a b He. unfold closed in Hclosed. rewrite forallb_forall in Hclosed.
  unfold edge in He. destruct (succs_in g a b He) as [l [Hin Hs]].
  specialize (Hclosed (a, l) Hin). cbn [snd] in Hclosed.
  rewrite forallb_forall in Hclosed. apply Hclosed. rewrite <- Hs. apply mem_true_iff. exact He.
Qed.

(* ------------------------------------------------------------------ acyclic graphs *)

Section ACYCLIC.
Variable g : graph.
Variable fs : node -> Z.
Hypothesis Hfs : forall n, 0 <= fs n.
Hypothesis Hacyc : acyclic g = true.
Hypothesis Hclosed : closed g = true.

Lemma acyclic_some_unit : forall n, mem n (keys g) = true ->
  exists h, wheight g unit_cost (fuel_of g) n = Some h.
Proof.
  intros n Hn. unfold acyclic in Hacyc. destruct (peel_ok g); [|discriminate].
  rewrite forallb_forall in Hacyc. apply mem_true_iff in Hn. specialize (Hacyc n Hn).
  destruct (wheight g unit_cost (fuel_of g) n) as [h|]; [eexists; reflexivity | discriminate].
Qed.

Lemma acyclic_some : forall n, mem n (keys g) = true ->
  wheight g fs (fuel_of g) n = Some (wh g fs n).
Proof.
  intros n Hn. destruct (acyclic_some_unit n Hn) as [h Hh].
  destruct (wheight_some_indep g unit_cost fs _ _ _ Hh) as [c Hc].
  unfold wh. rewrite Hc. reflexivity.
Qed.

Lemma wh_fs_le : forall n, mem n (keys g) = true -> fs n <= wh g fs n.
Proof.
  intros n Hn. pose proof (acyclic_some n Hn) as H. unfold fuel_of in H.
  rewrite wheight_S in H. destruct (agg g fs (length g) (succs g n)) as [t|] eqn:Ha; [|discriminate].
  injection H as H. destruct (agg_some g fs _ _ _ Ha) as [Ht _]. lia.
Qed.

Lemma wh_nonneg : forall n, mem n (keys g) = true -> 0 <= wh g fs n.
Proof. intros n Hn. pose proof (wh_fs_le n Hn). specialize (Hfs n). lia. Qed.

(* along an edge the longest-path cost drops by at least the caller's frame *)
Lemma wh_edge : forall a b, mem a (keys g) = true -> edge g a b = true ->
  fs a + wh g fs b <= wh g fs a.
Proof.
  intros a b Ha He. pose proof (acyclic_some a Ha) as H. unfold fuel_of in H.
  rewrite wheight_S in H. destruct (agg g fs (length g) (succs g a)) as [t|] eqn:Hagg; [|discriminate].
  injection H as H. destruct (agg_some g fs _ _ _ Hagg) as [_ Hall].
  unfold edge in He. apply mem_true_iff in He. destruct (Hall b He) as [c [Hc Hle]].
  apply wheight_mono in Hc. pose proof (acyclic_some b (closed_succ_key g Hclosed a b ltac:(unfold edge; apply mem_true_iff; exact He))) as Hb.
  unfold fuel_of in Hb. rewrite Hc in Hb. injection Hb as Hb. lia.
Qed.

Lemma wh_le_max : forall n, mem n (keys g) = true -> wh g fs n <= max_wheight g fs.
Proof.
  intros n Hn. unfold max_wheight. apply mem_true_iff in Hn.
  induction (keys g) as [|k ks IH]; [destruct Hn|].
  cbn [map fold_right]. destruct Hn as [<-|Hn]; [lia|]. specialize (IH Hn). lia.
Qed.

Lemma max_wheight_nonneg : 0 <= max_wheight g fs.
Proof.
  unfold max_wheight. induction (keys g) as [|k ks IH]; cbn [map fold_right]; lia.
Qed.

End ACYCLIC.

(* ------------------------------------------------------------------ guard-free stretches *)

Section SEGMENT.
Variable g : graph.
Variable guards : list node.
Variable D : list (node * node).
Variable fs : node -> Z.
Hypothesis Hfs : forall n, 0 <= fs n.
Hypothesis Hclosed : closed g = true.
Hypothesis Hacyc : acyclic (core g guards D) = true.

Let g' := core g guards D.

Lemma keys_remove_edges : forall h es, keys (remove_edges h es) = keys h.
Proof. intros h es. unfold keys, remove_edges. rewrite map_map. reflexivity. Qed.

Lemma mem_keys_remove_nodes : forall h rm n,
  mem n (keys (remove_nodes h rm)) = mem n (keys h) && negb (mem n rm).
Proof.
  intros h rm n. apply Bool.eq_iff_eq_true. rewrite andb_true_iff, !mem_true_iff.
  unfold keys, remove_nodes. rewrite map_map. cbn [fst]. rewrite !in_map_iff. split.
  - intros [[k l] [Hk Hin]]. cbn [fst] in Hk. subst k. apply filter_In in Hin.
    destruct Hin as [Hin Hf]. cbn [fst] in Hf. split; [|exact Hf]. exists (n, l). split; [reflexivity | exact Hin].
  - intros [[[k l] [Hk Hin]] Hr]. cbn [fst] in Hk. subst k. exists (n, l). split; [reflexivity|].
    apply filter_In. split; [exact Hin | exact Hr].
Qed.

Lemma key_core : forall n, mem n (keys g) = true -> mem n guards = false -> mem n (keys g') = true.
Proof.
  intros n Hk Hg. unfold g', core. rewrite keys_remove_edges, mem_keys_remove_nodes, Hk, Hg. reflexivity.
Qed.

Lemma closed_core : closed g' = true.
Proof.
  unfold closed. apply forallb_forall. intros [k l] Hin. cbn [snd]. apply forallb_forall. intros m Hm.
  (* (k,l) in g' : l = filtered successors; m in l means edge g' k m *)
  assert (He : edge g' k m = true \/ True) by (right; exact I). clear He.
  unfold g', core, remove_edges in Hin. apply in_map_iff in Hin. destruct Hin as [[k0 l0] [Heq Hin0]].
  cbn [fst snd] in Heq. injection Heq as <- <-. apply filter_In in Hm. destruct Hm as [Hm0 _].
  unfold remove_nodes in Hin0. apply in_map_iff in Hin0. destruct Hin0 as [[k1 l1] [Heq1 Hin1]].
  cbn [fst snd] in Heq1. injection Heq1 as <- <-. apply filter_In in Hm0. destruct Hm0 as [Hm1 Hng].
  apply filter_In in Hin1. destruct Hin1 as [Hin1 _].
  unfold closed in Hclosed. rewrite forallb_forall in Hclosed. specialize (Hclosed _ Hin1). cbn [snd] in Hclosed.
  rewrite forallb_forall in Hclosed. specialize (Hclosed m Hm1).
  apply key_core; [exact Hclosed|]. apply negb_true_iff. exact Hng.
Qed.

(* one step of a guard-free walk of g is either a listed descent or an edge of the core *)
Lemma step_core : forall a b, edge g a b = true -> mem a guards = false -> mem b guards = false ->
  mem_edge (a, b) D = false -> edge g' a b = true.
Proof.
  intros a b He Ha Hb Hd. unfold g'. rewrite edge_core, He, Ha, Hb, Hd. reflexivity.
Qed.

Lemma segment_bound :
  forall t a,
  allkeys g (a :: t) = true -> walk g (a :: t) = true -> noguard guards (a :: t) = true ->
  used fs (a :: t) <= Z.of_nat (scount D (a :: t)) * max_wheight g' fs + wh g' fs a.
Proof.
  pose proof (max_wheight_nonneg g' fs) as HW.
  intros t. induction t as [|b t IH]; intros a Hk Hw Hn.
  - cbn [scount]. rewrite used_cons. cbn [used fold_right].
    cbn [allkeys forallb] in Hk. apply andb_true_iff in Hk. destruct Hk as [Hka _].
    cbn [noguard forallb] in Hn. apply andb_true_iff in Hn. destruct Hn as [Hna _].
    apply negb_true_iff in Hna.
    pose proof (wh_fs_le g' fs Hacyc a (key_core a Hka Hna)). lia.
  - cbn [allkeys forallb] in Hk. apply andb_true_iff in Hk. destruct Hk as [Hka Hk].
    cbn [noguard forallb] in Hn. apply andb_true_iff in Hn. destruct Hn as [Hna Hn].
    cbn [walk] in Hw. apply andb_true_iff in Hw. destruct Hw as [Hab Hw].
    specialize (IH b Hk Hw Hn).
    apply negb_true_iff in Hna.
    assert (Hnb : mem b guards = false).
    { cbn [noguard forallb] in Hn. apply andb_true_iff in Hn. destruct Hn as [Hnb _]. apply negb_true_iff in Hnb. exact Hnb. }
    assert (Hkb : mem b (keys g) = true).
    { cbn [allkeys forallb] in Hk. apply andb_true_iff in Hk. tauto. }
    rewrite used_cons. change (scount D (a :: b :: t)) with ((if mem_edge (a, b) D then 1 else 0) + scount D (b :: t))%nat.
    pose proof (wh_fs_le g' fs Hacyc a (key_core a Hka Hna)) as Hfa.
    pose proof (wh_le_max g' fs b (key_core b Hkb Hnb)) as Hbm.
    destruct (mem_edge (a, b) D) eqn:Hd.
    + rewrite Nat2Z.inj_add. change (Z.of_nat 1) with 1. nia.
    + pose proof (wh_edge g' fs Hacyc closed_core a b (key_core a Hka Hna) (step_core a b Hab Hna Hnb Hd)) as He.
      cbn [Nat.add]. lia.
Qed.

Lemma segment_bound_d :
  forall t d, allkeys g t = true -> walk g t = true -> noguard guards t = true ->
  (scount D t <= d)%nat ->
  used fs t <= (Z.of_nat d + 1) * max_wheight g' fs.
Proof.
  pose proof (max_wheight_nonneg g' fs) as HW.
  intros [|a t] d Hk Hw Hn Hd.
  - cbn [used fold_right]. nia.
  - pose proof (segment_bound t a Hk Hw Hn) as H.
    assert (Hwa : wh g' fs a <= max_wheight g' fs).
    { apply wh_le_max. apply key_core.
      - cbn [allkeys forallb] in Hk. apply andb_true_iff in Hk. tauto.
      - cbn [noguard forallb] in Hn. apply andb_true_iff in Hn. destruct Hn as [Hn _]. apply negb_true_iff in Hn. exact Hn. }
    assert (Z.of_nat (scount D (a :: t)) <= Z.of_nat d) by lia. nia.
Qed.

(* a closed walk of the core is impossible *)
Lemma core_walk_drop :
  forall t a, walk g' (a :: t) = true -> mem a (keys g') = true ->
  Z.of_nat (length t) + wh g' unit_cost (last t a) <= wh g' unit_cost a.
Proof.
  assert (Hu : forall n, 0 <= unit_cost n) by (intros; unfold unit_cost; lia).
  intros t. induction t as [|b t IH]; intros a Hw Ha.
  - cbn [length last]. lia.
  - cbn [walk] in Hw. apply andb_true_iff in Hw. destruct Hw as [Hab Hw].
    pose proof (wh_edge g' unit_cost Hacyc closed_core a b Ha Hab) as He.
    pose proof (closed_succ_key g' closed_core a b Hab) as Hb.
    specialize (IH b Hw Hb). unfold unit_cost at 1 in He.
    change (last (b :: t) a) with (match t with [] => b | _ => last t a end).
    assert (Hl : (match t with [] => b | _ => last t a end) = last t b).
    { destruct t as [|c t']; [reflexivity|]. clear. revert c. induction t' as [|e t' IHt]; intros c; [reflexivity|].
      cbn [last]. cbn [last] in IHt. apply IHt. }
    rewrite Hl. cbn [length]. lia.
Qed.

End SEGMENT.

Lemma walk_app_inv_l : forall g p q, walk g (p ++ q) = true -> walk g p = true.
Proof.
  intros g p q. induction p as [|a p IH]; intros H; [reflexivity|].
  destruct p as [|b p]; [reflexivity|].
  cbn [app walk] in H |- *. apply andb_true_iff in H. destruct H as [H1 H2].
  rewrite H1. cbn [andb]. apply IH. exact H2.
Qed.

Lemma walk_app_inv_r : forall g p q, walk g (p ++ q) = true -> walk g q = true.
Proof.
  intros g p q. induction p as [|a p IH]; intros H; [exact H|].
  apply IH. destruct p as [|b p].
  - cbn [app] in H |- *. destruct q; [reflexivity|]. cbn [walk] in H. apply andb_true_iff in H. tauto.
  - cbn [app walk] in H. apply andb_true_iff in H. tauto.
Qed.

Lemma allkeys_app : forall g p q, allkeys g (p ++ q) = allkeys g p && allkeys g q.
Proof. intros. unfold allkeys. apply forallb_app. Qed.

(* ------------------------------------------------------------------ main theorems (any graph) *)

(* (1a) Soundness of the decision procedure: if the graph without its guards and without the
   listed descent edges is acyclic, every cycle contains a guard or takes a descent edge. *)
Theorem cycle_has_guard_or_descent :
  forall g guards D c,
  closed g = true -> acyclic (core g guards D) = true ->
  allkeys g c = true -> cycle_b g c = true ->
  noguard guards c = false \/ (0 < scount D (closing c))%nat.
Proof.
  intros g guards D c Hcl Hac Hk Hc.
  destruct (noguard guards c) eqn:Hn; [|left; reflexivity]. right.
  destruct (scount D (closing c)) eqn:Hs; [|lia]. exfalso.
  destruct c as [|a t]; [discriminate|]. cbn [cycle_b] in Hc. cbn [closing] in Hs.
  (* a :: t ++ [a] is a walk of the core *)
  assert (Hcore : forall p, walk g p = true -> noguard guards p = true -> scount D p = 0%nat ->
                  walk (core g guards D) p = true).
  { intros p. induction p as [|x p IH]; intros Hw Hng Hsc; [reflexivity|].
    destruct p as [|y p]; [reflexivity|].
    rewrite walk_cons2 in Hw |- *. apply andb_true_iff in Hw. destruct Hw as [Hxy Hw].
    cbn [noguard forallb] in Hng. apply andb_true_iff in Hng. destruct Hng as [Hx Hng].
    change (scount D (x :: y :: p)) with ((if mem_edge (x, y) D then 1 else 0) + scount D (y :: p))%nat in Hsc.
    destruct (mem_edge (x, y) D) eqn:Hd; [cbn in Hsc; discriminate|]. cbn [Nat.add] in Hsc.
    rewrite (IH Hw Hng Hsc), andb_true_r.
    apply step_core; [exact Hxy | now apply negb_true_iff | | exact Hd].
    cbn [noguard forallb] in Hng. apply andb_true_iff in Hng. destruct Hng as [Hy _]. now apply negb_true_iff. }
  assert (Hng : noguard guards ((a :: t) ++ [a]) = true).
  { rewrite noguard_app, Hn. cbn [noguard forallb] in Hn |- *. apply andb_true_iff in Hn. destruct Hn as [Ha _].
    rewrite Ha. reflexivity. }
  specialize (Hcore _ Hc Hng Hs).
  cbn [allkeys forallb] in Hk. apply andb_true_iff in Hk. destruct Hk as [Hka _].
  cbn [noguard forallb] in Hn. apply andb_true_iff in Hn. destruct Hn as [Hna _]. apply negb_true_iff in Hna.
  pose proof (core_walk_drop g guards D Hcl Hac (t ++ [a]) a Hcore (key_core g guards D a Hka Hna)) as H.
  rewrite last_last in H. rewrite app_length in H. cbn [length] in H. lia.
Qed.

(* (1a') the plain form: no descent edges *)
Theorem acyclic_without_guards_sound :
  forall g guards c,
  closed g = true -> acyclic_without_guards g guards = true ->
  allkeys g c = true -> cycle_b g c = true ->
  exists n, In n c /\ mem n guards = true.
Proof.
  intros g guards c Hcl Hac Hk Hc.
  destruct (cycle_has_guard_or_descent g guards [] c Hcl Hac Hk Hc) as [H|H].
  - unfold noguard in H. apply not_true_iff_false in H.
    destruct (existsb (fun n => mem n guards) c) eqn:He.
    + apply existsb_exists in He. destruct He as [n [Hin Hm]]. exists n. tauto.
    + exfalso. apply H. apply forallb_forall. intros n Hin. apply negb_true_iff.
      apply not_true_iff_false. intros Hm. apply not_true_iff_false in He. apply He.
      apply existsb_exists. exists n. tauto.
  - exfalso. assert (Hz : forall p, scount [] p = 0%nat).
    { intros p. induction p as [|x p IH]; [reflexivity|]. destruct p as [|y p]; [reflexivity|].
      change (scount [] (x :: y :: p)) with ((if mem_edge (x, y) [] then 1 else 0) + scount [] (y :: p))%nat.
      rewrite IH. reflexivity. }
    rewrite Hz in H. lia.
Qed.

(* (1b) Depth bound.  On a call path on which every guard saw at most B bytes in use outside
   its own frame, and every guard-free stretch descends at most d times along the listed
   edges, the stack in use is at most  B + (frame of the last guard) + (d+1) * (cost of the most
   expensive path of the core). *)
Theorem guarded_depth_bound :
  forall g guards D fs B M d p,
  closed g = true -> acyclic (core g guards D) = true ->
  (forall n, 0 <= fs n <= M) -> 0 <= B ->
  allkeys g p = true -> walk g p = true ->
  checked B fs guards 0 p = true ->
  nest_bounded D guards d p ->
  used fs p <= B + M + (Z.of_nat d + 1) * max_wheight (core g guards D) fs.
Proof.
  intros g guards D fs B M d p Hcl Hac Hfs HB Hk Hw Hc Hnest.
  assert (Hfs0 : forall n, 0 <= fs n) by (intros n; specialize (Hfs n); lia).
  destruct (budget_split B fs guards 0 p HB Hc) as [pre [seg [Heq [Hpre Hng]]]].
  subst p. rewrite used_app.
  pose proof (max_wheight_nonneg (core g guards D) fs) as HW.
  destruct seg as [|h t].
  - cbn [used fold_right]. specialize (Hfs 0%nat). nia.
  - cbn [tl] in Hng. rewrite used_cons.
    assert (Ht : used fs t <= (Z.of_nat d + 1) * max_wheight (core g guards D) fs).
    { apply segment_bound_d; try assumption.
      - rewrite allkeys_app in Hk. apply andb_true_iff in Hk. destruct Hk as [_ Hk].
        cbn [allkeys forallb] in Hk. apply andb_true_iff in Hk. tauto.
      - apply walk_app_inv_r in Hw. change (h :: t) with ([h] ++ t) in Hw. apply walk_app_inv_r in Hw. exact Hw.
      - apply (Hnest (pre ++ [h]) t []); [|exact Hng]. rewrite app_nil_r, <- app_assoc. reflexivity. }
    specialize (Hfs h). lia.
Qed.

(* (1c) with frames of at most M bytes the cost is at most M times the number of functions on
   the longest path of the core *)
Theorem max_wheight_le_M :
  forall g fs M, acyclic g = true -> (forall n, 0 <= fs n <= M) ->
  max_wheight g fs <= M * max_wheight g unit_cost.
Proof.
  intros g fs M Hac Hfs.
  assert (HM : 0 <= M) by (specialize (Hfs 0%nat); lia).
  assert (Hfs0 : forall n, 0 <= fs n) by (intros n; specialize (Hfs n); lia).
  assert (Hu : forall n, 0 <= unit_cost n) by (intros; unfold unit_cost; lia).
  assert (Hone : forall n, mem n (keys g) = true -> wh g fs n <= M * wh g unit_cost n /\ 0 <= wh g unit_cost n).
  { intros n Hn. pose proof (acyclic_some g fs Hac n Hn) as H1.
    pose proof (acyclic_some g unit_cost Hac n Hn) as H2.
    destruct (wheight_le_M g fs M Hfs _ _ _ _ H1 H2). tauto. }
  unfold max_wheight. revert Hone. generalize (keys g) as ks. intros ks. induction ks as [|k ks IH]; intros Hone.
  - cbn. lia.
  - cbn [map fold_right].
    assert (Hk : mem k (k :: ks) = true) by (apply mem_true_iff; left; reflexivity).
    destruct (Hone k Hk) as [H1 H2].
    assert (IH' : fold_right Z.max 0 (map (wh g fs) ks) <= M * fold_right Z.max 0 (map (wh g unit_cost) ks)).
    { apply IH. intros n Hn. apply Hone. apply mem_true_iff. right. apply mem_true_iff. exact Hn. }
    apply Z.max_lub.
    + apply Z.le_trans with (M * wh g unit_cost k); [exact H1|]. apply Z.mul_le_mono_nonneg_l; lia.
    + apply Z.le_trans with (M * fold_right Z.max 0 (map (wh g unit_cost) ks)); [exact IH'|].
      apply Z.mul_le_mono_nonneg_l; lia.
Qed.

Theorem guarded_depth_bound_M :
  forall g guards D fs B M d p,
  closed g = true -> acyclic (core g guards D) = true ->
  (forall n, 0 <= fs n <= M) -> 0 <= B ->
  allkeys g p = true -> walk g p = true ->
  checked B fs guards 0 p = true ->
  nest_bounded D guards d p ->
  used fs p <= B + M * (1 + (Z.of_nat d + 1) * max_wheight (core g guards D) unit_cost).
Proof.
  intros g guards D fs B M d p Hcl Hac Hfs HB Hk Hw Hc Hnest.
  pose proof (guarded_depth_bound g guards D fs B M d p Hcl Hac Hfs HB Hk Hw Hc Hnest) as H.
  pose proof (max_wheight_le_M (core g guards D) fs M Hac Hfs) as HM.
  assert (0 <= Z.of_nat d + 1) by lia. nia.
Qed.

(* ------------------------------------------------------------------ refutation: unguarded cycles *)

Lemma walk_app : forall g p q a,
  walk g (p ++ [a]) = true -> walk g (a :: q) = true -> walk g (p ++ a :: q) = true.
Proof.
  intros g p q a. induction p as [|x p IH]; intros H1 H2; [exact H2|].
  destruct p as [|y p].
  - cbn [app] in H1 |- *. cbn [walk] in H1 |- *. apply andb_true_iff in H1. destruct H1 as [H1 _].
    rewrite H1. exact H2.
  - cbn [app walk] in H1 |- *. apply andb_true_iff in H1. destruct H1 as [Hxy H1].
    rewrite Hxy. cbn [andb]. apply IH; assumption.
Qed.

Lemma walk_rep : forall g a t k, walk g ((a :: t) ++ [a]) = true -> walk g (rep k (a :: t) ++ [a]) = true.
Proof.
  intros g a t k Hc. induction k as [|k IH]; [reflexivity|].
  cbn [rep]. rewrite <- app_assoc.
  destruct (rep k (a :: t) ++ [a]) as [|x r] eqn:Hr.
  - destruct k; cbn in Hr; discriminate.
  - assert (x = a). { destruct k; cbn in Hr; injection Hr as ->; reflexivity. } subst x.
    apply walk_app; assumption.
Qed.

Lemma used_rep : forall fs k c, used fs (rep k c) = Z.of_nat k * used fs c.
Proof.
  intros fs k c. induction k as [|k IH]; [reflexivity|].
  cbn [rep]. rewrite used_app, IH. lia.
Qed.

Lemma noguard_rep : forall gs k c, noguard gs c = true -> noguard gs (rep k c) = true.
Proof.
  intros gs k c H. induction k as [|k IH]; [reflexivity|]. cbn [rep]. rewrite noguard_app, H, IH. reflexivity.
Qed.

Lemma checked_noguard : forall B fs gs p off, noguard gs p = true -> checked B fs gs off p = true.
Proof.
  intros B fs gs p. induction p as [|a p IH]; intros off H; [reflexivity|].
  cbn [noguard forallb] in H. apply andb_true_iff in H. destruct H as [Ha H].
  cbn [checked]. apply negb_true_iff in Ha. rewrite Ha. cbn [andb]. apply IH. exact H.
Qed.

(* (3) A cycle without a guard lets the stack grow past any bound although every budget check
   on the way (there is none) succeeds. *)
Theorem unguarded_depth_unbounded :
  forall g guards c, gf_cycle g guards c = true ->
  forall fs B, (forall n, 1 <= fs n) ->
  forall bound, exists p,
    walk g p = true /\ noguard guards p = true /\ checked B fs guards 0 p = true /\ bound < used fs p.
Proof.
  intros g guards c Hc fs B Hfs bound.
  unfold gf_cycle in Hc. apply andb_true_iff in Hc. destruct Hc as [Hcy Hng].
  destruct c as [|a t]; [discriminate|]. cbn [cycle_b] in Hcy.
  set (k := S (Z.to_nat bound)).
  exists (rep k (a :: t)). split; [|split; [|split]].
  - apply walk_app_inv_l with (q := [a]). apply walk_rep. exact Hcy.
  - apply noguard_rep. exact Hng.
  - apply checked_noguard. apply noguard_rep. exact Hng.
  - rewrite used_rep. pose proof (used_le_length fs (a :: t) Hfs) as Hl. cbn [length] in Hl.
    assert (1 <= used fs (a :: t)) by lia. unfold k. nia.
Qed.

(* ------------------------------------------------------------------ functions on no guard-free cycle *)

Lemma walk_remove_nodes : forall g gs p,
  walk g p = true -> noguard gs p = true -> walk (remove_nodes g gs) p = true.
Proof.
  intros g gs p. induction p as [|a p IH]; intros Hw Hn; [reflexivity|].
  destruct p as [|b p]; [reflexivity|].
  rewrite walk_cons2 in Hw |- *. apply andb_true_iff in Hw. destruct Hw as [Hab Hw].
  cbn [noguard forallb] in Hn. apply andb_true_iff in Hn. destruct Hn as [Ha Hn].
  rewrite (IH Hw Hn), andb_true_r. rewrite edge_remove_nodes, Hab, Ha.
  cbn [noguard forallb] in Hn. apply andb_true_iff in Hn. destruct Hn as [Hb _]. rewrite Hb. reflexivity.
Qed.

Lemma walk_stays : forall g R, succ_closed g R = true ->
  forall t b, mem b R = true -> walk g (b :: t) = true -> forallb (fun m => mem m R) (b :: t) = true.
Proof.
  intros g R Hcl t. induction t as [|c t IH]; intros b Hb Hw.
  - cbn [forallb]. rewrite Hb. reflexivity.
  - rewrite walk_cons2 in Hw. apply andb_true_iff in Hw. destruct Hw as [Hbc Hw].
    cbn [forallb]. rewrite Hb. cbn [andb]. apply IH; [|exact Hw].
    unfold succ_closed in Hcl. rewrite forallb_forall in Hcl. apply mem_true_iff in Hb.
    specialize (Hcl b Hb). rewrite forallb_forall in Hcl. apply Hcl. apply mem_true_iff. exact Hbc.
Qed.

(* a function that [off_cycle] accepts in the graph without guards: every call path that leads
   from it back to itself contains a guard *)
Theorem off_cycle_sound :
  forall g gs a, off_cycle (remove_nodes g gs) a = true ->
  forall t, walk g (a :: t ++ [a]) = true -> noguard gs (a :: t) = false.
Proof.
  intros g gs a Hoff t Hw. apply not_true_iff_false. intros Hn.
  unfold off_cycle in Hoff. cbv zeta in Hoff.
  apply andb_true_iff in Hoff. destruct Hoff as [Hoff Hna]. apply andb_true_iff in Hoff.
  destruct Hoff as [Hcl Hs]. apply negb_true_iff in Hna.
  set (R := reach_from (remove_nodes g gs) a) in *.
  assert (Hng : noguard gs (a :: t ++ [a]) = true).
  { change (a :: t ++ [a]) with ((a :: t) ++ [a]). rewrite noguard_app, Hn.
    cbn [noguard forallb] in Hn |- *. apply andb_true_iff in Hn. destruct Hn as [Ha _]. rewrite Ha. reflexivity. }
  pose proof (walk_remove_nodes g gs _ Hw Hng) as Hw'.
  destruct (t ++ [a]) as [|b r] eqn:Htr; [destruct t; discriminate|].
  rewrite walk_cons2 in Hw'. apply andb_true_iff in Hw'. destruct Hw' as [Hab Hw'].
  rewrite forallb_forall in Hs. assert (Hb : mem b R = true) by (apply Hs; apply mem_true_iff; exact Hab).
  pose proof (walk_stays _ R Hcl r b Hb Hw') as Hall. rewrite forallb_forall in Hall.
  assert (Hin : In a (b :: r)) by (rewrite <- Htr; apply in_or_app; right; left; reflexivity).
  specialize (Hall a Hin). rewrite Hna in Hall. discriminate.
Qed.

Lemma scount_app_l : forall D p q, (scount D p <= scount D (p ++ q))%nat.
Proof.
  intros D p q. induction p as [|a p IH]; [cbn [scount]; lia|].
  destruct p as [|b p].
  - cbn [app scount]. destruct q; cbn [scount]; lia.
  - cbn [app]. change (scount D (a :: b :: p)) with ((if mem_edge (a, b) D then 1 else 0) + scount D (b :: p))%nat.
    change (scount D (a :: b :: p ++ q)) with ((if mem_edge (a, b) D then 1 else 0) + scount D ((b :: p) ++ q))%nat.
    lia.
Qed.

Lemma scount_app_r : forall D p q, (scount D q <= scount D (p ++ q))%nat.
Proof.
  intros D p q. induction p as [|a p IH]; [cbn [app]; lia|].
  cbn [app]. destruct (p ++ q) as [|b r] eqn:Hpq.
  - destruct q; [cbn [scount]; lia|]. destruct p; discriminate.
  - change (scount D (a :: b :: r)) with ((if mem_edge (a, b) D then 1 else 0) + scount D (b :: r))%nat. lia.
Qed.

(* the nesting hypothesis follows from a bound on the whole path *)
Lemma nest_bounded_of_total : forall D gs d p, (scount D p <= d)%nat -> nest_bounded D gs d p.
Proof.
  intros D gs d p H pre q post Heq _. subst p.
  pose proof (scount_app_r D pre (q ++ post)). pose proof (scount_app_l D q post). lia.
Qed.

(* ------------------------------------------------------------------ the generated instance *)

Lemma call_graph_closed : closed call_graph = true.
Proof. vm_compute. reflexivity. Qed.
Lemma runtime_graph_closed : closed runtime_graph = true.
Proof. vm_compute. reflexivity. Qed.

(* (2) decided on the graph regenerated from the current source *)
Lemma runtime_core_acyclic : acyclic (core runtime_graph guard_fns descent_edges) = true.
Proof. vm_compute. reflexivity. Qed.

(* the user-call entry (the one call that hands over an AST node which is not below the caller's)
   is not on any cycle that avoids the guards: evaluator recursion through user functions is
   guarded whatever mix of constructs it goes through *)
Lemma jump_edges_guarded :
  forallb (fun e => negb (mem_edge e descent_edges) && edge runtime_graph (fst e) (snd e)) jump_edges = true.
Proof. vm_compute. reflexivity. Qed.

(* the functions that make a user call (they hand over an AST node which is not below their own:
   the only way native depth can grow without the nesting depth of the source or of the data)
   are on no guard-free cycle: evaluator recursion through user functions meets a guard
   whatever mix of constructs it goes through *)
Lemma user_call_off_cycle :
  forallb (fun e => off_cycle (remove_nodes runtime_graph guard_fns) (fst e)) jump_edges = true.
Proof. vm_compute. reflexivity. Qed.

Theorem user_call_cycles_guarded :
  forall e, In e jump_edges ->
  forall t, walk runtime_graph (fst e :: t ++ [fst e]) = true -> noguard guard_fns (fst e :: t) = false.
Proof.
  intros e He t Hw. pose proof user_call_off_cycle as H. rewrite forallb_forall in H.
  exact (off_cycle_sound runtime_graph guard_fns (fst e) (H e He) t Hw).
Qed.

Theorem runtime_cycles_guarded :
  forall c, allkeys runtime_graph c = true -> cycle_b runtime_graph c = true ->
  noguard guard_fns c = false \/ (0 < scount descent_edges (closing c))%nat.
Proof.
  intros c Hk Hc.
  exact (cycle_has_guard_or_descent runtime_graph guard_fns descent_edges c runtime_graph_closed runtime_core_acyclic Hk Hc).
Qed.

Theorem runtime_depth_bound :
  forall fs M d p,
  (forall n, 0 <= fs n <= M) ->
  allkeys runtime_graph p = true -> walk runtime_graph p = true ->
  checked stack_budget fs guard_fns 0 p = true ->
  nest_bounded descent_edges guard_fns d p ->
  used fs p <= stack_budget + M * (1 + (Z.of_nat d + 1) * runtime_L).
Proof.
  intros fs M d p Hfs Hk Hw Hc Hn. unfold runtime_L, runtime_core.
  apply (guarded_depth_bound_M runtime_graph guard_fns descent_edges fs stack_budget M d p
           runtime_graph_closed runtime_core_acyclic Hfs); try assumption.
  vm_compute. discriminate.
Qed.

Theorem runtime_fits_main_stack :
  forall fs M d headroom p,
  (forall n, 0 <= fs n <= M) ->
  allkeys runtime_graph p = true -> walk runtime_graph p = true ->
  checked stack_budget fs guard_fns 0 p = true ->
  nest_bounded descent_edges guard_fns d p ->
  stack_budget + M * (1 + (Z.of_nat d + 1) * runtime_L) + headroom < main_stack ->
  used fs p + headroom < main_stack.
Proof.
  intros fs M d headroom p Hfs Hk Hw Hc Hn Hineq.
  pose proof (runtime_depth_bound fs M d p Hfs Hk Hw Hc Hn). lia.
Qed.

(* every descent edge really is an unguarded cycle of the current source (vacuous once the
   edge's endpoints are guarded) *)
Lemma descent_edges_unguarded :
  forallb (fun e => gf_cycle call_graph guard_fns (if Nat.eqb (fst e) (snd e) then [fst e] else [fst e; snd e]))
          descent_edges = true.
Proof. vm_compute. reflexivity. Qed.

(* witnesses for the front end and the analyses: cycles of the generated graph without a guard *)
Definition parser_witnesses : list (list node) :=
  [[id_Parser_parse_expression];
   [id_Parser_parse_expression; id_Parser_parse_expression_continuation];
   [id_Parser_parse_statement; id_Parser_parse_block_body]].
Definition resolver_witnesses : list (list node) :=
  [[id_Resolver_check_expr]; [id_Resolver_infer_expr_type]; [id_Resolver_classify_expr];
   [id_Resolver_check_stmt; id_Resolver_check_block];
   [id_Resolver_collect_return_types; id_Resolver_collect_return_types_from_stmt]].
Definition cfg_witnesses : list (list node) :=
  [[id_FunctionBuilder_lower_stmt; id_FunctionBuilder_lower_block];
   [id_CountFunctionBuilder_count_stmt; id_CountFunctionBuilder_count_block]].
Definition value_witnesses : list (list node) :=
  [[id_Value_clone_into]; [id_Value_promote]; [id_Value_fmt]; [id_ArrayBuiltin_join]].

Lemma parser_unguarded : forallb (gf_cycle parser_graph guard_fns) parser_witnesses = true.
Proof. vm_compute. reflexivity. Qed.
Lemma resolver_unguarded : forallb (gf_cycle resolver_graph guard_fns) resolver_witnesses = true.
Proof. vm_compute. reflexivity. Qed.
Lemma cfg_unguarded : forallb (gf_cycle cfg_graph guard_fns) cfg_witnesses = true.
Proof. vm_compute. reflexivity. Qed.
Lemma value_unguarded : forallb (gf_cycle value_graph guard_fns) value_witnesses = true.
Proof. vm_compute. reflexivity. Qed.

Theorem front_end_depth_unbounded :
  forall gw, In gw [(parser_graph, parser_witnesses); (resolver_graph, resolver_witnesses);
                    (cfg_graph, cfg_witnesses); (value_graph, value_witnesses)] ->
  forall c, In c (snd gw) ->
  forall fs, (forall n, 1 <= fs n) ->
  forall bound, exists p,
    walk (fst gw) p = true /\ noguard guard_fns p = true /\
    checked stack_budget fs guard_fns 0 p = true /\ bound < used fs p.
Proof.
  intros gw Hgw c Hc fs Hfs bound.
  apply (unguarded_depth_unbounded (fst gw) guard_fns c); [|exact Hfs].
  cbn [In] in Hgw.
  destruct Hgw as [<-|[<-|[<-|[<-|[]]]]]; cbn [fst snd] in *.
  - pose proof parser_unguarded as H. rewrite forallb_forall in H. exact (H c Hc).
  - pose proof resolver_unguarded as H. rewrite forallb_forall in H. exact (H c Hc).
  - pose proof cfg_unguarded as H. rewrite forallb_forall in H. exact (H c Hc).
  - pose proof value_unguarded as H. rewrite forallb_forall in H. exact (H c Hc).
Qed.

Theorem descent_depth_unbounded :
  forall e, In e descent_edges ->
  forall fs, (forall n, 1 <= fs n) ->
  forall bound, exists p,
    walk call_graph p = true /\ noguard guard_fns p = true /\
    checked stack_budget fs guard_fns 0 p = true /\ bound < used fs p.
Proof.
  intros e He fs Hfs bound.
  pose proof descent_edges_unguarded as H. rewrite forallb_forall in H. specialize (H e He).
  exact (unguarded_depth_unbounded call_graph guard_fns _ H fs stack_budget Hfs bound).
Qed.
