(* StaticRulesProofs — lemmas about theories/StaticRules.v (C09). *)
From Coq Require Import ZArith List Bool Arith Lia.
Require Import NS.theories.Lang NS.theories.GenRules NS.theories.StaticRules.
Import ListNotations.
Open Scope Z_scope.

(* ---------- names ---------- *)
Lemma bytes_eqb_eq : forall a b, bytes_eqb a b = true <-> a = b.
Proof.
  induction a as [|x a IH]; destruct b as [|y b]; cbn [bytes_eqb]; split; intro H; try reflexivity; try discriminate.
  - apply andb_true_iff in H. destruct H as [H1 H2]. apply Z.eqb_eq in H1. apply IH in H2. subst. reflexivity.
  - inversion H; subst. apply andb_true_iff. split. apply Z.eqb_refl. apply IH. reflexivity.
Qed.
Lemma bytes_eqb_refl : forall a, bytes_eqb a a = true.
Proof. intro a. apply bytes_eqb_eq. reflexivity. Qed.
Lemma bytes_eqb_neq : forall a b, bytes_eqb a b = false <-> a <> b.
Proof.
  intros a b. split.
  - intros H E. apply bytes_eqb_eq in E. congruence.
  - intro H. destruct (bytes_eqb a b) eqn:E; [apply bytes_eqb_eq in E; contradiction | reflexivity].
Qed.
Lemma bytes_eqb_sym : forall a b, bytes_eqb a b = bytes_eqb b a.
Proof.
  intros a b. destruct (bytes_eqb a b) eqn:E.
  - apply bytes_eqb_eq in E. subst. symmetry. apply bytes_eqb_refl.
  - apply bytes_eqb_neq in E. symmetry. apply bytes_eqb_neq. congruence.
Qed.

Lemma mem_name_In : forall n l, mem_name n l = true <-> In n l.
Proof.
  intros n l. unfold mem_name. rewrite existsb_exists. split.
  - intros [x [Hin He]]. apply bytes_eqb_eq in He. subst. exact Hin.
  - intro H. exists n. split; [exact H | apply bytes_eqb_refl].
Qed.
Lemma mem_name_not_In : forall n l, mem_name n l = false <-> ~ In n l.
Proof.
  intros n l. split.
  - intros H Hin. apply mem_name_In in Hin. congruence.
  - intro H. destruct (mem_name n l) eqn:E; [apply mem_name_In in E; contradiction | reflexivity].
Qed.

(* ---------- violations ---------- *)
Lemma in_rules : forall r l, In r (rules l) <-> exists p, In (r, p) l.
Proof.
  intros r l. unfold rules. rewrite in_map_iff. split.
  - intros [[r' p] [E H]]. cbn in E. subst. exists p. exact H.
  - intros [p H]. exists (r, p). split; [reflexivity | exact H].
Qed.

Lemma in_map_pfx : forall i r p l, In (r, i :: p) (map (pfx i) l) <-> In (r, p) l.
Proof.
  intros i r p l. rewrite in_map_iff. split.
  - intros [[r' p'] [E H]]. unfold pfx in E. cbn in E. inversion E; subst. exact H.
  - intro H. exists (r, p). split; [reflexivity | exact H].
Qed.
Lemma in_map_pfx_inv : forall i v l, In v (map (pfx i) l) -> exists r p, v = (r, i :: p) /\ In (r, p) l.
Proof.
  intros i v l H. apply in_map_iff in H. destruct H as [[r p] [E H]]. exists r, p. split; [symmetry; exact E | exact H].
Qed.
Lemma in_map_here : forall r p l, In (r, p) (map here l) <-> p = [] /\ In r l.
Proof.
  intros r p l. rewrite in_map_iff. unfold here. split.
  - intros [x [E H]]. inversion E; subst. split; [reflexivity | exact H].
  - intros [E H]. subst. exists r. split; [reflexivity | exact H].
Qed.

(* ---------- unfolding the checker ---------- *)
Definition nested (c : cx) (seen : list name) (s : stmt) : list violation :=
  match s with
  | SFun _ n ps body _ _ _ =>
      if mem_name n seen then [] else map (pfx 0%nat) (check_block (fn_cx c ps) body)
  | SIf _ _ t f =>
      map (pfx 0%nat) (check_block c t)
      ++ match f with Some eb => map (pfx 1%nat) (check_block c eb) | None => [] end
  | SLoop _ _ b => map (pfx 0%nat) (check_block (loop_cx c) b)
  | SBlock _ b => map (pfx 0%nat) (check_block c b)
  | _ => []
  end.

Lemma check_stmt_unfold : forall c seen s,
  check_stmt c seen s = map here (local_rules c seen s) ++ nested c seen s.
Proof. intros c seen s. destruct s; reflexivity. Qed.

Lemma check_stmts_nil : forall c seen i, check_stmts c seen i [] = [].
Proof. reflexivity. Qed.
Lemma check_stmts_cons : forall c seen i s r,
  check_stmts c seen i (s :: r) = map (pfx i) (check_stmt c seen s) ++ check_stmts (after c s) (see seen s) (S i) r.
Proof. reflexivity. Qed.
Lemma check_block_unfold : forall c b, check_block c b = check_stmts (enter_block c b) [] 0%nat b.
Proof. reflexivity. Qed.


Lemma fold_after_cons : forall c s pre, fold_after c (s :: pre) = fold_after (after c s) pre.
Proof. reflexivity. Qed.

Lemma check_stmts_app : forall l1 l2 c seen i,
  check_stmts c seen i (l1 ++ l2)
  = check_stmts c seen i l1 ++ check_stmts (fold_after c l1) (seen_of l1 seen) (i + length l1)%nat l2.
Proof.
  induction l1 as [|s l1 IH]; intros l2 c seen i.
  - cbn [app length]. rewrite Nat.add_0_r. reflexivity.
  - cbn [app]. rewrite !check_stmts_cons. rewrite IH. rewrite <- app_assoc.
    cbn [length]. replace (S i + length l1)%nat with (i + S (length l1))%nat by lia. reflexivity.
Qed.

(* a violation of the statement in the middle of a block, as seen from the block *)
Lemma check_stmts_mid : forall pre x post c seen i v,
  In v (check_stmt (fold_after c pre) (seen_of pre seen) x) ->
  In (pfx (i + length pre) v) (check_stmts c seen i (pre ++ x :: post)).
Proof.
  intros pre x post c seen i v H. rewrite check_stmts_app. apply in_or_app. right.
  rewrite check_stmts_cons. apply in_or_app. left. apply in_map. exact H.
Qed.

Lemma check_stmts_inv : forall l c seen i v,
  In v (check_stmts c seen i l) ->
  exists pre x post v', l = pre ++ x :: post /\ v = pfx (i + length pre) v' /\
    In v' (check_stmt (fold_after c pre) (seen_of pre seen) x).
Proof.
  induction l as [|s l IH]; intros c seen i v H.
  - contradiction.
  - rewrite check_stmts_cons in H. apply in_app_or in H. destruct H as [H|H].
    + apply in_map_iff in H. destruct H as [v' [E H]]. exists [], s, l, v'. cbn [length app].
      rewrite Nat.add_0_r. split; [reflexivity | split; [symmetry; exact E | exact H]].
    + apply IH in H. destruct H as [pre [x [post [v' [El [Ev Hin]]]]]].
      exists (s :: pre), x, post, v'. subst l. split; [reflexivity|]. split.
      * cbn [length]. replace (i + S (length pre))%nat with (S i + length pre)%nat by lia. exact Ev.
      * exact Hin.
Qed.

(* ---------- where the hole's block starts: seen functions ---------- *)

Lemma seen_of_In : forall pre seen n, In n (seen_of pre seen) <-> In n (fun_names pre) \/ In n seen.
Proof.
  induction pre as [|s pre IH]; intros seen n; unfold seen_of in *; cbn [fold_left fun_names].
  - split; [intro H; right; exact H | intros [[]|H]; exact H].
  - rewrite IH. destruct s; cbn [see fun_names In]; tauto.
Qed.
Lemma seen_at_In : forall k n, In n (seen_at k) <-> In n (fun_names (hole_pre k)).
Proof. intros k n. unfold seen_at. rewrite seen_of_In. cbn [In]. tauto. Qed.

(* ================= engine, direction 1: a rule broken anywhere is reported ================= *)
Lemma rules_in_pfx : forall r i l, In r (rules l) -> In r (rules (map (pfx i) l)).
Proof.
  intros r i l H. apply in_rules in H. destruct H as [p H]. apply in_rules. exists (i :: p).
  apply in_map_pfx. exact H.
Qed.

Lemma engine_in : forall k c s r,
  In r (local_rules (state_at k s c) (seen_at k) s) ->
  In (r, path_of k) (check_block c (plug k s)) \/
  In DuplicateFunction (rules (check_block c (plug k s))).
Proof.
  induction k as [pre post | pre f k IH post]; intros c s r H.
  - left. cbn [plug path_of state_at seen_at hole_pre] in *. rewrite check_block_unfold.
    set (c1 := enter_block c (pre ++ s :: post)) in *.
    assert (Hmid := check_stmts_mid pre s post c1 [] 0%nat (r, [])).
    cbn [Nat.add] in Hmid. apply Hmid. rewrite check_stmt_unfold. apply in_or_app. left.
    apply in_map_here. split; [reflexivity | exact H].
  - cbn [plug path_of state_at] in *. rewrite check_block_unfold.
    set (blk := pre ++ wrap f (plug k s) :: post) in *.
    set (c1 := enter_block c blk) in *.
    set (ci := fold_after c1 pre) in *.
    assert (Hseen : seen_at (CIn pre f k post) = seen_at k) by reflexivity.
    rewrite Hseen in H.
    specialize (IH (enter_frame f ci) s r H).
    (* lift a violation of the wrapped statement to the block *)
    assert (Lift : forall v, In v (check_stmt ci (seen_of pre []) (wrap f (plug k s))) ->
                   In (pfx (length pre) v) (check_stmts c1 [] 0%nat blk)).
    { intros v Hv. apply (check_stmts_mid pre (wrap f (plug k s)) post c1 [] 0%nat v Hv). }
    assert (LiftR : forall r0, In r0 (rules (check_stmt ci (seen_of pre []) (wrap f (plug k s)))) ->
                    In r0 (rules (check_stmts c1 [] 0%nat blk))).
    { intros r0 Hr. apply in_rules in Hr. destruct Hr as [p Hp]. apply in_rules. exists (length pre :: p).
      apply (Lift (r0, p)). exact Hp. }
    (* the nested part of the wrapped statement contains the body's check, tagged *)
    assert (Body : (exists n ps, (exists sid fid ls ll, f = FFun sid n ps fid ls ll) /\ mem_name n (seen_of pre []) = true) \/
                   (forall v, In v (check_block (enter_frame f ci) (plug k s)) ->
                              In (pfx (frame_tag f) v) (check_stmt ci (seen_of pre []) (wrap f (plug k s))))).
    { destruct f as [sid cnd els | sid cnd thn | sid cnd | sid | sid n ps fid ls ll]; cbn [wrap enter_frame frame_tag].
      - right. intros v Hv. rewrite check_stmt_unfold. apply in_or_app. right. cbn [nested].
        apply in_or_app. left. apply in_map. exact Hv.
      - right. intros v Hv. rewrite check_stmt_unfold. apply in_or_app. right. cbn [nested].
        apply in_or_app. right. apply in_map. exact Hv.
      - right. intros v Hv. rewrite check_stmt_unfold. apply in_or_app. right. cbn [nested].
        apply in_map. exact Hv.
      - right. intros v Hv. rewrite check_stmt_unfold. apply in_or_app. right. cbn [nested].
        apply in_map. exact Hv.
      - destruct (mem_name n (seen_of pre [])) eqn:Em.
        + left. exists n, ps. split; [exists sid, fid, ls, ll; reflexivity | exact Em].
        + right. intros v Hv. rewrite check_stmt_unfold. apply in_or_app. right. cbn [nested].
          rewrite Em. apply in_map. exact Hv. }
    destruct Body as [[n [ps [[sid [fid [ls [ll Ef]]]] Em]]] | Body].
    + (* the context passes through a duplicate definition: that is what is reported *)
      right. apply LiftR. subst f. cbn [wrap]. rewrite check_stmt_unfold. unfold rules. rewrite map_app.
      apply in_or_app. left. rewrite map_map. cbn [here fst]. rewrite map_id.
      cbn [local_rules]. apply in_or_app. right. rewrite Em. left. reflexivity.
    + destruct IH as [IH | IH].
      * left. specialize (Body _ IH). apply Lift in Body. exact Body.
      * right. apply LiftR. apply in_rules in IH. destruct IH as [p Hp]. apply in_rules.
        exists (frame_tag f :: p). apply (Body (DuplicateFunction, p)). exact Hp.
Qed.

(* ================= engine, direction 2: every report has a located cause ================= *)
Fixpoint ssize (s : stmt) : nat :=
  match s with
  | SFun _ _ _ body _ _ _ => S (fold_right (fun x a => (ssize x + a)%nat) 0%nat body)
  | SIf _ _ t f =>
      S (fold_right (fun x a => (ssize x + a)%nat) 0%nat t
         + match f with Some eb => fold_right (fun x a => (ssize x + a)%nat) 0%nat eb | None => 0%nat end)
  | SLoop _ _ b => S (fold_right (fun x a => (ssize x + a)%nat) 0%nat b)
  | SBlock _ b => S (fold_right (fun x a => (ssize x + a)%nat) 0%nat b)
  | _ => 1%nat
  end.
Definition bsize (b : list stmt) : nat := fold_right (fun x a => (ssize x + a)%nat) 0%nat b.

Lemma bsize_app : forall a b, bsize (a ++ b) = (bsize a + bsize b)%nat.
Proof.
  induction a as [|x a IH]; intro b.
  - reflexivity.
  - cbn [app]. unfold bsize in *. cbn [fold_right]. rewrite IH. lia.
Qed.
Lemma bsize_mid : forall pre x post, (ssize x <= bsize (pre ++ x :: post))%nat.
Proof. intros. rewrite bsize_app. unfold bsize. cbn [fold_right]. lia. Qed.

Lemma engine_out_n : forall n b, (bsize b <= n)%nat -> forall c r p,
  In (r, p) (check_block c b) ->
  exists k s, b = plug k s /\ p = path_of k /\ regular k /\
    In r (local_rules (state_at k s c) (seen_at k) s).
Proof.
  induction n as [|n IHn]; intros b Hn c r p H.
  - destruct b as [|x b]; [contradiction|]. cbn [bsize fold_right] in Hn. destruct x; cbn [ssize] in Hn; lia.
  - rewrite check_block_unfold in H. apply check_stmts_inv in H.
    destruct H as [pre [x [post [v' [Eb [Ev Hin]]]]]]. cbn [Nat.add] in Ev.
    rewrite check_stmt_unfold in Hin. apply in_app_or in Hin. destruct Hin as [Hin | Hin].
    + (* local to x *)
      destruct v' as [r' p']. apply in_map_here in Hin. destruct Hin as [Ep Hr]. subst p'.
      unfold pfx in Ev. cbn in Ev. inversion Ev; subst r' p.
      exists (CHole pre post), x. cbn [plug path_of regular state_at seen_at hole_pre].
      subst b. split; [reflexivity|]. split; [reflexivity|]. split; [exact I|]. exact Hr.
    + (* inside a nested block of x *)
      assert (Hsz : (ssize x <= S n)%nat). { subst b. pose proof (bsize_mid pre x post). lia. }
      assert (Sub : forall f body, x = wrap f body ->
                (match f with FFun _ nm _ _ _ _ => ~ In nm (fun_names pre) | _ => True end) ->
                forall v'', v' = pfx (frame_tag f) v'' ->
                In v'' (check_block (enter_frame f (fold_after (enter_block c b) pre)) body) ->
                (bsize body <= n)%nat ->
                exists k s, b = plug k s /\ p = path_of k /\ regular k /\
                  In r (local_rules (state_at k s c) (seen_at k) s)).
      { intros f body Ex Hreg v'' Ev' Hv'' Hb. destruct v'' as [r2 p2].
        destruct (IHn body Hb _ _ _ Hv'') as [k [s [Ebody [Ep [Hregk Hloc]]]]].
        exists (CIn pre f k post), s. cbn [plug path_of regular state_at].
        subst body. rewrite <- Ex. split; [exact Eb|]. split.
        - subst v'. unfold pfx in Ev. cbn in Ev. inversion Ev; subst. reflexivity.
        - split; [split; [exact Hreg | exact Hregk]|].
          assert (Hs : seen_at (CIn pre f k post) = seen_at k) by reflexivity. rewrite Hs.
          subst v'. unfold pfx in Ev. cbn in Ev. inversion Ev; subst r2.
          rewrite <- Eb. exact Hloc. }
      destruct x as [sid nm ps body fid ls ll | | | | sid cnd t f | sid cnd body | sid body | | | | ];
        cbn [nested] in Hin; try contradiction.
      * destruct (mem_name nm (seen_of pre [])) eqn:Em; [contradiction|].
        apply in_map_iff in Hin. destruct Hin as [v'' [Ev'' Hv'']].
        apply (Sub (FFun sid nm ps fid ls ll) body eq_refl) with (v'' := v'').
        -- apply mem_name_not_In in Em. intro Hc. apply Em. apply seen_of_In. left. exact Hc.
        -- symmetry. exact Ev''.
        -- exact Hv''.
        -- cbn [ssize] in Hsz. unfold bsize. lia.
      * apply in_app_or in Hin. destruct Hin as [Hin | Hin].
        -- apply in_map_iff in Hin. destruct Hin as [v'' [Ev'' Hv'']].
           apply (Sub (FThen sid cnd f) t eq_refl I v''); [symmetry; exact Ev'' | exact Hv'' |].
           cbn [ssize] in Hsz. unfold bsize. lia.
        -- destruct f as [eb|]; [|contradiction].
           apply in_map_iff in Hin. destruct Hin as [v'' [Ev'' Hv'']].
           apply (Sub (FElse sid cnd t) eb eq_refl I v''); [symmetry; exact Ev'' | exact Hv'' |].
           cbn [ssize] in Hsz. unfold bsize. lia.
      * apply in_map_iff in Hin. destruct Hin as [v'' [Ev'' Hv'']].
        apply (Sub (FLoop sid cnd) body eq_refl I v''); [symmetry; exact Ev'' | exact Hv'' |].
        cbn [ssize] in Hsz. unfold bsize. lia.
      * apply in_map_iff in Hin. destruct Hin as [v'' [Ev'' Hv'']].
        apply (Sub (FBlock sid) body eq_refl I v''); [symmetry; exact Ev'' | exact Hv'' |].
        cbn [ssize] in Hsz. unfold bsize. lia.
Qed.

Lemma engine_out : forall b c r p,
  In (r, p) (check_block c b) ->
  exists k s, b = plug k s /\ p = path_of k /\ regular k /\
    In r (local_rules (state_at k s c) (seen_at k) s).
Proof. intros b c r p H. apply (engine_out_n (bsize b) b (le_n _) c r p H). Qed.

(* ================= the checker's context at the hole, read declaratively ================= *)
(* ---- flags ---- *)
Lemma declare_fields : forall c n t,
  cx_funs (declare c n t) = cx_funs c /\ cx_loop (declare c n t) = cx_loop c /\ cx_fn (declare c n t) = cx_fn c.
Proof. intros c n t. unfold declare. destruct (cx_vars c); cbn; auto. Qed.
Lemma after_fields : forall c s,
  cx_funs (after c s) = cx_funs c /\ cx_loop (after c s) = cx_loop c /\ cx_fn (after c s) = cx_fn c.
Proof. intros c s. destruct s; cbn [after]; auto using declare_fields. Qed.
Lemma fold_after_fields : forall pre c,
  cx_funs (fold_after c pre) = cx_funs c /\ cx_loop (fold_after c pre) = cx_loop c /\ cx_fn (fold_after c pre) = cx_fn c.
Proof.
  induction pre as [|s pre IH]; intro c; [cbn; auto|].
  rewrite fold_after_cons. destruct (IH (after c s)) as [A [B C]]. destruct (after_fields c s) as [A' [B' C']].
  rewrite A, B, C. auto.
Qed.

Lemma state_at_loop : forall k s c, cx_loop (state_at k s c) = loop_at k (cx_loop c).
Proof.
  induction k as [pre post | pre f k IH post]; intros s c; cbn [state_at loop_at].
  - destruct (fold_after_fields pre (enter_block c (pre ++ s :: post))) as [_ [B _]]. rewrite B. reflexivity.
  - rewrite IH. f_equal.
    destruct (fold_after_fields pre (enter_block c (pre ++ wrap f (plug k s) :: post))) as [_ [B _]].
    destruct f; cbn [enter_frame loop_cx fn_cx cx_loop]; try rewrite B; reflexivity.
Qed.
Lemma state_at_fn : forall k s c, cx_fn (state_at k s c) = fn_at k (cx_fn c).
Proof.
  induction k as [pre post | pre f k IH post]; intros s c; cbn [state_at fn_at].
  - destruct (fold_after_fields pre (enter_block c (pre ++ s :: post))) as [_ [_ B]]. rewrite B. reflexivity.
  - rewrite IH. f_equal.
    destruct (fold_after_fields pre (enter_block c (pre ++ wrap f (plug k s) :: post))) as [_ [_ B]].
    destruct f; cbn [enter_frame loop_cx fn_cx cx_fn]; try rewrite B; reflexivity.
Qed.

(* ---- variables ---- *)
Lemma scope_find_set : forall x n t s,
  scope_find x (scope_set n t s) = if bytes_eqb n x then Some t else scope_find x s.
Proof.
  intros x n t s. induction s as [|[m t0] s IH]; cbn [scope_set scope_find].
  - reflexivity.
  - destruct (bytes_eqb m n) eqn:Emn.
    + apply bytes_eqb_eq in Emn. subst m. cbn [scope_find]. destruct (bytes_eqb n x); reflexivity.
    + cbn [scope_find]. rewrite IH. destruct (bytes_eqb m x) eqn:Emx; [|reflexivity].
      destruct (bytes_eqb n x) eqn:Enx; [|reflexivity].
      apply bytes_eqb_eq in Emx. apply bytes_eqb_eq in Enx. apply bytes_eqb_neq in Emn. congruence.
Qed.

Lemma declared_declare : forall c n t x, declared (declare c n t) x = bytes_eqb n x || declared c x.
Proof.
  intros c n t x. unfold declared, declare. destruct (cx_vars c) as [|s r]; cbn [cx_vars lookup_var].
  - cbn [scope_find]. destruct (bytes_eqb n x); reflexivity.
  - rewrite scope_find_set. destruct (bytes_eqb n x); [reflexivity|]. cbn [orb]. reflexivity.
Qed.

Lemma declared_fold_after : forall pre c x,
  declared (fold_after c pre) x = true <-> makes x pre \/ declared c x = true.
Proof.
  induction pre as [|s pre IH]; intros c x.
  - cbn. split; [intro H; right; exact H | intros [[sid [l [e []]]] | H]; exact H].
  - rewrite fold_after_cons. rewrite IH. unfold makes. split.
    + intros [[sid [l [e H]]] | H].
      * left. exists sid, l, e. right. exact H.
      * destruct s; cbn [after] in H; try (right; exact H).
        rewrite declared_declare in H. apply orb_true_iff in H. destruct H as [H|H]; [|right; exact H].
        apply bytes_eqb_eq in H. subst. left. eexists _, _, _. left. reflexivity.
    + intros [[sid [l [e [H|H]]]] | H].
      * subst s. right. cbn [after]. rewrite declared_declare. rewrite bytes_eqb_refl. reflexivity.
      * left. exists sid, l, e. exact H.
      * right. destruct s; cbn [after]; try exact H. rewrite declared_declare. rewrite H. apply orb_true_r.
Qed.

Lemma declared_enter_block : forall c b x, declared (enter_block c b) x = declared c x.
Proof. reflexivity. Qed.
Lemma declared_loop_cx : forall c x, declared (loop_cx c) x = declared c x.
Proof. reflexivity. Qed.

Lemma scope_find_some : forall x l, (exists t, scope_find x l = Some t) <-> In x (map fst l).
Proof.
  intros x l. induction l as [|[n t] l IH]; cbn [scope_find map fst In].
  - split; [intros [t H]; discriminate | intros []].
  - destruct (bytes_eqb n x) eqn:E.
    + apply bytes_eqb_eq in E. split; [intros _; left; exact E | intros _; exists t; reflexivity].
    + apply bytes_eqb_neq in E. rewrite IH. tauto.
Qed.

Lemma declared_fn_cx : forall c ps x, declared (fn_cx c ps) x = true <-> In x ps \/ declared c x = true.
Proof.
  intros c ps x. unfold declared, fn_cx. cbn [cx_vars lookup_var].
  set (l := rev (map (fun p : name => (p, TDynamic)) ps)).
  assert (Hl : In x (map fst l) <-> In x ps).
  { unfold l. rewrite map_rev, <- in_rev, map_map. cbn [fst]. rewrite map_id. tauto. }
  destruct (scope_find x l) eqn:E.
  - split; [intros _; left; apply Hl; apply scope_find_some; eauto | reflexivity].
  - split; [intro H; right; exact H|]. intros [H|H]; [|exact H].
    apply Hl in H. apply scope_find_some in H. destruct H as [t H]. congruence.
Qed.

Lemma declared_state_at : forall k s c x,
  declared (state_at k s c) x = true <-> declared_before k x \/ declared c x = true.
Proof.
  induction k as [pre post | pre f k IH post]; intros s c x; cbn [state_at declared_before].
  - rewrite declared_fold_after. rewrite declared_enter_block. tauto.
  - rewrite IH.
    set (ci := fold_after (enter_block c (pre ++ wrap f (plug k s) :: post)) pre).
    assert (Hci : declared ci x = true <-> makes x pre \/ declared c x = true).
    { unfold ci. rewrite declared_fold_after, declared_enter_block. tauto. }
    destruct f; cbn [enter_frame frame_binds]; try rewrite declared_loop_cx; try rewrite declared_fn_cx; tauto.
Qed.

Lemma declared_cx0 : forall x, declared cx0 x = false.
Proof. reflexivity. Qed.

Lemma declared_at : forall k s x, declared (state_at k s cx0) x = true <-> declared_before k x.
Proof. intros k s x. rewrite declared_state_at. rewrite declared_cx0. split; [intros [H|H]; [exact H | discriminate] | tauto]. Qed.

(* ---- functions ---- *)
Definition sig_na (g : fsig) : name * nat := (fg_name g, fg_arity g).

Lemma sweep_na : forall c todo done,
  map sig_na (map fst (fst (sweep c done todo))) = map sig_na (map fst (done ++ todo)).
Proof.
  induction todo as [|[g body] todo IH]; intro done; cbn [sweep].
  - rewrite app_nil_r. reflexivity.
  - match goal with |- context [sweep c ?d todo] => specialize (IH d); destruct (sweep c d todo) as [res ch] end.
    cbn [fst] in *. rewrite IH. rewrite <- app_assoc. cbn [app]. rewrite !map_app. cbn [map fst sig_na fg_name fg_arity].
    reflexivity.
Qed.
Lemma refine_na : forall n c regs, map sig_na (map fst (refine n c regs)) = map sig_na (map fst regs).
Proof.
  induction n as [|n IH]; intros c regs; cbn [refine]; [reflexivity|].
  pose proof (sweep_na c regs []) as H. destruct (sweep c [] regs) as [regs' ch]. cbn [fst app] in H.
  destruct ch; [rewrite IH|]; exact H.
Qed.

Lemma sig_find_na : forall f l1 l2, map sig_na l1 = map sig_na l2 ->
  option_map fg_arity (sig_find f l1) = option_map fg_arity (sig_find f l2).
Proof.
  intros f l1. induction l1 as [|g l1 IH]; intros [|h l2] H; try discriminate; [reflexivity|].
  cbn [map] in H. inversion H as [[Hn Ha Hr]]. cbn [sig_find]. rewrite Hn.
  destruct (bytes_eqb (fg_name h) f); [cbn [option_map]; rewrite Ha; reflexivity | apply IH; exact Hr].
Qed.

Lemma registered_first_def : forall b seen f, ~ In f seen ->
  option_map fg_arity (sig_find f (map fst (registered seen b))) = first_def f b.
Proof.
  induction b as [|s b IH]; intros seen f Hf; [reflexivity|].
  destruct s as [sid n ps body fid ls ll | | | | | | | | | | ]; cbn [registered first_def]; try (apply IH; exact Hf).
  destruct (mem_name n seen) eqn:Em.
  - apply mem_name_In in Em. destruct (bytes_eqb n f) eqn:E.
    + apply bytes_eqb_eq in E. subst. contradiction.
    + apply IH. exact Hf.
  - cbn [map fst sig_find fg_name]. destruct (bytes_eqb n f) eqn:E.
    + reflexivity.
    + apply IH. apply bytes_eqb_neq in E. intros [H|H]; [congruence | contradiction].
Qed.

Lemma sigs_of_first_def : forall c b f, option_map fg_arity (sig_find f (sigs_of c b)) = first_def f b.
Proof.
  intros c b f. unfold sigs_of. rewrite (sig_find_na f _ (map fst (registered [] b))).
  - apply registered_first_def. intros [].
  - apply refine_na.
Qed.

Definition Fc (c : cx) (f : name) : option nat := option_map fg_arity (lookup_fun (cx_funs c) f).

Lemma Fc_push : forall sigs rest f,
  option_map fg_arity (lookup_fun (sigs :: rest) f)
  = match option_map fg_arity (sig_find f sigs) with Some n => Some n | None => option_map fg_arity (lookup_fun rest f) end.
Proof. intros. cbn [lookup_fun]. destruct (sig_find f sigs); reflexivity. Qed.

Lemma Fc_state_at : forall k s c f,
  Fc (state_at k s c) f = match visible_arity k s f with Some n => Some n | None => Fc c f end.
Proof.
  induction k as [pre post | pre fr k IH post]; intros s c f; cbn [state_at visible_arity].
  - unfold Fc. destruct (fold_after_fields pre (enter_block c (pre ++ s :: post))) as [A _]. rewrite A.
    cbn [enter_block with_sigs cx_funs]. rewrite Fc_push, sigs_of_first_def. reflexivity.
  - rewrite IH. destruct (visible_arity k s f); [reflexivity|].
    set (blk := pre ++ wrap fr (plug k s) :: post).
    assert (Hf : cx_funs (enter_frame fr (fold_after (enter_block c blk) pre)) = sigs_of c blk :: cx_funs c).
    { destruct (fold_after_fields pre (enter_block c blk)) as [A _].
      destruct fr; cbn [enter_frame loop_cx fn_cx cx_funs]; rewrite A; reflexivity. }
    unfold Fc. rewrite Hf. rewrite Fc_push, sigs_of_first_def. reflexivity.
Qed.
Lemma Fc_at : forall k s f, Fc (state_at k s cx0) f = visible_arity k s f.
Proof. intros. rewrite Fc_state_at. destruct (visible_arity k s f); reflexivity. Qed.

(* ================= expressions ================= *)
Lemma expr_ind' : forall P : expr -> Prop,
  (forall x, P (ENum x)) -> (forall s, P (EStr s)) -> (forall segs, P (EInterp segs)) ->
  (forall b, P (EBool b)) -> P ENull -> (forall n l, P (EVar n l)) ->
  (forall op a b, P a -> P b -> P (EBin op a b)) ->
  (forall op a, P a -> P (EUn op a)) ->
  (forall es, Forall P es -> P (EArr es)) ->
  (forall a i, P a -> P i -> P (EIdx a i)) ->
  (forall o f, P o -> P (EMember o f)) ->
  (forall c args t, P c -> Forall P args -> P (ECall c args t)) ->
  forall e, P e.
Proof.
  intros P HN HS HI HB HZ HV HBin HUn HArr HIdx HMem HCall.
  fix IH 1. intro e. destruct e.
  - apply HN. - apply HS. - apply HI. - apply HB. - apply HZ. - apply HV.
  - apply HBin; apply IH.
  - apply HUn; apply IH.
  - apply HArr. induction es as [|x es IHes]; constructor; [apply IH | exact IHes].
  - apply HIdx; apply IH.
  - apply HMem; apply IH.
  - apply HCall; [apply IH|]. induction args as [|x args IHa]; constructor; [apply IH | exact IHa].
Qed.

(* rules an expression can break *)
Definition expr_rule (r : rule) : bool :=
  match r with
  | UndeclaredVar | UndeclaredFunction | ArityMismatch | TypeMismatch | UnknownMethod | MethodArity => true
  | _ => false
  end.
Definition all_in (P : rule -> Prop) (l : list rule) : Prop := forall r, In r l -> P r.

Lemma all_in_nil : forall P, all_in P []. Proof. intros P r []. Qed.
Lemma all_in_app : forall P a b, all_in P (a ++ b) <-> all_in P a /\ all_in P b.
Proof.
  intros P a b. unfold all_in. split.
  - intro H. split; intros r Hr; apply H; apply in_or_app; [left | right]; exact Hr.
  - intros [Ha Hb] r Hr. apply in_app_or in Hr. destruct Hr; [apply Ha | apply Hb]; assumption.
Qed.
Lemma all_in_one : forall (P : rule -> Prop) r, all_in P [r] <-> P r.
Proof. intros P r. unfold all_in. split; [intro H; apply H; left; reflexivity | intros H r' [E|[]]; subst; exact H]. Qed.
Lemma all_in_flat_map : forall (P : rule -> Prop) (A : Type) (f : A -> list rule) l,
  all_in P (flat_map f l) <-> Forall (fun a => all_in P (f a)) l.
Proof.
  intros P A f l. induction l as [|a l IH]; cbn [flat_map].
  - split; [constructor | intros _; apply all_in_nil].
  - rewrite all_in_app, IH. split; [intros [H1 H2]; constructor; assumption | intro H; inversion H; auto].
Qed.

Definition tbl (r : rule) : Prop := table_rule r = true.

Lemma tbl_tm : forall b, all_in tbl (tm b).
Proof. intros b r H. unfold tm in H. destruct b; [contradiction | destruct H as [H|[]]; subst; reflexivity]. Qed.
Lemma tbl_expect : forall w o, all_in tbl (expect_arg w o).
Proof. intros w o. unfold expect_arg. destruct o; [apply tbl_tm | apply all_in_nil]. Qed.
Lemma tbl_cond : forall c e, all_in tbl (cond_rules c e).
Proof. intros c e. unfold cond_rules. destruct (infer c e); [apply tbl_tm | apply all_in_nil]. Qed.
Lemma tbl_marity : forall n w, all_in tbl (marity_rule n w).
Proof. intros n w r H. unfold marity_rule in H. destruct (Nat.eqb n w); [contradiction | destruct H as [H|[]]; subst; reflexivity]. Qed.
Lemma tbl_dyn : forall f n, all_in tbl (dyn_arity_rule f n).
Proof.
  intros f n r H. unfold dyn_arity_rule in H. destruct (member_arities f); [contradiction|].
  destruct (existsb (Nat.eqb n) (n0 :: l)); [contradiction | destruct H as [H|[]]; subst; reflexivity].
Qed.
Lemma tbl_member_arg : forall k f a0 n, all_in tbl (member_arg_rules k f a0 n).
Proof.
  intros k f a0 n. unfold member_arg_rules. destruct a0 as [t0|]; [|apply all_in_nil].
  destruct k; try apply all_in_nil.
  - destruct (bytes_eqb f n_join); [apply tbl_expect | apply all_in_nil].
  - destruct (bytes_eqb f n_cwd); [apply tbl_expect|].
    destruct (bytes_eqb f n_env); [destruct (Nat.leb 2 n); [apply tbl_expect | apply all_in_nil]|].
    destruct (bytes_eqb f n_timeout_ms); [apply tbl_expect | apply all_in_nil].
Qed.
Lemma tbl_member_call : forall c o f a0 n, all_in tbl (member_call_rules c o f a0 n).
Proof.
  intros c o f a0 n. unfold member_call_rules. apply all_in_app. split.
  - destruct (infer c o) as [rt|]; [|apply all_in_nil].
    destruct (kind_of_ty rt) as [k|].
    + destruct (method_lookup (kind_table k) f) as [[[ar t] mut]|].
      * apply all_in_app. split.
        -- destruct (mut && negb (root_declared c o)); [|apply all_in_nil].
           destruct k; try apply all_in_nil. apply all_in_one. reflexivity.
        -- apply all_in_app. split; [apply tbl_marity | apply tbl_member_arg].
      * apply all_in_one. reflexivity.
    + destruct (ty_eqb rt TDynamic); [apply all_in_nil | apply all_in_one; reflexivity].
  - destruct (infer c o) as [[]|]; try apply all_in_nil; apply tbl_dyn.
Qed.

Lemma tbl_is_expr : forall r, tbl r -> expr_rule r = true.
Proof. intros r H. unfold tbl in H. destruct r; cbn in *; congruence. Qed.

Lemma fn_call_expr_rules : forall c f a0 n, all_in (fun r => expr_rule r = true) (fn_call_rules c f a0 n).
Proof.
  intros c f a0 n r H. unfold fn_call_rules in H. destruct (global_lookup f) as [[ar t]|].
  - apply in_app_or in H. destruct H as [H|H].
    + unfold arity_rule in H. destruct (Nat.eqb n ar); [contradiction | destruct H as [H|[]]; subst; reflexivity].
    + destruct (bytes_eqb f n_command); [|contradiction]. destruct a0; [|contradiction].
      apply tbl_is_expr. apply (tbl_expect _ _ _ H).
  - destruct (lookup_fun (cx_funs c) f).
    + unfold arity_rule in H. destruct (Nat.eqb n (fg_arity f0)); [contradiction | destruct H as [H|[]]; subst; reflexivity].
    + destruct H as [H|[]]; subst; reflexivity.
Qed.

Lemma seg_expr_rules : forall c s, all_in (fun r => expr_rule r = true) (seg_rules c s).
Proof. intros c s r H. destruct s; cbn [seg_rules] in H; [contradiction|]. destruct (declared c n); [contradiction | destruct H as [H|[]]; subst; reflexivity]. Qed.

Lemma check_expr_rules : forall c e, all_in (fun r => expr_rule r = true) (check_expr c e).
Proof.
  intros c e. induction e using expr_ind'; cbn [check_expr].
  - apply all_in_nil. - apply all_in_nil.
  - apply all_in_flat_map. apply Forall_forall. intros s _. apply seg_expr_rules.
  - apply all_in_nil. - apply all_in_nil.
  - destruct (declared c n); [apply all_in_nil | apply all_in_one; reflexivity].
  - repeat (apply all_in_app; split); try assumption. intros r Hr. apply tbl_is_expr. apply (tbl_tm _ _ Hr).
  - apply all_in_app; split; [assumption|]. intros r Hr. apply tbl_is_expr. apply (tbl_tm _ _ Hr).
  - apply all_in_flat_map. exact H.
  - repeat (apply all_in_app; split); try assumption; intros r Hr; apply tbl_is_expr; apply (tbl_tm _ _ Hr).
  - assumption.
  - apply all_in_app. split; [|apply all_in_flat_map; exact H].
    destruct e; try exact IHe.
    + apply fn_call_expr_rules.
    + cbn [check_expr] in IHe. apply all_in_app. split; [exact IHe|].
      intros r Hr. apply tbl_is_expr. apply (tbl_member_call _ _ _ _ _ _ Hr).
Qed.

(* name rules of an expression <-> the declarative reading *)
Lemma arity_rule_tbl : forall n w, all_in tbl (arity_rule n w) <-> n = w.
Proof.
  intros n w. unfold arity_rule. destruct (Nat.eqb n w) eqn:E.
  - apply Nat.eqb_eq in E. split; [intros _; exact E | intros _; apply all_in_nil].
  - apply Nat.eqb_neq in E. split; [|intro; contradiction].
    intro H. specialize (H ArityMismatch (or_introl eq_refl)). discriminate.
Qed.

Lemma fn_call_wf : forall c F f a0 n, (forall g, Fc c g = F g) ->
  (all_in tbl (fn_call_rules c f a0 n) <-> call_wf F f n).
Proof.
  intros c F f a0 n HF. unfold fn_call_rules, call_wf. destruct (global_lookup f) as [[ar t]|].
  - rewrite all_in_app, arity_rule_tbl. split; [tauto|]. intro H. split; [exact H|].
    destruct (bytes_eqb f n_command); [|apply all_in_nil]. destruct a0; [apply tbl_expect | apply all_in_nil].
  - rewrite <- HF. unfold Fc. destruct (lookup_fun (cx_funs c) f) as [g|]; cbn [option_map].
    + rewrite arity_rule_tbl. split; [intro; subst; reflexivity | intro H; inversion H; reflexivity].
    + split; [|discriminate]. intro H. specialize (H UndeclaredFunction (or_introl eq_refl)). discriminate.
Qed.

Lemma check_expr_wf : forall c (D : name -> Prop) F,
  (forall x, declared c x = true <-> D x) -> (forall g, Fc c g = F g) ->
  forall e, all_in tbl (check_expr c e) <-> wf_expr D F e.
Proof.
  intros c D F HD HF e. induction e using expr_ind'; cbn [check_expr wf_expr].
  - split; [intros _; exact I | intros _; apply all_in_nil].
  - split; [intros _; exact I | intros _; apply all_in_nil].
  - rewrite all_in_flat_map, Forall_forall. split.
    + intros H x l Hin. specialize (H _ Hin). cbn [seg_rules] in H. apply HD.
      destruct (declared c x); [reflexivity|]. specialize (H UndeclaredVar (or_introl eq_refl)). discriminate.
    + intros H s Hs. destruct s as [t | x l]; cbn [seg_rules]; [apply all_in_nil|].
      apply H in Hs. apply HD in Hs. rewrite Hs. apply all_in_nil.
  - split; [intros _; exact I | intros _; apply all_in_nil].
  - split; [intros _; exact I | intros _; apply all_in_nil].
  - rewrite <- HD. destruct (declared c n); [split; [reflexivity | intros _; apply all_in_nil]|].
    split; [|discriminate]. intro H. specialize (H UndeclaredVar (or_introl eq_refl)). discriminate.
  - rewrite !all_in_app, IHe1, IHe2. split; [tauto|]. intros [A B]. split; [exact A|]. split; [exact B | apply tbl_tm].
  - rewrite all_in_app, IHe. split; [tauto|]. intro A. split; [exact A | apply tbl_tm].
  - rewrite all_in_flat_map. induction H as [|a es Ha Hes IHes].
    + split; [intros _; exact I | constructor].
    + split.
      * intro Hf. inversion Hf as [|? ? H1 H2]; subst. split; [apply Ha; exact H1 | apply IHes; exact H2].
      * intros [H1 H2]. constructor; [apply Ha; exact H1 | apply IHes; exact H2].
  - rewrite !all_in_app, IHe1, IHe2. split; [tauto|]. intros [A B].
    split; [exact A|]. split; [exact B|]. split; apply tbl_tm.
  - exact IHe.
  - rewrite all_in_app. rewrite all_in_flat_map.
    assert (Hargs : Forall (fun a => all_in tbl (check_expr c a)) args <->
                    (fix all (l : list expr) : Prop := match l with [] => True | a :: r => wf_expr D F a /\ all r end) args).
    { induction H as [|a es Ha Hes IHes].
      - split; [intros _; exact I | constructor].
      - split.
        + intro Hf. inversion Hf as [|? ? H1 H2]; subst. split; [apply Ha; exact H1 | apply IHes; exact H2].
        + intros [H1 H2]. constructor; [apply Ha; exact H1 | apply IHes; exact H2]. }
    rewrite Hargs. clear Hargs H.
    assert (Hc : all_in tbl (match e with
                   | EVar f _ => fn_call_rules c f (match args with a :: _ => Some (infer c a) | [] => None end) (length args)
                   | EMember o f => check_expr c o ++ member_call_rules c o f (match args with a :: _ => Some (infer c a) | [] => None end) (length args)
                   | _ => check_expr c e end)
                 <-> match e with
                     | EVar f _ => call_wf F f (length args)
                     | EMember o _ => wf_expr D F o
                     | _ => wf_expr D F e end).
    { destruct e; try exact IHe.
      - apply fn_call_wf. exact HF.
      - cbn [check_expr wf_expr] in IHe. rewrite all_in_app, IHe. split; [tauto|].
        intro A. split; [exact A | apply tbl_member_call]. }
    rewrite Hc. tauto.
Qed.

(* ================= statements: the rules at a position, read declaratively ================= *)
Lemma reserved_rule_tbl : forall n, all_in tbl (reserved_rule n) <-> reserved n = false.
Proof.
  intro n. unfold reserved_rule. destruct (reserved n).
  - split; [|discriminate]. intro H. specialize (H ReservedName (or_introl eq_refl)). discriminate.
  - split; [reflexivity | intros _; apply all_in_nil].
Qed.

Lemma param_rules_tbl : forall ps earlier,
  all_in tbl (param_rules earlier ps) <->
  (forall p, In p ps -> reserved p = false) /\ NoDup ps /\ (forall p, In p ps -> ~ In p earlier).
Proof.
  induction ps as [|p ps IH]; intro earlier; cbn [param_rules].
  - split; [intros _; split; [intros ? []|]; split; [constructor | intros ? []] | intros _; apply all_in_nil].
  - rewrite !all_in_app, reserved_rule_tbl, IH. split.
    + intros [Hr [Hd [Hr' [Hnd Hne]]]].
      assert (Hp : ~ In p earlier).
      { destruct (mem_name p earlier) eqn:E; [|apply mem_name_not_In; exact E].
        specialize (Hd DuplicateParameter (or_introl eq_refl)). discriminate. }
      split; [intros q [E|Hq]; [subst; exact Hr | apply Hr'; exact Hq]|].
      split.
      * constructor; [|exact Hnd]. intro Hin. apply (Hne p Hin). left. reflexivity.
      * intros q [E|Hq]; [subst; exact Hp|]. intro Hc. apply (Hne q Hq). right. exact Hc.
    + intros [Hr [Hnd Hne]]. inversion Hnd as [|? ? Hnp Hnd']; subst.
      split; [apply Hr; left; reflexivity|]. split.
      * assert (E : mem_name p earlier = false) by (apply mem_name_not_In; apply Hne; left; reflexivity).
        rewrite E. apply all_in_nil.
      * split; [intros q Hq; apply Hr; right; exact Hq|]. split; [exact Hnd'|].
        intros q Hq [E|Hc]; [subst; contradiction | apply (Hne q (or_intror Hq) Hc)].
Qed.

Lemma params_ok_tbl : forall ps, all_in tbl (param_rules [] ps) <-> params_ok ps.
Proof.
  intro ps. rewrite param_rules_tbl. unfold params_ok. split; [tauto|].
  intros [A B]. split; [exact B|]. split; [exact A | intros p _ []].
Qed.

Lemma local_rules_hold : forall k s,
  all_in tbl (local_rules (state_at k s cx0) (seen_at k) s) <-> stmt_rules_hold k s.
Proof.
  intros k s.
  assert (HE : forall e, all_in tbl (check_expr (state_at k s cx0) e)
                         <-> wf_expr (declared_before k) (visible_arity k s) e).
  { apply check_expr_wf; [intro x; apply declared_at | intro g; apply Fc_at]. }
  destruct s as [sid n ps body fid ls ll | sid n l e | sid n l e | sid t e | sid cnd t f | sid cnd body
                | sid body | sid eo | sid | sid | sid e]; cbn [local_rules stmt_rules_hold].
  - rewrite all_in_app, reserved_rule_tbl. destruct (mem_name n (seen_at k)) eqn:Em.
    + apply mem_name_In in Em. apply seen_at_In in Em. split; [|tauto].
      intros [_ H]. specialize (H DuplicateFunction (or_introl eq_refl)). discriminate.
    + apply mem_name_not_In in Em. rewrite seen_at_In in Em. rewrite params_ok_tbl. tauto.
  - rewrite all_in_app, reserved_rule_tbl, HE. tauto.
  - rewrite all_in_app, HE. rewrite <- declared_at with (s := SSet sid n l e).
    destruct (declared (state_at k (SSet sid n l e) cx0) n).
    + split; [tauto|]. intros [_ H]. split; [apply all_in_nil | exact H].
    + split; [|intros [H _]; discriminate]. intros [H _]. specialize (H AssignUndeclared (or_introl eq_refl)). discriminate.
  - rewrite all_in_app, !HE. tauto.
  - rewrite all_in_app, HE. split; [tauto|]. intro H. split; [exact H | apply tbl_cond].
  - rewrite all_in_app, HE. split; [tauto|]. intro H. split; [exact H | apply tbl_cond].
  - split; [intros _; exact I | intros _; apply all_in_nil].
  - rewrite all_in_app. rewrite state_at_fn. cbn [cx0 cx_fn].
    assert (Ho : all_in tbl (match eo with Some e => check_expr (state_at k (SRet sid eo) cx0) e | None => [] end)
                 <-> match eo with Some e => wf_expr (declared_before k) (visible_arity k (SRet sid eo)) e | None => True end).
    { destruct eo; [apply HE | split; [intros _; exact I | intros _; apply all_in_nil]]. }
    rewrite Ho. destruct (fn_at k false).
    + split; [tauto|]. intros [_ H]. split; [apply all_in_nil | exact H].
    + split; [|intros [H _]; discriminate]. intros [H _]. specialize (H ReturnOutsideFunction (or_introl eq_refl)). discriminate.
  - rewrite state_at_loop. cbn [cx0 cx_loop]. destruct (loop_at k false).
    + split; [reflexivity | intros _; apply all_in_nil].
    + split; [|discriminate]. intro H. specialize (H BreakOutsideLoop (or_introl eq_refl)). discriminate.
  - rewrite state_at_loop. cbn [cx0 cx_loop]. destruct (loop_at k false).
    + split; [reflexivity | intros _; apply all_in_nil].
    + split; [|discriminate]. intro H. specialize (H NextOutsideLoop (or_introl eq_refl)). discriminate.
  - apply HE.
Qed.

(* ================= (b) accept <-> every rule holds at every position ================= *)
Lemma nil_iff_no_elem : forall (A : Type) (l : list A), l = [] <-> forall x, ~ In x l.
Proof.
  intros A l. split; [intros -> x []|]. intro H. destruct l as [|a l]; [reflexivity|].
  exfalso. apply (H a). left. reflexivity.
Qed.

Lemma accept_iff_rules : forall p,
  check p = [] <-> forall k s, p = plug k s -> stmt_rules_hold k s /\ typing_ok k s.
Proof.
  intro p. split.
  - intros Hc k s Ep.
    assert (Hnone : forall r, ~ In r (local_rules (state_at k s cx0) (seen_at k) s)).
    { intros r Hr. destruct (engine_in k cx0 s r Hr) as [H|H]; subst p; unfold check in Hc; rewrite Hc in H.
      - exact H.
      - cbn in H. exact H. }
    split.
    + apply local_rules_hold. intros r Hr. exfalso. exact (Hnone r Hr).
    + intros r Hr. exfalso. exact (Hnone r Hr).
  - intro H. apply nil_iff_no_elem. intros [r pth] Hin. unfold check in Hin.
    destruct (engine_out p cx0 r pth Hin) as [k [s [Ep [_ [_ Hr]]]]].
    destruct (H k s Ep) as [Hs Ht]. apply local_rules_hold in Hs.
    specialize (Hs r Hr). specialize (Ht r Hr). unfold tbl in Hs. congruence.
Qed.

(* a program without violations has no duplicate definition on any path: every context is regular *)
Lemma accepted_regular : forall p, check p = [] -> forall k s, p = plug k s -> regular k.
Proof.
  intros p Hc. 
  assert (G : forall k c s, check_block c (plug k s) = [] -> regular k).
  { induction k as [pre post | pre f k IH post]; intros c s H; cbn [regular]; [exact I|].
    cbn [plug] in H. rewrite check_block_unfold in H.
    set (blk := pre ++ wrap f (plug k s) :: post) in *.
    assert (Hx : check_stmt (fold_after (enter_block c blk) pre) (seen_of pre []) (wrap f (plug k s)) = []).
    { apply nil_iff_no_elem. intros v Hv.
      pose proof (check_stmts_mid pre (wrap f (plug k s)) post (enter_block c blk) [] 0%nat v Hv) as Hm.
      fold blk in Hm. rewrite H in Hm. exact Hm. }
    rewrite check_stmt_unfold in Hx. apply app_eq_nil in Hx. destruct Hx as [Hl Hn].
    destruct f as [sid cnd els | sid cnd thn | sid cnd | sid | sid n ps fid ls ll]; cbn [wrap nested] in Hn.
    - split; [exact I|]. apply app_eq_nil in Hn. destruct Hn as [Hn _]. apply map_eq_nil in Hn. exact (IH _ _ Hn).
    - split; [exact I|]. apply app_eq_nil in Hn. destruct Hn as [_ Hn]. apply map_eq_nil in Hn. exact (IH _ _ Hn).
    - split; [exact I|]. apply map_eq_nil in Hn. exact (IH _ _ Hn).
    - split; [exact I|]. apply map_eq_nil in Hn. exact (IH _ _ Hn).
    - cbn [wrap local_rules] in Hl. apply map_eq_nil in Hl. apply app_eq_nil in Hl. destruct Hl as [_ Hl].
      destruct (mem_name n (seen_of pre [])) eqn:Em; [discriminate|].
      split.
      + apply mem_name_not_In in Em. intro Hc'. apply Em. apply seen_of_In. left. exact Hc'.
      + apply map_eq_nil in Hn. exact (IH _ _ Hn). }
  intros k s Ep. subst p. exact (G k cx0 s Hc).
Qed.

(* ================= (c) every report is located at a statement that breaks that very rule ================= *)
Lemma in_reserved_rule : forall r n, In r (reserved_rule n) -> r = ReservedName /\ reserved n = true.
Proof. intros r n H. unfold reserved_rule in H. destruct (reserved n); [destruct H as [H|[]]; auto | contradiction]. Qed.

Lemma in_param_rules : forall r ps earlier, In r (param_rules earlier ps) ->
  (r = ReservedName /\ exists p, In p ps /\ reserved p = true) \/
  (r = DuplicateParameter /\ (~ NoDup ps \/ exists p, In p ps /\ In p earlier)).
Proof.
  induction ps as [|p ps IH]; intros earlier H; cbn [param_rules] in H; [contradiction|].
  apply in_app_or in H. destruct H as [H|H].
  - apply in_reserved_rule in H. destruct H as [E Hr]. left. split; [exact E|]. exists p. split; [left; reflexivity | exact Hr].
  - apply in_app_or in H. destruct H as [H|H].
    + destruct (mem_name p earlier) eqn:Em; [|contradiction]. destruct H as [H|[]]. right. split; [auto|].
      right. exists p. split; [left; reflexivity | apply mem_name_In; exact Em].
    + apply IH in H. destruct H as [[E [q [Hq Hr]]] | [E Hd]].
      * left. split; [exact E|]. exists q. split; [right; exact Hq | exact Hr].
      * right. split; [exact E|]. destruct Hd as [Hd | [q [Hq [Hqe | Hqe]]]].
        -- left. intro Hnd. inversion Hnd; subst. contradiction.
        -- subst q. left. intro Hnd. inversion Hnd; subst. contradiction.
        -- right. exists q. split; [right; exact Hq | exact Hqe].
Qed.

Lemma in_cond_rules : forall r c e, In r (cond_rules c e) -> table_rule r = true.
Proof. intros r c e H. exact (tbl_cond c e r H). Qed.

Lemma violation_cause : forall k s r,
  In r (local_rules (state_at k s cx0) (seen_at k) s) -> broken r k s.
Proof.
  intros k s r H.
  assert (HE : forall e, all_in tbl (check_expr (state_at k s cx0) e)
                         <-> wf_expr (declared_before k) (visible_arity k s) e).
  { apply check_expr_wf; [intro x; apply declared_at | intro g; apply Fc_at]. }
  (* a rule reported by an own expression *)
  assert (FromExpr : forall e, In e (own_exprs s) -> In r (check_expr (state_at k s cx0) e) -> broken r k s).
  { intros e He Hr. pose proof (check_expr_rules _ _ _ Hr) as Hx.
    assert (Hnw : table_rule r = false -> ~ wf_expr (declared_before k) (visible_arity k s) e).
    { intros Ht Hw. apply HE in Hw. specialize (Hw r Hr). unfold tbl in Hw. congruence. }
    destruct r; cbn [expr_rule] in Hx; try discriminate; cbn [broken].
    - exists e. split; [exact He|]. split; [exact Hr | apply Hnw; reflexivity].
    - exists e. split; [exact He|]. split; [exact Hr | apply Hnw; reflexivity].
    - exists e. split; [exact He|]. split; [exact Hr | apply Hnw; reflexivity].
    - exact H. - exact H. - exact H. }
  assert (FromTbl : table_rule r = true -> broken r k s).
  { intro Ht. destruct r; cbn [table_rule] in Ht; try discriminate; cbn [broken]; exact H. }
  destruct s as [sid n ps body fid ls ll | sid n l e | sid n l e | sid t e | sid cnd t f | sid cnd body
                | sid body | sid eo | sid | sid | sid e]; cbn [local_rules] in H.
  - apply in_app_or in H. destruct H as [H|H].
    + apply in_reserved_rule in H. destruct H as [E Hr]. subst r. cbn [broken]. right.
      exists sid, n, ps, body, fid, ls, ll. split; [reflexivity | left; exact Hr].
    + destruct (mem_name n (seen_at k)) eqn:Em.
      * destruct H as [H|[]]. subst r. cbn [broken]. exists sid, n, ps, body, fid, ls, ll. split; [reflexivity|].
        apply seen_at_In. apply mem_name_In. exact Em.
      * apply in_param_rules in H. destruct H as [[E [p [Hp Hr]]] | [E Hd]]; subst r; cbn [broken].
        -- right. exists sid, n, ps, body, fid, ls, ll. split; [reflexivity | right; exists p; split; assumption].
        -- exists sid, n, ps, body, fid, ls, ll. split; [reflexivity|].
           destruct Hd as [Hd | [p [_ []]]]. exact Hd.
  - apply in_app_or in H. destruct H as [H|H].
    + apply in_reserved_rule in H. destruct H as [E Hr]. subst r. cbn [broken]. left.
      exists sid, n, l, e. split; [reflexivity | exact Hr].
    + apply (FromExpr e); [left; reflexivity | exact H].
  - apply in_app_or in H. destruct H as [H|H].
    + destruct (declared (state_at k (SSet sid n l e) cx0) n) eqn:Ed; [contradiction|].
      destruct H as [H|[]]. subst r. cbn [broken]. exists sid, n, l, e. split; [reflexivity|].
      intro Hd. apply (declared_at k (SSet sid n l e)) in Hd. congruence.
    + apply (FromExpr e); [left; reflexivity | exact H].
  - apply in_app_or in H. destruct H as [H|H].
    + apply (FromExpr t); [left; reflexivity | exact H].
    + apply (FromExpr e); [right; left; reflexivity | exact H].
  - apply in_app_or in H. destruct H as [H|H].
    + apply (FromExpr cnd); [left; reflexivity | exact H].
    + apply FromTbl. exact (in_cond_rules _ _ _ H).
  - apply in_app_or in H. destruct H as [H|H].
    + apply (FromExpr cnd); [left; reflexivity | exact H].
    + apply FromTbl. exact (in_cond_rules _ _ _ H).
  - contradiction.
  - apply in_app_or in H. destruct H as [H|H].
    + rewrite state_at_fn in H. cbn [cx0 cx_fn] in H. destruct (fn_at k false) eqn:Ef; [contradiction|].
      destruct H as [H|[]]. subst r. cbn [broken]. split; [exists sid, eo; reflexivity | exact Ef].
    + destruct eo as [e|]; [|contradiction]. apply (FromExpr e); [left; reflexivity | exact H].
  - rewrite state_at_loop in H. cbn [cx0 cx_loop] in H. destruct (loop_at k false) eqn:El; [contradiction|].
    destruct H as [H|[]]. subst r. cbn [broken]. split; [exists sid; reflexivity | exact El].
  - rewrite state_at_loop in H. cbn [cx0 cx_loop] in H. destruct (loop_at k false) eqn:El; [contradiction|].
    destruct H as [H|[]]. subst r. cbn [broken]. split; [exists sid; reflexivity | exact El].
  - apply (FromExpr e); [left; reflexivity | exact H].
Qed.

Lemma category_sound_lemma : forall p r pth, In (r, pth) (check p) ->
  exists k s, p = plug k s /\ pth = path_of k /\ regular k /\ broken r k s.
Proof.
  intros p r pth H. unfold check in H.
  destruct (engine_out p cx0 r pth H) as [k [s [Ep [Epth [Hreg Hr]]]]].
  exists k, s. split; [exact Ep|]. split; [exact Epth|]. split; [exact Hreg|]. apply violation_cause. exact Hr.
Qed.

(* ================= (a) context independence, rule by rule ================= *)
Lemma report : forall k s r,
  In r (local_rules (state_at k s cx0) (seen_at k) s) ->
  In r (rules (check (plug k s))) \/ In DuplicateFunction (rules (check (plug k s))).
Proof.
  intros k s r H. destruct (engine_in k cx0 s r H) as [H1|H1]; [left | right; exact H1].
  apply in_rules. exists (path_of k). exact H1.
Qed.

(* in a regular context the report sits exactly at the position of the statement *)
Lemma engine_in_reg : forall k c s r, regular k ->
  In r (local_rules (state_at k s c) (seen_at k) s) ->
  In (r, path_of k) (check_block c (plug k s)).
Proof.
  induction k as [pre post | pre f k IH post]; intros c s r Hreg H.
  - cbn [plug path_of state_at seen_at hole_pre] in *. rewrite check_block_unfold.
    pose proof (check_stmts_mid pre s post (enter_block c (pre ++ s :: post)) [] 0%nat (r, [])) as Hmid.
    cbn [Nat.add] in Hmid. apply Hmid. rewrite check_stmt_unfold. apply in_or_app. left.
    apply in_map_here. split; [reflexivity | exact H].
  - cbn [plug path_of state_at regular] in *. destruct Hreg as [Hf Hreg]. rewrite check_block_unfold.
    set (blk := pre ++ wrap f (plug k s) :: post) in *.
    set (ci := fold_after (enter_block c blk) pre) in *.
    assert (Hseen : seen_at (CIn pre f k post) = seen_at k) by reflexivity. rewrite Hseen in H.
    specialize (IH (enter_frame f ci) s r Hreg H).
    pose proof (check_stmts_mid pre (wrap f (plug k s)) post (enter_block c blk) [] 0%nat
                  (r, frame_tag f :: path_of k)) as Hmid.
    cbn [Nat.add] in Hmid. apply Hmid. fold ci. rewrite check_stmt_unfold. apply in_or_app. right.
    destruct f as [sid cnd els | sid cnd thn | sid cnd | sid | sid n ps fid ls ll];
      cbn [wrap nested frame_tag enter_frame] in *.
    + apply in_or_app. left. apply in_map_pfx. exact IH.
    + apply in_or_app. right. apply in_map_pfx. exact IH.
    + apply in_map_pfx. exact IH.
    + apply in_map_pfx. exact IH.
    + assert (Em : mem_name n (seen_of pre []) = false).
      { apply mem_name_not_In. intro Hc. apply seen_of_In in Hc. destruct Hc as [Hc|[]]. contradiction. }
      rewrite Em. apply in_map_pfx. exact IH.
Qed.
Lemma report_reg : forall k s r, regular k ->
  In r (local_rules (state_at k s cx0) (seen_at k) s) -> In (r, path_of k) (check (plug k s)).
Proof. intros k s r Hreg H. exact (engine_in_reg k cx0 s r Hreg H). Qed.

(* ---- control flow ---- *)
Lemma break_local : forall k sid, loop_at k false = false ->
  In BreakOutsideLoop (local_rules (state_at k (SBreak sid) cx0) (seen_at k) (SBreak sid)).
Proof. intros k sid H. cbn [local_rules]. rewrite state_at_loop. cbn [cx0 cx_loop]. rewrite H. left. reflexivity. Qed.
Lemma next_local : forall k sid, loop_at k false = false ->
  In NextOutsideLoop (local_rules (state_at k (SNext sid) cx0) (seen_at k) (SNext sid)).
Proof. intros k sid H. cbn [local_rules]. rewrite state_at_loop. cbn [cx0 cx_loop]. rewrite H. left. reflexivity. Qed.
Lemma return_local : forall k sid eo, fn_at k false = false ->
  In ReturnOutsideFunction (local_rules (state_at k (SRet sid eo) cx0) (seen_at k) (SRet sid eo)).
Proof.
  intros k sid eo H. cbn [local_rules]. rewrite state_at_fn. cbn [cx0 cx_fn]. rewrite H.
  apply in_or_app. left. left. reflexivity.
Qed.

(* ---- expression positions ---- *)
Lemma check_expr_plugE : forall c X a r, In r (check_expr c a) -> In r (check_expr c (plugE X a)).
Proof.
  intros c X a r H. induction X; cbn [plugE check_expr].
  - exact H.
  - apply in_or_app. left. exact IHX.
  - apply in_or_app. right. apply in_or_app. left. exact IHX.
  - apply in_or_app. left. exact IHX.
  - apply in_flat_map. exists (plugE X a). split; [apply in_or_app; right; left; reflexivity | exact IHX].
  - apply in_or_app. left. exact IHX.
  - apply in_or_app. right. apply in_or_app. left. exact IHX.
  - exact IHX.
  - apply in_or_app. left. apply in_or_app. left. exact IHX.
  - apply in_or_app. right. apply in_flat_map. exists (plugE X a).
    split; [apply in_or_app; right; left; reflexivity | exact IHX].
Qed.

Lemma local_rules_plugS : forall c seen h e r, In r (check_expr c e) -> In r (local_rules c seen (plugS h e)).
Proof.
  intros c seen h e r H. destruct h; cbn [plugS local_rules];
    try (apply in_or_app; right; exact H); try (apply in_or_app; left; exact H); try exact H.
Qed.


Lemma var_atom_undeclared : forall c x a, var_atom x a -> declared c x = false ->
  In UndeclaredVar (check_expr c a).
Proof.
  intros c x a Ha Hd. destruct Ha as [l | segs l Hin]; cbn [check_expr].
  - rewrite Hd. left. reflexivity.
  - apply in_flat_map. exists (SegVar x l). split; [exact Hin|]. cbn [seg_rules]. rewrite Hd. left. reflexivity.
Qed.

Lemma not_declared_at : forall k s x, ~ declared_before k x -> declared (state_at k s cx0) x = false.
Proof.
  intros k s x H. destruct (declared (state_at k s cx0) x) eqn:E; [|reflexivity].
  apply declared_at in E. contradiction.
Qed.

Lemma undeclared_var_local : forall k h X x a, var_atom x a -> ~ declared_before k x ->
  In UndeclaredVar (local_rules (state_at k (plugS h (plugE X a)) cx0) (seen_at k) (plugS h (plugE X a))).
Proof.
  intros k h X x a Ha Hd. apply local_rules_plugS. apply check_expr_plugE.
  apply (var_atom_undeclared _ x); [exact Ha | apply not_declared_at; exact Hd].
Qed.

Lemma assign_undeclared_local : forall k sid x l e, ~ declared_before k x ->
  In AssignUndeclared (local_rules (state_at k (SSet sid x l e) cx0) (seen_at k) (SSet sid x l e)).
Proof.
  intros k sid x l e Hd. cbn [local_rules]. rewrite (not_declared_at k _ x Hd).
  apply in_or_app. left. left. reflexivity.
Qed.

(* ---- functions ---- *)
Lemma first_def_none : forall f b, first_def f b = None <-> ~ defines f b.
Proof.
  intros f b. unfold defines. induction b as [|s b IH]; cbn [first_def].
  - split; [intros _ [sid [ps [body [fid [ls [ll []]]]]]] | reflexivity].
  - assert (Hskip : (forall sid n ps body fid ls ll, s <> SFun sid n ps body fid ls ll) ->
                    ((exists sid ps body fid ls ll, In (SFun sid f ps body fid ls ll) (s :: b)) <->
                     (exists sid ps body fid ls ll, In (SFun sid f ps body fid ls ll) b))).
    { intro Hn. split.
      - intros [sid [ps [body [fid [ls [ll [H|H]]]]]]]; [exfalso; exact (Hn _ _ _ _ _ _ _ H) | eauto 10].
      - intros [sid [ps [body [fid [ls [ll H]]]]]]. exists sid, ps, body, fid, ls, ll. right. exact H. }
    destruct s as [sid n ps body fid ls ll | | | | | | | | | | ];
      try (rewrite IH; rewrite Hskip; [tauto | intros; discriminate]).
    destruct (bytes_eqb n f) eqn:E.
    + apply bytes_eqb_eq in E. subst n. split; [discriminate|]. intro H. exfalso. apply H.
      exists sid, ps, body, fid, ls, ll. left. reflexivity.
    + apply bytes_eqb_neq in E. rewrite IH. split.
      * intros H [sid' [ps' [body' [fid' [ls' [ll' [Hc|Hc]]]]]]]; [inversion Hc; congruence | apply H; eauto 10].
      * intros H [sid' [ps' [body' [fid' [ls' [ll' Hc]]]]]]. apply H. exists sid', ps', body', fid', ls', ll'. right. exact Hc.
Qed.

Lemma visible_arity_none : forall k s f, visible_arity k s f = None <-> ~ fn_visible k s f.
Proof.
  induction k as [pre post | pre fr k IH post]; intros s f; cbn [visible_arity fn_visible].
  - apply first_def_none.
  - destruct (visible_arity k s f) eqn:E.
    + split; [discriminate|]. intro H. destruct (IH s f) as [_ B].
      rewrite B in E; [discriminate|]. intro HV. apply H. right. exact HV.
    + rewrite first_def_none. destruct (IH s f) as [A _]. specialize (A E). tauto.
Qed.

Lemma call_in_check_expr : forall c f lf args t r,
  In r (fn_call_rules c f (match args with a :: _ => Some (infer c a) | [] => None end) (length args)) ->
  In r (check_expr c (ECall (EVar f lf) args t)).
Proof. intros. cbn [check_expr]. apply in_or_app. left. assumption. Qed.

Lemma Fc_none : forall c f, Fc c f = None -> lookup_fun (cx_funs c) f = None.
Proof. intros c f H. unfold Fc in H. destruct (lookup_fun (cx_funs c) f); [discriminate | reflexivity]. Qed.
Lemma Fc_some : forall c f n, Fc c f = Some n -> exists g, lookup_fun (cx_funs c) f = Some g /\ fg_arity g = n.
Proof.
  intros c f n H. unfold Fc in H. destruct (lookup_fun (cx_funs c) f) as [g|]; [|discriminate].
  cbn in H. inversion H. exists g. split; reflexivity.
Qed.

Lemma undeclared_fn_local : forall k h X f lf args t,
  global_lookup f = None ->
  ~ fn_visible k (plugS h (plugE X (ECall (EVar f lf) args t))) f ->
  In UndeclaredFunction
     (local_rules (state_at k (plugS h (plugE X (ECall (EVar f lf) args t))) cx0) (seen_at k)
                  (plugS h (plugE X (ECall (EVar f lf) args t)))).
Proof.
  intros k h X f lf args t Hg Hv. apply local_rules_plugS. apply check_expr_plugE. apply call_in_check_expr.
  unfold fn_call_rules. rewrite Hg. apply visible_arity_none in Hv. rewrite <- Fc_at in Hv.
  rewrite (Fc_none _ _ Hv). left. reflexivity.
Qed.

Lemma arity_user_local : forall k h X f lf args t n,
  global_lookup f = None ->
  visible_arity k (plugS h (plugE X (ECall (EVar f lf) args t))) f = Some n ->
  length args <> n ->
  In ArityMismatch
     (local_rules (state_at k (plugS h (plugE X (ECall (EVar f lf) args t))) cx0) (seen_at k)
                  (plugS h (plugE X (ECall (EVar f lf) args t)))).
Proof.
  intros k h X f lf args t n Hg Hv Hn. apply local_rules_plugS. apply check_expr_plugE. apply call_in_check_expr.
  unfold fn_call_rules. rewrite Hg. rewrite <- Fc_at in Hv. destruct (Fc_some _ _ _ Hv) as [g [Hl Ha]].
  rewrite Hl. unfold arity_rule. rewrite Ha. apply Nat.eqb_neq in Hn. rewrite Hn. left. reflexivity.
Qed.

Lemma arity_builtin_local : forall c seen h X f lf args t ar rt,
  global_lookup f = Some (ar, rt) -> length args <> ar ->
  In ArityMismatch (local_rules c seen (plugS h (plugE X (ECall (EVar f lf) args t)))).
Proof.
  intros c seen h X f lf args t ar rt Hg Hn. apply local_rules_plugS. apply check_expr_plugE. apply call_in_check_expr.
  unfold fn_call_rules. rewrite Hg. apply in_or_app. left. unfold arity_rule.
  apply Nat.eqb_neq in Hn. rewrite Hn. left. reflexivity.
Qed.

(* ---- definitions ---- *)
Lemma dup_fun_local : forall c k sid n ps body fid ls ll, In n (fun_names (hole_pre k)) ->
  In DuplicateFunction (local_rules c (seen_at k) (SFun sid n ps body fid ls ll)).
Proof.
  intros c k sid n ps body fid ls ll H. cbn [local_rules]. apply in_or_app. right.
  assert (E : mem_name n (seen_at k) = true) by (apply mem_name_In; apply seen_at_In; exact H).
  rewrite E. left. reflexivity.
Qed.

Lemma dup_param_in : forall ps earlier,
  (~ NoDup ps \/ exists p, In p ps /\ In p earlier) -> In DuplicateParameter (param_rules earlier ps).
Proof.
  induction ps as [|p ps IH]; intros earlier H; cbn [param_rules].
  - destruct H as [H | [p [[] _]]]. exfalso. apply H. constructor.
  - apply in_or_app. right. destruct (mem_name p earlier) eqn:Em; [left; reflexivity|].
    cbn [app]. apply IH. apply mem_name_not_In in Em. destruct H as [H | [q [[E|Hq] Hqe]]].
    + destruct (mem_name p ps) eqn:Ep.
      * right. exists p. split; [apply mem_name_In; exact Ep | left; reflexivity].
      * left. intro Hnd. apply H. constructor; [apply mem_name_not_In; exact Ep | exact Hnd].
    + subst q. contradiction.
    + right. exists q. split; [exact Hq | right; exact Hqe].
Qed.

Lemma dup_param_local : forall c seen sid n ps body fid ls ll, ~ NoDup ps ->
  In DuplicateParameter (local_rules c seen (SFun sid n ps body fid ls ll)) \/
  In DuplicateFunction (local_rules c seen (SFun sid n ps body fid ls ll)).
Proof.
  intros c seen sid n ps body fid ls ll H. cbn [local_rules]. destruct (mem_name n seen).
  - right. apply in_or_app. right. left. reflexivity.
  - left. apply in_or_app. right. apply dup_param_in. left. exact H.
Qed.

Lemma reserved_in : forall n, reserved n = true -> In ReservedName (reserved_rule n).
Proof. intros n H. unfold reserved_rule. rewrite H. left. reflexivity. Qed.

Lemma reserved_param_in : forall ps earlier p, In p ps -> reserved p = true -> In ReservedName (param_rules earlier ps).
Proof.
  induction ps as [|q ps IH]; intros earlier p Hin Hr; [contradiction|]. cbn [param_rules].
  destruct Hin as [E|Hin].
  - subst q. apply in_or_app. left. apply reserved_in. exact Hr.
  - apply in_or_app. right. apply in_or_app. right. apply (IH _ p Hin Hr).
Qed.

Lemma reserved_make_local : forall c seen sid n l e, reserved n = true ->
  In ReservedName (local_rules c seen (SMake sid n l e)).
Proof. intros. cbn [local_rules]. apply in_or_app. left. apply reserved_in. assumption. Qed.
Lemma reserved_fun_local : forall c seen sid n ps body fid ls ll, reserved n = true ->
  In ReservedName (local_rules c seen (SFun sid n ps body fid ls ll)).
Proof. intros. cbn [local_rules]. apply in_or_app. left. apply reserved_in. assumption. Qed.
Lemma reserved_param_local : forall c seen sid n ps body fid ls ll p, In p ps -> reserved p = true ->
  In ReservedName (local_rules c seen (SFun sid n ps body fid ls ll)) \/
  In DuplicateFunction (local_rules c seen (SFun sid n ps body fid ls ll)).
Proof.
  intros c seen sid n ps body fid ls ll p Hin Hr. cbn [local_rules]. destruct (mem_name n seen).
  - right. apply in_or_app. right. left. reflexivity.
  - left. apply in_or_app. right. apply (reserved_param_in _ _ p Hin Hr).
Qed.

(* ---- a position determines its context: the report of a regular position is exact ---- *)
Lemma app_eq_len : forall (A : Type) (a a' b b' : list A), length a = length a' -> a ++ b = a' ++ b' -> a = a' /\ b = b'.
Proof.
  intros A a. induction a as [|x a IH]; intros [|x' a'] b b' Hl H; cbn in *; try discriminate.
  - split; [reflexivity | exact H].
  - inversion H; subst. inversion Hl as [Hl']. destruct (IH _ _ _ Hl' H2) as [E1 E2]. subst. split; reflexivity.
Qed.

Lemma plug_path_inj : forall k k' s s', plug k s = plug k' s' -> path_of k = path_of k' -> k = k' /\ s = s'.
Proof.
  induction k as [pre post | pre f k IH post]; intros [pre' post' | pre' f' k' post'] s s' Hp Hpath;
    cbn [plug path_of] in *.
  - inversion Hpath as [Hl]. destruct (app_eq_len _ _ _ _ _ Hl Hp) as [E1 E2]. inversion E2; subst. split; reflexivity.
  - discriminate.
  - discriminate.
  - inversion Hpath as [[Hl Ht Hrest]]. destruct (app_eq_len _ _ _ _ _ Hl Hp) as [E1 E2].
    inversion E2 as [[Hw Hpost]]. subst pre' post'.
    destruct f as [sid cnd els | sid cnd thn | sid cnd | sid | sid n ps fid ls ll];
      destruct f' as [sid' cnd' els' | sid' cnd' thn' | sid' cnd' | sid' | sid' n' ps' fid' ls' ll'];
      cbn [wrap frame_tag] in Hw, Ht; try discriminate; inversion Hw; subst;
      match goal with Hb : plug k s = plug k' s' |- _ => destruct (IH _ _ _ Hb Hrest) as [Ek Es]; subst; split; reflexivity end.
Qed.

Lemma report_exact : forall k s r, regular k ->
  (In (r, path_of k) (check (plug k s)) <-> In r (local_rules (state_at k s cx0) (seen_at k) s)).
Proof.
  intros k s r Hreg. split.
  - intro H. unfold check in H. destruct (engine_out _ cx0 r _ H) as [k' [s' [Ep [Epath [_ Hr]]]]].
    destruct (plug_path_inj k k' s s' Ep Epath) as [Ek Es]. subst. exact Hr.
  - apply report_reg. exact Hreg.
Qed.

(* ================= statements of Properties/C09.v ================= *)

Lemma reported_rejected : forall r p, reported r p -> accepts p = false.
Proof.
  intros r p [H|H]; unfold accepts; destruct (check p); try reflexivity; cbn in H; contradiction.
Qed.

Lemma ctx_break : forall k sid, loop_at k false = false -> reported BreakOutsideLoop (plug k (SBreak sid)).
Proof. intros. apply report. apply break_local. assumption. Qed.
Lemma ctx_next : forall k sid, loop_at k false = false -> reported NextOutsideLoop (plug k (SNext sid)).
Proof. intros. apply report. apply next_local. assumption. Qed.
Lemma ctx_return : forall k sid eo, fn_at k false = false -> reported ReturnOutsideFunction (plug k (SRet sid eo)).
Proof. intros. apply report. apply return_local. assumption. Qed.

Lemma exact_break : forall k sid, regular k ->
  (In (BreakOutsideLoop, path_of k) (check (plug k (SBreak sid))) <-> loop_at k false = false).
Proof.
  intros k sid Hreg. rewrite report_exact by exact Hreg. cbn [local_rules]. rewrite state_at_loop. cbn [cx0 cx_loop].
  destruct (loop_at k false); split; intro H; try discriminate; try contradiction; [reflexivity | left; reflexivity].
Qed.
Lemma exact_next : forall k sid, regular k ->
  (In (NextOutsideLoop, path_of k) (check (plug k (SNext sid))) <-> loop_at k false = false).
Proof.
  intros k sid Hreg. rewrite report_exact by exact Hreg. cbn [local_rules]. rewrite state_at_loop. cbn [cx0 cx_loop].
  destruct (loop_at k false); split; intro H; try discriminate; try contradiction; [reflexivity | left; reflexivity].
Qed.
Lemma exact_return : forall k sid eo, regular k ->
  (In (ReturnOutsideFunction, path_of k) (check (plug k (SRet sid eo))) <-> fn_at k false = false).
Proof.
  intros k sid eo Hreg. rewrite report_exact by exact Hreg. split.
  - intro H. destruct (fn_at k false) eqn:E; [|reflexivity]. exfalso.
    pose proof (violation_cause _ _ _ H) as Hb. cbn [broken] in Hb. destruct Hb as [_ Hb]. congruence.
  - apply return_local.
Qed.
Lemma exact_assign : forall k sid x l e, regular k ->
  (In (AssignUndeclared, path_of k) (check (plug k (SSet sid x l e))) <-> ~ declared_before k x).
Proof.
  intros k sid x l e Hreg. rewrite report_exact by exact Hreg. split.
  - intro H. pose proof (violation_cause _ _ _ H) as Hb. cbn [broken] in Hb.
    destruct Hb as [sid' [x' [l' [e' [E Hd]]]]]. inversion E; subst. exact Hd.
  - apply assign_undeclared_local.
Qed.

Lemma function_resets_loop : forall pre sid n ps fid ls ll k post b,
  loop_at (CIn pre (FFun sid n ps fid ls ll) k post) b = loop_at k false.
Proof. reflexivity. Qed.

Lemma ctx_assign_undeclared : forall k sid x l e, ~ declared_before k x ->
  reported AssignUndeclared (plug k (SSet sid x l e)).
Proof. intros. apply report. apply assign_undeclared_local. assumption. Qed.

Lemma ctx_undeclared_var : forall k h X x a, var_atom x a -> ~ declared_before k x ->
  reported UndeclaredVar (plug k (plugS h (plugE X a))).
Proof. intros. apply report. apply (undeclared_var_local k h X x a); assumption. Qed.

Lemma ctx_undeclared_fn : forall k h X f lf args t,
  global_lookup f = None ->
  ~ fn_visible k (plugS h (plugE X (ECall (EVar f lf) args t))) f ->
  reported UndeclaredFunction (plug k (plugS h (plugE X (ECall (EVar f lf) args t)))).
Proof. intros. apply report. apply undeclared_fn_local; assumption. Qed.

Lemma ctx_arity_user : forall k h X f lf args t n,
  global_lookup f = None ->
  visible_arity k (plugS h (plugE X (ECall (EVar f lf) args t))) f = Some n ->
  length args <> n ->
  reported ArityMismatch (plug k (plugS h (plugE X (ECall (EVar f lf) args t)))).
Proof. intros. apply report. apply (arity_user_local k h X f lf args t n); assumption. Qed.

Lemma ctx_arity_builtin : forall k h X f lf args t ar rt,
  global_lookup f = Some (ar, rt) -> length args <> ar ->
  reported ArityMismatch (plug k (plugS h (plugE X (ECall (EVar f lf) args t)))).
Proof. intros. apply report. apply (arity_builtin_local _ _ h X f lf args t ar rt); assumption. Qed.

Lemma ctx_dup_fun : forall k sid n ps body fid ls ll, In n (fun_names (hole_pre k)) ->
  In DuplicateFunction (rules (check (plug k (SFun sid n ps body fid ls ll)))).
Proof.
  intros k sid n ps body fid ls ll H.
  destruct (report k (SFun sid n ps body fid ls ll) DuplicateFunction (dup_fun_local _ k sid n ps body fid ls ll H)) as [A|A]; exact A.
Qed.

Lemma ctx_dup_param : forall k sid n ps body fid ls ll, ~ NoDup ps ->
  reported DuplicateParameter (plug k (SFun sid n ps body fid ls ll)).
Proof.
  intros k sid n ps body fid ls ll H.
  destruct (dup_param_local (state_at k (SFun sid n ps body fid ls ll) cx0) (seen_at k) sid n ps body fid ls ll H) as [A|A].
  - apply report. exact A.
  - right. destruct (report _ _ _ A) as [B|B]; exact B.
Qed.

Lemma ctx_reserved_make : forall k sid n l e, reserved n = true -> reported ReservedName (plug k (SMake sid n l e)).
Proof. intros. apply report. apply reserved_make_local. assumption. Qed.
Lemma ctx_reserved_fun : forall k sid n ps body fid ls ll, reserved n = true ->
  reported ReservedName (plug k (SFun sid n ps body fid ls ll)).
Proof. intros. apply report. apply reserved_fun_local. assumption. Qed.
Lemma ctx_reserved_param : forall k sid n ps body fid ls ll p, In p ps -> reserved p = true ->
  reported ReservedName (plug k (SFun sid n ps body fid ls ll)).
Proof.
  intros k sid n ps body fid ls ll p Hin Hr.
  destruct (reserved_param_local (state_at k (SFun sid n ps body fid ls ll) cx0) (seen_at k) sid n ps body fid ls ll p Hin Hr) as [A|A].
  - apply report. exact A.
  - right. destruct (report _ _ _ A) as [B|B]; exact B.
Qed.

(* typing-table violations are context independent too (the table itself is definitional) *)
Lemma ctx_table : forall k s r, In r (local_rules (state_at k s cx0) (seen_at k) s) -> reported r (plug k s).
Proof. intros. apply report. assumption. Qed.

(* (c) the category printed for a rule *)
Lemma category_table : forall r,
  category r = match r with
               | UndeclaredVar | UndeclaredFunction | UnknownMethod => msg_UndeclaredIdentifier
               | AssignUndeclared => msg_AssignmentToUndeclared
               | ArityMismatch | MethodArity => msg_FunctionCallArity
               | BreakOutsideLoop | NextOutsideLoop | ReturnOutsideFunction => msg_UnreachableCode
               | DuplicateFunction | DuplicateParameter => msg_DuplicateIdentifier
               | ReservedName => msg_ReservedKeyword
               | TypeMismatch => msg_TypeMismatch
               end.
Proof. intro r. destruct r; reflexivity. Qed.

(* ================= the declared type of a variable ================= *)
Lemma lookup_declare_same : forall c x t, lookup_var (cx_vars (declare c x t)) x = Some t.
Proof.
  intros c x t. unfold declare. destruct (cx_vars c) as [|s r]; cbn [cx_vars lookup_var].
  - cbn [scope_find]. rewrite bytes_eqb_refl. reflexivity.
  - rewrite scope_find_set, bytes_eqb_refl. reflexivity.
Qed.
Lemma lookup_declare_other : forall c x t y, x <> y ->
  lookup_var (cx_vars (declare c x t)) y = lookup_var (cx_vars c) y.
Proof.
  intros c x t y H. apply bytes_eqb_neq in H. unfold declare. destruct (cx_vars c) as [|s r]; cbn [cx_vars lookup_var].
  - cbn [scope_find]. rewrite H. reflexivity.
  - rewrite scope_find_set, H. reflexivity.
Qed.
(* after `make x get e` the type of x is the one of this initialiser, whatever x was before *)
Lemma make_retypes : forall c sid x l e,
  lookup_var (cx_vars (after c (SMake sid x l e))) x
  = Some (match infer c e with Some t => t | None => TDynamic end).
Proof. intros. cbn [after]. apply lookup_declare_same. Qed.
Lemma make_keeps_others : forall c sid x l e y, x <> y ->
  lookup_var (cx_vars (after c (SMake sid x l e))) y = lookup_var (cx_vars c) y.
Proof. intros. cbn [after]. apply lookup_declare_other. assumption. Qed.
(* only `make` changes what is declared, and with which type *)
Lemma only_make_retypes : forall c s, (forall sid x l e, s <> SMake sid x l e) -> after c s = c.
Proof. intros c s H. destruct s; try reflexivity. exfalso. exact (H _ _ _ _ eq_refl). Qed.
(* a block does not leak its declarations or retypings: its statements are checked in a pushed scope
   and the statement after the block is checked in the context of the statement before it *)
Lemma block_is_transparent : forall c sid b, after c (SBlock sid b) = c.
Proof. reflexivity. Qed.
