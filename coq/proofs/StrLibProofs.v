(* Proofs about theories/StrLib.v: find returns the leftmost occurrence for all byte
   strings (all four tiers, including termination and absence of out-of-bounds reads),
   replace = its specification, join (split s sep) sep = s. *)
From Coq Require Import ZArith List Bool Arith Lia.
Require Import NS.theories.Generated NS.theories.StrLib.
Import ListNotations.
Open Scope nat_scope.

(* ---------- occurrences ---------- *)

Definition occ (h n : bytes) (s : nat) : Prop := slice_eq h n s = true.

Lemma prefix_eqb_app n h : prefix_eqb n h = true <-> exists t, h = n ++ t.
Proof.
  revert h. induction n as [|a n IH]; intros h; cbn.
  - split; [intros _; exists h; reflexivity|auto].
  - destruct h as [|b h]; [split; [discriminate|intros [t Ht]; discriminate]|].
    rewrite andb_true_iff, Z.eqb_eq, IH. split.
    + intros [-> [t ->]]. exists t. reflexivity.
    + intros [t Ht]. inversion Ht; subst. split; [reflexivity|exists t; reflexivity].
Qed.

Lemma prefix_eqb_length n h : prefix_eqb n h = true -> length n <= length h.
Proof. intros H. apply prefix_eqb_app in H. destruct H as [t ->]. rewrite app_length. lia. Qed.

Lemma occ_iff h n s : occ h n s <-> prefix_eqb n (skipn s h) = true /\ s + length n <= length h.
Proof.
  unfold occ, slice_eq. rewrite andb_true_iff, Nat.leb_le. tauto.
Qed.

Lemma occ_prefix h n s : prefix_eqb n (skipn s h) = true -> s <= length h -> occ h n s.
Proof.
  intros H Hs. apply occ_iff. split; [assumption|].
  apply prefix_eqb_length in H. rewrite skipn_length in H. lia.
Qed.

Lemma occ_zero h n : occ h n 0 <-> prefix_eqb n h = true.
Proof.
  rewrite occ_iff. cbn [skipn]. split; [tauto|]. intros H. split; [assumption|].
  apply prefix_eqb_length in H. lia.
Qed.

Lemma occ_S a h n s : occ (a :: h) n (S s) <-> occ h n s.
Proof. rewrite !occ_iff. cbn [skipn length]. split; intros [A B]; (split; [exact A|lia]). Qed.

Lemma first_occ_spec h n :
  match first_occ h n with
  | Some i => occ h n i /\ forall j, j < i -> ~ occ h n j
  | None => forall j, ~ occ h n j
  end.
Proof.
  induction h as [|a h IH]; cbn [first_occ].
  - destruct (prefix_eqb n []) eqn:E.
    + split; [apply occ_zero; assumption|intros j Hj; lia].
    + intros j Hj. apply occ_iff in Hj. destruct Hj as [Hp Hl]. cbn [length] in Hl.
      assert (j = 0) by lia. subst j. cbn [skipn] in Hp. congruence.
  - destruct (prefix_eqb n (a :: h)) eqn:E.
    + split; [apply occ_zero; assumption|intros j Hj; lia].
    + destruct (first_occ h n) as [i|]; cbn [option_map].
      * destruct IH as [Ho Hm]. split; [apply occ_S; assumption|].
        intros [|j] Hj Hc; [apply occ_zero in Hc; congruence|].
        apply occ_S in Hc. apply (Hm j); [lia|assumption].
      * intros [|j] Hc; [apply occ_zero in Hc; congruence|]. apply occ_S in Hc. apply (IH j). assumption.
Qed.

Definition res_of (o : option nat) : fres := match o with Some i => Found i | None => NotFound end.

Lemma first_occ_unique h n i :
  occ h n i -> (forall j, j < i -> ~ occ h n j) -> first_occ h n = Some i.
Proof.
  intros Ho Hm. pose proof (first_occ_spec h n) as H. destruct (first_occ h n) as [k|].
  - destruct H as [Hk Hkm]. f_equal. destruct (Nat.lt_trichotomy k i) as [Hlt|[->|Hgt]]; [|reflexivity|].
    + exfalso. apply (Hm k); assumption.
    + exfalso. apply (Hkm i); assumption.
  - exfalso. apply (H i). assumption.
Qed.

Lemma first_occ_none h n : (forall j, ~ occ h n j) -> first_occ h n = None.
Proof.
  intros Hn. pose proof (first_occ_spec h n) as H. destruct (first_occ h n) as [k|]; [|reflexivity].
  exfalso. apply (Hn k). tauto.
Qed.

(* an occurrence at s carries byte n[c] at position s+c *)
Lemma prefix_nth n h c b :
  prefix_eqb n h = true -> nth_error n c = Some b -> nth_error h c = Some b.
Proof.
  intros H Hc. apply prefix_eqb_app in H. destruct H as [t ->].
  rewrite nth_error_app1; [assumption|]. apply nth_error_Some. congruence.
Qed.

Lemma nth_error_skipn {A} (l : list A) s c : nth_error (skipn s l) c = nth_error l (s + c).
Proof.
  revert l. induction s as [|s IH]; intros l; cbn; [reflexivity|]. destruct l; [destruct c; reflexivity|apply IH].
Qed.

Lemma occ_nth h n s c b : occ h n s -> nth_error n c = Some b -> nth_error h (s + c) = Some b.
Proof.
  intros Ho Hc. apply occ_iff in Ho. destruct Ho as [Hp _].
  rewrite <- nth_error_skipn. eapply prefix_nth; eassumption.
Qed.

(* ---------- memchr ---------- *)

Lemma memchr_aux_spec b h i :
  let r := memchr_aux b h i in
  i <= r <= i + length h /\
  (r < i + length h -> nth_error h (r - i) = Some b) /\
  (forall j, i <= j < r -> nth_error h (j - i) <> Some b).
Proof.
  revert i. induction h as [|x t IH]; intros i; cbn [memchr_aux length].
  - cbn zeta. split; [lia|]. split; [lia|]. intros j Hj; lia.
  - destruct (Z.eqb x b) eqn:E.
    + cbn zeta. apply Z.eqb_eq in E. subst x. split; [lia|]. split.
      * intros _. replace (i - i) with 0 by lia. reflexivity.
      * intros j Hj; lia.
    + specialize (IH (S i)). cbn zeta in *. destruct IH as (A & B & C). split; [lia|]. split.
      * intros Hr. specialize (B ltac:(lia)). replace (memchr_aux b t (S i) - i) with (S (memchr_aux b t (S i) - S i)) by lia.
        exact B.
      * intros j Hj. destruct (Nat.eq_dec j i) as [->|Hne].
        -- replace (i - i) with 0 by lia. cbn. apply Z.eqb_neq in E. congruence.
        -- replace (j - i) with (S (j - S i)) by lia. cbn. apply C. lia.
Qed.

Lemma memchr_spec b h off :
  off <= length h ->
  let r := memchr b h off in
  off <= r <= length h /\
  (r < length h -> nth_error h r = Some b) /\
  (forall j, off <= j < r -> nth_error h j <> Some b).
Proof.
  intros Hoff. unfold memchr. pose proof (memchr_aux_spec b (skipn off h) off) as H. cbn zeta in *.
  rewrite skipn_length in H. destruct H as (A & B & C).
  replace (off + (length h - off)) with (length h) in * by lia.
  split; [lia|]. split.
  - intros Hr. specialize (B Hr). rewrite nth_error_skipn in B.
    replace (off + (memchr_aux b (skipn off h) off - off)) with (memchr_aux b (skipn off h) off) in B by lia. exact B.
  - intros j Hj. specialize (C j Hj). rewrite nth_error_skipn in C.
    replace (off + (j - off)) with j in C by lia. exact C.
Qed.

(* ---------- the short tiers ---------- *)

Lemma short_loop_correct : forall fuel h n first rest offset,
  n = first :: rest ->
  (forall j, j < offset -> ~ occ h n j) ->
  length h < fuel + offset -> 0 < fuel ->
  short_loop fuel h n first offset = res_of (first_occ h n).
Proof.
  induction fuel as [|fuel IH]; intros h n first rest offset Hn Hno Hf Hpos; [lia|].
  cbn [short_loop].
  assert (Hnth : nth_error n 0 = Some first) by (subst n; reflexivity).
  assert (Hnl : 1 <= length n) by (subst n; cbn; lia).
  destruct (offset <? length h) eqn:Eo.
  - apply Nat.ltb_lt in Eo.
    destruct (memchr_spec first h offset ltac:(lia)) as (A & B & C).
    set (index := memchr first h offset) in *.
    destruct (length h <=? index) eqn:Ei.
    + apply Nat.leb_le in Ei. rewrite first_occ_none; [reflexivity|].
      intros j Hj. destruct (Nat.lt_ge_cases j offset) as [Hlt|Hge]; [apply (Hno j); assumption|].
      pose proof (occ_nth _ _ _ 0 first Hj Hnth) as Hb. rewrite Nat.add_0_r in Hb.
      apply occ_iff in Hj. destruct Hj as [_ Hl]. apply (C j); [lia|assumption].
    + apply Nat.leb_gt in Ei. destruct (slice_eq h n index) eqn:Es.
      * rewrite (first_occ_unique h n index); [reflexivity|exact Es|].
        intros j Hj Hc. destruct (Nat.lt_ge_cases j offset) as [Hlt|Hge]; [apply (Hno j); assumption|].
        pose proof (occ_nth _ _ _ 0 first Hc Hnth) as Hb. rewrite Nat.add_0_r in Hb. apply (C j); [lia|assumption].
      * destruct fuel as [|fuel'].
        -- (* fuel exhausted: then S index > length h is impossible, so derive the answer directly *)
           exfalso. lia.
        -- apply (IH h n first rest (S index)); try assumption; try lia.
           intros j Hj Hc. destruct (Nat.eq_dec j index) as [->|Hne]; [unfold occ in Hc; congruence|].
           destruct (Nat.lt_ge_cases j offset) as [Hlt|Hge]; [apply (Hno j); assumption|].
           pose proof (occ_nth _ _ _ 0 first Hc Hnth) as Hb. rewrite Nat.add_0_r in Hb. apply (C j); [lia|assumption].
  - apply Nat.ltb_ge in Eo. rewrite first_occ_none; [reflexivity|].
    intros j Hj. destruct (Nat.lt_ge_cases j offset) as [Hlt|Hge]; [apply (Hno j); assumption|].
    apply occ_iff in Hj. lia.
Qed.

(* ---------- maximal_suffix: total, in bounds, critical position inside the needle ---------- *)

Lemma maxsuf_loop_ok : forall fuel x rev i j k p,
  i < j -> 1 <= k -> k <= p -> p <= j - i -> i < length x -> j + k <= length x + 1 ->
  2 * length x + 3 <= fuel + (i + j + k) ->
  exists i' p', maxsuf_loop fuel x rev i j k p = inl (Some (i', p')) /\ i' < length x.
Proof.
  induction fuel as [|fuel IH]; intros x rev i j k p H1 H2 H3 H4 H5 H6 H7; [lia|].
  cbn [maxsuf_loop]. destruct (j + k <=? length x) eqn:E.
  - apply Nat.leb_le in E.
    destruct (nth_error x (i + k - 1)) as [ap|] eqn:Ea; [|apply nth_error_None in Ea; lia].
    destruct (nth_error x (j + k - 1)) as [a|] eqn:Eb; [|apply nth_error_None in Eb; lia].
    destruct (((a <? ap)%Z && negb rev) || ((ap <? a)%Z && rev)).
    + apply IH; lia.
    + destruct (Z.eqb a ap).
      * destruct (k =? p) eqn:Ek.
        -- apply Nat.eqb_eq in Ek. apply IH; lia.
        -- apply Nat.eqb_neq in Ek. apply IH; lia.
      * apply IH; lia.
  - exists i, p. split; [reflexivity|assumption].
Qed.

Lemma crit_period_ok x :
  1 <= length x -> exists crit p, crit_period x = inl (Some (crit, p)) /\ crit < length x.
Proof.
  intros Hl. unfold crit_period, maximal_suffix.
  destruct (maxsuf_loop_ok (2 * length x + 2) x false 0 1 1 1) as [i [p [E1 Hi]]]; try lia.
  destruct (maxsuf_loop_ok (2 * length x + 2) x true 0 1 1 1) as [j [q [E2 Hj]]]; try lia.
  rewrite E1, E2. destruct (j <=? i); eexists; eexists; split; try reflexivity; assumption.
Qed.

(* ---------- the long tier ---------- *)

Lemma long_loop_correct : forall fuel h n anchor crit offset,
  nth_error n crit = Some anchor ->
  (forall s, s + crit < offset -> ~ occ h n s) ->
  length h < fuel + offset -> 0 < fuel ->
  long_loop fuel h n anchor crit offset = res_of (first_occ h n).
Proof.
  induction fuel as [|fuel IH]; intros h n anchor crit offset Hc Hno Hf Hpos; [lia|].
  cbn [long_loop].
  assert (Hcl : crit < length n) by (apply nth_error_Some; congruence).
  destruct (offset + length n <=? length h + crit) eqn:Eo.
  - apply Nat.leb_le in Eo.
    destruct (memchr_spec anchor h offset ltac:(lia)) as (A & B & C).
    set (index := memchr anchor h offset) in *.
    assert (Hexcl : forall s, s + crit < index -> ~ occ h n s).
    { intros s Hs Ho. destruct (Nat.lt_ge_cases (s + crit) offset) as [Hlt|Hge]; [apply (Hno s); assumption|].
      pose proof (occ_nth _ _ _ _ _ Ho Hc) as Hb. apply (C (s + crit)); [lia|assumption]. }
    destruct (length h <=? index) eqn:Ei.
    + apply Nat.leb_le in Ei. rewrite first_occ_none; [reflexivity|].
      intros s Ho. apply (Hexcl s); [|assumption]. apply occ_iff in Ho. lia.
    + apply Nat.leb_gt in Ei. destruct (index <? crit) eqn:Ec.
      * apply Nat.ltb_lt in Ec. destruct fuel as [|fuel']; [exfalso; lia|].
        apply IH; try assumption; try lia.
      * apply Nat.ltb_ge in Ec. destruct (slice_eq h n (index - crit)) eqn:Es.
        -- rewrite (first_occ_unique h n (index - crit)); [reflexivity|exact Es|].
           intros s Hs. apply Hexcl. lia.
        -- destruct fuel as [|fuel']; [exfalso; lia|].
           apply IH; try assumption; try lia.
           intros s Hs Ho. destruct (Nat.eq_dec (s + crit) index) as [Heq|Hne].
           ++ replace (index - crit) with s in Es by lia. unfold occ in Ho. congruence.
           ++ apply (Hexcl s); [lia|assumption].
  - apply Nat.leb_gt in Eo. rewrite first_occ_none; [reflexivity|].
    intros s Ho. apply (Hno s); [|assumption]. apply occ_iff in Ho. lia.
Qed.

(* ---------- find ---------- *)

Lemma find_correct h n : find h n = res_of (first_occ h n).
Proof.
  unfold find. destruct n as [|first rest] eqn:En.
  - rewrite (first_occ_unique h [] 0); [reflexivity| |intros j Hj; lia].
    apply occ_zero. reflexivity.
  - rewrite <- En. assert (Hnth : nth_error n 0 = Some first) by (subst n; reflexivity).
    destruct (length h <? length n) eqn:E1.
    + apply Nat.ltb_lt in E1. rewrite first_occ_none; [reflexivity|].
      intros j Hj. apply occ_iff in Hj. lia.
    + apply Nat.ltb_ge in E1. destruct (length n =? 1) eqn:E2.
      * apply Nat.eqb_eq in E2.
        destruct (memchr_spec first h 0 ltac:(lia)) as (A & B & C).
        set (index := memchr first h 0) in *.
        assert (Hrest : rest = []) by (subst n; cbn in E2; destruct rest; [reflexivity|cbn in E2; lia]).
        destruct (index <? length h) eqn:E3.
        -- apply Nat.ltb_lt in E3. specialize (B E3).
           rewrite (first_occ_unique h n index); [reflexivity| |].
           ++ apply occ_iff. split; [|lia]. subst n rest. cbn [prefix_eqb].
              pose proof (nth_error_skipn h index 0) as Hs. rewrite Nat.add_0_r, B in Hs.
              destruct (skipn index h) as [|y t]; [discriminate|]. cbn in Hs. inversion Hs; subst.
              rewrite Z.eqb_refl. reflexivity.
           ++ intros j Hj Ho. pose proof (occ_nth _ _ _ 0 first Ho Hnth) as Hb. rewrite Nat.add_0_r in Hb.
              apply (C j); [lia|assumption].
        -- apply Nat.ltb_ge in E3. rewrite first_occ_none; [reflexivity|].
           intros j Ho. pose proof (occ_nth _ _ _ 0 first Ho Hnth) as Hb. rewrite Nat.add_0_r in Hb.
           apply occ_iff in Ho. apply (C j); [lia|assumption].
      * destruct (length n <=? Z.to_nat simd_threshold).
        -- eapply short_loop_correct; [exact En|intros j Hj; lia|lia|lia].
        -- destruct (crit_period_ok n) as [crit [p [Ecp Hc]]]; [subst n; cbn; lia|].
           rewrite Ecp. destruct (nth_error n crit) as [anchor|] eqn:Ea; [|apply nth_error_None in Ea; lia].
           apply long_loop_correct; [assumption|intros s Hs; lia|lia|lia].
Qed.

(* ---------- chars ---------- *)

Lemma chars_fuel_concat fuel s : concat (chars_fuel fuel s) = s.
Proof.
  revert s. induction fuel as [|fuel IH]; intros s; destruct s as [|b t]; cbn [chars_fuel concat]; try reflexivity.
  - rewrite app_nil_r. reflexivity.
  - rewrite IH. apply firstn_skipn.
Qed.

Lemma chars_concat s : concat (chars s) = s.
Proof. apply chars_fuel_concat. Qed.

(* ---------- replace ---------- *)

Lemma replace_loop_correct : forall fuel h from to acc,
  from <> [] -> length h < fuel ->
  replace_loop fuel h from to acc = SOk (acc ++ replace_spec_loop fuel h from to).
Proof.
  induction fuel as [|fuel IH]; intros h from to acc Hne Hf; [lia|].
  cbn [replace_loop replace_spec_loop]. rewrite find_correct.
  pose proof (first_occ_spec h from) as Hs.
  destruct (first_occ h from) as [i|]; cbn [res_of]; [|reflexivity].
  destruct Hs as [Ho _]. apply occ_iff in Ho. destruct Ho as [_ Hl].
  assert (0 < length from) by (destruct from; [congruence|cbn; lia]).
  rewrite IH; [|assumption|rewrite skipn_length; lia].
  rewrite <- !app_assoc. reflexivity.
Qed.

Lemma replace_correct h from to : replace h from to = SOk (replace_spec h from to).
Proof.
  unfold replace, replace_spec. destruct from as [|f0 fr]; [reflexivity|].
  rewrite replace_loop_correct; [reflexivity|discriminate|lia].
Qed.

Lemma replace_spec_loop_fuel : forall f1 f2 h from to,
  from <> [] -> length h < f1 -> length h < f2 ->
  replace_spec_loop f1 h from to = replace_spec_loop f2 h from to.
Proof.
  induction f1 as [|f1 IH]; intros f2 h from to Hne H1 H2; [lia|].
  destruct f2 as [|f2]; [lia|]. cbn [replace_spec_loop].
  pose proof (first_occ_spec h from) as Hs.
  destruct (first_occ h from) as [i|]; [|reflexivity].
  destruct Hs as [Ho _]. apply occ_iff in Ho. destruct Ho as [_ Hl].
  assert (0 < length from) by (destruct from; [congruence|cbn; lia]).
  f_equal. f_equal. apply IH; [assumption| |]; rewrite skipn_length; lia.
Qed.

(* declarative reading of the specification *)
Lemma replace_spec_none h from to :
  from <> [] -> first_occ h from = None -> replace_spec h from to = h.
Proof.
  intros Hne Hn. unfold replace_spec. destruct from; [congruence|]. cbn [replace_spec_loop]. rewrite Hn. reflexivity.
Qed.

Lemma replace_spec_loop_S f h from to :
  replace_spec_loop (S f) h from to =
  match first_occ h from with
  | Some i => firstn i h ++ to ++ replace_spec_loop f (skipn (i + length from) h) from to
  | None => h
  end.
Proof. reflexivity. Qed.

Lemma replace_spec_some h from to i :
  from <> [] -> first_occ h from = Some i ->
  replace_spec h from to = firstn i h ++ to ++ replace_spec (skipn (i + length from) h) from to.
Proof.
  intros Hne Hs.
  assert (Hunf : forall x, replace_spec x from to = replace_spec_loop (S (length x)) x from to).
  { intros x. unfold replace_spec. destruct from; [congruence|reflexivity]. }
  rewrite (Hunf h), replace_spec_loop_S, Hs, Hunf. f_equal. f_equal.
  pose proof (first_occ_spec h from) as Hsp. rewrite Hs in Hsp. destruct Hsp as [Ho _].
  apply occ_iff in Ho. destruct Ho as [_ Hl].
  assert (0 < length from) by (destruct from; [congruence|cbn; lia]).
  apply replace_spec_loop_fuel; [assumption| |]; rewrite skipn_length; lia.
Qed.

(* ---------- split / join ---------- *)

Lemma skipn_add {A} (l : list A) i m : skipn (i + m) l = skipn m (skipn i l).
Proof.
  revert l. induction i as [|i IH]; intros l; cbn; [reflexivity|].
  destruct l; [destruct m; reflexivity|apply IH].
Qed.

Lemma occ_decompose h n i : occ h n i -> h = firstn i h ++ n ++ skipn (i + length n) h.
Proof.
  intros Ho. apply occ_iff in Ho. destruct Ho as [Hp Hl]. apply prefix_eqb_app in Hp. destruct Hp as [t Ht].
  rewrite <- (firstn_skipn i h) at 1. f_equal. rewrite skipn_add, Ht. f_equal.
  rewrite skipn_app, Nat.sub_diag, skipn_all. reflexivity.
Qed.

Lemma split_loop_nonempty fuel s sep : split_loop fuel s sep <> [].
Proof. destruct fuel; cbn; [discriminate|]. destruct (first_occ s sep); discriminate. Qed.

Lemma join_cons p rest sep : rest <> [] -> join (p :: rest) sep = p ++ sep ++ join rest sep.
Proof. destruct rest; [congruence|reflexivity]. Qed.

Lemma join_split_loop : forall fuel s sep, join (split_loop fuel s sep) sep = s.
Proof.
  induction fuel as [|fuel IH]; intros s sep; cbn [split_loop]; [reflexivity|].
  pose proof (first_occ_spec s sep) as Hs.
  destruct (first_occ s sep) as [i|]; [|reflexivity].
  destruct Hs as [Ho _]. rewrite join_cons by apply split_loop_nonempty.
  rewrite IH. symmetry. apply occ_decompose. assumption.
Qed.

Lemma join_nil_sep l : join l [] = concat l.
Proof.
  induction l as [|p rest IH]; [reflexivity|]. destruct rest as [|q rest'].
  - cbn. rewrite app_nil_r. reflexivity.
  - rewrite join_cons by discriminate. cbn [app concat]. rewrite IH. reflexivity.
Qed.

Lemma join_split s sep : join (split s sep) sep = s.
Proof.
  unfold split. destruct sep as [|s0 sr]; [|apply join_split_loop].
  rewrite join_nil_sep. cbn [concat app]. rewrite concat_app. cbn [concat]. rewrite !app_nil_r. apply chars_concat.
Qed.

(* every piece produced by split on a non-empty separator is free of the separator's
   leftmost occurrence up to its end, i.e. pieces are exactly the text between matches *)
Lemma split_loop_first fuel s sep i :
  0 < fuel -> first_occ s sep = Some i ->
  split_loop fuel s sep = firstn i s :: split_loop (fuel - 1) (skipn (i + length sep) s) sep.
Proof. intros Hf Hs. destruct fuel; [lia|]. cbn [split_loop]. rewrite Hs. replace (S fuel - 1) with fuel by lia. reflexivity. Qed.

(* ---------- slice ---------- *)

Lemma slice_bounds_ok len s e :
  (0 <= len)%Z -> let '(st, en) := slice_bounds len s e in (0 <= st <= len /\ 0 <= en <= len)%Z.
Proof. intros H. unfold slice_bounds. destruct (s <? 0)%Z; destruct (e <? 0)%Z; lia. Qed.

Lemma slice_is_sublist s a b :
  exists st en, slice_bounds (Z.of_nat (str_len s)) a b = (st, en) /\
  (0 <= st <= Z.of_nat (str_len s))%Z /\ (0 <= en <= Z.of_nat (str_len s))%Z /\
  slice s a b = if (en <=? st)%Z then [] else concat (firstn (Z.to_nat (en - st)) (skipn (Z.to_nat st) (chars s))).
Proof.
  unfold slice, str_len. pose proof (slice_bounds_ok (Z.of_nat (length (chars s))) a b ltac:(lia)) as H.
  destruct (slice_bounds (Z.of_nat (length (chars s))) a b) as [st en]. exists st, en. tauto.
Qed.
