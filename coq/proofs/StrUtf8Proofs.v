(* StrUtf8Proofs.v — the string built-ins of theories/StrLib.v preserve well-formed UTF-8
   (theories/Utf8.v): a match of a valid needle in a valid haystack starts and ends on
   character boundaries (self-synchronisation), hence replace / split / join / slice / trim
   map valid texts to valid texts; chars cuts a valid text into single encoded code points,
   and every such chunk decodes to a Unicode scalar value.  For all byte lists. *)
From Coq Require Import ZArith List Bool Arith Lia.
Require Import NS.theories.Generated NS.theories.Utf8 NS.proofs.Utf8Proofs NS.theories.StrLib NS.proofs.StrLibProofs.
Import ListNotations. Open Scope nat_scope.

(* ---------------------------------------------------------------- Forall helpers *)

Lemma Forall_firstn_ {A} (P : A -> Prop) n l : Forall P l -> Forall P (firstn n l).
Proof.
  revert l. induction n as [|n IH]; intros l H; cbn [firstn]; [constructor|].
  destruct l as [|a l]; [constructor|]. inversion H as [|? ? Ha Hl]; subst. constructor; [exact Ha|apply IH; exact Hl].
Qed.

Lemma Forall_skipn_ {A} (P : A -> Prop) n l : Forall P l -> Forall P (skipn n l).
Proof.
  revert l. induction n as [|n IH]; intros l H; cbn [skipn]; [exact H|].
  destruct l as [|a l]; [constructor|]. inversion H as [|? ? Ha Hl]; subst. apply IH; exact Hl.
Qed.

Lemma Forall_rev_ {A} (P : A -> Prop) l : Forall P l -> Forall P (rev l).
Proof.
  intros H. apply Forall_forall. intros x Hx. apply in_rev in Hx.
  rewrite Forall_forall in H. apply H. exact Hx.
Qed.

Lemma Forall_app_ {A} (P : A -> Prop) l1 l2 : Forall P l1 -> Forall P l2 -> Forall P (l1 ++ l2).
Proof.
  intros H1 H2. induction H1 as [|a l Ha Hl IH]; cbn [app]; [exact H2|]. constructor; assumption.
Qed.

(* ---------------------------------------------------------------- concatenation *)

(* a valid prefix can be dropped without changing the validity of the whole *)
Lemma valid_app_eq_aux : forall n (a b : list Z), length a <= n ->
  valid_utf8 a = true -> valid_utf8 (a ++ b) = valid_utf8 b.
Proof.
  induction n as [|n IH]; intros a b L V.
  - destruct a as [|b0 t0]; [reflexivity|cbn [length] in L; lia].
  - destruct a as [|b0 t0]; [reflexivity|]. cbn [length] in L.
    cbn [app]. cbn [valid_utf8] in V. cbn [valid_utf8].
    destruct (in_range 0 127 b0).
    { apply IH; [lia|exact V]. }
    destruct (in_range 194 223 b0).
    { destruct t0 as [|b1 t1]; [discriminate|]. cbn [app]. cbn [length] in L.
      apply andb_true_iff in V as [C1 V]. rewrite C1. cbn [andb]. apply IH; [lia|exact V]. }
    destruct (in_range 224 239 b0).
    { destruct t0 as [|b1 [|b2 t2]]; try discriminate. cbn [app]. cbn [length] in L.
      apply andb_true_iff in V as [V0 V]. rewrite V0. cbn [andb]. apply IH; [lia|exact V]. }
    destruct (in_range 240 244 b0).
    { destruct t0 as [|b1 [|b2 [|b3 t3]]]; try discriminate. cbn [app]. cbn [length] in L.
      apply andb_true_iff in V as [V0 V]. rewrite V0. cbn [andb]. apply IH; [lia|exact V]. }
    discriminate.
Qed.

Lemma valid_app_eq (a b : list Z) : valid_utf8 a = true -> valid_utf8 (a ++ b) = valid_utf8 b.
Proof. intros V. apply (valid_app_eq_aux (length a)); [lia|exact V]. Qed.

Lemma valid_app (a b : list Z) :
  valid_utf8 a = true -> valid_utf8 b = true -> valid_utf8 (a ++ b) = true.
Proof. intros Va Vb. rewrite valid_app_eq; assumption. Qed.

Lemma valid_app_inv_r (a b : list Z) :
  valid_utf8 (a ++ b) = true -> valid_utf8 a = true -> valid_utf8 b = true.
Proof. intros Vab Va. rewrite valid_app_eq in Vab; assumption. Qed.

Lemma valid_concat (l : list (list Z)) :
  Forall (fun c => valid_utf8 c = true) l -> valid_utf8 (concat l) = true.
Proof.
  intros H. induction H as [|c l Hc Hl IH]; cbn [concat]; [reflexivity|]. apply valid_app; assumption.
Qed.

(* ---------------------------------------------------------------- the first character *)

Lemma valid_first_char b t : valid_utf8 (b :: t) = true ->
  valid_utf8 (firstn (char_width b) (b :: t)) = true.
Proof.
  intros H. cbn [valid_utf8] in H. unfold char_width.
  destruct (in_range 0 127 b) eqn:E1.
  { cbn [firstn]. cbn [valid_utf8]. rewrite E1. reflexivity. }
  destruct (in_range 194 223 b) eqn:E2.
  { destruct t as [|b1 t1]; [discriminate|]. apply andb_true_iff in H as [C1 _].
    cbn [firstn]. cbn [valid_utf8]. rewrite E1, E2, C1. reflexivity. }
  destruct (in_range 224 239 b) eqn:E3.
  { destruct t as [|b1 [|b2 t2]]; try discriminate. apply andb_true_iff in H as [H0 _].
    cbn [firstn]. cbn [valid_utf8]. rewrite E1, E2, E3, H0. reflexivity. }
  destruct (in_range 240 244 b) eqn:E4.
  { destruct t as [|b1 [|b2 [|b3 t3]]]; try discriminate. apply andb_true_iff in H as [H0 _].
    cbn [firstn]. cbn [valid_utf8]. rewrite E1, E2, E3, E4, H0. reflexivity. }
  discriminate.
Qed.

(* ---------------------------------------------------------------- prefixes *)

(* if the whole and the tail are valid, so is the front (the tail starts on a boundary) *)
Lemma valid_app_inv_l_aux : forall n (a b : list Z), length a <= n ->
  valid_utf8 (a ++ b) = true -> valid_utf8 b = true -> valid_utf8 a = true.
Proof.
  induction n as [|n IH]; intros a b L Vab Vb.
  - destruct a as [|b0 t0]; [reflexivity|cbn [length] in L; lia].
  - destruct a as [|b0 t0]; [reflexivity|].
    assert (Vab' : valid_utf8 (b0 :: (t0 ++ b)) = true) by exact Vab.
    pose proof (valid_step b0 (t0 ++ b) Vab') as (W1 & W2 & W3 & W4).
    pose proof (valid_first_char b0 (t0 ++ b) Vab') as VF.
    cbn zeta in *. set (w := char_width b0) in *.
    assert (Hw : w <= length (b0 :: t0)).
    { destruct (Nat.lt_ge_cases (length (b0 :: t0)) w) as [Hlt|Hge]; [exfalso|exact Hge].
      destruct b as [|x b'].
      - rewrite app_nil_r in W2. lia.
      - assert (N : nth_error (b0 :: t0 ++ x :: b') (length (b0 :: t0)) = Some x).
        { change (b0 :: t0 ++ x :: b') with ((b0 :: t0) ++ x :: b').
          rewrite nth_error_app2 by lia. rewrite Nat.sub_diag. reflexivity. }
        apply W4 in N; [|cbn [length] in *; lia].
        apply valid_head_not_cont in Vb. congruence. }
    change (b0 :: t0 ++ b) with ((b0 :: t0) ++ b) in W3, VF.
    rewrite skipn_app in W3. rewrite firstn_app in VF.
    replace (w - length (b0 :: t0)) with 0 in W3, VF by lia.
    cbn [skipn firstn] in W3, VF. rewrite app_nil_r in VF.
    rewrite <- (firstn_skipn w (b0 :: t0)). apply valid_app; [exact VF|].
    apply (IH _ b); [|exact W3|exact Vb].
    rewrite skipn_length. cbn [length] in *. lia.
Qed.

Lemma valid_app_inv_l (a b : list Z) :
  valid_utf8 (a ++ b) = true -> valid_utf8 b = true -> valid_utf8 a = true.
Proof. intros Vab Vb. apply (valid_app_inv_l_aux (length a) a b); [lia|exact Vab|exact Vb]. Qed.

Lemma valid_firstn_boundary (s : list Z) i :
  valid_utf8 s = true -> is_boundary s i = true -> valid_utf8 (firstn i s) = true.
Proof.
  intros V B. apply (valid_app_inv_l (firstn i s) (skipn i s)).
  - rewrite firstn_skipn. exact V.
  - apply boundary_valid_suffix; assumption.
Qed.

(* ---------------------------------------------------------------- chars *)

(* c is exactly one encoded code point *)
Definition one_char (c : list Z) : Prop :=
  valid_utf8 c = true /\ c <> [] /\ length c = Utf8.char_width (hd 0%Z c).

Lemma utf8_width_char_width b t : valid_utf8 (b :: t) = true -> utf8_width b = char_width b.
Proof.
  intros H. cbn [valid_utf8] in H. unfold utf8_width, char_width.
  destruct (in_range 0 127 b) eqn:E1; [apply in_range_spec in E1|apply in_range_false in E1].
  { destruct (Z.ltb_spec b 128); [reflexivity|lia]. }
  destruct (in_range 194 223 b) eqn:E2; [apply in_range_spec in E2|apply in_range_false in E2].
  { destruct (Z.ltb_spec b 128); [lia|]. destruct (Z.ltb_spec b 224); [reflexivity|lia]. }
  destruct (in_range 224 239 b) eqn:E3; [apply in_range_spec in E3|apply in_range_false in E3].
  { destruct (Z.ltb_spec b 128); [lia|]. destruct (Z.ltb_spec b 224); [lia|].
    destruct (Z.ltb_spec b 240); [reflexivity|lia]. }
  destruct (in_range 240 244 b) eqn:E4; [apply in_range_spec in E4|discriminate].
  destruct (Z.ltb_spec b 128); [lia|]. destruct (Z.ltb_spec b 224); [lia|].
  destruct (Z.ltb_spec b 240); [lia|reflexivity].
Qed.

Lemma chars_fuel_valid : forall fuel (s : list Z), length s <= fuel ->
  valid_utf8 s = true -> Forall one_char (chars_fuel fuel s).
Proof.
  induction fuel as [|fuel IH]; intros s L V.
  - destruct s as [|b t]; [constructor|cbn [length] in L; lia].
  - destruct s as [|b t]; [constructor|].
    cbn [chars_fuel].
    rewrite (utf8_width_char_width b t V).
    pose proof (valid_step b t V) as (W1 & W2 & W3 & W4).
    pose proof (valid_first_char b t V) as VF.
    cbn zeta in *.
    assert (Hhd : hd 0%Z (firstn (char_width b) (b :: t)) = b).
    { destruct (char_width b); [lia|reflexivity]. }
    assert (Hnn : firstn (char_width b) (b :: t) <> []).
    { destruct (char_width b); [lia|discriminate]. }
    constructor.
    + refine (conj VF (conj Hnn _)). rewrite Hhd, firstn_length. lia.
    + apply IH; [|exact W3]. rewrite skipn_length. cbn [length] in *. lia.
Qed.

Theorem chars_valid : forall s : list Z, valid_utf8 s = true -> Forall one_char (StrLib.chars s).
Proof. intros s V. apply chars_fuel_valid; [lia|exact V]. Qed.

Lemma one_char_valid c : one_char c -> valid_utf8 c = true.
Proof. intros (V & _). exact V. Qed.

Lemma chars_pieces_valid (s : list Z) :
  valid_utf8 s = true -> Forall (fun c => valid_utf8 c = true) (StrLib.chars s).
Proof. intros V. eapply Forall_impl; [|apply chars_valid; exact V]. exact one_char_valid. Qed.

(* ---------------------------------------------------------------- shape of one character *)

Lemma second_range_cont a b :
  (Utf8.second_lo a <= b <= Utf8.second_hi a)%Z -> (128 <= b <= 191)%Z.
Proof.
  unfold second_lo, second_hi.
  destruct (Z.eqb_spec a 224), (Z.eqb_spec a 240), (Z.eqb_spec a 237), (Z.eqb_spec a 244); lia.
Qed.

Lemma one_char_shape c : one_char c ->
  (exists a, c = [a] /\ (0 <= a <= 127)%Z) \/
  (exists a b, c = [a; b] /\ (194 <= a <= 223)%Z /\ (128 <= b <= 191)%Z) \/
  (exists a b d, c = [a; b; d] /\ (224 <= a <= 239)%Z /\
     (Utf8.second_lo a <= b <= Utf8.second_hi a)%Z /\ (128 <= d <= 191)%Z) \/
  (exists a b d e, c = [a; b; d; e] /\ (240 <= a <= 244)%Z /\
     (Utf8.second_lo a <= b <= Utf8.second_hi a)%Z /\ (128 <= d <= 191)%Z /\ (128 <= e <= 191)%Z).
Proof.
  intros (V & Hne & Hl). destruct c as [|b0 t0]; [congruence|]. cbn [hd length] in Hl.
  cbn [valid_utf8] in V. unfold char_width in Hl. unfold is_cont in V.
  destruct (in_range 0 127 b0) eqn:E1.
  { left. destruct t0 as [|? ?]; [|cbn [length] in Hl; lia].
    exists b0. split; [reflexivity|]. apply in_range_spec. exact E1. }
  destruct (in_range 194 223 b0) eqn:E2.
  { right; left. destruct t0 as [|b1 [|? ?]]; cbn [length] in Hl; try lia.
    apply andb_true_iff in V as [C1 _]. apply in_range_spec in E2, C1.
    exists b0, b1. refine (conj eq_refl (conj E2 C1)). }
  destruct (in_range 224 239 b0) eqn:E3.
  { right; right; left. destruct t0 as [|b1 [|b2 [|? ?]]]; cbn [length] in Hl; try lia.
    apply andb_true_iff in V as [V _]. apply andb_true_iff in V as [R1 C2].
    apply in_range_spec in E3, R1, C2.
    exists b0, b1, b2. refine (conj eq_refl (conj E3 (conj R1 C2))). }
  destruct (in_range 240 244 b0) eqn:E4; [|discriminate].
  right; right; right. destruct t0 as [|b1 [|b2 [|b3 [|? ?]]]]; cbn [length] in Hl; try lia.
  apply andb_true_iff in V as [V _]. apply andb_true_iff in V as [V C3]. apply andb_true_iff in V as [R1 C2].
  apply in_range_spec in E4, R1, C2, C3.
  exists b0, b1, b2, b3. refine (conj eq_refl (conj E4 (conj R1 (conj C2 C3)))).
Qed.

(* a valid chunk decodes to a Unicode scalar value *)
Theorem decode_scalar : forall c, one_char c ->
  let cp := StrLib.decode c in (0 <= cp < 55296 \/ 57344 <= cp < 1114112)%Z.
Proof.
  intros c H. cbn zeta. apply one_char_shape in H.
  destruct H as [(a & -> & Ha) | [(a & b & -> & Ha & Hb) | [(a & b & d & -> & Ha & Hb & Hd) | (a & b & d & e & -> & Ha & Hb & Hd & He)]]];
    cbn [decode].
  - lia.
  - lia.
  - unfold second_lo, second_hi in Hb.
    destruct (Z.eqb_spec a 224), (Z.eqb_spec a 240), (Z.eqb_spec a 237), (Z.eqb_spec a 244); lia.
  - unfold second_lo, second_hi in Hb.
    destruct (Z.eqb_spec a 224), (Z.eqb_spec a 240), (Z.eqb_spec a 237), (Z.eqb_spec a 244); lia.
Qed.

(* ---------------------------------------------------------------- len = number of code points *)

Lemma cont_true b : (128 <= b <= 191)%Z -> is_cont b = true.
Proof. intros H. unfold is_cont. apply in_range_spec. exact H. Qed.

Lemma cont_false b : (b < 128 \/ 191 < b)%Z -> is_cont b = false.
Proof. intros H. unfold is_cont. apply in_range_false. exact H. Qed.

Lemma char_count_app (a b : list Z) : char_count (a ++ b) = char_count a + char_count b.
Proof.
  induction a as [|x a IH]; cbn [app char_count]; [reflexivity|]. rewrite IH. destruct (is_cont x); lia.
Qed.

Lemma one_char_count c : one_char c -> char_count c = 1.
Proof.
  intros H. apply one_char_shape in H.
  destruct H as [(a & -> & Ha) | [(a & b & -> & Ha & Hb) | [(a & b & d & -> & Ha & Hb & Hd) | (a & b & d & e & -> & Ha & Hb & Hd & He)]]];
    cbn [char_count].
  - rewrite (cont_false a) by lia. reflexivity.
  - rewrite (cont_false a) by lia. rewrite (cont_true b) by lia. reflexivity.
  - apply second_range_cont in Hb.
    rewrite (cont_false a) by lia. rewrite (cont_true b) by lia. rewrite (cont_true d) by lia. reflexivity.
  - apply second_range_cont in Hb.
    rewrite (cont_false a) by lia. rewrite (cont_true b) by lia. rewrite (cont_true d) by lia.
    rewrite (cont_true e) by lia. reflexivity.
Qed.

Lemma char_count_concat l : Forall one_char l -> char_count (concat l) = length l.
Proof.
  intros H. induction H as [|c l Hc Hl IH]; cbn [concat length]; [reflexivity|].
  rewrite char_count_app, IH, (one_char_count c Hc). reflexivity.
Qed.

Theorem chars_char_count : forall s : list Z, valid_utf8 s = true -> StrLib.str_len s = Utf8.char_count s.
Proof.
  intros s V. unfold str_len.
  transitivity (char_count (concat (chars s))); [|rewrite chars_concat; reflexivity].
  symmetry. apply char_count_concat. apply chars_valid. exact V.
Qed.

(* ---------------------------------------------------------------- self-synchronisation *)

(* any occurrence of a valid non-empty needle in a valid text starts and ends on boundaries *)
Lemma occ_boundary (h n : list Z) i :
  valid_utf8 h = true -> valid_utf8 n = true -> n <> [] -> occ h n i ->
  is_boundary h i = true /\ is_boundary h (i + length n) = true.
Proof.
  intros Vh Vn Hne Ho.
  destruct n as [|n0 n'] eqn:En; [congruence|]. rewrite <- En in *.
  assert (N : nth_error h i = Some n0).
  { pose proof (occ_nth h n i 0 n0 Ho) as Hx. rewrite Nat.add_0_r in Hx. apply Hx. rewrite En. reflexivity. }
  assert (B1 : is_boundary h i = true).
  { unfold is_boundary. rewrite N. rewrite En in Vn. rewrite (valid_head_not_cont _ _ Vn).
    cbn [negb]. apply orb_true_r. }
  apply occ_iff in Ho. destruct Ho as [Hp Hl].
  apply prefix_eqb_app in Hp. destruct Hp as [t Ht].
  pose proof (boundary_valid_suffix h i Vh B1) as Vs. rewrite Ht in Vs.
  apply (valid_app_inv_r n t) in Vs; [|exact Vn].
  assert (Et : skipn (i + length n) h = t).
  { rewrite skipn_add, Ht, skipn_app, Nat.sub_diag, skipn_all. reflexivity. }
  split; [exact B1|]. apply valid_suffix_boundary; [lia|]. rewrite Et. exact Vs.
Qed.

Theorem first_occ_boundary : forall (h n : list Z) i,
  valid_utf8 h = true -> valid_utf8 n = true -> n <> [] -> first_occ h n = Some i ->
  is_boundary h i = true /\ is_boundary h (i + length n) = true.
Proof.
  intros h n i Vh Vn Hne E. pose proof (first_occ_spec h n) as S. rewrite E in S.
  destruct S as [Ho _]. apply occ_boundary; assumption.
Qed.

Theorem find_boundary : forall (h n : list Z) i,
  valid_utf8 h = true -> valid_utf8 n = true -> n <> [] -> find h n = Found i ->
  is_boundary h i = true /\ is_boundary h (i + length n) = true.
Proof.
  intros h n i Vh Vn Hne E. rewrite find_correct in E.
  destruct (first_occ h n) as [k|] eqn:Ek; cbn [res_of] in E; [|discriminate].
  inversion E; subst k. apply first_occ_boundary; assumption.
Qed.

(* ---------------------------------------------------------------- replace *)

Lemma replace_spec_loop_valid (from to : list Z) :
  valid_utf8 from = true -> valid_utf8 to = true -> from <> [] ->
  forall fuel (h : list Z), valid_utf8 h = true -> valid_utf8 (replace_spec_loop fuel h from to) = true.
Proof.
  intros Vf Vt Hne. induction fuel as [|fuel IH]; intros h Vh; cbn [replace_spec_loop]; [exact Vh|].
  destruct (first_occ h from) as [i|] eqn:E; [|exact Vh].
  destruct (first_occ_boundary h from i Vh Vf Hne E) as [B1 B2].
  apply valid_app; [apply valid_firstn_boundary; assumption|].
  apply valid_app; [exact Vt|]. apply IH. apply boundary_valid_suffix; assumption.
Qed.

Lemma map_prepend_valid (to : list Z) l : valid_utf8 to = true ->
  Forall (fun c => valid_utf8 c = true) l ->
  Forall (fun c => valid_utf8 c = true) (map (fun c => to ++ c) l).
Proof.
  intros Vt H. induction H as [|c l Hc Hl IH]; cbn [map]; constructor; [apply valid_app; assumption|exact IH].
Qed.

Lemma replace_spec_valid (h from to : list Z) :
  valid_utf8 h = true -> valid_utf8 from = true -> valid_utf8 to = true ->
  valid_utf8 (replace_spec h from to) = true.
Proof.
  intros Vh Vf Vt. unfold replace_spec. destruct from as [|f0 fr] eqn:Ef.
  - apply valid_app; [|exact Vt]. apply valid_concat. apply map_prepend_valid; [exact Vt|].
    apply chars_pieces_valid. exact Vh.
  - apply replace_spec_loop_valid; [exact Vf|exact Vt|discriminate|exact Vh].
Qed.

Theorem replace_valid_utf8 : forall h from to : list Z,
  valid_utf8 h = true -> valid_utf8 from = true -> valid_utf8 to = true ->
  exists r, replace h from to = SOk r /\ valid_utf8 r = true.
Proof.
  intros h from to Vh Vf Vt. exists (replace_spec h from to).
  split; [apply replace_correct|apply replace_spec_valid; assumption].
Qed.

(* ---------------------------------------------------------------- split / join *)

Lemma split_loop_valid (sep : list Z) : valid_utf8 sep = true -> sep <> [] ->
  forall fuel (s : list Z), valid_utf8 s = true ->
  Forall (fun p => valid_utf8 p = true) (split_loop fuel s sep).
Proof.
  intros Vsep Hne. induction fuel as [|fuel IH]; intros s Vs; cbn [split_loop].
  - constructor; [exact Vs|constructor].
  - destruct (first_occ s sep) as [i|] eqn:E; [|constructor; [exact Vs|constructor]].
    destruct (first_occ_boundary s sep i Vs Vsep Hne E) as [B1 B2].
    constructor; [apply valid_firstn_boundary; assumption|].
    apply IH. apply boundary_valid_suffix; assumption.
Qed.

Theorem split_pieces_valid : forall s sep : list Z,
  valid_utf8 s = true -> valid_utf8 sep = true ->
  Forall (fun p => valid_utf8 p = true) (split s sep).
Proof.
  intros s sep Vs Vsep. unfold split. destruct sep as [|s0 sr] eqn:Es.
  - constructor; [reflexivity|]. apply Forall_app_; [apply chars_pieces_valid; exact Vs|].
    constructor; [reflexivity|constructor].
  - apply split_loop_valid; [exact Vsep|discriminate|exact Vs].
Qed.

Theorem join_valid : forall (parts : list (list Z)) (sep : list Z),
  Forall (fun p => valid_utf8 p = true) parts -> valid_utf8 sep = true ->
  valid_utf8 (join parts sep) = true.
Proof.
  intros parts sep H Vsep. induction H as [|p rest Hp Hrest IH]; [reflexivity|].
  destruct rest as [|q rest'].
  - cbn [join]. exact Hp.
  - rewrite join_cons by discriminate.
    apply valid_app; [exact Hp|]. apply valid_app; [exact Vsep|exact IH].
Qed.

(* ---------------------------------------------------------------- slice / trim *)

Theorem slice_valid_utf8 : forall (s : list Z) a b,
  valid_utf8 s = true -> valid_utf8 (StrLib.slice s a b) = true.
Proof.
  intros s a b V. unfold StrLib.slice.
  destruct (slice_bounds (Z.of_nat (length (chars s))) a b) as [st en].
  destruct (en <=? st)%Z; [reflexivity|].
  apply valid_concat. apply Forall_firstn_. apply Forall_skipn_. apply chars_pieces_valid. exact V.
Qed.

Lemma drop_ws_Forall (P : list Z -> Prop) cs : Forall P cs -> Forall P (drop_ws cs).
Proof.
  intros H. induction H as [|c t Hc Ht IH]; cbn [drop_ws]; [constructor|].
  destruct (is_whitespace (decode c)); [exact IH|constructor; assumption].
Qed.

Theorem trim_valid_utf8 : forall s : list Z, valid_utf8 s = true -> valid_utf8 (trim s) = true.
Proof.
  intros s V. unfold trim. apply valid_concat.
  apply Forall_rev_. apply drop_ws_Forall. apply Forall_rev_. apply drop_ws_Forall.
  apply chars_pieces_valid. exact V.
Qed.

Print Assumptions find_boundary.
Print Assumptions first_occ_boundary.
Print Assumptions replace_valid_utf8.
Print Assumptions split_pieces_valid.
Print Assumptions join_valid.
Print Assumptions slice_valid_utf8.
Print Assumptions trim_valid_utf8.
Print Assumptions chars_valid.
Print Assumptions chars_char_count.
Print Assumptions decode_scalar.
Print Assumptions valid_app.
Print Assumptions valid_app_inv_r.
Print Assumptions valid_firstn_boundary.
Print Assumptions valid_concat.
