(* TemplateProofs — the segment list built by parse_template_segments denotes the documented
   reading of the template; every sequence of text pieces and variable references has a
   template; which literals the shipped parser does not treat that way. *)
From Coq Require Import ZArith List Bool Lia Arith ZifyBool.
Require Import NS.theories.Template.
Import ListNotations.
Open Scope Z_scope.

Lemma flat_app a b : flat (a ++ b) = flat a ++ flat b.
Proof. unfold flat. apply flat_map_app. Qed.

Lemma flat_flush pend acc : flat (rev (flush pend acc)) = flat (rev acc) ++ map IChar (rev pend).
Proof.
  destruct pend as [|b p]; cbn [flush].
  - cbn. rewrite app_nil_r. reflexivity.
  - cbn [rev]. rewrite flat_app. cbn [flat flat_map flat_seg]. rewrite app_nil_r. reflexivity.
Qed.

Lemma flat_step g pend acc :
  flat (rev (g :: flush pend acc)) = flat (rev acc) ++ map IChar (rev pend) ++ flat_seg g.
Proof.
  cbn [rev]. rewrite flat_app, flat_flush. cbn [flat flat_map]. rewrite app_nil_r, app_assoc. reflexivity.
Qed.

Lemma go_spec : forall f pend s acc,
  flat (segs_go f pend s acc) = flat (rev acc) ++ map IChar (rev pend) ++ reading f s.
Proof.
  induction f as [|f IH]; intros pend s acc.
  - cbn [segs_go reading]. rewrite flat_flush, app_nil_r. reflexivity.
  - cbn [segs_go reading]. destruct s as [|b r].
    + rewrite flat_flush, app_nil_r. reflexivity.
    + destruct (b =? LB).
      * destruct (starts_with LB r) as [r2|].
        { rewrite IH, flat_step. cbn [rev map app flat_seg]. rewrite <- !app_assoc. reflexivity. }
        destruct (placeholder r) as [[n r']|].
        { rewrite IH, flat_step. cbn [rev map app flat_seg]. rewrite <- !app_assoc. reflexivity. }
        destruct (until_close r) as [c r'].
        rewrite IH, flat_step. cbn [rev map app flat_seg]. rewrite <- !app_assoc. reflexivity.
      * destruct (b =? RB) eqn:ERB.
        { destruct (starts_with RB r) as [r2|].
          - rewrite IH, flat_step. cbn [rev map app flat_seg]. rewrite <- !app_assoc. reflexivity.
          - apply Z.eqb_eq in ERB. subst b.
            rewrite IH. cbn [rev]. rewrite map_app. cbn [map]. rewrite <- !app_assoc. reflexivity. }
        rewrite IH. cbn [rev]. rewrite map_app. cbn [map]. rewrite <- !app_assoc. reflexivity.
Qed.

(* the segments denote the documented reading (adjacent literal segments are not observable) *)
Theorem template_spec : forall s, flat (parse_template s) = template_reading s.
Proof. intros s. unfold parse_template, template_reading. rewrite go_spec. reflexivity. Qed.

(* ------------------------------------------------------------------ fuel is irrelevant *)
Lemma starts_with_len c s r : starts_with c s = Some r -> length s = S (length r).
Proof.
  destruct s as [|b t]; cbn; [discriminate|]. destruct (b =? c); [|discriminate].
  intros H; inversion H; reflexivity.
Qed.

Lemma skip_ws_len s : (length (skip_ws s) <= length s)%nat.
Proof. induction s as [|b r IH]; cbn; [lia|]. destruct (is_ws b); cbn; lia. Qed.

Lemma take_name_len s : (length (snd (take_name s)) <= length s)%nat.
Proof.
  induction s as [|b r IH]; cbn; [lia|]. destruct (is_alnum_us b); cbn; [|lia].
  destruct (take_name r) as [n r']. cbn in *. lia.
Qed.

Lemma placeholder_len s n r : placeholder s = Some (n, r) -> (length r < length s)%nat.
Proof.
  unfold placeholder. pose proof (skip_ws_len s) as H0.
  destruct (skip_ws s) as [|b t] eqn:E; [discriminate|].
  destruct (is_alpha_us b); [|discriminate].
  pose proof (take_name_len (b :: t)) as H1. destruct (take_name (b :: t)) as [n' r1]. cbn [snd] in H1.
  pose proof (skip_ws_len r1) as H2.
  destruct (starts_with RB (skip_ws r1)) as [r2|] eqn:E2; [|discriminate].
  apply starts_with_len in E2. intros H; inversion H; subst. lia.
Qed.

Lemma until_close_len s : (length (snd (until_close s)) <= length s)%nat.
Proof.
  induction s as [|b r IH]; cbn; [lia|]. destruct (b =? RB); cbn; [lia|].
  destruct (until_close r) as [c r']. cbn in *. lia.
Qed.

Lemma reading_fuel : forall f f' s,
  (length s < f)%nat -> (length s < f')%nat -> reading f s = reading f' s.
Proof.
  induction f as [|f IH]; intros f' s Hf Hf'; [lia|].
  destruct f' as [|f']; [lia|]. cbn [reading].
  destruct s as [|b r]; [reflexivity|]. cbn [length] in *.
  destruct (b =? LB).
  - destruct (starts_with LB r) as [r2|] eqn:E.
    + apply starts_with_len in E. f_equal. apply IH; lia.
    + destruct (placeholder r) as [[n r']|] eqn:Ep.
      * apply placeholder_len in Ep. f_equal. apply IH; lia.
      * pose proof (until_close_len r) as Hu. destruct (until_close r) as [c r']. cbn [snd] in Hu.
        f_equal. apply IH; lia.
  - destruct (b =? RB).
    + destruct (starts_with RB r) as [r2|] eqn:E.
      * apply starts_with_len in E. f_equal. apply IH; lia.
      * f_equal. apply IH; lia.
    + f_equal. apply IH; lia.
Qed.

Lemma reading_R f s : (length s < f)%nat -> reading f s = template_reading s.
Proof. intros H. unfold template_reading. apply reading_fuel; lia. Qed.

Lemma reading_S f s :
  reading (S f) s =
    match s with
    | [] => []
    | b :: r =>
        if b =? LB then
          match starts_with LB r with
          | Some r2 => IChar LB :: reading f r2
          | None =>
              match placeholder r with
              | Some (n, r') => IVar n :: reading f r'
              | None => let '(c, r') := until_close r in map IChar (LB :: c) ++ reading f r'
              end
          end
        else if b =? RB then
          match starts_with RB r with
          | Some r2 => IChar RB :: reading f r2
          | None => IChar RB :: reading f r
          end
        else IChar b :: reading f r
    end.
Proof. reflexivity. Qed.

Lemma R_nil : template_reading [] = [].
Proof. reflexivity. Qed.

(* the reading, one step at a time, without fuel *)
Lemma R_cons b r :
  template_reading (b :: r) =
    if b =? LB then
      match starts_with LB r with
      | Some r2 => IChar LB :: template_reading r2
      | None =>
          match placeholder r with
          | Some (n, r') => IVar n :: template_reading r'
          | None => let '(c, r') := until_close r in map IChar (LB :: c) ++ template_reading r'
          end
      end
    else if b =? RB then
      match starts_with RB r with
      | Some r2 => IChar RB :: template_reading r2
      | None => IChar RB :: template_reading r
      end
    else IChar b :: template_reading r.
Proof.
  unfold template_reading at 1. rewrite reading_S. cbn [length].
  destruct (b =? LB).
  - destruct (starts_with LB r) as [r2|] eqn:E.
    + apply starts_with_len in E. rewrite reading_R by lia. reflexivity.
    + destruct (placeholder r) as [[n r']|] eqn:Ep.
      * apply placeholder_len in Ep. rewrite reading_R by lia. reflexivity.
      * pose proof (until_close_len r) as Hu. destruct (until_close r) as [c r']. cbn [snd] in Hu.
        rewrite reading_R by lia. reflexivity.
  - destruct (b =? RB).
    + destruct (starts_with RB r) as [r2|] eqn:E.
      * apply starts_with_len in E. rewrite reading_R by lia. reflexivity.
      * rewrite reading_R by lia. reflexivity.
    + rewrite reading_R by lia. reflexivity.
Qed.

(* ------------------------------------------------------------------ what the reading says *)
(* text without braces is itself *)
Lemma R_plain : forall t rest,
  has_byte LB t = false -> has_byte RB t = false ->
  template_reading (t ++ rest) = map IChar t ++ template_reading rest.
Proof.
  induction t as [|b t IH]; intros rest H1 H2; [reflexivity|].
  cbn [has_byte existsb] in H1, H2. apply orb_false_iff in H1, H2. destruct H1 as [H1 H1'], H2 as [H2 H2'].
  cbn [app map]. rewrite R_cons. rewrite Z.eqb_sym in H1, H2. rewrite H1, H2.
  f_equal. apply IH; assumption.
Qed.

(* doubled braces denote single braces: any text can be written *)
Lemma R_escape : forall t rest,
  template_reading (escape t ++ rest) = map IChar t ++ template_reading rest.
Proof.
  induction t as [|b t IH]; intros rest; [reflexivity|].
  unfold escape. cbn [flat_map]. fold (escape t). cbn [map].
  destruct (b =? LB) eqn:E1.
  - apply Z.eqb_eq in E1. subst b. cbn [app]. rewrite R_cons. rewrite Z.eqb_refl.
    cbn [starts_with]. rewrite Z.eqb_refl. rewrite IH. reflexivity.
  - destruct (b =? RB) eqn:E2.
    + apply Z.eqb_eq in E2. subst b. cbn [app]. rewrite R_cons. rewrite E1, Z.eqb_refl.
      cbn [starts_with]. rewrite Z.eqb_refl. rewrite IH. reflexivity.
    + cbn [app]. rewrite R_cons, E1, E2, IH. reflexivity.
Qed.

Lemma alpha_not_ws b : is_alpha_us b = true -> is_ws b = false.
Proof. unfold is_alpha_us, is_ws. lia. Qed.
Lemma alpha_not_brace b : is_alpha_us b = true -> (b =? LB) = false /\ (b =? RB) = false.
Proof. unfold is_alpha_us, LB, RB. lia. Qed.
Lemma alpha_alnum b : is_alpha_us b = true -> is_alnum_us b = true.
Proof. unfold is_alnum_us. intros ->. reflexivity. Qed.

Lemma take_name_all : forall n b rest,
  forallb is_alnum_us n = true -> is_alnum_us b = false ->
  take_name (n ++ b :: rest) = (n, b :: rest).
Proof.
  induction n as [|c n IH]; intros b rest Hn Hb; cbn [app take_name].
  - rewrite Hb. reflexivity.
  - cbn [forallb] in Hn. apply andb_prop in Hn. destruct Hn as [Hc Hn]. rewrite Hc.
    rewrite (IH b rest Hn Hb). reflexivity.
Qed.

Lemma skip_ws_all : forall w b rest,
  forallb is_ws w = true -> is_ws b = false -> skip_ws (w ++ b :: rest) = b :: rest.
Proof.
  induction w as [|c w IH]; intros b rest Hw Hb; cbn [app skip_ws].
  - rewrite Hb. reflexivity.
  - cbn [forallb] in Hw. apply andb_prop in Hw. destruct Hw as [Hc Hw]. rewrite Hc. apply IH; assumption.
Qed.

(* `{ name }` with any whitespace inside the braces is a reference to `name` *)
Lemma placeholder_ok : forall w1 n w2 rest,
  forallb is_ws w1 = true -> valid_name n = true -> forallb is_ws w2 = true ->
  placeholder (w1 ++ n ++ w2 ++ RB :: rest) = Some (n, rest).
Proof.
  intros w1 n w2 rest Hw1 Hn Hw2. destruct n as [|b n]; [discriminate|].
  cbn [valid_name] in Hn. apply andb_prop in Hn. destruct Hn as [Hb Hn].
  unfold placeholder. cbn [app]. rewrite (skip_ws_all w1 b _ Hw1 (alpha_not_ws b Hb)). rewrite Hb.
  assert (Hrb : is_alnum_us RB = false) by reflexivity.
  assert (Hrw : is_ws RB = false) by reflexivity.
  assert (Htn : take_name (b :: n ++ w2 ++ RB :: rest) = (b :: n, w2 ++ RB :: rest)).
  { change (b :: n ++ w2 ++ RB :: rest) with ((b :: n) ++ w2 ++ RB :: rest).
    assert (Hbn : forallb is_alnum_us (b :: n) = true)
      by (cbn [forallb]; rewrite (alpha_alnum b Hb), Hn; reflexivity).
    destruct w2 as [|c w2].
    - apply (take_name_all (b :: n) RB rest Hbn Hrb).
    - apply (take_name_all (b :: n) c (w2 ++ RB :: rest) Hbn).
      cbn [forallb] in Hw2. apply andb_prop in Hw2. destruct Hw2 as [Hc _].
      unfold is_alnum_us, is_alpha_us. unfold is_ws in Hc. lia. }
  rewrite Htn. rewrite (skip_ws_all w2 RB rest Hw2 Hrw). cbn [starts_with]. rewrite Z.eqb_refl. reflexivity.
Qed.

Lemma R_placeholder : forall w1 n w2 rest,
  forallb is_ws w1 = true -> valid_name n = true -> forallb is_ws w2 = true ->
  template_reading (LB :: w1 ++ n ++ w2 ++ RB :: rest) = IVar n :: template_reading rest.
Proof.
  intros w1 n w2 rest Hw1 Hn Hw2. rewrite R_cons. rewrite Z.eqb_refl.
  assert (Hs : starts_with LB (w1 ++ n ++ w2 ++ RB :: rest) = None).
  { destruct w1 as [|c w1].
    - destruct n as [|b n]; [discriminate|]. cbn [valid_name] in Hn. apply andb_prop in Hn.
      destruct Hn as [Hb _]. cbn [app starts_with]. rewrite (proj1 (alpha_not_brace b Hb)). reflexivity.
    - cbn [forallb] in Hw1. apply andb_prop in Hw1. destruct Hw1 as [Hc _].
      cbn [app starts_with]. assert (E : (c =? LB) = false) by (unfold is_ws, LB in *; lia).
      rewrite E. reflexivity. }
  rewrite Hs. rewrite placeholder_ok by assumption. reflexivity.
Qed.

(* every sequence of text pieces and variable references has a template that reads as it *)
Theorem template_roundtrip : forall segs,
  forallb seg_ok segs = true -> template_reading (unparse segs) = flat segs.
Proof.
  intros segs H.
  assert (G : forall rest, template_reading (unparse segs ++ rest) = flat segs ++ template_reading rest).
  { induction segs as [|g segs IH]; intros rest; [reflexivity|].
    cbn [forallb] in H. apply andb_prop in H. destruct H as [Hg H].
    unfold unparse, flat. cbn [flat_map]. fold (unparse segs). fold (flat segs).
    rewrite <- !app_assoc. destruct g as [t|n]; cbn [unparse_seg flat_seg].
    - rewrite R_escape. rewrite IH by exact H. reflexivity.
    - cbn [seg_ok] in Hg. cbn [app]. rewrite <- app_assoc. cbn [app].
      pose proof (R_placeholder [] n [] (unparse segs ++ rest) eq_refl Hg eq_refl) as Hp.
      cbn [app] in Hp. rewrite Hp.
      rewrite IH by exact H. reflexivity. }
  specialize (G []). rewrite R_nil in G. rewrite !app_nil_r in G. exact G.
Qed.

Lemma R_nonempty b r : template_reading (b :: r) <> [].
Proof.
  rewrite R_cons. destruct (b =? LB).
  - destruct (starts_with LB r); [discriminate|]. destruct (placeholder r) as [[n r']|]; [discriminate|].
    destruct (until_close r) as [c r']. discriminate.
  - destruct (b =? RB); [destruct (starts_with RB r)|]; discriminate.
Qed.

(* ------------------------------------------------------------------ parse_string_literal *)
(* after the two repairs every literal reads as documented *)
Theorem literal_spec_repaired : forall s owned,
  parts_items (parse_string_literal repaired s owned) = template_reading s.
Proof.
  intros s owned. unfold parse_string_literal. cbn [v_open_brace_gate v_owned_static repaired].
  destruct (has_byte LB s || has_byte RB s) eqn:G; cbn [negb].
  - rewrite andb_false_r. pose proof (template_spec s) as T.
    destruct (parse_template s) as [|g segs]; [|exact T].
    cbn in T. destruct s as [|b r]; [reflexivity|]. symmetry in T. apply R_nonempty in T. contradiction.
  - apply orb_false_iff in G. destruct G as [G1 G2]. cbn [parts_items].
    rewrite <- (app_nil_r s) at 2. rewrite R_plain by assumption. rewrite R_nil, app_nil_r. reflexivity.
Qed.

(* the shipped parser: the literals it reads differently are inside this class *)
Definition known_class (s : bytes) (owned : bool) : Prop :=
  (owned = true /\ has_byte LB s = true) \/ (has_byte LB s = false /\ has_byte RB s = true).

Theorem literal_spec_shipped : forall s owned,
  ~ known_class s owned ->
  parts_items (parse_string_literal shipped s owned) = template_reading s.
Proof.
  intros s owned Hk. unfold parse_string_literal. cbn [v_open_brace_gate v_owned_static shipped].
  destruct (has_byte LB s) eqn:G1; cbn [negb].
  - destruct owned; [exfalso; apply Hk; left; auto|]. cbn [andb].
    pose proof (template_spec s) as T.
    destruct (parse_template s) as [|g segs]; [|exact T].
    cbn in T. destruct s as [|b r]; [reflexivity|]. symmetry in T. apply R_nonempty in T. contradiction.
  - destruct (has_byte RB s) eqn:G2; [exfalso; apply Hk; right; auto|]. cbn [parts_items].
    rewrite <- (app_nil_r s) at 2. rewrite R_plain by assumption. rewrite R_nil, app_nil_r. reflexivity.
Qed.

(* witnesses: "a\t{x}" (token content a TAB {x}, Owned) and "}}" *)
Lemma shipped_escape_not_interpolated :
  parts_items (parse_string_literal shipped [97; 9; 123; 120; 125] true)
  <> template_reading [97; 9; 123; 120; 125].
Proof. vm_compute. discriminate. Qed.

Lemma shipped_close_brace_not_unescaped :
  parts_items (parse_string_literal shipped [125; 125] false) <> template_reading [125; 125].
Proof. vm_compute. discriminate. Qed.

(* the runtime tests string_interpolation_* as readings *)
Example reading_single_brace : template_reading [123] = [IChar 123].
Proof. reflexivity. Qed.
Example reading_empty_placeholder : template_reading [123; 125] = [IChar 123; IChar 125].
Proof. reflexivity. Qed.
Example reading_nested : (* {a{b}c} *)
  template_reading [123; 97; 123; 98; 125; 99; 125] = map IChar [123; 97; 123; 98; 125; 99; 125].
Proof. reflexivity. Qed.
Example reading_ws : (* "Hello { name }" *)
  template_reading [72; 123; 32; 110; 32; 125] = [IChar 72; IVar [110]].
Proof. reflexivity. Qed.
Example reading_literal_braces : (* {{x}} *)
  template_reading [123; 123; 120; 125; 125] = map IChar [123; 120; 125].
Proof. reflexivity. Qed.

(* one statement for whatever parse_string_literal the source has: outside the class the two
   switches carve out, a literal reads as documented; with both repairs the class is empty *)
Definition known_class_v (v : variant) (s : bytes) (owned : bool) : Prop :=
  (v_owned_static v = true /\ owned = true /\ (has_byte LB s = true \/ has_byte RB s = true)) \/
  (v_open_brace_gate v = true /\ has_byte LB s = false /\ has_byte RB s = true).

Theorem literal_spec_any : forall v s owned,
  ~ known_class_v v s owned ->
  parts_items (parse_string_literal v s owned) = template_reading s.
Proof.
  intros v s owned Hk. unfold parse_string_literal.
  assert (Plain : has_byte LB s = false -> has_byte RB s = false ->
                  parts_items (SStatic s) = template_reading s).
  { intros G1 G2. cbn [parts_items]. rewrite <- (app_nil_r s) at 2.
    rewrite R_plain by assumption. rewrite R_nil, app_nil_r. reflexivity. }
  assert (Tpl' : parts_items (match parse_template s with [] => SStatic s | g :: l => SInterp (g :: l) end)
                 = template_reading s).
  { pose proof (template_spec s) as T. destruct (parse_template s) as [|g segs]; [|exact T].
    cbn in T. destruct s as [|b r]; [reflexivity|]. symmetry in T. apply R_nonempty in T. contradiction. }
  destruct (has_byte LB s) eqn:G1; destruct (has_byte RB s) eqn:G2;
    destruct (v_open_brace_gate v) eqn:Vg; destruct (v_owned_static v) eqn:Vo; destruct owned;
    cbn [negb orb andb];
    try exact Tpl'; try (apply Plain; reflexivity);
    exfalso; apply Hk; unfold known_class_v; rewrite ?Vg, ?Vo; tauto.
Qed.

Corollary literal_spec_repaired_all : forall s owned, ~ known_class_v repaired s owned.
Proof. intros s owned [[H _]|[H _]]; discriminate H. Qed.


(* with the `{` gate (the parser as coded): every literal reads as `literal_reading`, except a
   literal with an escape sequence and a `{` while Owned content is still returned as Static *)
Theorem literal_spec_gate : forall v s owned,
  v_open_brace_gate v = true ->
  ~ (v_owned_static v = true /\ owned = true /\ has_byte LB s = true) ->
  parts_items (parse_string_literal v s owned) = literal_reading s.
Proof.
  intros v s owned Vg Hk. unfold parse_string_literal, literal_reading. rewrite Vg.
  destruct (has_byte LB s) eqn:G1; cbn [negb]; [|reflexivity].
  assert (E : (owned && v_owned_static v) = false).
  { destruct owned, (v_owned_static v) eqn:Vo; try reflexivity. exfalso. apply Hk. auto. }
  rewrite E. pose proof (template_spec s) as T.
  destruct (parse_template s) as [|g segs]; [|exact T].
  cbn in T. destruct s as [|b r]; [discriminate G1|]. symmetry in T. apply R_nonempty in T. contradiction.
Qed.

Corollary literal_spec_current : forall s owned,
  parts_items (parse_string_literal current s owned) = literal_reading s.
Proof.
  intros s owned. apply literal_spec_gate; [reflexivity|]. intros (H & _). discriminate H.
Qed.

(* the undocumented quirk, for the record *)
Example quirk_close_braces_alone : literal_reading [125; 125] = [IChar 125; IChar 125].
Proof. reflexivity. Qed.
Example quirk_close_braces_after_open : literal_reading [123; 123; 125; 125] = [IChar 123; IChar 125].
Proof. reflexivity. Qed.
