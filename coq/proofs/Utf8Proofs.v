(* Utf8Proofs.v — structure of well-formed UTF-8 used by the lexer and renderer proofs:
   a suffix of a valid text is valid exactly when it starts on a character boundary. *)
From Coq Require Import ZArith List Bool Arith Lia.
Require Import NS.theories.Utf8.
Import ListNotations.
Open Scope nat_scope.

(* ---------------------------------------------------------------- lists *)

Lemma skipn_skipn' : forall (A : Type) (x y : nat) (l : list A), skipn x (skipn y l) = skipn (y + x) l.
Proof.
  intros A x y. revert x. induction y as [|y IH]; intros x l.
  - reflexivity.
  - destruct l as [|a l].
    + rewrite !skipn_nil. reflexivity.
    + cbn [skipn plus]. apply IH.
Qed.

Lemma skipn_cons_inv : forall (A : Type) (p : nat) (s : list A) b t,
  skipn p s = b :: t -> p < length s /\ skipn (S p) s = t /\ nth_error s p = Some b.
Proof.
  intros A p. induction p as [|p IH]; intros s b t H.
  - destruct s as [|a s]; cbn in H; [discriminate|]. inversion H; subst. cbn. repeat split; try lia.
  - destruct s as [|a s]; cbn in H; [discriminate|].
    destruct (IH _ _ _ H) as (H1 & H2 & H3). cbn [length]. repeat split; try lia; assumption.
Qed.

Lemma nth_error_skipn_hd : forall (A : Type) (p : nat) (s : list A) b,
  nth_error s p = Some b -> exists t, skipn p s = b :: t.
Proof.
  intros A p. induction p as [|p IH]; intros s b H; destruct s as [|a s]; cbn in H; try discriminate.
  - inversion H; subst. eexists; reflexivity.
  - cbn. apply IH. exact H.
Qed.

Lemma skipn_nil_inv : forall (A : Type) (p : nat) (s : list A), skipn p s = [] -> length s <= p.
Proof.
  intros A p s H. pose proof (skipn_length p s) as L. rewrite H in L. cbn in L. lia.
Qed.

(* ---------------------------------------------------------------- byte classes *)

Lemma in_range_spec : forall lo hi b, in_range lo hi b = true <-> (lo <= b <= hi)%Z.
Proof. intros. unfold in_range. rewrite andb_true_iff, !Z.leb_le. tauto. Qed.

Lemma in_range_false : forall lo hi b, in_range lo hi b = false <-> (b < lo \/ hi < b)%Z.
Proof.
  intros. unfold in_range. rewrite andb_false_iff, !Z.leb_gt. tauto.
Qed.

Lemma ascii_not_cont : forall b, is_ascii b = true -> is_cont b = false.
Proof.
  intros b H. unfold is_ascii in H. apply in_range_spec in H. unfold is_cont. apply in_range_false. lia.
Qed.

Lemma char_width_ascii : forall b, is_ascii b = true -> char_width b = 1.
Proof. intros b H. unfold char_width. unfold is_ascii in H. rewrite H. reflexivity. Qed.

(* ---------------------------------------------------------------- validity: one step *)

Lemma valid_nil : valid_utf8 [] = true.
Proof. reflexivity. Qed.

Lemma valid_ascii_tail : forall b t, is_ascii b = true -> valid_utf8 (b :: t) = valid_utf8 t.
Proof. intros b t H. unfold is_ascii in H. cbn [valid_utf8]. rewrite H. reflexivity. Qed.

Lemma valid_head_not_cont : forall b t, valid_utf8 (b :: t) = true -> is_cont b = false.
Proof.
  intros b t H. cbn [valid_utf8] in H. unfold is_cont. apply in_range_false.
  destruct (in_range 0 127 b) eqn:E1; [apply in_range_spec in E1; lia|].
  destruct (in_range 194 223 b) eqn:E2; [apply in_range_spec in E2; lia|].
  destruct (in_range 224 239 b) eqn:E3; [apply in_range_spec in E3; lia|].
  destruct (in_range 240 244 b) eqn:E4; [apply in_range_spec in E4; lia|].
  discriminate.
Qed.

(* the character at the head of a valid text: its width, and what follows is valid *)
Lemma valid_step : forall b t, valid_utf8 (b :: t) = true ->
  let w := char_width b in
  1 <= w <= 4 /\ w <= length (b :: t) /\ valid_utf8 (skipn w (b :: t)) = true /\
  (forall i x, 1 <= i < w -> nth_error (b :: t) i = Some x -> is_cont x = true).
Proof.
  intros b t H. cbn [valid_utf8] in H. unfold char_width.
  destruct (in_range 0 127 b) eqn:E1.
  { cbn. repeat split; try lia. exact H. }
  destruct (in_range 194 223 b) eqn:E2.
  { destruct t as [|b1 t1]; [discriminate|]. apply andb_true_iff in H as [C1 V].
    cbn. repeat split; try lia; try exact V.
    intros i x Hi Hx. assert (i = 1) by lia. subst. cbn in Hx. inversion Hx; subst. exact C1. }
  destruct (in_range 224 239 b) eqn:E3.
  { destruct t as [|b1 [|b2 t2]]; try discriminate.
    apply andb_true_iff in H as [H V]. apply andb_true_iff in H as [R1 C2].
    assert (C1 : is_cont b1 = true).
    { unfold is_cont. apply in_range_spec. apply in_range_spec in R1.
      unfold second_lo, second_hi in R1.
      destruct (b =? 224)%Z, (b =? 240)%Z, (b =? 237)%Z, (b =? 244)%Z; lia. }
    cbn. repeat split; try lia; try exact V.
    intros i x Hi Hx. assert (i = 1 \/ i = 2) as [-> | ->] by lia; cbn in Hx; inversion Hx; subst; assumption. }
  destruct (in_range 240 244 b) eqn:E4.
  { destruct t as [|b1 [|b2 [|b3 t3]]]; try discriminate.
    apply andb_true_iff in H as [H V]. apply andb_true_iff in H as [H C3]. apply andb_true_iff in H as [R1 C2].
    assert (C1 : is_cont b1 = true).
    { unfold is_cont. apply in_range_spec. apply in_range_spec in R1.
      unfold second_lo, second_hi in R1.
      destruct (b =? 224)%Z, (b =? 240)%Z, (b =? 237)%Z, (b =? 244)%Z; lia. }
    cbn. repeat split; try lia; try exact V.
    intros i x Hi Hx. assert (i = 1 \/ i = 2 \/ i = 3) as [-> | [-> | ->]] by lia; cbn in Hx; inversion Hx; subst; assumption. }
  discriminate.
Qed.

(* ---------------------------------------------------------------- suffixes and boundaries *)

(* a valid suffix starts on a boundary *)
Lemma valid_suffix_boundary : forall s i,
  i <= length s -> valid_utf8 (skipn i s) = true -> is_boundary s i = true.
Proof.
  intros s i Hi V. unfold is_boundary.
  destruct (skipn i s) as [|b t] eqn:E.
  - apply skipn_nil_inv in E. assert (i = length s) by lia. subst.
    rewrite Nat.eqb_refl, orb_true_r. reflexivity.
  - apply skipn_cons_inv in E. destruct E as (_ & _ & N). rewrite N.
    apply valid_head_not_cont in V. rewrite V. cbn. apply orb_true_r.
Qed.

(* in a valid text, the suffix that starts at a non-continuation byte (or at the end) is valid *)
Lemma valid_suffix_aux : forall n s, length s <= n -> valid_utf8 s = true ->
  forall i, (skipn i s = [] \/ exists b t, skipn i s = b :: t /\ is_cont b = false) ->
  valid_utf8 (skipn i s) = true.
Proof.
  induction n as [|n IH]; intros s Hn V i Hi.
  - destruct s; [|cbn in Hn; lia]. rewrite skipn_nil. reflexivity.
  - destruct i as [|i]; [exact V|].
    destruct s as [|b t]; [rewrite skipn_nil; reflexivity|].
    pose proof (valid_step b t V) as (W1 & W2 & W3 & W4). cbn zeta in *.
    set (w := char_width b) in *.
    destruct (Nat.lt_ge_cases (S i) w) as [Hlt | Hge].
    + (* S i strictly inside the first character: the byte there is a continuation byte *)
      destruct Hi as [Hnil | (x & t' & Hx & Hc)].
      * apply skipn_nil_inv in Hnil. lia.
      * apply skipn_cons_inv in Hx. destruct Hx as (_ & _ & N).
        rewrite (W4 (S i) x) in Hc; [discriminate| lia | exact N].
    + replace (S i) with (w + (S i - w)) by lia.
      rewrite <- skipn_skipn'.
      apply IH.
      * rewrite skipn_length. cbn [length] in *. lia.
      * exact W3.
      * rewrite skipn_skipn'. replace (w + (S i - w)) with (S i) by lia. exact Hi.
Qed.

Lemma valid_suffix : forall s i, valid_utf8 s = true ->
  (skipn i s = [] \/ exists b t, skipn i s = b :: t /\ is_cont b = false) ->
  valid_utf8 (skipn i s) = true.
Proof. intros s i V H. eapply valid_suffix_aux; eauto. Qed.

Lemma boundary_valid_suffix : forall s i, valid_utf8 s = true -> is_boundary s i = true ->
  valid_utf8 (skipn i s) = true.
Proof.
  intros s i V B. apply valid_suffix; [exact V|].
  destruct (skipn i s) as [|b t] eqn:E; [left; reflexivity|right].
  exists b, t. split; [reflexivity|].
  pose proof (skipn_cons_inv _ _ _ _ _ E) as (L & _ & N).
  unfold is_boundary in B. rewrite N in B.
  destruct i as [|i].
  - cbn in E. subst s. eapply valid_head_not_cont; eauto.
  - replace (S i =? 0) with false in B by reflexivity.
    replace (S i =? length s) with false in B by (symmetry; apply Nat.eqb_neq; lia).
    cbn in B. destruct (is_cont b); [discriminate|reflexivity].
Qed.

(* after an ASCII byte comes a boundary *)
Lemma valid_after_ascii : forall b t, valid_utf8 (b :: t) = true -> is_ascii b = true -> valid_utf8 t = true.
Proof. intros b t V A. rewrite valid_ascii_tail in V; assumption. Qed.

(* ---------------------------------------------------------------- slice *)

Lemma slice_some : forall s a b, a <= b -> b <= length s -> is_boundary s a = true -> is_boundary s b = true ->
  slice s a b = Some (firstn (b - a) (skipn a s)).
Proof.
  intros s a b H1 H2 H3 H4. unfold slice.
  apply Nat.leb_le in H1. apply Nat.leb_le in H2. rewrite H1, H2, H3, H4. reflexivity.
Qed.

Lemma span_wf_slice : forall s a b, span_wf s a b -> slice s a b = Some (firstn (b - a) (skipn a s)).
Proof. intros s a b (H1 & H2 & H3 & H4). apply slice_some; assumption. Qed.

Lemma span_wfb_spec : forall s a b, span_wfb s a b = true <-> span_wf s a b.
Proof.
  intros. unfold span_wfb, span_wf. rewrite !andb_true_iff, !Nat.leb_le. tauto.
Qed.

Lemma boundary_0 : forall s, is_boundary s 0 = true.
Proof. intros. reflexivity. Qed.

Lemma boundary_len : forall s, is_boundary s (length s) = true.
Proof. intros. unfold is_boundary. rewrite Nat.eqb_refl, orb_true_r. reflexivity. Qed.
