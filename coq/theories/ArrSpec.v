(* ArrSpec — vocabulary for C05 ("arrays are values") over the core-language model Lang.v.
   Definitions only; the proofs are in proofs/ArrProofs.v.

   Values of Lang.v are immutable trees, so two variables can never share storage in the
   model; what has to be proved is the other half: every mutating construct of run_impl
   (indexed assignment, push, pop, reverse) rewrites exactly one variable slot of the
   environment and, inside the value of that slot, exactly one position.  The notions
   needed to say this:

     get_path v p        the element of v addressed by the index chain p (a[i][j]... )
     prefix / indep      p is an initial part of q / neither is an initial part of the other
     find_pos, slot_at   the position (scope number, slot number) a variable reference
                         (local id or name) resolves to, innermost scope first
     shape               scope count, and the ids/names/order of the slots of every scope
     eval_indices, store_idx, mutate_recv
                         the sub-steps of runtime.rs assign_index / get_mutable_array as
                         named functions (Lang.indices_with / mutate_with at the evaluator of
                         the next lower fuel; ArrProofs shows the equations by computation)
     pure_expr           expressions without any call: evaluating them cannot touch the
                         environment
     mut_base            the variable a mutating statement with call-free operands writes *)
From Coq Require Import ZArith List Bool.
Require Import NS.theories.F64 NS.theories.Lang.
Import ListNotations.
Open Scope Z_scope.

(* ---------- paths inside a value ---------- *)
Definition nth_z (items : list value) (i : Z) : option value :=
  if i <? 0 then None else nth_value items (Z.to_nat i).

Fixpoint get_path (v : value) (p : list Z) : option value :=
  match p with
  | [] => Some v
  | i :: r =>
      match v with
      | VArr items => match nth_z items i with Some x => get_path x r | None => None end
      | _ => None
      end
  end.

Definition prefix (p q : list Z) : Prop := exists r, q = p ++ r.
Definition indep (p q : list Z) : Prop := ~ prefix p q /\ ~ prefix q p.
Definition nonneg (p : list Z) : Prop := Forall (fun i => 0 <= i) p.

(* the length of the array found at a path (None: nothing there, or not an array) *)
Definition alen (o : option value) : option nat :=
  match o with Some (VArr items) => Some (length items) | _ => None end.

(* the first step of the walk along p that cannot be taken, and the error it raises:
   a non-array on the way is InvalidIndex, an index >= length is IndexOutOfBounds *)
Definition fault_at (v : value) (p : list Z) (e : rterr) : Prop :=
  exists q i r x, p = q ++ i :: r /\ get_path v q = Some x /\
    match x with
    | VArr items => e = IdxOob /\ len_z items <= i
    | _ => e = InvIdx
    end.

(* ---------- positions of variable slots ---------- *)
Fixpoint find_idx (l : option Z) (n : name) (sc : list slot) : option nat :=
  match sc with
  | [] => None
  | s :: r => if slot_matches l n s then Some O
              else match find_idx l n r with Some j => Some (S j) | None => None end
  end.

Fixpoint find_pos (l : option Z) (n : name) (e : list (list slot)) : option (nat * nat) :=
  match e with
  | [] => None
  | sc :: r =>
      match find_idx l n sc with
      | Some j => Some (O, j)
      | None => match find_pos l n r with Some (i, j) => Some (S i, j) | None => None end
      end
  end.

Definition slot_at (e : list (list slot)) (pos : nat * nat) : option slot :=
  match nth_error e (fst pos) with
  | Some sc => nth_error sc (snd pos)
  | None => None
  end.

Definition skey (s : slot) : option Z * name := (s_id s, s_name s).
Definition shape (e : list (list slot)) : list (list (option Z * name)) := map (map skey) e.

Definition with_val (s : slot) (v : value) : slot :=
  {| s_id := s_id s; s_name := s_name s; s_val := v |}.

(* ---------- the sub-steps of the mutating constructs, as top-level functions ---------- *)
Section RunSpec.
Variable P : plan.
Variable eps : f64.

(* eval_index_value over the flattened index expressions, left to right; argument lists *)
Definition eval_indices (n : nat) : list expr -> st -> M (list Z * st) :=
  indices_with (eval P eps n).
Definition evals (n : nat) : list expr -> st -> M (list value * st) :=
  evals_with (eval P eps n).

(* the store of `target get value`, once value and indices are evaluated *)
Definition store_idx (vn : name) (vl : option Z) (path : list Z) (v : value) (s : st)
  : M (flow * st) :=
  match lookup_env vl vn (env s) with
  | None => PanicM PMutVarMissing
  | Some root =>
      bindM (lift (assign_path root path v)) (fun root' =>
        match assign_env vl vn root' (env s) with
        | Some e' => OkM (FNormal, with_env e' s)
        | None => PanicM PMutVarMissing
        end)
  end.

(* the in-place update of push/pop/reverse, once argument and indices are evaluated *)
Definition store_mut (vn : name) (vl : option Z) (path : list Z) (op : mutop) (s : st)
  : M (value * st) :=
  match lookup_env vl vn (env s) with
  | None => PanicM PMutVarMissing
  | Some root =>
      bindM (lift (mutate_path root path op)) (fun '(root', r) =>
        match assign_env vl vn root' (env s) with
        | Some e' => OkM (r, with_env e' s)
        | None => PanicM PMutVarMissing
        end)
  end.

(* get_mutable_array on the receiver expression, then the mutation *)
Definition mutate_recv (n : nat) (o : expr) (op : mutop) (s : st) : M (value * st) :=
  match o with
  | EVar vn vl => store_mut vn vl [] op s
  | EIdx _ _ =>
      match flatten_target o [] with
      | None => ErrM TypeMis
      | Some (vn, vl, idx_exprs) =>
          bindM (eval_indices n idx_exprs s) (fun '(path, s1) => store_mut vn vl path op s1)
      end
  | _ => ErrM TypeMis
  end.

End RunSpec.

(* ---------- call-free expressions ---------- *)
Fixpoint pure_expr (e : expr) : bool :=
  match e with
  | ENum _ | EStr _ | EInterp _ | EBool _ | ENull | EVar _ _ => true
  | EBin _ a b => pure_expr a && pure_expr b
  | EUn _ a => pure_expr a
  | EArr es => forallb pure_expr es
  | EIdx a i => pure_expr a && pure_expr i
  | EMember o _ => pure_expr o
  | ECall _ _ _ => false
  end.

(* the variable written by a mutating statement whose operands are call-free *)
Definition target_var (t : expr) : option (name * option Z) :=
  match flatten_target t [] with
  | Some (vn, vl, _) => Some (vn, vl)
  | None => None
  end.

Definition mut_base (t : stmt) : option (name * option Z) :=
  match t with
  | SSetIdx _ tg e => if pure_expr tg && pure_expr e then target_var tg else None
  | SExpr _ (ECall (EMember o f) args _) =>
      if mem_name f array_mut_methods && pure_expr o && forallb pure_expr args
      then target_var o else None
  | _ => None
  end.

(* the store phase of a mutating construct: the base variable held `root`, and the only
   change from state s to state s' is that its slot now holds `root'` *)
Definition stored (vn : name) (vl : option Z) (s s' : st) (root root' : value) : Prop :=
  lookup_env vl vn (env s) = Some root /\
  assign_env vl vn root' (env s) = Some (env s') /\
  fns s' = fns s.

(* a history: statements executed one after the other in the same scope, each ending
   normally (any fuel) *)
Inductive steps (P : plan) (eps : f64) : st -> list stmt -> st -> Prop :=
| steps_nil : forall s, steps P eps s [] s
| steps_cons : forall n t ts s o s1 s2,
    exec P eps n t s = (o, Ok (FNormal, s1)) -> steps P eps s1 ts s2 ->
    steps P eps s (t :: ts) s2.
