(* Bump.v — executable model of src/arena/bump.rs (struct Arena) plus a client that
   keeps a ledger of live blocks.  Model file: definitions only, no proofs.

   Numbers are unbounded Z: the code's usize arithmetic cannot wrap for sizes below
   2^63 (Layout guarantees size <= isize::MAX) and reservations below 2^47.
   The commit/decommit system calls are modelled as always succeeding. *)
From Coq Require Import ZArith List Bool.
Require Import NS.theories.Generated.
Import ListNotations.
Open Scope Z_scope.

(* (x + a - 1) & !(a - 1), exactly the expression in the source. *)
Definition mask_up (x a : Z) : Z := Z.ldiff (x + a - 1) (a - 1).

Record arena := mkArena { a_base : Z; a_off : Z; a_com : Z; a_cap : Z }.
(* a_base: address of the reservation (page-aligned by the OS; any Z in the model). *)

(* Arena::new *)
Definition arena_new (base capacity : Z) : arena :=
  mkArena base 0 0 (mask_up (Z.max capacity 1) chunk).

Definition mem := Z -> Z.
Definition fill (m : mem) (lo len v : Z) : mem :=
  fun x => if (lo <=? x) && (x <? lo + len) then v else m x.
Definition copy (m : mem) (src dst len : Z) : mem :=
  fun x => if (dst <=? x) && (x <? dst + len) then m (x - dst + src) else m x.

Record st := mkSt { s_a : arena; s_m : mem }.

(* debug-build fill of freshly allocated space:
   [offset, min(end+128, commit_seen)) with 0xCD. *)
Definition poison_alloc (dbg : bool) (m : mem) (off en com_seen : Z) : mem :=
  if dbg then fill m off (Z.min (en + 128) com_seen - off) 205 else m.

(* Arena::alloc_raw + alloc_raw_bump.  Returns (beg, len) and the new state. *)
Definition alloc_raw (dbg : bool) (s : st) (bytes al : Z) : option (Z * Z * st) :=
  let a := s_a s in
  let beg := mask_up (a_base a + a_off a) al - a_base a in
  let en := beg + bytes in
  if en >? a_com a then
    let cn := mask_up en chunk in
    if cn >? a_cap a then None
    else Some (beg, en - beg,
               mkSt (mkArena (a_base a) en cn (a_cap a))
                    (poison_alloc dbg (s_m s) (a_off a) en (a_com a)))
  else Some (beg, bytes,
             mkSt (mkArena (a_base a) en (a_com a) (a_cap a))
                  (poison_alloc dbg (s_m s) (a_off a) en (a_com a))).

(* Allocator::allocate_zeroed *)
Definition alloc_zeroed (dbg : bool) (s : st) (bytes al : Z) : option (Z * Z * st) :=
  match alloc_raw dbg s bytes al with
  | Some (beg, len, s') => Some (beg, len, mkSt (s_a s') (fill (s_m s') beg len 0))
  | None => None
  end.

(* Allocator::grow: in place when the block ends at the bump pointer, else
   allocate-and-copy.  Returns the new (ptr, len). *)
Definition grow (dbg : bool) (s : st) (ptr old_size new_size new_al : Z)
  : option (Z * Z * st) :=
  if ptr + old_size =? a_off (s_a s) then
    match alloc_raw dbg s (new_size - old_size) 1 with
    | Some (_, _, s') => Some (ptr, new_size, s')
    | None => None
    end
  else
    match alloc_raw dbg s new_size new_al with
    | Some (np, _, s') => Some (np, new_size, mkSt (s_a s') (copy (s_m s') ptr np old_size))
    | None => None
    end.

Definition grow_zeroed (dbg : bool) (s : st) (ptr old_size new_size new_al : Z)
  : option (Z * Z * st) :=
  match grow dbg s ptr old_size new_size new_al with
  | Some (np, len, s') =>
      Some (np, len, mkSt (s_a s') (fill (s_m s') (np + old_size) (new_size - old_size) 0))
  | None => None
  end.

(* Allocator::shrink (tail only; the non-tail case is a debug assertion, and a
   no-op returning the old length in release). *)
Definition shrink (s : st) (ptr old_size new_size : Z) : Z * st :=
  if ptr + old_size =? a_off (s_a s) then
    (new_size, mkSt (mkArena (a_base (s_a s)) (a_off (s_a s) - old_size + new_size) (a_com (s_a s)) (a_cap (s_a s)))
                    (s_m s))
  else (old_size, s).

(* Arena::reset *)
Definition reset (dbg : bool) (s : st) (to : Z) : st :=
  let a := s_a s in
  let m := if dbg && (a_off a >? to)
           then fill (s_m s) to (Z.min (a_off a + 128) (a_com a) - to) 221
           else s_m s in
  mkSt (mkArena (a_base a) to (a_com a) (a_cap a)) m.

(* Arena::decommit *)
Definition decommit (s : st) : st :=
  let a := s_a s in
  let keep := mask_up (a_off a) chunk in
  if keep <? a_com a then mkSt (mkArena (a_base a) (a_off a) keep (a_cap a)) (s_m s) else s.

(* ------------------------------------------------------------------ *)
(* Client: a ledger of live blocks, and operations that name blocks by
   their position in the ledger (taken modulo its length), so that every
   op list is a well-formed use of the API. *)

Record blk := mkBlk { b_id : Z; b_off : Z; b_len : Z; b_al : Z; b_init : Z }.

Record cst := mkCst {
  c_s : st;
  c_live : list blk;      (* newest first *)
  c_next : Z;             (* next block id *)
  c_marks : list Z        (* scratch borrow stack: saved offsets *)
}.

Inductive op :=
| OAlloc (bytes : Z) (k : nat)              (* align 2^k *)
| OAllocZ (bytes : Z) (k : nat)
| OGrow (idx : nat) (delta : Z) (zeroed : bool)
| OShrink (idx : nat) (d : Z)
| OReset (t : Z)
| OResetBlk (idx : nat)
| ODecommit
| OWrite (idx : nat) (seed : Z)
| OBorrow
| ORelease.

Inductive res :=
| RBlock (ok : bool) (beg len : Z)
| RNone.

Definition pick {A} (l : list A) (idx : nat) : option A :=
  match l with
  | [] => None
  | _ => nth_error l (Nat.modulo idx (length l))
  end.

Definition pattern (seed i : Z) : Z := (seed + i * 7) mod 251.

Definition write_pat (m : mem) (base len seed : Z) : mem :=
  fun x => if (base <=? x) && (x <? base + len) then pattern seed (x - base) else m x.

Definition replace_blk (l : list blk) (id : Z) (b : blk) : list blk :=
  map (fun x => if b_id x =? id then b else x) l.

Definition keep_below (to : Z) (l : list blk) : list blk :=
  filter (fun b => b_off b + b_len b <=? to) l.

(* A reset (or a tail shrink) below a saved borrow offset invalidates that borrow. *)
Definition trim_marks (to : Z) (l : list Z) : list Z := filter (fun m => m <=? to) l.

Definition do_reset (dbg : bool) (c : cst) (to : Z) : cst :=
  mkCst (reset dbg (c_s c) to) (keep_below to (c_live c)) (c_next c) (trim_marks to (c_marks c)).

Definition cstep (dbg : bool) (c : cst) (o : op) : cst * res :=
  match o with
  | OAlloc bytes k =>
      let al := 2 ^ Z.of_nat k in
      match alloc_raw dbg (c_s c) bytes al with
      | Some (beg, len, s') =>
          (mkCst s' (mkBlk (c_next c) beg len al 0 :: c_live c) (c_next c + 1) (c_marks c),
           RBlock true beg len)
      | None => (c, RBlock false 0 0)
      end
  | OAllocZ bytes k =>
      let al := 2 ^ Z.of_nat k in
      match alloc_zeroed dbg (c_s c) bytes al with
      | Some (beg, len, s') =>
          (mkCst s' (mkBlk (c_next c) beg len al len :: c_live c) (c_next c + 1) (c_marks c),
           RBlock true beg len)
      | None => (c, RBlock false 0 0)
      end
  | OGrow idx delta zeroed =>
      match pick (c_live c) idx with
      | None => (c, RNone)
      | Some b =>
          let ns := b_len b + delta in
          match (if zeroed then grow_zeroed else grow) dbg (c_s c) (b_off b) (b_len b) ns (b_al b) with
          | Some (np, len, s') =>
              let init' := if zeroed && (b_init b =? b_len b) then len else b_init b in
              (mkCst s' (replace_blk (c_live c) (b_id b) (mkBlk (b_id b) np len (b_al b) init'))
                     (c_next c) (c_marks c),
               RBlock true np len)
          | None => (c, RBlock false 0 0)
          end
      end
  | OShrink idx d =>
      match pick (c_live c) idx with
      | None => (c, RNone)
      | Some b =>
          if b_off b + b_len b =? a_off (s_a (c_s c)) then
            let ns := b_len b - d mod (b_len b + 1) in
            let '(len, s') := shrink (c_s c) (b_off b) (b_len b) ns in
            (* empty blocks sitting at the old bump pointer fall off the ledger *)
            (mkCst s' (keep_below (a_off (s_a s'))
                         (replace_blk (c_live c) (b_id b)
                            (mkBlk (b_id b) (b_off b) len (b_al b) (Z.min (b_init b) len))))
                   (c_next c) (trim_marks (a_off (s_a s')) (c_marks c)),
             RBlock true (b_off b) len)
          else (c, RNone)
      end
  | OReset t =>
      let to := t mod (a_off (s_a (c_s c)) + 1) in
      (do_reset dbg c to, RBlock true to 0)
  | OResetBlk idx =>
      match pick (c_live c) idx with
      | None => (c, RNone)
      | Some b => (do_reset dbg c (b_off b), RBlock true (b_off b) 0)
      end
  | ODecommit =>
      (mkCst (decommit (c_s c)) (c_live c) (c_next c) (c_marks c), RNone)
  | OWrite idx seed =>
      match pick (c_live c) idx with
      | None => (c, RNone)
      | Some b =>
          (mkCst (mkSt (s_a (c_s c)) (write_pat (s_m (c_s c)) (b_off b) (b_len b) seed))
                 (replace_blk (c_live c) (b_id b)
                    (mkBlk (b_id b) (b_off b) (b_len b) (b_al b) (b_len b)))
                 (c_next c) (c_marks c),
           RBlock true (b_off b) (b_len b))
      end
  | OBorrow =>
      (mkCst (c_s c) (c_live c) (c_next c) (a_off (s_a (c_s c)) :: c_marks c), RNone)
  | ORelease =>
      match c_marks c with
      | [] => (c, RNone)
      | mk :: rest =>
          let c1 := do_reset dbg c mk in
          (mkCst (decommit (c_s c1)) (c_live c1) (c_next c1) (trim_marks mk rest), RBlock true mk 0)
      end
  end.

Definition cinit (base capacity : Z) : cst :=
  mkCst (mkSt (arena_new base capacity) (fun _ => 0)) [] 0 [].

Definition crun (dbg : bool) (c : cst) (ops : list op) : cst :=
  fold_left (fun c o => fst (cstep dbg c o)) ops c.

(* Observation printed after each step: offset, commit, number of live blocks and
   a checksum over sampled initialised bytes of every live block. *)
Definition sample_blk (m : mem) (b : blk) : Z :=
  if b_init b =? 0 then b_id b
  else b_id b + 3 * m (b_off b) + 5 * m (b_off b + b_init b - 1)
       + 7 * m (b_off b + b_init b / 2).

Definition checksum (c : cst) : Z :=
  fold_left (fun acc b => (acc * 31 + sample_blk (s_m (c_s c)) b) mod 1000003) (c_live c) 0.

Definition observe (c : cst) : Z * Z * Z * Z :=
  (a_off (s_a (c_s c)), a_com (s_a (c_s c)), Z.of_nat (length (c_live c)), checksum c).

(* Runs a history and returns one (result, observation) per op. *)
Fixpoint ctrace (dbg : bool) (c : cst) (ops : list op) : list (res * (Z * Z * Z * Z)) :=
  match ops with
  | [] => []
  | o :: rest =>
      let '(c', r) := cstep dbg c o in
      (r, observe c') :: ctrace dbg c' rest
  end.
