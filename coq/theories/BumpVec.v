(* BumpVec.v — the arena's CLIENT containers (src/arena/string.rs: ArenaString, and
   Vec<T, &Arena> with the ReplaceRange trait) on top of the Bump.v arena model.
   Model file: definitions only, no proofs.

   A container owns at most one ledger block of the Bump.v client (its buffer):
     address = b_off, capacity in bytes = b_len, length in bytes = b_init.
   A container without storage (capacity 0: `new_in`, `with_capacity_in(0, _)`) owns none.
   Storage is obtained only through the Bump.v client steps (OAlloc for the first
   buffer, OGrow afterwards, OShrink for shrink_to_fit), so every result of
   proofs/BumpProofs.v applies to container buffers as to any other block.

   The growth policy is the one of alloc::raw_vec (amortized: max(2*cap, len+additional,
   min_non_zero_cap); exact: len+additional) of the pinned toolchain.
   An allocation failure inside a container aborts the process in the implementation
   (handle_alloc_error); histories therefore skip a container step whose worst-case
   request might not fit ([guard_ok], evaluated identically by the harness). *)
From Coq Require Import ZArith List Bool.
Require Import NS.theories.Generated NS.theories.Bump.
Import ListNotations.
Open Scope Z_scope.

Record vec := mkVec {
  v_id : Z;
  v_blk : option Z;     (* id of the ledger block that is the buffer *)
  v_esz : Z;            (* element size in bytes (1 for ArenaString / Vec<u8>) *)
  v_k : nat;            (* element alignment 2^k *)
  v_str : bool          (* ArenaString (ranges are snapped to char boundaries) *)
}.

Record kst := mkK { k_c : cst; k_vecs : list vec (* oldest first *); k_vnext : Z }.

Definition blk_by_id (l : list blk) (id : Z) : option blk := find (fun b => b_id b =? id) l.

Definition vblk (c : cst) (v : vec) : option blk :=
  match v_blk v with Some id => blk_by_id (c_live c) id | None => None end.

Definition v_lenb (c : cst) (v : vec) : Z := match vblk c v with Some b => b_init b | None => 0 end.
Definition v_capb (c : cst) (v : vec) : Z := match vblk c v with Some b => b_len b | None => 0 end.
Definition v_off (c : cst) (v : vec) : Z := match vblk c v with Some b => b_off b | None => 0 end.

(* the container's bytes, read out of the arena memory *)
Definition vbytes (c : cst) (v : vec) : list Z :=
  match vblk c v with
  | Some b => map (fun i => s_m (c_s c) (b_off b + Z.of_nat i)) (seq 0 (Z.to_nat (b_init b)))
  | None => []
  end.

(* ptr::copy_nonoverlapping(data, base, len) *)
Definition store (m : mem) (base : Z) (data : list Z) : mem :=
  fun x => if (base <=? x) && (x <? base + Z.of_nat (length data))
           then nth (Z.to_nat (x - base)) data 0 else m x.

Fixpoint pos_of (l : list blk) (id : Z) : nat :=
  match l with
  | [] => O
  | b :: r => if b_id b =? id then O else S (pos_of r id)
  end.

Definition replace_vec (l : list vec) (v : vec) : list vec :=
  map (fun x => if v_id x =? v_id v then v else x) l.

(* alloc::raw_vec *)
Definition min_nz (esz : Z) : Z := if esz =? 1 then 8 else if esz <=? 1024 then 4 else 1.
Definition amortized (esz cap len add : Z) : Z := Z.max (min_nz esz) (Z.max (cap * 2) (len + add)).

(* history guard: the worst-case request certainly fits *)
Definition guard_need (esz cap len add : Z) : Z := Z.max 8 (Z.max (cap * 2) (len + add)) * esz.
Definition guard_ok (a : arena) (al need : Z) : bool :=
  mask_up (a_off a + al + need) chunk <=? a_cap a.

(* RawVec::finish_grow: allocate when there is no buffer yet, Allocator::grow otherwise *)
Definition vgrow (dbg : bool) (k : kst) (v : vec) (newcap : Z) : option (kst * vec) :=
  let c := k_c k in
  match vblk c v with
  | None =>
      if 0 <=? newcap * v_esz v then
        match cstep dbg c (OAlloc (newcap * v_esz v) (v_k v)) with
        | (c', RBlock true _ _) =>
            let v' := mkVec (v_id v) (Some (c_next c)) (v_esz v) (v_k v) (v_str v) in
            Some (mkK c' (replace_vec (k_vecs k) v') (k_vnext k), v')
        | _ => None
        end
      else None
  | Some b =>
      if 0 <=? newcap * v_esz v - b_len b then
        match cstep dbg c (OGrow (pos_of (c_live c) (b_id b)) (newcap * v_esz v - b_len b) false) with
        | (c', RBlock true _ _) => Some (mkK c' (k_vecs k) (k_vnext k), v)
        | _ => None
        end
      else None
  end.

(* Vec::reserve / reserve_exact *)
Definition vreserve (dbg exact : bool) (k : kst) (v : vec) (add : Z) : option (kst * vec) :=
  let c := k_c k in
  let esz := v_esz v in
  let len := v_lenb c v / esz in
  let cap := v_capb c v / esz in
  if add <=? cap - len then Some (k, v)
  else if guard_ok (s_a (c_s c)) (2 ^ Z.of_nat (v_k v)) (guard_need esz cap len add)
  then vgrow dbg k v (if exact then len + add else amortized esz cap len add)
  else None.

(* writes inside the buffer, then set_len *)
Definition vedit (k : kst) (v : vec) (f : mem -> Z -> mem) (newlenb : Z) : option kst :=
  let c := k_c k in
  match vblk c v with
  | None => if newlenb =? 0 then Some k else None
  | Some b =>
      if (0 <=? newlenb) && (newlenb <=? b_len b) then
        Some (mkK (mkCst (mkSt (s_a (c_s c)) (f (s_m (c_s c)) (b_off b)))
                         (replace_blk (c_live c) (b_id b)
                            (mkBlk (b_id b) (b_off b) (b_len b) (b_al b) newlenb))
                         (c_next c) (c_marks c))
                  (k_vecs k) (k_vnext k))
      else None
  end.

(* extend_from_slice (push_str, push, push_repeat, write_str, write_char): amortized
   reserve of the whole addition, then the bytes go behind the old contents *)
Definition vappend (dbg : bool) (k : kst) (v : vec) (data : list Z) : option (kst * vec) :=
  let n := Z.of_nat (length data) in
  match vreserve dbg false k v (n / v_esz v) with
  | None => None
  | Some (k1, v1) =>
      let lenb := v_lenb (k_c k1) v1 in
      match vedit k1 v1 (fun m base => store m (base + lenb) data) (lenb + n) with
      | Some k2 => Some (k2, v1)
      | None => None
      end
  end.

(* the two copies of vec_replace_impl, through the address taken AFTER the reserve:
   ptr::copy (memmove) of the tail, then ptr::copy_nonoverlapping of the replacement *)
Definition replace_edit (m : mem) (base esz off del srcl tail : Z) (data : list Z) : mem :=
  let p := base + off * esz in
  let m1 := if (tail >? 0) && negb (srcl =? del)
            then copy m (p + del * esz) (p + srcl * esz) (tail * esz) else m in
  store m1 p data.

(* vec_replace_impl: clamp the range, reserve when the replacement is longer, THEN take
   the buffer address, shift the tail, copy the replacement in, set_len *)
Definition vreplace (dbg : bool) (k : kst) (v : vec) (start end_ : Z) (data : list Z)
  : option (kst * vec) :=
  let c := k_c k in
  let esz := v_esz v in
  let len := v_lenb c v / esz in
  let srcl := Z.of_nat (length data) / esz in
  let off := Z.min start len in
  let del := Z.min (Z.max 0 (end_ - off)) (len - off) in
  if (del =? 0) && (srcl =? 0) then Some (k, v) else
  let tail := len - off - del in
  match (if srcl >? del then vreserve dbg false k v (srcl - del) else Some (k, v)) with
  | None => None
  | Some (k1, v1) =>
      match vedit k1 v1 (fun m base => replace_edit m base esz off del srcl tail data)
              ((len - del + srcl) * esz) with
      | Some k2 => Some (k2, v1)
      | None => None
      end
  end.

(* str::is_char_boundary, used by ArenaString::replace_range's assertions: histories
   snap a string range down to the nearest boundary (the harness does the same). *)
Definition is_cont (b : Z) : bool := (128 <=? b) && (b <? 192).
Definition snap (m : mem) (base len i : Z) : Z :=
  if len <=? i then len
  else if i <=? 0 then 0
  else if negb (is_cont (m (base + i))) then i
  else if negb (is_cont (m (base + i - 1))) || (i <=? 1) then i - 1
  else if negb (is_cont (m (base + i - 2))) || (i <=? 2) then i - 2
  else i - 3.

Fixpoint is_prefix (a b : list Z) : bool :=
  match a, b with
  | [], _ => true
  | x :: a', y :: b' => (x =? y) && is_prefix a' b'
  | _ :: _, [] => false
  end.

Fixpoint find_sub (needle hay : list Z) (pos : Z) : option Z :=
  if is_prefix needle hay then Some pos
  else match hay with
       | [] => None
       | _ :: r => find_sub needle r (pos + 1)
       end.

Definition sub_list (l : list Z) (a b : Z) : list Z :=
  firstn (Z.to_nat (b - a)) (skipn (Z.to_nat a) l).

(* a slice of whole elements *)
Definition whole_elems (esz : Z) (data : list Z) : list Z :=
  firstn (Z.to_nat (Z.of_nat (length data) / esz * esz)) data.

(* Ops that read a container's whole contents out of the model memory (clone, the search
   of replace_once) are driven only on containers up to this many bytes: the model memory
   is a chain of closures and a full read of a large buffer is too slow to run. *)
Definition read_limit : Z := 2048.

(* ------------------------------------------------------------------ *)
Inductive kop :=
| KRaw (o : op)
| KNew (str : bool) (esz : Z) (k : nat) (cap : Z)   (* new_in / with_capacity_in *)
| KFrom (data : list Z)                             (* ArenaString::from_str *)
| KClone (vi : nat)                                 (* Clone *)
| KFmt (data : list Z)                              (* arena_format!("{}", text) *)
| KAppend (vi : nat) (sonly : bool) (data : list Z) (* sonly: ArenaString-only method *)
| KReserve (vi : nat) (exact : bool) (add : Z)
| KReplace (vi : nat) (start end_ : Z) (data : list Z)
| KReplaceOnce (vi : nat) (a b : Z) (data : list Z) (* needle = current bytes [a, b) *)
| KShrinkFit (vi : nat)
| KClear (vi : nat).

Inductive kres :=
| KVec (off lenb capb : Z)
| KSkip
| KR (r : res).

Definition owned (vecs : list vec) (id : Z) : bool :=
  existsb (fun v => match v_blk v with Some i => i =? id | None => false end) vecs.

Definition raw_target (c : cst) (o : op) : option blk :=
  match o with
  | OGrow idx _ _ | OShrink idx _ | OWrite idx _ => pick (c_live c) idx
  | _ => None
  end.

(* containers whose buffer left the ledger (reset / release below it) are gone *)
Definition prune (c : cst) (vecs : list vec) : list vec :=
  filter (fun v => match v_blk v with
                   | None => true
                   | Some id => match blk_by_id (c_live c) id with Some _ => true | None => false end
                   end) vecs.

Definition kview (k : kst) (v : vec) : kres :=
  KVec (v_off (k_c k) v) (v_lenb (k_c k) v) (v_capb (k_c k) v).

Definition kdone (k : kst) (r : option (kst * vec)) : kst * kres :=
  match r with
  | Some (k', v') => (k', kview k' v')
  | None => (k, KSkip)
  end.

Definition knew (dbg : bool) (k : kst) (str : bool) (esz : Z) (al : nat) (cap : Z)
  : option (kst * vec) :=
  let v := mkVec (k_vnext k) None esz al str in
  let k0 := mkK (k_c k) (k_vecs k ++ [v]) (k_vnext k + 1) in
  if cap <=? 0 then Some (k0, v)
  else if guard_ok (s_a (c_s (k_c k))) (2 ^ Z.of_nat al) (Z.max 8 cap * esz)
  then vgrow dbg k0 v cap
  else None.

Definition kstep (dbg : bool) (k : kst) (o : kop) : kst * kres :=
  let c := k_c k in
  match o with
  | KRaw o =>
      match raw_target c o with
      | Some b =>
          if owned (k_vecs k) (b_id b) then (k, KSkip)
          else let '(c', r) := cstep dbg c o in (mkK c' (prune c' (k_vecs k)) (k_vnext k), KR r)
      | None =>
          let '(c', r) := cstep dbg c o in (mkK c' (prune c' (k_vecs k)) (k_vnext k), KR r)
      end
  | KNew str esz al cap => kdone k (knew dbg k str esz al cap)
  | KFrom data =>
      match knew dbg k true 1 O (Z.of_nat (length data)) with
      | Some (k1, v1) => kdone k (vappend dbg k1 v1 data)
      | None => (k, KSkip)
      end
  | KClone vi =>
      match pick (k_vecs k) vi with
      | None => (k, KSkip)
      | Some v =>
          if read_limit <? v_lenb c v then (k, KSkip) else
          let data := vbytes c v in
          match knew dbg k (v_str v) (v_esz v) (v_k v) (Z.of_nat (length data) / v_esz v) with
          | Some (k1, v1) => kdone k (vappend dbg k1 v1 data)
          | None => (k, KSkip)
          end
      end
  | KFmt data =>
      match knew dbg k true 1 O 0 with
      | Some (k1, v1) => kdone k (vappend dbg k1 v1 data)
      | None => (k, KSkip)
      end
  | KAppend vi sonly data =>
      match pick (k_vecs k) vi with
      | None => (k, KSkip)
      | Some v =>
          if sonly && negb (v_str v) then (k, KSkip)
          else kdone k (vappend dbg k v (whole_elems (v_esz v) data))
      end
  | KReserve vi exact add =>
      match pick (k_vecs k) vi with
      | None => (k, KSkip)
      | Some v => kdone k (vreserve dbg exact k v add)
      end
  | KReplace vi start end_ data =>
      match pick (k_vecs k) vi with
      | None => (k, KSkip)
      | Some v =>
          if negb (v_str v) then (k, KSkip) else   (* the trait is not exported for other T *)
          let m := s_m (c_s c) in
          let lenb := v_lenb c v in
          let s := if v_str v then snap m (v_off c v) lenb start else start in
          let e := if v_str v then Z.max s (snap m (v_off c v) lenb end_) else end_ in
          kdone k (vreplace dbg k v s e data)
      end
  | KReplaceOnce vi a b data =>
      match pick (k_vecs k) vi with
      | None => (k, KSkip)
      | Some v =>
          if negb (v_str v) || (read_limit <? v_lenb c v) then (k, KSkip) else
          let m := s_m (c_s c) in
          let lenb := v_lenb c v in
          let s := snap m (v_off c v) lenb a in
          let e := Z.max s (snap m (v_off c v) lenb b) in
          let hay := vbytes c v in
          let needle := sub_list hay s e in
          match find_sub needle hay 0 with
          | Some beg => kdone k (vreplace dbg k v beg (beg + Z.of_nat (length needle)) data)
          | None => (k, KSkip)
          end
      end
  | KShrinkFit vi =>
      match pick (k_vecs k) vi with
      | None => (k, KSkip)
      | Some v =>
          match vblk c v with
          | None => (k, KSkip)
          | Some b =>
              if (b_off b + b_len b =? a_off (s_a (c_s c))) && (0 <? b_init b) && (b_init b <? b_len b)
              then let '(c', _) := cstep dbg c (OShrink (pos_of (c_live c) (b_id b)) (b_len b - b_init b)) in
                   let k' := mkK c' (prune c' (k_vecs k)) (k_vnext k) in
                   (k', kview k' v)
              else (k, KSkip)
          end
      end
  | KClear vi =>
      match pick (k_vecs k) vi with
      | None => (k, KSkip)
      | Some v =>
          match vedit k v (fun m _ => m) 0 with
          | Some k' => (k', kview k' v)
          | None => (k, KSkip)
          end
      end
  end.

Definition kinit (base capacity : Z) : kst := mkK (cinit base capacity) [] 0.

Definition krun (dbg : bool) (k : kst) (ops : list kop) : kst :=
  fold_left (fun k o => fst (kstep dbg k o)) ops k.

Definition kobserve (k : kst) : Z * Z * Z * Z := observe (k_c k).
