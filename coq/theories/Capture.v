(* Capture.v — C16: the capture protocol of src/sys/process_common.rs as a small-step
   transition system (definitions only; proofs are in proofs/CaptureProofs.v).

   Actors and where they come from in the source:
     child        the spawned process: per stream the bytes it still has to write, its exit code;
                  it writes any positive number of bytes that fits into the pipe (a captured stream)
                  or straight into a sink (Inherit / Null); on a pipe whose read end is closed it
                  either dies of SIGPIPE or sees EPIPE and gives that stream up; it exits when it
                  has nothing left to write.  When the child runs relative to everybody else
                  (its sleeps) is the scheduler's choice.
     pipe         bytes in flight (bounded by [pcap]), read end closed?; the write end is closed
                  exactly when the child is no longer running (it is the only holder).
     reader s     read_captured_stream: loop { read <= read_chunk bytes (any positive prefix of
                  what is available; EOF when the pipe is empty and the writer is gone);
                  if len + n > cap { set the shared flag if it is still 0; break }; append } ;
                  returning drops the read end.   pcs: RLoop -> (RFlag ->) RExit -> RDone.
     flag         the AtomicU8 (0 = none, else the code of the first stream that overflowed).
     waiter       wait_for_child + run_host_process after it:
                    WFlag (load flag) -> WTry (try_wait) -> WDeadline -> WSleep -> WFlag ...
                    error exits: WKill e -> WWait e -> EJoin1 e -> EJoin2 e -> WDone (RErr e)
                    success:     OJoin1 code -> OJoin2 o1 code -> WDone (ROk o1 o2 code)
                  (join_writer is not modelled: stdin belongs to C15).
                  join_capture on the success path = join; re-read the flag (shape recorded in
                  GenCapture.join_recheck_mode: own code only / any recorded overflow);
                  String::from_utf8.  A failing stdout join returns at once (stderr's reader is
                  left detached).
     clock        logical milliseconds; [Tick] advances it; `start` is 0.
   Every constant and every choice that is read off the source text comes from GenCapture.v. *)
From Coq Require Import ZArith List Bool Lia.
Require Import NS.theories.GenCapture.
Import ListNotations.
Open Scope Z_scope.

Definition bytes := list Z.
Definition len (l : bytes) : Z := Z.of_nat (length l).

(* ------------------------------------------------------------------ UTF-8 (String::from_utf8) *)
Definition is_cont (b : Z) : bool := (128 <=? b) && (b <=? 191).
Definition in_rng (lo hi b : Z) : bool := (lo <=? b) && (b <=? hi).

Fixpoint utf8_valid (l : bytes) {struct l} : bool :=
  match l with
  | [] => true
  | b0 :: t =>
    if (0 <=? b0) && (b0 <? 128) then utf8_valid t
    else if in_rng 194 223 b0 then
      match t with b1 :: t1 => is_cont b1 && utf8_valid t1 | _ => false end
    else if b0 =? 224 then
      match t with b1 :: b2 :: t2 => in_rng 160 191 b1 && is_cont b2 && utf8_valid t2 | _ => false end
    else if in_rng 225 236 b0 || in_rng 238 239 b0 then
      match t with b1 :: b2 :: t2 => is_cont b1 && is_cont b2 && utf8_valid t2 | _ => false end
    else if b0 =? 237 then
      match t with b1 :: b2 :: t2 => in_rng 128 159 b1 && is_cont b2 && utf8_valid t2 | _ => false end
    else if b0 =? 240 then
      match t with b1 :: b2 :: b3 :: t3 => in_rng 144 191 b1 && is_cont b2 && is_cont b3 && utf8_valid t3 | _ => false end
    else if in_rng 241 243 b0 then
      match t with b1 :: b2 :: b3 :: t3 => is_cont b1 && is_cont b2 && is_cont b3 && utf8_valid t3 | _ => false end
    else if b0 =? 244 then
      match t with b1 :: b2 :: b3 :: t3 => in_rng 128 143 b1 && is_cont b2 && is_cont b3 && utf8_valid t3 | _ => false end
    else false
  end.

(* ------------------------------------------------------------------ configuration *)
Inductive policy := PInherit | PNull | PCapture.

Record cfg := {
  pol1 : policy; pol2 : policy;        (* stdout / stderr policy *)
  cap : Z;                             (* caps.max_capture_bytes_per_stream *)
  timeout : Z;                         (* spec.timeout_ms *)
  poll : Z;                            (* caps.wait_poll_ms *)
  pcap : Z;                            (* OS pipe capacity *)
  out1 : bytes; out2 : bytes;          (* what the child writes to stdout / stderr *)
  ecode : option Z                     (* the child's exit code; None = it ends by a signal of its own *)
}.

Definition pol (c : cfg) (s : stream) : policy := match s with S1 => pol1 c | S2 => pol2 c end.
Definition out (c : cfg) (s : stream) : bytes := match s with S1 => out1 c | S2 => out2 c end.
Definition captured (c : cfg) (s : stream) : bool :=
  match pol c s with PCapture => true | _ => false end.
Definition other (s : stream) : stream := match s with S1 => S2 | S2 => S1 end.

(* ------------------------------------------------------------------ state *)
Inductive rpc := RNone | RLoop | RFlag | RExit | RDone.

Record strm := {
  rem : bytes;          (* child: bytes still to write to this stream *)
  pipe : bytes;         (* bytes in flight *)
  rclosed : bool;       (* read end dropped *)
  r_pc : rpc;           (* reader thread program counter (RNone: no reader) *)
  rbuf : bytes;         (* reader: buf *)
  written : bytes;      (* ghost: everything the child has written to this stream so far *)
  rovf : bool           (* ghost: the reader took the overflow branch *)
}.

Inductive cstat := CRun | CExited | CSigpipe | CKilled.

Inductive perr := EOLE (s : stream) | EUtf8 (s : stream) | ETimeout.
Inductive result :=
  | ROk (o1 o2 : option bytes) (code : option Z)
  | RErr (e : perr).

Inductive wpc :=
  | WFlag | WTry | WDeadline | WSleep (until : Z)
  | WKill (e : perr) | WWait (e : perr) | EJoin1 (e : perr) | EJoin2 (e : perr)
  | OJoin1 (code : option Z) | OJoin2 (o1 : option bytes) (code : option Z)
  | WDone (r : result).

Record state := {
  st1 : strm; st2 : strm;
  cs : cstat;            (* child status; not CRun = all its descriptors are closed *)
  reaped : bool;         (* a wait()/try_wait() collected the status *)
  kill_sent : bool;      (* ghost: child.kill() was called *)
  flag : Z;              (* the AtomicU8 *)
  clock : Z;             (* logical ms since `start` *)
  w : wpc;
  g_tmo : option Z       (* ghost: clock value at which the deadline test fired *)
}.

Definition sget (st : state) (s : stream) : strm := match s with S1 => st1 st | S2 => st2 st end.
Definition sset (st : state) (s : stream) (x : strm) : state :=
  match s with
  | S1 => {| st1 := x; st2 := st2 st; cs := cs st; reaped := reaped st; kill_sent := kill_sent st;
             flag := flag st; clock := clock st; w := w st; g_tmo := g_tmo st |}
  | S2 => {| st1 := st1 st; st2 := x; cs := cs st; reaped := reaped st; kill_sent := kill_sent st;
             flag := flag st; clock := clock st; w := w st; g_tmo := g_tmo st |}
  end.
Definition set_w (st : state) (x : wpc) : state :=
  {| st1 := st1 st; st2 := st2 st; cs := cs st; reaped := reaped st; kill_sent := kill_sent st;
     flag := flag st; clock := clock st; w := x; g_tmo := g_tmo st |}.
Definition set_cs (st : state) (x : cstat) : state :=
  {| st1 := st1 st; st2 := st2 st; cs := x; reaped := reaped st; kill_sent := kill_sent st;
     flag := flag st; clock := clock st; w := w st; g_tmo := g_tmo st |}.
Definition set_flag (st : state) (x : Z) : state :=
  {| st1 := st1 st; st2 := st2 st; cs := cs st; reaped := reaped st; kill_sent := kill_sent st;
     flag := x; clock := clock st; w := w st; g_tmo := g_tmo st |}.

Definition init_strm (c : cfg) (s : stream) : strm :=
  {| rem := out c s; pipe := []; rclosed := false;
     r_pc := if captured c s then RLoop else RNone;      (* spawn_capture_reader *)
     rbuf := []; written := []; rovf := false |}.

Definition init (c : cfg) : state :=
  {| st1 := init_strm c S1; st2 := init_strm c S2; cs := CRun; reaped := false; kill_sent := false;
     flag := 0; clock := 0; w := WFlag; g_tmo := None |}.

(* ------------------------------------------------------------------ scheduler choices *)
Inductive cact :=
  | CWrite (s : stream) (k : nat)      (* write(2) of k bytes succeeds *)
  | CPipe (s : stream) (die : bool)    (* write on a pipe without reader: SIGPIPE death / EPIPE *)
  | CExit.

Inductive choice :=
  | Tick                               (* one logical millisecond passes *)
  | Child (a : cact)
  | Reader (s : stream) (k : nat)      (* k: how many bytes this read(2) returns *)
  | Waiter.

Definition is_run (x : cstat) : bool := match x with CRun => true | _ => false end.
Definition nil_b (l : bytes) : bool := match l with [] => true | _ => false end.

(* ------------------------------------------------------------------ child *)
Definition child_step (c : cfg) (st : state) (a : cact) : option state :=
  if negb (is_run (cs st)) then None else
  match a with
  | CWrite s k =>
      let x := sget st s in
      if (1 <=? Z.of_nat k) && (Z.of_nat k <=? len (rem x)) then
        if captured c s then
          if rclosed x then None
          else if Z.of_nat k <=? pcap c - len (pipe x) then
            Some (sset st s {| rem := skipn k (rem x); pipe := pipe x ++ firstn k (rem x);
                               rclosed := rclosed x; r_pc := r_pc x; rbuf := rbuf x;
                               written := written x ++ firstn k (rem x); rovf := rovf x |})
          else None                                    (* pipe full: the write blocks *)
        else
          Some (sset st s {| rem := skipn k (rem x); pipe := pipe x;
                             rclosed := rclosed x; r_pc := r_pc x; rbuf := rbuf x;
                             written := written x ++ firstn k (rem x); rovf := rovf x |})
      else None
  | CPipe s die =>
      let x := sget st s in
      if captured c s && rclosed x && negb (nil_b (rem x)) then
        if die then Some (set_cs st CSigpipe)
        else Some (sset st s {| rem := []; pipe := pipe x; rclosed := rclosed x; r_pc := r_pc x;
                                rbuf := rbuf x; written := written x; rovf := rovf x |})
      else None
  | CExit =>
      if nil_b (rem (st1 st)) && nil_b (rem (st2 st)) then Some (set_cs st CExited) else None
  end.

(* ------------------------------------------------------------------ reader (read_captured_stream) *)
Definition overflows (c : cfg) (buflen n : Z) : bool :=
  if ovf_strict then cap c <? buflen + n else cap c <=? buflen + n.

Definition update_flag (f code : Z) : Z :=
  match flag_update with
  | FlagCas => if f =? cas_expected then code else f
  | FlagStore => code
  | FlagOr => Z.lor f code
  | FlagNone => f
  end.

Definition reader_step (c : cfg) (st : state) (s : stream) (k : nat) : option state :=
  let x := sget st s in
  match r_pc x with
  | RLoop =>
      if nil_b (pipe x) then
        if is_run (cs st) then None                    (* read blocks *)
        else Some (sset st s {| rem := rem x; pipe := pipe x; rclosed := rclosed x; r_pc := RExit;
                                rbuf := rbuf x; written := written x; rovf := rovf x |})   (* n == 0 *)
      else if (1 <=? Z.of_nat k) && (Z.of_nat k <=? Z.min read_chunk (len (pipe x))) then
        if overflows c (len (rbuf x)) (Z.of_nat k) then
          Some (sset st s {| rem := rem x; pipe := skipn k (pipe x); rclosed := rclosed x;
                             r_pc := RFlag; rbuf := rbuf x; written := written x; rovf := true |})
        else
          Some (sset st s {| rem := rem x; pipe := skipn k (pipe x); rclosed := rclosed x;
                             r_pc := RLoop; rbuf := rbuf x ++ firstn k (pipe x);
                             written := written x; rovf := rovf x |})
      else None
  | RFlag =>
      Some (set_flag (sset st s {| rem := rem x; pipe := pipe x; rclosed := rclosed x; r_pc := RExit;
                                   rbuf := rbuf x; written := written x; rovf := rovf x |})
                     (update_flag (flag st) (reader_code s)))
  | RExit =>                                            (* return Ok(buf): the read end is dropped *)
      Some (sset st s {| rem := rem x; pipe := pipe x; rclosed := true; r_pc := RDone;
                         rbuf := rbuf x; written := written x; rovf := rovf x |})
  | RNone | RDone => None
  end.

(* ------------------------------------------------------------------ waiter *)
Definition status_code (c : cfg) (x : cstat) : option Z :=
  match x with CExited => ecode c | _ => None end.   (* ExitStatus::code(): None if signalled *)

Definition deadline_passed (c : cfg) (st : state) : bool :=
  if deadline_ge then timeout c <=? clock st else timeout c <? clock st.

Definition do_kill (st : state) (e : perr) (really : bool) : state :=
  {| st1 := st1 st; st2 := st2 st;
     cs := if really then (if is_run (cs st) then CKilled else cs st) else cs st;
     reaped := reaped st; kill_sent := if really then true else kill_sent st;
     flag := flag st; clock := clock st; w := WWait e; g_tmo := g_tmo st |}.

Definition exit_kills (e : perr) : bool :=
  match e with ETimeout => timeout_exit_kills | _ => flag_exit_kills end.

Definition set_reaped (st : state) (x : wpc) : state :=
  {| st1 := st1 st; st2 := st2 st; cs := cs st; reaped := true; kill_sent := kill_sent st;
     flag := flag st; clock := clock st; w := x; g_tmo := g_tmo st |}.

(* join_capture on the success path: Some r = finished with r, None = value for the next join *)
Inductive joinres := JBlocked | JNone | JSome (b : bytes) | JErr (e : perr).
Definition recheck (m : recheck_mode) (st : state) (s : stream) : option perr :=
  match m with
  | RecheckNone => None
  | RecheckOwn => if flag st =? join_code s then Some (EOLE s) else None
  | RecheckAny => if flag st =? 0 then None else Some (EOLE (from_code (flag st)))
  end.
Definition join_ok_m (m : recheck_mode) (st : state) (s : stream) : joinres :=
  let x := sget st s in
  match r_pc x with
  | RNone => JNone
  | RDone =>
      match recheck m st s with
      | Some e => JErr e
      | None =>
          if negb utf8_checked || utf8_valid (rbuf x) then JSome (rbuf x)
          else JErr (EUtf8 s)
      end
  | _ => JBlocked
  end.
Definition join_ok : state -> stream -> joinres := join_ok_m join_recheck_mode.
Definition joined (st : state) (s : stream) : bool :=
  match r_pc (sget st s) with RNone | RDone => true | _ => false end.

Definition waiter_step (c : cfg) (st : state) : option state :=
  match w st with
  | WFlag => if flag st =? 0 then Some (set_w st WTry)
             else Some (set_w st (WKill (EOLE (from_code (flag st)))))
  | WTry => if is_run (cs st) then Some (set_w st WDeadline)
            else Some (set_reaped st (OJoin1 (status_code c (cs st))))
  | WDeadline =>
      if deadline_passed c st then
        Some {| st1 := st1 st; st2 := st2 st; cs := cs st; reaped := reaped st; kill_sent := kill_sent st;
                flag := flag st; clock := clock st; w := WKill ETimeout; g_tmo := Some (clock st) |}
      else Some (set_w st (WSleep (clock st + Z.max (poll c) poll_min)))
  | WSleep u => if u <=? clock st then Some (set_w st WFlag) else None
  | WKill e => Some (do_kill st e (exit_kills e))                       (* child.kill() *)
  | WWait e => if is_run (cs st) then None else Some (set_reaped st (EJoin1 e))   (* child.wait() *)
  | EJoin1 e => if joined st S1 then Some (set_w st (EJoin2 e)) else None
  | EJoin2 e => if joined st S2 then Some (set_w st (WDone (RErr e))) else None
  | OJoin1 code =>
      match join_ok st S1 with
      | JBlocked => None
      | JNone => Some (set_w st (OJoin2 None code))
      | JSome b => Some (set_w st (OJoin2 (Some b) code))
      | JErr e => Some (set_w st (WDone (RErr e)))
      end
  | OJoin2 o1 code =>
      match join_ok st S2 with
      | JBlocked => None
      | JNone => Some (set_w st (WDone (ROk o1 None code)))
      | JSome b => Some (set_w st (WDone (ROk o1 (Some b) code)))
      | JErr e => Some (set_w st (WDone (RErr e)))
      end
  | WDone _ => None
  end.

Definition tick (st : state) : state :=
  {| st1 := st1 st; st2 := st2 st; cs := cs st; reaped := reaped st; kill_sent := kill_sent st;
     flag := flag st; clock := clock st + 1; w := w st; g_tmo := g_tmo st |}.

(* ------------------------------------------------------------------ the transition function *)
Definition step (c : cfg) (st : state) (ch : choice) : option state :=
  match ch with
  | Tick => Some (tick st)
  | Child a => child_step c st a
  | Reader s k => reader_step c st s k
  | Waiter => waiter_step c st
  end.

(* A schedule is any list of choices; a choice that is not enabled is skipped, so every list
   is a schedule and every interleaving / every split of reads and writes is some list. *)
Definition step_skip (c : cfg) (st : state) (ch : choice) : state :=
  match step c st ch with Some st' => st' | None => st end.

Definition run (c : cfg) (sched : list choice) (st : state) : state :=
  fold_left (step_skip c) sched st.

Inductive outcome := Running | Finished (r : result).
Definition outcome_of (st : state) : outcome :=
  match w st with WDone r => Finished r | _ => Running end.
Definition run_outcome (c : cfg) (sched : list choice) : outcome := outcome_of (run c sched (init c)).

Inductive reachable (c : cfg) : state -> Prop :=
  | reach_init : reachable c (init c)
  | reach_step : forall st ch st', reachable c st -> step c st ch = Some st' -> reachable c st'.

(* ------------------------------------------------------------------ specification *)
Definition cfg_ok (c : cfg) : Prop := 0 <= cap c.

(* what the script may see for stream s when the run is reported as a success *)
Definition ok_stream (c : cfg) (s : stream) (o : option bytes) : Prop :=
  if captured c s
  then o = Some (out c s) /\ len (out c s) <= cap c /\ utf8_valid (out c s) = true
  else o = None.

Definition result_spec (c : cfg) (r : result) : Prop :=
  match r with
  | ROk o1 o2 code => code = ecode c /\ ok_stream c S1 o1 /\ ok_stream c S2 o2
  | RErr (EOLE s) => captured c s = true /\ cap c < len (out c s)
  | RErr (EUtf8 s) =>
      captured c s = true /\
      (utf8_valid (out c s) = false \/
       (captured c (other s) = true /\ cap c < len (out c (other s))))
  | RErr ETimeout => True
  end.

(* The exact version of the InvalidUtf8 clause.  It holds when join_capture fails on ANY recorded
   overflow (join_recheck_mode = RecheckAny); with the own-code-only re-check it is refuted
   (CaptureProofs.misattributed_utf8_reachable). *)
Definition strict_spec (c : cfg) (r : result) : Prop :=
  match r with
  | RErr (EUtf8 s) => utf8_valid (out c s) = false
  | _ => True
  end.

(* executable version, used by the model executable to judge an observed outcome *)
Definition opt_eqb (a : option bytes) (b : option bytes) : bool :=
  match a, b with
  | None, None => true
  | Some x, Some y => if list_eq_dec Z.eq_dec x y then true else false
  | _, _ => false
  end.
Definition ok_stream_b (c : cfg) (s : stream) (o : option bytes) : bool :=
  if captured c s
  then opt_eqb o (Some (out c s)) && (len (out c s) <=? cap c) && utf8_valid (out c s)
  else opt_eqb o None.
Definition outcome_ok_m (m : recheck_mode) (c : cfg) (r : result) : bool :=
  match r with
  | ROk o1 o2 code =>
      match code, ecode c with Some z, Some z' => z =? z' | None, None => true | _, _ => false end
      && ok_stream_b c S1 o1 && ok_stream_b c S2 o2
  | RErr (EOLE s) => captured c s && (cap c <? len (out c s))
  | RErr (EUtf8 s) =>
      captured c s &&
      (negb (utf8_valid (out c s)) ||
       match m with
       | RecheckAny => false
       | _ => captured c (other s) && (cap c <? len (out c (other s)))
       end)
  | RErr ETimeout => true
  end.
Definition outcome_ok : cfg -> result -> bool := outcome_ok_m join_recheck_mode.

(* Every terminal state: the child is gone and its status collected; it was killed first on the
   error exits of the wait loop; a success means it exited by itself and was never killed; a
   timeout is reported only if the deadline test fired at a clock value >= timeout. *)
Definition reaped_spec (c : cfg) (st : state) (r : result) : Prop :=
  reaped st = true /\ cs st <> CRun /\
  (kill_sent st = true \/ cs st = CExited \/ cs st = CSigpipe) /\
  match r with
  | ROk _ _ _ => cs st = CExited /\ kill_sent st = false
  | RErr ETimeout => kill_sent st = true /\
                     exists t, g_tmo st = Some t /\ timeout c <= t /\ t <= clock st
  | RErr _ => True
  end.

(* ------------------------------------------------------------------ host layer: caps and builder *)
(* How the configuration of the protocol is obtained from the embedder's ProcessCaps and from the
   script's builder (ProcessCommand::validate + the arguments run_host_process passes on).  Which
   field feeds what is read from the source (GenCapture: reader_cap_field, poll_field,
   timeout_fallback_field, timeout_upper_field). *)
Definition hostcaps := cap_field -> Z.
Definition hc_of_list (l : list Z) : hostcaps := fun f => nth (cap_field_index f) l 0.

Definition effective_timeout (hc : hostcaps) (t : option Z) : option Z :=
  let v := match t with Some x => x | None => hc timeout_fallback_field end in
  if timeout_zero_rejected && (v =? 0) then None
  else if (if timeout_upper_strict then hc timeout_upper_field <? v else hc timeout_upper_field <=? v)
  then None
  else Some v.

Record builder := { b_pol1 : policy; b_pol2 : policy; b_timeout : option Z }.

(* None: validate refuses the command (SpecInvalid) and the backend is never invoked *)
Definition mk_cfg (hc : hostcaps) (b : builder) (pc : Z) (o1 o2 : bytes) (code : option Z) : option cfg :=
  match effective_timeout hc (b_timeout b) with
  | None => None
  | Some t =>
      Some {| pol1 := b_pol1 b; pol2 := b_pol2 b; cap := hc (reader_cap_field S1); timeout := t;
              poll := hc poll_field; pcap := pc; out1 := o1; out2 := o2; ecode := code |}
  end.
