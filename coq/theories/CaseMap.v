(* CaseMap.v — executable model of src/builtins/string.rs::to_uppercase / to_lowercase:
     s.chars().flat_map(char::to_uppercase).for_each(|ch| buffer.push(ch))
   i.e. per-character std `char::to_uppercase` / `char::to_lowercase` (full Unicode mappings with the
   multi-character expansions of SpecialCasing.txt that are unconditional; NO final-sigma rule, which
   lives in `str::to_lowercase` and is not used by the interpreter).

   Transcribed from library/core/src/unicode/unicode_data.rs (mod conversions: deconstruct, reconstruct,
   lookup, to_lower, to_upper) and library/core/src/char/mod.rs (CaseMappingIter::new); the tables and
   the two ASCII thresholds come from theories/GenUnicode.v (translator/gen_unicode.py, which also checks
   that the Rust functions still have the shape transcribed here).  Code points are Z, strings are
   UTF-8 byte lists.  Definitions only; lemmas in proofs/CaseMapProofs.v. *)
From Coq Require Import ZArith List Bool.
Require Import NS.theories.GenUnicode NS.theories.StrLib.
Import ListNotations.
Open Scope Z_scope.

(* (start, end, parity, delta): Range { start, len = end - start, parity } with its i16 delta *)
Definition single := (Z * Z * bool * Z)%type.
(* (low, [o1; o2; o3]) *)
Definition multi := (Z * list Z)%type.

(* ---- lookup -------------------------------------------------------------------------------- *)

(* `singles.binary_search_by(|(range,_)| if low < range.start() {Greater} else if low > range.end() {Less}
   else {Equal})`: the ranges are sorted and disjoint (ranges_sorted, checked of the generated tables
   in the proofs file), so the range found, if any, is the only one that contains `low` — the first
   one met by a linear scan. *)
Fixpoint find_range (rs : list single) (low : Z) : option single :=
  match rs with
  | [] => None
  | ((s, e, p, d) as r) :: t => if (s <=? low) && (low <=? e) then Some r else find_range t low
  end.

(* `multis.binary_search_by_key(&low, |&(p,_)| p)`: keys strictly increasing (multis_sorted) *)
Fixpoint find_multi (ms : list multi) (low : Z) : option (list Z) :=
  match ms with
  | [] => None
  | (k, outs) :: t => if k =? low then Some outs else find_multi t low
  end.

(* `let mask = range.parity as u16; input_low & mask == range.start() & mask` *)
Definition parity_ok (p : bool) (low start : Z) : bool :=
  let mask := if p then 1 else 0 in
  Z.land low mask =? Z.land start mask.

(* char::from_u32_unchecked(((plane as u32) << 16) | (low as u32)) *)
Definition reconstruct (plane low : Z) : Z := plane * 65536 + low.

(* `input_low.wrapping_add_signed(output_delta)` on u16 *)
Definition wrapping_add_signed_u16 (low delta : Z) : Z := (low + delta) mod 65536.

Definition lookup (singles : list (list single)) (multis : list (list multi)) (cp : Z)
  : option (list Z) :=
  let plane := cp / 65536 in            (* (c >> 16) as u16 *)
  let low := cp mod 65536 in            (* c as u16 *)
  if cp <? 0 then None else
  match nth_error singles (Z.to_nat plane), nth_error multis (Z.to_nat plane) with
  | Some ss, Some ms =>
      let hit :=
        match find_range ss low with
        | Some (s, _, p, d) =>
            if parity_ok p low s
            then Some [reconstruct plane (wrapping_add_signed_u16 low d); 0; 0]
            else None                   (* parity miss: falls through to the multis *)
        | None => None
        end in
      match hit with
      | Some r => Some r
      | None =>
          match find_multi ms low with
          | Some outs => Some (map (reconstruct plane) outs)
          | None => None
          end
      end
  | _, _ => None                        (* l2_luts.get(plane) = None *)
  end.

(* ---- char::to_lowercase / char::to_uppercase ------------------------------------------------ *)

(* char::to_ascii_uppercase / to_ascii_lowercase: flip bit 5 of a..z / A..Z *)
Definition ascii_upper_cp (c : Z) : Z := if (97 <=? c) && (c <=? 122) then c - 32 else c.
Definition ascii_lower_cp (c : Z) : Z := if (65 <=? c) && (c <=? 90) then c + 32 else c.

(* conversions::to_lower / to_upper: the [char; 3] array *)
Definition to_lower_arr (cp : Z) : list Z :=
  if cp <? lower_ascii_below then [ascii_lower_cp cp; 0; 0]
  else match lookup lower_singles lower_multis cp with Some r => r | None => [cp; 0; 0] end.

Definition to_upper_arr (cp : Z) : list Z :=
  if cp <? upper_ascii_below then [ascii_upper_cp cp; 0; 0]
  else match lookup upper_singles upper_multis cp with Some r => r | None => [cp; 0; 0] end.

(* CaseMappingIter::new: `if chars[2] == '\0' { next_back(); if chars[1] == '\0' { next_back(); } }`
   — chars[0] is never dropped, so U+0000 yields U+0000 *)
Definition trim3 (l : list Z) : list Z :=
  match l with
  | [a; b; c] => if c =? 0 then (if b =? 0 then [a] else [a; b]) else [a; b; c]
  | _ => l
  end.

(* the code points char::to_lowercase / char::to_uppercase yield *)
Definition lower_cp (cp : Z) : list Z := trim3 (to_lower_arr cp).
Definition upper_cp (cp : Z) : list Z := trim3 (to_upper_arr cp).

(* ---- String::push(char): UTF-8 encoding of a scalar value ------------------------------------ *)
Definition encode (cp : Z) : list Z :=
  if cp <? 128 then [cp]
  else if cp <? 2048 then [192 + cp / 64; 128 + cp mod 64]
  else if cp <? 65536 then [224 + cp / 4096; 128 + (cp / 64) mod 64; 128 + cp mod 64]
  else [240 + cp / 262144; 128 + (cp / 4096) mod 64; 128 + (cp / 64) mod 64; 128 + cp mod 64].

(* ---- the built-ins ----------------------------------------------------------------------------- *)
Definition to_upper (s : list Z) : list Z :=
  concat (map (fun c => concat (map encode (upper_cp (StrLib.decode c)))) (StrLib.chars s)).
Definition to_lower (s : list Z) : list Z :=
  concat (map (fun c => concat (map encode (lower_cp (StrLib.decode c)))) (StrLib.chars s)).

(* ASCII-only strings: the byte-wise ASCII mapping *)
Definition is_ascii_str (s : list Z) : bool := forallb (fun b => (0 <=? b) && (b <? 128)) s.
Definition ascii_upper_str (s : list Z) : list Z :=
  map (fun b => if (97 <=? b) && (b <=? 122) then b - 32 else b) s.
Definition ascii_lower_str (s : list Z) : list Z :=
  map (fun b => if (65 <=? b) && (b <=? 90) then b + 32 else b) s.

(* ---- well-formedness of the generated tables (evaluated by vm_compute in the proofs file) ------ *)

Definition scalarb (cp : Z) : bool :=
  ((0 <=? cp) && (cp <? 55296)) || ((57344 <=? cp) && (cp <? 1114112)).

(* sorted, pairwise disjoint, each 0 <= start <= end < 65536 *)
Fixpoint ranges_sorted_from (prev : Z) (rs : list single) : bool :=
  match rs with
  | [] => true
  | (s, e, _, _) :: t => (prev <? s) && (s <=? e) && (e <? 65536) && ranges_sorted_from e t
  end.
Definition ranges_sorted (rs : list single) : bool := ranges_sorted_from (-1) rs.

Fixpoint multis_sorted_from (prev : Z) (ms : list multi) : bool :=
  match ms with
  | [] => true
  | (k, _) :: t => (prev <? k) && (k <? 65536) && multis_sorted_from k t
  end.
Definition multis_sorted (ms : list multi) : bool := multis_sorted_from (-1) ms.

(* every member low of [s, e] is mapped to a non-zero scalar value: start+delta and end+delta lie in
   the same 65536-window (so the u16 wrap-around happens for all members or for none and the map
   stays monotone), and the image interval, placed in the plane, avoids 0, the surrogates and
   everything above U+10FFFF *)
Definition single_ok (plane : Z) (r : single) : bool :=
  let '(s, e, _, d) := r in
  let a := s + d in
  let b := e + d in
  let lo := reconstruct plane (a mod 65536) in
  let hi := reconstruct plane (b mod 65536) in
  (0 <=? s) && (s <=? e) && (e <? 65536) && (a / 65536 =? b / 65536)
  && (0 <? lo) && ((hi <? 55296) || (57344 <=? lo)) && (hi <? 1114112).

(* three u16 outputs; reconstructed in the plane they are scalar values, the first is not '\0',
   and a '\0' in the middle is followed by a '\0' (so the iterator's trimming drops exactly the
   padding) *)
Definition multi_ok (plane : Z) (m : multi) : bool :=
  let '(k, outs) := m in
  (0 <=? k) && (k <? 65536) &&
  match outs with
  | [o1; o2; o3] =>
      forallb (fun o => (0 <=? o) && (o <? 65536) && scalarb (reconstruct plane o)) outs
      && negb (reconstruct plane o1 =? 0)
      && ((negb (reconstruct plane o2 =? 0)) || (reconstruct plane o3 =? 0))
  | _ => false
  end.

Definition plane_ok (plane : Z) (ss : list single) (ms : list multi) : bool :=
  ranges_sorted ss && forallb (single_ok plane) ss && multis_sorted ms && forallb (multi_ok plane) ms.

(* same number of planes in both lists (they are one `[L2Lut; N]` in Rust), every plane ok *)
Fixpoint planes_ok (plane : Z) (sss : list (list single)) (mss : list (list multi)) : bool :=
  match sss, mss with
  | [], [] => true
  | ss :: sss', ms :: mss' => plane_ok plane ss ms && planes_ok (plane + 1) sss' mss'
  | _, _ => false
  end.

Definition table_ok (sss : list (list single)) (mss : list (list multi)) : bool := planes_ok 0 sss mss.

(* the ASCII shortcuts cover at least ASCII (to_upper_ascii / to_lower_ascii rely on it) *)
Definition tables_ok : bool :=
  table_ok lower_singles lower_multis && table_ok upper_singles upper_multis
  && (128 <=? lower_ascii_below) && (128 <=? upper_ascii_below).
