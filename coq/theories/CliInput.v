(* CliInput.v — how the source text reaches run_source in src/bin/naija/cmd.rs (C14):
   run_file (fs::read_to_string), --eval (a Rust String from argv) and run_stdin (read blocks
   of at most `cli_stdin_block` bytes appended to one buffer).  Definitions only.

   The generated flag `cli_stdin_validates_whole_buffer` selects which of the two readers below
   is the model of run_stdin: the translator sets it to true only when the source validates
   UTF-8 once, on the whole accumulated buffer after the read loop. *)
From Coq Require Import ZArith List Bool.
Require Import NS.theories.GenWiring NS.theories.Utf8.
Import ListNotations.
Open Scope Z_scope.

(* fs::read_to_string / a String argument: the bytes, if they are well-formed UTF-8 *)
Definition file_source (content : bytes) : option bytes :=
  if valid_utf8 content then Some content else None.

(* append every block, validate the whole buffer after EOF *)
Definition read_whole (blocks : list bytes) : option bytes :=
  let buf := concat blocks in if valid_utf8 buf then Some buf else None.

(* validate every block on its own (what a "reject binary input early" reader does) *)
Definition read_blockwise (blocks : list bytes) : option bytes :=
  if forallb valid_utf8 blocks then Some (concat blocks) else None.

Definition stdin_source (blocks : list bytes) : option bytes :=
  if cli_stdin_validates_whole_buffer then read_whole blocks else read_blockwise blocks.

(* what read(2) on a redirected regular file returns: full blocks, then the rest *)
Fixpoint split_blocks (fuel : nat) (n : nat) (l : bytes) : list bytes :=
  match fuel with
  | O => []
  | S f => match l with
           | [] => []
           | _ => firstn n l :: split_blocks f n (skipn n l)
           end
  end.

Definition redirect_blocks (content : bytes) : list bytes :=
  split_blocks (length content) (Z.to_nat cli_stdin_block) content.

(* The three input modes as a whole: reading (above) followed by handing the text to
   run_source.  `Some t`: run_source lexes exactly t (t = None: the input was refused as not
   UTF-8).  The outer None stands for "the translator could not see that the mode hands the
   text it read on unchanged" (generated flags: no slicing, stripping, trimming, replacing ...
   between the read and Lexer::new). *)
Definition handed_on (flag : bool) (t : option bytes) : option (option bytes) :=
  if flag && cli_run_source_text_passthrough then Some t else None.

Definition file_mode (content : bytes) : option (option bytes) :=
  handed_on cli_file_text_passthrough (file_source content).
Definition eval_mode (content : bytes) : option (option bytes) :=
  handed_on cli_eval_text_passthrough (file_source content).
Definition stdin_mode (blocks : list bytes) : option (option bytes) :=
  handed_on cli_stdin_text_passthrough (stdin_source blocks).
(* the library pipeline is given the text itself *)
Definition library_text (content : bytes) : option (option bytes) := Some (file_source content).
