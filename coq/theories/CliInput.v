(* CliInput.v — how the source text reaches run_source in src/bin/naija/cmd.rs (C14):
   run_file (fs::read_to_string), --eval (a Rust String from argv) and run_stdin (read blocks
   of at most `cli_stdin_block` bytes appended to one buffer).  Definitions only.

   The generated flag `cli_stdin_validates_whole_buffer` selects which of the two readers below
   is the model of run_stdin: the translator sets it to true only when the source validates
   UTF-8 once, on the whole accumulated buffer after the read loop. *)
From Coq Require Import ZArith List Bool.
Require Import NS.theories.GenWiring NS.theories.Utf8.
Import ListNotations.
Open Scope Z_scope.

(* fs::read_to_string / a String argument: the bytes, if they are well-formed UTF-8 *)
Definition file_source (content : bytes) : option bytes :=
  if valid_utf8 content then Some content else None.

(* append every block, validate the whole buffer after EOF *)
Definition read_whole (blocks : list bytes) : option bytes :=
  let buf := concat blocks in if valid_utf8 buf then Some buf else None.

(* validate every block on its own (what a "reject binary input early" reader does) *)
Definition read_blockwise (blocks : list bytes) : option bytes :=
  if forallb valid_utf8 blocks then Some (concat blocks) else None.

Definition stdin_source (blocks : list bytes) : option bytes :=
  if cli_stdin_validates_whole_buffer then read_whole blocks else read_blockwise blocks.

(* what read(2) on a redirected regular file returns: full blocks, then the rest *)
Fixpoint split_blocks (fuel : nat) (n : nat) (l : bytes) : list bytes :=
  match fuel with
  | O => []
  | S f => match l with
           | [] => []
           | _ => firstn n l :: split_blocks f n (skipn n l)
           end
  end.

Definition redirect_blocks (content : bytes) : list bytes :=
  split_blocks (length content) (Z.to_nat cli_stdin_block) content.
