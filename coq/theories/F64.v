(* F64 — IEEE-754 binary64 as Coq's specification floats (pure Gallina, no primitive
   floats, no axioms): the arithmetic NaijaScript numbers use.  Definitions only.

   +,-,*,/,sqrt,compare come from Coq.Floats.SpecFloat (round to nearest even, prec 53,
   emax 1024).  Rust's `%` (fmod), floor/ceil/round (half away from zero), the `as isize`
   / `as usize` saturating casts, `fract() != 0`, and Rust's `Display` for f64 (shortest
   digits that round-trip, no exponent) are defined here by exact integer arithmetic.
   All of them are validated against rustc's f64 by the correspondence run (harness mode
   `f64`), and are shared by the implementation model and the reference semantics. *)
From Coq Require Import ZArith List Bool SpecFloat.
Import ListNotations.
Open Scope Z_scope.

Definition prec : Z := 53.
Definition emax : Z := 1024.
Definition f64 := spec_float.

Definition fzero (s : bool) : f64 := S754_zero s.
Definition fnan : f64 := S754_nan.
Definition fadd : f64 -> f64 -> f64 := SFadd prec emax.
Definition fsub : f64 -> f64 -> f64 := SFsub prec emax.
Definition fmul : f64 -> f64 -> f64 := SFmul prec emax.
Definition fdiv : f64 -> f64 -> f64 := SFdiv prec emax.
Definition fsqrt : f64 -> f64 := SFsqrt prec emax.
Definition fneg : f64 -> f64 := SFopp.
Definition fabs : f64 -> f64 := SFabs.
Definition flt (x y : f64) : bool := SFltb x y.
Definition fle (x y : f64) : bool := SFleb x y.
Definition feqb (x y : f64) : bool := SFeqb x y.          (* IEEE ==: -0 == +0, NaN != NaN *)
Definition of_Z (n : Z) : f64 := binary_normalize prec emax n 0 false.

Definition is_zero (x : f64) : bool := match x with S754_zero _ => true | _ => false end.
Definition is_nan (x : f64) : bool := match x with S754_nan => true | _ => false end.
Definition is_finite (x : f64) : bool :=
  match x with S754_zero _ | S754_finite _ _ _ => true | _ => false end.
Definition sign_of (x : f64) : bool :=
  match x with S754_zero s | S754_infinity s | S754_finite s _ _ => s | S754_nan => false end.

(* ---- bit patterns (the exchange format with the implementation) ---- *)
Definition of_bits (b : Z) : f64 :=
  let s := Z.odd (b / 2 ^ 63) in
  let ex := (b / 2 ^ 52) mod 2 ^ 11 in
  let mant := b mod 2 ^ 52 in
  if ex =? 0 then
    match mant with Zpos p => S754_finite s p (-1074) | _ => S754_zero s end
  else if ex =? 2047 then (if mant =? 0 then S754_infinity s else S754_nan)
  else match mant + 2 ^ 52 with Zpos p => S754_finite s p (ex - 1075) | _ => S754_nan end.

Definition nan_bits : Z := 9221120237041090560.  (* 0x7ff8000000000000 *)
Definition to_bits (x : f64) : Z :=
  let sb (s : bool) := if s then 2 ^ 63 else 0 in
  match x with
  | S754_zero s => sb s
  | S754_infinity s => sb s + 2047 * 2 ^ 52
  | S754_nan => nan_bits
  | S754_finite s m e =>
      if Zpos m <? 2 ^ 52 then sb s + Zpos m
      else sb s + (e + 1075) * 2 ^ 52 + (Zpos m - 2 ^ 52)
  end.

(* ---- integer part operations ---- *)
(* m * 2^e with e < 0 split into quotient and remainder by 2^(-e) *)
Definition split_frac (m : positive) (e : Z) : Z * Z * Z :=
  let d := 2 ^ (- e) in (Zpos m / d, Zpos m mod d, d).

Definition is_int (x : f64) : bool :=          (* finite and fract() == 0 *)
  match x with
  | S754_zero _ => true
  | S754_finite _ m e => if 0 <=? e then true else let '(_, r, _) := split_frac m e in r =? 0
  | _ => false
  end.

Definition signed (s : bool) (n : Z) : Z := if s then - n else n.

Definition ffloor (x : f64) : f64 :=
  match x with
  | S754_finite s m e =>
      if 0 <=? e then x else
      let '(q, r, _) := split_frac m e in
      let n := if s then (if r =? 0 then q else q + 1) else q in
      binary_normalize prec emax (signed s n) 0 s
  | _ => x
  end.

Definition fceil (x : f64) : f64 :=
  match x with
  | S754_finite s m e =>
      if 0 <=? e then x else
      let '(q, r, _) := split_frac m e in
      let n := if s then q else (if r =? 0 then q else q + 1) in
      binary_normalize prec emax (signed s n) 0 s
  | _ => x
  end.

Definition fround (x : f64) : f64 :=          (* half away from zero *)
  match x with
  | S754_finite s m e =>
      if 0 <=? e then x else
      let '(q, r, d) := split_frac m e in
      let n := if d <=? 2 * r then q + 1 else q in
      binary_normalize prec emax (signed s n) 0 s
  | _ => x
  end.

(* truncation toward zero as an unbounded integer; None for NaN/inf *)
Definition trunc_Z (x : f64) : option Z :=
  match x with
  | S754_zero _ => Some 0
  | S754_finite s m e =>
      Some (signed s (if 0 <=? e then Zpos m * 2 ^ e else let '(q, _, _) := split_frac m e in q))
  | _ => None
  end.

Definition clamp (lo hi n : Z) : Z := Z.max lo (Z.min hi n).
Definition isize_min : Z := - 2 ^ 63.
Definition isize_max : Z := 2 ^ 63 - 1.
Definition usize_max : Z := 2 ^ 64 - 1.

(* Rust `x as isize` / `x as usize`: saturating, NaN -> 0 *)
Definition to_isize (x : f64) : Z :=
  match x with
  | S754_nan => 0
  | S754_infinity s => if s then isize_min else isize_max
  | _ => match trunc_Z x with Some n => clamp isize_min isize_max n | None => 0 end
  end.
Definition to_usize (x : f64) : Z :=
  match x with
  | S754_nan => 0
  | S754_infinity s => if s then 0 else usize_max
  | _ => match trunc_Z x with Some n => clamp 0 usize_max n | None => 0 end
  end.

(* Rust `%` on f64 (C fmod): sign of the dividend, exact *)
Definition frem (x y : f64) : f64 :=
  match x, y with
  | S754_nan, _ | _, S754_nan => S754_nan
  | S754_infinity _, _ => S754_nan
  | _, S754_zero _ => S754_nan
  | S754_zero _, _ => x
  | _, S754_infinity _ => x
  | S754_finite sx mx ex, S754_finite _ my ey =>
      let e := Z.min ex ey in
      let X := Zpos mx * 2 ^ (ex - e) in
      let Y := Zpos my * 2 ^ (ey - e) in
      binary_normalize prec emax (signed sx (X mod Y)) e sx
  end.

(* |l - r| <= eps, as the interpreter's `na` on numbers *)
Definition feq_eps (eps l r : f64) : bool := fle (fabs (fsub l r)) eps.

(* ---- Display: shortest decimal digits that round-trip, plain notation ---- *)
Definition bytes := list Z.

Fixpoint digits_fuel (fuel : nat) (n : Z) (acc : bytes) : bytes :=
  match fuel with
  | O => acc
  | S f => if n <? 10 then (48 + n) :: acc else digits_fuel f (n / 10) ((48 + n mod 10) :: acc)
  end.
Definition dec_digits (n : Z) : bytes := digits_fuel (S (Z.to_nat (Z.log2 (Z.max n 1)))) n [].

(* round-half-even of the non-negative rational a/b *)
Definition rne (a b : Z) : Z :=
  let q := a / b in let r := a mod b in
  if 2 * r <? b then q else if b <? 2 * r then q + 1 else if Z.even q then q else q + 1.

(* floor(log10 (a/b)) for a/b > 0, searched from a bracketing estimate *)
Fixpoint log10_down (fuel : nat) (a b k : Z) : Z :=      (* decrease k while 10^k > a/b *)
  match fuel with
  | O => k
  | S f => let le := if 0 <=? k then (b * 10 ^ k <=? a) else (b <=? a * 10 ^ (- k)) in
           if le then k else log10_down f a b (k - 1)
  end.

Definition pow10_scale (a b j : Z) : Z * Z :=             (* (a/b) * 10^j as a fraction *)
  if 0 <=? j then (a * 10 ^ j, b) else (a, b * 10 ^ (- j)).

(* the rounding interval of v = m*2^e as fractions over a common denominator:
   returns (lo_num, hi_num, den, inclusive) with lo = (v_prev+v)/2, hi = (v+v_next)/2 *)
Definition interval (m : positive) (e : Z) : Z * Z * Z * bool :=
  let mz := Zpos m in
  let boundary := (mz =? 2 ^ 52) && (-1074 <? e) in
  (* scale everything by 4*2^(-emin') so that halves and the finer lower gap are integral *)
  let e' := e - 2 in                                  (* unit = 2^(e-2) *)
  let v := 4 * mz in
  let lo := if boundary then v - 1 else v - 2 in
  let hi := v + 2 in
  if 0 <=? e' then (lo * 2 ^ e', hi * 2 ^ e', 1, Z.even mz)
  else (lo, hi, 2 ^ (- e'), Z.even mz).

Definition in_interval (iv : Z * Z * Z * bool) (cn cd : Z) : bool :=   (* cn/cd inside? *)
  let '(lo, hi, den, incl) := iv in
  if incl then (lo * cd <=? cn * den) && (cn * den <=? hi * cd)
  else (lo * cd <? cn * den) && (cn * den <? hi * cd).

(* try precisions p = 1, 2, ...: with p digits the two candidates are the truncation q0 of
   v*10^j and q0+1; Rust's shortest-digits generation accepts whichever lies inside the
   rounding interval of v (both: the nearer one, an exact tie going up) *)
Fixpoint shortest (fuel : nat) (p : Z) (a b k10 : Z) (iv : Z * Z * Z * bool) : Z * Z :=
  let j := p - 1 - k10 in
  let '(sa, sb) := pow10_scale a b j in
  let q0 := sa / sb in
  let r := sa mod sb in
  let q1 := q0 + 1 in
  let cand (q : Z) := if 0 <=? j then (q, 10 ^ j) else (q * 10 ^ (- j), 1) in
  let in0 := let '(cn, cd) := cand q0 in in_interval iv cn cd in
  let in1 := let '(cn, cd) := cand q1 in in_interval iv cn cd in
  let up := sb <=? 2 * r in
  match fuel with
  | O => (if up then q1 else q0, j)
  | S f =>
      if in0 && in1 then (if up then q1 else q0, j)
      else if in0 then (q0, j)
      else if in1 then (q1, j)
      else shortest f (p + 1) a b k10 iv
  end.

Fixpoint strip_zeros (fuel : nat) (q j : Z) : Z * Z :=   (* drop trailing decimal zeros *)
  match fuel with
  | O => (q, j)
  | S f => if (q mod 10 =? 0) && (0 <? q) then strip_zeros f (q / 10) (j - 1) else (q, j)
  end.

Fixpoint zeros (n : nat) : bytes := match n with O => [] | S k => 48 :: zeros k end.

(* digits q, value q * 10^(-j): plain positional notation *)
Definition plain (q j : Z) : bytes :=
  let ds := dec_digits q in
  if j <=? 0 then ds ++ zeros (Z.to_nat (- j))
  else
    let n := Z.of_nat (length ds) in
    if j <? n then firstn (Z.to_nat (n - j)) ds ++ [46] ++ skipn (Z.to_nat (n - j)) ds
    else [48; 46] ++ zeros (Z.to_nat (j - n)) ++ ds.

Definition fmt_pos (m : positive) (e : Z) : bytes :=
  let '(a, b) := if 0 <=? e then (Zpos m * 2 ^ e, 1) else (Zpos m, 2 ^ (- e)) in
  (* estimate of log10: log2(v) * 0.30103 rounded up, then walk down *)
  let l2 := Z.log2 (Zpos m) + e in
  let k0 := (l2 * 30103) / 100000 + 2 in
  let k10 := log10_down 8%nat a b k0 in
  let '(q, j) := shortest 17%nat 1 a b k10 (interval m e) in
  let '(q', j') := strip_zeros 20%nat q j in
  plain q' j'.

Definition fmt (x : f64) : bytes :=
  match x with
  | S754_nan => [78; 97; 78]                               (* NaN *)
  | S754_infinity s => (if s then [45] else []) ++ [105; 110; 102]   (* inf *)
  | S754_zero s => (if s then [45] else []) ++ [48]
  | S754_finite s m e => (if s then [45] else []) ++ fmt_pos m e
  end.
