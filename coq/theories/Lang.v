(* Lang — resolved abstract syntax (src/syntax/parser.rs AST + the bindings the checker
   records in ProgramFacts), run-time values, and `run_impl`: a transcription of
   src/runtime.rs (eval_expr / exec_stmt / exec_block_with_flow / eval_function_call /
   member and built-in dispatch / id-directed variable and function lookup / pruning).
   Definitions only; no proofs.

   Every place where the Rust code has `unreachable!`, `unimplemented!`, `expect`,
   `assert!` or an unchecked index is an explicit `Panic site` result here, so "an accepted
   program never crashes" is a statement about this function, not an assumption of it.
   Fuel bounds the recursion depth (and the number of loop iterations); `Fuel` is the
   model's "resource exhaustion" ending and is excluded by the theorems that compare runs.
   Host/process values, read_line, to_number and non-ASCII case mapping are outside this
   model: reaching them ends the model run with `Unsupp` (counted, never compared). *)
From Coq Require Import ZArith List Bool SpecFloat.
Require Import NS.theories.F64 NS.theories.StrLib.
Require NS.theories.NumParse NS.theories.CaseMap.
Import ListNotations.
Open Scope Z_scope.

Definition name := list Z.

Inductive binop := Add | Minus | Times | Divide | Mod | And | Or | OEq | OGt | OLt.
Inductive unop := Not | Neg.

Inductive seg := SegLit (s : list Z) | SegVar (n : name) (l : option Z).

Inductive expr :=
| ENum (x : f64)
| EStr (s : list Z)
| EInterp (segs : list seg)
| EBool (b : bool)
| ENull
| EVar (n : name) (l : option Z)
| EBin (op : binop) (a b : expr)
| EUn (op : unop) (a : expr)
| EArr (es : list expr)
| EIdx (a i : expr)
| EMember (o : expr) (f : name)
| ECall (callee : expr) (args : list expr) (target : option Z).

Inductive stmt :=
| SFun (sid : option Z) (n : name) (ps : list name) (body : list stmt)
       (fid : option Z) (lstart llen : Z)
| SMake (sid : option Z) (n : name) (l : option Z) (e : expr)
| SSet (sid : option Z) (n : name) (l : option Z) (e : expr)
| SSetIdx (sid : option Z) (target e : expr)
| SIf (sid : option Z) (c : expr) (t : list stmt) (f : option (list stmt))
| SLoop (sid : option Z) (c : expr) (body : list stmt)
| SBlock (sid : option Z) (body : list stmt)
| SRet (sid : option Z) (e : option expr)
| SBreak (sid : option Z)
| SNext (sid : option Z)
| SExpr (sid : option Z) (e : expr).

Definition stmt_sid (s : stmt) : option Z :=
  match s with
  | SFun i _ _ _ _ _ _ | SMake i _ _ _ | SSet i _ _ _ | SSetIdx i _ _ | SIf i _ _ _
  | SLoop i _ _ | SBlock i _ | SRet i _ | SBreak i | SNext i | SExpr i _ => i
  end.

(* removable statement ids, removable function ids *)
Definition plan := option (list Z * list Z).

Inductive value :=
| VNum (x : f64) | VStr (s : list Z) | VBool (b : bool) | VNull | VArr (vs : list value).

Inductive rterr := DivZero | StackOv | IdxOob | TypeMis | InvIdx.

(* the panic-capable sites that remain in src/runtime.rs after the type-dispatch arms were
   turned into Type-mismatch errors (see Properties/C06.v for which are provably dead) *)
Inductive psite :=
| PNumOp | PVarMissing | PFuncMissing | PArgCount | PBuiltinArity | PBreakEscapes
| PAssignMissing | PMutVarMissing | PArgIndex | PSegVar | PParamRange | PNoFnScope
| PIdxAssignEnd | PFind | PMutBuiltin.

Inductive res (A : Type) :=
| Ok (a : A) | Err (e : rterr) | Panic (p : psite) | Fuel | Unsupp.
Arguments Ok {A} a. Arguments Err {A} e. Arguments Panic {A} p.
Arguments Fuel {A}. Arguments Unsupp {A}.

Definition bind {A B} (r : res A) (f : A -> res B) : res B :=
  match r with
  | Ok a => f a | Err e => Err e | Panic p => Panic p | Fuel => Fuel | Unsupp => Unsupp
  end.
Notation "'do' x <- r ; k" := (bind r (fun x => k)) (at level 200, x pattern, r at level 100, k at level 200).

Record slot := { s_id : option Z; s_name : name; s_val : value }.
Record fdef := { f_id : option Z; f_name : name; f_params : list name; f_body : list stmt;
                 f_lstart : Z; f_llen : Z }.

(* innermost scope first; inside a scope the most recently pushed entry first *)
Record st := { env : list (list slot); fns : list (list fdef) }.

Inductive flow := FNormal | FReturn (v : value) | FBreak | FNext.

(* ---------- names, byte strings ---------- *)
Fixpoint bytes_eqb (a b : list Z) : bool :=
  match a, b with
  | [], [] => true
  | x :: a', y :: b' => (x =? y) && bytes_eqb a' b'
  | _, _ => false
  end.

Fixpoint bytes_ltb (a b : list Z) : bool :=      (* lexicographic by byte, as Rust's str Ord *)
  match a, b with
  | _, [] => false
  | [], _ :: _ => true
  | x :: a', y :: b' => if x <? y then true else if y <? x then false else bytes_ltb a' b'
  end.

Definition opt_eqb (a b : option Z) : bool :=
  match a, b with Some x, Some y => x =? y | _, _ => false end.

Definition lit (s : list Z) := s.
(* ASCII names of the built-ins, as byte lists *)
Definition n_shout := [115;104;111;117;116].
Definition n_typeof := [116;121;112;101;111;102].
Definition n_read_line := [114;101;97;100;95;108;105;110;101].
Definition n_to_string := [116;111;95;115;116;114;105;110;103].
Definition n_command := [99;111;109;109;97;110;100].
Definition n_len := [108;101;110].
Definition n_push := [112;117;115;104].
Definition n_pop := [112;111;112].
Definition n_reverse := [114;101;118;101;114;115;101].
Definition n_join := [106;111;105;110].
Definition n_slice := [115;108;105;99;101].
Definition n_to_uppercase := [116;111;95;117;112;112;101;114;99;97;115;101].
Definition n_to_lowercase := [116;111;95;108;111;119;101;114;99;97;115;101].
Definition n_find := [102;105;110;100].
Definition n_replace := [114;101;112;108;97;99;101].
Definition n_trim := [116;114;105;109].
Definition n_to_number := [116;111;95;110;117;109;98;101;114].
Definition n_split := [115;112;108;105;116].
Definition n_abs := [97;98;115].
Definition n_sqrt := [115;113;114;116].
Definition n_floor := [102;108;111;111;114].
Definition n_ceil := [99;101;105;108].
Definition n_round := [114;111;117;110;100].
(* process_command builder methods that need a mutable receiver (all but run) *)
Definition proc_mut_names : list name :=
  [[97;114;103]; [99;119;100]; [101;110;118];
   [115;116;100;105;110;95;116;101;120;116]; [115;116;100;105;110;95;105;110;104;101;114;105;116];
   [115;116;100;105;110;95;110;117;108;108];
   [115;116;100;111;117;116;95;99;97;112;116;117;114;101]; [115;116;100;111;117;116;95;105;110;104;101;114;105;116];
   [115;116;100;111;117;116;95;110;117;108;108];
   [115;116;100;101;114;114;95;99;97;112;116;117;114;101]; [115;116;100;101;114;114;95;105;110;104;101;114;105;116];
   [115;116;100;101;114;114;95;110;117;108;108];
   [116;105;109;101;111;117;116;95;109;115]].

Definition mem_name (n : name) (l : list name) : bool := existsb (bytes_eqb n) l.

Inductive gbuiltin := GShout | GTypeOf | GReadLine | GToString | GCommand.
Definition global_builtin (n : name) : option gbuiltin :=
  if bytes_eqb n n_shout then Some GShout
  else if bytes_eqb n n_typeof then Some GTypeOf
  else if bytes_eqb n n_read_line then Some GReadLine
  else if bytes_eqb n n_to_string then Some GToString
  else if bytes_eqb n n_command then Some GCommand
  else None.

Definition string_methods : list name :=
  [n_len; n_slice; n_to_uppercase; n_to_lowercase; n_find; n_replace; n_trim; n_to_number; n_split].
Definition array_methods : list name := [n_len; n_push; n_pop; n_reverse; n_join].
Definition array_mut_methods : list name := [n_push; n_pop; n_reverse].
Definition number_methods : list name := [n_abs; n_sqrt; n_floor; n_ceil; n_round].

(* ---------- Display ---------- *)
Definition s_true := [116;114;117;101].
Definition s_false := [102;97;108;115;101].
Definition s_null := [110;117;108;108].

Fixpoint display (v : value) : list Z :=
  match v with
  | VStr s => s
  | VNum x => fmt x
  | VBool b => if b then s_true else s_false
  | VNull => s_null
  | VArr vs =>
      [91] ++
      (fix items (vs : list value) (first : bool) {struct vs} : list Z :=
         match vs with
         | [] => []
         | v :: r => (if first then [] else [44; 32]) ++
                     (match v with VStr s => [34] ++ s ++ [34] | _ => display v end) ++
                     items r false
         end) vs true ++ [93]
  end.

Fixpoint join_val (sep : list Z) (v : value) {struct v} : list Z :=
  match v with
  | VStr s => s
  | VArr vs =>
      (fix go (vs : list value) {struct vs} : list Z :=
         match vs with
         | [] => []
         | x :: r => join_val sep x ++ (match r with [] => [] | _ => sep ++ go r end)
         end) vs
  | _ => display v
  end.
Definition join_values (vs : list value) (sep : list Z) : list Z := join_val sep (VArr vs).

Definition type_name (v : value) : list Z :=
  match v with
  | VNum _ => [110;117;109;98;101;114]
  | VStr _ => [115;116;114;105;110;103]
  | VBool _ => [98;111;111;108;101;97;110]
  | VArr _ => [97;114;114;97;121]
  | VNull => s_null
  end.

(* ---------- environment ---------- *)
Definition slot_matches (l : option Z) (n : name) (s : slot) : bool :=
  match l with Some _ => opt_eqb (s_id s) l | None => bytes_eqb (s_name s) n end.

Fixpoint find_slot (l : option Z) (n : name) (sc : list slot) : option value :=
  match sc with
  | [] => None
  | s :: r => if slot_matches l n s then Some (s_val s) else find_slot l n r
  end.

Fixpoint lookup_env (l : option Z) (n : name) (e : list (list slot)) : option value :=
  match e with
  | [] => None
  | sc :: r => match find_slot l n sc with Some v => Some v | None => lookup_env l n r end
  end.

(* replace the value of the first matching slot of one scope *)
Fixpoint set_slot (l : option Z) (n : name) (v : value) (sc : list slot) : option (list slot) :=
  match sc with
  | [] => None
  | s :: r =>
      if slot_matches l n s then Some ({| s_id := s_id s; s_name := s_name s; s_val := v |} :: r)
      else match set_slot l n v r with Some r' => Some (s :: r') | None => None end
  end.

Fixpoint assign_env (l : option Z) (n : name) (v : value) (e : list (list slot))
  : option (list (list slot)) :=
  match e with
  | [] => None
  | sc :: r =>
      match set_slot l n v sc with
      | Some sc' => Some (sc' :: r)
      | None => match assign_env l n v r with Some r' => Some (sc :: r') | None => None end
      end
  end.

(* `make`: overwrite in the innermost scope if the variable is already there, else push *)
Definition define_env (l : option Z) (n : name) (v : value) (e : list (list slot))
  : list (list slot) :=
  match e with
  | [] => []
  | sc :: r =>
      match set_slot l n v sc with
      | Some sc' => sc' :: r
      | None => ({| s_id := l; s_name := n; s_val := v |} :: sc) :: r
      end
  end.

Definition fdef_matches (target : option Z) (n : name) (f : fdef) : bool :=
  match target with Some _ => opt_eqb (f_id f) target | None => bytes_eqb (f_name f) n end.

Fixpoint find_fn_scope (target : option Z) (n : name) (sc : list fdef) : option fdef :=
  match sc with
  | [] => None
  | f :: r => if fdef_matches target n f then Some f else find_fn_scope target n r
  end.

Fixpoint lookup_fn (target : option Z) (n : name) (fs : list (list fdef)) : option fdef :=
  match fs with
  | [] => None
  | sc :: r => match find_fn_scope target n sc with Some f => Some f | None => lookup_fn target n r end
  end.

Definition push_scope (slots : list slot) (s : st) : st :=
  {| env := slots :: env s; fns := [] :: fns s |}.
Definition pop_scope (s : st) : st :=
  {| env := tl (env s); fns := tl (fns s) |}.
Definition with_env (e : list (list slot)) (s : st) : st :=
  {| env := e; fns := fns s |}.

Definition in_plan_stmt (p : plan) (sid : option Z) : bool :=
  match p, sid with
  | Some (ss, _), Some i => existsb (Z.eqb i) ss
  | _, _ => false
  end.
Definition in_plan_fn (p : plan) (fid : option Z) : bool :=
  match p, fid with
  | Some (_, fs), Some i => existsb (Z.eqb i) fs
  | _, _ => false
  end.

(* hoist_block_functions / register_function *)
Fixpoint hoist (p : plan) (b : list stmt) (s : st) : res st :=
  match b with
  | [] => Ok s
  | SFun _ n ps body fid ls ll :: r =>
      if in_plan_fn p fid then hoist p r s
      else
        match fns s with
        | [] => Panic PNoFnScope
        | sc :: rest =>
            let f := {| f_id := fid; f_name := n; f_params := ps; f_body := body;
                        f_lstart := ls; f_llen := ll |} in
            hoist p r {| env := env s; fns := (f :: sc) :: rest |}
        end
  | _ :: r => hoist p r s
  end.

(* ---------- numbers as indices ---------- *)
(* eval_index_value (index assignment / mutable receivers) *)
Definition index_value (v : value) : res Z :=
  match v with
  | VNum x =>
      if negb (is_finite x) || negb (is_int x) then Err InvIdx
      else if flt x (fzero false) then Err IdxOob
      else Ok (to_usize x)
  | _ => Err InvIdx
  end.

Fixpoint nth_value (vs : list value) (i : nat) : option value :=
  match vs, i with
  | v :: _, O => Some v
  | _ :: r, S k => nth_value r k
  | [], _ => None
  end.

Fixpoint set_nth (vs : list value) (i : nat) (v : value) : list value :=
  match vs, i with
  | _ :: r, O => v :: r
  | x :: r, S k => x :: set_nth r k v
  | [], _ => []
  end.

Definition len_z (vs : list value) : Z := Z.of_nat (length vs).

(* assign_index: walk the index path; every step needs an array (else InvalidIndex) and an
   index below the length (else IndexOutOfBounds); the last step replaces the element *)
Fixpoint assign_path (v : value) (path : list Z) (nv : value) : res value :=
  match path with
  | [] => Panic PIdxAssignEnd
  | i :: rest =>
      match v with
      | VArr items =>
          if len_z items <=? i then Err IdxOob
          else match rest with
               | [] => Ok (VArr (set_nth items (Z.to_nat i) nv))
               | _ => match nth_value items (Z.to_nat i) with
                      | Some sub => do sub' <- assign_path sub rest nv;
                                    Ok (VArr (set_nth items (Z.to_nat i) sub'))
                      | None => Err IdxOob
                      end
               end
      | _ => Err InvIdx
      end
  end.

Inductive mutop := MPush (v : value) | MPop | MReverse.

Definition last_value (vs : list value) : value := last vs VNull.

Definition apply_mutop (op : mutop) (items : list value) : list value * value :=
  match op with
  | MPush v => (items ++ [v], VNull)
  | MPop => match items with [] => ([], VNull) | _ => (removelast items, last_value items) end
  | MReverse => (rev items, VNull)
  end.

(* get_mutable_array + the mutation: returns the new root value and the call's result *)
Fixpoint mutate_path (v : value) (path : list Z) (op : mutop) : res (value * value) :=
  match path with
  | [] =>
      match v with
      | VArr items => let '(items', r) := apply_mutop op items in Ok (VArr items', r)
      | _ => Err TypeMis
      end
  | i :: rest =>
      match v with
      | VArr items =>
          if len_z items <=? i then Err IdxOob
          else match nth_value items (Z.to_nat i) with
               | Some sub => do (sub', r) <- mutate_path sub rest op;
                             Ok (VArr (set_nth items (Z.to_nat i) sub'), r)
               | None => Err IdxOob
               end
      | _ => Err InvIdx
      end
  end.

(* flatten_index_target: base variable and index expressions, outermost index first *)
Fixpoint flatten_target (t : expr) (acc : list expr) : option (name * option Z * list expr) :=
  match t with
  | EIdx a i => flatten_target a (i :: acc)
  | EVar n l => Some (n, l, acc)
  | _ => None
  end.

(* ---------- operators ---------- *)
Definition num_binop (eps : f64) (op : binop) (l r : f64) : res value :=
  match op with
  | Add => Ok (VNum (fadd l r))
  | Minus => Ok (VNum (fsub l r))
  | Times => Ok (VNum (fmul l r))
  | Divide => if feqb r (fzero false) then Err DivZero else Ok (VNum (fdiv l r))
  | Mod => if feqb r (fzero false) then Err DivZero else Ok (VNum (frem l r))
  | OEq => Ok (VBool (feq_eps eps l r))
  | OGt => Ok (VBool (flt r l))
  | OLt => Ok (VBool (flt l r))
  | _ => Panic PNumOp
  end.

Definition binop_values (eps : f64) (op : binop) (l r : value) : res value :=
  match l, r with
  | VNum a, VNum b => num_binop eps op a b
  | VStr a, VStr b =>
      match op with
      | Add => Ok (VStr (a ++ b))
      | OEq => Ok (VBool (bytes_eqb a b))
      | OGt => Ok (VBool (bytes_ltb b a))
      | OLt => Ok (VBool (bytes_ltb a b))
      | _ => Err TypeMis
      end
  | VStr a, VNum b => match op with Add => Ok (VStr (a ++ fmt b)) | _ => Err TypeMis end
  | VNum a, VStr b => match op with Add => Ok (VStr (fmt a ++ b)) | _ => Err TypeMis end
  | VBool a, VBool b =>
      match op with
      | OEq => Ok (VBool (Bool.eqb a b))
      | OGt => Ok (VBool (a && negb b))
      | OLt => Ok (VBool (negb a && b))
      | _ => Err TypeMis
      end
  | VNull, VNull =>
      match op with
      | OEq => Ok (VBool true)
      | OGt | OLt => Ok (VBool false)
      | _ => Err TypeMis
      end
  | VNull, _ | _, VNull =>
      match op with
      | OEq | OGt | OLt => Ok (VBool false)
      | _ => Err TypeMis
      end
  | _, _ => Err TypeMis
  end.

(* ---------- string / number / array methods on evaluated arguments ---------- *)
Definition is_ascii (s : list Z) : bool := forallb (fun b => b <? 128) s.
Definition ascii_upper (s : list Z) : list Z :=
  map (fun b => if (97 <=? b) && (b <=? 122) then b - 32 else b) s.
Definition ascii_lower (s : list Z) : list Z :=
  map (fun b => if (65 <=? b) && (b <=? 90) then b + 32 else b) s.

Definition number_method (f : name) (x : f64) : value :=
  if bytes_eqb f n_abs then VNum (fabs x)
  else if bytes_eqb f n_sqrt then VNum (fsqrt x)
  else if bytes_eqb f n_floor then VNum (ffloor x)
  else if bytes_eqb f n_ceil then VNum (fceil x)
  else VNum (fround x).

(* ---------- the evaluator ---------- *)
Section Run.
Variable P : plan.
Variable eps : f64.            (* FLOAT_EQ_EPS, regenerated from the source *)

Definition truthy_cond (v : value) : res bool :=
  match v with VBool b => Ok b | VNull => Ok false | _ => Err TypeMis end.

Definition M (A : Type) : Type := (list value * res A)%type.
Definition bindM {A B} (m : M A) (f : A -> M B) : M B :=
  match m with
  | (o1, Ok a) => let '(o2, r) := f a in (o1 ++ o2, r)
  | (o1, Err e) => (o1, Err e)
  | (o1, Panic p) => (o1, Panic p)
  | (o1, Fuel) => (o1, Fuel)
  | (o1, Unsupp) => (o1, Unsupp)
  end.
Definition lift {A} (r : res A) : M A := ([], r).
Definition OkM {A} (a : A) : M A := ([], Ok a).
Definition ErrM {A} (e : rterr) : M A := ([], Err e).
Definition PanicM {A} (p : psite) : M A := ([], Panic p).
Definition FuelM {A} : M A := ([], Fuel).
Definition UnsuppM {A} : M A := ([], Unsupp).
Notation "'do' x <- r ; k" := (bindM r (fun x => k)) (at level 200, x pattern, r at level 100, k at level 200).

(* list-level helpers, parameterised by the evaluator of one expression / statement
   (the evaluator passes itself at the next lower fuel) *)
Fixpoint evals_with (ev : expr -> st -> M (value * st)) (es : list expr) (s : st)
  : M (list value * st) :=
  match es with
  | [] => OkM ([], s)
  | e :: r => do (v, s1) <- ev e s; do (vs, s2) <- evals_with ev r s1; OkM (v :: vs, s2)
  end.

Fixpoint indices_with (ev : expr -> st -> M (value * st)) (es : list expr) (s : st)
  : M (list Z * st) :=
  match es with
  | [] => OkM ([], s)
  | e :: r => do (v, s1) <- ev e s; do i <- lift (index_value v);
              do (is, s2) <- indices_with ev r s1; OkM (i :: is, s2)
  end.

(* get_mutable_array on receiver `o`, then the mutation *)
Definition mutate_with (ev : expr -> st -> M (value * st)) (o : expr) (op : mutop) (s : st)
  : M (value * st) :=
  match o with
  | EVar vn vl =>
      match lookup_env vl vn (env s) with
      | None => PanicM PMutVarMissing
      | Some root =>
          do (root', r) <- lift (mutate_path root [] op);
          match assign_env vl vn root' (env s) with
          | Some e' => OkM (r, with_env e' s)
          | None => PanicM PMutVarMissing
          end
      end
  | EIdx _ _ =>
      match flatten_target o [] with
      | None => ErrM TypeMis
      | Some (vn, vl, idx_exprs) =>
          do (path, s1) <- indices_with ev idx_exprs s;
          match lookup_env vl vn (env s1) with
          | None => PanicM PMutVarMissing
          | Some root =>
              do (root', r) <- lift (mutate_path root path op);
              match assign_env vl vn root' (env s1) with
              | Some e' => OkM (r, with_env e' s1)
              | None => PanicM PMutVarMissing
              end
          end
      end
  | _ => ErrM TypeMis
  end.

(* eval_string_expr: interpolation reads variables by reference *)
Fixpoint interp_segs (e : list (list slot)) (segs : list seg) : res (list Z) :=
  match segs with
  | [] => Ok []
  | SegLit b :: r => match interp_segs e r with Ok rest => Ok (b ++ rest) | x => x end
  | SegVar vn vl :: r =>
      match lookup_env vl vn e with
      | None => Panic PSegVar
      | Some v => match interp_segs e r with Ok rest => Ok (display v ++ rest) | x => x end
      end
  end.

(* parameter slots: ids are local_range.start + position when the callee is bound *)
Fixpoint bind_params (fid : option Z) (lstart : Z) (ps : list name) (vs : list value) (k : Z)
         (acc : list slot) : list slot :=
  match ps, vs with
  | p :: ps', v :: vs' =>
      bind_params fid lstart ps' vs' (k + 1)
        ({| s_id := match fid with Some _ => Some (lstart + k) | None => None end;
            s_name := p; s_val := v |} :: acc)
  | _, _ => acc
  end.

(* the statements of a block, in order, skipping the ones the plan removes *)
Fixpoint stmts_with (ex : stmt -> st -> M (flow * st)) (ts : list stmt) (s : st)
  : M (flow * st) :=
  match ts with
  | [] => OkM (FNormal, pop_scope s)
  | t :: r =>
      if in_plan_stmt P (stmt_sid t) then stmts_with ex r s
      else
        do (fl, s') <- ex t s;
        match fl with
        | FNormal => stmts_with ex r s'
        | _ => OkM (fl, pop_scope s')
        end
  end.

Fixpoint eval (n : nat) (e : expr) (s : st) {struct n} : M (value * st) :=
  match n with
  | O => FuelM
  | S n' =>
    let evals := evals_with (eval n') in
    let eval_indices := indices_with (eval n') in
    let mutate := mutate_with (eval n') in
    match e with
    | ENum x => OkM (VNum x, s)
    | EStr b => OkM (VStr b, s)
    | EInterp segs => do b <- lift (interp_segs (env s) segs); OkM (VStr b, s)
    | EBool b => OkM (VBool b, s)
    | ENull => OkM (VNull, s)
    | EVar vn vl =>
        match lookup_env vl vn (env s) with
        | Some v => OkM (v, s)
        | None => PanicM PVarMissing
        end
    | EBin And a b =>
        do (l, s1) <- eval n' a s;
        match l with
        | VBool false | VNull => OkM (VBool false, s1)
        | _ => do (r, s2) <- eval n' b s1;
               match r with
               | VBool x => OkM (VBool x, s2)
               | VNull => OkM (VBool false, s2)
               | _ => ErrM TypeMis
               end
        end
    | EBin Or a b =>
        do (l, s1) <- eval n' a s;
        match l with
        | VBool true => OkM (VBool true, s1)
        | _ => do (r, s2) <- eval n' b s1;
               match r with
               | VBool x => OkM (VBool x, s2)
               | VNull => OkM (VBool false, s2)
               | _ => ErrM TypeMis
               end
        end
    | EBin op a b =>
        do (l, s1) <- eval n' a s;
        do (r, s2) <- eval n' b s1;
        do v <- lift (binop_values eps op l r); OkM (v, s2)
    | EUn op a =>
        do (v, s1) <- eval n' a s;
        match op, v with
        | Not, VBool b => OkM (VBool (negb b), s1)
        | Not, VNull => OkM (VBool true, s1)
        | Neg, VNum x => OkM (VNum (fneg x), s1)
        | _, _ => ErrM TypeMis
        end
    | EArr es => do (vs, s1) <- evals es s; OkM (VArr vs, s1)
    | EIdx a i =>
        do (av, s1) <- eval n' a s;
        do (iv, s2) <- eval n' i s1;
        match av with
        | VArr items =>
            match iv with
            | VNum x =>
                if negb (is_finite x) || negb (is_int x) then ErrM InvIdx
                else
                  let idx := to_isize x in
                  if (idx <? 0) || (len_z items <=? idx) then ErrM IdxOob
                  else match nth_value items (Z.to_nat idx) with
                       | Some v => OkM (v, s2)
                       | None => ErrM IdxOob
                       end
            | _ => ErrM InvIdx
            end
        | _ => ErrM TypeMis
        end
    | EMember _ _ => ErrM TypeMis
    | ECall (EMember o f) args _ =>
        if mem_name f array_mut_methods then
          if bytes_eqb f n_push then
            match args with
            | [] => PanicM PArgIndex
            | a0 :: _ => do (v, s1) <- eval n' a0 s; mutate o (MPush v) s1
            end
          else if bytes_eqb f n_pop then mutate o MPop s
          else mutate o MReverse s
        else if mem_name f proc_mut_names then UnsuppM
        else
          do (recv, s1) <- eval n' o s;
          match recv with
          | VStr str =>
              if negb (mem_name f string_methods) then ErrM TypeMis
              else if bytes_eqb f n_len then OkM (VNum (of_Z (Z.of_nat (str_len str))), s1)
              else if bytes_eqb f n_slice then
                match args with
                | a0 :: a1 :: _ =>
                    do (v0, s2) <- eval n' a0 s1;
                    do (v1, s3) <- eval n' a1 s2;
                    match v0, v1 with
                    | VNum x0, VNum x1 =>
                        OkM (VStr (slice str (to_isize (ffloor x0)) (to_isize (ffloor x1))), s3)
                    | _, _ => ErrM TypeMis
                    end
                | _ => PanicM PArgIndex
                end
              else if bytes_eqb f n_to_uppercase then
                OkM (VStr (CaseMap.to_upper str), s1)
              else if bytes_eqb f n_to_lowercase then
                OkM (VStr (CaseMap.to_lower str), s1)
              else if bytes_eqb f n_trim then OkM (VStr (trim str), s1)
              else if bytes_eqb f n_to_number then OkM (VNum (NumParse.to_number str), s1)
              else if bytes_eqb f n_find then
                match args with
                | a0 :: _ =>
                    do (v0, s2) <- eval n' a0 s1;
                    match v0 with
                    | VStr needle =>
                        match find str needle with
                        | Found i => OkM (VNum (of_Z (Z.of_nat i)), s2)
                        | NotFound => OkM (VNum (of_Z (-1)), s2)
                        | _ => PanicM PFind
                        end
                    | _ => ErrM TypeMis
                    end
                | _ => PanicM PArgIndex
                end
              else if bytes_eqb f n_replace then
                match args with
                | a0 :: a1 :: _ =>
                    do (v0, s2) <- eval n' a0 s1;
                    do (v1, s3) <- eval n' a1 s2;
                    match v0, v1 with
                    | VStr old, VStr new =>
                        match replace str old new with
                        | SOk r => OkM (VStr r, s3)
                        | _ => PanicM PFind
                        end
                    | _, _ => ErrM TypeMis
                    end
                | _ => PanicM PArgIndex
                end
              else (* split *)
                match args with
                | a0 :: _ =>
                    do (v0, s2) <- eval n' a0 s1;
                    match v0 with
                    | VStr pat => OkM (VArr (map VStr (split str pat)), s2)
                    | _ => ErrM TypeMis
                    end
                | _ => PanicM PArgIndex
                end
          | VNum x =>
              if mem_name f number_methods then OkM (number_method f x, s1) else ErrM TypeMis
          | VArr items =>
              if negb (mem_name f array_methods) then ErrM TypeMis
              else if bytes_eqb f n_len then OkM (VNum (of_Z (len_z items)), s1)
              else if bytes_eqb f n_join then
                match args with
                | a0 :: _ =>
                    do (v0, s2) <- eval n' a0 s1;
                    match v0 with
                    | VStr sep => OkM (VStr (join_values items sep), s2)
                    | _ => ErrM TypeMis
                    end
                | _ => PanicM PArgIndex
                end
              else PanicM PMutBuiltin
          | VBool _ => ErrM TypeMis
          | VNull => ErrM TypeMis
          end
    | ECall (EVar fname _) args target =>
        match global_builtin fname with
        | Some g =>
            do (vs, s1) <- evals args s;
            match vs with
            | [v] =>
                match g with
                | GShout => ([v], Ok (VNull, s1))
                | GTypeOf => OkM (VStr (type_name v), s1)
                | GToString => OkM (VStr (display v), s1)
                | GReadLine | GCommand => UnsuppM
                end
            | _ => PanicM PBuiltinArity
            end
        | None =>
            match lookup_fn target fname (fns s) with
            | None => PanicM PFuncMissing
            | Some fd =>
                do (vs, s1) <- evals args s;
                if negb (Nat.eqb (length vs) (length (f_params fd))) then PanicM PArgCount
                else if (match f_id fd with
                         | Some _ => f_llen fd <? Z.of_nat (length (f_params fd))
                         | None => false end) then PanicM PParamRange
                else
                  let s2 := push_scope (bind_params (f_id fd) (f_lstart fd) (f_params fd) vs 0 []) s1 in
                  do (fl, s3) <- exec_block n' (f_body fd) s2;
                  let s4 := pop_scope s3 in
                  match fl with
                  | FNormal => OkM (VNull, s4)
                  | FReturn v => OkM (v, s4)
                  | FBreak | FNext => PanicM PBreakEscapes
                  end
            end
        end
    | ECall _ _ _ => ErrM TypeMis
    end
  end

with exec (n : nat) (t : stmt) (s : st) {struct n} : M (flow * st) :=
  match n with
  | O => FuelM
  | S n' =>
    match t with
    | SMake _ vn vl e =>
        do (v, s1) <- eval n' e s;
        OkM (FNormal, with_env (define_env vl vn v (env s1)) s1)
    | SSet _ vn vl e =>
        do (v, s1) <- eval n' e s;
        match assign_env vl vn v (env s1) with
        | Some e' => OkM (FNormal, with_env e' s1)
        | None => PanicM PAssignMissing
        end
    | SSetIdx _ target e =>
        do (v, s1) <- eval n' e s;
        match flatten_target target [] with
        | None => ErrM TypeMis
        | Some (vn, vl, idx_exprs) =>
            do (path, s2) <- indices_with (eval n') idx_exprs s1;
            match lookup_env vl vn (env s2) with
            | None => PanicM PMutVarMissing
            | Some root =>
                do root' <- lift (assign_path root path v);
                match assign_env vl vn root' (env s2) with
                | Some e' => OkM (FNormal, with_env e' s2)
                | None => PanicM PMutVarMissing
                end
            end
        end
    | SIf _ c t f =>
        do (cv, s1) <- eval n' c s;
        do b <- lift (truthy_cond cv);
        if b then exec_block n' t s1
        else match f with Some fb => exec_block n' fb s1 | None => OkM (FNormal, s1) end
    | SLoop _ c body => exec_loop n' c body s
    | SBlock _ body => exec_block n' body s
    | SFun _ _ _ _ _ _ _ => OkM (FNormal, s)
    | SRet _ None => OkM (FReturn VNull, s)
    | SRet _ (Some e) => do (v, s1) <- eval n' e s; OkM (FReturn v, s1)
    | SBreak _ => OkM (FBreak, s)
    | SNext _ => OkM (FNext, s)
    | SExpr _ e => do (_, s1) <- eval n' e s; OkM (FNormal, s1)
    end
  end

with exec_loop (n : nat) (c : expr) (body : list stmt) (s : st) {struct n} : M (flow * st) :=
  match n with
  | O => FuelM
  | S n' =>
      do (cv, s1) <- eval n' c s;
      do b <- lift (truthy_cond cv);
      if negb b then OkM (FNormal, s1)
      else
        do (fl, s2) <- exec_block n' body s1;
        match fl with
        | FBreak => OkM (FNormal, s2)
        | FNormal | FNext => exec_loop n' c body s2
        | FReturn v => OkM (FReturn v, s2)
        end
  end

with exec_block (n : nat) (b : list stmt) (s : st) {struct n} : M (flow * st) :=
  match n with
  | O => FuelM
  | S n' =>
      do s1 <- lift (hoist P b (push_scope [] s));
      stmts_with (exec n') b s1
  end.

End Run.

(* run_inner: one outer scope, then the root block *)
Inductive ending := Done | RtErr (e : rterr) | Panicked (p : psite) | EFuel | Unsupported.

Definition init_st : st := {| env := [[]]; fns := [[]] |}.

Definition run_impl (p : plan) (eps : f64) (fuel : nat) (prog : list stmt) : list value * ending :=
  let '(o, r) := exec_block p eps fuel prog init_st in
  (o, match r with
      | Ok _ => Done
      | Err e => RtErr e
      | Panic ps => Panicked ps
      | Fuel => EFuel
      | Unsupp => Unsupported
      end).
