(* Layout.v — C10: token texts, layouts (what may stand between tokens and between the words
   of a multi-word keyword), the rendering of a token list under a layout, and the predicate
   saying that a layout keeps adjacent tokens apart.  Definitions only; proofs in
   proofs/LayoutProofs.v.  Built on the byte-level lexer model of Lexer.v (src/syntax/scanner.rs).

   Reading of the source that this file encodes
   * whitespace = u8::is_ascii_whitespace = space, TAB, LF, FF, CR  ([Lexer.is_ws]);
   * a comment starts with `#` and runs to the first LF or CR (that one byte is consumed with
     it; the LF of a CRLF pair is then ordinary whitespace) or to the end of the input;
   * comments are skipped only by next_token, i.e. BETWEEN tokens.  The look-ahead of the
     multi-word keywords (try_consume_word) skips whitespace only, so between the words of
     `if to say`, `if not so`, `small pass` a layout may put whitespace (at least one byte)
     but no comment — exactly what the property statement says;
   * a token text ends where its scanner stops: words (keywords, identifiers) at the first
     byte that is not a letter, digit or `_`; the last word of a multi-word keyword must not be
     followed by a letter or `_`; a number without fraction must not be followed by a digit,
     a word byte or `.`; a number with fraction not by a digit or word byte; punctuation and
     string literals need nothing;
   * the identifiers `if` and `small` (the first words of the multi-word keywords) are
     identifiers only when the look-ahead fails: the first non-whitespace byte after them must
     not begin one of the continuation words (a `#` comment in between is enough). *)
From Coq Require Import ZArith List Bool Arith.
Require Import NS.theories.Utf8 NS.theories.GenLexer NS.theories.Lexer.
Import ListNotations.
Open Scope nat_scope.

(* ------------------------------------------------------------------ token descriptors *)

(* A token together with its spelling, but without any layout choice.
   KString quote segs last  spells  quote raw0 \e0 raw1 \e1 ... last quote. *)
Inductive tk :=
  | KKw (k : tok)                                   (* single-word keyword *)
  | KMulti (k : tok)                                (* multi-word keyword *)
  | KIdent (w : bytes)
  | KNumber (int : bytes) (frac : option bytes)
  | KPunct (k : tok)
  | KString (quote : Z) (segs : list (bytes * Z)) (last : bytes).

Definition is_some {A} (o : option A) : bool := match o with Some _ => true | None => false end.
Definition is_none {A} (o : option A) : bool := match o with Some _ => false | None => true end.

(* reverse look-ups in the generated tables *)
Fixpoint rassoc_tok {A : Type} (k : tok) (l : list (A * tok)) : option A :=
  match l with
  | [] => None
  | (a, k') :: l' => if tok_eqb k' k then Some a else rassoc_tok k l'
  end.

Definition kw_word (k : tok) : option bytes := rassoc_tok k keyword_table.
Definition punct_byte (k : tok) : option Z := rassoc_tok k punct_table.

(* first word and continuation words of the multi-word keyword k *)
Fixpoint multi_find (k : tok) (tbl : list (bytes * list (list bytes * tok))) : option (bytes * list bytes) :=
  match tbl with
  | [] => None
  | (w, alts) :: tbl' =>
      match rassoc_tok k alts with
      | Some words => Some (w, words)
      | None => multi_find k tbl'
      end
  end.

(* gap0 word0 gap1 word1 ... *)
Fixpoint weave (gaps words : list bytes) : bytes :=
  match gaps, words with
  | g :: gaps', w :: words' => g ++ w ++ weave gaps' words'
  | _, _ => []
  end.

Definition esc_value (quote e : Z) : Z :=
  match escape_lookup quote e with Some p => p | None => 0%Z end.

Fixpoint segs_text (segs : list (bytes * Z)) : bytes :=
  match segs with
  | [] => []
  | (r, e) :: segs' => r ++ 92%Z :: e :: segs_text segs'
  end.

Fixpoint segs_payload (quote : Z) (segs : list (bytes * Z)) : bytes :=
  match segs with
  | [] => []
  | (r, e) :: segs' => r ++ esc_value quote e :: segs_payload quote segs'
  end.

Definition number_text (int : bytes) (frac : option bytes) : bytes :=
  match frac with Some d => int ++ 46%Z :: d | None => int end.

(* the source text of a token; [inner] = the whitespace runs in front of the continuation words
   of a multi-word keyword (ignored by every other token) *)
Definition tk_text (t : tk) (inner : list bytes) : bytes :=
  match t with
  | KKw k => match kw_word k with Some w => w | None => [] end
  | KMulti k => match multi_find k multi_table with Some (w, words) => w ++ weave inner words | None => [] end
  | KIdent w => w
  | KNumber i f => number_text i f
  | KPunct k => match punct_byte k with Some b => [b] | None => [] end
  | KString q segs last => q :: segs_text segs ++ last ++ [q]
  end.

(* what the lexer must hand to the parser: kind, payload, Borrowed/Owned *)
Definition tk_tok (t : tk) : tok * bytes * bool :=
  match t with
  | KKw k => (k, [], false)
  | KMulti k => (k, [], false)
  | KIdent w => (TIdentifier, w, false)
  | KNumber i f => (TNumber, number_text i f, false)
  | KPunct k => (k, [], false)
  | KString q segs last =>
      (TString, segs_payload q segs ++ last, match segs with [] => false | _ :: _ => true end)
  end.

Definition kpo (t : token) : tok * bytes * bool := (t_kind t, t_payload t, t_owned t).

(* ------------------------------------------------------------------ well-formed spellings *)

Definition word_ok (w : bytes) : bool :=
  match w with
  | b :: t => is_alpha_us b && forallb is_word_byte t
  | [] => false
  end.

Definition digits_ok (d : bytes) : bool :=
  match d with
  | _ :: _ => forallb is_digit d
  | [] => false
  end.

(* a raw run inside a string literal: no closing quote, backslash or line break; it starts on
   a character boundary (scan_string re-slices the source there) *)
Definition raw_byte_ok (q b : Z) : bool := negb (b =? q)%Z && negb (b =? 92)%Z && negb (is_nl b).
Definition raw_ok (q : Z) (r : bytes) : bool :=
  forallb (raw_byte_ok q) r && match r with b :: _ => negb (is_cont b) | [] => true end.

Fixpoint words_eqb (a b : list bytes) : bool :=
  match a, b with
  | [], [] => true
  | x :: a', y :: b' => bytes_eqb x y && words_eqb a' b'
  | _, _ => false
  end.

(* In the alternatives of a first word: every alternative tried before k's fails on its
   first word because that word starts with another byte than k's first word (h), and the
   first alternative with token k has exactly the words [words]. *)
Fixpoint alt_sel (h : Z) (k : tok) (words : list bytes) (alts : list (list bytes * tok)) : bool :=
  match alts with
  | [] => false
  | (ws, k') :: rest =>
      if tok_eqb k' k then words_eqb ws words
      else match ws with
           | (b :: _) :: _ => negb (b =? h)%Z && alt_sel h k words rest
           | _ => false
           end
  end.

(* a byte that may begin a token text: not whitespace, not `#`, not a continuation byte *)
Definition start_byte_ok (b : Z) : bool := negb (is_ws b) && negb (b =? 35)%Z && negb (is_cont b).

Definition tk_ok (t : tk) : bool :=
  match t with
  | KKw k =>
      match kw_word k with
      | Some w => word_ok w && is_none (assoc_bytes w multi_table) &&
                  match assoc_bytes w keyword_table with Some k' => tok_eqb k' k | None => false end
      | None => false
      end
  | KMulti k =>
      match multi_find k multi_table with
      | Some (w, words) =>
          word_ok w && forallb word_ok words &&
          match assoc_bytes w multi_table, words with
          | Some alts, (h :: _) :: _ => alt_sel h k words alts
          | _, _ => false
          end
      | None => false
      end
  | KIdent w =>
      word_ok w &&
      match assoc_bytes w multi_table with
      | Some _ => true                         (* `if`, `small`: see [guard] *)
      | None => is_none (assoc_bytes w keyword_table)
      end
  | KNumber i f => digits_ok i && match f with Some d => digits_ok d | None => true end
  | KPunct k =>
      match punct_byte k with
      | Some b => start_byte_ok b && negb (mem_z b quote_bytes) &&
                  match assoc_z b punct_table with Some k' => tok_eqb k' k | None => false end
      | None => false
      end
  | KString q segs last =>
      start_byte_ok q && mem_z q quote_bytes && negb (q =? 92)%Z &&
      forallb (fun re => raw_ok q (fst re) && is_some (escape_lookup q (snd re))) segs &&
      raw_ok q last
  end.

(* ------------------------------------------------------------------ separators and layouts *)

Inductive sep_elem :=
  | SWs (b : Z)                          (* one whitespace byte *)
  | SComment (body : bytes) (nl : Z).    (* `#` body nl, nl = LF or CR *)

Definition sep_elem_text (e : sep_elem) : bytes :=
  match e with
  | SWs b => [b]
  | SComment body nl => 35%Z :: body ++ [nl]
  end.

Fixpoint sep_text (sp : list sep_elem) : bytes :=
  match sp with
  | [] => []
  | e :: sp' => sep_elem_text e ++ sep_text sp'
  end.

Definition sep_elem_ok (e : sep_elem) : bool :=
  match e with
  | SWs b => is_ws b
  | SComment body nl => forallb (fun b => negb (is_nl b)) body && is_nl nl
  end.

(* one slot per token: the whitespace inside it (multi-word keywords only) and the separator
   that follows it *)
Record slot := { s_inner : list bytes; s_after : list sep_elem }.

(* l_tail: a last comment that runs to the end of the input without a line break *)
Record layout := { l_lead : list sep_elem; l_slots : list slot; l_tail : option bytes }.

Definition tail_text (o : option bytes) : bytes :=
  match o with Some body => 35%Z :: body | None => [] end.

Fixpoint render_slots (ts : list tk) (sls : list slot) : bytes :=
  match ts, sls with
  | t :: ts', sl :: sls' => tk_text t (s_inner sl) ++ sep_text (s_after sl) ++ render_slots ts' sls'
  | _, _ => []
  end.

Definition render (ts : list tk) (l : layout) : bytes :=
  sep_text (l_lead l) ++ render_slots ts (l_slots l) ++ tail_text (l_tail l).

(* the inner whitespace of a token: for a multi-word keyword one non-empty whitespace run per
   continuation word *)
Definition ws_run_ok (g : bytes) : bool :=
  match g with _ :: _ => forallb is_ws g | [] => false end.

Definition inner_ok (t : tk) (inner : list bytes) : bool :=
  match t with
  | KMulti k =>
      match multi_find k multi_table with
      | Some (_, words) => (length inner =? length words) && forallb ws_run_ok inner
      | None => false
      end
  | _ => true
  end.

Fixpoint slots_ok (ts : list tk) (sls : list slot) : bool :=
  match ts, sls with
  | [], [] => true
  | t :: ts', sl :: sls' =>
      inner_ok t (s_inner sl) && forallb sep_elem_ok (s_after sl) && slots_ok ts' sls'
  | _, _ => false
  end.

(* the layout consists of whitespace and comments only, and has one slot per token *)
Definition wf_layout (ts : list tk) (l : layout) : bool :=
  forallb sep_elem_ok (l_lead l) && slots_ok ts (l_slots l) &&
  match l_tail l with Some body => forallb (fun b => negb (is_nl b)) body | None => true end.

(* ------------------------------------------------------------------ separating *)

(* would token t absorb (or be spoilt by) a following byte h if nothing stood in between? *)
Definition fuses (t : tk) (h : Z) : bool :=
  match t with
  | KKw _ | KIdent _ => is_word_byte h
  | KMulti _ => is_alpha_us h
  | KNumber _ None => is_word_byte h || (h =? 46)%Z
  | KNumber _ (Some _) => is_word_byte h
  | KPunct _ | KString _ _ _ => false
  end.

Fixpoint drop_ws (l : bytes) : bytes :=
  match l with
  | b :: t => if is_ws b then drop_ws t else l
  | [] => []
  end.

Definition first_nonws (l : bytes) : option Z :=
  match drop_ws l with b :: _ => Some b | [] => None end.

(* no alternative of a multi-word keyword can begin at a byte oh (None = end of input) *)
Definition alts_guard (oh : option Z) (alts : list (list bytes * tok)) : bool :=
  forallb (fun alt =>
    match fst alt with
    | (b :: _) :: _ => match oh with Some h => negb (b =? h)%Z | None => true end
    | _ => false
    end) alts.

(* the identifiers `if` / `small` stay identifiers: the look-ahead must fail at once *)
Definition guard (t : tk) (follow : bytes) : bool :=
  match t with
  | KIdent w =>
      match assoc_bytes w multi_table with
      | Some alts => alts_guard (first_nonws follow) alts
      | None => true
      end
  | _ => true
  end.

(* [rest] is the text after the separator.  The separator may be empty only where the two
   neighbours do not fuse. *)
Definition gap_ok (t : tk) (after : list sep_elem) (rest : bytes) : bool :=
  match after, rest with
  | [], h :: _ => negb (fuses t h)
  | _, _ => true
  end && guard t (sep_text after ++ rest).

Fixpoint separating_slots (ts : list tk) (sls : list slot) (tail : bytes) : bool :=
  match ts, sls with
  | t :: ts', sl :: sls' =>
      gap_ok t (s_after sl) (render_slots ts' sls' ++ tail) && separating_slots ts' sls' tail
  | _, _ => true
  end.

Definition separating (ts : list tk) (l : layout) : bool :=
  separating_slots ts (l_slots l) (tail_text (l_tail l)).

(* ------------------------------------------------------------------ the observation *)

(* what the parser receives from a diagnostic-free lexer run *)
Definition lex_view (v : variant) (s : bytes) : option (list (tok * bytes * bool)) :=
  match lex v s with
  | Ok (toks, [], _) => Some (map kpo toks)
  | _ => None
  end.

(* ------------------------------------------------------------------ canonical spellings *)

(* A spelling for a (kind, payload) pair as the lexer can produce it without diagnostics:
   strings are written with `"`; `"`, `\`, LF and TAB are escaped, everything else is raw.
   (A payload containing CR has no diagnostic-free spelling: there is no `\r` escape.) *)
Fixpoint canon_string (p : bytes) (raw : bytes) : list (bytes * Z) * bytes :=
  match p with
  | [] => ([], raw)
  | b :: p' =>
      let esc := if (b =? 34)%Z then Some 34%Z else if (b =? 92)%Z then Some 92%Z
                 else if (b =? 10)%Z then Some 110%Z else if (b =? 9)%Z then Some 116%Z else None in
      match esc with
      | Some e => let (segs, last) := canon_string p' [] in ((raw, e) :: segs, last)
      | None => canon_string p' (raw ++ [b])
      end
  end.

Fixpoint split_dot (d : bytes) (acc : bytes) : bytes * option bytes :=
  match d with
  | [] => (acc, None)
  | b :: t => if (b =? 46)%Z then (acc, Some t) else split_dot t (acc ++ [b])
  end.

Definition canon (k : tok) (payload : bytes) : tk :=
  match k with
  | TString => let (segs, last) := canon_string payload [] in KString 34%Z segs last
  | TIdentifier => KIdent payload
  | TNumber => let (i, f) := split_dot payload [] in KNumber i f
  | _ => if is_some (multi_find k multi_table) then KMulti k
         else if is_some (punct_byte k) then KPunct k else KKw k
  end.

(* ------------------------------------------------------------------ worked examples
   (used by Properties/C10.v to show that the hypotheses of the theorems are satisfiable and
   where exactly the boundary of the property lies)

   ex_tokens:  make small get 1 if to say ( small small pass 2.5 ) start shout ( "a\n{small}" ) end
               if not so start end
   ex_layout_line: one line, a single space only where needed.
   ex_layout_tall: a leading comment (CR LF), one token per line with LF / CRLF / FF / TAB,
               comments after some tokens, TAB LF and CR LF SPACE FF inside the keywords, and a
               last comment without line break. *)
Definition ex_tokens : list tk :=
  [ KKw TMake;
    KIdent [115%Z; 109%Z; 97%Z; 108%Z; 108%Z];
    KKw TGet;
    KNumber [49%Z] None;
    KMulti TIfToSay;
    KPunct TLParen;
    KIdent [115%Z; 109%Z; 97%Z; 108%Z; 108%Z];
    KMulti TSmallPass;
    KNumber [50%Z] (Some [53%Z]);
    KPunct TRParen;
    KKw TStart;
    KIdent [115%Z; 104%Z; 111%Z; 117%Z; 116%Z];
    KPunct TLParen;
    KString 34%Z [([97%Z], 110%Z)] [123%Z; 115%Z; 109%Z; 97%Z; 108%Z; 108%Z; 125%Z];
    KPunct TRParen;
    KKw TEnd;
    KMulti TIfNotSo;
    KKw TStart;
    KKw TEnd ].

Definition ex_layout_line : layout :=
  {| l_lead := []; l_slots :=
    [ {| s_inner := []; s_after := [SWs 32%Z] |};
      {| s_inner := []; s_after := [SWs 32%Z] |};
      {| s_inner := []; s_after := [SWs 32%Z] |};
      {| s_inner := []; s_after := [SWs 32%Z] |};
      {| s_inner := [[32%Z]; [32%Z]]; s_after := [] |};
      {| s_inner := []; s_after := [] |};
      {| s_inner := []; s_after := [SWs 32%Z] |};
      {| s_inner := [[32%Z]]; s_after := [SWs 32%Z] |};
      {| s_inner := []; s_after := [] |};
      {| s_inner := []; s_after := [] |};
      {| s_inner := []; s_after := [SWs 32%Z] |};
      {| s_inner := []; s_after := [] |};
      {| s_inner := []; s_after := [] |};
      {| s_inner := []; s_after := [] |};
      {| s_inner := []; s_after := [] |};
      {| s_inner := []; s_after := [SWs 32%Z] |};
      {| s_inner := [[32%Z]; [32%Z]]; s_after := [SWs 32%Z] |};
      {| s_inner := []; s_after := [SWs 32%Z] |};
      {| s_inner := []; s_after := [] |} ];
     l_tail := None |}.

Definition ex_layout_tall : layout :=
  {| l_lead := [SComment [32%Z; 104%Z; 101%Z; 97%Z; 100%Z] 13%Z; SWs 10%Z; SWs 10%Z]; l_slots :=
    [ {| s_inner := []; s_after := [SWs 10%Z] |};
      {| s_inner := []; s_after := [SWs 9%Z; SComment [32%Z; 118%Z] 10%Z] |};
      {| s_inner := []; s_after := [SWs 32%Z; SWs 13%Z; SWs 10%Z] |};
      {| s_inner := []; s_after := [SWs 10%Z; SWs 10%Z] |};
      {| s_inner := [[9%Z; 10%Z]; [13%Z; 10%Z; 32%Z; 12%Z]]; s_after := [SWs 10%Z] |};
      {| s_inner := []; s_after := [SWs 10%Z] |};
      {| s_inner := []; s_after := [SWs 12%Z; SWs 10%Z] |};
      {| s_inner := [[9%Z; 10%Z]]; s_after := [SWs 32%Z; SComment [32%Z; 99%Z; 109%Z; 112%Z] 13%Z] |};
      {| s_inner := []; s_after := [SWs 32%Z] |};
      {| s_inner := []; s_after := [SWs 10%Z] |};
      {| s_inner := []; s_after := [SWs 13%Z; SWs 10%Z] |};
      {| s_inner := []; s_after := [SWs 32%Z] |};
      {| s_inner := []; s_after := [] |};
      {| s_inner := []; s_after := [] |};
      {| s_inner := []; s_after := [SComment [32%Z; 115%Z] 10%Z] |};
      {| s_inner := []; s_after := [SWs 10%Z] |};
      {| s_inner := [[9%Z; 10%Z]; [13%Z; 10%Z; 32%Z; 12%Z]]; s_after := [SWs 10%Z] |};
      {| s_inner := []; s_after := [SWs 10%Z] |};
      {| s_inner := []; s_after := [SWs 10%Z] |} ];
     l_tail := Some [32%Z; 98%Z; 121%Z; 101%Z] |}.


(* `if`, a comment, `to say`: three identifiers (the look-ahead does not skip comments) *)
Definition ex_comment_in_keyword : bytes := [105%Z; 102%Z; 32%Z; 35%Z; 99%Z; 10%Z; 32%Z; 116%Z; 111%Z; 32%Z; 115%Z; 97%Z; 121%Z].
(* the identifier `small`, then the operator `pass`: apart only because of the comment *)
Definition ex_small_comment_pass : bytes := [115%Z; 109%Z; 97%Z; 108%Z; 108%Z; 32%Z; 35%Z; 99%Z; 10%Z; 112%Z; 97%Z; 115%Z; 115%Z; 32%Z; 51%Z].
Definition ex_small_blank_pass : bytes := [115%Z; 109%Z; 97%Z; 108%Z; 108%Z; 32%Z; 10%Z; 112%Z; 97%Z; 115%Z; 115%Z; 32%Z; 51%Z].
