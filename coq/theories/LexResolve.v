(* LexResolve — the declarative binding relation of NaijaScript, executable, from NAMES only.

   "A variable occurrence (EVar, SMake/SSet target, SegVar, index-assignment base, mutating
   receiver base) denotes the last declaration of that name textually before the occurrence
   in the innermost enclosing block or parameter list that has one; re-declaring a name in
   the same block is the same variable; a function body sees the declarations textually
   before its definition in the enclosing blocks.  A call denotes the function of that name
   defined anywhere in an enclosing block, innermost block wins; a function is not visible
   outside its block."

   Two executable forms of the same relation:
   * `lexical p` (direct): walks the resolved program with a static environment built from
     names, and checks that every occurrence carries the id of the declaration the static
     environment designates, that every first declaration introduces an id (`ids_ok`: ids
     of distinct declarations are distinct, parameters are numbered lstart+k), and that
     every call carries the id of the function the static function environment designates.
     This is the hypothesis of the theorems in Properties/C04.v.
   * `lex_ids p` re-resolves the program from names only with canonical ids (declaration
     positions in traversal order) and `same_binding_structure p q` decides whether two
     resolved programs bind every occurrence alike up to a bijective renaming of local ids
     and function ids; `lexical_bij p` = p binds like its canonical re-resolution.
   The correspondence evaluates both on the `ast` line of every generated program.

   `no_early_capture p` (conservative, boolean): no function that reads or assigns a variable
   of its defining block can be reached by a call that executes before that variable's
   declaration (DESIGN section 7 row 8).  Definitions only. *)
From Coq Require Import ZArith List Bool.
Require Import NS.theories.F64 NS.theories.Lang.
Import ListNotations.
Open Scope Z_scope.

(* ---------- static environments ---------- *)
Definition scope := list (name * Z).          (* newest declaration first *)
Definition venv := list scope.                (* innermost scope first *)
Definition fenv := list scope.                (* function name -> function id, per block *)

Fixpoint assoc (n : name) (sc : scope) : option Z :=
  match sc with
  | [] => None
  | (m, i) :: r => if bytes_eqb m n then Some i else assoc n r
  end.

Fixpoint vlookup (G : venv) (n : name) : option Z :=
  match G with
  | [] => None
  | sc :: r => match assoc n sc with Some i => Some i | None => vlookup r n end
  end.

Definition zopt_eqb (a b : option Z) : bool :=
  match a, b with Some x, Some y => x =? y | None, None => true | _, _ => false end.

Definition chk_var (G : venv) (n : name) (l : option Z) : bool :=
  match vlookup G n with Some i => zopt_eqb l (Some i) | None => false end.

Definition scope_names (sc : scope) : list name := map fst sc.
Definition scope_ids (sc : scope) : list Z := map snd sc.

Fixpoint nodup_names (l : list name) : bool :=
  match l with [] => true | n :: r => negb (mem_name n r) && nodup_names r end.

Fixpoint memZ (x : Z) (l : list Z) : bool :=
  match l with [] => false | y :: r => (x =? y) || memZ x r end.
Fixpoint nodupZ (l : list Z) : bool :=
  match l with [] => true | x :: r => negb (memZ x r) && nodupZ r end.

(* functions defined directly in a block (hoisted): name -> id, None when one is unbound *)
Fixpoint predecl (b : list stmt) : option scope :=
  match b with
  | [] => Some []
  | SFun _ n _ _ (Some f) _ _ :: r =>
      match predecl r with Some fs => Some ((n, f) :: fs) | None => None end
  | SFun _ _ _ _ None _ _ :: _ => None
  | _ :: r => predecl r
  end.

(* parameter scope: parameter k has id lstart + k; newest (last) parameter first *)
Fixpoint param_scope (ps : list name) (lstart : Z) (k : Z) (acc : scope) : scope :=
  match ps with
  | [] => acc
  | p :: r => param_scope r lstart (k + 1) ((p, lstart + k) :: acc)
  end.

(* ---------- the direct checker ---------- *)
Definition chk_seg (G : venv) (sg : seg) : bool :=
  match sg with SegLit _ => true | SegVar n l => chk_var G n l end.

Fixpoint chk_expr (G : venv) (F : fenv) (e : expr) {struct e} : bool :=
  match e with
  | ENum _ | EStr _ | EBool _ | ENull => true
  | EInterp segs => forallb (chk_seg G) segs
  | EVar n l => chk_var G n l
  | EBin _ a b => chk_expr G F a && chk_expr G F b
  | EUn _ a => chk_expr G F a
  | EArr es => forallb (chk_expr G F) es
  | EIdx a i => chk_expr G F a && chk_expr G F i
  | EMember o _ => chk_expr G F o
  | ECall c args t =>
      (match c with
       | EVar f _ =>
           match global_builtin f with
           | Some _ => true
           | None => match vlookup F f with Some fid => zopt_eqb t (Some fid) | None => false end
           end
       | EMember o _ => chk_expr G F o
       | _ => chk_expr G F c
       end) && forallb (chk_expr G F) args
  end.

(* `top` is the scope of the block being walked, `G` the scopes outside it; the result is
   the scope after the statement (a first `make` of a name extends it) *)
Fixpoint chk_stmt (top : scope) (G : venv) (F : fenv) (t : stmt) {struct t} : option scope :=
  let blk := fun (G' : venv) (F' : fenv) (b : list stmt) =>
    match predecl b with
    | None => false
    | Some fs =>
        nodup_names (scope_names fs) &&
        (fix go (ts : list stmt) (top' : scope) {struct ts} : bool :=
           match ts with
           | [] => true
           | t' :: r => match chk_stmt top' G' (fs :: F') t' with
                        | Some top'' => go r top''
                        | None => false
                        end
           end) b []
    end in
  let ok := fun (c : bool) => if c then Some top else None in
  match t with
  | SFun _ n ps body fid ls ll =>
      ok (match fid, F with
          | Some f, fs :: _ => zopt_eqb (assoc n fs) (Some f)
          | _, _ => false
          end
          && nodup_names ps
          && (Z.of_nat (length ps) <=? ll)
          && blk (param_scope ps ls 0 [] :: top :: G) ([] :: F) body)
  | SMake _ n l e =>
      if chk_expr (top :: G) F e then
        match assoc n top with
        | Some i => if zopt_eqb l (Some i) then Some top else None
        | None => match l with Some i => Some ((n, i) :: top) | None => None end
        end
      else None
  | SSet _ n l e => ok (chk_var (top :: G) n l && chk_expr (top :: G) F e)
  | SSetIdx _ tg e => ok (chk_expr (top :: G) F tg && chk_expr (top :: G) F e)
  | SIf _ c t f =>
      ok (chk_expr (top :: G) F c && blk (top :: G) F t
          && match f with Some fb => blk (top :: G) F fb | None => true end)
  | SLoop _ c b => ok (chk_expr (top :: G) F c && blk (top :: G) F b)
  | SBlock _ b => ok (blk (top :: G) F b)
  | SRet _ None => Some top
  | SRet _ (Some e) => ok (chk_expr (top :: G) F e)
  | SBreak _ | SNext _ => Some top
  | SExpr _ e => ok (chk_expr (top :: G) F e)
  end.

Definition chk_stmts (G : venv) (F : fenv) :=
  fix go (ts : list stmt) (top : scope) {struct ts} : bool :=
    match ts with
    | [] => true
    | t :: r => match chk_stmt top G F t with Some top' => go r top' | None => false end
    end.

Definition chk_block (G : venv) (F : fenv) (b : list stmt) : bool :=
  match predecl b with
  | None => false
  | Some fs => nodup_names (scope_names fs) && chk_stmts G (fs :: F) b []
  end.

(* ids introduced by first declarations (a same-block re-declaration introduces nothing) *)
Fixpoint seqZ (start : Z) (n : nat) : list Z :=
  match n with O => [] | S k => start :: seqZ (start + 1) k end.

Fixpoint ids_stmt (t : stmt) {struct t} : list Z :=
  let blk := fun (b : list stmt) =>
    (fix go (ts : list stmt) (seen : list name) {struct ts} : list Z :=
       match ts with
       | [] => []
       | SMake _ n (Some i) _ :: r => if mem_name n seen then go r seen else i :: go r (n :: seen)
       | t' :: r => ids_stmt t' ++ go r seen
       end) b [] in
  match t with
  | SFun _ _ ps body _ ls _ => seqZ ls (length ps) ++ blk body
  | SIf _ _ t f => blk t ++ match f with Some fb => blk fb | None => [] end
  | SLoop _ _ b | SBlock _ b => blk b
  | _ => []
  end.

Fixpoint ids_stmts (ts : list stmt) (seen : list name) : list Z :=
  match ts with
  | [] => []
  | SMake _ n (Some i) _ :: r => if mem_name n seen then ids_stmts r seen else i :: ids_stmts r (n :: seen)
  | t' :: r => ids_stmt t' ++ ids_stmts r seen
  end.
Definition ids_block (b : list stmt) : list Z := ids_stmts b [].

Fixpoint fids_stmt (t : stmt) {struct t} : list Z :=
  let blk := fun (b : list stmt) =>
    (fix go (ts : list stmt) {struct ts} : list Z :=
       match ts with [] => [] | t' :: r => fids_stmt t' ++ go r end) b in
  match t with
  | SFun _ _ _ body fid _ _ => (match fid with Some f => [f] | None => [] end) ++ blk body
  | SIf _ _ t f => blk t ++ match f with Some fb => blk fb | None => [] end
  | SLoop _ _ b | SBlock _ b => blk b
  | _ => []
  end.
Fixpoint fids_block (b : list stmt) : list Z :=
  match b with [] => [] | t :: r => fids_stmt t ++ fids_block r end.

Definition ids_ok (p : list stmt) : bool := nodupZ (ids_block p) && nodupZ (fids_block p).

Definition lexical (p : list stmt) : bool := chk_block [] [] p && ids_ok p.

(* no user-defined function anywhere (stage S1) *)
Fixpoint nofn_stmt (t : stmt) {struct t} : bool :=
  let blk := fun (b : list stmt) =>
    (fix go (ts : list stmt) {struct ts} : bool :=
       match ts with [] => true | t' :: r => nofn_stmt t' && go r end) b in
  match t with
  | SFun _ _ _ _ _ _ _ => false
  | SIf _ _ t f => blk t && match f with Some fb => blk fb | None => true end
  | SLoop _ _ b | SBlock _ b => blk b
  | _ => true
  end.
Fixpoint nofn (b : list stmt) : bool :=
  match b with [] => true | t :: r => nofn_stmt t && nofn r end.

(* ---------- canonical re-resolution from names only ---------- *)
Definition lx_var (G : venv) (n : name) : option (option Z) :=
  match vlookup G n with Some i => Some (Some i) | None => None end.

Fixpoint opt_all {A} (l : list (option A)) : option (list A) :=
  match l with
  | [] => Some []
  | Some x :: r => match opt_all r with Some xs => Some (x :: xs) | None => None end
  | None :: _ => None
  end.

Definition lx_seg (G : venv) (sg : seg) : option seg :=
  match sg with
  | SegLit b => Some (SegLit b)
  | SegVar n _ => match lx_var G n with Some l => Some (SegVar n l) | None => None end
  end.

Fixpoint lx_expr (G : venv) (F : fenv) (e : expr) {struct e} : option expr :=
  match e with
  | ENum _ | EStr _ | EBool _ | ENull => Some e
  | EInterp segs => match opt_all (map (lx_seg G) segs) with Some s => Some (EInterp s) | None => None end
  | EVar n _ => match lx_var G n with Some l => Some (EVar n l) | None => None end
  | EBin op a b =>
      match lx_expr G F a, lx_expr G F b with Some a', Some b' => Some (EBin op a' b') | _, _ => None end
  | EUn op a => match lx_expr G F a with Some a' => Some (EUn op a') | None => None end
  | EArr es => match opt_all (map (lx_expr G F) es) with Some es' => Some (EArr es') | None => None end
  | EIdx a i =>
      match lx_expr G F a, lx_expr G F i with Some a', Some i' => Some (EIdx a' i') | _, _ => None end
  | EMember o f => match lx_expr G F o with Some o' => Some (EMember o' f) | None => None end
  | ECall c args _ =>
      match opt_all (map (lx_expr G F) args) with
      | None => None
      | Some args' =>
          match c with
          | EVar f l =>
              match global_builtin f with
              | Some _ => Some (ECall (EVar f l) args' None)
              | None => match vlookup F f with
                        | Some fid => Some (ECall (EVar f l) args' (Some fid))
                        | None => None
                        end
              end
          | EMember o f =>
              match lx_expr G F o with Some o' => Some (ECall (EMember o' f) args' None) | None => None end
          | _ => match lx_expr G F c with Some c' => Some (ECall c' args' None) | None => None end
          end
      end
  end.

(* canonical function ids of a block: nf, nf+1, ... in definition order *)
Fixpoint lx_predecl (b : list stmt) (nf : Z) : scope * Z :=
  match b with
  | [] => ([], nf)
  | SFun _ n _ _ _ _ _ :: r => let '(fs, nf') := lx_predecl r (nf + 1) in ((n, nf) :: fs, nf')
  | _ :: r => lx_predecl r nf
  end.

(* state: next local id, next function id.  Result: rewritten statement, new top scope *)
Fixpoint lx_stmt (top : scope) (G : venv) (F : fenv) (nl nf : Z) (t : stmt) {struct t}
  : option (stmt * scope * Z * Z) :=
  let blk := fun (G' : venv) (F' : fenv) (nl nf : Z) (b : list stmt) =>
    let '(fs, nf1) := lx_predecl b nf in
    if nodup_names (scope_names fs) then
      (fix go (ts : list stmt) (top' : scope) (nl nf : Z) {struct ts}
         : option (list stmt * Z * Z) :=
         match ts with
         | [] => Some ([], nl, nf)
         | t' :: r =>
             match lx_stmt top' G' (fs :: F') nl nf t' with
             | Some (t'', top'', nl', nf') =>
                 match go r top'' nl' nf' with
                 | Some (r', nl'', nf'') => Some (t'' :: r', nl'', nf'')
                 | None => None
                 end
             | None => None
             end
         end) b [] nl nf1
    else None in
  match t with
  | SFun sid n ps body _ _ _ =>
      match F with
      | fs :: _ =>
          match assoc n fs with
          | Some f =>
              if nodup_names ps then
                let np := Z.of_nat (length ps) in
                match blk (param_scope ps nl 0 [] :: top :: G) ([] :: F) (nl + np) nf body with
                | Some (body', nl', nf') =>
                    Some (SFun sid n ps body' (Some f) nl (nl' - nl), top, nl', nf')
                | None => None
                end
              else None
          | None => None
          end
      | [] => None
      end
  | SMake sid n _ e =>
      match lx_expr (top :: G) F e with
      | Some e' =>
          match assoc n top with
          | Some i => Some (SMake sid n (Some i) e', top, nl, nf)
          | None => Some (SMake sid n (Some nl) e', (n, nl) :: top, nl + 1, nf)
          end
      | None => None
      end
  | SSet sid n _ e =>
      match lx_var (top :: G) n, lx_expr (top :: G) F e with
      | Some l, Some e' => Some (SSet sid n l e', top, nl, nf)
      | _, _ => None
      end
  | SSetIdx sid tg e =>
      match lx_expr (top :: G) F tg, lx_expr (top :: G) F e with
      | Some tg', Some e' => Some (SSetIdx sid tg' e', top, nl, nf)
      | _, _ => None
      end
  | SIf sid c t f =>
      match lx_expr (top :: G) F c with
      | Some c' =>
          match blk (top :: G) F nl nf t with
          | Some (t', nl1, nf1) =>
              match f with
              | None => Some (SIf sid c' t' None, top, nl1, nf1)
              | Some fb =>
                  match blk (top :: G) F nl1 nf1 fb with
                  | Some (fb', nl2, nf2) => Some (SIf sid c' t' (Some fb'), top, nl2, nf2)
                  | None => None
                  end
              end
          | None => None
          end
      | None => None
      end
  | SLoop sid c b =>
      match lx_expr (top :: G) F c with
      | Some c' =>
          match blk (top :: G) F nl nf b with
          | Some (b', nl1, nf1) => Some (SLoop sid c' b', top, nl1, nf1)
          | None => None
          end
      | None => None
      end
  | SBlock sid b =>
      match blk (top :: G) F nl nf b with
      | Some (b', nl1, nf1) => Some (SBlock sid b', top, nl1, nf1)
      | None => None
      end
  | SRet sid None => Some (t, top, nl, nf)
  | SRet sid (Some e) =>
      match lx_expr (top :: G) F e with Some e' => Some (SRet sid (Some e'), top, nl, nf) | None => None end
  | SBreak _ | SNext _ => Some (t, top, nl, nf)
  | SExpr sid e =>
      match lx_expr (top :: G) F e with Some e' => Some (SExpr sid e', top, nl, nf) | None => None end
  end.

Fixpoint lx_stmts (top : scope) (G : venv) (F : fenv) (nl nf : Z) (ts : list stmt)
  : option (list stmt * Z * Z) :=
  match ts with
  | [] => Some ([], nl, nf)
  | t :: r =>
      match lx_stmt top G F nl nf t with
      | Some (t', top', nl', nf') =>
          match lx_stmts top' G F nl' nf' r with
          | Some (r', nl'', nf'') => Some (t' :: r', nl'', nf'')
          | None => None
          end
      | None => None
      end
  end.

(* the canonical resolution of a whole program (function id 0 is the root, as in the checker) *)
Definition lex_ids (p : list stmt) : option (list stmt) :=
  let '(fs, nf1) := lx_predecl p 1 in
  if nodup_names (scope_names fs) then
    match lx_stmts [] [] [fs] 0 nf1 p with Some (q, _, _) => Some q | None => None end
  else None.

(* ---------- equality of binding structure up to renaming ---------- *)
(* a partial bijection as a list of pairs *)
Definition pbij := list (Z * Z).
Fixpoint pb_fwd (m : pbij) (a : Z) : option Z :=
  match m with [] => None | (x, y) :: r => if x =? a then Some y else pb_fwd r a end.
Fixpoint pb_bwd (m : pbij) (b : Z) : option Z :=
  match m with [] => None | (x, y) :: r => if y =? b then Some x else pb_bwd r b end.
Definition pb_add (m : pbij) (a b : Z) : option pbij :=
  match pb_fwd m a, pb_bwd m b with
  | Some b', _ => if b' =? b then Some m else None
  | None, Some _ => None
  | None, None => Some ((a, b) :: m)
  end.
Definition pb_add_opt (m : pbij) (a b : option Z) : option pbij :=
  match a, b with
  | Some x, Some y => pb_add m x y
  | None, None => Some m
  | _, _ => None
  end.

(* local-id bijection ml, function-id bijection mf *)
Definition sb_state := (pbij * pbij)%type.

Fixpoint sb_list {A} (f : sb_state -> A -> A -> option sb_state) (m : sb_state) (xs ys : list A)
  : option sb_state :=
  match xs, ys with
  | [], [] => Some m
  | x :: xr, y :: yr => match f m x y with Some m' => sb_list f m' xr yr | None => None end
  | _, _ => None
  end.

Definition sb_seg (m : sb_state) (a b : seg) : option sb_state :=
  match a, b with
  | SegLit x, SegLit y => if bytes_eqb x y then Some m else None
  | SegVar n l, SegVar n' l' =>
      if bytes_eqb n n' then
        match pb_add_opt (fst m) l l' with Some ml => Some (ml, snd m) | None => None end
      else None
  | _, _ => None
  end.

Fixpoint sb_expr (m : sb_state) (a b : expr) {struct a} : option sb_state :=
  match a, b with
  | ENum _, ENum _ | EStr _, EStr _ | EBool _, EBool _ | ENull, ENull => Some m
  | EInterp s1, EInterp s2 => sb_list sb_seg m s1 s2
  | EVar n l, EVar n' l' =>
      if bytes_eqb n n' then
        match pb_add_opt (fst m) l l' with Some ml => Some (ml, snd m) | None => None end
      else None
  | EBin _ a1 a2, EBin _ b1 b2 =>
      match sb_expr m a1 b1 with Some m1 => sb_expr m1 a2 b2 | None => None end
  | EUn _ a1, EUn _ b1 => sb_expr m a1 b1
  | EArr xs, EArr ys =>
      (fix go (m : sb_state) (xs ys : list expr) {struct xs} : option sb_state :=
         match xs, ys with
         | [], [] => Some m
         | x :: xr, y :: yr => match sb_expr m x y with Some m' => go m' xr yr | None => None end
         | _, _ => None
         end) m xs ys
  | EIdx a1 a2, EIdx b1 b2 =>
      match sb_expr m a1 b1 with Some m1 => sb_expr m1 a2 b2 | None => None end
  | EMember o _, EMember o' _ => sb_expr m o o'
  | ECall c xs t, ECall c' ys t' =>
      let mc :=
        match c, c' with
        | EVar f _, EVar f' _ =>
            if bytes_eqb f f' then
              match global_builtin f with
              | Some _ => Some m
              | None => match pb_add_opt (snd m) t t' with Some mf => Some (fst m, mf) | None => None end
              end
            else None
        | _, _ => sb_expr m c c'
        end in
      match mc with
      | None => None
      | Some m1 =>
          (fix go (m : sb_state) (xs ys : list expr) {struct xs} : option sb_state :=
             match xs, ys with
             | [], [] => Some m
             | x :: xr, y :: yr => match sb_expr m x y with Some m' => go m' xr yr | None => None end
             | _, _ => None
             end) m1 xs ys
      end
  | _, _ => None
  end.

Fixpoint sb_params (ml : pbij) (n : nat) (ls ls' : Z) : option pbij :=
  match n with
  | O => Some ml
  | S k => match pb_add ml ls ls' with Some ml' => sb_params ml' k (ls + 1) (ls' + 1) | None => None end
  end.

Fixpoint sb_stmt (m : sb_state) (a b : stmt) {struct a} : option sb_state :=
  let blk :=
    fix go (m : sb_state) (xs ys : list stmt) {struct xs} : option sb_state :=
      match xs, ys with
      | [], [] => Some m
      | x :: xr, y :: yr => match sb_stmt m x y with Some m' => go m' xr yr | None => None end
      | _, _ => None
      end in
  match a, b with
  | SFun _ n ps body fid ls _, SFun _ n' ps' body' fid' ls' _ =>
      if bytes_eqb n n' && Nat.eqb (length ps) (length ps') then
        match pb_add_opt (snd m) fid fid', sb_params (fst m) (length ps) ls ls' with
        | Some mf, Some ml => blk (ml, mf) body body'
        | _, _ => None
        end
      else None
  | SMake _ n l e, SMake _ n' l' e' =>
      if bytes_eqb n n' then
        match sb_expr m e e' with
        | Some m1 => match pb_add_opt (fst m1) l l' with Some ml => Some (ml, snd m1) | None => None end
        | None => None
        end
      else None
  | SSet _ n l e, SSet _ n' l' e' =>
      if bytes_eqb n n' then
        match pb_add_opt (fst m) l l' with
        | Some ml => sb_expr (ml, snd m) e e'
        | None => None
        end
      else None
  | SSetIdx _ t e, SSetIdx _ t' e' =>
      match sb_expr m t t' with Some m1 => sb_expr m1 e e' | None => None end
  | SIf _ c t f, SIf _ c' t' f' =>
      match sb_expr m c c' with
      | Some m1 =>
          match blk m1 t t' with
          | Some m2 =>
              match f, f' with
              | Some fb, Some fb' => blk m2 fb fb'
              | None, None => Some m2
              | _, _ => None
              end
          | None => None
          end
      | None => None
      end
  | SLoop _ c b1, SLoop _ c' b2 =>
      match sb_expr m c c' with Some m1 => blk m1 b1 b2 | None => None end
  | SBlock _ b1, SBlock _ b2 => blk m b1 b2
  | SRet _ None, SRet _ None => Some m
  | SRet _ (Some e), SRet _ (Some e') => sb_expr m e e'
  | SBreak _, SBreak _ | SNext _, SNext _ => Some m
  | SExpr _ e, SExpr _ e' => sb_expr m e e'
  | _, _ => None
  end.

Fixpoint sb_stmts (m : sb_state) (xs ys : list stmt) : option sb_state :=
  match xs, ys with
  | [], [] => Some m
  | x :: xr, y :: yr => match sb_stmt m x y with Some m' => sb_stmts m' xr yr | None => None end
  | _, _ => None
  end.

Definition same_binding_structure (p q : list stmt) : bool :=
  match sb_stmts ([], []) p q with Some _ => true | None => false end.

Definition lexical_bij (p : list stmt) : bool :=
  match lex_ids p with Some q => same_binding_structure p q | None => false end.

(* ---------- no early capture (conservative) ---------- *)
(* names mentioned as variables / as callees anywhere inside an expression or statement *)
Fixpoint vars_expr (e : expr) {struct e} : list name :=
  match e with
  | ENum _ | EStr _ | EBool _ | ENull => []
  | EInterp segs => flat_map (fun sg => match sg with SegVar n _ => [n] | SegLit _ => [] end) segs
  | EVar n _ => [n]
  | EBin _ a b => vars_expr a ++ vars_expr b
  | EUn _ a => vars_expr a
  | EArr es => flat_map vars_expr es
  | EIdx a i => vars_expr a ++ vars_expr i
  | EMember o _ => vars_expr o
  | ECall c args _ =>
      (match c with EVar _ _ => [] | _ => vars_expr c end) ++ flat_map vars_expr args
  end.

Fixpoint calls_expr (e : expr) {struct e} : list name :=
  match e with
  | ENum _ | EStr _ | EBool _ | ENull | EInterp _ | EVar _ _ => []
  | EBin _ a b => calls_expr a ++ calls_expr b
  | EUn _ a => calls_expr a
  | EArr es => flat_map calls_expr es
  | EIdx a i => calls_expr a ++ calls_expr i
  | EMember o _ => calls_expr o
  | ECall c args _ =>
      (match c with
       | EVar f _ => match global_builtin f with Some _ => [] | None => [f] end
       | _ => calls_expr c
       end) ++ flat_map calls_expr args
  end.

Fixpoint vars_stmt (t : stmt) {struct t} : list name :=
  let blk := fun (b : list stmt) =>
    (fix go (ts : list stmt) {struct ts} : list name :=
       match ts with [] => [] | t' :: r => vars_stmt t' ++ go r end) b in
  match t with
  | SFun _ _ _ body _ _ _ => blk body
  | SMake _ _ _ e => vars_expr e
  | SSet _ n _ e => n :: vars_expr e
  | SSetIdx _ tg e => vars_expr tg ++ vars_expr e
  | SIf _ c t f => vars_expr c ++ blk t ++ match f with Some fb => blk fb | None => [] end
  | SLoop _ c b => vars_expr c ++ blk b
  | SBlock _ b => blk b
  | SRet _ (Some e) | SExpr _ e => vars_expr e
  | _ => []
  end.

Fixpoint calls_stmt (t : stmt) {struct t} : list name :=
  let blk := fun (b : list stmt) =>
    (fix go (ts : list stmt) {struct ts} : list name :=
       match ts with [] => [] | t' :: r => calls_stmt t' ++ go r end) b in
  match t with
  | SFun _ _ _ body _ _ _ => blk body
  | SMake _ _ _ e | SSet _ _ _ e => calls_expr e
  | SSetIdx _ tg e => calls_expr tg ++ calls_expr e
  | SIf _ c t f => calls_expr c ++ blk t ++ match f with Some fb => blk fb | None => [] end
  | SLoop _ c b => calls_expr c ++ blk b
  | SBlock _ b => blk b
  | SRet _ (Some e) | SExpr _ e => calls_expr e
  | _ => []
  end.

(* names a statement mentions that are not bound by its own parameters / earlier `make`s *)
Definition fvx (bound : list name) (e : expr) : list name :=
  filter (fun n => negb (mem_name n bound)) (vars_expr e).

Fixpoint fv_stmt (bound : list name) (t : stmt) {struct t} : list name :=
  let blk := fun (bound : list name) (b : list stmt) =>
    (fix go (ts : list stmt) (bound : list name) {struct ts} : list name :=
       match ts with
       | [] => []
       | t' :: r =>
           fv_stmt bound t' ++
           go r (match t' with SMake _ n _ _ => n :: bound | _ => bound end)
       end) b bound in
  match t with
  | SFun _ _ ps body _ _ _ => blk (ps ++ bound) body
  | SMake _ _ _ e => fvx bound e
  | SSet _ n _ e => (if mem_name n bound then [] else [n]) ++ fvx bound e
  | SSetIdx _ tg e => fvx bound tg ++ fvx bound e
  | SIf _ c t f =>
      fvx bound c ++ blk bound t ++ match f with Some fb => blk bound fb | None => [] end
  | SLoop _ c b => fvx bound c ++ blk bound b
  | SBlock _ b => blk bound b
  | SRet _ (Some e) | SExpr _ e => fvx bound e
  | _ => []
  end.

(* per function defined directly in the block: (name, index of the last top-level `make`
   before the definition whose variable the body mentions, or -1, names it calls) *)
Fixpoint last_needed (ts : list stmt) (k : Z) (used : list name) (acc : Z) : Z :=
  match ts with
  | [] => acc
  | SMake _ n _ _ :: r => last_needed r (k + 1) used (if mem_name n used then k else acc)
  | _ :: r => last_needed r (k + 1) used acc
  end.

Fixpoint fn_infos (pre : list stmt) (ts : list stmt) : list (name * Z * list name) :=
  match ts with
  | [] => []
  | (SFun _ n _ _ _ _ _ as t) :: r =>
      (n, last_needed pre 0 (fv_stmt [] t) (-1), calls_stmt t) :: fn_infos (pre ++ [t]) r
  | t :: r => fn_infos (pre ++ [t]) r
  end.

Fixpoint lim_of (infos : list (name * Z * list name)) (f : name) : Z :=
  match infos with
  | [] => -1
  | (n, l, _) :: r => if bytes_eqb n f then l else lim_of r f
  end.

(* one relaxation round: a function needs what the functions it calls need *)
Definition lim_round (infos : list (name * Z * list name)) : list (name * Z * list name) :=
  map (fun '(n, l, cs) => (n, fold_left (fun a c => Z.max a (lim_of infos c)) cs l, cs)) infos.

Fixpoint lim_iter (k : nat) (infos : list (name * Z * list name)) :=
  match k with O => infos | S k' => lim_iter k' (lim_round infos) end.

(* every non-definition statement at index j only mentions calls to functions of this block
   whose needed declarations all lie before j *)
Fixpoint early_ok_stmts (infos : list (name * Z * list name)) (ts : list stmt) (j : Z) : bool :=
  match ts with
  | [] => true
  | SFun _ _ _ _ _ _ _ :: r => early_ok_stmts infos r (j + 1)
  | t :: r => forallb (fun c => lim_of infos c <? j) (calls_stmt t) && early_ok_stmts infos r (j + 1)
  end.

Fixpoint nec_stmt (t : stmt) {struct t} : bool :=
  let blk := fun (b : list stmt) =>
    (let infos := fn_infos [] b in
     early_ok_stmts (lim_iter (length infos) infos) b 0) &&
    (fix go (ts : list stmt) {struct ts} : bool :=
       match ts with [] => true | t' :: r => nec_stmt t' && go r end) b in
  match t with
  | SFun _ _ _ body _ _ _ => blk body
  | SIf _ _ t f => blk t && match f with Some fb => blk fb | None => true end
  | SLoop _ _ b | SBlock _ b => blk b
  | _ => true
  end.

Definition no_early_capture (p : list stmt) : bool := nec_stmt (SBlock None p).
