(* Lexer.v — byte-level executable transcription of src/syntax/scanner.rs.
   Definitions only; proofs in proofs/LexerProofs.v.

   Conventions
   * the source text is a byte list [s]; the cursor [self.pos] is carried explicitly as a
     [cursor] = (the bytes from pos on, pos).  Every function keeps [c_rest = skipn c_pos s]
     (a lemma), so `self.src[self.pos]` is the head of [c_rest];
   * nothing assumes that an index is a character boundary.  Every place where the Rust
     code turns bytes into a `str` (`from_utf8_unchecked(&self.src[a..b])`, `.chars()`) is
     a [slice]/[char_width] test here; when it fails the outcome is [LexPanic] (the Rust
     code has undefined behaviour or panics there);
   * a token is (kind, payload bytes, span start, span end); a diagnostic is
     (LexError, label variant, span start, span end) — in the Rust code the label always
     carries the same span as the diagnostic;
   * keyword / punctuation / escape tables come from GenLexer.v (regenerated from the
     source); the two places where the shipped lexer leaves the character grid are
     switches of a [variant], so that the same text describes the shipped and the repaired
     code ([variant_of_source] is what the current tree does);
   * loops with a computed stride take fuel; LexerProofs.v shows that the fuel handed out by
     [lex] is never exhausted. *)
From Coq Require Import ZArith List Bool Arith.
Require Import NS.theories.Utf8 NS.theories.GenLexer.
Import ListNotations.
Open Scope nat_scope.

(* ------------------------------------------------------------------ results *)

Inductive panic_site :=
  | PNonAsciiChars      (* next_token: rest.chars().next() on a non-boundary / truncated text *)
  | PWordSlice          (* read_word: from_utf8_unchecked(&src[beg..pos]) *)
  | PNumberSlice        (* scan_number: from_utf8_unchecked(&src[start..]) *)
  | PStringSlice        (* scan_string: any of its from_utf8_unchecked re-slices *)
  | PEscapeChars        (* scan_string (repaired): chars().next() after the backslash *)
  | PIndex              (* self.src[i] with i >= len *)
  | PUnreachable.       (* a branch the Rust control flow cannot take *)

Inductive outcome (A : Type) :=
  | Ok (a : A)
  | LexPanic (site : panic_site) (at_pos : nat)
  | OutOfFuel.
Arguments Ok {A} a.
Arguments LexPanic {A} site at_pos.
Arguments OutOfFuel {A}.

Record variant := {
  v_skip_byte_after_bad_dot : bool;   (* scan_number: `self.pos += 1` after `1.<non-digit>` *)
  v_escape_two_bytes : bool           (* scan_string: unknown escape advances by exactly 2 bytes *)
}.
Definition shipped : variant := {| v_skip_byte_after_bad_dot := true; v_escape_two_bytes := true |}.
Definition repaired : variant := {| v_skip_byte_after_bad_dot := false; v_escape_two_bytes := false |}.
Definition variant_of_source : variant :=
  {| v_skip_byte_after_bad_dot := src_skip_byte_after_bad_dot; v_escape_two_bytes := src_escape_two_bytes |}.

Record cursor := { c_rest : bytes; c_pos : nat }.

Record token := { t_kind : tok; t_payload : bytes; t_owned : bool; t_start : nat; t_end : nat }.

(* d_label: 0 for the only label of that error; for InvalidIdentifier 0 = "must start with
   letter or underscore", 1 = "get invalid character"; for UnterminatedString the quote byte *)
Record diag := { d_err : lexerr; d_label : Z; d_start : nat; d_end : nat }.

(* ------------------------------------------------------------------ byte classes *)

(* u8::is_ascii_whitespace: space, \t, \n, form feed, \r *)
Definition is_ws (b : Z) : bool :=
  (b =? 32)%Z || (b =? 9)%Z || (b =? 10)%Z || (b =? 12)%Z || (b =? 13)%Z.
Definition is_digit (b : Z) : bool := in_range 48 57 b.
Definition is_alpha (b : Z) : bool := in_range 65 90 b || in_range 97 122 b.
Definition is_alpha_us (b : Z) : bool := is_alpha b || (b =? 95)%Z.
Definition is_word_byte (b : Z) : bool := is_alpha_us b || is_digit b.
Definition is_alnum_us (b : Z) : bool := is_alpha b || is_digit b || (b =? 95)%Z.
Definition is_nl (b : Z) : bool := (b =? 10)%Z || (b =? 13)%Z.

Fixpoint bytes_eqb (a b : bytes) : bool :=
  match a, b with
  | [], [] => true
  | x :: a', y :: b' => (x =? y)%Z && bytes_eqb a' b'
  | _, _ => false
  end.

Fixpoint assoc_bytes {A : Type} (w : bytes) (l : list (bytes * A)) : option A :=
  match l with
  | [] => None
  | (k, v) :: l' => if bytes_eqb w k then Some v else assoc_bytes w l'
  end.

Fixpoint assoc_z {A : Type} (b : Z) (l : list (Z * A)) : option A :=
  match l with
  | [] => None
  | (k, v) :: l' => if (b =? k)%Z then Some v else assoc_z b l'
  end.

Fixpoint mem_z (b : Z) (l : list Z) : bool :=
  match l with
  | [] => false
  | k :: l' => (b =? k)%Z || mem_z b l'
  end.

(* ------------------------------------------------------------------ cursor moves *)

(* `self.pos += 1` (also past the end: the shipped scan_number can do that) *)
Definition adv1 (c : cursor) : cursor :=
  {| c_rest := tl (c_rest c); c_pos := S (c_pos c) |}.

(* `self.pos += n` *)
Definition advn (n : nat) (c : cursor) : cursor :=
  {| c_rest := skipn n (c_rest c); c_pos := c_pos c + n |}.

(* while pos < len && p(src[pos]) { pos += 1 } *)
Fixpoint skip_while (p : Z -> bool) (r : bytes) (pos : nat) : cursor :=
  match r with
  | b :: t => if p b then skip_while p t (S pos) else {| c_rest := r; c_pos := pos |}
  | [] => {| c_rest := []; c_pos := pos |}
  end.

Definition skip_whitespace (c : cursor) : cursor := skip_while is_ws (c_rest c) (c_pos c).

(* memchr2(a, b, haystack, 0): index of the first byte equal to a or b, else the length *)
Fixpoint memchr2 (a b : Z) (h : bytes) : nat :=
  match h with
  | [] => 0
  | x :: t => if (x =? a)%Z || (x =? b)%Z then 0 else S (memchr2 a b t)
  end.

Definition skip_comment (c : cursor) : cursor :=
  let index := memchr2 10 13 (c_rest c) in
  let c1 := advn index c in
  match c_rest c1 with
  | ch :: _ => if is_nl ch then adv1 c1 else c1
  | [] => c1
  end.

(* ------------------------------------------------------------------ words *)

Fixpoint strip_prefix (w r : bytes) : option bytes :=
  match w, r with
  | [], _ => Some r
  | x :: w', y :: r' => if (x =? y)%Z then strip_prefix w' r' else None
  | _ :: _, [] => None
  end.

(* try_consume_word: Some = consumed (new cursor), None = `false` (self.pos untouched) *)
Definition try_consume_word (c : cursor) (word : bytes) : option cursor :=
  let c1 := skip_whitespace c in              (* beg *)
  match strip_prefix word (c_rest c1) with    (* end <= len && src[beg..end] == word *)
  | Some r' =>
      let moved := {| c_rest := r'; c_pos := c_pos c1 + length word |} in
      match r' with
      | [] => Some moved                                        (* end == len *)
      | b :: _ => if is_alpha_us b then None else Some moved
      end
  | None => None
  end.

(* a && b && ...: the cursor keeps the words already consumed when a later one fails *)
Fixpoint consume_seq (c : cursor) (ws : list bytes) : cursor * bool :=
  match ws with
  | [] => (c, true)
  | w :: ws' =>
      match try_consume_word c w with
      | Some c' => consume_seq c' ws'
      | None => (c, false)
      end
  end.

(* the successive `if a && b { return T }` blocks; no rollback between them *)
Fixpoint try_alternatives (c : cursor) (alts : list (list bytes * tok)) : option (tok * cursor) :=
  match alts with
  | [] => None
  | (ws, k) :: alts' =>
      let (c', ok) := consume_seq c ws in
      if ok then Some (k, c') else try_alternatives c' alts'
  end.

Definition mk_diag (e : lexerr) (lbl : Z) (a b : nat) : diag :=
  {| d_err := e; d_label := lbl; d_start := a; d_end := b |}.

(* the validity test at the end of scan_identifier_or_keyword *)
Definition ident_diags (word : bytes) (start pos : nat) : list diag :=
  match word with
  | [] => []
  | first :: others =>
      if is_alpha_us first then
        if forallb is_alnum_us others then [] else [mk_diag EInvalidIdentifier 1 start pos]
      else [mk_diag EInvalidIdentifier 0 start pos]
  end.

(* result of the scanners: kind, payload, owned?, cursor after, diagnostics in emission order *)
Definition scanned := (tok * bytes * bool * cursor * list diag)%type.

Definition scan_identifier_or_keyword (s : bytes) (start : nat) (c : cursor) : outcome scanned :=
  let c1 := skip_while is_word_byte (c_rest c) (c_pos c) in       (* read_word *)
  match slice s start (c_pos c1) with
  | None => LexPanic PWordSlice start
  | Some word =>
      match assoc_bytes word multi_table with
      | Some alts =>
          match try_alternatives c1 alts with
          | Some (k, c2) => Ok (k, [], false, c2, [])
          | None => Ok (TIdentifier, word, false, c1, [])          (* self.pos = save *)
          end
      | None =>
          match assoc_bytes word keyword_table with
          | Some k => Ok (k, [], false, c1, [])
          | None => Ok (TIdentifier, word, false, c1, ident_diags word start (c_pos c1))
          end
      end
  end.

(* ------------------------------------------------------------------ strings *)

Definition escape_lookup (quote esc : Z) : option Z :=
  match assoc_z esc escapes_quote with
  | Some q => if (q =? quote)%Z then Some esc else assoc_z esc escapes_plain
  | None => assoc_z esc escapes_plain
  end.

(* One iteration of the `loop` in scan_string per unit of fuel.  [cur] is self.pos (start of
   the segment not yet copied), [buf] the owned buffer, [has_escape] the flag. *)
Fixpoint scan_string_loop (fuel : nat) (v : variant) (s : bytes) (start beg : nat) (quote : Z)
         (cur : cursor) (has_escape : bool) (buf : bytes) : outcome scanned :=
  match fuel with
  | O => OutOfFuel
  | S fuel' =>
      let hay := c_rest cur in
      let quote_or_escape := memchr2 quote 92 hay in
      let newline := memchr2 10 13 hay in
      let unterminated := fun e => mk_diag EUnterminatedString quote start e in
      if newline <? quote_or_escape then
        let line_end := c_pos cur + newline in
        let cur' := advn newline cur in
        if has_escape then Ok (TString, buf, true, cur', [unterminated line_end])
        else match slice s beg line_end with
             | Some p => Ok (TString, p, false, cur', [unterminated line_end])
             | None => LexPanic PStringSlice beg
             end
      else if quote_or_escape =? length hay then
        (* end of input: self.pos is still the start of the last segment *)
        if has_escape then Ok (TString, buf, true, cur, [unterminated (c_pos cur)])
        else match slice s beg (c_pos cur) with
             | Some p => Ok (TString, p, false, cur, [unterminated (c_pos cur)])
             | None => LexPanic PStringSlice beg
             end
      else
        let pos := c_pos cur + quote_or_escape in
        match skipn quote_or_escape hay with
        | [] => LexPanic PIndex pos
        | ch :: after =>
            let segment :=          (* if self.pos < pos { push_str(src[self.pos..pos]) } *)
              if c_pos cur <? pos then slice s (c_pos cur) pos else Some [] in
            if (ch =? quote)%Z then
              let cur' := {| c_rest := after; c_pos := S pos |} in
              if has_escape then
                match segment with
                | Some seg => Ok (TString, buf ++ seg, true, cur', [])
                | None => LexPanic PStringSlice (c_pos cur)
                end
              else match slice s beg pos with
                   | Some p => Ok (TString, p, false, cur', [])
                   | None => LexPanic PStringSlice beg
                   end
            else if (ch =? 92)%Z then
              let copied :=
                match buf with
                | [] => slice s beg pos        (* buffer.is_empty(): copy from the opening quote *)
                | _ :: _ => segment
                end in
              match copied with
              | None => LexPanic PStringSlice (c_pos cur)
              | Some seg =>
                  let buf1 := buf ++ seg in
                  match after with
                  | [] =>   (* pos + 1 >= len *)
                      Ok (TString, buf1, true, cur, [unterminated (c_pos cur)])
                  | esc :: after2 =>
                      match escape_lookup quote esc with
                      | Some pushed =>
                          scan_string_loop fuel' v s start beg quote
                            {| c_rest := after2; c_pos := pos + 2 |} true (buf1 ++ [pushed])
                      | None =>
                          if v_escape_two_bytes v then
                            match scan_string_loop fuel' v s start beg quote
                                    {| c_rest := after2; c_pos := pos + 2 |} true
                                    (buf1 ++ push_byte_as_char esc) with
                            | Ok (k, p, o, c', ds) =>
                                Ok (k, p, o, c', mk_diag EInvalidStringEscape 0 pos (pos + 2) :: ds)
                            | other => other
                            end
                          else
                            (* repaired: take the whole escaped character *)
                            let w := char_width esc in
                            if (w =? 0) || (length after <? w) then LexPanic PEscapeChars (S pos)
                            else
                              match scan_string_loop fuel' v s start beg quote
                                      {| c_rest := skipn w after; c_pos := pos + 1 + w |} true
                                      (buf1 ++ firstn w after) with
                              | Ok (k, p, o, c', ds) =>
                                  Ok (k, p, o, c', mk_diag EInvalidStringEscape 0 pos (pos + 1 + w) :: ds)
                              | other => other
                              end
                      end
                  end
              end
            else LexPanic PUnreachable pos
        end
  end.

(* scan_string: [c] is at the opening quote *)
Definition scan_string (v : variant) (s : bytes) (start : nat) (quote : Z) (c : cursor) : outcome scanned :=
  let c1 := adv1 c in
  scan_string_loop (S (length (c_rest c1))) v s start (c_pos c1) quote c1 false [].

(* ------------------------------------------------------------------ numbers *)

Definition head_or_zero (r : bytes) : Z := match r with b :: _ => b | [] => 0%Z end.

(* the part of scan_number after the digits and the optional fraction *)
Definition scan_number_suffix (s : bytes) (start : nat) (c : cursor) : outcome scanned :=
  if is_alpha_us (head_or_zero (c_rest c)) then
    let id_start := c_pos c in
    let c1 := skip_while is_word_byte (c_rest c) (c_pos c) in
    match slice s start id_start with
    | Some num => Ok (TNumber, num, false, c1, [mk_diag EInvalidIdentifier 0 start (c_pos c1)])
    | None => LexPanic PNumberSlice start
    end
  else
    match slice s start (c_pos c) with
    | Some num => Ok (TNumber, num, false, c, [])
    | None => LexPanic PNumberSlice start
    end.

(* [k] is `self.next_token()` (the recursion of the bad-dot branch); its token replaces the
   number, the span start stays [start] *)
Definition scan_number (v : variant) (s : bytes) (start : nat) (c : cursor)
           (k : cursor -> outcome (token * cursor * list diag)) : outcome scanned :=
  let c1 := skip_while is_digit (c_rest c) (c_pos c) in
  match c_rest c1 with
  | dot :: t =>
      if (dot =? 46)%Z then
        let c2 := {| c_rest := t; c_pos := S (c_pos c1) |} in
        if negb (is_digit (head_or_zero t)) then
          let d := mk_diag EInvalidNumber 0 start (c_pos c2) in
          let c3 := if v_skip_byte_after_bad_dot v then adv1 c2 else c2 in
          match k c3 with
          | Ok (t', c4, ds) => Ok (t_kind t', t_payload t', t_owned t', c4, d :: ds)
          | LexPanic site p => LexPanic site p
          | OutOfFuel => OutOfFuel
          end
        else scan_number_suffix s start (skip_while is_digit (c_rest c2) (c_pos c2))
      else scan_number_suffix s start c1
  | [] => scan_number_suffix s start c1
  end.

(* ------------------------------------------------------------------ next_token *)

Definition mk_token (start : nat) (r : scanned) : token * cursor * list diag :=
  match r with
  | (k, p, o, c', ds) =>
      ({| t_kind := k; t_payload := p; t_owned := o; t_start := start; t_end := c_pos c' |}, c', ds)
  end.

Definition finish (start : nat) (r : outcome scanned) : outcome (token * cursor * list diag) :=
  match r with
  | Ok x => Ok (mk_token start x)
  | LexPanic site p => LexPanic site p
  | OutOfFuel => OutOfFuel
  end.

Definition prepend_diag (d : diag) (r : outcome (token * cursor * list diag)) :=
  match r with
  | Ok (t, c, ds) => Ok (t, c, d :: ds)
  | other => other
  end.

Fixpoint next_token (fuel : nat) (v : variant) (s : bytes) (c : cursor)
  : outcome (token * cursor * list diag) :=
  match fuel with
  | O => OutOfFuel
  | S fuel' =>
      let c1 := skip_whitespace c in
      let start := c_pos c1 in
      match c_rest c1 with
      | [] =>
          Ok ({| t_kind := TEOF; t_payload := []; t_owned := false; t_start := start; t_end := start |}, c1, [])
      | b :: after =>
          if (b =? 35)%Z then next_token fuel' v s (skip_comment c1)
          else if mem_z b quote_bytes then finish start (scan_string v s start b c1)
          else
            match assoc_z b punct_table with
            | Some k => finish start (Ok (k, [], false, adv1 c1, []))
            | None =>
                if is_digit b then finish start (scan_number v s start c1 (next_token fuel' v s))
                else if is_alpha_us b then finish start (scan_identifier_or_keyword s start c1)
                else if negb (is_ascii b) then
                  (* rest.chars().next().len_utf8() *)
                  let w := char_width b in
                  if (w =? 0) || (length (c_rest c1) <? w) then LexPanic PNonAsciiChars start
                  else prepend_diag (mk_diag EUnexpectedChar 0 start (start + w))
                                    (next_token fuel' v s (advn w c1))
                else
                  prepend_diag (mk_diag EUnexpectedChar 0 start start)
                               (next_token fuel' v s (adv1 c1))
            end
      end
  end.

(* ------------------------------------------------------------------ the token stream *)

Definition start_cursor (s : bytes) : cursor := {| c_rest := s; c_pos := 0 |}.

(* fuel that next_token can never use up from cursor c (every recursive call has consumed
   at least one byte) *)
Definition token_fuel (c : cursor) : nat := S (length (c_rest c)).

Definition is_eof (t : token) : bool := tok_eqb (t_kind t) TEOF.

(* Iterator::next until it returns None; result: tokens, diagnostics, final self.pos *)
Fixpoint lex_loop (fuel : nat) (v : variant) (s : bytes) (c : cursor)
  : outcome (list token * list diag * nat) :=
  match fuel with
  | O => OutOfFuel
  | S fuel' =>
      match next_token (token_fuel c) v s c with
      | Ok (t, c', ds) =>
          if is_eof t && (length s <=? c_pos c') then Ok ([], ds, c_pos c')
          else
            match lex_loop fuel' v s c' with
            | Ok (ts, ds', fin) => Ok (t :: ts, ds ++ ds', fin)
            | other => other
            end
      | LexPanic site p => LexPanic site p
      | OutOfFuel => OutOfFuel
      end
  end.

Definition lex (v : variant) (s : bytes) : outcome (list token * list diag * nat) :=
  lex_loop (S (length s)) v s (start_cursor s).

(* ------------------------------------------------------------------ specification predicates
   (what C07 asks of the lexer's output; used by proofs/LexerProofs.v and Properties/C07.v) *)

Definition token_wf (s : bytes) (t : token) : Prop := span_wf s (t_start t) (t_end t).
Definition diag_wf (s : bytes) (d : diag) : Prop := span_wf s (d_start d) (d_end d).

(* every token is non-empty and starts at or after the end of the previous one (hence token
   starts are strictly increasing) *)
Fixpoint tokens_ordered (lo : nat) (ts : list token) : Prop :=
  match ts with
  | [] => True
  | t :: ts' => lo <= t_start t /\ t_start t < t_end t /\ tokens_ordered (t_end t) ts'
  end.

(* the cursor invariant: [c_rest] is the text from [c_pos] on, [c_pos] is inside the text and
   on a character boundary *)
Definition cursor_wf (s : bytes) (c : cursor) : Prop :=
  c_rest c = skipn (c_pos c) s /\ c_pos c <= length s /\ is_boundary s (c_pos c) = true.
