(* C18 — analysis budgets.  Executable model (definitions only) of

     src/analysis/limits.rs   AnalysisCaps / DEFAULT_CAPS, first_exceeded_limit (staged order),
                              summary_event_bound, liveness_event_bound (u64 saturating arithmetic)
     src/analysis/cfg.rs      what count_program measures (per-function blocks / ops)
     src/resolver.rs          what the resolver's fact tables measure (functions, locals, scopes,
                              statements, direct user calls) and the gate in emit_analysis_warnings
     src/analysis/summary.rs  the summary event budget (SummaryBudget::note_event)
     src/runtime.rs           stmt_is_pruned / function_is_pruned as functions of the plan option

   Numbers are Z.  The Rust integer types are made explicit where the code relies on them:
   u64::saturating_add / saturating_mul are [sat_add] / [sat_mul], the one unchecked `+ 2` in
   summary_event_bound is [wrap_add] (wraps in a release build, panics in a debug build exactly
   when [add_overflows]).  `usize as u64` and `u64::from(u32)` are the identity on values.
   The constants come from theories/GenLimits.v, regenerated from /repo on every check. *)
From Coq Require Import ZArith List Bool String.
Require Import NS.theories.GenLimits.
Import ListNotations.
Open Scope Z_scope.

(* ------------------------------------------------------------------------------------ *)
(** * Rust integer arithmetic *)

Definition u32_max : Z := 4294967295.
Definition u64_max : Z := 18446744073709551615.

Definition sat_add (a b : Z) : Z := Z.min (a + b) u64_max.
Definition sat_mul (a b : Z) : Z := Z.min (a * b) u64_max.
Definition wrap_add (a b : Z) : Z := (a + b) mod (u64_max + 1).
Definition add_overflows (a b : Z) : bool := u64_max <? a + b.

(* ------------------------------------------------------------------------------------ *)
(** * Caps *)

Record caps := mkCaps {
  max_functions : Z;            (* u32 *)
  max_locals : Z;               (* u32 *)
  max_scopes : Z;               (* u32 *)
  max_statements : Z;           (* u32 *)
  max_total_ops : Z;            (* u32 *)
  max_ops_per_function : Z;     (* u32 *)
  max_total_blocks : Z;         (* u32 *)
  max_blocks_per_function : Z;  (* u32 *)
  max_direct_user_calls : Z;    (* u32 *)
  max_summary_events : Z;       (* u64 *)
  max_liveness_events : Z       (* u64 *)
}.

(* DEFAULT_CAPS, field by field from the generated constants: a renamed, added or removed
   field stops this file from compiling. *)
Definition default_caps : caps :=
  mkCaps dc_max_functions dc_max_locals dc_max_scopes dc_max_statements dc_max_total_ops
         dc_max_ops_per_function dc_max_total_blocks dc_max_blocks_per_function
         dc_max_direct_user_calls dc_max_summary_events dc_max_liveness_events.

Inductive cap_field :=
| CFunctions | CLocals | CScopes | CStatements | CTotalOps | COpsPerFn | CTotalBlocks
| CBlocksPerFn | CCalls | CSummary | CLiveness.

Definition cap_value (k : caps) (f : cap_field) : Z :=
  match f with
  | CFunctions => max_functions k | CLocals => max_locals k | CScopes => max_scopes k
  | CStatements => max_statements k | CTotalOps => max_total_ops k
  | COpsPerFn => max_ops_per_function k | CTotalBlocks => max_total_blocks k
  | CBlocksPerFn => max_blocks_per_function k | CCalls => max_direct_user_calls k
  | CSummary => max_summary_events k | CLiveness => max_liveness_events k
  end.

Definition cap_field_name (f : cap_field) : string :=
  match f with
  | CFunctions => "max_functions" | CLocals => "max_locals" | CScopes => "max_scopes"
  | CStatements => "max_statements" | CTotalOps => "max_total_ops"
  | COpsPerFn => "max_ops_per_function" | CTotalBlocks => "max_total_blocks"
  | CBlocksPerFn => "max_blocks_per_function" | CCalls => "max_direct_user_calls"
  | CSummary => "max_summary_events" | CLiveness => "max_liveness_events"
  end%string.

Definition cap_field_type (f : cap_field) : string :=
  match f with CSummary | CLiveness => "u64" | _ => "u32" end%string.

Definition all_cap_fields : list cap_field :=
  [CFunctions; CLocals; CScopes; CStatements; CTotalOps; COpsPerFn; CTotalBlocks; CBlocksPerFn;
   CCalls; CSummary; CLiveness].

Definition cap_max (f : cap_field) : Z :=
  match f with CSummary | CLiveness => u64_max | _ => u32_max end.

(* every cap is a value of its Rust type *)
Definition caps_wf (k : caps) : Prop :=
  forall f, 0 <= cap_value k f <= cap_max f.

Definition caps_wfb (k : caps) : bool :=
  forallb (fun f => (0 <=? cap_value k f) && (cap_value k f <=? cap_max f)) all_cap_fields.

(* ------------------------------------------------------------------------------------ *)
(** * Limits and metrics *)

Inductive metric :=
| MFunctions | MLocals | MScopes | MStatements | MCfgOps | MOpsInFn | MCfgBlocks | MBlocksInFn
| MCalls | MSummary | MLiveness.

Definition metric_name (m : metric) : string :=
  match m with
  | MFunctions => "functions" | MLocals => "locals" | MScopes => "scopes"
  | MStatements => "statements" | MCfgOps => "cfg ops" | MOpsInFn => "ops in one function"
  | MCfgBlocks => "cfg blocks" | MBlocksInFn => "blocks in one function"
  | MCalls => "direct user calls" | MSummary => "summary events"
  | MLiveness => "liveness events"
  end%string.

(* which cap a stage compares its observation with *)
Definition metric_cap (m : metric) : cap_field :=
  match m with
  | MFunctions => CFunctions | MLocals => CLocals | MScopes => CScopes
  | MStatements => CStatements | MCfgOps => CTotalOps | MOpsInFn => COpsPerFn
  | MCfgBlocks => CTotalBlocks | MBlocksInFn => CBlocksPerFn | MCalls => CCalls
  | MSummary => CSummary | MLiveness => CLiveness
  end.

(* the staged order of first_exceeded_limit *)
Definition all_metrics : list metric :=
  [MFunctions; MLocals; MScopes; MStatements; MCfgOps; MOpsInFn; MCfgBlocks; MBlocksInFn; MCalls;
   MSummary; MLiveness].

Definition metric_eqb (a b : metric) : bool :=
  match a, b with
  | MFunctions, MFunctions | MLocals, MLocals | MScopes, MScopes | MStatements, MStatements
  | MCfgOps, MCfgOps | MOpsInFn, MOpsInFn | MCfgBlocks, MCfgBlocks | MBlocksInFn, MBlocksInFn
  | MCalls, MCalls | MSummary, MSummary | MLiveness, MLiveness => true
  | _, _ => false
  end.

Record limit := mkLimit { l_metric : metric; l_observed : Z; l_limit : Z }.

(* ------------------------------------------------------------------------------------ *)
(** * What is measured *)

(* per function (index = FunctionId): counts.function_blocks[i], counts.function_ops[i],
   facts.local_range(i).end - .start (= functions[i].locals_len) *)
Record fn_counts := mkFn { fc_blocks : Z; fc_ops : Z; fc_locals : Z }.

Record counts := mkCounts {
  per_fn : list fn_counts;   (* facts.functions / counts.function_blocks / counts.function_ops:
                                count_program sizes both vectors to facts.functions.len() *)
  n_locals : Z;              (* facts.locals.len() *)
  n_scopes : Z;              (* facts.scopes.len() *)
  n_statements : Z;          (* facts.stmt_effects.len() *)
  n_calls : Z;               (* facts.user_calls.len() *)
  total_ops : Z;             (* counts.total_ops   (u32) *)
  total_blocks : Z           (* counts.total_blocks (u32) *)
}.

Definition n_functions (c : counts) : Z := Z.of_nat (List.length (per_fn c)).

(* `.iter().copied().map(u64::from).max()` : None on an empty vector *)
Definition max_of (f : fn_counts -> Z) (pf : list fn_counts) : option Z :=
  match pf with
  | [] => None
  | x :: r => Some (fold_left (fun m y => Z.max m (f y)) r (f x))
  end.

(* function_count.saturating_mul(function_count.saturating_add(local_count.saturating_mul(2) + 2)) *)
Definition summary_event_bound (fcount lcount : Z) : Z :=
  sat_mul fcount (sat_add fcount (wrap_add (sat_mul lcount 2) 2)).

(* (u64::from(block_count).saturating_mul(2)).saturating_add(u64::from(op_count))
     .saturating_mul(local_count) *)
Definition fn_events (x : fn_counts) : Z :=
  sat_mul (sat_add (sat_mul (fc_blocks x) 2) (fc_ops x)) (fc_locals x).

(* the fold over function_blocks.zip(function_ops).enumerate() *)
Definition liveness_event_bound (pf : list fn_counts) : Z :=
  fold_left (fun events x => sat_add events (fn_events x)) pf 0.

(* The Rust operations the two definitions above stand for, in the textual order of the source
   (integer types: return type, casts, `T::from`, typed literals; then the arithmetic
   operations).  LimitsProofs ties these lists to the ones the translator reads from limits.rs,
   so a bound computed in another width or with unchecked operators no longer re-checks. *)
Definition summary_bound_types_modelled : list string := ["u64"; "u64"; "u64"]%string.
Definition summary_bound_ops_modelled : list string :=
  ["saturating_mul"; "saturating_add"; "saturating_mul"; "+"]%string.
Definition liveness_bound_types_modelled : list string :=
  ["u64"; "u64"; "u32"; "u64"; "u64"; "u64"]%string.
Definition liveness_bound_ops_modelled : list string :=
  ["-"; "saturating_mul"; "saturating_add"; "saturating_add"; "saturating_mul"]%string.

(* Runtime::run_with_analysis as modelled: the binding facts and the plan option are installed
   unconditionally (no branch on the plan), the program runs, both are cleared. *)
Definition run_with_analysis_modelled : list string :=
  ["self.facts = Some(NonNull::from(facts))";
   "self.optimization_plan = optimization_plan.map(NonNull::from)";
   "self.run_inner(root)";
   "self.facts = None";
   "self.optimization_plan = None";
   "&self.errors"]%string.

(* summary.rs as modelled below ([note_event], [push_unique_bounded], [sstep]): which functions
   charge the budget, and the source text of the charging functions; and every reference to the
   caps outside limits.rs (the preflight gate and the one run-time budget) *)
Definition budget_charge_sites_modelled : list (string * Z) :=
  [("summarize_component", 1); ("push_unique_bounded", 1)]%string.
Definition note_event_modelled : string :=
  "if self.remaining_events == 0 { return Err(BudgetExceeded); } self.remaining_events -= 1; Ok(())"%string.
Definition push_unique_bounded_modelled : string :=
  "if dst.contains(&item) { return Ok(false); } budget.note_event()?; dst.push(item); Ok(true)"%string.
Definition class_charge_guard_modelled : string :=
  "caller_summary.transitive_class != transitive_class"%string.
Definition caps_users_modelled : list (string * list string) :=
  [("src/analysis/summary.rs", ["DEFAULT_CAPS.max_summary_events"]);
   ("src/resolver.rs", ["limits::DEFAULT_CAPS"; "limits::first_exceeded_limit"])]%string.

(* the same two bounds in unbounded arithmetic *)
Definition summary_exact (fcount lcount : Z) : Z := fcount * (fcount + (lcount * 2 + 2)).
Definition fn_events_exact (x : fn_counts) : Z := (fc_blocks x * 2 + fc_ops x) * fc_locals x.
Definition liveness_exact (pf : list fn_counts) : Z :=
  fold_left (fun events x => events + fn_events_exact x) pf 0.

(* what each stage observes; None = the stage is skipped (`if let Some(..) = ...max()`) *)
Definition observed (c : counts) (m : metric) : option Z :=
  match m with
  | MFunctions => Some (n_functions c)
  | MLocals => Some (n_locals c)
  | MScopes => Some (n_scopes c)
  | MStatements => Some (n_statements c)
  | MCfgOps => Some (total_ops c)
  | MOpsInFn => max_of fc_ops (per_fn c)
  | MCfgBlocks => Some (total_blocks c)
  | MBlocksInFn => max_of fc_blocks (per_fn c)
  | MCalls => Some (n_calls c)
  | MSummary => Some (summary_event_bound (n_functions c) (n_locals c))
  | MLiveness => Some (liveness_event_bound (per_fn c))
  end.

(* ------------------------------------------------------------------------------------ *)
(** * first_exceeded_limit *)

Definition exceeds (obs cap : Z) : bool := cap <? obs.      (* `observed > limit` *)

Definition stage (m : metric) (obs : option Z) (cap : Z) (rest : option limit) : option limit :=
  match obs with
  | Some o => if exceeds o cap then Some (mkLimit m o cap) else rest
  | None => rest
  end.

Definition first_exceeded_from (ms : list metric) (c : counts) (k : caps) : option limit :=
  fold_right (fun m rest => stage m (observed c m) (cap_value k (metric_cap m)) rest) None ms.

Definition first_exceeded_limit (c : counts) (k : caps) : option limit :=
  first_exceeded_from all_metrics c k.

(* a stage trips *)
Definition trips (c : counts) (k : caps) (m : metric) : bool :=
  match observed c m with
  | Some o => exceeds o (cap_value k (metric_cap m))
  | None => false
  end.

(* the unchecked `+ 2` of summary_event_bound: would it overflow for this many locals? *)
Definition summary_add_overflows (lcount : Z) : bool := add_overflows (sat_mul lcount 2) 2.

(* counts whose components are values of the Rust types they have in the implementation *)
Definition fn_wf (x : fn_counts) : Prop :=
  0 <= fc_blocks x <= u32_max /\ 0 <= fc_ops x <= u32_max /\ 0 <= fc_locals x <= u32_max.

Definition counts_wf (c : counts) : Prop :=
  Forall fn_wf (per_fn c) /\
  0 <= n_locals c <= u64_max /\ 0 <= n_scopes c <= u64_max /\ 0 <= n_statements c <= u64_max /\
  0 <= n_calls c <= u64_max /\ 0 <= total_ops c <= u32_max /\ 0 <= total_blocks c <= u32_max /\
  n_functions c <= u64_max.

(* what count_program and the resolver guarantee about real programs *)
Definition sum_of (f : fn_counts -> Z) (pf : list fn_counts) : Z :=
  fold_left (fun a x => a + f x) pf 0.

Definition counts_consistent (c : counts) : Prop :=
  total_ops c = sum_of fc_ops (per_fn c) /\
  total_blocks c = sum_of fc_blocks (per_fn c) /\
  total_ops c = n_statements c /\
  Forall (fun x => fc_locals x <= n_locals c) (per_fn c).

(* ------------------------------------------------------------------------------------ *)
(** * The gate in Resolver::emit_analysis_warnings *)

Inductive severity := SevError | SevWarning | SevNote.

Inductive wkind := WUnreachable | WUnusedAssignment | WUnusedVariable | WUnusedFunction.

Inductive diag :=
| DEarlier (sev : severity) (code : Z)   (* emitted by check_block before the analyses *)
| DResourceLimit (l : limit)             (* Severity::Warning, category "analysis" *)
| DAnalysis (w : wkind) (stmt : Z).      (* Severity::Warning, category "semantic" *)

Definition diag_severity (d : diag) : severity :=
  match d with DEarlier s _ => s | _ => SevWarning end.

Definition is_error (d : diag) : bool :=
  match diag_severity d with SevError => true | _ => false end.

(* Diagnostics::has_errors negated: the program goes on to the runtime *)
Definition accepted (ds : list diag) : bool := negb (existsb is_error ds).

Definition is_resource_limit (d : diag) : bool :=
  match d with DResourceLimit _ => true | _ => false end.
Definition is_analysis_warning (d : diag) : bool :=
  match d with DAnalysis _ _ => true | _ => false end.

Record plan := mkPlan { removable_stmts : list Z; removable_fns : list Z }.

(* what the staged analyses would compute for this program (abstract inputs): the four warning
   lists by statement id, in the order the resolver concatenates them, and the plan *)
Record analysis := mkAnalysis {
  a_unreachable : list Z;
  a_unused_assignments : list Z;
  a_unused_variables : list Z;
  a_unused_functions : list Z;
  a_plan : plan
}.

Definition warning_records (a : analysis) : list (wkind * Z) :=
  map (pair WUnreachable) (a_unreachable a) ++
  map (pair WUnusedAssignment) (a_unused_assignments a) ++
  map (pair WUnusedVariable) (a_unused_variables a) ++
  map (pair WUnusedFunction) (a_unused_functions a).

(* warnings.sort_by_key(|w| w.stmt_id.0): stable *)
Fixpoint insert_by_stmt (x : wkind * Z) (l : list (wkind * Z)) : list (wkind * Z) :=
  match l with
  | [] => [x]
  | y :: r => if snd y <? snd x then y :: insert_by_stmt x r else x :: y :: r
  end.

Definition sort_by_stmt (l : list (wkind * Z)) : list (wkind * Z) :=
  fold_right insert_by_stmt [] l.

Definition analysis_diags (a : analysis) : list diag :=
  map (fun r => DAnalysis (fst r) (snd r)) (sort_by_stmt (warning_records a)).

(* (Resolver.errors afterwards, Resolver.optimization_plan afterwards) *)
Definition emit_analysis_warnings_with (k : caps) (earlier : list diag) (c : counts) (a : analysis)
  : list diag * option plan :=
  match first_exceeded_limit c k with
  | Some l => (earlier ++ [DResourceLimit l], None)
  | None => (earlier ++ analysis_diags a, Some (a_plan a))
  end.

Definition emit_analysis_warnings := emit_analysis_warnings_with default_caps.

(* ------------------------------------------------------------------------------------ *)
(** * The summary budget of summary.rs *)

(* SummaryBudget::note_event *)
Definition note_event (remaining : Z) : option Z :=
  if remaining =? 0 then None else Some (remaining - 1).

Fixpoint note_events (n : nat) (remaining : Z) : option Z :=
  match n with
  | O => Some remaining
  | S n' => match note_event remaining with Some r => note_events n' r | None => None end
  end.

(* ------------------------------------------------------------------------------------ *)
(** * Run-time accounting of the summary fixpoint (summary.rs) *)

(* What the fixpoint stores per function: transitive callees (function ids), transitive capture
   reads and writes (local ids) and the steps of transitive_class above PureNoTrap
   (1 = PureMayTrap, 2 = Impure).  One duplicate-free table of entries (kind, owner, item). *)
Inductive skind := KCallee | KRead | KWrite | KClass.

Definition skind_eqb (a b : skind) : bool :=
  match a, b with
  | KCallee, KCallee | KRead, KRead | KWrite, KWrite | KClass, KClass => true
  | _, _ => false
  end.

Record sentry := mkEntry { e_kind : skind; e_owner : nat; e_item : nat }.

Definition sentry_eqb (a b : sentry) : bool :=
  skind_eqb (e_kind a) (e_kind b) && Nat.eqb (e_owner a) (e_owner b) && Nat.eqb (e_item a) (e_item b).

Definition smem (x : sentry) (g : list sentry) : bool := existsb (sentry_eqb x) g.

(* push_unique_bounded: `if dst.contains(&item) { return Ok(false); } budget.note_event()?;
   dst.push(item); Ok(true)` — the membership test comes first, only an insertion is charged *)
Definition push_unique_bounded (g : list sentry) (x : sentry) (budget : Z)
  : option (list sentry * Z) :=
  if smem x g then Some (g, budget)
  else match note_event budget with
       | None => None                          (* Err(BudgetExceeded) *)
       | Some b => Some (g ++ [x], b)
       end.

(* the class of a function as recorded so far *)
Definition class_level (g : list sentry) (f : nat) : nat :=
  if smem (mkEntry KClass f 2) g then 2 else if smem (mkEntry KClass f 1) g then 1 else 0.

(* one step of summarize_component as far as the budget is concerned *)
Inductive sop :=
| OPush (k : skind) (owner item : nat)       (* extend_unique -> push_unique_bounded *)
| OClass (owner new_level : nat).            (* `if transitive_class != joined { note_event()?; .. }` *)

Definition sstep (g : list sentry) (budget : Z) (o : sop) : option (list sentry * Z) :=
  match o with
  | OPush k f i => push_unique_bounded g (mkEntry k f i) budget
  | OClass f n =>
      (* the joined class never decreases; a change is charged once *)
      if Nat.ltb (class_level g f) n then push_unique_bounded g (mkEntry KClass f n) budget
      else Some (g, budget)
  end.

Fixpoint srun (ops : list sop) (g : list sentry) (budget : Z) : option (list sentry * Z) :=
  match ops with
  | [] => Some (g, budget)
  | o :: r => match sstep g budget o with Some (g', b') => srun r g' b' | None => None end
  end.

(* entries a program with F functions and L locals can ever store *)
Definition sentry_ok (F L : nat) (x : sentry) : Prop :=
  (e_owner x < F)%nat /\
  match e_kind x with
  | KCallee => (e_item x < F)%nat
  | KRead | KWrite => (e_item x < L)%nat
  | KClass => (1 <= e_item x <= 2)%nat
  end.

Definition sop_ok (F L : nat) (o : sop) : Prop :=
  match o with
  | OPush KClass _ _ => False
  | OPush k f i => sentry_ok F L (mkEntry k f i)
  | OClass f n => (f < F)%nat /\ (n <= 2)%nat
  end.

(* the same steps when the charge is made before the membership test (every probe is charged):
   NOT what summary.rs does; kept to show that the order matters *)
Definition push_probe_charged (g : list sentry) (x : sentry) (budget : Z)
  : option (list sentry * Z) :=
  match note_event budget with
  | None => None
  | Some b => if smem x g then Some (g, b) else Some (g ++ [x], b)
  end.

(* ------------------------------------------------------------------------------------ *)
(** * The runtime's use of the plan *)

Definition mem_z (x : Z) (l : list Z) : bool := existsb (Z.eqb x) l.

(* Runtime::stmt_is_pruned: [bound] is bound_stmt_id(stmt) *)
Definition stmt_is_pruned (p : option plan) (bound : option Z) : bool :=
  match bound with
  | None => false
  | Some id => match p with Some pl => mem_z id (removable_stmts pl) | None => false end
  end.

(* Runtime::function_is_pruned *)
Definition function_is_pruned (p : option plan) (id : Z) : bool :=
  match p with Some pl => mem_z id (removable_fns pl) | None => false end.

(* exec_block_with_flow / hoist_block_functions reduced to their use of the plan: statements
   for which stmt_is_pruned holds are skipped, function definitions for which
   function_is_pruned holds are not registered.  [step] and [register] stand for exec_stmt and
   register_function's insertion; they never see the plan. *)
Section RuntimeSkeleton.
  Context {state stmt_t : Type}.
  Context (stmt_id : stmt_t -> option Z) (fn_id : stmt_t -> option Z).
  Context (step : stmt_t -> state -> state) (register : stmt_t -> state -> state).

  Definition hoist (p : option plan) (b : list stmt_t) (s : state) : state :=
    fold_left (fun s st =>
      match fn_id st with
      | Some id => if function_is_pruned p id then s else register st s
      | None => s
      end) b s.

  Definition exec_block (p : option plan) (b : list stmt_t) (s : state) : state :=
    fold_left (fun s st => if stmt_is_pruned p (stmt_id st) then s else step st s) b (hoist p b s).

  (* the interpreter without any pruning *)
  Definition exec_block_unoptimised (b : list stmt_t) (s : state) : state :=
    fold_left (fun s st => step st s) b
      (fold_left (fun s st => match fn_id st with Some _ => register st s | None => s end) b s).
End RuntimeSkeleton.

(* ------------------------------------------------------------------------------------ *)
(** * Program shapes: what the resolver's tables and count_program measure *)

(* Only what the counters look at: statement kinds, nesting, how many locals a statement
   declares and how many direct user-call expressions it contains. *)
Inductive stmt :=
| SDecl (calls : Z)       (* `make x get e`, x not yet declared in the current block *)
| SSimple (calls : Z)     (* AssignExisting / AssignIndex / Expression / re-declaring Assign *)
| SReturn (calls : Z)
| SBreak
| SContinue
| SBlock (body : list stmt)
| SIf (calls : Z) (then_b : list stmt) (has_else : bool) (else_b : list stmt)
| SLoop (calls : Z) (body : list stmt)
| SFn (params : Z) (body : list stmt).

(* CountFunctionBuilder: (self.blocks, self.ops, cursor.has_block) *)
Record cstate := mkC { cs_blocks : Z; cs_ops : Z; cs_has : bool }.

Definition c_ensure (s : cstate) : cstate :=
  if cs_has s then s else mkC (cs_blocks s + 1) (cs_ops s) true.
Definition c_new_blocks (n : Z) (s : cstate) : cstate := mkC (cs_blocks s + n) (cs_ops s) (cs_has s).
Definition c_set_has (h : bool) (s : cstate) : cstate := mkC (cs_blocks s) (cs_ops s) h.
Definition c_op (s : cstate) : cstate := mkC (cs_blocks s) (cs_ops s + 1) (cs_has s).

(* CountFunctionBuilder::count_stmt (a nested function's body is not entered) *)
Fixpoint count_stmt (st : stmt) (s0 : cstate) : cstate :=
  let s := c_op s0 in
  match st with
  | SDecl _ | SSimple _ | SFn _ _ => c_ensure s
  | SReturn _ | SBreak | SContinue => c_set_has false (c_ensure s)
  | SBlock body =>
      (fix go (l : list stmt) (s : cstate) : cstate :=
         match l with [] => s | x :: r => go r (count_stmt x s) end) body (c_ensure s)
  | SIf _ t he e =>
      let s1 := c_new_blocks 2 (c_ensure s) in
      let st :=
        (fix go (l : list stmt) (s : cstate) : cstate :=
           match l with [] => s | x :: r => go r (count_stmt x s) end) t (c_set_has true s1) in
      let se :=
        if he then
          (fix go (l : list stmt) (s : cstate) : cstate :=
             match l with [] => s | x :: r => go r (count_stmt x s) end) e (c_set_has true st)
        else c_set_has true st in
      if cs_has st || cs_has se then c_set_has true (c_new_blocks 1 se) else c_set_has false se
  | SLoop _ body =>
      let s1 := c_new_blocks 3 (c_ensure s) in
      c_set_has true
        ((fix go (l : list stmt) (s : cstate) : cstate :=
            match l with [] => s | x :: r => go r (count_stmt x s) end) body (c_set_has true s1))
  end.

Definition count_block (l : list stmt) (s : cstate) : cstate :=
  fold_left (fun s x => count_stmt x s) l s.

(* CountFunctionBuilder::count: entry and exit block, then the body *)
Definition count_body (body : list stmt) : Z * Z :=
  let s := count_block body (mkC 2 0 true) in (cs_blocks s, cs_ops s).

(* every local declared inside a statement: declarations and parameters, nested functions
   included (each gets the next LocalId in traversal order) *)
Fixpoint total_locals (st : stmt) : Z :=
  match st with
  | SDecl _ => 1
  | SBlock b | SLoop _ b =>
      (fix go (l : list stmt) : Z := match l with [] => 0 | x :: r => total_locals x + go r end) b
  | SFn p b =>
      p + (fix go (l : list stmt) : Z := match l with [] => 0 | x :: r => total_locals x + go r end) b
  | SIf _ t he e =>
      (fix go (l : list stmt) : Z := match l with [] => 0 | x :: r => total_locals x + go r end) t +
      (if he then
         (fix go (l : list stmt) : Z := match l with [] => 0 | x :: r => total_locals x + go r end) e
       else 0)
  | _ => 0
  end.

Definition total_locals_block (l : list stmt) : Z := fold_left (fun a x => a + total_locals x) l 0.

(* The LocalId range of one function (facts.local_range): from its first to its latest own
   local; the locals of a nested function are numbered in between (the nested body is resolved
   at its definition statement) and therefore fall inside the range.  State: next id relative
   to the function's first parameter, lowest own id (-1: none yet), highest own id. *)
Record lspan := mkSpan { ls_next : Z; ls_lo : Z; ls_hi : Z }.

Fixpoint walk_span (st : stmt) (s : lspan) : lspan :=
  match st with
  | SDecl _ => mkSpan (ls_next s + 1) (if ls_lo s <? 0 then ls_next s else ls_lo s) (ls_next s)
  | SFn p b =>
      mkSpan (ls_next s + p +
              (fix go (l : list stmt) : Z := match l with [] => 0 | x :: r => total_locals x + go r end) b)
             (ls_lo s) (ls_hi s)
  | SBlock b | SLoop _ b =>
      (fix go (l : list stmt) (s : lspan) : lspan :=
         match l with [] => s | x :: r => go r (walk_span x s) end) b s
  | SIf _ t he e =>
      let s1 := (fix go (l : list stmt) (s : lspan) : lspan :=
                   match l with [] => s | x :: r => go r (walk_span x s) end) t s in
      if he then
        (fix go (l : list stmt) (s : lspan) : lspan :=
           match l with [] => s | x :: r => go r (walk_span x s) end) e s1
      else s1
  | _ => s
  end.

Definition local_range_len (params : Z) (body : list stmt) : Z :=
  let s := fold_left (fun s x => walk_span x s) body
             (mkSpan params (if 0 <? params then 0 else -1) (params - 1)) in
  if ls_lo s <? 0 then 0 else ls_hi s - ls_lo s + 1.

(* statements (push_stmt_effect calls), all functions together *)
Fixpoint stmts_in (st : stmt) : Z :=
  1 + match st with
      | SBlock b | SLoop _ b | SFn _ b =>
          (fix go (l : list stmt) : Z := match l with [] => 0 | x :: r => stmts_in x + go r end) b
      | SIf _ t he e =>
          (fix go (l : list stmt) : Z := match l with [] => 0 | x :: r => stmts_in x + go r end) t +
          (if he then
             (fix go (l : list stmt) : Z := match l with [] => 0 | x :: r => stmts_in x + go r end) e
           else 0)
      | _ => 0
      end.

(* lexical scopes (push_scope calls): one per block, two per function (parameters + body) *)
Fixpoint scopes_in (st : stmt) : Z :=
  match st with
  | SBlock b | SLoop _ b =>
      1 + (fix go (l : list stmt) : Z := match l with [] => 0 | x :: r => scopes_in x + go r end) b
  | SFn _ b =>
      2 + (fix go (l : list stmt) : Z := match l with [] => 0 | x :: r => scopes_in x + go r end) b
  | SIf _ t he e =>
      1 + (fix go (l : list stmt) : Z := match l with [] => 0 | x :: r => scopes_in x + go r end) t +
      (if he then
         1 + (fix go (l : list stmt) : Z := match l with [] => 0 | x :: r => scopes_in x + go r end) e
       else 0)
  | _ => 0
  end.

(* direct user-call expressions (record_user_call, one per call expression) *)
Fixpoint calls_in (st : stmt) : Z :=
  match st with
  | SDecl c | SSimple c | SReturn c => c
  | SBreak | SContinue => 0
  | SBlock b | SFn _ b =>
      (fix go (l : list stmt) : Z := match l with [] => 0 | x :: r => calls_in x + go r end) b
  | SLoop c b =>
      c + (fix go (l : list stmt) : Z := match l with [] => 0 | x :: r => calls_in x + go r end) b
  | SIf c t he e =>
      c + (fix go (l : list stmt) : Z := match l with [] => 0 | x :: r => calls_in x + go r end) t +
      (if he then
         (fix go (l : list stmt) : Z := match l with [] => 0 | x :: r => calls_in x + go r end) e
       else 0)
  end.

Definition sum_block (f : stmt -> Z) (l : list stmt) : Z := fold_left (fun a x => a + f x) l 0.

Definition fn_entry (params : Z) (body : list stmt) : fn_counts :=
  let bo := count_body body in mkFn (fst bo) (snd bo) (local_range_len params body).

(* functions predeclared by one block, in FunctionId order *)
Definition direct_fns (l : list stmt) : list fn_counts :=
  flat_map (fun s => match s with SFn p b => [fn_entry p b] | _ => [] end) l.

(* functions declared inside one statement, in FunctionId order: check_block predeclares the
   block's own function definitions first and then visits the statements in order *)
Fixpoint nested_fns (st : stmt) : list fn_counts :=
  match st with
  | SBlock b | SLoop _ b | SFn _ b =>
      direct_fns b ++
      (fix go (l : list stmt) : list fn_counts :=
         match l with [] => [] | x :: r => nested_fns x ++ go r end) b
  | SIf _ t he e =>
      (direct_fns t ++
       (fix go (l : list stmt) : list fn_counts :=
          match l with [] => [] | x :: r => nested_fns x ++ go r end) t) ++
      (if he then
         direct_fns e ++
         (fix go (l : list stmt) : list fn_counts :=
            match l with [] => [] | x :: r => nested_fns x ++ go r end) e
       else [])
  | _ => []
  end.

Definition program_fns (root : list stmt) : list fn_counts :=
  fn_entry 0 root :: direct_fns root ++ flat_map nested_fns root.

(* the counts the preflight sees for a program of this shape *)
Definition counts_of_program (root : list stmt) : counts :=
  let pf := program_fns root in
  mkCounts pf
           (sum_block total_locals root)
           (1 + sum_block scopes_in root)
           (sum_block stmts_in root)
           (sum_block calls_in root)
           (sum_of fc_ops pf)
           (sum_of fc_blocks pf).

Definition program_limit (root : list stmt) : option limit :=
  first_exceeded_limit (counts_of_program root) default_caps.

(* ------------------------------------------------------------------------------------ *)
(** * Effective thresholds *)

(* smallest number of functions whose summary bound exceeds [cap] when the program has
   [lcount] locals:  f * (f + 2 l + 2) > cap  <->  f >= sqrt (cap + (l+1)^2) - l *)
Definition summary_fn_threshold (cap lcount : Z) : Z :=
  Z.sqrt (cap + (lcount + 1) * (lcount + 1)) - lcount.

(* n user functions with empty bodies and no parameters next to a root function with
   [root_ops] statements (the n definitions among them), [root_blocks] blocks and
   [root_locals] locals *)
Definition empty_functions_counts (n : nat) (root_blocks root_ops root_locals extra_scopes calls : Z) : counts :=
  mkCounts (mkFn root_blocks root_ops root_locals :: repeat (mkFn 2 0 0) n)
           root_locals (1 + 2 * Z.of_nat n + extra_scopes) root_ops calls root_ops
           (root_blocks + 2 * Z.of_nat n).

(* ------------------------------------------------------------------------------------ *)
(** * Wire helpers for the model executable (decimal <-> Z without OCaml bignums) *)

Definition z_of_digits (ds : list Z) : Z := fold_left (fun a d => a * 10 + d) ds 0.

Fixpoint digits_of_z_aux (fuel : nat) (z : Z) (acc : list Z) : list Z :=
  match fuel with
  | O => acc
  | S f => if z <? 10 then z :: acc else digits_of_z_aux f (z / 10) (z mod 10 :: acc)
  end.
Definition digits_of_z (z : Z) : list Z := digits_of_z_aux 80 z [].

Definition metric_index (m : metric) : Z :=
  match m with
  | MFunctions => 0 | MLocals => 1 | MScopes => 2 | MStatements => 3 | MCfgOps => 4
  | MOpsInFn => 5 | MCfgBlocks => 6 | MBlocksInFn => 7 | MCalls => 8 | MSummary => 9
  | MLiveness => 10
  end.

(* ------------------------------------------------------------------------------------ *)
(** * A fixed configuration for worked examples *)

(* The values DEFAULT_CAPS had when this model was written.  Used only by Examples that quote
   concrete numbers, so that an edited constant re-checks every theorem (they are stated for
   [default_caps] or for arbitrary caps) without invalidating a worked example. *)
Definition caps_snapshot : caps :=
  mkCaps 16384 131072 131072 262144 262144 262144 524288 65536 262144 16777216 33554432.

Definition caps_eqb (a b : caps) : bool :=
  forallb (fun f => cap_value a f =? cap_value b f) all_cap_fields.
