(* LiveCheck — C03, round 2: a checker for FLOW-SENSITIVE DEAD STORES.

   PlanCheck.v covers the plan entries that are dead for a flow-insensitive reason
   (unreachable, unused function, local that is read nowhere).  This file adds the class the
   real analysis finds with its backward liveness (src/analysis/liveness.rs): an assignment
   (or a re-declaration in the same scope) whose value is overwritten before it is read along
   every path.  Nothing of liveness.rs / cfg.rs / summary.rs is transcribed; instead a
   backward liveness is defined here directly on the structured AST of Lang.v:

     make/assignment x = e    live_before = (live_after - {x}) + reads(e)      (x a local
                              of the running activation; an assignment to a captured
                              variable kills nothing)
     if                       reads(cond) + both branches
     jasi                     a set H with  H >= live_after + reads(cond) + body(H)
                              (computed by iteration, then CHECKED to be a post-fixpoint)
     return                   reads(e): the activation's scopes are dropped
     comot / next             the live set after the loop / at the loop head
     call f(..)               reads(args) + R(f), where R(f) is every local id the execution
                              of f can read (its own reads and those of its callees: a table
                              that is checked to be closed); a callee's WRITES are never a kill
     x[i] = e, push/pop/reverse on x, {x} in strings: reads of x.

   `ds_ok prog pa acc` checks that every statement of plan `pa` whose id is in `acc` is a
   store `x = e` to a local of the running activation that already has its slot, with x not
   live after it and e a total pure expression (PlanCheck.pure_total).  The theorem
   (proofs/LiveProofs.v) is: the run with plan pa equals the run with plan pa - acc.

   Per-scope bookkeeping `Ds` (ids declared so far in each open scope of the running
   activation, innermost first) is syntactic; it is what makes "kill" sound (one slot per id
   in the activation) and what guarantees that a pruned store would have hit a slot of its
   own activation and not one of a caller (lookups are id-directed through the whole
   dynamic scope chain).

   Definitions only; no proofs. *)
From Coq Require Import ZArith List Bool.
Require Import NS.theories.F64 NS.theories.StrLib NS.theories.Lang NS.theories.PlanCheck.
Import ListNotations.
Open Scope Z_scope.

Definition lset := list Z.

Definition subset (a b : lset) : bool := forallb (fun i => memz i b) a.
Definition remove1 (x : Z) (l : lset) : lset := filter (fun i => negb (i =? x)) l.

Definition lunion (a b : lset) : lset := a ++ filter (fun i => negb (memz i a)) b.
Definition minus_ids (a : lset) (Ds : list lset) : lset :=
  filter (fun i => negb (memz i (concat Ds))) a.

Fixpoint nodupb (l : lset) : bool :=
  match l with
  | [] => true
  | x :: r => negb (memz x r) && nodupb r
  end.

(* ---------- read summaries ---------- *)
Definition rtab := list (Z * lset).

Fixpoint rt_get (rt : rtab) (f : Z) : option lset :=
  match rt with
  | [] => None
  | (g, r) :: rest => if g =? f then Some r else rt_get rest f
  end.

Definition seg_ids (sg : seg) : lset :=
  match sg with SegLit _ => [] | SegVar _ l => oid l end.

(* every local id the evaluation of e can read, calls included *)
Fixpoint rdx (rt : rtab) (e : expr) : lset :=
  match e with
  | ENum _ | EStr _ | EBool _ | ENull => []
  | EInterp segs => flat_map seg_ids segs
  | EVar _ l => oid l
  | EBin _ a b => rdx rt a ++ rdx rt b
  | EUn _ a => rdx rt a
  | EArr es => flat_map (rdx rt) es
  | EIdx a i => rdx rt a ++ rdx rt i
  | EMember _ _ => []
  | ECall callee args target =>
      flat_map (rdx rt) args ++
      match callee with
      | EMember o _ => rdx rt o
      | EVar f _ =>
          match global_builtin f with
          | Some _ => []
          | None => match target with
                    | Some t => match rt_get rt t with Some r => r | None => [] end
                    | None => []
                    end
          end
      | _ => []
      end
  end.

Definition seg_sup (sg : seg) : bool :=
  match sg with SegLit _ => true | SegVar _ (Some _) => true | SegVar _ None => false end.

(* supported: every variable is id-directed, every user call has a bound target with a summary *)
Fixpoint expr_sup (rt : rtab) (e : expr) : bool :=
  match e with
  | ENum _ | EStr _ | EBool _ | ENull => true
  | EInterp segs => forallb seg_sup segs
  | EVar _ (Some _) => true
  | EVar _ None => false
  | EBin _ a b => expr_sup rt a && expr_sup rt b
  | EUn _ a => expr_sup rt a
  | EArr es => forallb (expr_sup rt) es
  | EIdx a i => expr_sup rt a && expr_sup rt i
  | EMember _ _ => true
  | ECall callee args target =>
      forallb (expr_sup rt) args &&
      match callee with
      | EMember o _ => expr_sup rt o
      | EVar f _ =>
          match global_builtin f with
          | Some _ => true
          | None => match target with
                    | Some t => match rt_get rt t with Some _ => true | None => false end
                    | None => false
                    end
          end
      | _ => true
      end
  end.

(* ESCAPING reads of a block: the ids its execution (callees included, nested function
   bodies excluded: they are separate activations) can look up while the running activation
   has no slot for them - those lookups continue into the scopes of the callers.  Only used
   to BUILD the summary table; the checker re-verifies every entry it relies on. *)
Fixpoint esc_stmt (pa : plan) (rt : rtab) (Ds : list lset) (t : stmt) {struct t} : lset :=
  let blk := fix blk (Ds : list lset) (b : list stmt) {struct b} : lset :=
    match b with
    | [] => []
    | x :: r =>
        if in_plan_stmt pa (stmt_sid x) then blk Ds r
        else esc_stmt pa rt Ds x ++ blk (decl1 Ds x) r
    end in
  let ex := fun e => minus_ids (rdx rt e) Ds in
  match t with
  | SFun _ _ _ _ _ _ _ => []
  | SMake _ _ _ e | SSet _ _ _ e | SExpr _ e | SRet _ (Some e) => ex e
  | SSetIdx _ tg e => ex tg ++ ex e
  | SIf _ c th el =>
      ex c ++ blk ([] :: Ds) th ++ match el with Some b => blk ([] :: Ds) b | None => [] end
  | SLoop _ c b => ex c ++ blk ([] :: Ds) b
  | SBlock _ b => blk ([] :: Ds) b
  | SRet _ None | SBreak _ | SNext _ => []
  end.

Fixpoint esc_stmts (pa : plan) (rt : rtab) (Ds : list lset) (b : list stmt) {struct b} : lset :=
  match b with
  | [] => []
  | x :: r =>
      if in_plan_stmt pa (stmt_sid x) then esc_stmts pa rt Ds r
      else esc_stmt pa rt Ds x ++ esc_stmts pa rt (decl1 Ds x) r
  end.
Definition esc_block (pa : plan) (rt : rtab) (Ds : list lset) (b : list stmt) : lset :=
  nodup Z.eq_dec (esc_stmts pa rt ([] :: Ds) b).

(* (function id, parameter ids, body) of every definition in the program *)
Definition fn_bodies (prog : list stmt) : list (Z * (lset * list stmt)) :=
  flat_map (fun t => match t with
                     | SFun _ _ ps body (Some f) ls _ => [(f, (param_ids ls ps 0 [], body))]
                     | _ => []
                     end) (all_stmts_block prog).

Fixpoint rt_iter (pa : plan) (n : nat) (fb : list (Z * (lset * list stmt))) (rt : rtab) : rtab :=
  match n with
  | O => rt
  | S k => rt_iter pa k fb
             (map (fun p => (fst p, esc_block pa rt [fst (snd p)] (snd (snd p)))) fb)
  end.

Definition mk_rt (pa : plan) (prog : list stmt) : rtab :=
  let fb := fn_bodies prog in
  rt_iter pa (S (length fb)) fb (map (fun p => (fst p, [])) fb).

(* ---------- the checker ---------- *)
Record dctx := {
  d_pa : plan;            (* the plan under test *)
  d_acc : list Z;         (* ids of the statements of d_pa that the other plan executes *)
  d_rt : rtab;            (* read summaries *)
  d_n : nat;              (* iteration bound for loop heads *)
  d_calls : bool;         (* round 4: right-hand sides may call the functions of d_pt *)
  d_pt : list Z           (* functions whose bodies are pure and trap-free (PlanCheck.pf_stmts) *)
}.

Definition in_acc (c : dctx) (sid : option Z) : bool :=
  match sid with Some i => memz i (d_acc c) | None => false end.

(* the plan of the other run: d_pa without the accepted dead stores *)
Definition pb_of (c : dctx) : plan :=
  match d_pa c with
  | Some (ss, fs) => Some (filter (fun i => negb (memz i (d_acc c))) ss, fs)
  | None => None
  end.

(* flow context inside one activation *)
Record fctx := {
  f_R : lset;             (* what this activation (callees included) can look up in its callers' scopes *)
  f_brk : lset;           (* live after the innermost enclosing loop *)
  f_next : lset           (* live at its head *)
}.

Definition echk (c : dctx) (fc : fctx) (Ds : list lset) (e : expr) : bool :=
  expr_sup (d_rt c) e && subset (minus_ids (rdx (d_rt c) e) Ds) (f_R fc).

Definition decl_after (c : dctx) (Ds : list lset) (t : stmt) : list lset :=
  if in_plan_stmt (d_pa c) (stmt_sid t) then Ds else decl1 Ds t.

(* right-hand side of a dropped store *)
Definition rhs_ok (c : dctx) (e : expr) : bool :=
  if d_calls c then pfe (d_pt c) e else pure_total e.

(* a statement of d_acc: executed by the other run only *)
Definition pruned_store_ok (c : dctx) (Ds : list lset) (La : lset) (t : stmt) : bool :=
  match t with
  | SSet _ _ (Some x) e => memz x (concat Ds) && negb (memz x La) && rhs_ok c e
  | SMake _ _ (Some x) e => memz x (hd [] Ds) && negb (memz x La) && rhs_ok c e
  | _ => false
  end.

(* candidate live set at a loop head: iterate the body's transfer function until nothing is
   added (the result is CHECKED to be a post-fixpoint by tr_stmt, whatever this returns) *)
Fixpoint loop_head (step : lset -> option lset) (n : nat) (H : lset) {struct n} : lset :=
  match n with
  | O => H
  | S n' => match step H with
            | Some B => if subset B H then H else loop_head step n' (lunion H B)
            | None => H
            end
  end.

Definition tr_stmts_with (c : dctx) (trs : fctx -> list lset -> stmt -> lset -> option lset)
           (fc : fctx) : list lset -> list stmt -> lset -> option lset :=
  fix go (Ds : list lset) (ts : list stmt) (La : lset) {struct ts} : option lset :=
  match ts with
  | [] => Some La
  | t :: r =>
      match go (decl_after c Ds t) r La with
      | None => None
      | Some Lm =>
          if in_plan_stmt (d_pa c) (stmt_sid t) then
            if in_acc c (stmt_sid t) then
              if pruned_store_ok c Ds Lm t then Some Lm else None
            else if is_fun t then trs fc Ds t Lm     (* definitions are hoisted even when skipped *)
            else Some Lm
          else trs fc Ds t Lm
      end
  end.

Fixpoint tr_stmt (c : dctx) (fc : fctx) (Ds : list lset) (t : stmt) (La : lset) {struct t}
  : option lset :=
  let blk := tr_stmts_with c (tr_stmt c) in
  match t with
  | SMake _ _ (Some x) e =>
      if echk c fc Ds e && negb (memz x (concat (tl Ds))) && negb (Nat.eqb (length Ds) 0)
      then Some (lunion (remove1 x La) (rdx (d_rt c) e)) else None
  | SMake _ _ None _ => None
  | SSet _ _ (Some x) e =>
      if echk c fc Ds e
      then Some (lunion (if memz x (concat Ds) then remove1 x La else La) (rdx (d_rt c) e))
      else None
  | SSet _ _ None _ => None
  | SSetIdx _ tg e =>
      if echk c fc Ds tg && echk c fc Ds e then Some (lunion La (lunion (rdx (d_rt c) tg) (rdx (d_rt c) e))) else None
  | SIf _ cnd th el =>
      if echk c fc Ds cnd then
        match blk fc ([] :: Ds) th La,
              (match el with Some b => blk fc ([] :: Ds) b La | None => Some La end) with
        | Some A, Some B => Some (lunion (rdx (d_rt c) cnd) (lunion A B))
        | _, _ => None
        end
      else None
  | SLoop _ cnd body =>
      if echk c fc Ds cnd then
        let step := fun H => blk {| f_R := f_R fc; f_brk := La; f_next := H |} ([] :: Ds) body H in
        let H := loop_head step (d_n c) (lunion La (rdx (d_rt c) cnd)) in
        match step H with
        | Some B => if subset B H && subset La H && subset (rdx (d_rt c) cnd) H then Some H else None
        | None => None
        end
      else None
  | SBlock _ body => blk fc ([] :: Ds) body La
  | SFun _ _ ps body fid ls _ =>
      if in_plan_fn (d_pa c) fid then Some La
      else match fid with
           | Some f =>
               match rt_get (d_rt c) f with
               | Some R =>
                   if nodupb (param_ids ls ps 0 []) &&
                      (if d_calls c then pf_fun (pb_of c) (d_pt c) fid ls ps body else true) then
                     match blk {| f_R := R; f_brk := []; f_next := [] |}
                               [[]; param_ids ls ps 0 []] body [] with
                     | Some _ => Some La
                     | None => None
                     end
                   else None
               | None => None
               end
           | None => None
           end
  | SRet _ None => Some []
  | SRet _ (Some e) => if echk c fc Ds e then Some (rdx (d_rt c) e) else None
  | SBreak _ => Some (f_brk fc)
  | SNext _ => Some (f_next fc)
  | SExpr _ e => if echk c fc Ds e then Some (lunion La (rdx (d_rt c) e)) else None
  end.

Definition tr_stmts (c : dctx) := tr_stmts_with c (tr_stmt c).
Definition tr_block (c : dctx) (fc : fctx) (Ds : list lset) (b : list stmt) (La : lset) : option lset :=
  tr_stmts c fc ([] :: Ds) b La.

(* every local id mentioned anywhere: bound for the loop-head iteration *)
Definition all_ids (prog : list stmt) : lset :=
  nodup Z.eq_dec (flat_map (fun t => flat_map expr_vars (stmt_exprs t)) (all_stmts_block prog)).

Definition pb_plan (pa : plan) (acc : list Z) : plan :=
  match pa with
  | Some (ss, fs) => Some (filter (fun i => negb (memz i acc)) ss, fs)
  | None => None
  end.

Definition mk_ctx_x (calls : bool) (prog : list stmt) (pa : plan) (acc : list Z) : dctx :=
  {| d_pa := pa; d_acc := acc; d_rt := mk_rt pa prog; d_n := S (S (length (all_ids prog)));
     d_calls := calls; d_pt := if calls then mk_pt (pb_plan pa acc) prog else [] |}.
Definition mk_ctx := mk_ctx_x false.

Definition root_fc (c : dctx) (prog : list stmt) : fctx :=
  {| f_R := esc_block (d_pa c) (d_rt c) [] prog; f_brk := []; f_next := [] |}.

Definition ds_ok_ctx (c : dctx) (prog : list stmt) : bool :=
  match tr_block c (root_fc c prog) [] prog [] with Some _ => true | None => false end.

(* the hypothesis of the soundness theorem *)
Definition ds_ok (prog : list stmt) (pa : plan) (acc : list Z) : bool :=
  ds_ok_ctx (mk_ctx prog pa acc) prog.

(* round 4: the same with right-hand sides that call pure, trap-free user functions *)
Definition ds_ok_x (prog : list stmt) (pa : plan) (acc : list Z) : bool :=
  ds_ok_ctx (mk_ctx_x true prog pa acc) prog.

(* ---------- integration with PlanCheck.plan_ok ---------- *)
(* the entries of the residual plan that the liveness checker accepts one at a time (the
   annotation does not depend on which entries are accepted: every statement of the plan is
   transparent for the backward pass), confirmed by one check of the whole set *)
Definition ds_candidates (prog : list stmt) (pa : plan) : list Z :=
  filter (fun i => ds_ok prog pa [i]) (stmts_of pa).

Record verdict3 := {
  x_main : verdict;               (* PlanCheck.plan_ok: Unreachable / UnusedFn / NeverRead *)
  x_acc : list Z;                 (* residual entries accepted as flow-sensitive dead stores *)
  x_checked : bool;               (* ds_ok of the residual plan with x_acc: hypothesis of the theorem *)
  x_residual : list Z * list Z    (* what remains covered by the oracle only *)
}.

Definition plan_ok3 (prog : list stmt) (ss fs : list Z) : verdict3 :=
  let v := plan_ok prog ss fs in
  let pa := Some (v_residual v) in
  let acc := ds_candidates prog pa in
  let ok := ds_ok prog pa acc in
  let acc' := if ok then acc else [] in
  {| x_main := v; x_acc := acc'; x_checked := ds_ok prog pa acc';
     x_residual := (filter (fun i => negb (memz i acc')) (fst (v_residual v)), snd (v_residual v)) |}.

(* round 4 *)
Definition ds_candidates_x (prog : list stmt) (pa : plan) : list Z :=
  filter (fun i => ds_ok_x prog pa [i]) (stmts_of pa).

Definition plan_ok4 (prog : list stmt) (ss fs : list Z) : verdict3 :=
  let v := plan_ok_x prog ss fs in
  let pa := Some (v_residual v) in
  let acc := ds_candidates_x prog pa in
  let ok := ds_ok_x prog pa acc in
  let acc' := if ok then acc else [] in
  {| x_main := v; x_acc := acc'; x_checked := ds_ok_x prog pa acc';
     x_residual := (filter (fun i => negb (memz i acc')) (fst (v_residual v)), snd (v_residual v)) |}.
