(* Mem.v — executable storage model of NaijaScript run-time values (C02).
   Definitions only; proofs are in proofs/MemProofs.v, statements in Properties/C02.v.

   Regions (src/runtime.rs, src/arena/{bump,pool,cow,string}.rs):
     RStatic  source text / literals / &'static str          never freed
     RPers    the persistent bump arena (`arena`)            never reset, except the staging mark of
                                                             relocate_return_value
     RFrame   the frame bump arena (`frame`)                 reset to a watermark at loop-iteration and
                                                             call boundaries (0xDD poison in debug)
     RPool    the string pool slots (PoolSet on `arena`)     a freed slot is handed to the next allocation
                                                             of its size class, LIFO
   Addresses are per-allocation ("object granular"): the n-th allocation of a bump region has
   address n; `reset m` drops every object with address >= m and later allocations reuse those
   addresses — a reference kept across the reset then reads nothing (poison) or the NEW object.
   A pool slot is identified by a global slot number; its size class is recorded in the slot.
   A Vec backing store is an object `OVec sid`; `sid` is the identity of the allocation (a
   ghost serial): an array value whose store address now holds another allocation is dead.

   Values: `MBorrowed r a len` / `MOwned r a len cap` are ArenaCow::{Borrowed,Owned};
   `MArr r a sid cap items` is Value::Array(Vec) with its backing store at (r,a).
   `erase` reads a value back through the heap (None = poison / out of bounds / freed slot /
   recycled store); when it is `Some`, it returns the CURRENT bytes.

   The evaluator is abstracted to the discipline under which it calls these operations: an
   op-sequence machine (`step`/`run`) whose ops are the value-level events of eval_expr /
   exec_stmt / eval_function_call, constrained as runtime.rs constrains them (`MIll` = a
   sequence the evaluator cannot produce, `MFault` = a read of dead storage or a failed
   allocator precondition).  `astep`/`arun` is the same machine over `Lang.value` with no
   storage at all (the reclamation-free semantics). *)
From Coq Require Import ZArith List Bool Arith.
Require Import NS.theories.Generated NS.theories.Pool NS.theories.F64 NS.theories.Lang.
Import ListNotations.

Inductive region := RStatic | RPers | RFrame | RPool.

Definition region_eqb (a b : region) : bool :=
  match a, b with
  | RStatic, RStatic | RPers, RPers | RFrame, RFrame | RPool, RPool => true
  | _, _ => false
  end.

Inductive obj := OBytes (b : list Z) | OVec (sid : nat).
Inductive cell := Live (b : list Z) | Poison.
Record pslot := mkSlot { ps_class : Z; ps_cell : cell }.

Record heap := mkHeap {
  h_static : list (list Z);
  h_pers : list obj;
  h_frame : list obj;
  h_slots : list pslot;
  h_free : list nat;        (* freed slot numbers, most recently freed first *)
  h_next : nat              (* next store serial *)
}.

Definition empty_heap : heap := mkHeap [] [] [] [] [] 0.

Inductive mvalue :=
| MNum (x : f64) | MBool (b : bool) | MNull
| MBorrowed (r : region) (a len : nat)
| MOwned (r : region) (a len cap : nat)
| MArr (r : region) (a sid cap : nat) (items : list mvalue).

(* ---------- reading ---------- *)
Definition objs (h : heap) (r : region) : list obj :=
  match r with RPers => h_pers h | RFrame => h_frame h | _ => [] end.

Definition check_len (len : nat) (b : list Z) : option (list Z) :=
  if Nat.eqb (length b) len then Some b else None.

Definition read_bytes (h : heap) (r : region) (a len : nat) : option (list Z) :=
  match r with
  | RStatic => match nth_error (h_static h) a with Some b => check_len len b | None => None end
  | RPers | RFrame =>
      match nth_error (objs h r) a with Some (OBytes b) => check_len len b | _ => None end
  | RPool =>
      match nth_error (h_slots h) a with
      | Some (mkSlot _ (Live b)) => check_len len b
      | _ => None
      end
  end.

Definition store_live (h : heap) (r : region) (a sid : nat) : bool :=
  match nth_error (objs h r) a with Some (OVec s) => Nat.eqb s sid | _ => false end.

Fixpoint erase (h : heap) (v : mvalue) {struct v} : option value :=
  match v with
  | MNum x => Some (VNum x)
  | MBool b => Some (VBool b)
  | MNull => Some VNull
  | MBorrowed r a len => option_map VStr (read_bytes h r a len)
  | MOwned r a len _ => option_map VStr (read_bytes h r a len)
  | MArr r a sid _ items =>
      if store_live h r a sid then
        option_map VArr
          ((fix go (l : list mvalue) : option (list value) :=
              match l with
              | [] => Some []
              | x :: t => match erase h x, go t with
                          | Some y, Some ys => Some (y :: ys)
                          | _, _ => None
                          end
              end) items)
      else None
  end.

Definition erase_list (h : heap) : list mvalue -> option (list value) :=
  fix go (l : list mvalue) : option (list value) :=
    match l with
    | [] => Some []
    | x :: t => match erase h x, go t with
                | Some y, Some ys => Some (y :: ys)
                | _, _ => None
                end
    end.

(* ---------- references held by a value ---------- *)
Inductive ref :=
| RefB (owned : bool) (r : region) (a len : nat)      (* string bytes *)
| RefS (r : region) (a sid : nat).                   (* Vec backing store *)

Fixpoint refs (v : mvalue) {struct v} : list ref :=
  match v with
  | MBorrowed r a len => [RefB false r a len]
  | MOwned r a len _ => [RefB true r a len]
  | MArr r a sid _ items =>
      RefS r a sid ::
      (fix go (l : list mvalue) : list ref :=
         match l with [] => [] | x :: t => refs x ++ go t end) items
  | _ => []
  end.

Definition refs_list : list mvalue -> list ref :=
  fix go (l : list mvalue) : list ref :=
    match l with [] => [] | x :: t => refs x ++ go t end.

Definition rd (h : heap) (rf : ref) : option (list Z) :=
  match rf with
  | RefB _ r a len => read_bytes h r a len
  | RefS r a sid => if store_live h r a sid then Some [] else None
  end.

Definition ref_region (rf : ref) : region :=
  match rf with RefB _ r _ _ => r | RefS r _ _ => r end.
Definition ref_addr (rf : ref) : nat :=
  match rf with RefB _ _ a _ => a | RefS _ a _ => a end.

(* pool slots mentioned by a list of references *)
Fixpoint ids_of (l : list ref) : list nat :=
  match l with
  | [] => []
  | RefB _ RPool a _ :: t => a :: ids_of t
  | _ :: t => ids_of t
  end.

(* ---------- heap updates ---------- *)
Definition set_static (h : heap) (s : list (list Z)) : heap :=
  mkHeap s (h_pers h) (h_frame h) (h_slots h) (h_free h) (h_next h).
Definition set_pers (h : heap) (p : list obj) : heap :=
  mkHeap (h_static h) p (h_frame h) (h_slots h) (h_free h) (h_next h).
Definition set_frame (h : heap) (f : list obj) : heap :=
  mkHeap (h_static h) (h_pers h) f (h_slots h) (h_free h) (h_next h).
Definition set_pool (h : heap) (s : list pslot) (fr : list nat) : heap :=
  mkHeap (h_static h) (h_pers h) (h_frame h) s fr (h_next h).

Definition static_alloc (h : heap) (b : list Z) : heap * nat :=
  (set_static h (h_static h ++ [b]), length (h_static h)).
Definition pers_alloc (h : heap) (o : obj) : heap * nat :=
  (set_pers h (h_pers h ++ [o]), length (h_pers h)).
Definition frame_alloc (h : heap) (o : obj) : heap * nat :=
  (set_frame h (h_frame h ++ [o]), length (h_frame h)).
(* Arena::reset(to): everything at or above the mark is gone *)
Definition frame_reset (h : heap) (m : nat) : heap := set_frame h (firstn m (h_frame h)).
Definition pers_reset (h : heap) (m : nat) : heap := set_pers h (firstn m (h_pers h)).
Definition fresh_sid (h : heap) : heap * nat :=
  (mkHeap (h_static h) (h_pers h) (h_frame h) (h_slots h) (h_free h) (S (h_next h)), h_next h).

(* the Vec's own allocator: Vec::with_capacity_in(_, arena) *)
Definition region_alloc (h : heap) (r : region) (o : obj) : option (heap * nat) :=
  match r with
  | RPers => Some (pers_alloc h o)
  | RFrame => Some (frame_alloc h o)
  | _ => None
  end.

Fixpoint upd_nth {A} (n : nat) (x : A) (l : list A) : list A :=
  match l, n with
  | [], _ => []
  | _ :: t, O => x :: t
  | y :: t, S n' => y :: upd_nth n' x t
  end.

(* ---------- the pool (PoolSet::alloc_str / dealloc; Pool::alloc is LIFO per class) ---------- *)
Definition slot_has_class (slots : list pslot) (c : Z) (i : nat) : bool :=
  match nth_error slots i with Some s => Z.eqb (ps_class s) c | None => false end.

(* the most recently freed slot of class c *)
Fixpoint take_free (slots : list pslot) (c : Z) (free : list nat) : option (nat * list nat) :=
  match free with
  | [] => None
  | i :: t =>
      if slot_has_class slots c i then Some (i, t)
      else match take_free slots c t with
           | Some (j, t') => Some (j, i :: t')
           | None => None
           end
  end.

Definition count_class (slots : list pslot) (c : Z) : Z :=
  Z.of_nat (length (filter (fun s => Z.eqb (ps_class s) c) slots)).
Definition class_cap (c : Z) : Z := nth (Z.to_nat c) slot_counts 0%Z.

Definition alloc_str (h : heap) (b : list Z) : heap * mvalue :=
  let len := length b in
  let fallback := let '(h', a) := pers_alloc h (OBytes b) in (h', MOwned RPers a len len) in
  match size_class (Z.of_nat len) with
  | Some c =>
      match take_free (h_slots h) c (h_free h) with
      | Some (i, free') =>
          (set_pool h (upd_nth i (mkSlot c (Live b)) (h_slots h)) free', MOwned RPool i len len)
      | None =>
          if Z.ltb (count_class (h_slots h) c) (class_cap c)
          then (set_pool h (h_slots h ++ [mkSlot c (Live b)]) (h_free h),
                MOwned RPool (length (h_slots h)) len len)
          else fallback
      end
  | None => fallback
  end.

(* Value::return_to_pool.  None = the slot is not live (double free: Pool::dealloc's
   debug_assert / the 0xDD check of the next alloc).  A value that is not a pool string, or
   whose capacity maps to another class than the slot's, is skipped as in PoolSet::dealloc. *)
Definition return_to_pool (h : heap) (v : mvalue) : option heap :=
  match v with
  | MOwned RPool i _ cap =>
      match nth_error (h_slots h) i with
      | Some (mkSlot c cl) =>
          if (match size_class (Z.of_nat cap) with Some c' => Z.eqb c' c | None => false end) then
            match cl with
            | Live _ => Some (set_pool h (upd_nth i (mkSlot c Poison) (h_slots h)) (i :: h_free h))
            | Poison => None
            end
          else Some h
      | None => Some h
      end
  | _ => Some h
  end.

(* ---------- value-level operations ---------- *)
Definition map_heap (f : heap -> mvalue -> option (heap * mvalue))
  : heap -> list mvalue -> option (heap * list mvalue) :=
  fix go (h : heap) (l : list mvalue) : option (heap * list mvalue) :=
    match l with
    | [] => Some (h, [])
    | x :: t =>
        match f h x with
        | Some (h1, x') =>
            match go h1 t with
            | Some (h2, t') => Some (h2, x' :: t')
            | None => None
            end
        | None => None
        end
    end.

(* Value::clone_into(frame).  alias = true is the code before commit 8134a3d
   (ArenaCow::clone: an Owned string is cloned to a Borrowed alias of the same bytes). *)
Fixpoint clone_into (alias : bool) (h : heap) (v : mvalue) {struct v} : option (heap * mvalue) :=
  match v with
  | MOwned r a len cap =>
      if alias then Some (h, MBorrowed r a len)
      else match read_bytes h r a len with
           | Some b => let '(h', a') := frame_alloc h (OBytes b) in Some (h', MOwned RFrame a' len len)
           | None => None
           end
  | MArr r a sid cap items =>
      if store_live h r a sid then
        let '(h0, sid') := fresh_sid h in
        let '(h1, a') := frame_alloc h0 (OVec sid') in
        match map_heap (clone_into alias) h1 items with
        | Some (h2, items') => Some (h2, MArr RFrame a' sid' (length items) items')
        | None => None
        end
      else None
  | _ => Some (h, v)
  end.

(* Value::promote / ArenaCow::promote *)
Fixpoint promote (h : heap) (v : mvalue) {struct v} : option (heap * mvalue) :=
  match v with
  | MBorrowed r a len =>
      match r with
      | RFrame | RPool =>
          match read_bytes h r a len with Some b => Some (alloc_str h b) | None => None end
      | _ => Some (h, v)
      end
  | MOwned r a len cap =>
      match r with
      | RFrame =>
          match read_bytes h r a len with Some b => Some (alloc_str h b) | None => None end
      | _ => Some (h, v)                 (* s.arena() == persistent: pool slot or arena fallback *)
      end
  | MArr r a sid cap items =>
      if store_live h r a sid then
        let '(h0, sid') := fresh_sid h in
        let '(h1, a') := pers_alloc h0 (OVec sid') in
        match map_heap promote h1 items with
        | Some (h2, items') => Some (h2, MArr RPers a' sid' (length items) items')
        | None => None
        end
      else None
  | _ => Some (h, v)
  end.

(* overwrite_slot: free the old value's slot, then promote the new value *)
Definition overwrite (h : heap) (old nv : mvalue) : option (heap * mvalue) :=
  match return_to_pool h old with
  | Some h1 => promote h1 nv
  | None => None
  end.

(* relocate_return_value(val, frame_offset).  stage = false is the variant that resets the
   frame before copying (no staging through the persistent arena). *)
Definition relocate (stage : bool) (h : heap) (v : mvalue) (mark : nat) : option (heap * mvalue) :=
  match v with
  | MOwned RFrame a len cap =>
      if stage then
        match read_bytes h RFrame a len with
        | Some b =>
            let sm := length (h_pers h) in
            let '(h1, sa) := pers_alloc h (OBytes b) in
            let h2 := frame_reset h1 mark in
            match read_bytes h2 RPers sa len with
            | Some b' =>
                let '(h3, a') := frame_alloc h2 (OBytes b') in
                Some (pers_reset h3 sm, MOwned RFrame a' len len)
            | None => None
            end
        | None => None
        end
      else
        let h2 := frame_reset h mark in
        match read_bytes h2 RFrame a len with
        | Some b => let '(h3, a') := frame_alloc h2 (OBytes b) in Some (h3, MOwned RFrame a' len len)
        | None => None
        end
  | MArr _ _ _ _ _ =>
      match promote h v with
      | Some (h1, v') => Some (frame_reset h1 mark, v')
      | None => None
      end
  | _ => Some (frame_reset h mark, v)
  end.

(* pop_scope: return the slots of the scope's variables, oldest variable first *)
Fixpoint return_all (h : heap) (vs : list mvalue) : option heap :=
  match vs with
  | [] => Some h
  | v :: t => match return_to_pool h v with Some h1 => return_all h1 t | None => None end
  end.

(* ---------- machine results ---------- *)
Inductive mres (A : Type) := MOk (a : A) | MIll | MFault.
Arguments MOk {A} a. Arguments MIll {A}. Arguments MFault {A}.

Definition of_opt {A} (o : option A) : mres A := match o with Some a => MOk a | None => MFault end.
Definition ill_opt {A} (o : option A) : mres A := match o with Some a => MOk a | None => MIll end.
Definition mbind {A B} (m : mres A) (f : A -> mres B) : mres B :=
  match m with MOk a => f a | MIll => MIll | MFault => MFault end.

(* ---------- in-place modification of the element reached by an index path ---------- *)
Fixpoint modify_at {R : Type} (f : heap -> mvalue -> mres (heap * mvalue * R))
         (path : list nat) (h : heap) (v : mvalue) {struct path} : mres (heap * mvalue * R) :=
  match path with
  | [] => f h v
  | i :: rest =>
      match v with
      | MArr r a sid cap items =>
          if store_live h r a sid then
            match nth_error items i with
            | Some sub =>
                match modify_at f rest h sub with
                | MOk (h', sub', x) => MOk (h', MArr r a sid cap (upd_nth i sub' items), x)
                | MIll => MIll
                | MFault => MFault
                end
            | None => MIll
            end
          else MFault
      | _ => MIll
      end
  end.

(* assign_index, last step: `mem::replace(&mut items[idx], value)`; the old element is
   handed back (its slot is returned right after) *)
Definition f_set (i : nat) (nv : mvalue) (h : heap) (v : mvalue) : mres (heap * mvalue * mvalue) :=
  match v with
  | MArr r a sid cap items =>
      if store_live h r a sid then
        match nth_error items i with
        | Some old => MOk (h, MArr r a sid cap (upd_nth i nv items), old)
        | None => MIll
        end
      else MFault
  | _ => MIll
  end.

Definition grow_cap (cap : nat) : nat := Nat.max 4 (2 * cap).

(* ArrayBuiltin::push = Vec::push: in place while capacity lasts, else a new store from the
   Vec's own arena (in-place growth of the arena's last allocation is modelled as a move) *)
Definition f_push (nv : mvalue) (h : heap) (v : mvalue) : mres (heap * mvalue * unit) :=
  match v with
  | MArr r a sid cap items =>
      if store_live h r a sid then
        if Nat.ltb (length items) cap then MOk (h, MArr r a sid cap (items ++ [nv]), tt)
        else
          let '(h0, sid') := fresh_sid h in
          match region_alloc h0 r (OVec sid') with
          | Some (h1, a') => MOk (h1, MArr r a' sid' (grow_cap cap) (items ++ [nv]), tt)
          | None => MIll
          end
      else MFault
  | _ => MIll
  end.

(* ArrayBuiltin::pop *)
Definition f_pop (h : heap) (v : mvalue) : mres (heap * mvalue * mvalue) :=
  match v with
  | MArr r a sid cap items =>
      if store_live h r a sid then
        match items with
        | [] => MOk (h, v, MNull)
        | _ => MOk (h, MArr r a sid cap (removelast items), last items MNull)
        end
      else MFault
  | _ => MIll
  end.

(* ArrayBuiltin::reverse = slice::reverse: in place, no allocation, nothing freed *)
Definition f_rev (h : heap) (v : mvalue) : mres (heap * mvalue * unit) :=
  match v with
  | MArr r a sid cap items =>
      if store_live h r a sid then MOk (h, MArr r a sid cap (rev items), tt) else MFault
  | _ => MIll
  end.

(* ---------- environment ---------- *)
Definition scope := list (nat * mvalue).         (* newest binding first *)

(* the lookup/update functions are shared with the reclamation-free machine (A = Lang.value) *)
Fixpoint scope_find {A} (x : nat) (sc : list (nat * A)) : option A :=
  match sc with
  | [] => None
  | (y, v) :: t => if Nat.eqb x y then Some v else scope_find x t
  end.

Fixpoint scope_set {A} (x : nat) (v : A) (sc : list (nat * A)) : option (list (nat * A)) :=
  match sc with
  | [] => None
  | (y, w) :: t =>
      if Nat.eqb x y then Some ((y, v) :: t)
      else match scope_set x v t with Some t' => Some ((y, w) :: t') | None => None end
  end.

Fixpoint env_find {A} (x : nat) (e : list (list (nat * A))) : option A :=
  match e with
  | [] => None
  | sc :: t => match scope_find x sc with Some v => Some v | None => env_find x t end
  end.

Fixpoint env_set {A} (x : nat) (v : A) (e : list (list (nat * A))) : option (list (list (nat * A))) :=
  match e with
  | [] => None
  | sc :: t =>
      match scope_set x v sc with
      | Some sc' => Some (sc' :: t)
      | None => match env_set x v t with Some t' => Some (sc :: t') | None => None end
      end
  end.

(* ---------- the op-sequence machine ---------- *)
Record cfg := mkCfg {
  c_alias : bool;            (* true: clone = Borrowed alias (before 8134a3d) *)
  c_promote_params : bool;   (* false: arguments bound unpromoted (before 26ade90) *)
  c_stage : bool             (* false: relocate without staging *)
}.
Definition cfg_repaired : cfg := mkCfg false true true.

Record ctl := mkCtl {
  c_loop : bool;             (* loop iteration (true) or user call (false) *)
  c_mark : nat;              (* frame.offset() when the record was pushed *)
  c_saved : list mvalue;     (* temporaries of the suspended expressions, newest first *)
  c_floor : nat              (* number of scopes that must remain until the record is popped *)
}.

Record mstate := mkSt {
  m_heap : heap;
  m_env : list scope;        (* innermost first *)
  m_out : list mvalue;       (* Runtime.output, oldest first *)
  m_tmps : list mvalue;      (* temporaries of the current expression, newest first *)
  m_ctl : list ctl           (* innermost first *)
}.

Definition init_state : mstate := mkSt empty_heap [[]] [] [] [].

Inductive scalar := SNum (x : f64) | SBool (b : bool) | SNull.
Definition mscalar (s : scalar) : mvalue :=
  match s with SNum x => MNum x | SBool b => MBool b | SNull => MNull end.
Definition ascalar (s : scalar) : value :=
  match s with SNum x => VNum x | SBool b => VBool b | SNull => VNull end.

Inductive op :=
| OScalar (s : scalar)            (* number / bool / null literal or any scalar result *)
| OLit (b : list Z)               (* StringParts::Static: Borrowed into the source *)
| ORead (x : nat)                 (* Expr::Var: lookup + clone_into(frame) *)
| OInterp (x : nat)               (* interpolation: the variable is read by reference *)
| OConcat                         (* any operator/builtin building a fresh frame string from two *)
| OMkArr (n : nat)                (* Expr::Array of the n newest temporaries *)
| OIndex (i : nat)                (* Expr::Index: the element is moved out of the array temporary *)
| ODrop
| OPromote                        (* push(): the argument is promoted before the receiver is resolved *)
| OMake (x : nat)                 (* define_var / define_bound_local *)
| OAssign (x : nat)               (* assign_var / assign_bound_local *)
| OStoreIdx (x : nat) (path : list nat) (i : nat)   (* assign_index *)
| OPush (x : nat) (path : list nat)
| OPop (x : nat) (path : list nat)
| OShout
| OPushScope | OPopScope
| OCallBegin | OCallBind (params : list nat) | OCallEnd
| OLoopIter | OLoopIterEnd | OLoopExit
| OReverse (x : nat) (path : list nat).   (* ArrayBuiltin::reverse: the Vec is permuted in place (added with MemEval) *)

Definition str_bytes (h : heap) (v : mvalue) : mres (list Z) :=
  match v with
  | MBorrowed r a len => of_opt (read_bytes h r a len)
  | MOwned r a len _ => of_opt (read_bytes h r a len)
  | _ => MIll
  end.

Definition with_heap_tmps (st : mstate) (h : heap) (t : list mvalue) : mstate :=
  mkSt h (m_env st) (m_out st) t (m_ctl st).

Definition floor_of (st : mstate) : nat :=
  match m_ctl st with [] => 0 | c :: _ => c_floor c end.

(* bind the arguments (oldest first) into the parameter scope *)
Fixpoint bind_args (promote_params : bool) (h : heap) (xs : list nat) (vs : list mvalue) (sc : scope)
  : option (heap * scope) :=
  match xs, vs with
  | x :: xs', v :: vs' =>
      match (if promote_params then promote h v else Some (h, v)) with
      | Some (h1, v') => bind_args promote_params h1 xs' vs' ((x, v') :: sc)
      | None => None
      end
  | _, _ => Some (h, sc)
  end.

Definition step (c : cfg) (st : mstate) (o : op) : mres mstate :=
  let h := m_heap st in
  match o with
  | OScalar s => MOk (with_heap_tmps st h (mscalar s :: m_tmps st))
  | OLit b =>
      let '(h1, a) := static_alloc h b in
      MOk (with_heap_tmps st h1 (MBorrowed RStatic a (length b) :: m_tmps st))
  | ORead x =>
      match env_find x (m_env st) with
      | None => MIll
      | Some v =>
          match clone_into (c_alias c) h v with
          | Some (h1, v') => MOk (with_heap_tmps st h1 (v' :: m_tmps st))
          | None => MFault
          end
      end
  | OInterp x =>
      match env_find x (m_env st) with
      | None => MIll
      | Some v =>
          match erase h v with
          | Some av =>
              let b := display av in
              let '(h1, a) := frame_alloc h (OBytes b) in
              MOk (with_heap_tmps st h1 (MOwned RFrame a (length b) (length b) :: m_tmps st))
          | None => MFault
          end
      end
  | OConcat =>
      match m_tmps st with
      | r :: l :: rest =>
          mbind (str_bytes h l) (fun bl =>
          mbind (str_bytes h r) (fun br =>
            let b := bl ++ br in
            let '(h1, a) := frame_alloc h (OBytes b) in
            MOk (with_heap_tmps st h1 (MOwned RFrame a (length b) (length b) :: rest))))
      | _ => MIll
      end
  | OMkArr n =>
      if Nat.leb n (length (m_tmps st)) then
        let items := rev (firstn n (m_tmps st)) in
        let '(h0, sid) := fresh_sid h in
        let '(h1, a) := frame_alloc h0 (OVec sid) in
        MOk (with_heap_tmps st h1 (MArr RFrame a sid n items :: skipn n (m_tmps st)))
      else MIll
  | OIndex i =>
      match m_tmps st with
      | MArr r a sid _ items :: rest =>
          if store_live h r a sid then
            match nth_error items i with
            | Some e => MOk (with_heap_tmps st h (e :: rest))
            | None => MIll
            end
          else MFault
      | _ => MIll
      end
  | ODrop =>
      match m_tmps st with
      | _ :: rest => MOk (with_heap_tmps st h rest)
      | [] => MIll
      end
  | OPromote =>
      match m_tmps st with
      | v :: rest =>
          match promote h v with
          | Some (h1, v') => MOk (with_heap_tmps st h1 (v' :: rest))
          | None => MFault
          end
      | [] => MIll
      end
  | OMake x =>
      match m_tmps st, m_env st with
      | v :: rest, sc :: e' =>
          match scope_find x sc with
          | Some old =>
              match overwrite h old v with
              | Some (h1, v') =>
                  match scope_set x v' sc with
                  | Some sc' => MOk (mkSt h1 (sc' :: e') (m_out st) rest (m_ctl st))
                  | None => MIll
                  end
              | None => MFault
              end
          | None =>
              match promote h v with
              | Some (h1, v') => MOk (mkSt h1 (((x, v') :: sc) :: e') (m_out st) rest (m_ctl st))
              | None => MFault
              end
          end
      | _, _ => MIll
      end
  | OAssign x =>
      match m_tmps st with
      | v :: rest =>
          match env_find x (m_env st) with
          | Some old =>
              match overwrite h old v with
              | Some (h1, v') =>
                  match env_set x v' (m_env st) with
                  | Some e' => MOk (mkSt h1 e' (m_out st) rest (m_ctl st))
                  | None => MIll
                  end
              | None => MFault
              end
          | None => MIll
          end
      | [] => MIll
      end
  | OStoreIdx x path i =>
      match m_tmps st with
      | v :: rest =>
          match promote h v with
          | Some (h1, v1) =>
              match env_find x (m_env st) with
              | Some root =>
                  mbind (modify_at (f_set i v1) path h1 root) (fun '(h2, root', old) =>
                    match return_to_pool h2 old with
                    | Some h3 =>
                        match env_set x root' (m_env st) with
                        | Some e' => MOk (mkSt h3 e' (m_out st) rest (m_ctl st))
                        | None => MIll
                        end
                    | None => MFault
                    end)
              | None => MIll
              end
          | None => MFault
          end
      | [] => MIll
      end
  | OPush x path =>
      match m_tmps st with
      | v :: rest =>
          match promote h v with
          | Some (h1, v1) =>
              match env_find x (m_env st) with
              | Some root =>
                  mbind (modify_at (f_push v1) path h1 root) (fun '(h2, root', _) =>
                    match env_set x root' (m_env st) with
                    | Some e' => MOk (mkSt h2 e' (m_out st) rest (m_ctl st))
                    | None => MIll
                    end)
              | None => MIll
              end
          | None => MFault
          end
      | [] => MIll
      end
  | OPop x path =>
      match env_find x (m_env st) with
      | Some root =>
          mbind (modify_at f_pop path h root) (fun '(h2, root', r) =>
            match env_set x root' (m_env st) with
            | Some e' => MOk (mkSt h2 e' (m_out st) (r :: m_tmps st) (m_ctl st))
            | None => MIll
            end)
      | None => MIll
      end
  | OShout =>
      match m_tmps st with
      | v :: rest =>
          match promote h v with
          | Some (h1, v') => MOk (mkSt h1 (m_env st) (m_out st ++ [v']) rest (m_ctl st))
          | None => MFault
          end
      | [] => MIll
      end
  | OPushScope => MOk (mkSt h ([] :: m_env st) (m_out st) (m_tmps st) (m_ctl st))
  | OPopScope =>
      match m_env st with
      | sc :: e' =>
          if Nat.leb (floor_of st) (length e') then
            match return_all h (rev (map snd sc)) with
            | Some h1 => MOk (mkSt h1 e' (m_out st) (m_tmps st) (m_ctl st))
            | None => MFault
            end
          else MIll
      | [] => MIll
      end
  | OCallBegin =>
      MOk (mkSt h ([] :: m_env st) (m_out st) []
                (mkCtl false (length (h_frame h)) (m_tmps st) (S (length (m_env st))) :: m_ctl st))
  | OCallBind xs =>
      match m_ctl st, m_env st with
      | cr :: _, sc :: e' =>
          if negb (c_loop cr) && Nat.eqb (length (m_env st)) (c_floor cr)
             && Nat.eqb (length xs) (length (m_tmps st)) then
            match bind_args (c_promote_params c) h xs (rev (m_tmps st)) sc with
            | Some (h1, sc') => MOk (mkSt h1 (sc' :: e') (m_out st) [] (m_ctl st))
            | None => MFault
            end
          else MIll
      | _, _ => MIll
      end
  | OCallEnd =>
      match m_ctl st, m_env st with
      | cr :: ctl', psc :: e' =>
          if negb (c_loop cr) && Nat.eqb (length (m_env st)) (c_floor cr) then
            match (match m_tmps st with [] => Some MNull | [v] => Some v | _ => None end) with
            | Some rv =>
                match return_all h (rev (map snd psc)) with
                | Some h1 =>
                    match relocate (c_stage c) h1 rv (c_mark cr) with
                    | Some (h2, rv') => MOk (mkSt h2 e' (m_out st) (rv' :: c_saved cr) ctl')
                    | None => MFault
                    end
                | None => MFault
                end
            | None => MIll
            end
          else MIll
      | _, _ => MIll
      end
  | OLoopIter =>
      MOk (mkSt h (m_env st) (m_out st) []
                (mkCtl true (length (h_frame h)) (m_tmps st) (length (m_env st)) :: m_ctl st))
  | OLoopIterEnd =>
      match m_ctl st, m_tmps st with
      | cr :: ctl', [] =>
          if c_loop cr && Nat.eqb (length (m_env st)) (c_floor cr) then
            MOk (mkSt (frame_reset h (c_mark cr)) (m_env st) (m_out st) (c_saved cr) ctl')
          else MIll
      | _, _ => MIll
      end
  | OLoopExit =>
      match m_ctl st with
      | cr :: ctl' =>
          if c_loop cr && Nat.eqb (length (m_env st)) (c_floor cr) then
            MOk (mkSt h (m_env st) (m_out st) (m_tmps st ++ c_saved cr) ctl')
          else MIll
      | [] => MIll
      end
  | OReverse x path =>
      match env_find x (m_env st) with
      | Some root =>
          mbind (modify_at f_rev path h root) (fun '(h2, root', _) =>
            match env_set x root' (m_env st) with
            | Some e' => MOk (mkSt h2 e' (m_out st) (m_tmps st) (m_ctl st))
            | None => MIll
            end)
      | None => MIll
      end
  end.

Fixpoint run (c : cfg) (st : mstate) (ops : list op) : mres mstate :=
  match ops with
  | [] => MOk st
  | o :: t => match step c st o with MOk st' => run c st' t | MIll => MIll | MFault => MFault end
  end.

(* ---------- the same machine without storage (reclamation-free semantics) ---------- *)
Definition ascope := list (nat * value).
Record actl := mkACtl { ac_loop : bool; ac_saved : list value; ac_floor : nat }.
Record astate := mkASt {
  a_env : list ascope; a_out : list value; a_tmps : list value; a_ctl : list actl }.
Definition ainit : astate := mkASt [[]] [] [] [].

Notation ascope_find := (@scope_find value) (only parsing).
Notation ascope_set := (@scope_set value) (only parsing).
Notation aenv_find := (@env_find value) (only parsing).
Notation aenv_set := (@env_set value) (only parsing).

Fixpoint amodify_at {R : Type} (f : value -> option (value * R)) (path : list nat) (v : value)
  {struct path} : option (value * R) :=
  match path with
  | [] => f v
  | i :: rest =>
      match v with
      | VArr items =>
          match nth_error items i with
          | Some sub =>
              match amodify_at f rest sub with
              | Some (sub', x) => Some (VArr (upd_nth i sub' items), x)
              | None => None
              end
          | None => None
          end
      | _ => None
      end
  end.

Definition af_set (i : nat) (nv : value) (v : value) : option (value * value) :=
  match v with
  | VArr items =>
      match nth_error items i with
      | Some old => Some (VArr (upd_nth i nv items), old)
      | None => None
      end
  | _ => None
  end.
Definition af_push (nv : value) (v : value) : option (value * unit) :=
  match v with VArr items => Some (VArr (items ++ [nv]), tt) | _ => None end.
Definition af_pop (v : value) : option (value * value) :=
  match v with
  | VArr items =>
      match items with
      | [] => Some (v, VNull)
      | _ => Some (VArr (removelast items), last items VNull)
      end
  | _ => None
  end.

Definition af_rev (v : value) : option (value * unit) :=
  match v with VArr items => Some (VArr (rev items), tt) | _ => None end.

Definition afloor_of (st : astate) : nat :=
  match a_ctl st with [] => 0 | c :: _ => ac_floor c end.

Fixpoint abind_args (xs : list nat) (vs : list value) (sc : ascope) : ascope :=
  match xs, vs with
  | x :: xs', v :: vs' => abind_args xs' vs' ((x, v) :: sc)
  | _, _ => sc
  end.

Definition astep (st : astate) (o : op) : option astate :=
  match o with
  | OScalar s => Some (mkASt (a_env st) (a_out st) (ascalar s :: a_tmps st) (a_ctl st))
  | OLit b => Some (mkASt (a_env st) (a_out st) (VStr b :: a_tmps st) (a_ctl st))
  | ORead x =>
      match aenv_find x (a_env st) with
      | Some v => Some (mkASt (a_env st) (a_out st) (v :: a_tmps st) (a_ctl st))
      | None => None
      end
  | OInterp x =>
      match aenv_find x (a_env st) with
      | Some v => Some (mkASt (a_env st) (a_out st) (VStr (display v) :: a_tmps st) (a_ctl st))
      | None => None
      end
  | OConcat =>
      match a_tmps st with
      | VStr r :: VStr l :: rest => Some (mkASt (a_env st) (a_out st) (VStr (l ++ r) :: rest) (a_ctl st))
      | _ => None
      end
  | OMkArr n =>
      if Nat.leb n (length (a_tmps st)) then
        Some (mkASt (a_env st) (a_out st) (VArr (rev (firstn n (a_tmps st))) :: skipn n (a_tmps st)) (a_ctl st))
      else None
  | OIndex i =>
      match a_tmps st with
      | VArr items :: rest =>
          match nth_error items i with
          | Some e => Some (mkASt (a_env st) (a_out st) (e :: rest) (a_ctl st))
          | None => None
          end
      | _ => None
      end
  | ODrop =>
      match a_tmps st with
      | _ :: rest => Some (mkASt (a_env st) (a_out st) rest (a_ctl st))
      | [] => None
      end
  | OPromote =>
      match a_tmps st with _ :: _ => Some st | [] => None end
  | OMake x =>
      match a_tmps st, a_env st with
      | v :: rest, sc :: e' =>
          match ascope_find x sc with
          | Some _ =>
              match ascope_set x v sc with
              | Some sc' => Some (mkASt (sc' :: e') (a_out st) rest (a_ctl st))
              | None => None
              end
          | None => Some (mkASt (((x, v) :: sc) :: e') (a_out st) rest (a_ctl st))
          end
      | _, _ => None
      end
  | OAssign x =>
      match a_tmps st with
      | v :: rest =>
          match aenv_find x (a_env st) with
          | Some _ =>
              match aenv_set x v (a_env st) with
              | Some e' => Some (mkASt e' (a_out st) rest (a_ctl st))
              | None => None
              end
          | None => None
          end
      | [] => None
      end
  | OStoreIdx x path i =>
      match a_tmps st with
      | v :: rest =>
          match aenv_find x (a_env st) with
          | Some root =>
              match amodify_at (af_set i v) path root with
              | Some (root', _) =>
                  match aenv_set x root' (a_env st) with
                  | Some e' => Some (mkASt e' (a_out st) rest (a_ctl st))
                  | None => None
                  end
              | None => None
              end
          | None => None
          end
      | [] => None
      end
  | OPush x path =>
      match a_tmps st with
      | v :: rest =>
          match aenv_find x (a_env st) with
          | Some root =>
              match amodify_at (af_push v) path root with
              | Some (root', _) =>
                  match aenv_set x root' (a_env st) with
                  | Some e' => Some (mkASt e' (a_out st) rest (a_ctl st))
                  | None => None
                  end
              | None => None
              end
          | None => None
          end
      | [] => None
      end
  | OPop x path =>
      match aenv_find x (a_env st) with
      | Some root =>
          match amodify_at af_pop path root with
          | Some (root', r) =>
              match aenv_set x root' (a_env st) with
              | Some e' => Some (mkASt e' (a_out st) (r :: a_tmps st) (a_ctl st))
              | None => None
              end
          | None => None
          end
      | None => None
      end
  | OShout =>
      match a_tmps st with
      | v :: rest => Some (mkASt (a_env st) (a_out st ++ [v]) rest (a_ctl st))
      | [] => None
      end
  | OPushScope => Some (mkASt ([] :: a_env st) (a_out st) (a_tmps st) (a_ctl st))
  | OPopScope =>
      match a_env st with
      | _ :: e' =>
          if Nat.leb (afloor_of st) (length e') then Some (mkASt e' (a_out st) (a_tmps st) (a_ctl st))
          else None
      | [] => None
      end
  | OCallBegin =>
      Some (mkASt ([] :: a_env st) (a_out st) []
                  (mkACtl false (a_tmps st) (S (length (a_env st))) :: a_ctl st))
  | OCallBind xs =>
      match a_ctl st, a_env st with
      | cr :: _, sc :: e' =>
          if negb (ac_loop cr) && Nat.eqb (length (a_env st)) (ac_floor cr)
             && Nat.eqb (length xs) (length (a_tmps st)) then
            Some (mkASt (abind_args xs (rev (a_tmps st)) sc :: e') (a_out st) [] (a_ctl st))
          else None
      | _, _ => None
      end
  | OCallEnd =>
      match a_ctl st, a_env st with
      | cr :: ctl', _ :: e' =>
          if negb (ac_loop cr) && Nat.eqb (length (a_env st)) (ac_floor cr) then
            match (match a_tmps st with [] => Some VNull | [v] => Some v | _ => None end) with
            | Some rv => Some (mkASt e' (a_out st) (rv :: ac_saved cr) ctl')
            | None => None
            end
          else None
      | _, _ => None
      end
  | OLoopIter =>
      Some (mkASt (a_env st) (a_out st) []
                  (mkACtl true (a_tmps st) (length (a_env st)) :: a_ctl st))
  | OLoopIterEnd =>
      match a_ctl st, a_tmps st with
      | cr :: ctl', [] =>
          if ac_loop cr && Nat.eqb (length (a_env st)) (ac_floor cr) then
            Some (mkASt (a_env st) (a_out st) (ac_saved cr) ctl')
          else None
      | _, _ => None
      end
  | OLoopExit =>
      match a_ctl st with
      | cr :: ctl' =>
          if ac_loop cr && Nat.eqb (length (a_env st)) (ac_floor cr) then
            Some (mkASt (a_env st) (a_out st) (a_tmps st ++ ac_saved cr) ctl')
          else None
      | [] => None
      end
  | OReverse x path =>
      match aenv_find x (a_env st) with
      | Some root =>
          match amodify_at af_rev path root with
          | Some (root', _) =>
              match aenv_set x root' (a_env st) with
              | Some e' => Some (mkASt e' (a_out st) (a_tmps st) (a_ctl st))
              | None => None
              end
          | None => None
          end
      | None => None
      end
  end.

Fixpoint arun (st : astate) (ops : list op) : option astate :=
  match ops with
  | [] => Some st
  | o :: t => match astep st o with Some st' => arun st' t | None => None end
  end.

(* ---------- observation for the executable tie (nsmodel mem) ---------- *)
Inductive verdict :=
| VOk (out : list value)              (* ran; every printed value erased *)
| VStale (out : list (option value))  (* ran, but a printed value no longer erases *)
| VIll | VFault.

Definition all_some {A} (l : list (option A)) : option (list A) :=
  fold_right (fun o acc => match o, acc with Some x, Some xs => Some (x :: xs) | _, _ => None end)
             (Some []) l.

Definition observe (c : cfg) (ops : list op) : verdict :=
  match run c init_state ops with
  | MOk st =>
      let outs := map (erase (m_heap st)) (m_out st) in
      match all_some outs with Some vs => VOk vs | None => VStale outs end
  | MIll => VIll
  | MFault => VFault
  end.

Definition aobserve (ops : list op) : option (list value) :=
  match arun ainit ops with Some st => Some (a_out st) | None => None end.
