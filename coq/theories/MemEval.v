(* MemEval.v — the instrumented evaluator (C02, round 4).  Definitions only; proofs are in
   proofs/MemEvalProofs.v, statements in Properties/C02.v.

   `ieval / iexec / iexec_loop / iexec_block` repeat Lang.eval / exec / exec_loop / exec_block
   (through the open-recursion bodies of proofs/LangUnfold.v, branch for branch) and, next to the
   abstract result `Lang.M`, emit the storage operations src/runtime.rs performs at that point,
   in the op language of theories/Mem.v:

     variable read                         ORead key            (lookup + clone_into(frame))
     literal / typeof                      OLit                 (Borrowed into static text)
     interpolation                         fresh "" ; per segment OLit|OInterp key ; OConcat
     `add` on two strings                  OConcat              (reads both temporaries through the heap)
     any other operator / built-in result  ODrop^k ; materialise (scalar: OScalar; string: a fresh
                                           frame string; split: fresh frame strings + OMkArr)
     array literal                         OMkArr n
     a[i]                                  ODrop (index) ; OIndex i   (element moved out of the temporary)
     make / set                            OMake key / OAssign key    (slot return, then promotion)
     a[i].. get e                          e ; (index ; ODrop)* ; OStoreIdx
     push / pop / reverse                  arg ; OPromote ; (index ; ODrop)* ; OPush | OPop | OReverse
     shout                                 OShout ; OScalar null
     block                                 OPushScope ... OPopScope  (also on comot / next / return)
     loop                                  cond ; ODrop ; OLoopIter ; body ;
                                           OLoopIterEnd (reset; normal end and `next`) | OLoopExit (comot, return)
     user call                             OCallBegin ; args ; OCallBind keys ; body block ; OCallEnd (relocate)
     if / expression statement             cond|value ; ODrop

   Variables are addressed by POSITION: the key of a slot is the number of slots below it in the
   environment (all scopes, oldest first), so keys are distinct by construction and stable while
   the slot exists.  `G : list bool` is the shape of the machine's scope stack relative to Lang's:
   `true` = a scope of Lang's environment, `false` = the parameter scope that OCallBegin opens
   BEFORE the arguments are evaluated (runtime.rs takes the frame mark there and pushes the scope
   after; an empty scope is invisible to lookups).

   Runs stop at the first error / panic / fuel exhaustion: the ops issued so far are the trace.
   Not issued: the `pop_scope` with which run_inner ends (after the root block, or after an error —
   it frees the slots of whatever scope is innermost then; nothing is read afterwards except
   `output`, whose values own their slots), and anything about host values / read_line (`Unsupp`). *)
From Coq Require Import ZArith List Bool Arith.
Require Import NS.theories.F64 NS.theories.StrLib NS.theories.Lang NS.theories.Mem.
Require NS.theories.NumParse NS.theories.CaseMap.
Import ListNotations.
Local Open Scope nat_scope.

(* ---------- positions as keys ---------- *)
Definition esize (E : list (list slot)) : nat := length (concat E).

Fixpoint img_scope (base : nat) (sc : list slot) : ascope :=
  match sc with
  | [] => []
  | s :: r => (base + length r, s_val s) :: img_scope base r
  end.

(* the reclamation-free machine's environment for Lang's environment E under shape G *)
Fixpoint menv (G : list bool) (E : list (list slot)) : list ascope :=
  match G with
  | [] => []
  | false :: G' => [] :: menv G' E
  | true :: G' =>
      match E with
      | sc :: E' => img_scope (esize E') sc :: menv G' E'
      | [] => []
      end
  end.

Fixpoint ntrue (G : list bool) : nat :=
  match G with [] => 0 | b :: r => (if b then 1 else 0) + ntrue r end.

Definition aligned (G : list bool) (E : list (list slot)) : Prop := ntrue G = length E.

Fixpoint find_key (l : option Z) (n : name) (base : nat) (sc : list slot) : option nat :=
  match sc with
  | [] => None
  | s :: r => if slot_matches l n s then Some (base + length r) else find_key l n base r
  end.

Fixpoint lookup_key (l : option Z) (n : name) (E : list (list slot)) : option nat :=
  match E with
  | [] => None
  | sc :: r => match find_key l n (esize r) sc with Some k => Some k | None => lookup_key l n r end
  end.

Definition key_of (l : option Z) (n : name) (E : list (list slot)) : nat :=
  match lookup_key l n E with Some k => k | None => 0 end.

(* `make`: the slot of the innermost scope if the variable is there, else the next position *)
Definition make_key (l : option Z) (n : name) (E : list (list slot)) : nat :=
  match E with
  | [] => 0
  | sc :: r => match find_key l n (esize r) sc with Some k => k | None => esize E end
  end.

(* ---------- the writer ---------- *)
Definition IM (A : Type) : Type := (list op * (list value * res A))%type.

Definition bindI {A B} (m : IM A) (f : A -> IM B) : IM B :=
  match m with
  | (o1, (u1, Ok a)) => let '(o2, (u2, r)) := f a in (o1 ++ o2, (u1 ++ u2, r))
  | (o1, (u1, Err e)) => (o1, (u1, Err e))
  | (o1, (u1, Panic p)) => (o1, (u1, Panic p))
  | (o1, (u1, Fuel)) => (o1, (u1, Fuel))
  | (o1, (u1, Unsupp)) => (o1, (u1, Unsupp))
  end.
Definition liftI {A} (r : res A) : IM A := ([], ([], r)).
Definition retI {A} (a : A) : IM A := ([], ([], Ok a)).
Definition emit {A} (ops : list op) (a : A) : IM A := (ops, ([], Ok a)).
Definition failI {A} (r : res A) : IM A := ([], ([], r)).
(* issue ops, then continue *)
Definition tellk {A} (ops : list op) (k : IM A) : IM A := (ops ++ fst k, snd k).
Notation "'doI' x <- r ; k" := (bindI r (fun x => k)) (at level 200, x pattern, r at level 100, k at level 200).

Definition drops (k : nat) : list op := repeat ODrop k.

(* a fresh frame value holding v (what a built-in leaves behind): scalars need no storage, a string
   is a new frame string, an array a new frame Vec of such values *)
Fixpoint mat_ops (v : value) : list op :=
  match v with
  | VNum x => [OScalar (SNum x)]
  | VBool b => [OScalar (SBool b)]
  | VNull => [OScalar SNull]
  | VStr b => [OLit b; OLit []; OConcat]
  | VArr vs =>
      (fix go (l : list value) : list op :=
         match l with [] => [] | x :: t => mat_ops x ++ go t end) vs ++ [OMkArr (length vs)]
  end.

(* the result v of an operator / built-in that consumed the k newest temporaries *)
Definition ret_val {S : Type} (k : nat) (v : value) (s : S) : IM (value * S) :=
  (drops k ++ mat_ops v, ([], Ok (v, s))).

Definition bin_ops (o : binop) (l r v : value) : list op :=
  match o, l, r with
  | Add, VStr _, VStr _ => [OConcat]
  | _, _, _ => drops 2 ++ mat_ops v
  end.

Fixpoint interp_ops (E : list (list slot)) (segs : list seg) : list op :=
  match segs with
  | [] => []
  | SegLit b :: r => OLit b :: OConcat :: interp_ops E r
  | SegVar vn vl :: r => OInterp (key_of vl vn E) :: OConcat :: interp_ops E r
  end.

Definition nat_path (p : list Z) : list nat := map Z.to_nat p.

Definition mut_ops (m : mutop) (k : nat) (p : list nat) : list op :=
  match m with
  | MPush _ => [OPush k p; OScalar SNull]
  | MPop => [OPop k p]
  | MReverse => [OReverse k p; OScalar SNull]
  end.

Section IRun.
Variable P : plan.
Variable eps : f64.

Section IBodies.
Variable iev : expr -> list bool -> st -> IM (value * st).
Variable iex : stmt -> list bool -> st -> IM (flow * st).
Variable iel : expr -> list stmt -> list bool -> st -> IM (flow * st).
Variable ieb : list stmt -> list bool -> st -> IM (flow * st).

Fixpoint ievals_with (es : list expr) (G : list bool) (s : st) : IM (list value * st) :=
  match es with
  | [] => retI ([], s)
  | e :: r => doI (v, s1) <- iev e G s; doI (vs, s2) <- ievals_with r G s1; retI (v :: vs, s2)
  end.

(* eval_index_value: the index temporary is a number, dropped at once *)
Fixpoint iindices_with (es : list expr) (G : list bool) (s : st) : IM (list Z * st) :=
  match es with
  | [] => retI ([], s)
  | e :: r => doI (v, s1) <- iev e G s; doI i <- liftI (index_value v);
              tellk [ODrop] (doI (is, s2) <- iindices_with r G s1; retI (i :: is, s2))
  end.

Definition imutate_with (o : expr) (m : mutop) (G : list bool) (s : st) : IM (value * st) :=
  match o with
  | EVar vn vl =>
      match lookup_env vl vn (env s) with
      | None => failI (Panic PMutVarMissing)
      | Some root =>
          doI (root', r) <- liftI (mutate_path root [] m);
          match assign_env vl vn root' (env s) with
          | Some e' => emit (mut_ops m (key_of vl vn (env s)) []) (r, with_env e' s)
          | None => failI (Panic PMutVarMissing)
          end
      end
  | EIdx _ _ =>
      match flatten_target o [] with
      | None => failI (Err TypeMis)
      | Some (vn, vl, idx_exprs) =>
          doI (path, s1) <- iindices_with idx_exprs G s;
          match lookup_env vl vn (env s1) with
          | None => failI (Panic PMutVarMissing)
          | Some root =>
              doI (root', r) <- liftI (mutate_path root path m);
              match assign_env vl vn root' (env s1) with
              | Some e' => emit (mut_ops m (key_of vl vn (env s1)) (nat_path path)) (r, with_env e' s1)
              | None => failI (Panic PMutVarMissing)
              end
          end
      end
  | _ => failI (Err TypeMis)
  end.

Definition istring_call (str : list Z) (f : name) (args : list expr) (G : list bool) (s1 : st)
  : IM (value * st) :=
  if negb (mem_name f string_methods) then failI (Err TypeMis)
  else if bytes_eqb f n_len then ret_val 1 (VNum (of_Z (Z.of_nat (str_len str)))) s1
  else if bytes_eqb f n_slice then
    match args with
    | a0 :: a1 :: _ =>
        doI (v0, s2) <- iev a0 G s1;
        doI (v1, s3) <- iev a1 G s2;
        match v0, v1 with
        | VNum x0, VNum x1 =>
            ret_val 3 (VStr (slice str (to_isize (ffloor x0)) (to_isize (ffloor x1)))) s3
        | _, _ => failI (Err TypeMis)
        end
    | _ => failI (Panic PArgIndex)
    end
  else if bytes_eqb f n_to_uppercase then ret_val 1 (VStr (CaseMap.to_upper str)) s1
  else if bytes_eqb f n_to_lowercase then ret_val 1 (VStr (CaseMap.to_lower str)) s1
  else if bytes_eqb f n_trim then ret_val 1 (VStr (trim str)) s1
  else if bytes_eqb f n_to_number then ret_val 1 (VNum (NumParse.to_number str)) s1
  else if bytes_eqb f n_find then
    match args with
    | a0 :: _ =>
        doI (v0, s2) <- iev a0 G s1;
        match v0 with
        | VStr needle =>
            match find str needle with
            | Found i => ret_val 2 (VNum (of_Z (Z.of_nat i))) s2
            | NotFound => ret_val 2 (VNum (of_Z (-1))) s2
            | _ => failI (Panic PFind)
            end
        | _ => failI (Err TypeMis)
        end
    | _ => failI (Panic PArgIndex)
    end
  else if bytes_eqb f n_replace then
    match args with
    | a0 :: a1 :: _ =>
        doI (v0, s2) <- iev a0 G s1;
        doI (v1, s3) <- iev a1 G s2;
        match v0, v1 with
        | VStr old, VStr new =>
            match replace str old new with
            | SOk r => ret_val 3 (VStr r) s3
            | _ => failI (Panic PFind)
            end
        | _, _ => failI (Err TypeMis)
        end
    | _ => failI (Panic PArgIndex)
    end
  else (* split *)
    match args with
    | a0 :: _ =>
        doI (v0, s2) <- iev a0 G s1;
        match v0 with
        | VStr pat => ret_val 2 (VArr (map VStr (split str pat))) s2
        | _ => failI (Err TypeMis)
        end
    | _ => failI (Panic PArgIndex)
    end.

Definition iarray_call (items : list value) (f : name) (args : list expr) (G : list bool) (s1 : st)
  : IM (value * st) :=
  if negb (mem_name f array_methods) then failI (Err TypeMis)
  else if bytes_eqb f n_len then ret_val 1 (VNum (of_Z (len_z items))) s1
  else if bytes_eqb f n_join then
    match args with
    | a0 :: _ =>
        doI (v0, s2) <- iev a0 G s1;
        match v0 with
        | VStr sep => ret_val 2 (VStr (join_values items sep)) s2
        | _ => failI (Err TypeMis)
        end
    | _ => failI (Panic PArgIndex)
    end
  else failI (Panic PMutBuiltin).

Definition imember_call (o : expr) (f : name) (args : list expr) (G : list bool) (s : st)
  : IM (value * st) :=
  if mem_name f array_mut_methods then
    if bytes_eqb f n_push then
      match args with
      | [] => failI (Panic PArgIndex)
      | a0 :: _ => doI (v, s1) <- iev a0 G s; tellk [OPromote] (imutate_with o (MPush v) G s1)
      end
    else if bytes_eqb f n_pop then imutate_with o MPop G s
    else imutate_with o MReverse G s
  else if mem_name f proc_mut_names then failI Unsupp
  else
    doI (recv, s1) <- iev o G s;
    match recv with
    | VStr str => istring_call str f args G s1
    | VNum x =>
        if mem_name f number_methods then ret_val 1 (number_method f x) s1 else failI (Err TypeMis)
    | VArr items => iarray_call items f args G s1
    | VBool _ => failI (Err TypeMis)
    | VNull => failI (Err TypeMis)
    end.

(* eval_function_call: the frame mark is taken (OCallBegin) before the arguments are evaluated;
   the arguments are promoted and bound (OCallBind); the body block runs; the parameter scope is
   popped and the result relocated across the frame reset (OCallEnd) *)
Definition iuser_call (fname : name) (args : list expr) (target : option Z) (G : list bool) (s : st)
  : IM (value * st) :=
  match lookup_fn target fname (fns s) with
  | None => failI (Panic PFuncMissing)
  | Some fd =>
      tellk [OCallBegin] (
      doI (vs, s1) <- ievals_with args (false :: G) s;
      if negb (Nat.eqb (length vs) (length (f_params fd))) then failI (Panic PArgCount)
      else if (match f_id fd with
               | Some _ => (f_llen fd <? Z.of_nat (length (f_params fd)))%Z
               | None => false end) then failI (Panic PParamRange)
      else
        let s2 := push_scope (bind_params (f_id fd) (f_lstart fd) (f_params fd) vs 0%Z []) s1 in
        tellk [OCallBind (seq (esize (env s1)) (length vs))] (
        doI (fl, s3) <- ieb (f_body fd) (true :: G) s2;
        let s4 := pop_scope s3 in
        match fl with
        | FNormal => emit [OCallEnd] (VNull, s4)
        | FReturn v => emit [OCallEnd] (v, s4)
        | FBreak | FNext => failI (Panic PBreakEscapes)
        end))
  end.

Definition ibuiltin_call (g : gbuiltin) (args : list expr) (G : list bool) (s : st) : IM (value * st) :=
  doI (vs, s1) <- ievals_with args G s;
  match vs with
  | [v] =>
      match g with
      | GShout => ([OShout; OScalar SNull], ([v], Ok (VNull, s1)))
      | GTypeOf => emit [ODrop; OLit (type_name v)] (VStr (type_name v), s1)
      | GToString => ret_val 1 (VStr (display v)) s1
      | GReadLine | GCommand => failI Unsupp
      end
  | _ => failI (Panic PBuiltinArity)
  end.

Definition ieval_body (e : expr) (G : list bool) (s : st) : IM (value * st) :=
  match e with
  | ENum x => emit [OScalar (SNum x)] (VNum x, s)
  | EStr b => emit [OLit b] (VStr b, s)
  | EInterp segs =>
      doI b <- liftI (interp_segs (env s) segs);
      emit ([OLit []; OLit []; OConcat] ++ interp_ops (env s) segs) (VStr b, s)
  | EBool b => emit [OScalar (SBool b)] (VBool b, s)
  | ENull => emit [OScalar SNull] (VNull, s)
  | EVar vn vl =>
      match lookup_env vl vn (env s) with
      | Some v => emit [ORead (key_of vl vn (env s))] (v, s)
      | None => failI (Panic PVarMissing)
      end
  | EBin And a b =>
      doI (l, s1) <- iev a G s;
      match l with
      | VBool false | VNull => emit [ODrop; OScalar (SBool false)] (VBool false, s1)
      | _ => doI (r, s2) <- iev b G s1;
             match r with
             | VBool x => emit [ODrop; ODrop; OScalar (SBool x)] (VBool x, s2)
             | VNull => emit [ODrop; ODrop; OScalar (SBool false)] (VBool false, s2)
             | _ => failI (Err TypeMis)
             end
      end
  | EBin Or a b =>
      doI (l, s1) <- iev a G s;
      match l with
      | VBool true => emit [ODrop; OScalar (SBool true)] (VBool true, s1)
      | _ => doI (r, s2) <- iev b G s1;
             match r with
             | VBool x => emit [ODrop; ODrop; OScalar (SBool x)] (VBool x, s2)
             | VNull => emit [ODrop; ODrop; OScalar (SBool false)] (VBool false, s2)
             | _ => failI (Err TypeMis)
             end
      end
  | EBin o a b =>
      doI (l, s1) <- iev a G s;
      doI (r, s2) <- iev b G s1;
      doI v <- liftI (binop_values eps o l r); emit (bin_ops o l r v) (v, s2)
  | EUn o a =>
      doI (v, s1) <- iev a G s;
      match o, v with
      | Not, VBool b => emit [ODrop; OScalar (SBool (negb b))] (VBool (negb b), s1)
      | Not, VNull => emit [ODrop; OScalar (SBool true)] (VBool true, s1)
      | Neg, VNum x => emit [ODrop; OScalar (SNum (fneg x))] (VNum (fneg x), s1)
      | _, _ => failI (Err TypeMis)
      end
  | EArr es => doI (vs, s1) <- ievals_with es G s; emit [OMkArr (length vs)] (VArr vs, s1)
  | EIdx a i =>
      doI (av, s1) <- iev a G s;
      doI (iv, s2) <- iev i G s1;
      match av with
      | VArr items =>
          match iv with
          | VNum x =>
              if negb (is_finite x) || negb (is_int x) then failI (Err InvIdx)
              else
                let idx := to_isize x in
                if (idx <? 0)%Z || (len_z items <=? idx)%Z then failI (Err IdxOob)
                else match nth_value items (Z.to_nat idx) with
                     | Some v => emit [ODrop; OIndex (Z.to_nat idx)] (v, s2)
                     | None => failI (Err IdxOob)
                     end
          | _ => failI (Err InvIdx)
          end
      | _ => failI (Err TypeMis)
      end
  | EMember _ _ => failI (Err TypeMis)
  | ECall (EMember o f) args _ => imember_call o f args G s
  | ECall (EVar fname _) args target =>
      match global_builtin fname with
      | Some g => ibuiltin_call g args G s
      | None => iuser_call fname args target G s
      end
  | ECall _ _ _ => failI (Err TypeMis)
  end.

Definition iexec_body (t : stmt) (G : list bool) (s : st) : IM (flow * st) :=
  match t with
  | SMake _ vn vl e =>
      doI (v, s1) <- iev e G s;
      emit [OMake (make_key vl vn (env s1))] (FNormal, with_env (define_env vl vn v (env s1)) s1)
  | SSet _ vn vl e =>
      doI (v, s1) <- iev e G s;
      match assign_env vl vn v (env s1) with
      | Some e' => emit [OAssign (key_of vl vn (env s1))] (FNormal, with_env e' s1)
      | None => failI (Panic PAssignMissing)
      end
  | SSetIdx _ target e =>
      doI (v, s1) <- iev e G s;
      match flatten_target target [] with
      | None => failI (Err TypeMis)
      | Some (vn, vl, idx_exprs) =>
          doI (path, s2) <- iindices_with idx_exprs G s1;
          match lookup_env vl vn (env s2) with
          | None => failI (Panic PMutVarMissing)
          | Some root =>
              doI root' <- liftI (assign_path root path v);
              match assign_env vl vn root' (env s2) with
              | Some e' =>
                  emit [OStoreIdx (key_of vl vn (env s2)) (removelast (nat_path path)) (last (nat_path path) 0)]
                       (FNormal, with_env e' s2)
              | None => failI (Panic PMutVarMissing)
              end
          end
      end
  | SIf _ c t f =>
      doI (cv, s1) <- iev c G s;
      doI b <- liftI (truthy_cond cv);
      tellk [ODrop]
        (if b then ieb t G s1
         else match f with Some fb => ieb fb G s1 | None => retI (FNormal, s1) end)
  | SLoop _ c body => iel c body G s
  | SBlock _ body => ieb body G s
  | SFun _ _ _ _ _ _ _ => retI (FNormal, s)
  | SRet _ None => emit [OScalar SNull] (FReturn VNull, s)
  | SRet _ (Some e) => doI (v, s1) <- iev e G s; retI (FReturn v, s1)
  | SBreak _ => retI (FBreak, s)
  | SNext _ => retI (FNext, s)
  | SExpr _ e => doI (_, s1) <- iev e G s; emit [ODrop] (FNormal, s1)
  end.

(* Stmt::Loop: the frame mark is taken after the condition; the frame is reset after a normal
   iteration and after `next` (OLoopIterEnd), not on `comot` or `return` (OLoopExit) *)
Definition iloop_body (c : expr) (body : list stmt) (G : list bool) (s : st) : IM (flow * st) :=
  doI (cv, s1) <- iev c G s;
  doI b <- liftI (truthy_cond cv);
  tellk [ODrop]
    (if negb b then retI (FNormal, s1)
     else
       tellk [OLoopIter]
         (doI (fl, s2) <- ieb body G s1;
          match fl with
          | FBreak => emit [OLoopExit] (FNormal, s2)
          | FNormal | FNext => tellk [OLoopIterEnd] (iel c body G s2)
          | FReturn v => emit [OLoopExit] (FReturn v, s2)
          end)).

(* the statements of a block (under shape true :: G), then pop_scope *)
Fixpoint istmts_with (ts : list stmt) (G : list bool) (s : st) : IM (flow * st) :=
  match ts with
  | [] => emit [OPopScope] (FNormal, pop_scope s)
  | t :: r =>
      if in_plan_stmt P (stmt_sid t) then istmts_with r G s
      else
        doI (fl, s') <- iex t G s;
        match fl with
        | FNormal => istmts_with r G s'
        | _ => emit [OPopScope] (fl, pop_scope s')
        end
  end.

Definition iblock_body (b : list stmt) (G : list bool) (s : st) : IM (flow * st) :=
  tellk [OPushScope]
    (doI s1 <- liftI (hoist P b (push_scope [] s));
     istmts_with b (true :: G) s1).

End IBodies.

Fixpoint ieval (n : nat) (e : expr) (G : list bool) (s : st) {struct n} : IM (value * st) :=
  match n with
  | O => failI Fuel
  | S n' => ieval_body (ieval n') (iexec_block n') e G s
  end
with iexec (n : nat) (t : stmt) (G : list bool) (s : st) {struct n} : IM (flow * st) :=
  match n with
  | O => failI Fuel
  | S n' => iexec_body (ieval n') (iexec_loop n') (iexec_block n') t G s
  end
with iexec_loop (n : nat) (c : expr) (body : list stmt) (G : list bool) (s : st) {struct n}
  : IM (flow * st) :=
  match n with
  | O => failI Fuel
  | S n' => iloop_body (ieval n') (iexec_loop n') (iexec_block n') c body G s
  end
with iexec_block (n : nat) (b : list stmt) (G : list bool) (s : st) {struct n} : IM (flow * st) :=
  match n with
  | O => failI Fuel
  | S n' => iblock_body (iexec n') b G s
  end.

End IRun.

(* ---------- the instrumented run ---------- *)
Definition ending_of_res {A} (r : res A) : ending :=
  match r with
  | Ok _ => Done
  | Err e => RtErr e
  | Panic ps => Panicked ps
  | Fuel => EFuel
  | Unsupp => Unsupported
  end.

Definition irun (p : plan) (eps : f64) (fuel : nat) (prog : list stmt) : IM (flow * st) :=
  iexec_block p eps fuel prog [true] init_st.

(* the storage operations a run issues *)
Definition eval_ops (p : plan) (eps : f64) (fuel : nat) (prog : list stmt) : list op :=
  fst (irun p eps fuel prog).

(* what the instrumented run prints and how it ends, the printed values being READ BACK through
   the heap of the storage machine after it executed the issued operations with reclamation
   (None: the machine rejected the sequence, faulted, or a printed value no longer reads back) *)
Definition run_mem (c : cfg) (p : plan) (eps : f64) (fuel : nat) (prog : list stmt)
  : option (list value * ending) :=
  let '(ops, (_, r)) := irun p eps fuel prog in
  match observe c ops with
  | VOk vs => Some (vs, ending_of_res r)
  | _ => None
  end.

(* ---------- counters implied by an op sequence (tie with runtime::verif_counters) ---------- *)
(* ArenaCow::promote copies (and counts) frame data and Borrowed aliases of frame/pool data *)
Fixpoint npromote (v : mvalue) : nat :=
  match v with
  | MBorrowed RFrame _ _ | MBorrowed RPool _ _ | MOwned RFrame _ _ _ => 1
  | MArr _ _ _ _ items =>
      (fix go (l : list mvalue) : nat := match l with [] => 0 | x :: t => npromote x + go t end) items
  | _ => 0
  end.
Definition npromote_list (l : list mvalue) : nat := fold_right (fun v a => npromote v + a) 0 l.
(* Value::return_to_pool counts when the bytes are inside the pool *)
Definition nreturn (v : mvalue) : nat :=
  match v with MOwned RPool _ _ _ => 1 | _ => 0 end.
Definition nreturn_list (l : list mvalue) : nat := fold_right (fun v a => nreturn v + a) 0 l.

Fixpoint get_at (path : list nat) (v : mvalue) : option mvalue :=
  match path with
  | [] => Some v
  | i :: rest =>
      match v with
      | MArr _ _ _ _ items => match nth_error items i with Some sub => get_at rest sub | None => None end
      | _ => None
      end
  end.

Record counts := mkCounts { n_resets : nat; n_returns : nat; n_promotions : nat }.
Definition cadd (a b : counts) : counts :=
  mkCounts (n_resets a + n_resets b) (n_returns a + n_returns b) (n_promotions a + n_promotions b).

(* frame resets / pool returns / copying promotions of one step from state st (repaired configuration) *)
Definition op_counts (st : mstate) (o : op) : counts :=
  let top := match m_tmps st with v :: _ => [v] | [] => [] end in
  match o with
  | OPromote | OShout | OPush _ _ => mkCounts 0 0 (npromote_list top)
  | OMake x =>
      let old := match m_env st with sc :: _ => match scope_find x sc with Some w => [w] | None => [] end | [] => [] end in
      mkCounts 0 (nreturn_list old) (npromote_list top)
  | OAssign x =>
      let old := match env_find x (m_env st) with Some w => [w] | None => [] end in
      mkCounts 0 (nreturn_list old) (npromote_list top)
  | OStoreIdx x path i =>
      let old := match env_find x (m_env st) with
                 | Some root => match get_at (path ++ [i]) root with Some w => [w] | None => [] end
                 | None => [] end in
      mkCounts 0 (nreturn_list old) (npromote_list top)
  | OPopScope =>
      mkCounts 0 (match m_env st with sc :: _ => nreturn_list (map snd sc) | [] => 0 end) 0
  | OCallBind _ => mkCounts 0 0 (npromote_list (m_tmps st))
  | OCallEnd =>
      mkCounts 1 (match m_env st with sc :: _ => nreturn_list (map snd sc) | [] => 0 end)
               (match m_tmps st with [MArr r a sid cap items] => npromote (MArr r a sid cap items) | _ => 0 end)
  | OLoopIterEnd => mkCounts 1 0 0
  | _ => mkCounts 0 0 0
  end.

Fixpoint run_counts (c : cfg) (st : mstate) (ops : list op) (acc : counts) : counts :=
  match ops with
  | [] => acc
  | o :: t =>
      match step c st o with
      | MOk st' => run_counts c st' t (cadd acc (op_counts st o))
      | _ => acc
      end
  end.

(* everything `nsmodel memeval` prints for one program *)
Record report := mkReport {
  r_nops : nat;
  r_mem : verdict;                   (* Mem.run cfg_repaired on the issued ops, printed values read back *)
  r_twin : option (list value);      (* Mem.arun on the issued ops *)
  r_out : list value;                (* what the instrumented evaluator itself printed *)
  r_end : ending;
  r_counts : counts
}.

Definition memeval_report (p : plan) (eps : f64) (fuel : nat) (prog : list stmt) : report :=
  let '(ops, (out, r)) := irun p eps fuel prog in
  mkReport (length ops) (observe cfg_repaired ops) (aobserve ops) out (ending_of_res r)
           (run_counts cfg_repaired init_state ops (mkCounts 0 0 0)).

(* ---------- example programs used by Properties/C02.v ---------- *)
Definition ex_aa : list Z := [97; 97]%Z.
Definition ex_bb : list Z := [98; 98]%Z.
Definition nm_x : name := [120%Z].
Definition nm_a : name := [97%Z].
Definition nm_i : name := [105%Z].
Definition nm_f : name := [102%Z].
Definition nm_p : name := [112%Z].
Definition call_shout (e : expr) : stmt := SExpr None (ECall (EVar n_shout None) [e] None).
(* make x get "aa" add "bb"   x get x   shout(x) *)
Definition ex_selfassign : list stmt :=
  [SMake None nm_x None (EBin Add (EStr ex_aa) (EStr ex_bb));
   SSet None nm_x None (EVar nm_x None);
   call_shout (EVar nm_x None)].
(* do f(p) start return p add "!" end
   make a get []   make i get 0
   jasi (i small pass 2) start a.push(f("aa" add "bb")) i get i add 1 end
   shout(a) *)
Definition ex_loop_call : list stmt :=
  [SFun None nm_f [nm_p] [SRet None (Some (EBin Add (EVar nm_p None) (EStr [33%Z])))] None 0%Z 0%Z;
   SMake None nm_a None (EArr []);
   SMake None nm_i None (ENum (of_Z 0));
   SLoop None (EBin OLt (EVar nm_i None) (ENum (of_Z 2)))
     [SExpr None (ECall (EMember (EVar nm_a None) n_push)
                        [ECall (EVar nm_f None) [EBin Add (EStr ex_aa) (EStr ex_bb)] None] None);
      SSet None nm_i None (EBin Add (EVar nm_i None) (ENum (of_Z 1)))];
   call_shout (EVar nm_a None)].
