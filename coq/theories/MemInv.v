(* MemInv.v — the invariant of the storage model (C02).  Definitions only. *)
From Coq Require Import ZArith List Bool Arith.
Require Import NS.theories.F64 NS.theories.Lang NS.theories.Mem.
Import ListNotations.
Local Open Scope nat_scope.

(* h' keeps every readable reference of class P readable, with the same content *)
Definition hext (P : ref -> Prop) (h h' : heap) : Prop :=
  forall rf p, P rf -> rd h rf = Some p -> rd h' rf = Some p.

Definition anyref (_ : ref) : Prop := True.

Definition vall (P : ref -> Prop) (v : mvalue) : Prop := Forall P (refs v).

Definition nf (rf : ref) : Prop := ref_region rf <> RFrame.
Definition bsr (rf : ref) : Prop := match rf with RefB false r _ _ => r = RStatic | _ => True end.
Definition below (m : nat) (rf : ref) : Prop := ref_region rf = RFrame -> ref_addr rf < m.
Definition avoid (l : list nat) (rf : ref) : Prop :=
  match rf with RefB _ RPool a _ => ~ In a l | _ => True end.
Definition ids (v : mvalue) : list nat := ids_of (refs v).
Definition slot_live (h : heap) (i : nat) : Prop :=
  exists c b, nth_error (h_slots h) i = Some (mkSlot c (Live b)).

Record HeapWF (h : heap) : Prop := {
  wf_free_poison : forall i, In i (h_free h) -> exists c, nth_error (h_slots h) i = Some (mkSlot c Poison);
  wf_free_nodup : NoDup (h_free h)
}.

Definition same_bump (h h' : heap) : Prop :=
  h_static h' = h_static h /\ h_pers h' = h_pers h /\ h_frame h' = h_frame h.

(* ---------- roots of a machine state ---------- *)
Definition env_vals (e : list scope) : list mvalue := flat_map (map snd) e.
Definition all_saved (ctl : list ctl) : list mvalue := flat_map c_saved ctl.
(* what is stored: every variable of every scope, and the output *)
Definition stored (st : mstate) : list mvalue := env_vals (m_env st) ++ m_out st.
(* temporaries of the current expression (incl. the pending return value) and of every
   suspended caller / enclosing loop *)
Definition temps (st : mstate) : list mvalue := m_tmps st ++ all_saved (m_ctl st).
Definition roots (st : mstate) : list mvalue := stored st ++ temps st.

(* stack discipline of the frame arena: the temporaries that were live when a mark was
   taken lie below that mark, and marks are nested *)
Fixpoint CtlOK (ctl : list ctl) (fh : nat) : Prop :=
  match ctl with
  | [] => True
  | c :: rest =>
      c_mark c <= fh /\ Forall (vall (below (c_mark c))) (c_saved c) /\ CtlOK rest (c_mark c)
  end.

Record MemInv (st : mstate) : Prop := {
  (* the free list holds distinct, poisoned slots *)
  inv_wf : HeapWF (m_heap st);
  (* every reference reachable from a root is live *)
  inv_live : Forall (fun v => erase (m_heap st) v <> None) (roots st);
  (* a pool slot has exactly one owner among all roots *)
  inv_excl : NoDup (flat_map ids (roots st));
  (* nothing stored in the environment or the output points into the frame arena *)
  inv_nf : Forall (vall nf) (stored st);
  (* a Borrowed string points into static text only (never into the frame or a pool slot) *)
  inv_bs : Forall (vall bsr) (roots st);
  inv_ctl : CtlOK (m_ctl st) (length (h_frame (m_heap st)))
}.

(* ---------- agreement with the reclamation-free machine ---------- *)
Definition vrel (h : heap) (v : mvalue) (a : value) : Prop := erase h v = Some a.
Definition prel (Q : mvalue -> value -> Prop) (p : nat * mvalue) (q : nat * value) : Prop :=
  fst p = fst q /\ Q (snd p) (snd q).
Definition crel (Q : mvalue -> value -> Prop) (c : ctl) (ac : actl) : Prop :=
  c_loop c = ac_loop ac /\ c_floor c = ac_floor ac /\ Forall2 Q (c_saved c) (ac_saved ac).

Record SimQ (Q : mvalue -> value -> Prop) (st : mstate) (ast : astate) : Prop := {
  sim_env : Forall2 (Forall2 (prel Q)) (m_env st) (a_env ast);
  sim_out : Forall2 Q (m_out st) (a_out ast);
  sim_tmps : Forall2 Q (m_tmps st) (a_tmps ast);
  sim_ctl : Forall2 (crel Q) (m_ctl st) (a_ctl ast)
}.
(* every root erases to the value the reclamation-free machine holds at the same place *)
Definition Sim (st : mstate) (ast : astate) : Prop := SimQ (vrel (m_heap st)) st ast.

(* not a Borrowed string into the frame arena or into a pool slot *)
Definition nbp (rf : ref) : Prop :=
  match rf with RefB false RFrame _ _ | RefB false RPool _ _ => False | _ => True end.

(* ---------- example op sequences used by Properties/C02.v ---------- *)
Definition b_aa : list Z := [97; 97]%Z.
Definition b_bb : list Z := [98; 98]%Z.
Definition b_cc : list Z := [99; 99]%Z.
Definition b_dd : list Z := [100; 100]%Z.
Definition num7 : op := OScalar (SNum (of_Z 7)).
(* make x get "aa" add "bb"   x get "cc" add "dd"   shout(x) *)
Definition p_recycle : list op :=
  [OLit b_aa; OLit b_bb; OConcat; OMake 0; OLit b_cc; OLit b_dd; OConcat; OAssign 0; ORead 0; OShout].
(* make a get []   2 x ( a.push("aa" add "bb") )   shout(a) *)
Definition p_loop : list op :=
  [OMkArr 0; OMake 1;
   OLoopIter; OPushScope; OLit b_aa; OLit b_bb; OConcat; OPromote; OPush 1 []; OPopScope; OLoopIterEnd;
   OLoopIter; OPushScope; OLit b_aa; OLit b_bb; OConcat; OPromote; OPush 1 []; OPopScope; OLoopIterEnd;
   ORead 1; OShout].
(* do g() start make s get "aa" add "bb"  return s end   shout(g()) *)
Definition p_ret_frame : list op :=
  [OCallBegin; OCallBind []; OPushScope; OLit b_aa; OLit b_bb; OConcat; OMake 1; ORead 1;
   OPopScope; OCallEnd; OShout].
Definition p_ret_num : list op := [OCallBegin; OCallBind []; OPushScope; num7; OPopScope; OCallEnd; OShout].
Definition p_ret_lit : list op := [OCallBegin; OCallBind []; OPushScope; OLit b_cc; OPopScope; OCallEnd; OShout].
(* return arr.pop(): an owned string that lives in a pool slot *)
Definition p_ret_pool : list op :=
  [OCallBegin; OCallBind []; OPushScope; OLit b_aa; OLit b_bb; OConcat; OMkArr 1; OMake 3; OPop 3 [];
   OPopScope; OCallEnd; OShout].
(* return [p, "cc", [p add "dd"]] with a parameter *)
Definition p_ret_arr : list op :=
  [OCallBegin; OLit b_aa; OLit b_bb; OConcat; OCallBind [5]; OPushScope;
   ORead 5; OLit b_cc; ORead 5; OLit b_dd; OConcat; OMkArr 1; OMkArr 3; OPopScope; OCallEnd; OShout].
Definition cfg_alias_clone : cfg := mkCfg true true true.        (* before 8134a3d *)
Definition cfg_unpromoted_params : cfg := mkCfg false false true.  (* before 26ade90 *)
Definition cfg_no_staging : cfg := mkCfg false true false.
(* make x get "aa" add "bb"   x get x   shout(x) *)
Definition p_selfassign : list op :=
  [OLit b_aa; OLit b_bb; OConcat; OMake 0; ORead 0; OAssign 0; ORead 0; OShout].
(* make x get "aa" add "bb"   do f() start x get "cc" add "dd" return "!" end   shout(x add f()) *)
Definition p_addf : list op :=
  [OLit b_aa; OLit b_bb; OConcat; OMake 0; ORead 0; OCallBegin; OCallBind []; OPushScope;
   OLit b_cc; OLit b_dd; OConcat; OAssign 0; OLit [33%Z]; OPopScope; OCallEnd; OConcat; OShout].
(* do f(p) start 2 x ( p.push(7) ) return p end   shout(f([7])) *)
Definition p_param_array : list op :=
  [OCallBegin; num7; OMkArr 1; OCallBind [5]; OPushScope;
   OLoopIter; OPushScope; num7; OPromote; OPush 5 []; OPopScope; OLoopIterEnd;
   OLoopIter; OPushScope; num7; OPromote; OPush 5 []; OPopScope; OLoopIterEnd;
   ORead 5; OPopScope; OCallEnd; OShout].

(* a stored array (persistent store) whose EMPTY nested row still has the frame arena as its allocator:
   what `make b get [[]]` leaves behind when promote's array arm moves a nested row instead of rebuilding it *)
Definition st_frame_row : mstate :=
  mkSt (mkHeap [] [OVec 0] [OVec 1] [] [] 2)
       [[(0, MArr RPers 0 0 1 [MArr RFrame 0 1 0 []])]] [] [] [].
(* one loop iteration doing b[0].push(7), then shout(b) *)
Definition p_push_row_in_loop : list op :=
  [OLoopIter; OPushScope; num7; OPromote; OPush 0 [0]; OPopScope; OLoopIterEnd; ORead 0; OShout].

(* make s get "aa" add "bb"   do g() start s get "cc" add "dd" return "!" end
   do f(p, q) start shout(p) end   f(s, g())
   the first argument is read, then the second argument's evaluation overwrites the variable,
   then both are bound *)
Definition p_arg_then_reassign : list op :=
  [OLit b_aa; OLit b_bb; OConcat; OMake 0;
   OCallBegin; ORead 0;
     OCallBegin; OCallBind []; OPushScope; OLit b_cc; OLit b_dd; OConcat; OAssign 0; OLit [33%Z]; OPopScope; OCallEnd;
   OCallBind [1; 2]; OPushScope; ORead 1; OShout; OPopScope; OCallEnd; ODrop].

(* a stored record (persistent Vec of strings: what a process builder is, storage-wise) one of whose strings
   was built in the frame arena INSIDE the running loop iteration (mark 0): the state a mutator leaves behind
   when it keeps the frame copy of a computed string instead of building a persistent one *)
Definition st_frame_string_in_record : mstate :=
  mkSt (mkHeap [] [OVec 0] [OBytes b_aa] [] [] 1)
       [[(0, MArr RPers 0 0 1 [MOwned RFrame 0 2 2])]] [] [] [mkCtl true 0 [] 1].
Definition observe_from_ok (st : mstate) (ops : list op) : bool :=
  match run cfg_repaired st ops with
  | MOk st' => forallb (fun v => match erase (m_heap st') v with Some _ => true | None => false end) (m_out st')
  | _ => false
  end.
