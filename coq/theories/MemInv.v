(* MemInv.v — the invariant of the storage model (C02).  Definitions only. *)
From Coq Require Import ZArith List Bool Arith.
Require Import NS.theories.F64 NS.theories.Lang NS.theories.Mem.
Import ListNotations.
Local Open Scope nat_scope.

(* h' keeps every readable reference of class P readable, with the same content *)
Definition hext (P : ref -> Prop) (h h' : heap) : Prop :=
  forall rf p, P rf -> rd h rf = Some p -> rd h' rf = Some p.

Definition anyref (_ : ref) : Prop := True.

Definition vall (P : ref -> Prop) (v : mvalue) : Prop := Forall P (refs v).

Definition nf (rf : ref) : Prop := ref_region rf <> RFrame.
Definition bsr (rf : ref) : Prop := match rf with RefB false r _ _ => r = RStatic | _ => True end.
Definition below (m : nat) (rf : ref) : Prop := ref_region rf = RFrame -> ref_addr rf < m.
Definition avoid (l : list nat) (rf : ref) : Prop :=
  match rf with RefB _ RPool a _ => ~ In a l | _ => True end.
Definition ids (v : mvalue) : list nat := ids_of (refs v).
Definition slot_live (h : heap) (i : nat) : Prop :=
  exists c b, nth_error (h_slots h) i = Some (mkSlot c (Live b)).

Record HeapWF (h : heap) : Prop := {
  wf_free_poison : forall i, In i (h_free h) -> exists c, nth_error (h_slots h) i = Some (mkSlot c Poison);
  wf_free_nodup : NoDup (h_free h)
}.

Definition same_bump (h h' : heap) : Prop :=
  h_static h' = h_static h /\ h_pers h' = h_pers h /\ h_frame h' = h_frame h.

(* ---------- roots of a machine state ---------- *)
Definition env_vals (e : list scope) : list mvalue := flat_map (map snd) e.
Definition all_saved (ctl : list ctl) : list mvalue := flat_map c_saved ctl.
(* what is stored: every variable of every scope, and the output *)
Definition stored (st : mstate) : list mvalue := env_vals (m_env st) ++ m_out st.
(* temporaries of the current expression (incl. the pending return value) and of every
   suspended caller / enclosing loop *)
Definition temps (st : mstate) : list mvalue := m_tmps st ++ all_saved (m_ctl st).
Definition roots (st : mstate) : list mvalue := stored st ++ temps st.

(* stack discipline of the frame arena: the temporaries that were live when a mark was
   taken lie below that mark, and marks are nested *)
Fixpoint CtlOK (ctl : list ctl) (fh : nat) : Prop :=
  match ctl with
  | [] => True
  | c :: rest =>
      c_mark c <= fh /\ Forall (vall (below (c_mark c))) (c_saved c) /\ CtlOK rest (c_mark c)
  end.

Record MemInv (st : mstate) : Prop := {
  (* the free list holds distinct, poisoned slots *)
  inv_wf : HeapWF (m_heap st);
  (* every reference reachable from a root is live *)
  inv_live : Forall (fun v => erase (m_heap st) v <> None) (roots st);
  (* a pool slot has exactly one owner among all roots *)
  inv_excl : NoDup (flat_map ids (roots st));
  (* nothing stored in the environment or the output points into the frame arena *)
  inv_nf : Forall (vall nf) (stored st);
  (* a Borrowed string points into static text only (never into the frame or a pool slot) *)
  inv_bs : Forall (vall bsr) (roots st);
  inv_ctl : CtlOK (m_ctl st) (length (h_frame (m_heap st)))
}.

(* ---------- agreement with the reclamation-free machine ---------- *)
Definition vrel (h : heap) (v : mvalue) (a : value) : Prop := erase h v = Some a.
Definition prel (Q : mvalue -> value -> Prop) (p : nat * mvalue) (q : nat * value) : Prop :=
  fst p = fst q /\ Q (snd p) (snd q).
Definition crel (Q : mvalue -> value -> Prop) (c : ctl) (ac : actl) : Prop :=
  c_loop c = ac_loop ac /\ c_floor c = ac_floor ac /\ Forall2 Q (c_saved c) (ac_saved ac).

Record SimQ (Q : mvalue -> value -> Prop) (st : mstate) (ast : astate) : Prop := {
  sim_env : Forall2 (Forall2 (prel Q)) (m_env st) (a_env ast);
  sim_out : Forall2 Q (m_out st) (a_out ast);
  sim_tmps : Forall2 Q (m_tmps st) (a_tmps ast);
  sim_ctl : Forall2 (crel Q) (m_ctl st) (a_ctl ast)
}.
(* every root erases to the value the reclamation-free machine holds at the same place *)
Definition Sim (st : mstate) (ast : astate) : Prop := SimQ (vrel (m_heap st)) st ast.
