(* MemSrc.v — the configuration of the storage machine that the CURRENT source induces (C02).
   theories/GenMem.v is regenerated from src/runtime.rs and src/arena/cow.rs by
   translator/gen_mem.py on every check.  Definitions only. *)
From Coq Require Import Bool.
Require Import NS.theories.GenMem NS.theories.Mem.

(* clone / parameter binding / relocate as the source has them today *)
Definition cfg_source : cfg := mkCfg (negb src_clone_copies) src_bind_promotes src_relocate_stages.

(* every store site of the evaluator promotes (and ArenaCow::promote copies), as theories/Mem.v assumes *)
Definition source_discipline : bool :=
  src_var_read_clones && src_args_evaluated && src_clone_copies && src_clone_rebuilds && src_promote_rebuilds && src_bind_promotes && src_relocate_stages && src_relocate_arrays &&
  src_stores_promote && src_promote_copies &&
  (* host records: every string stored inside a boxed builder / result is built in the persistent arena, because
     HostHandle::promote looks at the handle only (strengthening round) *)
  src_host_discipline.
