(* NumParse.v — `to_number`: Rust's `s.parse::<f64>().unwrap_or(f64::NAN)`
   (src/builtins/string.rs to_number; std: library/core/src/num/imp/dec2flt/{mod,parse}.rs).
   Definitions only; theorems in proofs/NumParseProofs.v.

   Grammar accepted by `dec2flt` (transcribed from `dec2flt`, `parse_partial_number`,
   `parse_scientific`, `parse_number`, `parse_inf_nan`):
     text     ::= [ '+' | '-' ] body            (exactly one optional sign; body non-empty)
     body     ::= decimal | special
     decimal  ::= digits [ '.' digits0 ] [ exp ] | '.' digits [ exp ]
                  (at least one digit in integer + fraction part together)
     exp      ::= ( 'e' | 'E' ) [ '+' | '-' ] digits      (at least one digit)
     special  ::= "inf" | "infinity" | "nan"   in any letter case (bytes compared after `& 0xDF`)
   No surrounding white space, no underscores, ASCII digits only, nothing may follow.
   Everything else is a parse error, which `to_number` turns into NaN.

   Value: the decimal, correctly rounded to the nearest binary64, ties to even, overflow to
   infinity, underflow to (signed) zero — computed here from the exact rational by integer
   arithmetic ([round_q]).  std reaches the same value through a fast path, Eisel-Lemire and
   a big-decimal fallback; that those agree with correct rounding is what the correspondence
   run checks against rustc.  (std saturates the exponent literal at 65536..655369 while
   scanning; for texts shorter than 65 000 bytes this cannot change the result, longer
   numerals with such exponents are outside what was validated.) *)
From Coq Require Import ZArith List Bool SpecFloat.
Require Import NS.theories.F64.
Import ListNotations.
Open Scope Z_scope.

Definition is_digit (b : Z) : bool := (48 <=? b) && (b <=? 57).

(* longest prefix of ASCII digits, and what follows *)
Fixpoint span_digits (s : bytes) : bytes * bytes :=
  match s with
  | b :: t => if is_digit b then let '(d, r) := span_digits t in (b :: d, r) else ([], s)
  | [] => ([], [])
  end.

Fixpoint digits_val (acc : Z) (ds : bytes) : Z :=
  match ds with
  | [] => acc
  | d :: t => digits_val (acc * 10 + (d - 48)) t
  end.

(* parse_scientific, after the 'e': optional sign, at least one digit, then the end *)
Definition parse_exp (s : bytes) : option Z :=
  let '(neg, s1) :=
    match s with
    | c :: t => if c =? 45 then (true, t) else if c =? 43 then (false, t) else (false, s)
    | [] => (false, s)
    end in
  let '(ds, r) := span_digits s1 in
  match ds, r with
  | _ :: _, [] => Some (if neg then - digits_val 0 ds else digits_val 0 ds)
  | _, _ => None
  end.

(* parse_number: all digits of integer and fraction part, and the decimal exponent that
   applies to them read as one integer *)
Definition parse_decimal (s : bytes) : option (bytes * Z) :=
  let '(ip, r1) := span_digits s in
  let '(fp, r2) :=
    match r1 with
    | c :: t => if c =? 46 then span_digits t else ([], r1)
    | [] => ([], r1)
    end in
  match ip ++ fp with
  | [] => None
  | ds =>
      match r2 with
      | [] => Some (ds, - Z.of_nat (length fp))
      | c :: t =>
          if (c =? 101) || (c =? 69) then
            match parse_exp t with
            | Some x => Some (ds, x - Z.of_nat (length fp))
            | None => None
            end
          else None
      end
  end.

Fixpoint bytes_eqb (a b : bytes) : bool :=
  match a, b with
  | [], [] => true
  | x :: a', y :: b' => (x =? y) && bytes_eqb a' b'
  | _, _ => false
  end.

(* parse_inf_nan: `register &= 0xDFDF..` then compare with "INF" / "INFINITY" / "NAN" *)
Definition fold_case (s : bytes) : bytes := map (fun b => Z.land b 223) s.
Definition is_inf_text (s : bytes) : bool :=
  bytes_eqb (fold_case s) [73; 78; 70] || bytes_eqb (fold_case s) [73; 78; 70; 73; 78; 73; 84; 89].
Definition is_nan_text (s : bytes) : bool := bytes_eqb (fold_case s) [78; 65; 78].

(* ---- correct rounding of a positive rational a/b ---- *)

(* floor (log2 (a/b)) for a, b > 0 *)
Definition flog2_q (a b : Z) : Z :=
  let l := Z.log2 a - Z.log2 b in
  let ge := if 0 <=? l then b * 2 ^ l <=? a else b <=? a * 2 ^ (- l) in
  if ge then l else l - 1.

(* a/b in units of 2^E, rounded to nearest, ties to even *)
Definition scaled_rne (a b E : Z) : Z :=
  if 0 <=? E then rne a (b * 2 ^ E) else rne (a * 2 ^ (- E)) b.

Definition round_q (neg : bool) (a b : Z) : f64 :=
  let E := Z.max (-1074) (flog2_q a b - 52) in
  let M := scaled_rne a b E in
  let '(M', E') := if M =? 2 ^ 53 then (2 ^ 52, E + 1) else (M, E) in
  if 971 <? E' then S754_infinity neg
  else match M' with
       | Zpos p => S754_finite neg p E'
       | _ => S754_zero neg
       end.

Fixpoint strip_leading_zeros (ds : bytes) : bytes :=
  match ds with
  | d :: t => if d =? 48 then strip_leading_zeros t else ds
  | [] => []
  end.

(* the exact value of digits ds times 10^e as a fraction *)
Definition dec_fraction (w e : Z) : Z * Z :=
  if 0 <=? e then (w * 10 ^ e, 1) else (w, 10 ^ (- e)).

(* value of the numeral: digits ds (read as an integer) times 10^e.  The two early exits
   avoid computing astronomically large powers; proofs/NumParseProofs.v shows they return
   what [round_q] of the exact fraction returns. *)
Definition round_dec (neg : bool) (ds : bytes) (e : Z) : f64 :=
  let sig := strip_leading_zeros ds in
  match sig with
  | [] => S754_zero neg
  | _ =>
      let nd := Z.of_nat (length sig) in
      if 310 <? nd + e then S754_infinity neg
      else if nd + e <? -330 then S754_zero neg
      else let '(a, b) := dec_fraction (digits_val 0 sig) e in round_q neg a b
  end.

(* Result<f64, ParseFloatError> as an option *)
Definition parse_f64 (s : bytes) : option f64 :=
  match s with
  | [] => None
  | c :: t =>
      let neg := c =? 45 in
      let body := if (c =? 45) || (c =? 43) then t else s in
      match body with
      | [] => None
      | _ =>
          match parse_decimal body with
          | Some (ds, e) => Some (round_dec neg ds e)
          | None =>
              if is_inf_text body then Some (S754_infinity neg)
              else if is_nan_text body then Some S754_nan
              else None
          end
      end
  end.

Definition to_number (s : bytes) : f64 :=
  match parse_f64 s with Some x => x | None => S754_nan end.

(* observation exchanged with the harness: the bit pattern, NaN canonical *)
Definition to_number_bits (s : bytes) : Z := to_bits (to_number s).

(* Display then to_number, as one observation: the text and the bit pattern parsed back *)
Definition roundtrip_obs (b : Z) : bytes * Z :=
  let t := fmt (of_bits b) in (t, to_number_bits t).
